(* C15: what the three digit loops of render_value compute, for ALL integers.
   numeric    = positional notation in base k (k >= 2): decode (digits n) = n, digits valid, no leading zero,
                and the representation is the only such one;
   alphabetic = bijective base-k numeration (k >= 1): decode and the loop are inverse bijections between
                the non-negative integers and the lists of digits 0..k-1;
   additive   = the chosen symbols' weights sum to the value whenever the loop yields a representation. *)
From Coq Require Import ZArith List Bool Lia.
Require Import WV.model.C15Style.
Import ListNotations.
Open Scope Z_scope.

Definition valid_digits (k : Z) (ds : list Z) : Prop := Forall (fun d => 0 <= d < k) ds.

(* ------------------------------------------------------------------ the fuel the model gives is enough *)
Lemma log2_fuel_bound v : 0 <= v -> v < 2 ^ Z.of_nat (digit_fuel v).
Proof.
  intros Hv. unfold digit_fuel. rewrite Z.abs_eq by lia.
  rewrite Nat2Z.inj_succ, Z2Nat.id by apply Z.log2_nonneg.
  destruct (Z.eq_dec v 0) as [->|Hn].
  - simpl. lia.
  - apply Z.log2_spec. lia.
Qed.

Lemma div_lt_pow2 v k n : 2 <= k -> 0 <= v -> v < 2 ^ (Z.of_nat (S n)) -> v / k < 2 ^ Z.of_nat n.
Proof.
  intros Hk Hv Hlt. rewrite Nat2Z.inj_succ, Z.pow_succ_r in Hlt by lia.
  apply Z.div_lt_upper_bound; [lia|]. nia.
Qed.

(* ------------------------------------------------------------------------------------------- numeric *)
Definition decode (k : Z) (ds : list Z) : Z := fold_left (fun a d => a * k + d) ds 0.

Lemma fold_decode_app k ds : forall a, fold_left (fun a d => a * k + d) ds a
                                   = a * k ^ Z.of_nat (length ds) + decode k ds.
Proof.
  unfold decode. induction ds as [|d ds IH]; intros a.
  - simpl. lia.
  - cbn [fold_left length]. rewrite IH. rewrite (IH (0 * k + d)).
    rewrite Nat2Z.inj_succ, Z.pow_succ_r by lia. ring.
Qed.

Lemma decode_cons k d ds : decode k (d :: ds) = d * k ^ Z.of_nat (length ds) + decode k ds.
Proof. unfold decode at 1. simpl. rewrite fold_decode_app. ring. Qed.

(* general invariant of the loop: value of (digits produced so far) *)
Lemma num_loop_inv k : 2 <= k -> forall fuel v acc,
  0 <= v -> v < 2 ^ Z.of_nat fuel ->
  exists ds, num_loop fuel k v acc = Some (ds ++ acc) /\ decode k ds = v /\ valid_digits k ds /\
             (0 < v -> exists d rest, ds = d :: rest /\ d <> 0) /\ (v = 0 -> ds = []).
Proof.
  intros Hk. induction fuel as [|f IH]; intros v acc Hv Hlt.
  - simpl in Hlt. assert (v = 0) by lia. subst. exists []. simpl. repeat split; auto; try constructor; lia.
  - simpl. destruct (Z.eqb_spec v 0) as [->|Hn].
    + exists []. repeat split; auto; try constructor; lia.
    + assert (Hq : 0 <= v / k) by (apply Z.div_pos; lia).
      destruct (IH (v / k) ((v mod k) :: acc) Hq (div_lt_pow2 v k f Hk Hv Hlt))
        as (ds & Hrun & Hdec & Hval & Hlead & Hzero).
      exists (ds ++ [v mod k]). rewrite <- app_assoc. split; [exact Hrun|].
      assert (Hm : 0 <= v mod k < k) by (apply Z.mod_pos_bound; lia).
      split; [|split; [|split]].
      * unfold decode. rewrite fold_left_app. simpl. fold (decode k ds). rewrite Hdec.
        rewrite (Z.div_mod v k) at 3 by lia. ring.
      * apply Forall_app. split; [exact Hval|]. constructor; [exact Hm|constructor].
      * intros _. destruct (Z.eq_dec (v / k) 0) as [Hz|Hnz].
        -- rewrite (Hzero Hz). simpl. exists (v mod k), []. split; [reflexivity|].
           rewrite (Z.div_mod v k) in Hn by lia. rewrite Hz in Hn. lia.
        -- destruct Hlead as (d & rest & -> & Hd); [lia|]. exists d, (rest ++ [v mod k]). split; auto.
      * intros ->. lia.
Qed.

(* numeric_roundtrip: for every base k >= 2 and every n >= 0 the loop (with the fuel the model gives)
   produces valid digits, most significant first, without leading zero, whose value is n. *)
Theorem numeric_roundtrip k n : 2 <= k -> 0 <= n ->
  exists ds, num_loop (digit_fuel n) k n [] = Some ds /\ decode k ds = n /\ valid_digits k ds /\
             (0 < n -> exists d rest, ds = d :: rest /\ d <> 0).
Proof.
  intros Hk Hn. destruct (num_loop_inv k Hk (digit_fuel n) n [] Hn (log2_fuel_bound n Hn))
    as (ds & Hrun & Hdec & Hval & Hlead & _).
  exists ds. rewrite app_nil_r in Hrun. auto.
Qed.

Example numeric_roundtrip_ex : num_loop (digit_fuel 2026) 10 2026 [] = Some [2; 0; 2; 6] /\ decode 10 [2; 0; 2; 6] = 2026.
Proof. split; reflexivity. Qed.

Corollary numeric_injective k n m : 2 <= k -> 0 <= n -> 0 <= m ->
  num_loop (digit_fuel n) k n [] = num_loop (digit_fuel m) k m [] -> n = m.
Proof.
  intros Hk Hn Hm E.
  destruct (numeric_roundtrip k n Hk Hn) as (ds & R1 & D1 & _).
  destruct (numeric_roundtrip k m Hk Hm) as (ds' & R2 & D2 & _).
  rewrite R1, R2 in E. injection E as ->. congruence.
Qed.

(* positional notation is unique: the loop's output is THE representation *)
Definition no_leading_zero (ds : list Z) : Prop := forall d rest, ds = d :: rest -> d <> 0.

Lemma decode_snoc k ds d : decode k (ds ++ [d]) = decode k ds * k + d.
Proof. unfold decode. rewrite fold_left_app. reflexivity. Qed.

Lemma decode_bounds k ds : 2 <= k -> valid_digits k ds -> 0 <= decode k ds < k ^ Z.of_nat (length ds).
Proof.
  intros Hk. induction ds as [|d ds IH] using rev_ind; intros Hv.
  - unfold decode. simpl. lia.
  - apply Forall_app in Hv. destruct Hv as [Hv Hd]. inversion Hd as [|? ? Hd0 _]; subst.
    specialize (IH Hv). rewrite decode_snoc.
    rewrite app_length. simpl length. rewrite Nat.add_1_r, Nat2Z.inj_succ, Z.pow_succ_r by lia. nia.
Qed.

Lemma decode_pos k ds : 2 <= k -> valid_digits k ds -> no_leading_zero ds -> ds <> [] -> 0 < decode k ds.
Proof.
  intros Hk Hv Hl Hne. destruct ds as [|d rest]; [contradiction|].
  assert (d <> 0) by (apply (Hl d rest); reflexivity).
  inversion Hv as [|? ? Hd Hv']; subst. rewrite decode_cons.
  assert (0 < k ^ Z.of_nat (length rest)) by (apply Z.pow_pos_nonneg; lia).
  pose proof (decode_bounds k rest Hk Hv'). nia.
Qed.

Lemma no_leading_zero_snoc ds d : ds <> [] -> no_leading_zero (ds ++ [d]) -> no_leading_zero ds.
Proof. intros Hne H d0 rest ->. apply (H d0 (rest ++ [d])). reflexivity. Qed.

Lemma decode_inj k : 2 <= k -> forall ds ds',
  valid_digits k ds -> valid_digits k ds' -> no_leading_zero ds -> no_leading_zero ds' ->
  decode k ds = decode k ds' -> ds = ds'.
Proof.
  intros Hk. induction ds as [|x ds IH] using rev_ind; intros ds' Hv Hv' Hl Hl' E.
  - destruct ds' as [|d' r']; [reflexivity|]. exfalso.
    pose proof (decode_pos k (d' :: r') Hk Hv' Hl' ltac:(discriminate)). unfold decode in E at 1. simpl in E. lia.
  - destruct ds' as [|y ds'] using rev_ind.
    + exfalso. pose proof (decode_pos k (ds ++ [x]) Hk Hv Hl ltac:(intros C; destruct ds; discriminate)).
      unfold decode in E at 2. simpl in E. lia.
    + clear IHds'. rewrite !decode_snoc in E.
      apply Forall_app in Hv. destruct Hv as [Hv Hx]. inversion Hx as [|? ? Hx0 _]; subst.
      apply Forall_app in Hv'. destruct Hv' as [Hv' Hy]. inversion Hy as [|? ? Hy0 _]; subst.
      pose proof (decode_bounds k ds Hk Hv). pose proof (decode_bounds k ds' Hk Hv').
      assert (decode k ds = decode k ds' /\ x = y) as [Hq ->].
      { apply (Z.div_mod_unique k); [left; lia|left; lia|lia]. }
      f_equal. destruct ds as [|a ra]; destruct ds' as [|b rb]; try reflexivity.
      * exfalso. assert (0 < decode k (b :: rb)).
        { apply decode_pos; auto; [|discriminate]. apply (no_leading_zero_snoc _ y); [discriminate|exact Hl']. }
        unfold decode in Hq at 1. simpl in Hq. lia.
      * exfalso. assert (0 < decode k (a :: ra)).
        { apply decode_pos; auto; [|discriminate]. apply (no_leading_zero_snoc _ y); [discriminate|exact Hl]. }
        unfold decode in Hq at 2. simpl in Hq. lia.
      * apply IH; auto.
        -- apply (no_leading_zero_snoc _ y); [discriminate|exact Hl].
        -- apply (no_leading_zero_snoc _ y); [discriminate|exact Hl'].
Qed.

Theorem numeric_unique k ds : 2 <= k -> valid_digits k ds -> no_leading_zero ds ->
  num_loop (digit_fuel (decode k ds)) k (decode k ds) [] = Some ds.
Proof.
  intros Hk Hv Hl. pose proof (decode_bounds k ds Hk Hv) as Hb.
  destruct (num_loop_inv k Hk (digit_fuel (decode k ds)) (decode k ds) [] (proj1 Hb) (log2_fuel_bound _ (proj1 Hb)))
    as (ds' & Hrun & Hdec & Hval & Hlead & Hzero).
  rewrite app_nil_r in Hrun. rewrite Hrun. f_equal.
  apply (decode_inj k Hk); auto.
  intros d rest ->. destruct (Z.eq_dec (decode k ds) 0) as [Hz|Hnz].
  - specialize (Hzero Hz). discriminate.
  - destruct Hlead as (d1 & r1 & Heq & Hd1); [lia|]. injection Heq as <- _. exact Hd1.
Qed.

Example numeric_unique_ex : num_loop (digit_fuel (decode 7 [3; 0; 6])) 7 (decode 7 [3; 0; 6]) [] = Some [3; 0; 6].
Proof. reflexivity. Qed.

(* ---------------------------------------------------------------------------------------- alphabetic *)
(* bijective base-k numeration: digit d (0-based index of the symbol) stands for d+1 *)
Definition decode_bij (k : Z) (ds : list Z) : Z := fold_left (fun a d => a * k + d + 1) ds 0.

Lemma decode_bij_snoc k ds d : decode_bij k (ds ++ [d]) = decode_bij k ds * k + d + 1.
Proof. unfold decode_bij. rewrite fold_left_app. reflexivity. Qed.

Lemma decode_bij_nonneg k ds : 2 <= k -> valid_digits k ds -> 0 <= decode_bij k ds.
Proof.
  intros Hk. induction ds as [|d ds IH] using rev_ind; intros Hv.
  - unfold decode_bij. simpl. lia.
  - apply Forall_app in Hv. destruct Hv as [Hv Hd]. inversion Hd as [|? ? Hd0 _]; subst.
    rewrite decode_bij_snoc. specialize (IH Hv). nia.
Qed.

Lemma alpha_loop_inv k : 2 <= k -> forall fuel v acc,
  0 <= v -> v < 2 ^ Z.of_nat fuel ->
  exists ds, alpha_loop fuel k v acc = Some (ds ++ acc) /\ decode_bij k ds = v /\ valid_digits k ds.
Proof.
  intros Hk. induction fuel as [|f IH]; intros v acc Hv Hlt.
  - simpl in Hlt. assert (v = 0) by lia. subst. exists []. simpl. repeat split; auto. constructor.
  - simpl. destruct (Z.eqb_spec v 0) as [->|Hn].
    + exists []. repeat split; auto. constructor.
    + assert (Hq : 0 <= (v - 1) / k) by (apply Z.div_pos; lia).
      assert (Hlt' : (v - 1) / k < 2 ^ Z.of_nat f) by (apply div_lt_pow2; auto; lia).
      destruct (IH ((v - 1) / k) (((v - 1) mod k) :: acc) Hq Hlt') as (ds & Hrun & Hdec & Hval).
      exists (ds ++ [(v - 1) mod k]). rewrite <- app_assoc. split; [exact Hrun|].
      assert (Hm : 0 <= (v - 1) mod k < k) by (apply Z.mod_pos_bound; lia).
      split.
      * rewrite decode_bij_snoc, Hdec. pose proof (Z.div_mod (v - 1) k ltac:(lia)). lia.
      * apply Forall_app. split; [exact Hval|]. constructor; [exact Hm|constructor].
Qed.

(* every n >= 0 has a representation whose bijective value is n ... *)
Theorem alphabetic_roundtrip k n : 2 <= k -> 0 <= n ->
  exists ds, alpha_loop (digit_fuel n) k n [] = Some ds /\ decode_bij k ds = n /\ valid_digits k ds.
Proof.
  intros Hk Hn. destruct (alpha_loop_inv k Hk (digit_fuel n) n [] Hn (log2_fuel_bound n Hn)) as (ds & Hrun & H).
  exists ds. rewrite app_nil_r in Hrun. auto.
Qed.

Lemma decode_bij_inj k : 2 <= k -> forall ds ds',
  valid_digits k ds -> valid_digits k ds' -> decode_bij k ds = decode_bij k ds' -> ds = ds'.
Proof.
  intros Hk. induction ds as [|x ds IH] using rev_ind; intros ds' Hv Hv' E.
  - destruct ds' as [|y ds'] using rev_ind; [reflexivity|]. exfalso. clear IHds'.
    apply Forall_app in Hv'. destruct Hv' as [Hv' Hy]. inversion Hy as [|? ? Hy0 _]; subst.
    rewrite decode_bij_snoc in E. pose proof (decode_bij_nonneg k ds' Hk Hv'). unfold decode_bij in E at 1.
    simpl in E. nia.
  - apply Forall_app in Hv. destruct Hv as [Hv Hx]. inversion Hx as [|? ? Hx0 _]; subst.
    destruct ds' as [|y ds'] using rev_ind.
    + exfalso. rewrite decode_bij_snoc in E. pose proof (decode_bij_nonneg k ds Hk Hv).
      unfold decode_bij in E at 2. simpl in E. nia.
    + clear IHds'. apply Forall_app in Hv'. destruct Hv' as [Hv' Hy]. inversion Hy as [|? ? Hy0 _]; subst.
      rewrite !decode_bij_snoc in E.
      assert (decode_bij k ds = decode_bij k ds' /\ x = y) as [Hq ->].
      { apply (Z.div_mod_unique k); [left; lia|left; lia|lia]. }
      f_equal. apply IH; auto.
Qed.

(* ... and every list of digits is the representation of its value: the loop and decode_bij are inverse
   bijections between the naturals and the words over k symbols (the empty word stands for 0) *)
Theorem alphabetic_bijective k ds : 2 <= k -> valid_digits k ds ->
  alpha_loop (digit_fuel (decode_bij k ds)) k (decode_bij k ds) [] = Some ds.
Proof.
  intros Hk Hv. pose proof (decode_bij_nonneg k ds Hk Hv) as Hn.
  destruct (alphabetic_roundtrip k (decode_bij k ds) Hk Hn) as (ds' & Hrun & Hdec & Hval).
  rewrite Hrun. f_equal. apply (decode_bij_inj k Hk); auto.
Qed.

Example alphabetic_ex : alpha_loop (digit_fuel 703) 26 703 [] = Some [0; 0; 0] /\ decode_bij 26 [0; 0; 0] = 703
                        /\ alpha_loop (digit_fuel 702) 26 702 [] = Some [25; 25].
Proof. repeat split; reflexivity. Qed.

Corollary alphabetic_injective k n m : 2 <= k -> 0 <= n -> 0 <= m ->
  alpha_loop (digit_fuel n) k n [] = alpha_loop (digit_fuel m) k m [] -> n = m.
Proof.
  intros Hk Hn Hm E.
  destruct (alphabetic_roundtrip k n Hk Hn) as (ds & R1 & D1 & _).
  destruct (alphabetic_roundtrip k m Hk Hm) as (ds' & R2 & D2 & _).
  rewrite R1, R2 in E. injection E as ->. congruence.
Qed.

(* ------------------------------------------------------------------------------------------ additive *)
Definition sum_w (parts : list (Z * sym)) : Z := fold_right (fun ws a => fst ws + a) 0 parts.

Lemma sum_w_app a b : sum_w (a ++ b) = sum_w a + sum_w b.
Proof. induction a as [|x a IH]; simpl; [lia|]. rewrite IH. lia. Qed.
Lemma sum_w_repeat w s n : sum_w (repeat (w, s) n) = w * Z.of_nat n.
Proof. induction n as [|n IH]; [simpl; lia|]. rewrite Nat2Z.inj_succ. simpl. rewrite IH. lia. Qed.

Lemma add_loop_inv : forall l rem parts out,
  Forall (fun ws => 0 <= fst ws) l -> 0 <= rem ->
  add_loop l rem parts = Some out ->
  sum_w out = sum_w parts + rem /\ exists extra, out = parts ++ extra /\ Forall (fun p => In p l) extra.
Proof.
  induction l as [|[w s] l IH]; intros rem parts out Hw Hrem Hrun; simpl in Hrun; [discriminate|].
  inversion Hw as [|? ? Hw0 Hw']; subst. simpl in Hw0.
  destruct (Z.eqb_spec w 0) as [->|Hnz].
  - destruct (IH rem parts out Hw' Hrem Hrun) as (Hs & extra & -> & Hin).
    split; [exact Hs|]. exists extra. split; [reflexivity|].
    eapply Forall_impl; [|exact Hin]. intros p Hp. right. exact Hp.
  - assert (Hpos : 0 < w) by lia.
    assert (Hreps : 0 <= rem / w) by (apply Z.div_pos; lia).
    assert (Hrem' : rem - w * (rem / w) = rem mod w) by (rewrite Z.mod_eq by lia; ring).
    assert (Hmod : 0 <= rem mod w < w) by (apply Z.mod_pos_bound; lia).
    assert (Hin0 : Forall (fun p => In p ((w, s) :: l)) (repeat (w, s) (Z.to_nat (rem / w)))).
    { apply Forall_forall. intros p Hp. apply repeat_spec in Hp. subst. left. reflexivity. }
    destruct (Z.eqb_spec (rem - w * (rem / w)) 0) as [Hz|Hnz'].
    + injection Hrun as <-. split.
      * rewrite sum_w_app, sum_w_repeat, Z2Nat.id by lia. lia.
      * eexists. split; [reflexivity|exact Hin0].
    + destruct (IH (rem - w * (rem / w)) _ out Hw' ltac:(lia) Hrun) as (Hs & extra & -> & Hin).
      split.
      * rewrite Hs, sum_w_app, sum_w_repeat, Z2Nat.id by lia. lia.
      * exists (repeat (w, s) (Z.to_nat (rem / w)) ++ extra). rewrite app_assoc. split; [reflexivity|].
        apply Forall_app. split; [exact Hin0|]. eapply Forall_impl; [|exact Hin]. intros p Hp. right. exact Hp.
Qed.

(* additive_sums_to_value: whenever the additive loop yields a representation, its symbols are tuples of the
   descriptor and their weights sum to the value (any list of non-negative weights, any value >= 0) *)
Theorem additive_sums_to_value l v parts :
  Forall (fun ws => 0 <= fst ws) l -> 0 <= v ->
  add_loop l v [] = Some parts -> sum_w parts = v /\ Forall (fun p => In p l) parts.
Proof.
  intros Hw Hv Hrun. destruct (add_loop_inv l v [] parts Hw Hv Hrun) as (Hs & extra & -> & Hin).
  simpl in *. split; [lia|exact Hin].
Qed.

Example additive_ex :
  add_loop [(10, SStr [120]); (9, SStr [105; 120]); (5, SStr [118]); (4, SStr [105; 118]); (1, SStr [105])] 19 []
  = Some [(10, SStr [120]); (9, SStr [105; 120])].
Proof. reflexivity. Qed.

(* with a symbol of weight 1 every value >= 0 is representable (roman, hebrew, ... never fall back in range) *)
Theorem additive_total_with_unit : forall l v parts s,
  Forall (fun ws => 0 <= fst ws) l -> 0 <= v -> In (1, s) l -> add_loop l v parts <> None.
Proof.
  induction l as [|[w s0] l IH]; intros v parts s Hw Hv Hin; [contradiction|].
  inversion Hw as [|? ? Hw0 Hw']; subst. simpl in Hw0. simpl.
  destruct Hin as [Heq|Hin].
  - injection Heq as -> ->. change (1 =? 0) with false. cbv beta iota zeta.
    rewrite Z.div_1_r. replace (v - 1 * v) with 0 by lia. rewrite Z.eqb_refl. discriminate.
  - destruct (Z.eqb_spec w 0) as [->|Hnz]; [eapply IH; eauto|].
    destruct (Z.eqb_spec (v - w * (v / w)) 0); [discriminate|].
    eapply IH; eauto. rewrite <- Z.mod_eq by lia. apply Z.mod_pos_bound. lia.
Qed.

(* the loop is greedy: what is left after using a weight is smaller than that weight *)
Lemma add_loop_none_weight0 : forall l v parts, Forall (fun ws => fst ws = 0) l -> add_loop l v parts = None.
Proof.
  induction l as [|[w s] l IH]; intros v parts H; [reflexivity|]. inversion H as [|? ? H0 H']; subst.
  simpl in H0. subst. simpl. apply IH. exact H'.
Qed.
