(* C12 - the regenerated slices of flex_layout step 6 (gen/GenFlexResolve.v, run in proofs/C12_gen_flex_run.v)
   compute the definitions of the hand model model/C12Flex.v on which the C12 flex theorems rest.
   [item_of] / [fst_of] read an item of the source (an attribute bag, see proofs/C12_gen_flex_base.v) as the
   model's item / loop state; the source-order functions of the slices are then the model's functions: equal where
   the model computes the same expression, == on rationals where the order of the additions differs. *)
From Coq Require Import QArith Qminmax Qabs Lqa List String Bool ZArith Lia.
Require Import WV.base.Py WV.gen.GenFlexResolve WV.model.C12Flex.
Require Import WV.proofs.C12_gen_flex_base WV.proofs.C12_gen_flex_run.
Import ListNotations.
Open Scope Q_scope.

Definition item_of (wide : bool) (c : cst) : item :=
  mkItem (k_base c) (if wide then k_mnw c else k_mnh c) (Some (if wide then k_mxw c else k_mxh c))
         (k_g c) (k_sh c) (k_extra c).
Definition fst_of (wide : bool) (r : rst) : C12Flex.fst := mkF (item_of wide (r_c r)) (r_b r) (r_t r).
Definition md_of (grow : bool) : mode := if grow then Grow else Shrink.

Lemma Qle_bool_false a b : Qle_bool a b = false <-> b < a.
Proof.
  split; intros H.
  - apply Qnot_le_lt. intros L. apply Qle_bool_iff in L. congruence.
  - destruct (Qle_bool a b) eqn:E; [|reflexivity]. apply Qle_bool_iff in E. lra.
Qed.
Lemma Qeq_bool_false a b : Qeq_bool a b = false <-> ~ a == b.
Proof.
  split; intros H.
  - intros E. apply Qeq_bool_iff in E. congruence.
  - destruct (Qeq_bool a b) eqn:E; [|reflexivity]. apply Qeq_bool_iff in E. contradiction.
Qed.

(* ---- 9.7.5.d: the clamping slice is the model's fix_viol, exactly *)
Theorem clamp_is_fix_viol wide r :
  fst_of wide (clamp_src wide r) = Datatypes.fst (fix_viol (fst_of wide r)) /\
  r_a (clamp_src wide r) = snd (fix_viol (fst_of wide r)).
Proof. destruct r as [c b t f a]; destruct b, wide; split; reflexivity. Qed.

(* ---- 9.7.5.e *)
Lemma fold_sum {T} (f : T -> Q) : forall l acc, fold_left Qplus (map f l) acc == acc + sumQ f l.
Proof.
  induction l as [|x l IH]; intros acc; cbn [map fold_left sumQ]; [lra|]. rewrite IH. lra.
Qed.
Lemma adj_sum_is wide l : adj_sum l == sumQ snd (map (fun r => (fst_of wide r, r_a r)) l).
Proof.
  unfold adj_sum. rewrite fold_sum.
  assert (H : sumQ r_a l == sumQ snd (map (fun r => (fst_of wide r, r_a r)) l))
    by (induction l as [|r l IH]; cbn [map sumQ snd]; [reflexivity|rewrite IH; reflexivity]).
  rewrite H. lra.
Qed.
Theorem freeze_is_freeze wide tot tot' r : tot == tot' ->
  fst_of wide (freeze_src tot r) = freeze tot' (fst_of wide r, r_a r).
Proof.
  intros E. destruct r as [c b t f a]. unfold freeze_src, freeze, freeze_b, fst_of, with_b, set_frozen. cbn [r_a r_b r_c r_t ffrozen fit ftarget].
  destruct (Qeq_dec tot' 0) as [Z|NZ].
  - assert (H : Qeq_bool tot 0 = true) by (apply Qeq_bool_iff; lra). rewrite H. reflexivity.
  - assert (H : Qeq_bool tot 0 = false) by (apply Qeq_bool_false; lra). rewrite H.
    destruct (Qlt_le_dec 0 tot') as [P|N].
    + assert (H1 : Qle_bool tot 0 = false) by (apply Qle_bool_false; lra). rewrite H1. cbn [negb andb].
      destruct (Qlt_le_dec 0 a) as [Pa|Na].
      * assert (H2 : Qle_bool a 0 = false) by (apply Qle_bool_false; lra). rewrite H2. reflexivity.
      * assert (H2 : Qle_bool a 0 = true) by (apply Qle_bool_iff; lra). rewrite H2. cbn [negb].
        assert (H3 : Qle_bool 0 tot = true) by (apply Qle_bool_iff; lra). rewrite H3. reflexivity.
    + assert (H1 : Qle_bool tot 0 = true) by (apply Qle_bool_iff; lra). rewrite H1. cbn [negb andb].
      assert (H3 : Qle_bool 0 tot = false) by (apply Qle_bool_false; lra). rewrite H3. cbn [negb andb].
      destruct (Qlt_le_dec a 0) as [Pa|Na].
      * assert (H2 : Qle_bool 0 a = false) by (apply Qle_bool_false; lra). rewrite H2. reflexivity.
      * assert (H2 : Qle_bool 0 a = true) by (apply Qle_bool_iff; lra). rewrite H2. reflexivity.
Qed.

(* ---- 9.7.4 / 9.7.5.b: the free space *)
Lemma nQ_S n : nQ (S n) == nQ n + 1.
Proof. unfold nQ. rewrite Nat2Z.inj_succ, <- Z.add_1_r, inject_Z_plus. reflexivity. Qed.
Lemma zQ_pos z : (0 < z)%Z -> Qeq_bool (zQ z) 0 = false.
Proof.
  intros H. apply Qeq_bool_false. unfold zQ. intros E. change 0 with (inject_Z 0) in E.
  rewrite inject_Z_injective in E. lia.
Qed.
Lemma rem_from_pos wide gap : forall l z acc u, (0 < z)%Z ->
  Datatypes.fst (rem_from gap z acc u l) ==
    acc - sumQ (fun x => used_size x + iextra (fit x)) (map (fst_of wide) l) - nQ (List.length l) * gap.
Proof.
  induction l as [|r l IH]; intros z acc u Hz; cbn [rem_from map sumQ List.length Datatypes.fst].
  - change (nQ 0) with 0. lra.
  - rewrite (zQ_pos z Hz). rewrite IH by lia. rewrite nQ_S.
    change (used_size (fst_of wide r)) with (used r). change (iextra (fit (fst_of wide r))) with (r_extra r). lra.
Qed.
Lemma rem_from_fs gap : forall l z acc u, Datatypes.fst (rem_from gap z acc u l) = fs_from gap z acc l.
Proof. induction l as [|r l IH]; intros z acc u; cbn [rem_from fs_from Datatypes.fst]; [reflexivity|apply IH]. Qed.
Lemma rem_from_0 wide gap avail u l :
  Datatypes.fst (rem_from gap 0 avail u l) == free_space avail gap (map (fst_of wide) l).
Proof.
  unfold free_space. destruct l as [|r l]; cbn [rem_from map sumQ gaps_enum Datatypes.fst]; [lra|].
  change (Qeq_bool (zQ 0) 0) with true. cbv iota. rewrite (rem_from_pos wide) by lia. rewrite map_length.
  change (used_size (fst_of wide r)) with (used r). change (iextra (fit (fst_of wide r))) with (r_extra r). lra.
Qed.
Theorem fs_is_free_space wide gap avail l : fs_from gap 0 avail l == free_space avail gap (map (fst_of wide) l).
Proof. rewrite <- (rem_from_fs gap l 0%Z avail 0). apply rem_from_0. Qed.

(* ---- 9.7.5.b: the free space to distribute in a pass is the model's pass_rem *)
Definition factor_ok (wide grow : bool) (r : rst) : Prop := r_f r == factor (md_of grow) (item_of wide (r_c r)).
Lemma rem_from_u wide grow gap : forall l z acc u, Forall (factor_ok wide grow) l ->
  snd (rem_from gap z acc u l) == u + ufs (md_of grow) (map (fst_of wide) l).
Proof.
  induction l as [|r l IH]; intros z acc u H; cbn [rem_from map snd]; unfold ufs in *; cbn [sumQ]; [lra|].
  inversion H as [|? ? Hr Hl]; subst. rewrite (IH _ _ _ Hl). unfold factor_ok in Hr.
  cbn [fst_of ffrozen fit]. destruct (r_b r); [lra|]. rewrite Hr. lra.
Qed.
Lemma qabs_is q : qabs q == Qabs q.
Proof.
  unfold qabs. destruct (Qle_bool 0 q) eqn:E.
  - apply Qle_bool_iff in E. rewrite Qabs_pos; [reflexivity|exact E].
  - apply Qle_bool_false in E. rewrite Qabs_neg; [reflexivity|lra].
Qed.
Theorem rem_is_pass_rem wide grow gap avail init0 init0' l :
  init0 == init0' -> Forall (factor_ok wide grow) l ->
  rem_src gap avail init0 l == pass_rem (md_of grow) avail gap init0' (map (fst_of wide) l).
Proof.
  intros Ei Hf. unfold rem_src, pass_rem.
  pose proof (rem_from_0 wide gap avail 0 l) as Hr. pose proof (rem_from_u wide grow gap l 0%Z avail 0 Hf) as Hu.
  destruct (rem_from gap 0 avail 0 l) as [rm u]. cbn [Datatypes.fst snd] in Hr, Hu.
  set (R := free_space avail gap (map (fst_of wide) l)) in *.
  set (U := ufs (md_of grow) (map (fst_of wide) l)) in *.
  assert (Hu' : u == U) by lra. clear Hu.
  destruct (Qlt_le_dec U 1) as [L|G].
  - assert (H1 : Qle_bool 1 u = false) by (apply Qle_bool_false; lra). rewrite H1.
    assert (Es : init0 * u == init0' * U) by (rewrite Ei, Hu'; reflexivity).
    destruct (Qlt_le_dec (Qabs (init0' * U)) (Qabs R)) as [L2|G2].
    + assert (H2 : Qle_bool (qabs rm) (qabs (init0 * u)) = false).
      { apply Qle_bool_false. rewrite !qabs_is. rewrite Es, Hr. exact L2. }
      rewrite H2. exact Es.
    + assert (H2 : Qle_bool (qabs rm) (qabs (init0 * u)) = true).
      { apply Qle_bool_iff. rewrite !qabs_is. rewrite Es, Hr. exact G2. }
      rewrite H2. exact Hr.
  - assert (H1 : Qle_bool 1 u = true) by (apply Qle_bool_iff; lra). rewrite H1. exact Hr.
Qed.

(* ---- 9.7.3: freezing the inflexible items is the model's init_item *)
Definition hyp_ok (wide : bool) (c : cst) : Prop := k_hyp c == ihyp (item_of wide c).
Theorem inflex_is_init wide grow c : hyp_ok wide c ->
  inflex1 grow c = rd0 (mkR c (ffrozen (init_item (md_of grow) (item_of wide c))) (k_hyp c)
                           (factor (md_of grow) (item_of wide c)) 0) /\
  k_hyp c == ftarget (init_item (md_of grow) (item_of wide c)).
Proof.
  intros H. split; [|exact H]. unfold hyp_ok in H. unfold init_item, flexible, inflex1, rd0. cbn [ffrozen r_b r_c r_t r_f].
  set (it := item_of wide c) in *. rewrite negb_involutive.
  destruct grow; cbn [md_of factor].
  - change (igrow it) with (k_g c). change (ibase it) with (k_base c).
    destruct (Qeq_dec (k_g c) 0) as [Z|NZ].
    + assert (E : Qeq_bool (k_g c) 0 = true) by (apply Qeq_bool_iff; exact Z). rewrite E. destruct c; reflexivity.
    + assert (E : Qeq_bool (k_g c) 0 = false) by (apply Qeq_bool_false; exact NZ). rewrite E. cbn [orb].
      destruct (Qlt_le_dec (ihyp it) (k_base c)) as [L|G].
      * assert (E2 : Qle_bool (k_base c) (k_hyp c) = false) by (apply Qle_bool_false; lra). rewrite E2. destruct c; reflexivity.
      * assert (E2 : Qle_bool (k_base c) (k_hyp c) = true) by (apply Qle_bool_iff; lra). rewrite E2. destruct c; reflexivity.
  - change (ishrink it) with (k_sh c). change (ibase it) with (k_base c).
    destruct (Qeq_dec (k_sh c) 0) as [Z|NZ].
    + assert (E : Qeq_bool (k_sh c) 0 = true) by (apply Qeq_bool_iff; exact Z). rewrite E. destruct c; reflexivity.
    + assert (E : Qeq_bool (k_sh c) 0 = false) by (apply Qeq_bool_false; exact NZ). rewrite E. cbn [orb].
      destruct (Qlt_le_dec (k_base c) (ihyp it)) as [L|G].
      * assert (E2 : Qle_bool (k_hyp c) (k_base c) = false) by (apply Qle_bool_false; lra). rewrite E2. destruct c; reflexivity.
      * assert (E2 : Qle_bool (k_hyp c) (k_base c) = true) by (apply Qle_bool_iff; lra). rewrite E2. destruct c; reflexivity.
Qed.

(* ---- 9.7.1: grow or shrink is the model's choose_mode *)
Theorem mode_is_choose_mode wide l gap avail : Forall (hyp_ok wide) l ->
  md_of (mode_src l gap avail) = choose_mode (map (item_of wide) l) gap avail.
Proof.
  intros H. unfold mode_src, choose_mode.
  assert (E : hyp_sum l gap ==
              sumQ (fun it => ihyp it + iextra it) (map (item_of wide) l) + gaps_len (map (item_of wide) l) gap).
  { unfold hyp_sum, gaps_len. rewrite map_length, fold_sum.
    change (zQ (Z.of_nat (Datatypes.length l))) with (nQ (Datatypes.length l)).
    assert (E1 : sumQ (fun c => k_hyp c + k_extra c) l == sumQ (fun it => ihyp it + iextra it) (map (item_of wide) l)).
    { induction H as [|c l Hc Hl IH]; cbn [map sumQ]; [reflexivity|]. rewrite IH. unfold hyp_ok in Hc. rewrite Hc.
      reflexivity. }
    rewrite E1. lra. }
  destruct (Qlt_le_dec _ avail) as [L|G].
  - assert (E2 : Qle_bool avail (hyp_sum l gap) = false) by (apply Qle_bool_false; lra). rewrite E2. reflexivity.
  - assert (E2 : Qle_bool avail (hyp_sum l gap) = true) by (apply Qle_bool_iff; lra). rewrite E2. reflexivity.
Qed.

(* ---- 9.7.5.c: the distribution is the model's distribute (same frozen flags and items, targets ==) *)
Definition feq (x y : C12Flex.fst) : Prop := fit x = fit y /\ ffrozen x = ffrozen y /\ ftarget x == ftarget y.
Lemma Forall2_maps {T U} (P : U -> U -> Prop) (f g : T -> U) l :
  (forall r, P (f r) (g r)) -> Forall2 P (map f l) (map g l).
Proof. intros H. induction l; cbn [map]; constructor; auto. Qed.
Lemma fold_cond (f : rst -> Q) : forall l acc,
  fold_left (fun a r => if r_b r then a else a + f r) l acc == acc + sumQ (fun r => if r_b r then 0 else f r) l.
Proof.
  induction l as [|r l IH]; intros acc; cbn [fold_left sumQ]; [lra|]. rewrite IH. destruct (r_b r); lra.
Qed.
Lemma sumQ_map {T U} (f : U -> Q) (g : T -> U) l : sumQ f (map g l) = sumQ (fun x => f (g x)) l.
Proof. induction l as [|x l IH]; cbn [map sumQ]; [reflexivity|now rewrite IH]. Qed.
Lemma gsum_src_is wide l : gsum_src l == gsum (map (fst_of wide) l).
Proof. unfold gsum_src, gsum. rewrite fold_cond, sumQ_map. cbn [fst_of ffrozen fit item_of igrow]. lra. Qed.
Lemma ssum_src_is wide l : ssum_src l == ssum (map (fst_of wide) l).
Proof. unfold ssum_src, ssum. rewrite fold_cond, sumQ_map. cbn [fst_of ffrozen fit item_of ibase ishrink]. unfold ssf_of, r_base. lra. Qed.

Theorem dist_is_distribute wide grow rem rem' l :
  rem == rem' ->
  (grow = true -> ~ rem' == 0 -> ~ gsum (map (fst_of wide) l) == 0) ->
  exists l', distribute (md_of grow) rem' (map (fst_of wide) l) = Some l' /\
             Forall2 feq (map (fst_of wide) (dist_src grow rem l)) l'.
Proof.
  intros Er Hg. set (L := map (fst_of wide) l) in *.
  exists (map (dist1 (md_of grow) rem' L) L). unfold distribute, dist_src.
  destruct (Qeq_dec rem' 0) as [Z|NZ].
  - split; [reflexivity|].
    assert (E : Qeq_bool rem 0 = true) by (apply Qeq_bool_iff; lra). rewrite E.
    unfold L. rewrite !map_map. apply Forall2_maps. intros [c b t f a].
    unfold dist0, dist1, feq, fst_of, with_t, set_target, r_base.
    destruct b; cbn [ffrozen fit ftarget r_b r_c r_t r_f r_a]; repeat split; try reflexivity.
    destruct (Qeq_dec rem' 0); [reflexivity|contradiction].
  - assert (E : Qeq_bool rem 0 = false) by (apply Qeq_bool_false; lra). rewrite E.
    pose proof (gsum_src_is wide l) as EG. pose proof (ssum_src_is wide l) as ES. fold L in EG, ES.
    split.
    + destruct grow; cbn [md_of]; [|reflexivity]. destruct (Qeq_dec (gsum L) 0) as [Z|_]; [|reflexivity].
      exfalso. exact (Hg eq_refl NZ Z).
    + unfold L at 2. rewrite !map_map. apply Forall2_maps. intros [c b t f a].
      unfold dist1_src, sums1, dist1, feq, fst_of, with_t, with_c, set_target, ratio, ssf_of, r_base.
      destruct b; cbn [ffrozen fit ftarget r_b r_c r_t r_f r_a]; [repeat split; reflexivity|].
      destruct (Qeq_dec rem' 0) as [?|_]; [contradiction|].
      destruct grow; cbn [md_of ffrozen fit ftarget r_b r_c r_t item_of igrow ibase ishrink set_ssf k_base k_g k_sh].
      * repeat split; try reflexivity. cbn [ftarget r_t]. rewrite Er, EG. reflexivity.
      * destruct (Qeq_dec (ssum L) 0) as [Z|NZs].
        -- assert (E2 : Qeq_bool (ssum_src l) 0 = true) by (apply Qeq_bool_iff; lra). rewrite E2.
           repeat split; try reflexivity. cbn [ftarget r_t]. lra.
        -- assert (E2 : Qeq_bool (ssum_src l) 0 = false) by (apply Qeq_bool_false; lra). rewrite E2.
           repeat split; try reflexivity. cbn [ftarget r_t]. rewrite Er, ES. reflexivity.
Qed.

(* ================= the regenerated slices compute the model: runs of gen/GenFlexResolve.v ================= *)
Require WV.proofs.PyNatural.
Lemma run_ends_mono O body rho (P Q : env -> Prop) :
  (forall rho', P rho' -> Q rho') ->
  run O body rho (ends P) (fun _ => False) -> run O body rho (ends Q) (fun _ => False).
Proof.
  intros HPQ H. rewrite WV.proofs.PyNatural.run_natural in *.
  destruct (WV.proofs.PyNatural.run_out O body rho) as [rho' r|m]; [|exact H].
  destruct H as [H1 H2]. split; [exact H1|apply HPQ; exact H2].
Qed.

Section Source.
Variable O : qops.
Hypothesis HO : ops_ok O.
Variable wide : bool.          (* main = 'width' or 'height': which min / max sizes the model's items carry *)
Let st := fst_of wide.
Open Scope string_scope.

(* 9.7.1 *)
Theorem gen_flex_mode l gap avail hms fft : Forall (hyp_ok wide) l ->
  run O flex_mode_body (Emode (vline l) (VNum gap) (VNum avail) hms fft)
    (ends (fun rho => exists g, lookup "flex_factor_type" rho = VStr (mode_name g) /\
                                md_of g = choose_mode (map (item_of wide) l) gap avail)) (fun _ => False).
Proof.
  intros H. eapply run_ends_mono; [|apply (run_flex_mode O HO)].
  intros rho E. exists (mode_src l gap avail). split; [exact E|apply mode_is_choose_mode; exact H].
Qed.

(* 9.7.3 *)
Theorem gen_flex_inflexible grow l new item idx child fc : Forall (hyp_ok wide) l ->
  run O flex_inflexible_body (Einfl (vline l) grow new item idx child fc)
    (ends (fun rho => exists l', lookup "line" rho = vline (map rd0 l') /\
                                 Forall2 feq (map st l') (map (init_item (md_of grow)) (map (item_of wide) l))))
    (fun _ => False).
Proof.
  intros H. eapply run_ends_mono; [|apply (run_flex_inflexible O HO)].
  intros rho E.
  exists (map (fun c => mkR c (ffrozen (init_item (md_of grow) (item_of wide c))) (k_hyp c)
                            (factor (md_of grow) (item_of wide c)) 0) l).
  split.
  - rewrite E. f_equal. rewrite map_map. clear E. induction H as [|c l Hc Hl IH]; cbn [map]; [reflexivity|].
    rewrite IH. f_equal. apply (inflex_is_init wide grow c Hc).
  - rewrite !map_map. clear E. induction H as [|c l Hc Hl IH]; cbn [map]; constructor; [|exact IH].
    unfold st, feq, fst_of. cbn [fit ffrozen ftarget r_c r_b r_t init_item]. repeat split. exact Hc.
Qed.

(* 9.7.4 *)
Theorem gen_flex_initial_free_space gap avail l ifs item i item1 idx child :
  run O flex_initial_free_space_body (Efs (vline (map rd0 l)) (VNum gap) (VNum avail) ifs item i item1 idx child)
    (ends (fun rho => exists q, lookup "initial_free_space" rho = VNum q /\ q == free_space avail gap (map st l)))
    (fun _ => False).
Proof.
  eapply run_ends_mono; [|apply (run_flex_initial_free_space O HO)].
  intros rho E. eexists. split; [exact E|apply fs_is_free_space].
Qed.

(* 9.7.5.b *)
Theorem gen_flex_remaining grow gap avail init0 infs sys l ufs rem item i item1 idx child scaled :
  Forall (factor_ok wide grow) l ->
  run O flex_remaining_body
    (Erem (vline (map rd0 l)) (VNum gap) (VNum avail) (VNum init0) (VStr infs) sys ufs rem item i item1 idx child scaled)
    (ends (fun rho => exists q, lookup "remaining_free_space" rho = VNum q /\
                                q == pass_rem (md_of grow) avail gap init0 (map st l) /\
                                lookup "initial_free_space" rho = VNum init0)) (fun _ => False).
Proof.
  intros H. eapply run_ends_mono; [|apply (run_flex_remaining O HO)].
  intros rho [E1 E2]. eexists. split; [exact E1|]. split; [|exact E2].
  apply rem_is_pass_rem; [reflexivity|exact H].
Qed.

(* 9.7.5.c *)
Theorem gen_flex_distribute l rem grow new item idx child ss gs ratio :
  (grow = true -> ~ rem == 0 -> ~ gsum (map st l) == 0) ->
  run O flex_distribute_body (Ed (vline (map rd0 l)) (VNum rem) grow new item idx child ss gs ratio)
    (ends (fun rho => exists l2 l', lookup "line" rho = vline (map rd l2) /\
                                    distribute (md_of grow) rem (map st l) = Some l' /\
                                    Forall2 feq (map st l2) l')) (fun _ => False).
Proof.
  intros Hg. eapply run_ends_mono; [|apply (run_flex_distribute O HO)].
  - intros rho E. destruct (dist_is_distribute wide grow rem rem l (Qeq_refl _) Hg) as (l' & D & F).
    exists (dist_src grow rem l), l'. auto.
  - intros G NZ. apply Qeq_bool_false. apply Qeq_bool_false in NZ. rewrite (gsum_src_is wide l). exact (Hg G NZ).
Qed.

(* ... and where the model's distribute is None (DivZero) the source raises ZeroDivisionError, given an unfrozen
   item (inside the `while not all(frozen)` loop there is one) *)
Theorem gen_flex_distribute_divzero l rem new item idx child ss gs ratio :
  distribute Grow rem (map st l) = None -> existsb (fun r => negb (r_b r)) l = true ->
  run O flex_distribute_body (Ed (vline (map rd0 l)) (VNum rem) true new item idx child ss gs ratio)
    (fun _ _ => False) (fun m => m = "ZeroDivisionError").
Proof.
  intros D Hex. unfold distribute in D.
  destruct (Qeq_dec rem 0) as [?|NZ]; [discriminate|].
  destruct (Qeq_dec (gsum (map st l)) 0) as [Z|?]; [|discriminate].
  apply (run_flex_distribute_divzero O HO); [apply Qeq_bool_false; exact NZ| |exact Hex].
  apply Qeq_bool_iff. rewrite (gsum_src_is wide l). exact Z.
Qed.

(* 9.7.5.d, for main = 'width' (wide = true) and main = 'height' *)
Theorem gen_flex_clamp l new item idx child mn mx cl :
  run O (clamp_body wide) (Ecl (vline (map rd l)) new item idx child mn mx cl)
    (ends (fun rho => exists l2, lookup "line" rho = vline (map rda l2) /\
                                 map (fun r => (st r, r_a r)) l2 = map fix_viol (map st l))) (fun _ => False).
Proof.
  eapply run_ends_mono; [|apply (run_flex_clamp O HO)].
  intros rho E. exists (map (clamp_src wide) l). split; [exact E|].
  rewrite !map_map. apply map_ext. intros r. destruct (clamp_is_fix_viol wide r) as [E1 E2].
  unfold st. rewrite E1, E2. destruct (fix_viol (fst_of wide r)); reflexivity.
Qed.

(* 9.7.5.e *)
Theorem gen_flex_freeze l adjs new item idx child :
  run O flex_freeze_body (Efr (vline (map rda l)) adjs new item idx child)
    (ends (fun rho => exists l2, lookup "line" rho = vline (map rda l2) /\
                                 let p := map (fun r => (st r, r_a r)) l in
                                 map st l2 = map (freeze (sumQ snd p)) p)) (fun _ => False).
Proof.
  eapply run_ends_mono; [|apply (run_flex_freeze O HO)].
  intros rho E. exists (map (freeze_src (adj_sum l)) l). split; [exact E|].
  cbv zeta. rewrite !map_map. apply map_ext. intros r. apply freeze_is_freeze. apply adj_sum_is.
Qed.
End Source.
