(* C19 - proofs about zoom and Document.copy (model/C19Pdf.v). *)
From Coq Require Import QArith Qminmax Qabs List Bool Lqa.
Require Import WV.model.C19Pdf.
Import ListNotations.
Open Scope Q_scope.

Definition linear (f : Q -> list Q) (z : Q) : Prop := Forall2 Qeq (f z) (map (Qmult z) (f 1)).

(* ---- pdf_coordinates_scale_linearly: every coordinate written for a page at zoom z is z times the zoom-1 one ---- *)
Theorem pdf_coordinates_scale_linearly (z : Q) (p : page) :
  linear (fun z => media_box z p) z /\
  linear (fun z => trim_box z p) z /\
  linear (fun z => ctm z p) z /\
  (forall r, linear (fun z => rect z p r) z) /\
  (forall xy, fst (point z p xy) == z * fst (point 1 p xy) /\ snd (point z p xy) == z * snd (point 1 p xy)).
Proof.
  unfold linear, media_box, trim_box, ctm, rect, point, edges, scale.
  repeat split.
  - repeat constructor; simpl; ring.
  - repeat constructor; simpl; ring.
  - repeat constructor; simpl; ring.
  - intros [[[x1 y1] x2] y2]. simpl. repeat constructor; simpl; ring.
  - simpl. ring.
  - simpl. ring.
Qed.

(* the TrimBox is the CSS page box at every zoom: (0, 0, scale*width, scale*height) *)
Theorem trim_box_is_the_page_box (z : Q) (p : page) :
  Forall2 Qeq (trim_box z p) [0; 0; scale z * pw p; scale z * ph p].
Proof. unfold trim_box, edges, scale. repeat constructor; simpl; ring. Qed.

(* ---- the BleedBox: linear exactly while the 10 point cap is not reached ---- *)
Definition within_cap (z : Q) (p : page) : Prop :=
  Forall (fun b => b * scale z <= 10 /\ b * scale 1 <= 10) [b_left p; b_top p; b_right p; b_bottom p].

Theorem bleed_box_linear_within_cap (z : Q) (p : page) :
  within_cap z p -> linear (fun z => bleed_box z p) z.
Proof.
  unfold within_cap, linear, bleed_box. intros W.
  inversion W as [|? ? [A1 A2] W1]; subst. inversion W1 as [|? ? [B1 B2] W2]; subst.
  inversion W2 as [|? ? [C1 C2] W3]; subst. inversion W3 as [|? ? [D1 D2] _]; subst.
  unfold trim_box, edges. simpl.
  repeat constructor; simpl.
  - rewrite (Q.min_r 10 (b_left p * scale z)), (Q.min_r 10 (b_left p * scale 1)) by assumption. unfold scale. ring.
  - rewrite (Q.min_r 10 (b_top p * scale z)), (Q.min_r 10 (b_top p * scale 1)) by assumption. unfold scale. ring.
  - rewrite (Q.min_r 10 (b_right p * scale z)), (Q.min_r 10 (b_right p * scale 1)) by assumption. unfold scale. ring.
  - rewrite (Q.min_r 10 (b_bottom p * scale z)), (Q.min_r 10 (b_bottom p * scale 1)) by assumption. unfold scale. ring.
Qed.

(* page 100 x 100 px with 20 px of bleed: BleedBox [-10 ...] at zoom 1 and at zoom 2 *)
Definition capped_page : page := pmk 100 100 20 20 20 20.

Theorem bleed_box_not_linear_beyond_cap : ~ linear (fun z => bleed_box z capped_page) 2.
Proof.
  unfold linear. intros H. inversion H as [|? ? ? ? E _]; subst.
  vm_compute in E. discriminate.
Qed.

(* ---- form fields: the font size of the default appearance and of the check / radio appearance streams ---- *)
Theorem form_font_size_linear (z fs : Q) :
  form_font_size z fs == z * form_font_size 1 fs /\ radio_font_size z fs == z * radio_font_size 1 fs.
Proof. unfold form_font_size, radio_font_size, scale. split; field. Qed.

(* ---- copy_selects_exactly ---- *)
Theorem copy_selects_exactly (Page Meta Out : Type) (paint : Page -> Out) (d : document Page Meta) (sel : list Page) :
  d_pages Page Meta (copy Page Meta d (Pages Page sel)) = sel /\
  written Page Meta Out paint (copy Page Meta d (Pages Page sel)) = map paint sel /\
  d_pages Page Meta (copy Page Meta d (All Page)) = d_pages Page Meta d /\
  d_meta Page Meta (copy Page Meta d (Pages Page sel)) = d_meta Page Meta d /\
  d_fonts Page Meta (copy Page Meta d (Pages Page sel)) = [].
Proof. repeat split. Qed.

(* examples: non-trivial inputs *)
Example scale_example :
  media_box 2 (pmk 100 50 4 4 4 4) = [- (2 * (3 # 4)) * 4; - (2 * (3 # 4)) * 4; - (2 * (3 # 4)) * 4 + 2 * (3 # 4) * (100 + 4 + 4);
                                      - (2 * (3 # 4)) * 4 + 2 * (3 # 4) * (50 + 4 + 4)] /\
  Forall2 Qeq (media_box 2 (pmk 100 50 4 4 4 4)) [-6; -6; 156; 81] /\
  within_cap 2 (pmk 100 50 4 4 4 4).
Proof.
  split; [reflexivity|]. split.
  - repeat constructor; vm_compute; reflexivity.
  - unfold within_cap. repeat constructor; vm_compute; discriminate.
Qed.
