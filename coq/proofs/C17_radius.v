(* C17 - rounded corners: properties of the model of Box.rounded_box. *)
From Coq Require Import QArith Qminmax Lqa List Bool.
Require Import WV.model.C17Radius.
Import ListNotations.
Open Scope Q_scope.

(* ---------------------------------------------------------------------------------- min over a list *)
Lemma fold_min_le l : forall a, fold_left Qmin l a <= a.
Proof. induction l as [|x l IH]; intros a; simpl; [lra|]. eapply Qle_trans; [apply IH|]. apply Q.le_min_l. Qed.
Lemma fold_min_in l : forall a x, In x l -> fold_left Qmin l a <= x.
Proof.
  induction l as [|y l IH]; intros a x Hx; simpl; [destruct Hx|]. destruct Hx as [->|Hx].
  - eapply Qle_trans; [apply fold_min_le|]. apply Q.le_min_r.
  - now apply IH.
Qed.
Lemma fold_min_glb l : forall a m, m <= a -> (forall x, In x l -> m <= x) -> m <= fold_left Qmin l a.
Proof.
  induction l as [|y l IH]; intros a m Ha Hl; simpl; [exact Ha|].
  apply IH; [apply Q.min_glb; [exact Ha|apply Hl; now left]|intros; apply Hl; now right].
Qed.
Lemma fold_min_attained l : forall a, fold_left Qmin l a == a \/ exists x, In x l /\ fold_left Qmin l a == x.
Proof.
  induction l as [|y l IH]; intros a; simpl; [left; reflexivity|].
  destruct (IH (Qmin a y)) as [H|[x [Hx H]]].
  - destruct (Q.min_dec a y) as [E|E].
    + left. now rewrite H.
    + right. exists y. split; [now left|now rewrite H].
  - right. exists x. split; [now right|exact H].
Qed.
(* a value that is a lower bound of (a :: l) and is attained is the min, whatever the order *)
Lemma fold_min_unique l a m :
  m <= a -> (forall x, In x l -> m <= x) -> (m == a \/ exists x, In x l /\ m == x) -> fold_left Qmin l a == m.
Proof.
  intros Ha Hl Hatt. apply Qle_antisym.
  - destruct Hatt as [E|[x [Hx E]]]; rewrite E; [apply fold_min_le|now apply fold_min_in].
  - now apply fold_min_glb.
Qed.

Lemma qmax0_nonneg a : 0 <= qmax0 a.
Proof. apply Q.le_max_l. Qed.
Lemma qmax0_pos a : 0 <= a -> qmax0 a == a.
Proof. intros H. unfold qmax0. now apply Q.max_r. Qed.
Lemma qmax0_neg a : a <= 0 -> qmax0 a == 0.
Proof. intros H. unfold qmax0. now apply Q.max_l. Qed.
Lemma qmax0_le a : a <= qmax0 a.
Proof. apply Q.le_max_r. Qed.

Lemma inner_raw_nonneg R bt br bb bl : nonneg (inner_raw R bt br bb bl).
Proof. unfold nonneg, inner_raw; simpl. repeat split; apply qmax0_nonneg. Qed.

(* ------------------------------------------------------------------------------------- the ratio *)
Lemma in_cand x e s : In x (cand e s) -> 0 < s /\ x = e / s.
Proof. unfold cand. destruct (Qlt_le_dec 0 s); simpl; [intros [<-|[]]; now split|intros []]. Qed.
Lemma cand_in e s : 0 < s -> In (e / s) (cand e s).
Proof. intros H. unfold cand. destruct (Qlt_le_dec 0 s); [now left|lra]. Qed.

Lemma in_cands x w h r :
  In x (cands w h r) ->
  (0 < tlx r + trx r /\ x = w / (tlx r + trx r)) \/ (0 < blx r + brx r /\ x = w / (blx r + brx r)) \/
  (0 < tly r + bly r /\ x = h / (tly r + bly r)) \/ (0 < try_ r + bry r /\ x = h / (try_ r + bry r)).
Proof.
  unfold cands. rewrite !in_app_iff. intros [H|[H|[H|H]]]; apply in_cand in H; tauto.
Qed.

Lemma div_nonneg e s : 0 <= e -> 0 < s -> 0 <= e / s.
Proof. intros He Hs. unfold Qdiv. apply Qmult_le_0_compat; [exact He|]. apply Qlt_le_weak, Qinv_lt_0_compat, Hs. Qed.

Lemma ratio_le_1 w h r : ratio w h r <= 1.
Proof. apply fold_min_le. Qed.
Lemma ratio_nonneg w h r : 0 <= w -> 0 <= h -> 0 <= ratio w h r.
Proof.
  intros Hw Hh. apply fold_min_glb; [lra|]. intros x Hx. apply in_cands in Hx.
  destruct Hx as [[Hs ->]|[[Hs ->]|[[Hs ->]|[Hs ->]]]]; now apply div_nonneg.
Qed.

Lemma mul_div_le s e f : 0 < s -> f <= e / s -> s * f <= e.
Proof.
  intros Hs Hf. assert (H : s * f <= s * (e / s)) by (apply Qmult_le_l; assumption).
  eapply Qle_trans; [exact H|]. rewrite Qmult_div_r; [lra|]. intros E. rewrite E in Hs. lra.
Qed.

Lemma side_fits a b e f : 0 <= a -> 0 <= b -> 0 <= e -> 0 <= f ->
  (0 < a + b -> f <= e / (a + b)) -> a * f + b * f <= e.
Proof.
  intros Ha Hb He Hf H. destruct (Qlt_le_dec 0 (a + b)) as [Hs|Hs].
  - setoid_replace (a * f + b * f) with ((a + b) * f) by ring. apply mul_div_le; auto.
  - assert (Ea : a == 0) by lra. assert (Eb : b == 0) by lra. rewrite Ea, Eb. lra.
Qed.

(* scaled radii never overlap: on every side the two curves fit, and no radius is negative *)
Theorem scaled_radii_never_overlap W H R bt br bb bl :
  0 <= W - bl - br -> 0 <= H - bt - bb ->
  let o := rounded_box W H R bt br bb bl in
  nonneg (rr o) /\ fits (rw o) (rh o) (rr o).
Proof.
  intros Hw Hh o. unfold o, rounded_box. simpl rr. simpl rw. simpl rh.
  set (r := inner_raw (scale (ratio W H R) R) bt br bb bl). set (w := W - bl - br) in *. set (h := H - bt - bb) in *.
  pose proof (inner_raw_nonneg (scale (ratio W H R) R) bt br bb bl) as N. fold r in N.
  destruct N as [N1 [N2 [N3 [N4 [N5 [N6 [N7 N8]]]]]]].
  pose proof (ratio_nonneg w h r Hw Hh) as Hf.
  split.
  - unfold nonneg, scale; simpl. repeat split; apply Qmult_le_0_compat; assumption.
  - unfold fits, scale; simpl. repeat split; apply side_fits; auto; intros Hs; apply fold_min_in; unfold cands;
      rewrite !in_app_iff.
    + left. now apply cand_in.
    + right; left. now apply cand_in.
    + right; right; left. now apply cand_in.
    + right; right; right. now apply cand_in.
Qed.

(* the used outer radii (5.5): the specified radii times the overlap factor of the border box never overlap *)
Lemma css_outer_fits W H R : 0 <= W -> 0 <= H -> nonneg R -> nonneg (css_outer W H R) /\ fits W H (css_outer W H R).
Proof.
  intros Hw Hh [N1 [N2 [N3 [N4 [N5 [N6 [N7 N8]]]]]]]. pose proof (ratio_nonneg W H R Hw Hh) as Hf.
  unfold css_outer. split.
  - unfold nonneg, scale; simpl. repeat split; apply Qmult_le_0_compat; assumption.
  - unfold fits, scale; simpl. repeat split; apply side_fits; auto; intros Hs; apply fold_min_in; unfold cands;
      rewrite !in_app_iff.
    + left. now apply cand_in.
    + right; left. now apply cand_in.
    + right; right; left. now apply cand_in.
    + right; right; right. now apply cand_in.
Qed.

(* when the clipped radii already fit, nothing is scaled *)
Lemma ratio_one w h r : nonneg r -> fits w h r -> ratio w h r == 1.
Proof.
  intros N F. apply fold_min_unique; [lra| |left; reflexivity].
  intros x Hx. apply in_cands in Hx. destruct F as [F1 [F2 [F3 F4]]].
  destruct Hx as [[Hs ->]|[[Hs ->]|[[Hs ->]|[Hs ->]]]]; apply Qle_shift_div_l; auto; lra.
Qed.

(* the code follows the CSS rule by construction: outer radii scaled against the border box (5.5), inner radius =
   used outer radius minus the width of the adjacent side, floored at 0 (5.3), per axis and per corner with its own
   two sides: top-left (left, top), top-right (right, top), bottom-right (right, bottom), bottom-left (left,
   bottom); then one common factor f <= 1 on the inner rectangle, which is 1 when these radii fit *)
Theorem inner_radius_is_outer_minus_own_sides W H R bt br bb bl :
  let o := rounded_box W H R bt br bb bl in
  let k := ratio W H R in
  let f := ratio (W - bl - br) (H - bt - bb) (inner_raw (css_outer W H R) bt br bb bl) in
  dx o = bl /\ dy o = bt /\ rw o = W - bl - br /\ rh o = H - bt - bb /\
  tlx (rr o) = Qmax 0 (tlx R * k - bl) * f /\ tly (rr o) = Qmax 0 (tly R * k - bt) * f /\
  trx (rr o) = Qmax 0 (trx R * k - br) * f /\ try_ (rr o) = Qmax 0 (try_ R * k - bt) * f /\
  brx (rr o) = Qmax 0 (brx R * k - br) * f /\ bry (rr o) = Qmax 0 (bry R * k - bb) * f /\
  blx (rr o) = Qmax 0 (blx R * k - bl) * f /\ bly (rr o) = Qmax 0 (bly R * k - bb) * f /\
  k <= 1 /\ f <= 1 /\ rr o = css_inner_fit W H R bt br bb bl /\
  (fits (W - bl - br) (H - bt - bb) (inner_raw (css_outer W H R) bt br bb bl) -> f == 1).
Proof.
  intros o k f. repeat split; try reflexivity.
  - apply ratio_le_1.
  - apply ratio_le_1.
  - intros F. apply ratio_one; [apply inner_raw_nonneg|exact F].
Qed.

(* ------------------------------------------------------------------------------------ mirror symmetry *)
Lemma ratio_spec w h r m :
  m <= 1 -> (forall x, In x (cands w h r) -> m <= x) -> (m == 1 \/ exists x, In x (cands w h r) /\ m == x) ->
  ratio w h r == m.
Proof. intros. now apply fold_min_unique. Qed.

Definition sub_cands (l l' : list Q) : Prop := forall x, In x l -> exists y, In y l' /\ x == y.

Lemma ratio_compat w h r w' h' r' :
  sub_cands (cands w h r) (cands w' h' r') -> sub_cands (cands w' h' r') (cands w h r) ->
  ratio w h r == ratio w' h' r'.
Proof.
  intros S1 S2. apply ratio_spec.
  - apply ratio_le_1.
  - intros x Hx. destruct (S1 x Hx) as [y [Hy E]]. rewrite E. now apply fold_min_in.
  - destruct (fold_min_attained (cands w' h' r') 1) as [E|[x [Hx E]]]; [now left|right].
    destruct (S2 x Hx) as [y [Hy E']]. exists y. split; [exact Hy|]. unfold ratio. rewrite E. exact E'.
Qed.

Lemma cand_sub e s e' s' l : e == e' -> s == s' -> In (e' / s') l \/ ~ 0 < s' -> sub_cands (cand e s) (cand e' s' ++ l).
Proof.
  intros Ee Es _ x Hx. apply in_cand in Hx. destruct Hx as [Hs ->].
  exists (e' / s'). split; [apply in_or_app; left; apply cand_in; lra|now rewrite Ee, Es].
Qed.

Lemma sub_cands_app l1 l2 l : sub_cands l1 l -> sub_cands l2 l -> sub_cands (l1 ++ l2) l.
Proof. intros H1 H2 x Hx. apply in_app_or in Hx. destruct Hx; auto. Qed.

Lemma cand_sub_in e s e' s' l : e == e' -> s == s' -> (0 < s' -> In (e' / s') l) -> sub_cands (cand e s) l.
Proof.
  intros Ee Es Hl x Hx. apply in_cand in Hx. destruct Hx as [Hs ->].
  exists (e' / s'). split; [apply Hl; lra|now rewrite Ee, Es].
Qed.

Lemma in_cands_1 w h r : 0 < tlx r + trx r -> In (w / (tlx r + trx r)) (cands w h r).
Proof. intros H. unfold cands. rewrite !in_app_iff. left. now apply cand_in. Qed.
Lemma in_cands_2 w h r : 0 < blx r + brx r -> In (w / (blx r + brx r)) (cands w h r).
Proof. intros H. unfold cands. rewrite !in_app_iff. right; left. now apply cand_in. Qed.
Lemma in_cands_3 w h r : 0 < tly r + bly r -> In (h / (tly r + bly r)) (cands w h r).
Proof. intros H. unfold cands. rewrite !in_app_iff. right; right; left. now apply cand_in. Qed.
Lemma in_cands_4 w h r : 0 < try_ r + bry r -> In (h / (try_ r + bry r)) (cands w h r).
Proof. intros H. unfold cands. rewrite !in_app_iff. right; right; right. now apply cand_in. Qed.

Lemma mirror_h_invol r : mirror_h (mirror_h r) = r.
Proof. destruct r; reflexivity. Qed.
Lemma mirror_v_invol r : mirror_v (mirror_v r) = r.
Proof. destruct r; reflexivity. Qed.

Lemma ratio_mirror_h w w' h r : w == w' -> ratio w' h (mirror_h r) == ratio w h r.
Proof.
  intros Ew. apply ratio_compat; unfold cands at 1; simpl; repeat apply sub_cands_app.
  - apply (cand_sub_in _ _ w (tlx r + trx r)); [now symmetry|simpl; ring|apply in_cands_1].
  - apply (cand_sub_in _ _ w (blx r + brx r)); [now symmetry|simpl; ring|apply in_cands_2].
  - apply (cand_sub_in _ _ h (try_ r + bry r)); [reflexivity|simpl; ring|apply in_cands_4].
  - apply (cand_sub_in _ _ h (tly r + bly r)); [reflexivity|simpl; ring|apply in_cands_3].
  - apply (cand_sub_in _ _ w' (trx r + tlx r)); [exact Ew|simpl; ring|apply (in_cands_1 w' h (mirror_h r))].
  - apply (cand_sub_in _ _ w' (brx r + blx r)); [exact Ew|simpl; ring|apply (in_cands_2 w' h (mirror_h r))].
  - apply (cand_sub_in _ _ h (tly r + bly r)); [reflexivity|simpl; ring|apply (in_cands_4 w' h (mirror_h r))].
  - apply (cand_sub_in _ _ h (try_ r + bry r)); [reflexivity|simpl; ring|apply (in_cands_3 w' h (mirror_h r))].
Qed.

Lemma ratio_mirror_v w h h' r : h == h' -> ratio w h' (mirror_v r) == ratio w h r.
Proof.
  intros Eh. apply ratio_compat; unfold cands at 1; simpl; repeat apply sub_cands_app.
  - apply (cand_sub_in _ _ w (blx r + brx r)); [reflexivity|simpl; ring|apply in_cands_2].
  - apply (cand_sub_in _ _ w (tlx r + trx r)); [reflexivity|simpl; ring|apply in_cands_1].
  - apply (cand_sub_in _ _ h (tly r + bly r)); [now symmetry|simpl; ring|apply in_cands_3].
  - apply (cand_sub_in _ _ h (try_ r + bry r)); [now symmetry|simpl; ring|apply in_cands_4].
  - apply (cand_sub_in _ _ w (tlx r + trx r)); [reflexivity|simpl; ring|apply (in_cands_2 w h' (mirror_v r))].
  - apply (cand_sub_in _ _ w (blx r + brx r)); [reflexivity|simpl; ring|apply (in_cands_1 w h' (mirror_v r))].
  - apply (cand_sub_in _ _ h' (bly r + tly r)); [exact Eh|simpl; ring|apply (in_cands_3 w h' (mirror_v r))].
  - apply (cand_sub_in _ _ h' (bry r + try_ r)); [exact Eh|simpl; ring|apply (in_cands_4 w h' (mirror_v r))].
Qed.

Lemma min_compat l l' : sub_cands l l' -> sub_cands l' l -> fold_left Qmin l 1 == fold_left Qmin l' 1.
Proof.
  intros S1 S2. apply fold_min_unique.
  - apply fold_min_le.
  - intros x Hx. destruct (S1 x Hx) as [y [Hy E]]. rewrite E. now apply fold_min_in.
  - destruct (fold_min_attained l' 1) as [E|[x [Hx E]]]; [now left|right].
    destruct (S2 x Hx) as [y [Hy E']]. exists y. split; [exact Hy|]. rewrite E. exact E'.
Qed.

Lemma cand_compat e s e' s' : e == e' -> s == s' -> sub_cands (cand e s) (cand e' s').
Proof.
  intros Ee Es x Hx. apply in_cand in Hx. destruct Hx as [Hs ->].
  exists (e' / s'). split; [apply cand_in; lra|now rewrite Ee, Es].
Qed.

Lemma sub_cands_app2 l1 l2 l1' l2' : sub_cands l1 l1' -> sub_cands l2 l2' -> sub_cands (l1 ++ l2) (l1' ++ l2').
Proof.
  intros H1 H2 x Hx. apply in_app_or in Hx. destruct Hx as [Hx|Hx].
  - destruct (H1 x Hx) as [y [Hy E]]. exists y. split; [apply in_or_app; now left|exact E].
  - destruct (H2 x Hx) as [y [Hy E]]. exists y. split; [apply in_or_app; now right|exact E].
Qed.

Lemma overlap_ratio_compat w h t b l r w' h' t' b' l' r' :
  w == w' -> h == h' -> t == t' -> b == b' -> l == l' -> r == r' ->
  overlap_ratio w h t b l r == overlap_ratio w' h' t' b' l' r'.
Proof.
  intros. unfold overlap_ratio.
  apply min_compat; repeat apply sub_cands_app2; apply cand_compat; assumption || (symmetry; assumption).
Qed.

Lemma ratio_is_overlap_ratio w h r :
  ratio w h r = overlap_ratio w h (tlx r + trx r) (blx r + brx r) (tly r + bly r) (try_ r + bry r).
Proof. reflexivity. Qed.

(* the ratio, the clipping and the scaling respect == on radii *)
Lemma radii_eq_sym r r' : radii_eq r r' -> radii_eq r' r.
Proof. unfold radii_eq. intros [? [? [? [? [? [? [? ?]]]]]]]. repeat split; symmetry; assumption. Qed.

Lemma ratio_radii_eq w h r w' h' r' : w == w' -> h == h' -> radii_eq r r' -> ratio w h r == ratio w' h' r'.
Proof.
  assert (S : forall w h r w' h' r', w == w' -> h == h' -> radii_eq r r' -> sub_cands (cands w h r) (cands w' h' r')).
  { clear. intros w h r w' h' r' Ew Eh [e1 [e2 [e3 [e4 [e5 [e6 [e7 e8]]]]]]].
    unfold cands at 1. repeat apply sub_cands_app.
    - apply (cand_sub_in _ _ w' (tlx r' + trx r')); [exact Ew|now rewrite e1, e3|apply in_cands_1].
    - apply (cand_sub_in _ _ w' (blx r' + brx r')); [exact Ew|now rewrite e7, e5|apply in_cands_2].
    - apply (cand_sub_in _ _ h' (tly r' + bly r')); [exact Eh|now rewrite e2, e8|apply in_cands_3].
    - apply (cand_sub_in _ _ h' (try_ r' + bry r')); [exact Eh|now rewrite e4, e6|apply in_cands_4]. }
  intros Ew Eh Er. apply ratio_compat; [now apply S|].
  apply S; [now symmetry|now symmetry|now apply radii_eq_sym].
Qed.

Lemma qmax0_compat a b : a == b -> qmax0 a == qmax0 b.
Proof. intros E. unfold qmax0. now rewrite E. Qed.

Lemma scale_compat f f' r r' : f == f' -> radii_eq r r' -> radii_eq (scale f r) (scale f' r').
Proof.
  intros Ef [e1 [e2 [e3 [e4 [e5 [e6 [e7 e8]]]]]]]. unfold radii_eq, scale; simpl.
  repeat split; [rewrite e1|rewrite e2|rewrite e3|rewrite e4|rewrite e5|rewrite e6|rewrite e7|rewrite e8]; rewrite Ef; reflexivity.
Qed.

Lemma scale_one f r : f == 1 -> radii_eq (scale f r) r.
Proof. intros E. unfold radii_eq, scale; simpl. rewrite E. repeat split; ring. Qed.

Lemma radii_eq_refl r : radii_eq r r.
Proof. unfold radii_eq. repeat split; reflexivity. Qed.

(* mirroring the box left <-> right (radii and side widths) mirrors the result: the offset becomes the right
   width, sizes are unchanged, the radii are the mirrored radii.  A pair of swapped widths at one corner
   breaks exactly this. *)
Theorem rounded_box_mirror_h W H R bt br bb bl :
  let o := rounded_box W H R bt br bb bl in
  let o' := rounded_box W H (mirror_h R) bt bl bb br in
  dx o' = br /\ dy o' = dy o /\ rw o' == rw o /\ rh o' = rh o /\ radii_eq (rr o') (mirror_h (rr o)).
Proof.
  intros o o'. unfold o, o', rounded_box. simpl dx. simpl dy. simpl rw. simpl rh. simpl rr.
  split; [reflexivity|]. split; [reflexivity|]. split; [ring|]. split; [reflexivity|].
  assert (Ek := ratio_mirror_h W W H R ltac:(reflexivity)).
  set (k := ratio W H R) in *. set (k' := ratio W H (mirror_h R)) in *.
  set (r := inner_raw (scale k R) bt br bb bl).
  assert (E : radii_eq (inner_raw (scale k' (mirror_h R)) bt bl bb br) (mirror_h r)).
  { unfold radii_eq, r, inner_raw, scale, mirror_h; simpl. repeat split; apply qmax0_compat; rewrite Ek; reflexivity. }
  assert (Er : ratio (W - br - bl) (H - bt - bb) (inner_raw (scale k' (mirror_h R)) bt bl bb br) ==
               ratio (W - bl - br) (H - bt - bb) r).
  { rewrite (ratio_radii_eq _ _ _ (W - bl - br) (H - bt - bb) (mirror_h r)); [|ring|reflexivity|exact E].
    apply ratio_mirror_h. reflexivity. }
  assert (F := scale_compat _ _ _ _ Er E).
  destruct F as [f1 [f2 [f3 [f4 [f5 [f6 [f7 f8]]]]]]].
  unfold radii_eq. repeat split; assumption.
Qed.

Theorem rounded_box_mirror_v W H R bt br bb bl :
  let o := rounded_box W H R bt br bb bl in
  let o' := rounded_box W H (mirror_v R) bb br bt bl in
  dx o' = dx o /\ dy o' = bb /\ rw o' = rw o /\ rh o' == rh o /\ radii_eq (rr o') (mirror_v (rr o)).
Proof.
  intros o o'. unfold o, o', rounded_box. simpl dx. simpl dy. simpl rw. simpl rh. simpl rr.
  split; [reflexivity|]. split; [reflexivity|]. split; [reflexivity|]. split; [ring|].
  assert (Ek := ratio_mirror_v W H H R ltac:(reflexivity)).
  set (k := ratio W H R) in *. set (k' := ratio W H (mirror_v R)) in *.
  set (r := inner_raw (scale k R) bt br bb bl).
  assert (E : radii_eq (inner_raw (scale k' (mirror_v R)) bb br bt bl) (mirror_v r)).
  { unfold radii_eq, r, inner_raw, scale, mirror_v; simpl. repeat split; apply qmax0_compat; rewrite Ek; reflexivity. }
  assert (Er : ratio (W - bl - br) (H - bb - bt) (inner_raw (scale k' (mirror_v R)) bb br bt bl) ==
               ratio (W - bl - br) (H - bt - bb) r).
  { rewrite (ratio_radii_eq _ _ _ (W - bl - br) (H - bt - bb) (mirror_v r)); [|reflexivity|ring|exact E].
    apply ratio_mirror_v. reflexivity. }
  assert (F := scale_compat _ _ _ _ Er E).
  destruct F as [f1 [f2 [f3 [f4 [f5 [f6 [f7 f8]]]]]]].
  unfold radii_eq. repeat split; assumption.
Qed.

(* ------------------------------------------------------------------ the inner curve and the outer curve *)

(* one corner, seen from the corner of the border box: outer radii (Rx, Ry), thickness of the two sides that
   meet there (wx horizontal offset, wy vertical offset), inner radii (rx, ry) = max(0, R - w) per axis.
   Either the inner corner is an ellipse with the same centre as the outer one and radii not larger, or it is
   square and its vertex is beyond the outer curve's extent on one axis. *)
Lemma corner_concentric Rx Ry wx wy :
  0 <= wx -> 0 <= wy ->
  let rx := qmax0 (Rx - wx) in
  let ry := qmax0 (Ry - wy) in
  (0 < rx -> 0 < ry -> wx + rx == Rx /\ wy + ry == Ry /\ rx <= Rx /\ ry <= Ry) /\
  (rx == 0 \/ ry == 0 -> Rx <= wx \/ Ry <= wy).
Proof.
  intros Hwx Hwy rx ry. unfold rx, ry, qmax0. split.
  - intros H1 H2.
    destruct (Q.max_spec 0 (Rx - wx)) as [[Ha Ea]|[Ha Ea]]; rewrite Ea in *; [|lra].
    destruct (Q.max_spec 0 (Ry - wy)) as [[Hb Eb]|[Hb Eb]]; rewrite Eb in *; [|lra].
    repeat split; lra.
  - intros [H|H].
    + left. pose proof (Q.le_max_r 0 (Rx - wx)). lra.
    + right. pose proof (Q.le_max_r 0 (Ry - wy)). lra.
Qed.

(* a point inside an ellipse is inside every concentric ellipse with radii at least as large *)
Lemma concentric_inside rx ry Rx Ry x y :
  0 < rx -> rx <= Rx -> 0 < ry -> ry <= Ry ->
  x * x * (ry * ry) + y * y * (rx * rx) <= rx * rx * (ry * ry) ->
  x * x * (Ry * Ry) + y * y * (Rx * Rx) <= Rx * Rx * (Ry * Ry).
Proof.
  intros Hrx HRx Hry HRy H.
  set (A := x * x) in *. set (B := y * y) in *.
  set (p := rx * rx) in *. set (q := ry * ry) in *. set (P := Rx * Rx). set (T := Ry * Ry).
  assert (HA : 0 <= A) by (unfold A; nra). assert (HB : 0 <= B) by (unfold B; nra).
  assert (Hp : 0 < p) by (unfold p; nra). assert (Hq : 0 < q) by (unfold q; nra).
  assert (HpP : p <= P) by (unfold p, P; nra). assert (HqT : q <= T) by (unfold q, T; nra).
  assert (K : p * q * (A * T + B * P) <= p * q * (P * T)).
  { assert (K1 : p * q * (A * T + B * P) <= (A * q + B * p) * (P * T)).
    { assert (E : (A * q + B * p) * (P * T) - p * q * (A * T + B * P) ==
                  A * q * T * (P - p) + B * p * P * (T - q)) by ring.
      assert (0 <= A * q * T * (P - p)).
      { apply Qmult_le_0_compat; [|lra]. apply Qmult_le_0_compat; [|lra]. apply Qmult_le_0_compat; lra. }
      assert (0 <= B * p * P * (T - q)).
      { apply Qmult_le_0_compat; [|lra]. apply Qmult_le_0_compat; [|lra]. apply Qmult_le_0_compat; lra. }
      lra. }
    assert (K2 : (A * q + B * p) * (P * T) <= p * q * (P * T)).
    { apply Qmult_le_compat_r; [exact H|]. apply Qmult_le_0_compat; lra. }
    lra. }
  assert (Hpq : 0 < p * q) by (apply Qmult_lt_0_compat; assumption).
  apply (Qmult_le_l _ _ (p * q) Hpq). exact K.
Qed.

(* the inner curve follows the outer curve: whenever the inner radii taken from the USED outer radii fit the inner
   rectangle (always the case when no radius is clipped at 0, see inner_fits_when_not_clipped), at every corner the
   inner ellipse has the centre of the used outer one and radii not larger (so it is inside, concentric_inside),
   or the corner is square with its vertex beyond the extent of the outer curve on one axis.  No condition on the
   specified radii: overlapping ones are scaled first. *)
Theorem inner_curve_inside_outer W H R bt br bb bl :
  0 <= bt -> 0 <= br -> 0 <= bb -> 0 <= bl ->
  let Ro := css_outer W H R in
  fits (W - bl - br) (H - bt - bb) (inner_raw Ro bt br bb bl) ->
  let i := rr (rounded_box W H R bt br bb bl) in
  radii_eq i (inner_raw Ro bt br bb bl) /\
  (0 < tlx i -> 0 < tly i -> bl + tlx i == tlx Ro /\ bt + tly i == tly Ro /\ tlx i <= tlx Ro /\ tly i <= tly Ro) /\
  (0 < trx i -> 0 < try_ i -> br + trx i == trx Ro /\ bt + try_ i == try_ Ro /\ trx i <= trx Ro /\ try_ i <= try_ Ro) /\
  (0 < brx i -> 0 < bry i -> br + brx i == brx Ro /\ bb + bry i == bry Ro /\ brx i <= brx Ro /\ bry i <= bry Ro) /\
  (0 < blx i -> 0 < bly i -> bl + blx i == blx Ro /\ bb + bly i == bly Ro /\ blx i <= blx Ro /\ bly i <= bly Ro) /\
  (tlx i == 0 \/ tly i == 0 -> tlx Ro <= bl \/ tly Ro <= bt) /\
  (trx i == 0 \/ try_ i == 0 -> trx Ro <= br \/ try_ Ro <= bt) /\
  (brx i == 0 \/ bry i == 0 -> brx Ro <= br \/ bry Ro <= bb) /\
  (blx i == 0 \/ bly i == 0 -> blx Ro <= bl \/ bly Ro <= bb).
Proof.
  intros Ht Hr Hb Hl Ro F i.
  assert (E1 : ratio (W - bl - br) (H - bt - bb) (inner_raw Ro bt br bb bl) == 1)
    by (apply ratio_one; [apply inner_raw_nonneg|exact F]).
  assert (Ei : radii_eq i (inner_raw Ro bt br bb bl)).
  { unfold i, rounded_box. cbn [rr]. change (scale (ratio W H R) R) with Ro. now apply scale_one. }
  split; [exact Ei|].
  destruct Ei as [e1 [e2 [e3 [e4 [e5 [e6 [e7 e8]]]]]]].
  change (tlx (inner_raw Ro bt br bb bl)) with (qmax0 (tlx Ro - bl)) in e1.
  change (tly (inner_raw Ro bt br bb bl)) with (qmax0 (tly Ro - bt)) in e2.
  change (trx (inner_raw Ro bt br bb bl)) with (qmax0 (trx Ro - br)) in e3.
  change (try_ (inner_raw Ro bt br bb bl)) with (qmax0 (try_ Ro - bt)) in e4.
  change (brx (inner_raw Ro bt br bb bl)) with (qmax0 (brx Ro - br)) in e5.
  change (bry (inner_raw Ro bt br bb bl)) with (qmax0 (bry Ro - bb)) in e6.
  change (blx (inner_raw Ro bt br bb bl)) with (qmax0 (blx Ro - bl)) in e7.
  change (bly (inner_raw Ro bt br bb bl)) with (qmax0 (bly Ro - bb)) in e8.
  clearbody i.
  destruct (corner_concentric (tlx Ro) (tly Ro) bl bt Hl Ht) as [A1 B1].
  destruct (corner_concentric (trx Ro) (try_ Ro) br bt Hr Ht) as [A2 B2].
  destruct (corner_concentric (brx Ro) (bry Ro) br bb Hr Hb) as [A3 B3].
  destruct (corner_concentric (blx Ro) (bly Ro) bl bb Hl Hb) as [A4 B4].
  cbv zeta in *.
  repeat split; intros; rewrite ?e1, ?e2, ?e3, ?e4, ?e5, ?e6, ?e7, ?e8 in *;
    first [ apply A1; assumption | apply A2; assumption | apply A3; assumption | apply A4; assumption
          | apply B1; assumption | apply B2; assumption | apply B3; assumption | apply B4; assumption ].
Qed.

(* no radius clipped at 0 (every used outer radius at least the adjacent side width): the inner radii fit *)
Lemma inner_fits_when_not_clipped W H R bt br bb bl :
  0 <= W -> 0 <= H -> nonneg R ->
  let Ro := css_outer W H R in
  bl <= tlx Ro -> bt <= tly Ro -> br <= trx Ro -> bt <= try_ Ro ->
  br <= brx Ro -> bb <= bry Ro -> bl <= blx Ro -> bb <= bly Ro ->
  fits (W - bl - br) (H - bt - bb) (inner_raw Ro bt br bb bl).
Proof.
  intros Hw Hh N Ro c1 c2 c3 c4 c5 c6 c7 c8.
  destruct (css_outer_fits W H R Hw Hh N) as [_ [F1 [F2 [F3 F4]]]]. fold Ro in F1, F2, F3, F4.
  unfold fits, inner_raw. cbn [tlx tly trx try_ brx bry blx bly].
  rewrite (qmax0_pos (tlx Ro - bl)), (qmax0_pos (tly Ro - bt)), (qmax0_pos (trx Ro - br)), (qmax0_pos (try_ Ro - bt)),
    (qmax0_pos (brx Ro - br)), (qmax0_pos (bry Ro - bb)), (qmax0_pos (blx Ro - bl)), (qmax0_pos (bly Ro - bb)) by lra.
  repeat split; lra.
Qed.

(* the border box itself: rounded_border_box returns the used outer radii *)
Lemma border_box_radii W H R : 0 <= W -> 0 <= H -> nonneg R ->
  radii_eq (rr (rounded_border_box W H R)) (css_outer W H R).
Proof.
  intros Hw Hh N. destruct (css_outer_fits W H R Hw Hh N) as [[n1 [n2 [n3 [n4 [n5 [n6 [n7 n8]]]]]]] F].
  unfold rounded_border_box, rounded_box. simpl rr. fold (css_outer W H R). set (Ro := css_outer W H R) in *.
  assert (E : radii_eq (inner_raw Ro 0 0 0 0) Ro).
  { unfold radii_eq, inner_raw. cbn [tlx tly trx try_ brx bry blx bly]. repeat split; rewrite qmax0_pos; lra. }
  assert (Er : ratio (W - 0 - 0) (H - 0 - 0) (inner_raw Ro 0 0 0 0) == 1).
  { rewrite (ratio_radii_eq _ _ _ W H Ro); [|ring|ring|exact E]. apply ratio_one; [|exact F].
    unfold nonneg. repeat split; assumption. }
  destruct E as [e1 [e2 [e3 [e4 [e5 [e6 [e7 e8]]]]]]].
  unfold radii_eq, scale. cbn [tlx tly trx try_ brx bry blx bly]. rewrite Er.
  repeat split; [rewrite e1|rewrite e2|rewrite e3|rewrite e4|rewrite e5|rewrite e6|rewrite e7|rewrite e8]; ring.
Qed.

(* ---- the former witness of F162 (100 x 100, all radii 80, left border 40): the repaired code gives the CSS radii
        (10, 50) / (50, 50) and the point (84, 8) of the old inner curve is no longer on it ---- *)
Definition w_R : radii := mkR 80 80 80 80 80 80 80 80.
Definition sq (a : Q) : Q := a * a.
(* (px, py) relative to the border box; top-right / top-left corner of a rounded box o *)
Definition on_tr_curve (o : rbox) (px py : Q) : bool :=
  Qeq_bool (sq (px - (dx o + rw o - trx (rr o))) * sq (try_ (rr o)) + sq (py - (dy o + try_ (rr o))) * sq (trx (rr o)))
           (sq (trx (rr o)) * sq (try_ (rr o))).
Definition outside_tr_curve (o : rbox) (px py : Q) : bool :=
  negb (Qle_bool px (dx o + rw o - trx (rr o))) && negb (Qle_bool (dy o + try_ (rr o)) py) &&
  negb (Qle_bool (sq (px - (dx o + rw o - trx (rr o))) * sq (try_ (rr o)) + sq (py - (dy o + try_ (rr o))) * sq (trx (rr o)))
                 (sq (trx (rr o)) * sq (try_ (rr o)))).
Definition on_tl_curve (o : rbox) (px py : Q) : bool :=
  Qeq_bool (sq (px - (dx o + tlx (rr o))) * sq (tly (rr o)) + sq (py - (dy o + tly (rr o))) * sq (tlx (rr o)))
           (sq (tlx (rr o)) * sq (tly (rr o))).
Definition outside_tl_curve (o : rbox) (px py : Q) : bool :=
  negb (Qle_bool (dx o + tlx (rr o)) px) && negb (Qle_bool (dy o + tly (rr o)) py) &&
  negb (Qle_bool (sq (px - (dx o + tlx (rr o))) * sq (tly (rr o)) + sq (py - (dy o + tly (rr o))) * sq (tlx (rr o)))
                 (sq (tlx (rr o)) * sq (tly (rr o)))).

Example former_f162_witness_follows_css :
  radii_eqb (rr (rounded_box 100 100 w_R 0 0 0 40)) (mkR 10 50 50 50 50 50 10 50) = true /\
  radii_eqb (rr (rounded_border_box 100 100 w_R)) (mkR 50 50 50 50 50 50 50 50) = true /\
  on_tr_curve (rounded_box 100 100 w_R 0 0 0 40) 84 8 = false /\
  on_tr_curve (rounded_box 100 100 w_R 0 0 0 40) 80 10 = true /\
  outside_tr_curve (rounded_border_box 100 100 w_R) 80 10 = false.
Proof. vm_compute. repeat split. Qed.

(* the limit of inner_curve_inside_outer: when a radius is clipped at 0 on one corner and the neighbouring inner
   radius no longer fits, the overlap check on the inner rectangle ("safety net" kept by fe0eeda) shrinks the inner
   curve towards the inner corner, and it leaves the outer curve.  CSS Backgrounds 3 says nothing about inner radii
   that overlap.  100 x 100, top-left radius 90, top-right radius 5, right border 30. *)
Theorem inner_rescale_can_leave_outer_curve :
  exists W H R bt br bb bl px py,
    on_tl_curve (rounded_box W H R bt br bb bl) px py = true /\
    outside_tl_curve (rounded_border_box W H R) px py = true /\
    Qle_bool 1 (ratio W H R) = true.
Proof. exists 100, 100, (mkR 90 90 5 5 0 0 0 0), 0, 30, 0, 0, 28, 14. vm_compute. repeat split. Qed.

Example radius_hypotheses_satisfiable :
  let R := mkR 20 10 12 30 8 8 25 14 in
  fits (100 - 12 - 4) (80 - 3 - 2) (inner_raw (css_outer 100 80 R) 3 4 2 12) /\ nonneg R /\ fits 100 80 R /\
  radii_eqb (rr (rounded_box 100 80 R 3 4 2 12)) (mkR 8 7 8 27 4 6 13 12) = true.
Proof. vm_compute. repeat split; discriminate. Qed.
