(* C17 - rounded corners: properties of the model of Box.rounded_box. *)
From Coq Require Import QArith Qminmax Lqa List Bool.
Require Import WV.model.C17Radius.
Import ListNotations.
Open Scope Q_scope.

(* ---------------------------------------------------------------------------------- min over a list *)
Lemma fold_min_le l : forall a, fold_left Qmin l a <= a.
Proof. induction l as [|x l IH]; intros a; simpl; [lra|]. eapply Qle_trans; [apply IH|]. apply Q.le_min_l. Qed.
Lemma fold_min_in l : forall a x, In x l -> fold_left Qmin l a <= x.
Proof.
  induction l as [|y l IH]; intros a x Hx; simpl; [destruct Hx|]. destruct Hx as [->|Hx].
  - eapply Qle_trans; [apply fold_min_le|]. apply Q.le_min_r.
  - now apply IH.
Qed.
Lemma fold_min_glb l : forall a m, m <= a -> (forall x, In x l -> m <= x) -> m <= fold_left Qmin l a.
Proof.
  induction l as [|y l IH]; intros a m Ha Hl; simpl; [exact Ha|].
  apply IH; [apply Q.min_glb; [exact Ha|apply Hl; now left]|intros; apply Hl; now right].
Qed.
Lemma fold_min_attained l : forall a, fold_left Qmin l a == a \/ exists x, In x l /\ fold_left Qmin l a == x.
Proof.
  induction l as [|y l IH]; intros a; simpl; [left; reflexivity|].
  destruct (IH (Qmin a y)) as [H|[x [Hx H]]].
  - destruct (Q.min_dec a y) as [E|E].
    + left. now rewrite H.
    + right. exists y. split; [now left|now rewrite H].
  - right. exists x. split; [now right|exact H].
Qed.
(* a value that is a lower bound of (a :: l) and is attained is the min, whatever the order *)
Lemma fold_min_unique l a m :
  m <= a -> (forall x, In x l -> m <= x) -> (m == a \/ exists x, In x l /\ m == x) -> fold_left Qmin l a == m.
Proof.
  intros Ha Hl Hatt. apply Qle_antisym.
  - destruct Hatt as [E|[x [Hx E]]]; rewrite E; [apply fold_min_le|now apply fold_min_in].
  - now apply fold_min_glb.
Qed.

Lemma qmax0_nonneg a : 0 <= qmax0 a.
Proof. apply Q.le_max_l. Qed.
Lemma qmax0_pos a : 0 <= a -> qmax0 a == a.
Proof. intros H. unfold qmax0. now apply Q.max_r. Qed.
Lemma qmax0_neg a : a <= 0 -> qmax0 a == 0.
Proof. intros H. unfold qmax0. now apply Q.max_l. Qed.
Lemma qmax0_le a : a <= qmax0 a.
Proof. apply Q.le_max_r. Qed.

Lemma inner_raw_nonneg R bt br bb bl : nonneg (inner_raw R bt br bb bl).
Proof. unfold nonneg, inner_raw; simpl. repeat split; apply qmax0_nonneg. Qed.

(* ------------------------------------------------------------------------------------- the ratio *)
Lemma in_cand x e s : In x (cand e s) -> 0 < s /\ x = e / s.
Proof. unfold cand. destruct (Qlt_le_dec 0 s); simpl; [intros [<-|[]]; now split|intros []]. Qed.
Lemma cand_in e s : 0 < s -> In (e / s) (cand e s).
Proof. intros H. unfold cand. destruct (Qlt_le_dec 0 s); [now left|lra]. Qed.

Lemma in_cands x w h r :
  In x (cands w h r) ->
  (0 < tlx r + trx r /\ x = w / (tlx r + trx r)) \/ (0 < blx r + brx r /\ x = w / (blx r + brx r)) \/
  (0 < tly r + bly r /\ x = h / (tly r + bly r)) \/ (0 < try_ r + bry r /\ x = h / (try_ r + bry r)).
Proof.
  unfold cands. rewrite !in_app_iff. intros [H|[H|[H|H]]]; apply in_cand in H; tauto.
Qed.

Lemma div_nonneg e s : 0 <= e -> 0 < s -> 0 <= e / s.
Proof. intros He Hs. unfold Qdiv. apply Qmult_le_0_compat; [exact He|]. apply Qlt_le_weak, Qinv_lt_0_compat, Hs. Qed.

Lemma ratio_le_1 w h r : ratio w h r <= 1.
Proof. apply fold_min_le. Qed.
Lemma ratio_nonneg w h r : 0 <= w -> 0 <= h -> 0 <= ratio w h r.
Proof.
  intros Hw Hh. apply fold_min_glb; [lra|]. intros x Hx. apply in_cands in Hx.
  destruct Hx as [[Hs ->]|[[Hs ->]|[[Hs ->]|[Hs ->]]]]; now apply div_nonneg.
Qed.

Lemma mul_div_le s e f : 0 < s -> f <= e / s -> s * f <= e.
Proof.
  intros Hs Hf. assert (H : s * f <= s * (e / s)) by (apply Qmult_le_l; assumption).
  eapply Qle_trans; [exact H|]. rewrite Qmult_div_r; [lra|]. intros E. rewrite E in Hs. lra.
Qed.

Lemma side_fits a b e f : 0 <= a -> 0 <= b -> 0 <= e -> 0 <= f ->
  (0 < a + b -> f <= e / (a + b)) -> a * f + b * f <= e.
Proof.
  intros Ha Hb He Hf H. destruct (Qlt_le_dec 0 (a + b)) as [Hs|Hs].
  - setoid_replace (a * f + b * f) with ((a + b) * f) by ring. apply mul_div_le; auto.
  - assert (Ea : a == 0) by lra. assert (Eb : b == 0) by lra. rewrite Ea, Eb. lra.
Qed.

(* scaled radii never overlap: on every side the two curves fit, and no radius is negative *)
Theorem scaled_radii_never_overlap W H R bt br bb bl :
  0 <= W - bl - br -> 0 <= H - bt - bb ->
  let o := rounded_box W H R bt br bb bl in
  nonneg (rr o) /\ fits (rw o) (rh o) (rr o).
Proof.
  intros Hw Hh o. unfold o, rounded_box. simpl rr. simpl rw. simpl rh.
  set (r := inner_raw R bt br bb bl). set (w := W - bl - br) in *. set (h := H - bt - bb) in *.
  pose proof (inner_raw_nonneg R bt br bb bl) as N. fold r in N.
  destruct N as [N1 [N2 [N3 [N4 [N5 [N6 [N7 N8]]]]]]].
  pose proof (ratio_nonneg w h r Hw Hh) as Hf.
  split.
  - unfold nonneg, scale; simpl. repeat split; apply Qmult_le_0_compat; assumption.
  - unfold fits, scale; simpl. repeat split; apply side_fits; auto; intros Hs; apply fold_min_in; unfold cands;
      rewrite !in_app_iff.
    + left. now apply cand_in.
    + right; left. now apply cand_in.
    + right; right; left. now apply cand_in.
    + right; right; right. now apply cand_in.
Qed.

(* when the clipped radii already fit, nothing is scaled *)
Lemma ratio_one w h r : nonneg r -> fits w h r -> ratio w h r == 1.
Proof.
  intros N F. apply fold_min_unique; [lra| |left; reflexivity].
  intros x Hx. apply in_cands in Hx. destruct F as [F1 [F2 [F3 F4]]].
  destruct Hx as [[Hs ->]|[[Hs ->]|[[Hs ->]|[Hs ->]]]]; apply Qle_shift_div_l; auto; lra.
Qed.

(* inner radius = outer radius minus the width of the adjacent side, floored at 0, per axis and per corner with
   its own two sides: top-left (left, top), top-right (right, top), bottom-right (right, bottom),
   bottom-left (left, bottom); reduced by one common factor in (0, 1], which is 1 when the curves fit *)
Theorem inner_radius_is_outer_minus_own_sides W H R bt br bb bl :
  let o := rounded_box W H R bt br bb bl in
  let f := ratio (W - bl - br) (H - bt - bb) (inner_raw R bt br bb bl) in
  dx o = bl /\ dy o = bt /\ rw o = W - bl - br /\ rh o = H - bt - bb /\
  tlx (rr o) = Qmax 0 (tlx R - bl) * f /\ tly (rr o) = Qmax 0 (tly R - bt) * f /\
  trx (rr o) = Qmax 0 (trx R - br) * f /\ try_ (rr o) = Qmax 0 (try_ R - bt) * f /\
  brx (rr o) = Qmax 0 (brx R - br) * f /\ bry (rr o) = Qmax 0 (bry R - bb) * f /\
  blx (rr o) = Qmax 0 (blx R - bl) * f /\ bly (rr o) = Qmax 0 (bly R - bb) * f /\
  f <= 1 /\
  (fits (W - bl - br) (H - bt - bb) (inner_raw R bt br bb bl) -> f == 1).
Proof.
  intros o f. repeat split; try reflexivity.
  - apply ratio_le_1.
  - intros F. apply ratio_one; [apply inner_raw_nonneg|exact F].
Qed.

(* ------------------------------------------------------------------------------------ mirror symmetry *)
Lemma ratio_spec w h r m :
  m <= 1 -> (forall x, In x (cands w h r) -> m <= x) -> (m == 1 \/ exists x, In x (cands w h r) /\ m == x) ->
  ratio w h r == m.
Proof. intros. now apply fold_min_unique. Qed.

Definition sub_cands (l l' : list Q) : Prop := forall x, In x l -> exists y, In y l' /\ x == y.

Lemma ratio_compat w h r w' h' r' :
  sub_cands (cands w h r) (cands w' h' r') -> sub_cands (cands w' h' r') (cands w h r) ->
  ratio w h r == ratio w' h' r'.
Proof.
  intros S1 S2. apply ratio_spec.
  - apply ratio_le_1.
  - intros x Hx. destruct (S1 x Hx) as [y [Hy E]]. rewrite E. now apply fold_min_in.
  - destruct (fold_min_attained (cands w' h' r') 1) as [E|[x [Hx E]]]; [now left|right].
    destruct (S2 x Hx) as [y [Hy E']]. exists y. split; [exact Hy|]. unfold ratio. rewrite E. exact E'.
Qed.

Lemma cand_sub e s e' s' l : e == e' -> s == s' -> In (e' / s') l \/ ~ 0 < s' -> sub_cands (cand e s) (cand e' s' ++ l).
Proof.
  intros Ee Es _ x Hx. apply in_cand in Hx. destruct Hx as [Hs ->].
  exists (e' / s'). split; [apply in_or_app; left; apply cand_in; lra|now rewrite Ee, Es].
Qed.

Lemma sub_cands_app l1 l2 l : sub_cands l1 l -> sub_cands l2 l -> sub_cands (l1 ++ l2) l.
Proof. intros H1 H2 x Hx. apply in_app_or in Hx. destruct Hx; auto. Qed.

Lemma cand_sub_in e s e' s' l : e == e' -> s == s' -> (0 < s' -> In (e' / s') l) -> sub_cands (cand e s) l.
Proof.
  intros Ee Es Hl x Hx. apply in_cand in Hx. destruct Hx as [Hs ->].
  exists (e' / s'). split; [apply Hl; lra|now rewrite Ee, Es].
Qed.

Lemma in_cands_1 w h r : 0 < tlx r + trx r -> In (w / (tlx r + trx r)) (cands w h r).
Proof. intros H. unfold cands. rewrite !in_app_iff. left. now apply cand_in. Qed.
Lemma in_cands_2 w h r : 0 < blx r + brx r -> In (w / (blx r + brx r)) (cands w h r).
Proof. intros H. unfold cands. rewrite !in_app_iff. right; left. now apply cand_in. Qed.
Lemma in_cands_3 w h r : 0 < tly r + bly r -> In (h / (tly r + bly r)) (cands w h r).
Proof. intros H. unfold cands. rewrite !in_app_iff. right; right; left. now apply cand_in. Qed.
Lemma in_cands_4 w h r : 0 < try_ r + bry r -> In (h / (try_ r + bry r)) (cands w h r).
Proof. intros H. unfold cands. rewrite !in_app_iff. right; right; right. now apply cand_in. Qed.

Lemma mirror_h_invol r : mirror_h (mirror_h r) = r.
Proof. destruct r; reflexivity. Qed.
Lemma mirror_v_invol r : mirror_v (mirror_v r) = r.
Proof. destruct r; reflexivity. Qed.

Lemma ratio_mirror_h w w' h r : w == w' -> ratio w' h (mirror_h r) == ratio w h r.
Proof.
  intros Ew. apply ratio_compat; unfold cands at 1; simpl; repeat apply sub_cands_app.
  - apply (cand_sub_in _ _ w (tlx r + trx r)); [now symmetry|simpl; ring|apply in_cands_1].
  - apply (cand_sub_in _ _ w (blx r + brx r)); [now symmetry|simpl; ring|apply in_cands_2].
  - apply (cand_sub_in _ _ h (try_ r + bry r)); [reflexivity|simpl; ring|apply in_cands_4].
  - apply (cand_sub_in _ _ h (tly r + bly r)); [reflexivity|simpl; ring|apply in_cands_3].
  - apply (cand_sub_in _ _ w' (trx r + tlx r)); [exact Ew|simpl; ring|apply (in_cands_1 w' h (mirror_h r))].
  - apply (cand_sub_in _ _ w' (brx r + blx r)); [exact Ew|simpl; ring|apply (in_cands_2 w' h (mirror_h r))].
  - apply (cand_sub_in _ _ h (tly r + bly r)); [reflexivity|simpl; ring|apply (in_cands_4 w' h (mirror_h r))].
  - apply (cand_sub_in _ _ h (try_ r + bry r)); [reflexivity|simpl; ring|apply (in_cands_3 w' h (mirror_h r))].
Qed.

Lemma ratio_mirror_v w h h' r : h == h' -> ratio w h' (mirror_v r) == ratio w h r.
Proof.
  intros Eh. apply ratio_compat; unfold cands at 1; simpl; repeat apply sub_cands_app.
  - apply (cand_sub_in _ _ w (blx r + brx r)); [reflexivity|simpl; ring|apply in_cands_2].
  - apply (cand_sub_in _ _ w (tlx r + trx r)); [reflexivity|simpl; ring|apply in_cands_1].
  - apply (cand_sub_in _ _ h (tly r + bly r)); [now symmetry|simpl; ring|apply in_cands_3].
  - apply (cand_sub_in _ _ h (try_ r + bry r)); [now symmetry|simpl; ring|apply in_cands_4].
  - apply (cand_sub_in _ _ w (tlx r + trx r)); [reflexivity|simpl; ring|apply (in_cands_2 w h' (mirror_v r))].
  - apply (cand_sub_in _ _ w (blx r + brx r)); [reflexivity|simpl; ring|apply (in_cands_1 w h' (mirror_v r))].
  - apply (cand_sub_in _ _ h' (bly r + tly r)); [exact Eh|simpl; ring|apply (in_cands_3 w h' (mirror_v r))].
  - apply (cand_sub_in _ _ h' (bry r + try_ r)); [exact Eh|simpl; ring|apply (in_cands_4 w h' (mirror_v r))].
Qed.

(* mirroring the box left <-> right (radii and side widths) mirrors the result: the offset becomes the right
   width, sizes are unchanged, the radii are the mirrored radii.  A pair of swapped widths at one corner
   breaks exactly this. *)
Theorem rounded_box_mirror_h W H R bt br bb bl :
  let o := rounded_box W H R bt br bb bl in
  let o' := rounded_box W H (mirror_h R) bt bl bb br in
  dx o' = br /\ dy o' = dy o /\ rw o' == rw o /\ rh o' = rh o /\ radii_eq (rr o') (mirror_h (rr o)).
Proof.
  intros o o'. unfold o, o', rounded_box. simpl dx. simpl dy. simpl rw. simpl rh. simpl rr.
  assert (E : inner_raw (mirror_h R) bt bl bb br = mirror_h (inner_raw R bt br bb bl)) by reflexivity.
  rewrite E.
  assert (Er := ratio_mirror_h (W - bl - br) (W - br - bl) (H - bt - bb) (inner_raw R bt br bb bl) ltac:(ring)).
  repeat split; try reflexivity; try ring; simpl; rewrite Er; reflexivity.
Qed.

Theorem rounded_box_mirror_v W H R bt br bb bl :
  let o := rounded_box W H R bt br bb bl in
  let o' := rounded_box W H (mirror_v R) bb br bt bl in
  dx o' = dx o /\ dy o' = bb /\ rw o' = rw o /\ rh o' == rh o /\ radii_eq (rr o') (mirror_v (rr o)).
Proof.
  intros o o'. unfold o, o', rounded_box. simpl dx. simpl dy. simpl rw. simpl rh. simpl rr.
  assert (E : inner_raw (mirror_v R) bb br bt bl = mirror_v (inner_raw R bt br bb bl)) by reflexivity.
  rewrite E.
  assert (Er := ratio_mirror_v (W - bl - br) (H - bt - bb) (H - bb - bt) (inner_raw R bt br bb bl) ltac:(ring)).
  repeat split; try reflexivity; try ring; simpl; rewrite Er; reflexivity.
Qed.

(* ------------------------------------------------------------------ the inner curve and the outer curve *)

(* one corner, seen from the corner of the border box: outer radii (Rx, Ry), thickness of the two sides that
   meet there (wx horizontal offset, wy vertical offset), inner radii (rx, ry) = max(0, R - w) per axis.
   Either the inner corner is an ellipse with the same centre as the outer one and radii not larger, or it is
   square and its vertex is beyond the outer curve's extent on one axis. *)
Lemma corner_concentric Rx Ry wx wy :
  0 <= wx -> 0 <= wy ->
  let rx := qmax0 (Rx - wx) in
  let ry := qmax0 (Ry - wy) in
  (0 < rx -> 0 < ry -> wx + rx == Rx /\ wy + ry == Ry /\ rx <= Rx /\ ry <= Ry) /\
  (rx == 0 \/ ry == 0 -> Rx <= wx \/ Ry <= wy).
Proof.
  intros Hwx Hwy rx ry. unfold rx, ry, qmax0. split.
  - intros H1 H2.
    destruct (Q.max_spec 0 (Rx - wx)) as [[Ha Ea]|[Ha Ea]]; rewrite Ea in *; [|lra].
    destruct (Q.max_spec 0 (Ry - wy)) as [[Hb Eb]|[Hb Eb]]; rewrite Eb in *; [|lra].
    repeat split; lra.
  - intros [H|H].
    + left. pose proof (Q.le_max_r 0 (Rx - wx)). lra.
    + right. pose proof (Q.le_max_r 0 (Ry - wy)). lra.
Qed.

(* a point inside an ellipse is inside every concentric ellipse with radii at least as large *)
Lemma concentric_inside rx ry Rx Ry x y :
  0 < rx -> rx <= Rx -> 0 < ry -> ry <= Ry ->
  x * x * (ry * ry) + y * y * (rx * rx) <= rx * rx * (ry * ry) ->
  x * x * (Ry * Ry) + y * y * (Rx * Rx) <= Rx * Rx * (Ry * Ry).
Proof.
  intros Hrx HRx Hry HRy H.
  set (A := x * x) in *. set (B := y * y) in *.
  set (p := rx * rx) in *. set (q := ry * ry) in *. set (P := Rx * Rx). set (T := Ry * Ry).
  assert (HA : 0 <= A) by (unfold A; nra). assert (HB : 0 <= B) by (unfold B; nra).
  assert (Hp : 0 < p) by (unfold p; nra). assert (Hq : 0 < q) by (unfold q; nra).
  assert (HpP : p <= P) by (unfold p, P; nra). assert (HqT : q <= T) by (unfold q, T; nra).
  assert (K : p * q * (A * T + B * P) <= p * q * (P * T)).
  { assert (K1 : p * q * (A * T + B * P) <= (A * q + B * p) * (P * T)).
    { assert (E : (A * q + B * p) * (P * T) - p * q * (A * T + B * P) ==
                  A * q * T * (P - p) + B * p * P * (T - q)) by ring.
      assert (0 <= A * q * T * (P - p)).
      { apply Qmult_le_0_compat; [|lra]. apply Qmult_le_0_compat; [|lra]. apply Qmult_le_0_compat; lra. }
      assert (0 <= B * p * P * (T - q)).
      { apply Qmult_le_0_compat; [|lra]. apply Qmult_le_0_compat; [|lra]. apply Qmult_le_0_compat; lra. }
      lra. }
    assert (K2 : (A * q + B * p) * (P * T) <= p * q * (P * T)).
    { apply Qmult_le_compat_r; [exact H|]. apply Qmult_le_0_compat; lra. }
    lra. }
  assert (Hpq : 0 < p * q) by (apply Qmult_lt_0_compat; assumption).
  apply (Qmult_le_l _ _ (p * q) Hpq). exact K.
Qed.

(* when nothing is scaled (the outer radii fit the border box and the clipped inner radii fit the inner box) the
   inner curve of every corner lies inside the outer curve *)
Theorem inner_curve_inside_outer W H R bt br bb bl :
  0 <= bt -> 0 <= br -> 0 <= bb -> 0 <= bl ->
  fits (W - bl - br) (H - bt - bb) (inner_raw R bt br bb bl) ->
  let i := rr (rounded_box W H R bt br bb bl) in
  radii_eq i (inner_raw R bt br bb bl) /\
  (0 < tlx i -> 0 < tly i -> bl + tlx i == tlx R /\ bt + tly i == tly R /\ tlx i <= tlx R /\ tly i <= tly R) /\
  (0 < trx i -> 0 < try_ i -> br + trx i == trx R /\ bt + try_ i == try_ R /\ trx i <= trx R /\ try_ i <= try_ R) /\
  (0 < brx i -> 0 < bry i -> br + brx i == brx R /\ bb + bry i == bry R /\ brx i <= brx R /\ bry i <= bry R) /\
  (0 < blx i -> 0 < bly i -> bl + blx i == blx R /\ bb + bly i == bly R /\ blx i <= blx R /\ bly i <= bly R) /\
  (tlx i == 0 \/ tly i == 0 -> tlx R <= bl \/ tly R <= bt) /\
  (trx i == 0 \/ try_ i == 0 -> trx R <= br \/ try_ R <= bt) /\
  (brx i == 0 \/ bry i == 0 -> brx R <= br \/ bry R <= bb) /\
  (blx i == 0 \/ bly i == 0 -> blx R <= bl \/ bly R <= bb).
Proof.
  intros Ht Hr Hb Hl F i.
  assert (E1 : ratio (W - bl - br) (H - bt - bb) (inner_raw R bt br bb bl) == 1)
    by (apply ratio_one; [apply inner_raw_nonneg|exact F]).
  assert (Ei : radii_eq i (inner_raw R bt br bb bl)).
  { unfold i, rounded_box, radii_eq, scale; simpl. rewrite E1. repeat split; ring. }
  split; [exact Ei|].
  destruct Ei as [e1 [e2 [e3 [e4 [e5 [e6 [e7 e8]]]]]]].
  change (tlx (inner_raw R bt br bb bl)) with (qmax0 (tlx R - bl)) in e1.
  change (tly (inner_raw R bt br bb bl)) with (qmax0 (tly R - bt)) in e2.
  change (trx (inner_raw R bt br bb bl)) with (qmax0 (trx R - br)) in e3.
  change (try_ (inner_raw R bt br bb bl)) with (qmax0 (try_ R - bt)) in e4.
  change (brx (inner_raw R bt br bb bl)) with (qmax0 (brx R - br)) in e5.
  change (bry (inner_raw R bt br bb bl)) with (qmax0 (bry R - bb)) in e6.
  change (blx (inner_raw R bt br bb bl)) with (qmax0 (blx R - bl)) in e7.
  change (bly (inner_raw R bt br bb bl)) with (qmax0 (bly R - bb)) in e8.
  clearbody i.
  destruct (corner_concentric (tlx R) (tly R) bl bt Hl Ht) as [A1 B1].
  destruct (corner_concentric (trx R) (try_ R) br bt Hr Ht) as [A2 B2].
  destruct (corner_concentric (brx R) (bry R) br bb Hr Hb) as [A3 B3].
  destruct (corner_concentric (blx R) (bly R) bl bb Hl Hb) as [A4 B4].
  cbv zeta in *.
  repeat split; intros; rewrite ?e1, ?e2, ?e3, ?e4, ?e5, ?e6, ?e7, ?e8 in *;
    first [ apply A1; assumption | apply A2; assumption | apply A3; assumption | apply A4; assumption
          | apply B1; assumption | apply B2; assumption | apply B3; assumption | apply B4; assumption ].
Qed.

(* ---- refuted: with overlapping outer radii rounded_box subtracts the side widths from the UNSCALED radii and
        rescales the result on its own, instead of subtracting from the scaled outer radii (Backgrounds 3, 5.5
        then 5.3): the inner curve then leaves the outer curve.  100 x 100 box, all radii 80, left border 40. ---- *)
Definition w_R : radii := mkR 80 80 80 80 80 80 80 80.
Definition sq (a : Q) : Q := a * a.
(* (px, py) relative to the border box; top-right corner of a rounded box o *)
Definition on_tr_curve (o : rbox) (px py : Q) : bool :=
  Qeq_bool (sq (px - (dx o + rw o - trx (rr o))) * sq (try_ (rr o)) + sq (py - (dy o + try_ (rr o))) * sq (trx (rr o)))
           (sq (trx (rr o)) * sq (try_ (rr o))).
Definition outside_tr_curve (o : rbox) (px py : Q) : bool :=
  negb (Qle_bool px (dx o + rw o - trx (rr o))) && negb (Qle_bool (dy o + try_ (rr o)) py) &&
  negb (Qle_bool (sq (px - (dx o + rw o - trx (rr o))) * sq (try_ (rr o)) + sq (py - (dy o + try_ (rr o))) * sq (trx (rr o)))
                 (sq (trx (rr o)) * sq (try_ (rr o)))).

Theorem inner_curve_leaves_outer_when_radii_overlap :
  exists W H R bt br bb bl px py,
    on_tr_curve (rounded_box W H R bt br bb bl) px py = true /\
    outside_tr_curve (rounded_border_box W H R) px py = true /\
    radii_eqb (rr (rounded_box W H R bt br bb bl)) (css_inner_fit W H R bt br bb bl) = false.
Proof. exists 100, 100, w_R, 0, 0, 0, 40, 84, 8. vm_compute. repeat split. Qed.

Example radius_hypotheses_satisfiable :
  let R := mkR 20 10 12 30 8 8 25 14 in
  fits (100 - 12 - 4) (80 - 3 - 2) (inner_raw R 3 4 2 12) /\ nonneg R /\ fits 100 80 R /\
  radii_eqb (rr (rounded_box 100 80 R 3 4 2 12)) (mkR 8 7 8 27 4 6 13 12) = true.
Proof. vm_compute. repeat split; discriminate. Qed.
