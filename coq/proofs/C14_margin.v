(* C14: margin boxes of one page are independent of each other - proofs about model/C14Margin.v *)
From Coq Require Import ZArith List String Bool Lia.
Require Import WV.model.C14Page WV.model.C14Pages WV.model.C14Margin.
Import ListNotations.
Open Scope string_scope.
Open Scope list_scope.
Open Scope Z_scope.

Lemma margin_boxes_model_map st decls : margin_boxes_model st decls = map (box_output st) decls.
Proof. induction decls as [|d r IH]; simpl; [reflexivity|now rewrite IH]. Qed.

(* what the j-th margin box of a page shows is a function of the page's state and of its own declarations *)
Theorem margin_box_reads_page_state (st : pstate) (decls : list mdecl) (j : nat) (d : mdecl) :
  nth_error decls j = Some d ->
  nth_error (margin_boxes_model st decls) j = Some (box_output st d).
Proof. intros H. rewrite margin_boxes_model_map. now apply map_nth_error. Qed.

(* ... so it does not depend on the declarations (counter-increment, counter-reset, quotes ...) of the other
   margin boxes of the page, created before or after it *)
Theorem margin_boxes_independent (st : pstate) (decls decls' : list mdecl) (j : nat) :
  nth_error decls j = nth_error decls' j ->
  nth_error (margin_boxes_model st decls) j = nth_error (margin_boxes_model st decls') j.
Proof.
  intros H. rewrite !margin_boxes_model_map.
  destruct (nth_error decls j) as [d|] eqn:E.
  - rewrite (map_nth_error _ _ _ E). symmetry in H. now rewrite (map_nth_error _ _ _ H).
  - symmetry in H. apply nth_error_None in E. apply nth_error_None in H.
    assert (E1 : nth_error (map (box_output st) decls) j = None) by (apply nth_error_None; now rewrite map_length).
    assert (E2 : nth_error (map (box_output st) decls') j = None) by (apply nth_error_None; now rewrite map_length).
    now rewrite E1, E2.
Qed.

(* a margin box without counter declarations shows the page's counters *)
Theorem reading_box_shows_page_counters (st : pstate) (content : list item) :
  box_output st (mkMD (mkCS None None None) content) =
  eval_items (ps_depth st)
             (fun n => match lookup_counter n (ps_counters st) with Some v => v | None => 0 end)
             (ps_pages st) content.
Proof. reflexivity. Qed.

(* the generalisation agrees with the page-counter model of C14Pages.v on `page` *)
Lemma update_counter_n_page v s : update_counter_n "page" v s = update_page_counter v s.
Proof. destruct s as [[sets resets] incrs]. reflexivity. Qed.
Lemma page_counters_n_page : forall styles v, page_counters_n "page" v styles = page_counters v styles.
Proof.
  induction styles as [|st r IH]; intros v; [reflexivity|].
  cbn [page_counters_n page_counters]. rewrite update_counter_n_page, IH. reflexivity.
Qed.

Example margin_boxes_example :
  let st := mkPS 0 [("page", 3)] 5 in
  margin_boxes_model st
    [mkMD (mkCS None None (Some [("page", 1)])) [IText 7; ICounter "page"; IOpen; IOpen];
     mkMD (mkCS None None None) [ICounter "page"; IPages; IOpen; IClose; ICounter "c"];
     mkMD (mkCS None (Some [("c", 4)]) (Some [("c", 2)])) [ICounter "c"; IClose; ICounter "page"]]
  = [[(2, 7); (1, 4); (3, 0); (3, 1)];
     [(1, 3); (1, 5); (3, 0); (4, 0); (1, 0)];
     [(1, 6); (4, 0); (1, 3)]].
Proof. reflexivity. Qed.
