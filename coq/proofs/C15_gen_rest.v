(* C15 - the second pass over CounterStyle.render_value (weasyprint/css/counters.py) as REGENERATED on every run:
   the branches `system == 'symbolic'` and `system == 'additive'` and the statements after the chain (steps 4 to 6:
   pad, negative prefix / suffix, return) LINKED: `symbol(..)` is answered by its own regenerated body
   (gen/GenCounters.v), only the recursive call of render_value (decimal / fallback style) stays an oracle [render].
   With proofs/C15_gen_counters.v (cyclic, fixed, alphabetic, numeric) every branch of step 3 and everything after
   it is tied to [represent] / [finish] of the hand model model/C15Style.v. *)
From Coq Require Import ZArith QArith List String Bool Lia.
Require Import WV.model.C15Style WV.model.C15StyleSpec WV.model.C15Builtins WV.proofs.C15_gen_base.
Require Import WV.proofs.C15_gen_numeric WV.proofs.C15_gen_counters.
Require Import WV.proofs.C15_gen_symbolic WV.proofs.C15_gen_additive WV.proofs.C15_gen_finish WV.proofs.C15_gen_neg
               WV.proofs.C15_gen_range.
Require WV.proofs.PyNatural.
Require Import WV.base.Py WV.base.PyLink WV.gen.GenCounters.
Import ListNotations.
Open Scope string_scope.
Open Scope list_scope.

Section Linked2.
Variables (render : list val -> val) (n fuel : nat).
Notation OL := (c15_ops render (S n) fuel).

Theorem gen_symbolic_linked sf fb rest osyms c fx v :
  c_symbols c = msyms osyms ->
  run OL rv_symbolic_body [("self", VObj sf); ("counter", vcounter osyms fb rest); ("counter_value", vint v)]
    (agrees OL (rv_args (VObj sf) v "decimal" VNone) [] (represent c "symbolic" fx v))
    (raises OL (rv_args (VObj sf) v "decimal" VNone) [] (represent c "symbolic" fx v)).
Proof. intros Hc. apply gen_symbolic; auto using c15_ops_ok, c15_symbol. Qed.

Theorem gen_additive_linked sf sy fb rest pl oadd c fx v neg :
  c_additive c = madd oadd -> c_fallback c = fb -> fb <> Some "" ->
  run OL rv_additive_body (base sf sy fb rest pl oadd v neg VNone)
    (agrees OL (rv_args (VObj sf) v "decimal" VNone) (fb_args_of sf pl c v neg) (represent c "additive" fx v))
    (raises OL (rv_args (VObj sf) v "decimal" VNone) (fb_args_of sf pl c v neg) (represent c "additive" fx v)).
Proof. intros Hc Hfb Hne. apply gen_additive; auto using c15_ops_ok, c15_symbol. Qed.

Theorem gen_finish_linked cf opad pn ps t neg un c :
  Py.lookup "pad" cf = vpad opad -> c_pad c = mpad opad ->
  orelse (c_negative c) default_negative = (msym pn, msym ps) ->
  run OL rv_finish_body (finenv cf (enc t) neg un (psym_str pn) (psym_str ps))
    (fun _ r => r = Some (VStr (enc (finish c (neg && un) t)))) (fun _ => False).
Proof.
  intros H1 H2 H3. apply (gen_finish _ (c15_ops_ok _ _ _) (c15_symbol _ _ _) cf opad); assumption.
Qed.

Theorem gen_neg_linked sy fbv ad pd oneg rest v sys :
  run OL rv_neg_body (nenv0 sy fbv ad pd oneg rest v sys)
    (fun rho r => r = None /\ neg_post sy fbv ad pd oneg rest v sys rho) (fun _ => False).
Proof. apply gen_neg; auto using c15_ops_ok, c15_symbol. Qed.

Theorem gen_range_linked sf sy ad pd ng fb rest pl M v orange c sys :
  (inject_Z (Z.abs v) < M)%Q -> c_range c = mrange orange -> c_fallback c = fb -> fb <> Some "" ->
  run OL rv_range_body (renv0 sf sy ad pd ng fb rest pl M v orange sys)
    (range_obs OL sf sy ad pd ng fb rest pl M v orange (rv_args (VObj sf) v (fallback_of c) (VList pl))
               (check_ranges (ranges_of c sys) v) sys)
    (range_err OL (rv_args (VObj sf) v (fallback_of c) (VList pl)) (check_ranges (ranges_of c sys) v)).
Proof. intros HM Hc Hfb Hne. apply gen_range; auto using c15_ops_ok. Qed.
End Linked2.

(* the model's steps 4-5 are the specification's (model/C15StyleSpec.v: spec_finish, written from the text of CSS
   Counter Styles 3): so the regenerated statements return the padded, signed representation the specification asks *)
Lemma finish_is_spec c use t : finish c use t = spec_finish c use t.
Proof.
  unfold finish, spec_finish. destruct (orelse (c_negative c) default_negative) as [np ns]. cbn [fst snd].
  set (d := (fst (orelse (c_pad c) (0%Z, SStr [])) - zlen t - (if use then zlen (symbol np) + zlen (symbol ns) else 0))%Z).
  replace (fst (orelse (c_pad c) (0%Z, SStr [])) - (zlen t + (if use then zlen (symbol np) + zlen (symbol ns) else 0)))%Z
    with d by (unfold d; lia).
  destruct (Z.gtb_spec d 0) as [Hd|Hd]; [reflexivity|].
  replace (Z.to_nat d) with 0%nat by lia. reflexivity.
Qed.

(* the hypotheses are satisfiable and the statements are not vacuous *)
Example ex_range_out :      (* range: 1 5, 10 infinite; the value 7; inf = 1000: the fallback style is asked *)
  match PyNatural.run_out (c15_ops (fun args => VList args) 1 20) rv_range_body
          (renv0 [] VNone VNone VNone VNone (Some "lower-roman") [] [VStr "mine"] 1000 7
                 (Some [RItem (BInt 1) (BInt 5); RItem (BInt 10) BPosInf]) "cyclic") with
  | PyNatural.ONorm _ (Some r) => r = VList [VObj []; vint 7; VStr "lower-roman"; VNone; VList [VStr "mine"]]
  | _ => False
  end.
Proof. vm_compute. reflexivity. Qed.
Example ex_range_in_auto :  (* no range descriptor, system alphabetic, the value 3: in range, nothing returned *)
  match PyNatural.run_out (c15_ops (fun args => VList args) 1 20) rv_range_body
          (renv0 [] VNone VNone VNone VNone None [] [] 1000 3 None "alphabetic") with
  | PyNatural.ONorm rho None => Py.lookup "counter_value" rho = vint 3
  | _ => False
  end.
Proof. vm_compute. reflexivity. Qed.
Example ex_neg_minus7 :
  match PyNatural.run_out (c15_ops (fun _ => VNone) 1 20) rv_neg_body
          (nenv0 VNone VNone VNone VNone None [] (-7) "numeric") with
  | PyNatural.ONorm rho None =>
      Py.lookup "counter_value" rho = vint 7 /\ Py.lookup "negative_prefix" rho = VStr "-" /\
      Py.lookup "use_negative" rho = VBool true
  | _ => False
  end.
Proof. vm_compute. repeat split. Qed.
Example ex_symbolic_5 :
  match PyNatural.run_out (c15_ops (fun _ => VNone) 1 20) rv_symbolic_body
          [("self", VObj []); ("counter", vcounter (Some (map PStr ["*"; "+"])) None []);
           ("counter_value", vint 5)] with
  | PyNatural.ONorm rho None => Py.lookup "initial" rho = VStr "***"
  | _ => False
  end.
Proof. vm_compute. reflexivity. Qed.
Definition roman : list (Z * psym) :=
  [(1000, PStr "M"); (900, PStr "CM"); (500, PStr "D"); (400, PStr "CD"); (100, PStr "C"); (90, PStr "XC");
   (50, PStr "L"); (40, PStr "XL"); (10, PStr "X"); (9, PStr "IX"); (5, PStr "V"); (4, PStr "IV"); (1, PStr "I")]%Z.
Example ex_additive_2024 :
  match PyNatural.run_out (c15_ops (fun _ => VNone) 1 20) rv_additive_body
          (base [] VNone None [] [] (Some roman) 2024 false VNone) with
  | PyNatural.ONorm rho None => Py.lookup "initial" rho = VStr "MMXXIV"
  | _ => False
  end.
Proof. vm_compute. reflexivity. Qed.
(* 0 has no representation in roman: the fallback style is asked, with the value negated back when is_negative *)
Example ex_additive_fallback :
  match PyNatural.run_out (c15_ops (fun args => VList args) 1 20) rv_additive_body
          (base [] VNone (Some "lower-alpha") [] [VStr "roman"] (Some [(5, PStr "V")%Z]) 3 true VNone) with
  | PyNatural.ONorm _ (Some r) =>
      r = VList [VObj []; VNum (-3 # 1); VStr "lower-alpha"; VNone; VList [VStr "roman"]]
  | _ => False
  end.
Proof. vm_compute. reflexivity. Qed.
Example ex_finish_pad_negative :
  PyNatural.run_out (c15_ops (fun _ => VNone) 1 20) rv_finish_body
    (finenv [("pad", vpad (Some (5%Z, PStr "0")))] "42" true true "-" "") =
  match PyNatural.run_out (c15_ops (fun _ => VNone) 1 20) rv_finish_body
    (finenv [("pad", vpad (Some (5%Z, PStr "0")))] "42" true true "-" "") with
  | PyNatural.ONorm rho _ => PyNatural.ONorm rho (Some (VStr "-0042"))
  | o => o
  end.
Proof. vm_compute. reflexivity. Qed.
Print Assumptions gen_symbolic_linked.
Print Assumptions gen_additive_linked.
Print Assumptions gen_finish_linked.
Print Assumptions gen_neg_linked.
Print Assumptions gen_range_linked.
