(* C05 - adjust_box_sizing(box, axis) of weasyprint/layout/percent.py, as REGENERATED from the source on every run
   (gen/GenBoxSizing.v: the two specialisations axis='width' and axis='height', obtained by constant propagation of the
   parameter in the printer) computes exactly the hand model [adjust] of model/C05BoxSizing.v on the sizes of its axis
   and touches nothing else; and the model meets the clause "box-sizing only changes which box the declared size
   measures" written from the property text ([adjust_spec]). *)
From Coq Require Import QArith Qminmax Lqa List String Bool.
Require Import WV.base.Py WV.gen.GenBoxSizing WV.proofs.PyTac WV.proofs.PyNatural WV.model.C05BoxSizing.
Import ListNotations.
Open Scope string_scope.
Open Scope list_scope.
Open Scope Q_scope.

Ltac qmax_cases :=
  repeat match goal with
         | |- context [Qmax ?a ?b] =>
             let m := fresh "m" in let H := fresh "H" in
             pose proof (Q.max_spec a b) as H; set (m := Qmax a b) in *; clearbody m; destruct H as [[? ?]|[? ?]]
         end.
Ltac qle_cases :=
  repeat match goal with
         | |- context [Qle_bool ?a ?b] => let E := fresh "E" in destruct (Qle_bool a b) eqn:E
         end.

Definition width_post (s : sizing) (srest : list (string * val)) (pl pr pt pb bl br bt bb : Q) (z : sizes)
           (h mnh mxh : val) (rest : list (string * val)) (rho : env) (res : option val) : Prop :=
  res = None /\
  exists w' mn' mx',
    lookup "box" rho = bsbox (VStr (sizing_kw s)) srest (VNum pl) (VNum pr) (VNum pt) (VNum pb) (VNum bl) (VNum br)
                             (VNum bt) (VNum bb) w' mn' mx' h mnh mxh rest /\
    let z' := adjust s (mkEdges pl pr bl br) z in
    rep w' (sz z') /\ rep mn' (sz_min z') /\ repq mx' (sz_max z').

Lemma gen_adjust_width O (HO : ops_ok O) s srest pl pr pt pb bl br bt bb w mn mx h mnh mxh rest :
  run O adjust_box_sizing_width_body
    [("box", bsbox (VStr (sizing_kw s)) srest (VNum pl) (VNum pr) (VNum pt) (VNum pb) (VNum bl) (VNum br) (VNum bt)
                   (VNum bb) (vo w) (vo mn) (VNum mx) h mnh mxh rest)]
    (width_post s srest pl pr pt pb bl br bt bb (mkSizes w mn mx) h mnh mxh rest) (fun _ => False).
Proof.
  unfold run, adjust_box_sizing_width_body, bsbox.
  destruct s, w as [w|], mn as [mn|];
    lazy -[qadd qsub qmul qdiv qmax qmin qleb qeqb width_post Qplus Qminus Qmult Qdiv Qeq_bool Qle_bool Qmax];
    split_paths O; unseal HO.
  all: unfold width_post, adjust, bs_delta, shrink, bsbox; cbn [pad_a pad_b bor_a bor_b sz sz_min sz_max sizing_kw].
  all: (split; [reflexivity|]); do 3 eexists; (split; [reflexivity|]).
  all: qle_cases; cbn [sz sz_min sz_max option_map rep repq vo]; to_props.
  all: repeat split; try reflexivity; qmax_cases; try lra.
Qed.

Definition height_post (s : sizing) (srest : list (string * val)) (pl pr pt pb bl br bt bb : Q) (w mnw mxw : val)
           (z : sizes) (rest : list (string * val)) (rho : env) (res : option val) : Prop :=
  res = None /\
  exists h' mn' mx',
    lookup "box" rho = bsbox (VStr (sizing_kw s)) srest (VNum pl) (VNum pr) (VNum pt) (VNum pb) (VNum bl) (VNum br)
                             (VNum bt) (VNum bb) w mnw mxw h' mn' mx' rest /\
    let z' := adjust s (mkEdges pt pb bt bb) z in
    rep h' (sz z') /\ rep mn' (sz_min z') /\ repq mx' (sz_max z').

Lemma gen_adjust_height O (HO : ops_ok O) s srest pl pr pt pb bl br bt bb w mnw mxw h mn mx rest :
  run O adjust_box_sizing_height_body
    [("box", bsbox (VStr (sizing_kw s)) srest (VNum pl) (VNum pr) (VNum pt) (VNum pb) (VNum bl) (VNum br) (VNum bt)
                   (VNum bb) w mnw mxw (vo h) (vo mn) (VNum mx) rest)]
    (height_post s srest pl pr pt pb bl br bt bb w mnw mxw (mkSizes h mn mx) rest) (fun _ => False).
Proof.
  unfold run, adjust_box_sizing_height_body, bsbox.
  destruct s, h as [h|], mn as [mn|];
    lazy -[qadd qsub qmul qdiv qmax qmin qleb qeqb height_post Qplus Qminus Qmult Qdiv Qeq_bool Qle_bool Qmax];
    split_paths O; unseal HO.
  all: unfold height_post, adjust, bs_delta, shrink, bsbox; cbn [pad_a pad_b bor_a bor_b sz sz_min sz_max sizing_kw].
  all: (split; [reflexivity|]); do 3 eexists; (split; [reflexivity|]).
  all: qle_cases; cbn [sz sz_min sz_max option_map rep repq vo]; to_props.
  all: repeat split; try reflexivity; qmax_cases; try lra.
Qed.

(* any other keyword trips the assert of the else branch (the computed values have only these three) *)
Lemma gen_adjust_bad_keyword O (kw : string) srest pl pr pt pb bl br bt bb w mnw mxw h mnh mxh rest :
  sizing_of kw = None ->
  let box := bsbox (VStr kw) srest pl pr pt pb bl br bt bb w mnw mxw h mnh mxh rest in
  run O adjust_box_sizing_width_body [("box", box)] (fun _ _ => False) (fun m => m = "AssertionError") /\
  run O adjust_box_sizing_height_body [("box", box)] (fun _ _ => False) (fun m => m = "AssertionError").
Proof.
  unfold sizing_of. intros H.
  destruct (String.eqb kw "border-box") eqn:E1; [discriminate|].
  destruct (String.eqb kw "padding-box") eqn:E2; [discriminate|].
  destruct (String.eqb kw "content-box") eqn:E3; [discriminate|].
  lazy in E1, E2, E3.
  split; unfold run, adjust_box_sizing_width_body, adjust_box_sizing_height_body, bsbox;
    lazy; rewrite E1, E2, E3; reflexivity.
Qed.

(* ---- the model meets the specification written from the property text *)
Lemma measures_shrink s e d : edges_nonneg e -> 0 <= d -> ~ bs_delta s e <= 0 -> measures s e d (shrink (bs_delta s e) d).
Proof.
  intros (Ha & Hb & Hc & Hd) H0 Hpos. unfold measures, shrink.
  destruct s; cbn [bs_delta extent] in *; split; intros; qmax_cases; lra.
Qed.
Lemma measures_same s e d : edges_nonneg e -> 0 <= d -> bs_delta s e <= 0 -> measures s e d d.
Proof.
  intros (Ha & Hb & Hc & Hd) H0 Hle. unfold measures.
  destruct s; cbn [bs_delta extent] in *; split; intros; lra.
Qed.
Lemma measures_eq s e d c c' : c == c' -> measures s e d c -> measures s e d c'.
Proof.
  intros E [H1 H2]. split; intros H.
  - specialize (H1 H). destruct s; cbn [extent] in *; lra.
  - specialize (H2 H). lra.
Qed.

Theorem adjust_meets_spec s e z : edges_nonneg e -> adjust_spec s e z (adjust s e z).
Proof.
  intros He. unfold adjust_spec, adjust.
  destruct (Qle_bool (bs_delta s e) 0) eqn:E.
  - apply Qle_bool_iff in E. destruct z as [[w|] [mn|] mx]; cbn [sz sz_min sz_max option_map measures_opt]; (split; [|split]); try exact I;
      intros; auto using measures_same.
  - assert (Hpos : ~ bs_delta s e <= 0) by (intro X; apply Qle_bool_iff in X; congruence).
    destruct z as [[w|] [mn|] mx]; cbn [sz sz_min sz_max option_map measures_opt]; (split; [|split]); try exact I;
      intros; auto using measures_shrink.
Qed.

(* the specification is stable under == of the represented sizes *)
Lemma measures_opt_rep s e d v o : rep v o -> measures_opt s e d o -> exists o', v = vo o' /\ measures_opt s e d o'.
Proof.
  destruct v as [x|str| | | | |], o as [y|]; cbn; try contradiction; intros R M.
  - exists (Some x). split; [reflexivity|]. destruct d as [d|]; cbn in *; [|contradiction].
    intros H0. apply (measures_eq s e d y x); [symmetry; exact R|auto].
  - subst str. exists None. split; [reflexivity|exact M].
Qed.

Lemma run_weaken O body rho (P Q : env -> option val -> Prop) :
  (forall rho' r, P rho' r -> Q rho' r) -> run O body rho P (fun _ => False) -> run O body rho Q (fun _ => False).
Proof.
  intros HPQ. rewrite !run_natural. destruct (run_out O body rho); auto.
Qed.

(* ---- the statements about the real operations *)
Theorem adjust_box_sizing_width_is_model s srest pl pr pt pb bl br bt bb w mn mx h mnh mxh rest :
  run real_ops adjust_box_sizing_width_body
    [("box", bsbox (VStr (sizing_kw s)) srest (VNum pl) (VNum pr) (VNum pt) (VNum pb) (VNum bl) (VNum br) (VNum bt)
                   (VNum bb) (vo w) (vo mn) (VNum mx) h mnh mxh rest)]
    (width_post s srest pl pr pt pb bl br bt bb (mkSizes w mn mx) h mnh mxh rest) (fun _ => False).
Proof. apply gen_adjust_width, real_ok. Qed.

Theorem adjust_box_sizing_height_is_model s srest pl pr pt pb bl br bt bb w mnw mxw h mn mx rest :
  run real_ops adjust_box_sizing_height_body
    [("box", bsbox (VStr (sizing_kw s)) srest (VNum pl) (VNum pr) (VNum pt) (VNum pb) (VNum bl) (VNum br) (VNum bt)
                   (VNum bb) w mnw mxw (vo h) (vo mn) (VNum mx) rest)]
    (height_post s srest pl pr pt pb bl br bt bb w mnw mxw (mkSizes h mn mx) rest) (fun _ => False).
Proof. apply gen_adjust_height, real_ok. Qed.

Lemma spec_of_reps s e z (v1 v2 v3 : val) :
  edges_nonneg e ->
  rep v1 (sz (adjust s e z)) -> rep v2 (sz_min (adjust s e z)) -> repq v3 (sz_max (adjust s e z)) ->
  exists z', v1 = vo (sz z') /\ v2 = vo (sz_min z') /\ v3 = VNum (sz_max z') /\ adjust_spec s e z z'.
Proof.
  intros He R1 R2 R3. destruct (adjust_meets_spec s e z He) as (S1 & S2 & S3).
  destruct (measures_opt_rep _ _ _ _ _ R1 S1) as (o1 & -> & M1).
  destruct (measures_opt_rep _ _ _ _ _ R2 S2) as (o2 & -> & M2).
  destruct v3 as [x| | | | | |]; try contradiction. cbn in R3.
  exists (mkSizes o1 o2 x). cbn [sz sz_min sz_max]. do 3 (split; [reflexivity|]).
  split; [exact M1|]. split; [exact M2|]. cbn [sz_max]. intros Hx.
  apply (measures_eq _ _ _ _ _ (Qeq_sym _ _ R3)). apply S3, Hx.
Qed.

(* the clause of the property, directly about the regenerated text: on each axis, for non-negative paddings and
   borders, the three sizes afterwards are those whose box named by box-sizing measures the declared size
   (floored at 0), 'auto' stays 'auto', and no other entry of the box changes *)
Theorem box_sizing_measures_declared_width s srest pl pr pt pb bl br bt bb w mn mx h mnh mxh rest :
  0 <= pl -> 0 <= pr -> 0 <= bl -> 0 <= br ->
  run real_ops adjust_box_sizing_width_body
    [("box", bsbox (VStr (sizing_kw s)) srest (VNum pl) (VNum pr) (VNum pt) (VNum pb) (VNum bl) (VNum br) (VNum bt)
                   (VNum bb) (vo w) (vo mn) (VNum mx) h mnh mxh rest)]
    (fun rho res => res = None /\ exists z',
        lookup "box" rho = bsbox (VStr (sizing_kw s)) srest (VNum pl) (VNum pr) (VNum pt) (VNum pb) (VNum bl) (VNum br)
                                 (VNum bt) (VNum bb) (vo (sz z')) (vo (sz_min z')) (VNum (sz_max z')) h mnh mxh rest /\
        adjust_spec s (mkEdges pl pr bl br) (mkSizes w mn mx) z')
    (fun _ => False).
Proof.
  intros H1 H2 H3 H4.
  eapply run_weaken; [|apply adjust_box_sizing_width_is_model].
  intros rho' r (Hr & w' & mn' & mx' & Hb & R1 & R2 & R3). split; [exact Hr|].
  destruct (spec_of_reps s (mkEdges pl pr bl br) (mkSizes w mn mx) w' mn' mx') as (z' & -> & -> & -> & Hs); auto.
  - repeat split; assumption.
  - exists z'. split; [exact Hb|exact Hs].
Qed.

Theorem box_sizing_measures_declared_height s srest pl pr pt pb bl br bt bb w mnw mxw h mn mx rest :
  0 <= pt -> 0 <= pb -> 0 <= bt -> 0 <= bb ->
  run real_ops adjust_box_sizing_height_body
    [("box", bsbox (VStr (sizing_kw s)) srest (VNum pl) (VNum pr) (VNum pt) (VNum pb) (VNum bl) (VNum br) (VNum bt)
                   (VNum bb) w mnw mxw (vo h) (vo mn) (VNum mx) rest)]
    (fun rho res => res = None /\ exists z',
        lookup "box" rho = bsbox (VStr (sizing_kw s)) srest (VNum pl) (VNum pr) (VNum pt) (VNum pb) (VNum bl) (VNum br)
                                 (VNum bt) (VNum bb) w mnw mxw (vo (sz z')) (vo (sz_min z')) (VNum (sz_max z')) rest /\
        adjust_spec s (mkEdges pt pb bt bb) (mkSizes h mn mx) z')
    (fun _ => False).
Proof.
  intros H1 H2 H3 H4.
  eapply run_weaken; [|apply adjust_box_sizing_height_is_model].
  intros rho' r (Hr & h' & mn' & mx' & Hb & R1 & R2 & R3). split; [exact Hr|].
  destruct (spec_of_reps s (mkEdges pt pb bt bb) (mkSizes h mn mx) h' mn' mx') as (z' & -> & -> & -> & Hs); auto.
  - repeat split; assumption.
  - exists z'. split; [exact Hb|exact Hs].
Qed.

(* non-vacuity: border-box, paddings 1 + 2, borders 3 + 4: width 40 -> 30, min-width auto, max-width 100 -> 90;
   height 5 (less than the 10 of the edges) -> 0 *)
Example box_sizing_example :
  run real_ops adjust_box_sizing_width_body
    [("box", bsbox (VStr "border-box") [] (VNum 1) (VNum 2) (VNum 1) (VNum 2) (VNum 3) (VNum 4) (VNum 3) (VNum 4)
                   (VNum 40) (VStr "auto") (VNum 100) (VNum 5) (VNum 0) (VNum 100) [])]
    (fun rho _ => lookup "box" rho =
       bsbox (VStr "border-box") [] (VNum 1) (VNum 2) (VNum 1) (VNum 2) (VNum 3) (VNum 4) (VNum 3) (VNum 4)
             (VNum 30) (VStr "auto") (VNum 90) (VNum 5) (VNum 0) (VNum 100) []) (fun _ => False) /\
  run real_ops adjust_box_sizing_height_body
    [("box", bsbox (VStr "border-box") [] (VNum 1) (VNum 2) (VNum 1) (VNum 2) (VNum 3) (VNum 4) (VNum 3) (VNum 4)
                   (VNum 40) (VStr "auto") (VNum 100) (VNum 5) (VNum 0) (VNum 100) [])]
    (fun rho _ => lookup "box" rho =
       bsbox (VStr "border-box") [] (VNum 1) (VNum 2) (VNum 1) (VNum 2) (VNum 3) (VNum 4) (VNum 3) (VNum 4)
             (VNum 40) (VStr "auto") (VNum 100) (VNum 0) (VNum 0) (VNum 90) []) (fun _ => False).
Proof. split; vm_compute; reflexivity. Qed.
