(* C15: the model of update_counters / element_to_box (per-name value stacks + stack of name sets) refines the
   reference interpreter of CSS counter scoping (stack of levels), for every DOM tree in which
     a list item with an explicit counter-increment names list-item in it (the code drops the implicit
     list-item increment of CSS Lists 3 section 4.6 otherwise: see implicit_list_item_refuted).
   The model never raises (the assertions and pops of update_counters are safe) and every generated box
   observes the same counter stacks as the reference. *)
From Coq Require Import ZArith List String Bool Lia.
Require Import WV.model.C15Scope.
Import ListNotations.
Open Scope Z_scope.

(* ------------------------------------------------------------------------- induction on DOM trees *)
Section NodeInd.
  Variable P : node -> Prop.
  Hypothesis H : forall d p b kids a, Forall P kids -> P (Elem d p b kids a).
  Fixpoint node_ind' (n : node) : P n :=
    match n with
    | Elem d p b kids a =>
      H d p b kids a ((fix go (l : list node) : Forall P l :=
                         match l with
                         | [] => Forall_nil P
                         | k :: tl => Forall_cons k (node_ind' k) (go tl)
                         end) kids)
    end.
End NodeInd.

(* --------------------------------------------------------------------------------- the relation *)
Definition pick (n : name) (l : level) : list Z := match assoc n l with Some v => [v] | None => [] end.
Definition keys (l : level) : list name := map fst l.

Record R (st : state) (lv : list level) : Prop := mkR {
  R_values : forall n, values st n = flat_map (pick n) lv;
  R_scopes : scopes st = map keys lv;
  R_nodup : Forall (fun l => NoDup (keys l)) lv;
  R_nonempty : lv <> [] }.

Lemma ref_obs_flat lv n : ref_obs lv n = flat_map (pick n) lv.
Proof. reflexivity. Qed.

Lemma mem_keys n l : mem n (keys l) = in_level n l.
Proof.
  unfold in_level, keys. induction l as [|[k v] l IH]; simpl; [reflexivity|].
  rewrite String.eqb_sym. destruct (String.eqb k n); simpl; [reflexivity|exact IH].
Qed.

Lemma pick_in_level n l : in_level n l = false -> pick n l = [].
Proof. unfold in_level, pick. destruct (assoc n l); [discriminate|reflexivity]. Qed.
Lemma pick_in_level_true n l : in_level n l = true -> exists v, pick n l = [v] /\ assoc n l = Some v.
Proof. unfold in_level, pick. destruct (assoc n l) as [v|]; [exists v; auto|discriminate]. Qed.

Lemma in_level_In n l : in_level n l = true <-> In n (keys l).
Proof.
  unfold in_level, keys. induction l as [|[k v] l IH]; simpl; [split; [discriminate|contradiction]|].
  destruct (String.eqb_spec k n) as [->|Hne].
  - split; auto.
  - rewrite IH. split; [auto|]. intros [E|E]; [contradiction|exact E].
Qed.

(* update_assoc: value changed for n, keys unchanged, other names untouched *)
Lemma keys_update n f l : keys (update_assoc n f l) = keys l.
Proof.
  unfold keys. induction l as [|[k v] l IH]; simpl; [reflexivity|].
  destruct (String.eqb k n); simpl; [reflexivity|]. rewrite IH. reflexivity.
Qed.
Lemma assoc_update_same n f l v : assoc n l = Some v -> assoc n (update_assoc n f l) = Some (f v).
Proof.
  induction l as [|[k w] l IH]; simpl; [discriminate|].
  destruct (String.eqb_spec k n) as [->|Hne]; simpl.
  - rewrite String.eqb_refl. intros [= ->]. reflexivity.
  - destruct (String.eqb_spec k n); [contradiction|]. exact IH.
Qed.
Lemma assoc_update_other n m f l : n <> m -> assoc m (update_assoc n f l) = assoc m l.
Proof.
  intros Hne. induction l as [|[k w] l IH]; simpl; [reflexivity|].
  destruct (String.eqb_spec k n) as [->|Hkn]; simpl.
  - destruct (String.eqb_spec n m); [contradiction|reflexivity].
  - destruct (String.eqb k m); [reflexivity|exact IH].
Qed.
Lemma pick_update_other n m f l : n <> m -> pick m (update_assoc n f l) = pick m l.
Proof. intros Hne. unfold pick. rewrite assoc_update_other by exact Hne. reflexivity. Qed.

Lemma pick_update_same n f l v : assoc n l = Some v -> pick n (update_assoc n f l) = [f v].
Proof. intros H. unfold pick. rewrite (assoc_update_same n f l v H). reflexivity. Qed.
Lemma pick_cons_same n v l : pick n ((n, v) :: l) = [v].
Proof. unfold pick. cbn [assoc]. rewrite String.eqb_refl. reflexivity. Qed.
Lemma pick_cons_other n m v l : n <> m -> pick m ((n, v) :: l) = pick m l.
Proof. intros H. unfold pick. cbn [assoc]. destruct (String.eqb_spec n m); [contradiction|reflexivity]. Qed.

Lemma upd_fun_same f n v : upd_fun f n v n = v.
Proof. unfold upd_fun. rewrite String.eqb_refl. reflexivity. Qed.
Lemma upd_fun_other f n m v : n <> m -> upd_fun f n v m = f m.
Proof. intros Hne. unfold upd_fun. destruct (String.eqb_spec n m); [contradiction|reflexivity]. Qed.

(* --------------------------------------------------------------------------------- single operations *)
Lemma R_reset st lv nv : R st lv -> exists st', do_reset st nv = Some st' /\ R st' (ref_reset lv nv).
Proof.
  intros [Hv Hs Hnd Hne]. destruct nv as [n v]. destruct lv as [|l rest]; [contradiction|].
  unfold do_reset, ref_reset. rewrite Hs. cbn [map fst snd]. rewrite mem_keys.
  inversion Hnd as [|? ? Hl Hrest]; subst.
  destruct (in_level n l) eqn:Hin.
  - destruct (pick_in_level_true n l Hin) as (old & Hp & Ha).
    rewrite (Hv n). cbn [flat_map]. rewrite Hp. cbn [app].
    eexists. split; [reflexivity|]. constructor; cbn [values scopes].
    + intros m. destruct (String.eqb_spec n m) as [<-|Hnm].
      * rewrite upd_fun_same. cbn [flat_map]. rewrite (pick_update_same n (fun _ => v) l old Ha). reflexivity.
      * rewrite upd_fun_other by exact Hnm. rewrite (Hv m). cbn [flat_map].
        rewrite pick_update_other by exact Hnm. reflexivity.
    + cbn [map]. rewrite keys_update. reflexivity.
    + constructor; [rewrite keys_update; exact Hl|exact Hrest].
    + discriminate.
  - eexists. split; [reflexivity|]. constructor; cbn [values scopes].
    + intros m. destruct (String.eqb_spec n m) as [<-|Hnm].
      * rewrite upd_fun_same. rewrite (Hv n). cbn [flat_map]. rewrite pick_cons_same.
        rewrite (pick_in_level n l Hin). reflexivity.
      * rewrite upd_fun_other by exact Hnm. rewrite (Hv m). cbn [flat_map].
        rewrite pick_cons_other by exact Hnm. reflexivity.
    + reflexivity.
    + constructor; [|exact Hrest]. cbn [keys map fst]. constructor; [|exact Hl].
      intros Hc. apply in_level_In in Hc. congruence.
    + discriminate.
Qed.

(* modify_innermost finds the head of the flattened stack *)
Lemma modify_innermost_none f n lv : modify_innermost f n lv = None <-> flat_map (pick n) lv = [].
Proof.
  induction lv as [|l rest IH]; simpl; [split; auto|].
  destruct (in_level n l) eqn:Hin.
  - destruct (pick_in_level_true n l Hin) as (v & -> & _). split; discriminate.
  - rewrite (pick_in_level n l Hin). simpl. destruct (modify_innermost f n rest).
    + split; [discriminate|]. intros E. apply IH in E. discriminate.
    + split; [intros _; apply IH; reflexivity|reflexivity].
Qed.

Lemma modify_innermost_some f n : forall lv lv',
  modify_innermost f n lv = Some lv' ->
  exists x tl, flat_map (pick n) lv = x :: tl /\ flat_map (pick n) lv' = f x :: tl /\
               (forall m, n <> m -> flat_map (pick m) lv' = flat_map (pick m) lv) /\
               map keys lv' = map keys lv.
Proof.
  induction lv as [|l rest IH]; intros lv' E; simpl in E; [discriminate|].
  destruct (in_level n l) eqn:Hin.
  - injection E as <-. destruct (pick_in_level_true n l Hin) as (v & Hp & Ha).
    exists v, (flat_map (pick n) rest). cbn [flat_map]. rewrite Hp. split; [reflexivity|]. split.
    + rewrite (pick_update_same n f l v Ha). reflexivity.
    + split.
      * intros m Hnm. rewrite pick_update_other by exact Hnm. reflexivity.
      * cbn [map]. rewrite keys_update. reflexivity.
  - destruct (modify_innermost f n rest) as [r|] eqn:Er; [|discriminate]. injection E as <-.
    destruct (IH r eq_refl) as (x & tl & H1 & H2 & H3 & H4).
    exists x, tl. cbn [flat_map]. rewrite (pick_in_level n l Hin). cbn [app]. repeat split; auto.
    + intros m Hnm. rewrite (H3 m Hnm). reflexivity.
    + cbn [map]. rewrite H4. reflexivity.
Qed.

Lemma modify_innermost_nodup f n : forall lv lv',
  modify_innermost f n lv = Some lv' -> Forall (fun l => NoDup (keys l)) lv -> Forall (fun l => NoDup (keys l)) lv'.
Proof.
  induction lv as [|l rest IH]; intros lv' E Hnd; simpl in E; [discriminate|].
  inversion Hnd as [|? ? Hl Hrest]; subst.
  destruct (in_level n l).
  - injection E as <-. constructor; [rewrite keys_update; exact Hl|exact Hrest].
  - destruct (modify_innermost f n rest) as [r|] eqn:Er; [|discriminate]. injection E as <-.
    constructor; [exact Hl|]. apply (IH r eq_refl Hrest).
Qed.

Lemma R_modify f st lv n : R st lv -> exists st', do_modify f st n = Some st' /\ R st' (ref_modify f lv n).
Proof.
  intros [Hv Hs Hnd Hne]. destruct lv as [|l rest]; [contradiction|].
  unfold do_modify, ref_modify. rewrite Hs. cbn [map].
  destruct (modify_innermost f n (l :: rest)) as [lv'|] eqn:Em.
  - destruct (modify_innermost_some f n _ _ Em) as (x & tl & H1 & H2 & H3 & H4).
    rewrite (Hv n), H1. eexists. split; [reflexivity|]. constructor; cbn [values scopes].
    + intros m. destruct (String.eqb_spec n m) as [<-|Hnm].
      * rewrite upd_fun_same. symmetry. exact H2.
      * rewrite upd_fun_other by exact Hnm. rewrite (Hv m). symmetry. apply H3. exact Hnm.
    + rewrite H4. reflexivity.
    + apply (modify_innermost_nodup f n _ _ Em Hnd).
    + intros ->. simpl in H4. discriminate.
  - pose proof (proj1 (modify_innermost_none f n (l :: rest)) Em) as Hnone.
    rewrite (Hv n), Hnone. rewrite mem_keys.
    assert (Hin : in_level n l = false).
    { cbn [flat_map] in Hnone. destruct (in_level n l) eqn:E; [|reflexivity].
      destruct (pick_in_level_true n l E) as (v & Hp & _). rewrite Hp in Hnone. discriminate. }
    rewrite Hin. eexists. split; [reflexivity|].
    inversion Hnd as [|? ? Hl Hrest]; subst. constructor; cbn [values scopes].
    + intros m. destruct (String.eqb_spec n m) as [<-|Hnm].
      * rewrite upd_fun_same. cbn [flat_map]. rewrite pick_cons_same.
        cbn [flat_map] in Hnone. rewrite (pick_in_level n l Hin) in Hnone. cbn [app] in Hnone.
        rewrite Hnone. reflexivity.
      * rewrite upd_fun_other by exact Hnm. rewrite (Hv m). cbn [flat_map].
        rewrite pick_cons_other by exact Hnm. reflexivity.
    + reflexivity.
    + constructor; [|exact Hrest]. cbn [keys map fst]. constructor; [|exact Hl].
      intros Hc. apply in_level_In in Hc. congruence.
    + discriminate.
Qed.

(* folds *)
Lemma R_fold {A} (step : state -> A -> option state) (rstep : list level -> A -> list level) :
  (forall st lv a, R st lv -> exists st', step st a = Some st' /\ R st' (rstep lv a)) ->
  forall l st lv, R st lv -> exists st', fold_opt step l st = Some st' /\ R st' (fold_left rstep l lv).
Proof.
  intros Hstep. induction l as [|a l IH]; intros st lv HR; simpl.
  - exists st. auto.
  - destruct (Hstep st lv a HR) as (st1 & -> & HR1). apply IH. exact HR1.
Qed.

(* the side condition on one style: a list item's explicit counter-increment names list-item *)
Definition ok_props (p : props) : Prop := spec_increments p = increments p.

Lemma R_update st lv p : ok_props p -> R st lv ->
  exists st', update_counters st p = Some st' /\ R st' (ref_update lv p).
Proof.
  intros Hinc HR. unfold update_counters, ref_update. rewrite Hinc.
  destruct (R_fold do_reset ref_reset (fun s l a => R_reset s l a) (p_reset p) st lv HR) as (st1 & -> & HR1).
  destruct (R_fold (fun s nv => do_modify (fun x => x + snd nv) s (fst nv))
                   (fun s nv => ref_modify (fun x => x + snd nv) s (fst nv))
                   (fun s l a H => R_modify _ s l (fst a) H) (increments p) st1 _ HR1) as (st2 & -> & HR2).
  apply (R_fold (fun s nv => do_modify (fun _ => snd nv) s (fst nv))
                (fun s nv => ref_modify (fun _ => snd nv) s (fst nv))).
  - intros s l a H. apply R_modify. exact H.
  - exact HR2.
Qed.

Lemma R_push st lv : R st lv -> R (push_scope st) ([] :: lv).
Proof.
  intros [Hv Hs Hnd Hne]. constructor; cbn [push_scope values scopes].
  - intros n. cbn [flat_map]. change (pick n []) with (@nil Z). cbn [app]. apply Hv.
  - rewrite Hs. reflexivity.
  - constructor; [constructor|exact Hnd].
  - discriminate.
Qed.

(* popping the names of the innermost level one by one *)
Lemma pop_names : forall (l : level) (vals : name -> list Z) (sc : list (list name)) (V : name -> list Z),
  NoDup (keys l) ->
  (forall n, vals n = pick n l ++ V n) ->
  exists st', fold_opt pop_one (keys l) (mkState vals sc) = Some st' /\
              (forall n, values st' n = V n) /\ scopes st' = sc.
Proof.
  induction l as [|[k v] l IH]; intros vals sc V Hnd Hvals; cbn [keys map fst fold_opt].
  - eexists. split; [reflexivity|]. split; [|reflexivity]. intros n. cbn [values]. rewrite Hvals. reflexivity.
  - inversion Hnd as [|? ? Hk Hnd']; subst.
    unfold pop_one at 1. cbn [values scopes]. rewrite (Hvals k). rewrite pick_cons_same. cbn [app].
    apply (IH _ sc V Hnd'). intros n. destruct (String.eqb_spec k n) as [<-|Hkn].
    + rewrite upd_fun_same. rewrite pick_in_level; [reflexivity|].
      destruct (in_level k l) eqn:E; [|reflexivity]. apply in_level_In in E. contradiction.
    + rewrite upd_fun_other by exact Hkn. rewrite (Hvals n). rewrite pick_cons_other by exact Hkn. reflexivity.
Qed.

Lemma R_pop st l lv : R st (l :: lv) -> lv <> [] -> exists st', pop_scope st = Some st' /\ R st' lv.
Proof.
  intros [Hv Hs Hnd _] Hne. unfold pop_scope. rewrite Hs. cbn [map].
  inversion Hnd as [|? ? Hl Hrest]; subst.
  destruct (pop_names l (values st) (map keys lv) (fun n => flat_map (pick n) lv) Hl) as (st' & Hrun & Hvals & Hsc).
  { intros n. rewrite (Hv n). reflexivity. }
  exists st'. split; [exact Hrun|]. constructor; auto.
Qed.

(* -------------------------------------------------------------------------------- whole trees *)
Definition obs_eq (a b : list obs) : Prop := Forall2 (fun x y => forall n, x n = y n) a b.

Lemma obs_eq_app a b c d : obs_eq a b -> obs_eq c d -> obs_eq (a ++ c) (b ++ d).
Proof. apply Forall2_app. Qed.

Definition ok_pseudo (ps : option props) : Prop := match ps with Some p => ok_props p | None => True end.

Fixpoint ok_tree (nd : node) : Prop :=
  match nd with
  | Elem d p b kids a =>
    ok_props p /\ ok_pseudo b /\ ok_pseudo a /\
    (fix all (l : list node) : Prop := match l with [] => True | k :: tl => ok_tree k /\ all tl end) kids
  end.

Lemma R_pseudo st lv ps : ok_pseudo ps -> R st lv ->
  exists st' o, run_pseudo st ps = Some (st', o) /\ R st' (fst (ref_pseudo lv ps)) /\ obs_eq o (snd (ref_pseudo lv ps)).
Proof.
  intros Hok HR. destruct ps as [p|]; cbn [run_pseudo ref_pseudo fst snd].
  - destruct (R_update st lv p Hok HR) as (st' & -> & HR').
    exists st', [values st']. split; [reflexivity|]. split; [exact HR'|].
    constructor; [|constructor]. intros n. apply (R_values _ _ HR').
  - exists st, []. split; [reflexivity|]. split; [exact HR|constructor].
Qed.

(* the number of levels is preserved by every reference operation *)
Lemma len_ref_reset lv nv : List.length (ref_reset lv nv) = List.length lv.
Proof. destruct lv; reflexivity. Qed.
Lemma len_modify_innermost f n : forall lv lv', modify_innermost f n lv = Some lv' -> List.length lv' = List.length lv.
Proof.
  induction lv as [|l rest IH]; intros lv' E; simpl in E; [discriminate|].
  destruct (in_level n l); [injection E as <-; reflexivity|].
  destruct (modify_innermost f n rest) eqn:Er; [|discriminate]. injection E as <-. simpl. f_equal. apply IH. reflexivity.
Qed.
Lemma len_ref_modify f lv n : List.length (ref_modify f lv n) = List.length lv.
Proof.
  unfold ref_modify. destruct (modify_innermost f n lv) eqn:E; [apply (len_modify_innermost f n _ _ E)|].
  destruct lv; reflexivity.
Qed.
Lemma len_fold {A} (g : list level -> A -> list level) :
  (forall lv a, List.length (g lv a) = List.length lv) -> forall l lv, List.length (fold_left g l lv) = List.length lv.
Proof. intros Hg. induction l as [|a l IH]; intros lv; simpl; [reflexivity|]. rewrite IH. apply Hg. Qed.
Lemma len_ref_update lv p : List.length (ref_update lv p) = List.length lv.
Proof.
  unfold ref_update. rewrite !len_fold; auto; intros; try apply len_ref_modify. apply len_ref_reset.
Qed.
Lemma len_ref_pseudo lv ps : List.length (fst (ref_pseudo lv ps)) = List.length lv.
Proof. destruct ps; simpl; [apply len_ref_update|reflexivity]. Qed.

Definition refines (nd : node) : Prop :=
  ok_tree nd -> forall st lv, R st lv ->
  exists st' o, run_node st nd = Some (st', o) /\ R st' (fst (ref_node lv nd)) /\
                obs_eq o (snd (ref_node lv nd)) /\ List.length (fst (ref_node lv nd)) = List.length lv.

Lemma refines_kids kids : Forall refines kids ->
  (fix all (l : list node) : Prop := match l with [] => True | k :: tl => ok_tree k /\ all tl end) kids ->
  forall st lv, R st lv ->
  exists st' o, run_nodes st kids = Some (st', o) /\ R st' (fst (ref_nodes lv kids)) /\
                obs_eq o (snd (ref_nodes lv kids)) /\ List.length (fst (ref_nodes lv kids)) = List.length lv.
Proof.
  induction 1 as [|k tl Hk _ IH]; intros Hok st lv HR; cbn [run_nodes ref_nodes].
  - exists st, []. split; [reflexivity|]. split; [exact HR|]. split; [constructor|reflexivity].
  - destruct Hok as [Hokk Hoktl].
    destruct (Hk Hokk st lv HR) as (st1 & o1 & -> & HR1 & Ho1 & Hl1).
    destruct (ref_node lv k) as [lv1 r1] eqn:E1. cbn [fst snd] in *.
    destruct (IH Hoktl st1 lv1 HR1) as (st2 & o2 & -> & HR2 & Ho2 & Hl2).
    destruct (ref_nodes lv1 tl) as [lv2 r2] eqn:E2. cbn [fst snd] in *.
    exists st2, (o1 ++ o2). split; [reflexivity|]. split; [exact HR2|].
    split; [apply obs_eq_app; assumption|congruence].
Qed.

(* the inner fixes of run_node / ref_node are run_nodes / ref_nodes *)
Lemma run_kids_eq : forall kids st,
  (fix run_kids (st : state) (ks : list node) : option (state * list obs) :=
     match ks with
     | [] => Some (st, [])
     | k :: tl => match run_node st k with
                  | None => None
                  | Some (st', o) => match run_kids st' tl with None => None | Some (st'', o') => Some (st'', o ++ o') end
                  end
     end) st kids = run_nodes st kids.
Proof.
  induction kids as [|k tl IH]; intros st; [reflexivity|]. cbn [run_nodes].
  destruct (run_node st k) as [[st' o]|]; [|reflexivity]. rewrite IH. reflexivity.
Qed.
Lemma ref_kids_eq : forall kids lv,
  (fix ref_kids (lv : list level) (ks : list node) : list level * list obs :=
     match ks with
     | [] => (lv, [])
     | k :: tl => let '(lv', o) := ref_node lv k in let '(lv'', o') := ref_kids lv' tl in (lv'', o ++ o')
     end) lv kids = ref_nodes lv kids.
Proof.
  induction kids as [|k tl IH]; intros lv; [reflexivity|]. cbn [ref_nodes].
  destruct (ref_node lv k) as [lv' o]. rewrite IH. reflexivity.
Qed.

Theorem counters_refine_spec : forall nd, refines nd.
Proof.
  apply node_ind'. intros d p b kids a IHk Hok st lv HR.
  destruct Hok as (Hp & Hb & Ha & Hkids).
  cbn [run_node ref_node]. destruct d; cbn [negb].
  2:{ exists st, []. split; [reflexivity|]. split; [exact HR|]. split; [constructor|reflexivity]. }
  destruct (R_update st lv p Hp HR) as (st1 & -> & HR1).
  pose proof (R_push _ _ HR1) as HR2.
  destruct (R_pseudo _ _ b Hb HR2) as (st3 & ob & -> & HR3 & Hob).
  pose proof (len_ref_pseudo ([] :: ref_update lv p) b) as Hl3.
  destruct (ref_pseudo ([] :: ref_update lv p) b) as [lv3 rb] eqn:Eb. cbn [fst snd] in *.
  rewrite run_kids_eq, ref_kids_eq.
  destruct (refines_kids kids IHk Hkids st3 lv3 HR3) as (st4 & ok & -> & HR4 & Hok4 & Hl4).
  destruct (ref_nodes lv3 kids) as [lv4 rk] eqn:Ek. cbn [fst snd] in *.
  destruct (R_pseudo _ _ a Ha HR4) as (st5 & oa & -> & HR5 & Hoa).
  pose proof (len_ref_pseudo lv4 a) as Hl5.
  destruct (ref_pseudo lv4 a) as [lv5 ra] eqn:Ea. cbn [fst snd] in *.
  assert (Hlen5 : List.length lv5 = S (List.length lv)).
  { rewrite Hl5, Hl4, Hl3. cbn [List.length]. rewrite len_ref_update. reflexivity. }
  destruct lv5 as [|l5 rest5]; [discriminate|]. cbn [tl].
  assert (Hne : rest5 <> []).
  { intros ->. cbn [List.length] in Hlen5. destruct lv; [exact (R_nonempty _ _ HR eq_refl)|discriminate]. }
  destruct (R_pop st5 l5 rest5 HR5 Hne) as (st6 & -> & HR6).
  exists st6, (values (push_scope st1) :: ob ++ ok ++ oa).
  split; [reflexivity|]. split; [exact HR6|]. split.
  - constructor.
    + intros n. apply (R_values _ _ HR2).
    + repeat apply obs_eq_app; assumption.
  - cbn [List.length] in Hlen5. lia.
Qed.

Example ok_tree_ex :
  ok_tree (Elem true (mkProps [("list-item"%string, 0)] [] None false) None
                [Elem true (mkProps [] [] None true) None [] None;
                 Elem true (mkProps [("a"%string, 2)] [] (Some [("list-item"%string, 3)]) true) (Some (mkProps [] [("a"%string, 7)] (Some []) false)) [] None]
                None).
Proof. cbv. repeat split; auto. Qed.

(* the initial states are related *)
Lemma R_init : R init_state init_levels.
Proof.
  constructor.
  - intros n. unfold init_state, init_levels. cbn [values flat_map]. unfold pick. cbn [assoc].
    rewrite (String.eqb_sym "footnote" n). destruct (String.eqb n "footnote"); reflexivity.
  - reflexivity.
  - constructor; [|constructor]. unfold keys. cbn [map fst]. constructor; [intros []|constructor].
  - discriminate.
Qed.

Corollary document_refines_spec nd : ok_tree nd ->
  exists st' o, run_node init_state nd = Some (st', o) /\ obs_eq o (snd (ref_node init_levels nd)).
Proof.
  intros Hok. destruct (counters_refine_spec nd Hok init_state init_levels R_init) as (st' & o & H1 & _ & H3 & _).
  exists st', o. auto.
Qed.

(* ------------------------------------------------------------------------ where the code leaves CSS *)
(* <ol><li>a<li style="counter-increment: x">b<li>c</ol> : CSS Lists 3 (4.6) numbers the items 1 2 3, the code
   1 1 2 (an explicit counter-increment that does not name list-item suppresses the implicit increment). *)
Definition li_plain : node := Elem true (mkProps [] [] None true) None [] None.
Definition li_with_x : node := Elem true (mkProps [] [] (Some [("x"%string, 1)]) true) None [] None.
Definition witness_list : node :=
  Elem true (mkProps [("list-item"%string, 0)] [] None false) None [li_plain; li_with_x; li_plain] None.

Theorem implicit_list_item_refuted :
  exists nd st o, run_node init_state nd = Some (st, o) /\
                  map (fun ob => ob "list-item"%string) o = [[0]; [1]; [1]; [2]] /\
                  map (fun ob => ob "list-item"%string) (snd (ref_node init_levels nd)) = [[0]; [1]; [2]; [3]].
Proof.
  exists witness_list. destruct (run_node init_state witness_list) as [[st o]|] eqn:E; [|vm_compute in E; discriminate].
  exists st, o. split; [reflexivity|]. split.
  - vm_compute in E. injection E as _ <-. reflexivity.
  - reflexivity.
Qed.

(* ---------------------------------------------------------------- content lists parsed again later *)
(* the value printed by a re-parse is the value at the first parse, whatever happened to the counters afterwards
   (the builder's state [live] is arbitrary) and whatever page counters are mixed in *)
Theorem reparse_keeps_first_parse_value st live mixin n :
  values st n <> [] -> parse_again (first_parse st) live mixin n = values st n.
Proof.
  intros H. unfold parse_again, lookup_counter, local_counters, first_parse. cbn [cached].
  destruct (values st n) as [|x l]; [contradiction|reflexivity].
Qed.

(* a name that was not an element counter at the first parse gets the page-based value that is mixed in *)
Theorem reparse_mixes_in_page_counters st live mixin n :
  values st n = [] -> parse_again (first_parse st) live mixin n = lookup_counter mixin n.
Proof.
  intros H. unfold parse_again, lookup_counter, local_counters, first_parse. cbn [cached]. rewrite H. reflexivity.
Qed.

Theorem reparse_independent_of_live_state b live live' mixin n :
  parse_again b live mixin n = parse_again b live' mixin n.
Proof. reflexivity. Qed.

Example reparse_ex :
  parse_again (first_parse (mkState (fun n => if String.eqb n "ch" then [2] else []) [[]]))
              init_state (fun n => if String.eqb n "page" then [7] else []) "ch"%string = [2] /\
  parse_again (first_parse (mkState (fun n => if String.eqb n "ch" then [2] else []) [[]]))
              init_state (fun n => if String.eqb n "page" then [7] else []) "page"%string = [7].
Proof. split; reflexivity. Qed.

(* whole documents: every generated box, re-parsed at any later time, prints for every element counter in scope the
   stack the CSS reference interpreter defines at that box *)
Corollary document_reparse nd : ok_tree nd ->
  exists st' o, run_node init_state nd = Some (st', o) /\
    Forall2 (fun ob r => forall live mixin n, r n <> [] -> parse_again (mkBox ob) live mixin n = r n)
            o (snd (ref_node init_levels nd)).
Proof.
  intros Hok. destruct (document_refines_spec nd Hok) as (st' & o & Hrun & Heq).
  exists st', o. split; [exact Hrun|]. unfold obs_eq in Heq. clear Hrun.
  induction Heq as [|ob r o' r' Hob _ IH]; [constructor|]. constructor; [|exact IH].
  intros live mixin n Hr. unfold parse_again, lookup_counter, local_counters. cbn [cached].
  rewrite (Hob n). destruct (r n); [contradiction|reflexivity].
Qed.
