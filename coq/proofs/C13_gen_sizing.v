(* C13 - the sizing kernels of weasyprint/layout/replaced.py as REGENERATED on every run (gen/GenReplaced.v):
   _constraint_image_sizing, contain_/cover_constraint_image_sizing and default_image_sizing (with its recursive
   call and its call of contain_constraint_image_sizing, linked by base/PyLink.v) compute exactly the hand models
   of model/C13Replaced.v, on which the C13 theorems rest; they raise (ZeroDivisionError) exactly where the
   model says so. *)
From Coq Require Import QArith Qminmax List Bool String.
Require Import WV.base.Py WV.base.PyLink WV.proofs.PyNatural WV.gen.GenReplaced WV.model.C13Replaced.
Import ListNotations.
Open Scope string_scope.
Open Scope list_scope.
Open Scope Q_scope.

Definition voq (x : oq) : val := match x with Some q => VNum q | None => VNone end.
Definition vpair (p : Q * Q) : val := VList [VNum (fst p); VNum (snd p)].
(* what a call is expected to yield: the encoded pair, or the exception *)
Definition vres (r : option (Q * Q)) : val := match r with Some p => vpair p | None => VErr "ZeroDivisionError" end.
Definition post (r : option (Q * Q)) (_ : env) (res : option val) : Prop :=
  match r with Some p => res = Some (vpair p) | None => False end.
Definition perr (r : option (Q * Q)) (m : string) : Prop := r = None /\ m = "ZeroDivisionError".

Ltac unseal HO :=
  rewrite ?(qadd_eq _ HO), ?(qsub_eq _ HO), ?(qmul_eq _ HO), ?(qdiv_eq _ HO), ?(qmax_eq _ HO), ?(qmin_eq _ HO),
          ?(qleb_eq _ HO), ?(qeqb_eq _ HO) in *.

(* ---------------------------------------------------------------- _constraint_image_sizing *)
Lemma gen_constraint O (HO : ops_ok O) cw ch (r : oq) (cover : bool) :
  run O constraint_image_sizing_body
    [("constraint_width", VNum cw); ("constraint_height", VNum ch); ("intrinsic_ratio", voq r); ("cover", VBool cover)]
    (post (constraint_sizing cw ch r cover)) (perr (constraint_sizing cw ch r cover)).
Proof.
  unfold run, constraint_image_sizing_body, constraint_sizing, post, perr, C13Replaced.qdiv, Qltb.
  destruct r as [r|]; [|reflexivity].
  lazy -[Py.qadd Py.qsub Py.qmul Py.qdiv Py.qmax Py.qmin Py.qleb Py.qeqb Qmult Qdiv Qle_bool Qeq_bool xorb negb].
  unseal HO.
  destruct (Qle_bool cw (ch * r)); destruct cover; cbn [xorb negb];
    try reflexivity; destruct (Qeq_bool r 0); try reflexivity; split; reflexivity.
Qed.

(* the value of the call, through naturality of the interpreter *)
Lemma call_value O (d : fn) args rho (r : option (Q * Q)) :
  PyLink.bind (fst d) args = Some rho ->
  run O (snd d) rho (post r) (perr r) ->
  call_body O d args = vres r.
Proof.
  intros Hb H. unfold call_body. rewrite Hb.
  rewrite run_natural in H. rewrite run_natural.
  destruct (run_out O (snd d) rho) as [rho' res|m].
  - unfold post in H. destruct r as [p|]; [|contradiction]. subst res. reflexivity.
  - destruct H as [-> ->]. reflexivity.
Qed.

Definition calls_constraint (O : qops) : Prop :=
  forall cw ch r cover,
    ocall O "_constraint_image_sizing" [VNum cw; VNum ch; voq r; VBool cover] = vres (constraint_sizing cw ch r cover).

Lemma gen_contain O (HC : calls_constraint O) cw ch r :
  run O contain_constraint_image_sizing_body
    [("constraint_width", VNum cw); ("constraint_height", VNum ch); ("intrinsic_ratio", voq r)]
    (post (contain_sizing cw ch r)) (perr (contain_sizing cw ch r)).
Proof.
  unfold run, contain_constraint_image_sizing_body, contain_sizing, post, perr.
  cbn -[constraint_sizing].
  destruct r as [r|]; cbn -[constraint_sizing];
    [pose proof (HC cw ch (Some r) false) as E | pose proof (HC cw ch None false) as E];
    cbn [voq] in E; rewrite E;
    match goal with |- context [constraint_sizing ?a ?b ?c ?d] => destruct (constraint_sizing a b c d) as [p|] end;
    cbn; auto.
Qed.
Lemma gen_cover O (HC : calls_constraint O) cw ch r :
  run O cover_constraint_image_sizing_body
    [("constraint_width", VNum cw); ("constraint_height", VNum ch); ("intrinsic_ratio", voq r)]
    (post (cover_sizing cw ch r)) (perr (cover_sizing cw ch r)).
Proof.
  unfold run, cover_constraint_image_sizing_body, cover_sizing, post, perr.
  cbn -[constraint_sizing].
  destruct r as [r|]; cbn -[constraint_sizing];
    [pose proof (HC cw ch (Some r) true) as E | pose proof (HC cw ch None true) as E];
    cbn [voq] in E; rewrite E;
    match goal with |- context [constraint_sizing ?a ?b ?c ?d] => destruct (constraint_sizing a b c d) as [p|] end;
    cbn; auto.
Qed.

(* ---------------------------------------------------------------- default_image_sizing *)
(* a specified size: a number, or None / the keyword 'auto' (both are "not specified") *)
Definition vspec (x : oq) (auto : bool) : val :=
  match x with Some q => VNum q | None => if auto then VStr "auto" else VNone end.

Definition dis_env (i : intr) (sw sh : val) (dw dh : Q) : env :=
  [("intrinsic_width", voq (iw i)); ("intrinsic_height", voq (ih i)); ("intrinsic_ratio", voq (ir i));
   ("specified_width", sw); ("specified_height", sh); ("default_width", VNum dw); ("default_height", VNum dh)].

Definition calls_contain (O : qops) : Prop :=
  forall cw ch r,
    ocall O "contain_constraint_image_sizing" [VNum cw; VNum ch; voq r] = vres (contain_sizing cw ch r).
(* the recursive call: specified := intrinsic, at least one of them known *)
Definition calls_self (O : qops) : Prop :=
  forall i dw dh, (iw i <> None \/ ih i <> None) ->
    ocall O "default_image_sizing"
      [voq (iw i); voq (ih i); voq (ir i); voq (iw i); voq (ih i); VNum dw; VNum dh]
    = vres (dis_step i (iw i) (ih i) dw dh None).

Ltac finish HO :=
  unseal HO; unfold C13Replaced.qdiv;
  repeat match goal with |- context [Qeq_bool ?a ?b] => destruct (Qeq_bool a b) end;
  cbn; try reflexivity; try (split; reflexivity); try contradiction.

Lemma gen_default O (HO : ops_ok O) (HC : calls_contain O) (HS : calls_self O) i sw sh (aw ah : bool) dw dh :
  run O default_image_sizing_body (dis_env i (vspec sw aw) (vspec sh ah) dw dh)
    (post (default_sizing i sw sh dw dh)) (perr (default_sizing i sw sh dw dh)).
Proof.
  destruct i as [iw0 ih0 ir0].
  unfold run, default_image_sizing_body, default_sizing, dis_step, dis_env, post, perr, vspec.
  destruct sw as [sw|], sh as [sh|].
  - destruct aw, ah; lazy -[Py.qadd Py.qsub Py.qmul Py.qdiv Py.qeqb Py.qleb Py.ocall Qmult Qdiv Qeq_bool]; reflexivity.
  - destruct ir0 as [r|], ih0 as [h|], iw0 as [w|], aw, ah;
      lazy -[Py.qadd Py.qsub Py.qmul Py.qdiv Py.qeqb Py.qleb Py.ocall Qmult Qdiv Qeq_bool C13Replaced.qdiv];
      finish HO.
  - destruct ir0 as [r|], ih0 as [h|], iw0 as [w|], aw, ah;
      lazy -[Py.qadd Py.qsub Py.qmul Py.qdiv Py.qeqb Py.qleb Py.ocall Qmult Qdiv Qeq_bool C13Replaced.qdiv];
      finish HO.
  - destruct iw0 as [w|], ih0 as [h|].
    + pose proof (HS (Intr (Some w) (Some h) ir0) dw dh (or_introl (fun X => ltac:(discriminate X)))) as E.
      cbn [iw ih ir voq] in E.
      destruct ir0 as [r|], aw, ah;
        lazy -[Py.qadd Py.qsub Py.qmul Py.qdiv Py.qeqb Py.qleb Py.ocall Qmult Qdiv Qeq_bool C13Replaced.qdiv dis_step];
        cbn [voq] in E; rewrite E; cbn; reflexivity.
    + pose proof (HS (Intr (Some w) None ir0) dw dh (or_introl (fun X => ltac:(discriminate X)))) as E.
      cbn [iw ih ir voq] in E.
      destruct ir0 as [r|], aw, ah;
        lazy -[Py.qadd Py.qsub Py.qmul Py.qdiv Py.qeqb Py.qleb Py.ocall Qmult Qdiv Qeq_bool C13Replaced.qdiv dis_step];
        cbn [voq] in E; rewrite E; cbn [dis_step iw ih ir C13Replaced.bind];
        try (destruct (C13Replaced.qdiv w r)); cbn; auto.
    + pose proof (HS (Intr None (Some h) ir0) dw dh (or_intror (fun X => ltac:(discriminate X)))) as E.
      cbn [iw ih ir voq] in E.
      destruct ir0 as [r|], aw, ah;
        lazy -[Py.qadd Py.qsub Py.qmul Py.qdiv Py.qeqb Py.qleb Py.ocall Qmult Qdiv Qeq_bool C13Replaced.qdiv dis_step];
        cbn [voq] in E; rewrite E; cbn; auto.
    + pose proof (HC dw dh ir0) as E.
      destruct ir0 as [r|], aw, ah;
        lazy -[Py.qadd Py.qsub Py.qmul Py.qdiv Py.qeqb Py.qleb Py.ocall Qmult Qdiv Qeq_bool C13Replaced.qdiv contain_sizing];
        cbn [voq] in E; rewrite E;
        match goal with |- context [contain_sizing ?a ?b ?c] => destruct (contain_sizing a b c) as [p|] end;
        cbn; auto.
Qed.
