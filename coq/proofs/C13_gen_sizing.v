(* C13 - the sizing kernels of weasyprint/layout/replaced.py as REGENERATED on every run (gen/GenReplaced.v):
   _constraint_image_sizing, contain_/cover_constraint_image_sizing and default_image_sizing (with its recursive
   call and its call of contain_constraint_image_sizing, linked by base/PyLink.v) compute exactly the hand models
   of model/C13Replaced.v, on which the C13 theorems rest; they raise (ZeroDivisionError) exactly where the
   model says so. *)
From Coq Require Import QArith Qminmax List Bool String.
Require Import WV.base.Py WV.base.PyLink WV.proofs.PyNatural WV.gen.GenReplaced WV.model.C13Replaced.
Import ListNotations.
Open Scope string_scope.
Open Scope list_scope.
Open Scope Q_scope.

Definition voq (x : oq) : val := match x with Some q => VNum q | None => VNone end.
Definition vpair (p : Q * Q) : val := VList [VNum (fst p); VNum (snd p)].
(* what a call is expected to yield: the encoded pair, or the exception *)
Definition vres (r : option (Q * Q)) : val := match r with Some p => vpair p | None => VErr "ZeroDivisionError" end.
Definition post (r : option (Q * Q)) (_ : env) (res : option val) : Prop :=
  match r with Some p => res = Some (vpair p) | None => False end.
Definition perr (r : option (Q * Q)) (m : string) : Prop := r = None /\ m = "ZeroDivisionError".

Ltac unseal HO :=
  rewrite ?(qadd_eq _ HO), ?(qsub_eq _ HO), ?(qmul_eq _ HO), ?(qdiv_eq _ HO), ?(qmax_eq _ HO), ?(qmin_eq _ HO),
          ?(qleb_eq _ HO), ?(qeqb_eq _ HO) in *.

(* ---------------------------------------------------------------- _constraint_image_sizing *)
Lemma gen_constraint O (HO : ops_ok O) cw ch (r : oq) (cover : bool) :
  run O constraint_image_sizing_body
    [("constraint_width", VNum cw); ("constraint_height", VNum ch); ("intrinsic_ratio", voq r); ("cover", VBool cover)]
    (post (constraint_sizing cw ch r cover)) (perr (constraint_sizing cw ch r cover)).
Proof.
  unfold run, constraint_image_sizing_body, constraint_sizing, post, perr, C13Replaced.qdiv, Qltb.
  destruct r as [r|]; [|reflexivity].
  lazy -[Py.qadd Py.qsub Py.qmul Py.qdiv Py.qmax Py.qmin Py.qleb Py.qeqb Qmult Qdiv Qle_bool Qeq_bool xorb negb].
  unseal HO.
  destruct (Qle_bool cw (ch * r)); destruct cover; cbn [xorb negb];
    try reflexivity; destruct (Qeq_bool r 0); try reflexivity; split; reflexivity.
Qed.

(* the value of the call, through naturality of the interpreter *)
Lemma call_value O (d : fn) args rho (r : option (Q * Q)) :
  PyLink.bind (fst d) args = Some rho ->
  run O (snd d) rho (post r) (perr r) ->
  call_body O d args = vres r.
Proof.
  intros Hb H. unfold call_body. rewrite Hb.
  rewrite run_natural in H. rewrite run_natural.
  destruct (run_out O (snd d) rho) as [rho' res|m].
  - unfold post in H. destruct r as [p|]; [|contradiction]. subst res. reflexivity.
  - destruct H as [-> ->]. reflexivity.
Qed.

Definition calls_constraint (O : qops) : Prop :=
  forall cw ch r cover,
    ocall O "_constraint_image_sizing" [VNum cw; VNum ch; voq r; VBool cover] = vres (constraint_sizing cw ch r cover).

Lemma gen_contain O (HC : calls_constraint O) cw ch r :
  run O contain_constraint_image_sizing_body
    [("constraint_width", VNum cw); ("constraint_height", VNum ch); ("intrinsic_ratio", voq r)]
    (post (contain_sizing cw ch r)) (perr (contain_sizing cw ch r)).
Proof.
  unfold run, contain_constraint_image_sizing_body, contain_sizing, post, perr.
  cbn -[constraint_sizing].
  destruct r as [r|]; cbn -[constraint_sizing];
    [pose proof (HC cw ch (Some r) false) as E | pose proof (HC cw ch None false) as E];
    cbn [voq] in E; rewrite E;
    match goal with |- context [constraint_sizing ?a ?b ?c ?d] => destruct (constraint_sizing a b c d) as [p|] end;
    cbn; auto.
Qed.
Lemma gen_cover O (HC : calls_constraint O) cw ch r :
  run O cover_constraint_image_sizing_body
    [("constraint_width", VNum cw); ("constraint_height", VNum ch); ("intrinsic_ratio", voq r)]
    (post (cover_sizing cw ch r)) (perr (cover_sizing cw ch r)).
Proof.
  unfold run, cover_constraint_image_sizing_body, cover_sizing, post, perr.
  cbn -[constraint_sizing].
  destruct r as [r|]; cbn -[constraint_sizing];
    [pose proof (HC cw ch (Some r) true) as E | pose proof (HC cw ch None true) as E];
    cbn [voq] in E; rewrite E;
    match goal with |- context [constraint_sizing ?a ?b ?c ?d] => destruct (constraint_sizing a b c d) as [p|] end;
    cbn; auto.
Qed.

(* ---------------------------------------------------------------- default_image_sizing *)
Lemma Some_neq_None {A} (x : A) : Some x <> None.
Proof. discriminate. Qed.

(* a specified size: a number, or None / the keyword 'auto' (both are "not specified") *)
Definition vspec (x : oq) (auto : bool) : val :=
  match x with Some q => VNum q | None => if auto then VStr "auto" else VNone end.

Definition dis_env (i : intr) (sw sh : val) (dw dh : Q) : env :=
  [("intrinsic_width", voq (iw i)); ("intrinsic_height", voq (ih i)); ("intrinsic_ratio", voq (ir i));
   ("specified_width", sw); ("specified_height", sh); ("default_width", VNum dw); ("default_height", VNum dh)].

Definition calls_contain (O : qops) : Prop :=
  forall cw ch r,
    ocall O "contain_constraint_image_sizing" [VNum cw; VNum ch; voq r] = vres (contain_sizing cw ch r).
(* the recursive call: specified := intrinsic, at least one of them known *)
Definition calls_self (O : qops) : Prop :=
  forall i dw dh, (iw i <> None \/ ih i <> None) ->
    ocall O "default_image_sizing"
      [voq (iw i); voq (ih i); voq (ir i); voq (iw i); voq (ih i); VNum dw; VNum dh]
    = vres (dis_step i (iw i) (ih i) dw dh None).

Ltac finish HO :=
  unseal HO; unfold C13Replaced.qdiv;
  repeat match goal with |- context [Qeq_bool ?a ?b] => destruct (Qeq_bool a b) end;
  cbn; try reflexivity; try (split; reflexivity); try contradiction.

Lemma gen_default O (HO : ops_ok O) (HC : calls_contain O) (HS : calls_self O) i sw sh (aw ah : bool) dw dh :
  run O default_image_sizing_body (dis_env i (vspec sw aw) (vspec sh ah) dw dh)
    (post (default_sizing i sw sh dw dh)) (perr (default_sizing i sw sh dw dh)).
Proof.
  destruct i as [iw0 ih0 ir0].
  unfold run, default_image_sizing_body, default_sizing, dis_step, dis_env, post, perr, vspec.
  destruct sw as [sw|], sh as [sh|].
  - destruct aw, ah; lazy -[Py.qadd Py.qsub Py.qmul Py.qdiv Py.qeqb Py.qleb Py.ocall Qmult Qdiv Qeq_bool]; reflexivity.
  - destruct ir0 as [r|], ih0 as [h|], iw0 as [w|], aw, ah;
      lazy -[Py.qadd Py.qsub Py.qmul Py.qdiv Py.qeqb Py.qleb Py.ocall Qmult Qdiv Qeq_bool C13Replaced.qdiv];
      finish HO.
  - destruct ir0 as [r|], ih0 as [h|], iw0 as [w|], aw, ah;
      lazy -[Py.qadd Py.qsub Py.qmul Py.qdiv Py.qeqb Py.qleb Py.ocall Qmult Qdiv Qeq_bool C13Replaced.qdiv];
      finish HO.
  - destruct iw0 as [w|], ih0 as [h|].
    + pose proof (HS (Intr (Some w) (Some h) ir0) dw dh (or_introl (Some_neq_None _))) as E.
      cbn [iw ih ir voq] in E.
      destruct ir0 as [r|], aw, ah;
        lazy -[Py.qadd Py.qsub Py.qmul Py.qdiv Py.qeqb Py.qleb Py.ocall Qmult Qdiv Qeq_bool C13Replaced.qdiv dis_step];
        cbn [voq] in E; rewrite E; cbn; reflexivity.
    + pose proof (HS (Intr (Some w) None ir0) dw dh (or_introl (Some_neq_None _))) as E.
      cbn [iw ih ir voq] in E.
      destruct ir0 as [r|], aw, ah;
        lazy -[Py.qadd Py.qsub Py.qmul Py.qdiv Py.qeqb Py.qleb Py.ocall Qmult Qdiv Qeq_bool C13Replaced.qdiv dis_step];
        cbn [voq] in E; rewrite E; cbn [dis_step iw ih ir C13Replaced.bind];
        try (destruct (C13Replaced.qdiv w r)); cbn; auto.
    + pose proof (HS (Intr None (Some h) ir0) dw dh (or_intror (Some_neq_None _))) as E.
      cbn [iw ih ir voq] in E.
      destruct ir0 as [r|], aw, ah;
        lazy -[Py.qadd Py.qsub Py.qmul Py.qdiv Py.qeqb Py.qleb Py.ocall Qmult Qdiv Qeq_bool C13Replaced.qdiv dis_step];
        cbn [voq] in E; rewrite E; cbn; auto.
    + pose proof (HC dw dh ir0) as E.
      destruct ir0 as [r|], aw, ah;
        lazy -[Py.qadd Py.qsub Py.qmul Py.qdiv Py.qeqb Py.qleb Py.ocall Qmult Qdiv Qeq_bool C13Replaced.qdiv contain_sizing];
        cbn [voq] in E; rewrite E;
        match goal with |- context [contain_sizing ?a ?b ?c] => destruct (contain_sizing a b c) as [p|] end;
        cbn; auto.
Qed.

(* ---------------------------------------------------------------- linking: the calls are the regenerated bodies *)
Definition T : table := GenReplaced_table.

Lemma find_constraint : find_fn "_constraint_image_sizing" T = Some (constraint_image_sizing_args, constraint_image_sizing_body).
Proof. reflexivity. Qed.
Lemma find_contain : find_fn "contain_constraint_image_sizing" T =
  Some (contain_constraint_image_sizing_args, contain_constraint_image_sizing_body).
Proof. reflexivity. Qed.
Lemma find_cover : find_fn "cover_constraint_image_sizing" T =
  Some (cover_constraint_image_sizing_args, cover_constraint_image_sizing_body).
Proof. reflexivity. Qed.
Lemma find_default : find_fn "default_image_sizing" T = Some (default_image_sizing_args, default_image_sizing_body).
Proof. reflexivity. Qed.

Lemma linked_constraint n : calls_constraint (linked T (S n)).
Proof.
  intros cw ch r cover. rewrite ocall_linked, find_constraint.
  apply (call_value (linked T n) (constraint_image_sizing_args, constraint_image_sizing_body) _
           [("constraint_width", VNum cw); ("constraint_height", VNum ch); ("intrinsic_ratio", voq r); ("cover", VBool cover)]);
    [reflexivity|]. apply gen_constraint, linked_ok.
Qed.

Lemma linked_contain n : calls_contain (linked T (S (S n))).
Proof.
  intros cw ch r. rewrite ocall_linked, find_contain.
  apply (call_value (linked T (S n)) (contain_constraint_image_sizing_args, contain_constraint_image_sizing_body) _
           [("constraint_width", VNum cw); ("constraint_height", VNum ch); ("intrinsic_ratio", voq r)]);
    [reflexivity|]. apply gen_contain, linked_constraint.
Qed.

Lemma linked_cover n cw ch r :
  ocall (linked T (S (S n))) "cover_constraint_image_sizing" [VNum cw; VNum ch; voq r] = vres (cover_sizing cw ch r).
Proof.
  rewrite ocall_linked, find_cover.
  apply (call_value (linked T (S n)) (cover_constraint_image_sizing_args, cover_constraint_image_sizing_body) _
           [("constraint_width", VNum cw); ("constraint_height", VNum ch); ("intrinsic_ratio", voq r)]);
    [reflexivity|]. apply gen_cover, linked_constraint.
Qed.

(* the recursive call never recurses again: with specified := intrinsic and one of them known, the body returns
   from one of its first three branches, whatever the calls would answer *)
Lemma gen_default_inner O (HO : ops_ok O) i dw dh :
  (iw i <> None \/ ih i <> None) ->
  run O default_image_sizing_body (dis_env i (voq (iw i)) (voq (ih i)) dw dh)
    (post (dis_step i (iw i) (ih i) dw dh None)) (perr (dis_step i (iw i) (ih i) dw dh None)).
Proof.
  destruct i as [iw0 ih0 ir0]. cbn [iw ih ir]. intros H.
  unfold run, default_image_sizing_body, dis_step, dis_env, post, perr.
  destruct iw0 as [w|], ih0 as [h|]; [| | |destruct H as [H|H]; congruence];
    destruct ir0 as [r|];
    lazy -[Py.qadd Py.qsub Py.qmul Py.qdiv Py.qeqb Py.qleb Py.ocall Qmult Qdiv Qeq_bool C13Replaced.qdiv];
    finish HO.
Qed.

Lemma linked_self n : calls_self (linked T (S n)).
Proof.
  intros i dw dh H. rewrite ocall_linked, find_default.
  apply (call_value (linked T n) (default_image_sizing_args, default_image_sizing_body) _
           (dis_env i (voq (iw i)) (voq (ih i)) dw dh)); [reflexivity|].
  apply gen_default_inner; [apply linked_ok|exact H].
Qed.

(* default_image_sizing of the source, with its calls answered by the source's own functions (depth 3 is enough:
   default -> default | contain -> _constraint), IS the model, for every input *)
Theorem gen_default_image_sizing n i sw sh (aw ah : bool) dw dh :
  run (linked T (S (S n))) default_image_sizing_body (dis_env i (vspec sw aw) (vspec sh ah) dw dh)
    (post (default_sizing i sw sh dw dh)) (perr (default_sizing i sw sh dw dh)).
Proof. apply gen_default; [apply linked_ok|apply linked_contain|apply linked_self]. Qed.

Theorem gen_default_image_sizing_value n i sw sh (aw ah : bool) dw dh :
  link T (S (S (S n))) "default_image_sizing"
    [voq (iw i); voq (ih i); voq (ir i); vspec sw aw; vspec sh ah; VNum dw; VNum dh]
  = vres (default_sizing i sw sh dw dh).
Proof.
  change (link T (S (S (S n)))) with (ocall (linked T (S (S (S n))))).
  rewrite ocall_linked, find_default.
  apply (call_value (linked T (S (S n))) (default_image_sizing_args, default_image_sizing_body) _
           (dis_env i (vspec sw aw) (vspec sh ah) dw dh)); [reflexivity|].
  apply gen_default_image_sizing.
Qed.

Theorem gen_contain_value n cw ch r :
  link T (S (S n)) "contain_constraint_image_sizing" [VNum cw; VNum ch; voq r] = vres (contain_sizing cw ch r).
Proof. exact (linked_contain n cw ch r). Qed.
Theorem gen_cover_value n cw ch r :
  link T (S (S n)) "cover_constraint_image_sizing" [VNum cw; VNum ch; voq r] = vres (cover_sizing cw ch r).
Proof. exact (linked_cover n cw ch r). Qed.

(* the model evaluated through the linked source, on a concrete case: 100 x auto with ratio 2 *)
Example gen_default_example :
  link T 3 "default_image_sizing" [VNone; VNone; VNum 2; VNum 100; VStr "auto"; VNum 300; VNum 150]
  = VList [VNum 100; VNum (100 / 2)].
Proof. exact (gen_default_image_sizing_value 0 (Intr None None (Some 2)) (Some 100) None false true 300 150). Qed.
