(* C14 - compute_variable_dimension (css-page-3 5.3.2: the three margin boxes of one side) of
   weasyprint/layout/page.py as REGENERATED from the source on every run (gen/GenPage.v), with the @property
   getters of OrientedBox (sugar, outer, outer_min_content_size, outer_max_content_size: regenerated methods, linked
   by running their own bodies) and the setter of `outer` (printed at each assignment `x.outer = e`), computes the
   hand model compute_variable_dimension of model/C14Box.v for every input: the three adapters end with
   margin_a / margin_b / inner representing the model's boxes (numbers up to ==) when the model returns Ok, and the
   run raises exactly the model's error otherwise.  restore_box_attributes is an oracle. *)
From Coq Require Import QArith Qminmax Lqa List String Bool.
Require Import WV.base.Py WV.base.PyLink WV.gen.GenPage WV.proofs.PyTac WV.proofs.PyNatural.
Require WV.model.C14Box.
Import ListNotations.
Open Scope string_scope.
Open Scope list_scope.
Open Scope Q_scope.

Module M := WV.model.C14Box.
Notation oq := (option Q).

(* ------------------------------------------------------------------ linking with oracles
   like PyLink.link, but a name that is not in the table is answered by the operations record underneath (the
   oracles of the theorem) and the callee bodies run over the same arithmetic *)
Fixpoint glink (O : qops) (t : table) (n : nat) (f : string) (args : list val) : val :=
  match n with
  | Datatypes.O => VErr "RecursionError"
  | S n' => match find_fn f t with
            | None => ocall O f args
            | Some d => call_body (with_calls O (glink O t n')) d args
            end
  end.
Definition glinked (O : qops) (t : table) (n : nat) : qops := with_calls O (glink O t n).

(* ------------------------------------------------------------------ values *)
Definition vo (o : oq) : val := match o with Some q => VNum q | None => VStr "auto" end.
Definition rep (v : val) (o : oq) : Prop :=
  match v, o with
  | VNum x, Some y => x == y
  | VStr s, None => s = "auto"
  | _, _ => False
  end.
(* the OrientedBox adapter of a margin box: margin_a / margin_b / inner are numbers or 'auto'; min_content_size and
   max_content_size are inputs (properties of the subclasses, computed by the preferred-width code); box is the real
   box, of which only is_generated is read *)
Definition vbox (x : M.mbox) (gen : bool) : val :=
  VObj [("margin_a", vo (M.m_a x)); ("margin_b", vo (M.m_b x)); ("inner", vo (M.m_inner x));
        ("padding_plus_border", VNum (M.m_pb x)); ("min_content_size", VNum (M.m_min x));
        ("max_content_size", VNum (M.m_max x)); ("box", VObj [("is_generated", VBool gen)])].
Definition box_rep (v : val) (x : M.mbox) : Prop :=
  rep (fieldv v "margin_a") (M.m_a x) /\ rep (fieldv v "margin_b") (M.m_b x) /\ rep (fieldv v "inner") (M.m_inner x) /\
  fieldv v "padding_plus_border" = VNum (M.m_pb x) /\ fieldv v "min_content_size" = VNum (M.m_min x) /\
  fieldv v "max_content_size" = VNum (M.m_max x).

Definition cvd_env (avail : Q) (a b c : M.mbox) (ga gb gc : bool) : env :=
  [("box_a", vbox a ga); ("box_b", vbox b gb); ("box_c", vbox c gc); ("available_size", VNum avail)].

Definition restore_oracle (O : qops) : Prop := forall b, ocall O ".restore_box_attributes" [b] = VNone.

Definition cvd_post (r : M.result (M.mbox * M.mbox * M.mbox)) (rho : env) (res : option val) : Prop :=
  res = None /\
  match r with
  | M.Ok (a, b, c) => box_rep (lookup "box_a" rho) a /\ box_rep (lookup "box_b" rho) b /\ box_rep (lookup "box_c" rho) c
  | _ => False
  end.
Definition cvd_err (r : M.result (M.mbox * M.mbox * M.mbox)) (m : string) : Prop :=
  (m = "AssertionError" /\ r = M.ErrAssert) \/ (m = "ZeroDivisionError" /\ r = M.ErrDiv) \/
  (m = "TypeError" /\ r = M.ErrType).

(* ------------------------------------------------------------------ the statements of the body *)
Definition s_at (i : nat) : stmt := nth i compute_variable_dimension_body SPass.
Lemma body_split : compute_variable_dimension_body =
  [s_at 0; s_at 1; s_at 2; s_at 3; s_at 4; s_at 5; s_at 6; s_at 7; s_at 8; s_at 9; s_at 10].
Proof. reflexivity. Qed.

(* the model after its first line *)
Definition tail_model (avail : Q) (a b c : M.mbox) (gen_b : bool) : M.result (M.mbox * M.mbox * M.mbox) :=
  M.bind
    (if negb gen_b then
      match M.m_inner b with
      | Some i => if Qeq_bool i 0 then
          (if M.is_auto (M.m_inner a) && M.is_auto (M.m_inner c) then
             M.bind (M.cvd_two_auto avail a c) (fun ac => M.Ok (fst ac, b, snd ac))
           else if M.is_auto (M.m_inner a) then
             M.bind (M.outer c) (fun oc => M.Ok (M.set_outer a (avail - oc), b, c))
           else if M.is_auto (M.m_inner c) then
             M.bind (M.outer a) (fun oa => M.Ok (a, b, M.set_outer c (avail - oa)))
           else M.Ok (a, b, c))
          else M.ErrAssert
      | None => M.ErrAssert
      end
    else
      M.bind (if M.is_auto (M.m_inner b) then M.cvd_middle_auto avail a b c else M.Ok b) (fun b =>
      M.bind (if M.is_auto (M.m_inner a) then M.bind (M.outer b) (fun ob => M.Ok (M.set_outer a ((avail - ob) / 2))) else M.Ok a) (fun a =>
      M.bind (if M.is_auto (M.m_inner c) then M.bind (M.outer b) (fun ob => M.Ok (M.set_outer c ((avail - ob) / 2))) else M.Ok c) (fun c =>
      M.Ok (a, b, c)))))
    (fun abc => let '(a, b, c) := abc in
       if M.is_auto (M.m_inner a) || M.is_auto (M.m_inner b) || M.is_auto (M.m_inner c) then M.ErrAssert else M.Ok (a, b, c)).
Lemma model_split avail a b c g :
  M.compute_variable_dimension avail a b c g = tail_model avail (M.zero_margins a) (M.zero_margins b) (M.zero_margins c) g.
Proof. reflexivity. Qed.

(* the interpreter over exact rational arithmetic, with oracle [oc] for the names outside the table, the getters of
   OrientedBox answered by their own regenerated bodies *)
Definition qo (oc : string -> list val -> val) (wf : nat) : qops :=
  mkOps Qplus Qminus Qmult Qdiv Qmax Qmin Qle_bool Qeq_bool oc wf.
Definition LO (oc : string -> list val -> val) (wf n : nat) : qops := glinked (qo oc wf) GenPage_table (S (S n)).

(* ---- the first loop, unrolled: `if box.margin_a == 'auto': box.margin_a = 0` and the same for margin_b *)
Lemma zero_a oc wf n (A : Type) kret kerr rest avail a b c ga gb gc (k : env -> A) :
  exec_block (LO oc wf n) A kret kerr (s_at 0 :: s_at 1 :: rest) (cvd_env avail a b c ga gb gc) k =
  exec_block (LO oc wf n) A kret kerr rest (cvd_env avail (M.zero_margins a) b c ga gb gc) k.
Proof. destruct a as [[?|] [?|] ? ? ? ?]; reflexivity. Qed.
Lemma zero_b oc wf n (A : Type) kret kerr rest avail a b c ga gb gc (k : env -> A) :
  exec_block (LO oc wf n) A kret kerr (s_at 2 :: s_at 3 :: rest) (cvd_env avail a b c ga gb gc) k =
  exec_block (LO oc wf n) A kret kerr rest (cvd_env avail a (M.zero_margins b) c ga gb gc) k.
Proof. destruct b as [[?|] [?|] ? ? ? ?]; reflexivity. Qed.
Lemma zero_c oc wf n (A : Type) kret kerr rest avail a b c ga gb gc (k : env -> A) :
  exec_block (LO oc wf n) A kret kerr (s_at 4 :: s_at 5 :: rest) (cvd_env avail a b c ga gb gc) k =
  exec_block (LO oc wf n) A kret kerr rest (cvd_env avail a b (M.zero_margins c) ga gb gc) k.
Proof. destruct c as [[?|] [?|] ? ? ? ?]; reflexivity. Qed.

(* ---- the branches and the final assertion: boxes whose margins are numbers *)
Definition nb (m1 m2 : Q) (i : oq) (pb mi ma : Q) : M.mbox := M.mkB (Some m1) (Some m2) i pb mi ma.

Definition mid_ok (r : M.result (M.mbox * M.mbox * M.mbox)) (rho : env) : Prop :=
  flowing rho = false /\
  match r with
  | M.Ok (a, b, c) => box_rep (lookup "box_a" rho) a /\ box_rep (lookup "box_b" rho) b /\ box_rep (lookup "box_c" rho) c
  | _ => False
  end.

Ltac ev := lazy -[mid_ok cvd_err Qeq Qplus Qminus Qmult Qdiv Qeq_bool Qle_bool Qmax Qmin].
Ltac paths :=
  repeat match goal with
         | |- context [Qle_bool ?a ?b] => let E := fresh "E" in destruct (Qle_bool a b) eqn:E
         | |- context [Qeq_bool ?a ?b] => let E := fresh "E" in destruct (Qeq_bool a b) eqn:E
         end.
Ltac absurd_const :=
  exfalso;
  match goal with
  | H : Qeq_bool 1 0 = true |- _ => vm_compute in H; discriminate H
  | H : Qeq_bool 2 0 = true |- _ => vm_compute in H; discriminate H
  end.
Ltac finish HK :=
  first [ solve [unfold cvd_err; auto]
        | congruence
        | absurd_const
        | apply HK; ev; repeat split; reflexivity ].

(* the `if not box_b.box.is_generated: ... else: ...` statement and the final assertion *)
Lemma tail_spec oc wf n kret (Kf K2 : env -> Prop)
  avail a1 a2 ai apb ami ama b1 b2 bi bpb bmi bma c1 c2 ci cpb cmi cma ga g gc :
  (forall rho, mid_ok (tail_model avail (nb a1 a2 ai apb ami ama) (nb b1 b2 bi bpb bmi bma) (nb c1 c2 ci cpb cmi cma) g) rho
               -> K2 rho) ->
  exec (LO oc wf n) Prop kret
    (cvd_err (tail_model avail (nb a1 a2 ai apb ami ama) (nb b1 b2 bi bpb bmi bma) (nb c1 c2 ci cpb cmi cma) g))
    (s_at 6) (cvd_env avail (nb a1 a2 ai apb ami ama) (nb b1 b2 bi bpb bmi bma) (nb c1 c2 ci cpb cmi cma) ga g gc)
    (fun r1 => if flowing r1 then Kf r1 else
       exec (LO oc wf n) Prop kret
         (cvd_err (tail_model avail (nb a1 a2 ai apb ami ama) (nb b1 b2 bi bpb bmi bma) (nb c1 c2 ci cpb cmi cma) g))
         (s_at 7) r1 K2).
Proof.
  unfold nb, cvd_env, vbox.
  destruct g, ai as [ai|], bi as [bi|], ci as [ci|];
    cbn [M.m_a M.m_b M.m_inner M.m_pb M.m_min M.m_max vo];
    ev; paths; intros HK; finish HK.
Qed.

(* ---- the restore loop, unrolled: three oracle calls, on any environment *)
Lemma lookup_update_ne k k' v l : String.eqb k k' = false -> lookup k (update k' v l) = lookup k l.
Proof.
  intros H. induction l as [|[k0 v0] l IH]; cbn [update lookup].
  - rewrite H. reflexivity.
  - destruct (String.eqb k' k0) eqn:E; cbn [lookup].
    + apply String.eqb_eq in E. subst k0. rewrite H. reflexivity.
    + rewrite IH. reflexivity.
Qed.

Lemma restore_one oc wf n (HR : forall b, oc ".restore_box_attributes" [b] = VNone) kret kerr (x : string) rho
      (K : env -> Prop) f :
  lookup x rho = VObj f ->
  exec (LO oc wf n) Prop kret kerr (SAssign [TVar "%call"] (ECall ".restore_box_attributes" [EVar x])) rho K =
  K (update "%call" VNone rho).
Proof. intros H. cbn. rewrite H. cbn. rewrite HR. reflexivity. Qed.

Lemma box_rep_obj v x : box_rep v x -> exists f, v = VObj f.
Proof.
  intros (H & _). destruct v; try (cbn in H; contradiction). eexists. reflexivity.
Qed.

Definition restored (rho : env) : env := update "%call" VNone (update "%call" VNone (update "%call" VNone rho)).
Lemma lookup_restored k rho : String.eqb k "%call" = false -> lookup k (restored rho) = lookup k rho.
Proof. intros H. unfold restored. rewrite !lookup_update_ne by exact H. reflexivity. Qed.

Lemma restores_spec oc wf n (HR : forall b, oc ".restore_box_attributes" [b] = VNone) kret kerr rho (K : env -> Prop) a b c :
  flowing rho = false ->
  box_rep (lookup "box_a" rho) a -> box_rep (lookup "box_b" rho) b -> box_rep (lookup "box_c" rho) c ->
  K (restored rho) ->
  exec_block (LO oc wf n) Prop kret kerr [s_at 8; s_at 9; s_at 10] rho K.
Proof.
  intros Hf Ha Hb Hc HK.
  destruct (box_rep_obj _ _ Ha) as [fa Ea]. destruct (box_rep_obj _ _ Hb) as [fb Eb].
  destruct (box_rep_obj _ _ Hc) as [fc Ec].
  change (s_at 8) with (SAssign [TVar "%call"] (ECall ".restore_box_attributes" [EVar "box_a"])).
  change (s_at 9) with (SAssign [TVar "%call"] (ECall ".restore_box_attributes" [EVar "box_b"])).
  change (s_at 10) with (SAssign [TVar "%call"] (ECall ".restore_box_attributes" [EVar "box_c"])).
  assert (F1 : flowing (update "%call" VNone rho) = false)
    by (unfold flowing in *; rewrite lookup_update_ne by reflexivity; exact Hf).
  assert (F2 : flowing (update "%call" VNone (update "%call" VNone rho)) = false)
    by (unfold flowing in *; rewrite lookup_update_ne by reflexivity; exact F1).
  assert (F3 : flowing (restored rho) = false)
    by (unfold flowing, restored in *; rewrite lookup_update_ne by reflexivity; exact F2).
  cbn [exec_block].
  rewrite (restore_one oc wf n HR kret kerr "box_a" rho _ fa Ea). rewrite F1.
  rewrite (restore_one oc wf n HR kret kerr "box_b" _ _ fb)
    by (rewrite lookup_update_ne by reflexivity; exact Eb).
  rewrite F2.
  rewrite (restore_one oc wf n HR kret kerr "box_c" _ _ fc)
    by (rewrite !lookup_update_ne by reflexivity; exact Ec).
  fold (restored rho). rewrite F3. exact HK.
Qed.

(* ------------------------------------------------------------------ the whole slice = the model *)
Lemma gen_cvd_q oc wf n (HR : forall b, oc ".restore_box_attributes" [b] = VNone) avail a b c ga gb gc :
  run (LO oc wf n) compute_variable_dimension_body (cvd_env avail a b c ga gb gc)
    (cvd_post (M.compute_variable_dimension avail a b c gb)) (cvd_err (M.compute_variable_dimension avail a b c gb)).
Proof.
  unfold run. rewrite body_split, zero_a, zero_b, zero_c, model_split.
  cbn [exec_block].
  apply (tail_spec oc wf n _ (fun rho => cvd_post _ rho None) _ avail
           (M.oval (M.m_a a)) (M.oval (M.m_b a)) (M.m_inner a) (M.m_pb a) (M.m_min a) (M.m_max a)
           (M.oval (M.m_a b)) (M.oval (M.m_b b)) (M.m_inner b) (M.m_pb b) (M.m_min b) (M.m_max b)
           (M.oval (M.m_a c)) (M.oval (M.m_b c)) (M.m_inner c) (M.m_pb c) (M.m_min c) (M.m_max c) ga gb gc).
  intros rho [Hf Hm]. rewrite Hf.
  change (nb (M.oval (M.m_a a)) (M.oval (M.m_b a)) (M.m_inner a) (M.m_pb a) (M.m_min a) (M.m_max a)) with (M.zero_margins a) in *.
  change (nb (M.oval (M.m_a b)) (M.oval (M.m_b b)) (M.m_inner b) (M.m_pb b) (M.m_min b) (M.m_max b)) with (M.zero_margins b) in *.
  change (nb (M.oval (M.m_a c)) (M.oval (M.m_b c)) (M.m_inner c) (M.m_pb c) (M.m_min c) (M.m_max c)) with (M.zero_margins c) in *.
  destruct (tail_model avail (M.zero_margins a) (M.zero_margins b) (M.zero_margins c) gb) as [[[a' b'] c']| | |];
    try contradiction.
  destruct Hm as (Ha & Hb & Hc).
  apply (restores_spec oc wf n HR _ _ rho _ a' b' c' Hf Ha Hb Hc).
  unfold cvd_post. split; [reflexivity|]. rewrite !lookup_restored by reflexivity. auto.
Qed.

(* for every record of operations that computes exact rational arithmetic and whose oracle answers
   restore_box_attributes, with the four getters linked to their regenerated bodies *)
Theorem gen_compute_variable_dimension O (HO : ops_ok O) (HR : restore_oracle O) n avail a b c ga gb gc :
  run (glinked O GenPage_table (S (S n))) compute_variable_dimension_body (cvd_env avail a b c ga gb gc)
    (cvd_post (M.compute_variable_dimension avail a b c gb)) (cvd_err (M.compute_variable_dimension avail a b c gb)).
Proof.
  destruct O as [add sub mul div mx mn leb eqb oc wf]. destruct HO as [H1 H2 H3 H4 H5 H6 H7 H8].
  cbn in H1, H2, H3, H4, H5, H6, H7, H8. subst. unfold restore_oracle in HR. cbn [ocall] in HR.
  exact (gen_cvd_q oc wf n HR avail a b c ga gb gc).
Qed.

