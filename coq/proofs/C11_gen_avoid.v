(* C11 - the `while True:` loop of avoid_collisions (weasyprint/layout/float.py) as REGENERATED from the source on
   every run (gen/GenFloat.v: avoid_loop_body): for every list of placed floats it ends by `break` within
   List.length shapes + 1 iterations and leaves in position_y / max_left_bound / max_right_bound the result of the
   hand model avoid_loop of model/C11Float.v (position_y exactly, the bounds up to ==), so that the C11 theorems
   about avoid_loop (termination, no overlap, as high as possible) speak about the source loop.
   shape.margin_height() / shape.margin_width() / containing_block.content_box_x() are answered by [ocall]
   (hypotheses HMH HMW HCB), discharged at the end by the Box methods regenerated in gen/GenBoxes.v. *)
From Coq Require Import QArith Qminmax Lqa List String Bool Lia.
Require Import WV.base.Py WV.gen.GenFloat WV.model.C11Float.
Require Import WV.proofs.C11_gen_avoid_base.
Require WV.proofs.C11_float WV.proofs.PyNatural.
Import ListNotations.
Open Scope string_scope.
Open Scope list_scope.
Open Scope Q_scope.

Definition wbody : list stmt := match avoid_loop_body with [SWhile _ b] => b | _ => [] end.
Definition st (i : nat) : stmt := nth i wbody SPass.
Definition for_body : list stmt := match st 1 with SFor _ _ b => b | _ => [] end.

Lemma avoid_loop_body_eq : avoid_loop_body = [SWhile (EConst (VBool true)) wbody].
Proof. reflexivity. Qed.
Lemma wbody_eq : wbody = [st 0; st 1; st 2; st 3; st 4; st 5; st 6; st 7; st 8].
Proof. reflexivity. Qed.
Lemma st1_eq : st 1 = SFor "shape" (EVar "excluded_shapes") for_body.
Proof. reflexivity. Qed.

(* ---- the shapes the environment goes through.  The seven parameters come first; the locals are bound in the
   order of their first assignment: colliding_shapes, shape, shape_position_y, shape_margin_height, left_bounds,
   right_bounds, max_left_bound, max_right_bound, [new_position_y], %flow *)
Record base := mkb { b_es : val; b_py : val; b_bw : val; b_bh : val; b_box : val; b_cb : val; b_outer : val }.
Inductive tail :=
| T0
| T1 (cs : val)
| T2 (cs sh spy smh : val)
| U3 (cs sh spy smh lb : val)
| U4 (cs sh spy smh lb rb : val)
| U5 (cs sh spy smh lb rb mlb : val)
| U6 (cs sh spy smh lb rb mlb mrb : val)
| U7 (cs sh spy smh lb rb mlb mrb fl : val)
| U8 (cs sh spy smh lb rb mlb mrb npy : val)
| U9 (cs sh spy smh lb rb mlb mrb npy fl : val).
Definition mk (b : base) (t : tail) : env :=
  [("excluded_shapes", b_es b); ("position_y", b_py b); ("box_width", b_bw b); ("box_height", b_bh b);
   ("box", b_box b); ("containing_block", b_cb b); ("outer", b_outer b)] ++
  match t with
  | T0 => []
  | T1 cs => [("colliding_shapes", cs)]
  | T2 cs sh spy smh => [("colliding_shapes", cs); ("shape", sh); ("shape_position_y", spy); ("shape_margin_height", smh)]
  | U3 cs sh spy smh lb =>
      [("colliding_shapes", cs); ("shape", sh); ("shape_position_y", spy); ("shape_margin_height", smh);
       ("left_bounds", lb)]
  | U4 cs sh spy smh lb rb =>
      [("colliding_shapes", cs); ("shape", sh); ("shape_position_y", spy); ("shape_margin_height", smh);
       ("left_bounds", lb); ("right_bounds", rb)]
  | U5 cs sh spy smh lb rb mlb =>
      [("colliding_shapes", cs); ("shape", sh); ("shape_position_y", spy); ("shape_margin_height", smh);
       ("left_bounds", lb); ("right_bounds", rb); ("max_left_bound", mlb)]
  | U6 cs sh spy smh lb rb mlb mrb =>
      [("colliding_shapes", cs); ("shape", sh); ("shape_position_y", spy); ("shape_margin_height", smh);
       ("left_bounds", lb); ("right_bounds", rb); ("max_left_bound", mlb); ("max_right_bound", mrb)]
  | U7 cs sh spy smh lb rb mlb mrb fl =>
      [("colliding_shapes", cs); ("shape", sh); ("shape_position_y", spy); ("shape_margin_height", smh);
       ("left_bounds", lb); ("right_bounds", rb); ("max_left_bound", mlb); ("max_right_bound", mrb); ("%flow", fl)]
  | U8 cs sh spy smh lb rb mlb mrb npy =>
      [("colliding_shapes", cs); ("shape", sh); ("shape_position_y", spy); ("shape_margin_height", smh);
       ("left_bounds", lb); ("right_bounds", rb); ("max_left_bound", mlb); ("max_right_bound", mrb);
       ("new_position_y", npy)]
  | U9 cs sh spy smh lb rb mlb mrb npy fl =>
      [("colliding_shapes", cs); ("shape", sh); ("shape_position_y", spy); ("shape_margin_height", smh);
       ("left_bounds", lb); ("right_bounds", rb); ("max_left_bound", mlb); ("max_right_bound", mrb);
       ("new_position_y", npy); ("%flow", fl)]
  end.

(* what an earlier iteration left in the locals (None: this is the first iteration) *)
Record left := mkl { l_cs : val; l_sh : val; l_spy : val; l_smh : val; l_lb : val; l_rb : val; l_mlb : val;
                     l_mrb : val; l_npy : val }.
Definition phase := option left.
Definition envA b (ph : phase) : env :=
  match ph with None => mk b T0
  | Some lo => mk b (U9 (l_cs lo) (l_sh lo) (l_spy lo) (l_smh lo) (l_lb lo) (l_rb lo) (l_mlb lo) (l_mrb lo) (l_npy lo) VNone) end.
Definition envB b (ph : phase) cs : env :=
  match ph with None => mk b (T1 cs)
  | Some lo => mk b (U9 cs (l_sh lo) (l_spy lo) (l_smh lo) (l_lb lo) (l_rb lo) (l_mlb lo) (l_mrb lo) (l_npy lo) VNone) end.
Definition envC b (ph : phase) cs sh spy smh : env :=
  match ph with None => mk b (T2 cs sh spy smh)
  | Some lo => mk b (U9 cs sh spy smh (l_lb lo) (l_rb lo) (l_mlb lo) (l_mrb lo) (l_npy lo) VNone) end.
Definition envD b (ph : phase) cs sh spy smh lb : env :=
  match ph with None => mk b (U3 cs sh spy smh lb)
  | Some lo => mk b (U9 cs sh spy smh lb (l_rb lo) (l_mlb lo) (l_mrb lo) (l_npy lo) VNone) end.
Definition envE b (ph : phase) cs sh spy smh lb rb : env :=
  match ph with None => mk b (U4 cs sh spy smh lb rb)
  | Some lo => mk b (U9 cs sh spy smh lb rb (l_mlb lo) (l_mrb lo) (l_npy lo) VNone) end.
Definition envF b (ph : phase) cs sh spy smh lb rb mlb mrb : env :=
  match ph with None => mk b (U6 cs sh spy smh lb rb mlb mrb)
  | Some lo => mk b (U9 cs sh spy smh lb rb mlb mrb (l_npy lo) VNone) end.
Definition envE5 b (ph : phase) cs sh spy smh lb rb mlb : env :=
  match ph with None => mk b (U5 cs sh spy smh lb rb mlb)
  | Some lo => mk b (U9 cs sh spy smh lb rb mlb (l_mrb lo) (l_npy lo) VNone) end.
(* after `break` without having computed new_position_y *)
Definition envG b (ph : phase) cs sh spy smh lb rb mlb mrb fl : env :=
  match ph with None => mk b (U7 cs sh spy smh lb rb mlb mrb fl)
  | Some lo => mk b (U9 cs sh spy smh lb rb mlb mrb (l_npy lo) fl) end.

(* the statements of the loop body that contain list constructs, re-read through [reflexivity] *)
Definition side_cond (s : string) : expr :=
  ECmp (ESubscr (EAttr (EVar "shape") "style") "float") [(Eq, EConst (VStr s))].
Definition lb_elt : expr := EBin Add (EAttr (EVar "shape") "position_x") (ECall ".margin_width" [EVar "shape"]).
Definition rb_elt : expr := EAttr (EVar "shape") "position_x".
Definition comp_stmt (x : string) (elt : expr) (s : string) : stmt :=
  SAssign [TVar x] (EListComp elt "shape" (EVar "colliding_shapes") (Some (side_cond s))).
Lemma st2_eq : st 2 = comp_stmt "left_bounds" lb_elt "left".
Proof. reflexivity. Qed.
Lemma st3_eq : st 3 = comp_stmt "right_bounds" rb_elt "right".
Proof. reflexivity. Qed.

Definition blk7 : list stmt := match st 7 with SIf _ th _ => th | _ => [] end.
Definition i0 := nth 0 blk7 SPass.
Definition i1 := nth 1 blk7 SPass.
Definition i2 := nth 2 blk7 SPass.
Lemma st7_eq : st 7 = SIf (EOr (EVar "left_bounds") (EVar "right_bounds")) [i0; i1; i2] [].
Proof. reflexivity. Qed.
Lemma st8_eq : st 8 = SBreak.
Proof. reflexivity. Qed.
Definition bound_stmt (ismax : bool) (lb mb : string) : stmt :=
  SIf (EVar lb) [SAssign [TVar mb] (EGen ismax (EVar "_x") "_x" (ETuple [EGen ismax (EVar "_x") "_x" (EVar lb) None; EVar mb]) None)] [].
Lemma i0_eq : i0 = bound_stmt true "left_bounds" "max_left_bound".
Proof. reflexivity. Qed.
Lemma i1_eq : i1 = bound_stmt false "right_bounds" "max_right_bound".
Proof. reflexivity. Qed.
Definition npy_elt : expr := EBin Add (EAttr (EVar "shape") "position_y") (ECall ".margin_height" [EVar "shape"]).
Lemma i2_eq : i2 =
  SIf (ECmp (EVar "box_width") [(Gt, EBin Sub (EVar "max_right_bound") (EVar "max_left_bound"))])
    [SAssign [TVar "new_position_y"] (EGen false npy_elt "shape" (EVar "colliding_shapes") None);
     SIf (ECmp (EVar "new_position_y") [(Gt, EVar "position_y")])
       [SAssign [TVar "position_y"] (EVar "new_position_y"); SContinue] []] [].
Proof. reflexivity. Qed.


Section Shapes.
Variable T : Type.
Variable sh_of : T -> shape.
Variable extra : T -> list (string * val).
Definition vshape (t : T) : val :=
  VObj (("style", VObj [("float", VStr (if s_left (sh_of t) then "left" else "right"))]) ::
        ("position_x", VNum (s_x (sh_of t))) :: ("position_y", VNum (s_y (sh_of t))) :: extra t).

Section Loop.
Variable O : qops.
Hypothesis HO : ops_ok O.
Hypothesis HMH : forall t, ocall O ".margin_height" [vshape t] = VNum (s_h (sh_of t)).
Hypothesis HMW : forall t, ocall O ".margin_width" [vshape t] = VNum (s_w (sh_of t)).

Ltac unseal :=
  rewrite ?(qadd_eq _ HO), ?(qsub_eq _ HO), ?(qmul_eq _ HO), ?(qdiv_eq _ HO), ?(qmax_eq _ HO), ?(qmin_eq _ HO),
          ?(qleb_eq _ HO), ?(qeqb_eq _ HO) in *.
Ltac ev := lazy -[qadd qsub qmul qdiv qmax qmin qleb qeqb ocall Qplus Qminus Qmax Qmin Qle_bool Qeq_bool
                  s_left s_x s_y s_w s_h sh_of extra].

Ltac lk := repeat (rewrite lookup_update_same || rewrite lookup_update_other by reflexivity).
Ltac evb := lazy -[qadd qsub qmul qdiv qmax qmin qleb qeqb ocall Qplus Qminus Qmax Qmin Qle_bool Qeq_bool
                   s_left s_x s_y s_w s_h sh_of extra exec_block].

(* ---- the `for` loop: colliding_shapes = the shapes that pass the three-clause test, in order *)
Definition cs_step (y bh : Q) (a : list val) (t : T) : list val :=
  if collides y bh (sh_of t) then a ++ [vshape t] else a.

Lemma body_step A kret kerr ves y vbw bh vbox vcb vout ph a vsh vspy vsmh t (k : env -> A) :
  let b := mkb ves (VNum y) vbw (VNum bh) vbox vcb vout in
  (exec_block O A kret kerr for_body (update "shape" (vshape t) (envB b ph (VList a))) k =
   k (envC b ph (VList (cs_step y bh a t)) (vshape t) (VNum (s_y (sh_of t))) (VNum (s_h (sh_of t))))) /\
  (exec_block O A kret kerr for_body (update "shape" (vshape t) (envC b ph (VList a) vsh vspy vsmh)) k =
   k (envC b ph (VList (cs_step y bh a t)) (vshape t) (VNum (s_y (sh_of t))) (VNum (s_h (sh_of t))))).
Proof.
  pose proof (HMH t) as Hm. unfold cs_step, collides, Qlt_b, s_bottom. unfold vshape in Hm |- *. set (X := extra t) in *. clearbody X.
  destruct (sh_of t) as [sl sx sy sw sh0]. cbn [s_left s_x s_y s_w s_h] in *.
  destruct ph as [[? ? ? ? ? ? ? ? ?]|]; (split;
    unfold for_body, st, wbody, avoid_loop_body, envB, envC, mk; cbn [nth app b_es b_py b_bw b_bh b_box b_cb b_outer];
    ev; rewrite ?Hm; ev; unseal;
    repeat match goal with |- context [Qle_bool ?a ?b] => destruct (Qle_bool a b) eqn:? end;
    cbn [negb andb orb]; reflexivity).
Qed.

Lemma cs_fold y bh l : forall a,
  fold_left (cs_step y bh) l a = a ++ map vshape (filter (fun t => collides y bh (sh_of t)) l).
Proof.
  induction l as [|t l IH]; intros a; cbn [fold_left filter map]; [now rewrite app_nil_r|].
  rewrite IH. unfold cs_step. destruct (collides y bh (sh_of t)); [|reflexivity].
  cbn [map]. now rewrite <- app_assoc.
Qed.

Lemma loop_spec ves y vbw bh vbox vcb vout ph : forall (l : list T) a vsh vspy vsmh,
  let b := mkb ves (VNum y) vbw (VNum bh) vbox vcb vout in
  exists vsh' vspy' vsmh', forall A kret kerr (k : env -> A),
    gen_iter (fun v rho k' => exec_block O A kret kerr for_body (update "shape" v rho) k') (map vshape l)
             (envC b ph (VList a) vsh vspy vsmh) k =
    k (envC b ph (VList (fold_left (cs_step y bh) l a)) vsh' vspy' vsmh').
Proof.
  induction l as [|t l IH]; intros a vsh vspy vsmh b.
  - exists vsh, vspy, vsmh. reflexivity.
  - destruct (IH (cs_step y bh a t) (vshape t) (VNum (s_y (sh_of t))) (VNum (s_h (sh_of t)))) as (v1 & v2 & v3 & H).
    exists v1, v2, v3. intros A kret kerr k. cbn [map gen_iter fold_left].
    rewrite (proj2 (body_step A kret kerr ves y vbw bh vbox vcb vout ph a vsh vspy vsmh t _)). apply H.
Qed.

Lemma st0_spec A kret kerr b ph (k : env -> A) :
  exec O A kret kerr (st 0) (envA b ph) k = k (envB b ph (VList [])).
Proof. destruct ph; reflexivity. Qed.

Lemma st1_spec y vbw bh vbox vcb vout ph t0 l :
  let b := mkb (VList (map vshape (t0 :: l))) (VNum y) vbw (VNum bh) vbox vcb vout in
  exists vsh vspy vsmh, forall A kret kerr (k : env -> A),
    exec O A kret kerr (st 1) (envB b ph (VList [])) k =
    k (envC b ph (VList (map vshape (filter (fun t => collides y bh (sh_of t)) (t0 :: l)))) vsh vspy vsmh).
Proof.
  intros b. subst b.
  destruct (loop_spec (VList (map vshape (t0 :: l))) y vbw bh vbox vcb vout ph l (cs_step y bh [] t0)
              (vshape t0) (VNum (s_y (sh_of t0))) (VNum (s_h (sh_of t0)))) as (v1 & v2 & v3 & H).
  exists v1, v2, v3. intros A kret kerr k.
  rewrite st1_eq, (exec_for O A kret kerr "shape" "excluded_shapes" for_body _ k (map vshape (t0 :: l)))
    by (destruct ph; reflexivity).
  cbn [map gen_iter].
  rewrite (proj1 (body_step A kret kerr _ y vbw bh vbox vcb vout ph [] VNone VNone VNone t0 _)).
  rewrite H.
  change (fold_left (cs_step y bh) l (cs_step y bh [] t0)) with (fold_left (cs_step y bh) (t0 :: l) []).
  now rewrite cs_fold.
Qed.

(* ---- the comprehensions left_bounds / right_bounds *)
Definition side (t : T) : string := if s_left (sh_of t) then "left" else "right".

Lemma side_cond_spec R err rho t s (kk : val -> R) :
  eval O R err (update "shape" (vshape t) rho) (side_cond s) kk = kk (VBool (String.eqb (side t) s)).
Proof.
  unfold side_cond. cbn [eval]. rewrite lookup_update_same. unfold vshape, side.
  cbn [lookup String.eqb Ascii.eqb Bool.eqb cmp_k veq_k].
  destruct (String.eqb (if s_left (sh_of t) then "left" else "right") s); reflexivity.
Qed.

Lemma comp_spec A kret kerr rho x elt s (g : T -> Q) CS (k : env -> A) :
  lookup "colliding_shapes" rho = VList (map vshape CS) ->
  (forall t kk, eval O A kerr (update "shape" (vshape t) rho) elt kk = kk (VNum (g t))) ->
  exec O A kret kerr (comp_stmt x elt s) rho k =
  k (update x (VList (map VNum (map g (filter (fun t => String.eqb (side t) s) CS)))) rho).
Proof.
  intros Hcs He. unfold comp_stmt. cbn [exec].
  rewrite (eval_listcomp O A kerr rho elt "shape" "colliding_shapes" (side_cond s) _ (map vshape CS) Hcs).
  rewrite (gen_collect_fm _ vshape (fun t => String.eqb (side t) s) (fun t => VNum (g t))).
  - cbn [rev app fold_left assign1]. now rewrite map_map.
  - intros t kk. rewrite side_cond_spec. cbn [bool_k]. destruct (String.eqb (side t) s); [apply He|reflexivity].
Qed.

Lemma lb_elt_spec R err rho t (kk : val -> R) :
  eval O R err (update "shape" (vshape t) rho) lb_elt kk = kk (VNum (qadd O (s_x (sh_of t)) (s_w (sh_of t)))).
Proof.
  unfold lb_elt. cbn [eval]. rewrite lookup_update_same.
  pose proof (HMW t) as Hm. unfold vshape in Hm |- *. cbn [lookup String.eqb Ascii.eqb Bool.eqb rev app].
  rewrite Hm. reflexivity.
Qed.
Lemma rb_elt_spec R err rho t (kk : val -> R) :
  eval O R err (update "shape" (vshape t) rho) rb_elt kk = kk (VNum (s_x (sh_of t))).
Proof. unfold rb_elt. cbn [eval]. rewrite lookup_update_same. reflexivity. Qed.
Lemma npy_elt_spec R err rho t (kk : val -> R) :
  eval O R err (update "shape" (vshape t) rho) npy_elt kk = kk (VNum (qadd O (s_y (sh_of t)) (s_h (sh_of t)))).
Proof.
  unfold npy_elt. cbn [eval]. rewrite lookup_update_same.
  pose proof (HMH t) as Hm. unfold vshape in Hm |- *. cbn [lookup String.eqb Ascii.eqb Bool.eqb rev app].
  rewrite Hm. reflexivity.
Qed.

(* ---- `if xs: m = max(max(xs), m)` and its min twin *)
Definition bnd (ismax : bool) (l : list Q) (m : Q) : Q :=
  match l with [] => m | q0 :: l' => qmm O ismax (fold_left (qmm O ismax) l' q0) m end.

Lemma update_id k v rho : lookup k rho = v -> (forall m, v <> VErr m) -> update k v rho = rho.
Proof.
  intros H N. induction rho as [|[k0 v0] r IH]; simpl in *.
  - exfalso. exact (N _ (eq_sym H)).
  - destruct (String.eqb k k0) eqn:E; [apply String.eqb_eq in E; subst; reflexivity|].
    now rewrite IH.
Qed.

Lemma bound_spec A kret kerr ismax lb mb rho (k : env -> A) LB m :
  lookup lb rho = VList (map VNum LB) -> lookup mb rho = VNum m ->
  exec O A kret kerr (bound_stmt ismax lb mb) rho k = k (update mb (VNum (bnd ismax LB m)) rho).
Proof.
  intros Hl Hm. unfold bound_stmt. rewrite exec_if. cbn [eval]. rewrite Hl.
  destruct LB as [|q0 LB']; cbn [map bool_k bnd].
  { rewrite update_id; [reflexivity|exact Hm|discriminate]. }
  rewrite exec_block_cons. cbn [exec].
  rewrite (eval_gen_pair O A kerr ismax rho "_x" _ _ _ (VNum (fold_left (qmm O ismax) LB' q0)) (VNum m)).
  - cbn [minmax_k fold_left assign1]. destruct (flowing _); reflexivity.
  - intros k'. now apply eval_gen_var.
  - intros k'. cbn [eval]. now rewrite Hm.
Qed.

(* ---- `if box_width > max_right_bound - max_left_bound:` *)
Definition bottomO (t : T) : Q := qadd O (s_y (sh_of t)) (s_h (sh_of t)).
Lemma flowing_set f rho : flowing (update "%flow" (VStr f) rho) = true.
Proof. unfold flowing. now rewrite lookup_update_same. Qed.

Lemma i2_spec A kret kerr rho (k : env -> A) bw a b y c0 CS :
  lookup "box_width" rho = VNum bw -> lookup "max_right_bound" rho = VNum b -> lookup "max_left_bound" rho = VNum a ->
  lookup "colliding_shapes" rho = VList (map vshape (c0 :: CS)) -> lookup "position_y" rho = VNum y ->
  flowing rho = false ->
  exec O A kret kerr i2 rho k =
  if qleb O bw (qsub O b a) then k rho
  else let ny := fold_left (qmm O false) (map bottomO CS) (bottomO c0) in
       let rho1 := update "new_position_y" (VNum ny) rho in
       if qleb O ny y then k rho1
       else k (update "%flow" (VStr "continue") (update "position_y" (VNum ny) rho1)).
Proof.
  intros Hbw Hb Ha Hcs Hy Hfl. rewrite i2_eq, exec_if. cbn [eval]. rewrite Hbw, Hb, Ha. cbn [arith_k cmp_k].
  destruct (qleb O bw (qsub O b a)); [reflexivity|].
  rewrite exec_block_cons. cbn [exec].
  rewrite (eval_gen_map O A kerr false rho "shape" "colliding_shapes" npy_elt _ vshape bottomO c0 CS Hcs);
    [|intros t kk; apply npy_elt_spec].
  cbn [fold_left assign1]. cbv zeta.
  rewrite flowing_update_other, Hfl by reflexivity.
  rewrite exec_block_cons, exec_if. cbn [eval]. rewrite lookup_update_same.
  rewrite lookup_update_other, Hy by reflexivity. cbn [cmp_k].
  destruct (qleb O _ y); cbn [bool_k].
  { rewrite exec_block_nil, flowing_update_other, Hfl by reflexivity. reflexivity. }
  rewrite exec_block_cons. cbn [exec eval fold_left assign1]. rewrite lookup_update_same.
  rewrite !flowing_update_other, Hfl by reflexivity.
  rewrite exec_block_cons. cbn [exec]. rewrite !flowing_set. reflexivity.
Qed.

(* ---- the end of the body: `if left_bounds or right_bounds: ...` and `break` *)
Lemma tail_spec A kret kerr rho (k : env -> A) LB RB bw a0 b0 y c0 CS :
  lookup "left_bounds" rho = VList (map VNum LB) -> lookup "right_bounds" rho = VList (map VNum RB) ->
  lookup "box_width" rho = VNum bw -> lookup "max_right_bound" rho = VNum b0 -> lookup "max_left_bound" rho = VNum a0 ->
  lookup "colliding_shapes" rho = VList (map vshape (c0 :: CS)) -> lookup "position_y" rho = VNum y ->
  flowing rho = false -> (LB <> [] \/ RB <> []) ->
  exec_block O A kret kerr [st 7; st 8] rho k =
  let a := bnd true LB a0 in
  let b := bnd false RB b0 in
  let rhob := update "max_right_bound" (VNum b) (update "max_left_bound" (VNum a) rho) in
  if qleb O bw (qsub O b a) then k (update "%flow" (VStr "break") rhob)
  else let ny := fold_left (qmm O false) (map bottomO CS) (bottomO c0) in
       let rho1 := update "new_position_y" (VNum ny) rhob in
       if qleb O ny y then k (update "%flow" (VStr "break") rho1)
       else k (update "%flow" (VStr "continue") (update "position_y" (VNum ny) rho1)).
Proof.
  intros Hlb Hrb Hbw Hb Ha Hcs Hy Hfl Hne. cbv zeta.
  set (a := bnd true LB a0). set (b := bnd false RB b0).
  set (rhoa := update "max_left_bound" (VNum a) rho).
  set (rhob := update "max_right_bound" (VNum b) rhoa).
  assert (Hfb : flowing rhob = false).
  { unfold rhob, rhoa. now rewrite !flowing_update_other by reflexivity. }
  assert (Hblk : forall kk : env -> A,
    exec_block O A kret kerr [i0; i1; i2] rho kk =
    if qleb O bw (qsub O b a) then kk rhob
    else let ny := fold_left (qmm O false) (map bottomO CS) (bottomO c0) in
         let rho1 := update "new_position_y" (VNum ny) rhob in
         if qleb O ny y then kk rho1
         else kk (update "%flow" (VStr "continue") (update "position_y" (VNum ny) rho1))).
  { intros kk.
    rewrite exec_block_cons, i0_eq, (bound_spec A kret kerr true "left_bounds" "max_left_bound" rho _ LB a0 Hlb Ha).
    fold a. fold rhoa. replace (flowing rhoa) with false
      by (unfold rhoa; now rewrite flowing_update_other by reflexivity).
    rewrite exec_block_cons, i1_eq, (bound_spec A kret kerr false "right_bounds" "max_right_bound" rhoa _ RB b0)
      by (unfold rhoa; rewrite lookup_update_other by reflexivity; assumption).
    fold b. fold rhob. rewrite Hfb.
    assert (L : forall x v, String.eqb x "max_right_bound" = false -> String.eqb x "max_left_bound" = false ->
                lookup x rho = v -> lookup x rhob = v).
    { intros x v N1 N2 Hx. unfold rhob, rhoa. now rewrite !lookup_update_other by assumption. }
    assert (Lb : lookup "max_right_bound" rhob = VNum b) by apply lookup_update_same.
    assert (La : lookup "max_left_bound" rhob = VNum a)
      by (unfold rhob; rewrite lookup_update_other by reflexivity; apply lookup_update_same).
    rewrite exec_block_cons, (i2_spec A kret kerr rhob _ bw a b y c0 CS (L "box_width" _ eq_refl eq_refl Hbw)
      Lb La
      (L "colliding_shapes" _ eq_refl eq_refl Hcs) (L "position_y" _ eq_refl eq_refl Hy) Hfb).
    cbv zeta. rewrite exec_block_nil.
    destruct (qleb O bw (qsub O b a)); [now rewrite Hfb|].
    destruct (qleb O _ y).
    - now rewrite flowing_update_other, Hfb by reflexivity.
    - now rewrite flowing_set. }
  rewrite exec_block_cons, st7_eq, exec_if. cbn [eval]. rewrite Hlb, Hrb.
  transitivity (exec_block O A kret kerr [i0; i1; i2] rho
       (fun rho' => if flowing rho' then k rho' else exec_block O A kret kerr [st 8] rho' k)).
  { destruct LB as [|q LB]; [|reflexivity]. destruct RB as [|q RB]; [destruct Hne; congruence|reflexivity]. }
  rewrite Hblk. cbv beta zeta. rewrite st8_eq.
  destruct (qleb O bw (qsub O b a)).
  { rewrite Hfb, exec_block_cons. cbn [exec]. now rewrite flowing_set. }
  destruct (qleb O _ y).
  - rewrite flowing_update_other, Hfb, exec_block_cons by reflexivity. cbn [exec]. now rewrite flowing_set.
  - now rewrite flowing_set.
Qed.

(* nothing collides: both lists are empty, the `if` is skipped *)
Lemma tail_empty A kret kerr rho (k : env -> A) :
  lookup "left_bounds" rho = VList [] -> lookup "right_bounds" rho = VList [] -> flowing rho = false ->
  exec_block O A kret kerr [st 7; st 8] rho k = k (update "%flow" (VStr "break") rho).
Proof.
  intros Hlb Hrb Hfl. rewrite exec_block_cons, st7_eq, exec_if. cbn [eval]. rewrite Hlb. cbn [bool_k].
  rewrite Hrb. cbn [bool_k]. rewrite exec_block_nil, Hfl, exec_block_cons, st8_eq. cbn [exec].
  now rewrite flowing_set.
Qed.


(* ---- one iteration of the `while True:` body *)
Section Iter.
Variables (shapes : list T) (bw bh ml mr cbw cbx : Q) (xb xc : list (string * val)) (outer : bool).
Definition vbox : val := VObj (("margin_left", VNum ml) :: ("margin_right", VNum mr) :: xb).
Definition vcb : val := VObj (("width", VNum cbw) :: xc).
Hypothesis HCB : ocall O ".content_box_x" [vcb] = VNum cbx.

Definition base_of (y : Q) : base :=
  mkb (VList (map vshape shapes)) (VNum y) (VNum bw) (VNum bh) vbox vcb (VBool outer).
Definition l0O : Q := if outer then cbx else qadd O cbx ml.
Definition r0O : Q := if outer then qadd O cbx cbw else qsub O (qadd O cbx cbw) mr.

Ltac shape_case ph :=
  destruct ph as [[? ? ? ? ? ? ? ? ?]|];
  unfold st, wbody, avoid_loop_body, envE, envE5, envF, mk; cbn [nth app b_es b_py b_bw b_bh b_box b_cb b_outer].

Lemma st4_spec A kret kerr y ph cs sh spy smh lb rb (k : env -> A) :
  exec O A kret kerr (st 4) (envE (base_of y) ph cs sh spy smh lb rb) k =
  k (envE5 (base_of y) ph cs sh spy smh lb rb (VNum cbx)).
Proof.
  pose proof HCB as Hc. unfold vcb in Hc. unfold base_of, vbox, vcb.
  shape_case ph; ev; rewrite Hc; reflexivity.
Qed.
Lemma st5_spec A kret kerr y ph cs sh spy smh lb rb mlb (k : env -> A) :
  exec O A kret kerr (st 5) (envE5 (base_of y) ph cs sh spy smh lb rb mlb) k =
  k (envF (base_of y) ph cs sh spy smh lb rb mlb (VNum (qadd O cbx cbw))).
Proof.
  pose proof HCB as Hc. unfold vcb in Hc. unfold base_of, vbox, vcb.
  shape_case ph; ev; rewrite Hc; reflexivity.
Qed.
Lemma st6_spec A kret kerr y ph cs sh spy smh lb rb a b (k : env -> A) :
  exec O A kret kerr (st 6) (envF (base_of y) ph cs sh spy smh lb rb (VNum a) (VNum b)) k =
  k (envF (base_of y) ph cs sh spy smh lb rb (VNum (if outer then a else qadd O a ml))
          (VNum (if outer then b else qsub O b mr))).
Proof.
  unfold base_of, vbox, vcb. destruct outer; shape_case ph; reflexivity.
Qed.

(* what one iteration does, in terms of the interpreter's operations *)
Inductive outcome := Break (y a b : Q) | Continue (ny : Q).
Definition colliding_at (y : Q) : list T := filter (fun t => collides y bh (sh_of t)) shapes.
Definition LBO (cs : list T) : list Q :=
  map (fun t => qadd O (s_x (sh_of t)) (s_w (sh_of t))) (filter (fun t => String.eqb (side t) "left") cs).
Definition RBO (cs : list T) : list Q :=
  map (fun t => s_x (sh_of t)) (filter (fun t => String.eqb (side t) "right") cs).
Definition src_stepO (y : Q) : outcome :=
  match colliding_at y with
  | [] => Break y l0O r0O
  | c0 :: cs' =>
      let a := bnd true (LBO (c0 :: cs')) l0O in
      let b := bnd false (RBO (c0 :: cs')) r0O in
      if qleb O bw (qsub O b a) then Break y a b
      else let ny := fold_left (qmm O false) (map bottomO cs') (bottomO c0) in
           if qleb O ny y then Break y a b else Continue ny
  end.

Lemma bounds_nonempty c0 cs : LBO (c0 :: cs) <> [] \/ RBO (c0 :: cs) <> [].
Proof.
  unfold LBO, RBO, side. cbn [filter]. destruct (s_left (sh_of c0)); cbn [String.eqb Ascii.eqb Bool.eqb map];
    [left|right]; discriminate.
Qed.

Definition iter_post (y : Q) (rho' : env) : Prop :=
  match src_stepO y with
  | Break y' a b =>
      lookup "%flow" rho' = VStr "break" /\ lookup "position_y" rho' = VNum y' /\
      lookup "max_left_bound" rho' = VNum a /\ lookup "max_right_bound" rho' = VNum b
  | Continue ny =>
      lookup "%flow" rho' = VStr "continue" /\ exists lo, update "%flow" VNone rho' = envA (base_of ny) (Some lo)
  end.

Lemma iter_spec y ph :
  exists rho', (forall A kret kerr (K : env -> A), exec_block O A kret kerr wbody (envA (base_of y) ph) K = K rho') /\
               iter_post y rho'.
Proof.
  unfold iter_post, src_stepO, colliding_at.
  destruct shapes as [|t0 l] eqn:Hs.
  - (* no float at all *)
    pose proof HCB as Hc. unfold vcb in Hc. unfold l0O, r0O, base_of, vbox, vcb. rewrite Hs. cbn [filter map].
    destruct ph as [[? ? ? ? ? ? ? ? ?]|], outer;
      (eexists; split;
       [intros A kret kerr K; rewrite wbody_eq; unfold st, wbody, avoid_loop_body, envA, mk;
        cbn [nth app b_es b_py b_bw b_bh b_box b_cb b_outer l_cs l_sh l_spy l_smh l_lb l_rb l_mlb l_mrb l_npy];
        repeat (rewrite exec_block_cons; evb; rewrite ?Hc; evb); rewrite ?exec_block_nil; reflexivity
       |repeat split; reflexivity]).
  - destruct (st1_spec y (VNum bw) bh vbox vcb (VBool outer) ph t0 l) as (vsh & vspy & vsmh & H1).
    set (CS := filter (fun t => collides y bh (sh_of t)) (t0 :: l)) in *.
    set (vcs := VList (map vshape CS)) in *.
    set (vlb := VList (map VNum (LBO CS))). set (vrb := VList (map VNum (RBO CS))).
    set (rhoF := envF (base_of y) ph vcs vsh vspy vsmh vlb vrb (VNum l0O) (VNum r0O)).
    assert (HD : forall A kret kerr (K : env -> A),
      exec_block O A kret kerr wbody (envA (base_of y) ph) K = exec_block O A kret kerr [st 7; st 8] rhoF K).
    { intros A kret kerr K. unfold base_of in *. rewrite Hs in *.
      rewrite wbody_eq, exec_block_cons, st0_spec.
      replace (flowing _) with false by (destruct ph; reflexivity).
      rewrite exec_block_cons, H1.
      replace (flowing _) with false by (destruct ph; reflexivity).
      rewrite exec_block_cons, st2_eq,
        (comp_spec A kret kerr _ "left_bounds" lb_elt "left" (fun t => qadd O (s_x (sh_of t)) (s_w (sh_of t))) CS);
        [|destruct ph; reflexivity|intros; apply lb_elt_spec].
      fold (LBO CS). fold vlb.
      replace (update "left_bounds" vlb _) with
        (envD (mkb (VList (map vshape (t0 :: l))) (VNum y) (VNum bw) (VNum bh) vbox vcb (VBool outer)) ph vcs vsh vspy vsmh vlb)
        by (destruct ph; reflexivity).
      replace (flowing _) with false by (destruct ph; reflexivity).
      rewrite exec_block_cons, st3_eq,
        (comp_spec A kret kerr _ "right_bounds" rb_elt "right" (fun t => s_x (sh_of t)) CS);
        [|destruct ph; reflexivity|intros; apply rb_elt_spec].
      fold (RBO CS). fold vrb.
      replace (update "right_bounds" vrb _) with
        (envE (mkb (VList (map vshape (t0 :: l))) (VNum y) (VNum bw) (VNum bh) vbox vcb (VBool outer)) ph vcs vsh vspy vsmh vlb vrb)
        by (destruct ph; reflexivity).
      replace (flowing _) with false by (destruct ph; reflexivity).
      rewrite <- Hs. fold (base_of y).
      rewrite exec_block_cons, st4_spec.
      replace (flowing _) with false by (destruct ph; reflexivity).
      rewrite exec_block_cons, st5_spec.
      replace (flowing _) with false by (destruct ph; reflexivity).
      rewrite exec_block_cons, st6_spec.
      replace (flowing _) with false by (destruct ph; reflexivity).
      reflexivity. }
    assert (Hfl : flowing rhoF = false) by (unfold rhoF; destruct ph; reflexivity).
    clearbody CS. destruct CS as [|c0 CS'].
    + exists (update "%flow" (VStr "break") rhoF). split.
      * intros A kret kerr K. rewrite HD. apply tail_empty; [| |exact Hfl]; unfold rhoF; destruct ph; reflexivity.
      * rewrite lookup_update_same, !lookup_update_other by reflexivity.
        unfold rhoF. destruct ph; repeat split; reflexivity.
    + set (a := bnd true (LBO (c0 :: CS')) l0O). set (b := bnd false (RBO (c0 :: CS')) r0O).
      set (ny := fold_left (qmm O false) (map bottomO CS') (bottomO c0)).
      assert (HT := fun A kret kerr K => tail_spec A kret kerr rhoF K (LBO (c0 :: CS')) (RBO (c0 :: CS')) bw l0O r0O y c0 CS').
      cbv zeta in HT. fold a b ny in HT.
      assert (HT' : forall A kret kerr (K : env -> A),
        exec_block O A kret kerr [st 7; st 8] rhoF K =
        (let rhob := update "max_right_bound" (VNum b) (update "max_left_bound" (VNum a) rhoF) in
         if qleb O bw (qsub O b a) then K (update "%flow" (VStr "break") rhob)
         else let rho1 := update "new_position_y" (VNum ny) rhob in
              if qleb O ny y then K (update "%flow" (VStr "break") rho1)
              else K (update "%flow" (VStr "continue") (update "position_y" (VNum ny) rho1)))).
      { intros A kret kerr K. apply HT; try exact Hfl; try apply bounds_nonempty; unfold rhoF; destruct ph; reflexivity. }
      clear HT. cbv zeta in HT'.
      destruct (qleb O bw (qsub O b a)) eqn:E1; [|destruct (qleb O ny y) eqn:E2].
      * eexists. split; [intros A kret kerr K; rewrite HD, HT'; reflexivity|].
        lk.
        unfold rhoF. destruct ph; repeat split; reflexivity.
      * eexists. split; [intros A kret kerr K; rewrite HD, HT'; reflexivity|].
        lk.
        unfold rhoF. destruct ph; repeat split; reflexivity.
      * eexists. split; [intros A kret kerr K; rewrite HD, HT'; reflexivity|].
        rewrite lookup_update_same. split; [reflexivity|].
        exists (mkl vcs vsh vspy vsmh vlb vrb (VNum a) (VNum b) (VNum ny)).
        unfold rhoF. destruct ph; reflexivity.
Qed.

(* ---- one iteration of the source against one unfolding of the model's avoid_loop *)
Definition l0 : Q := if outer then cbx else cbx + ml.
Definition r0 : Q := if outer then cbx + cbw else cbx + cbw - mr.
Definition MS : list shape := map sh_of shapes.

Lemma side_left t : String.eqb (side t) "left" = s_left (sh_of t).
Proof. unfold side. destruct (s_left (sh_of t)); reflexivity. Qed.
Lemma side_right t : String.eqb (side t) "right" = negb (s_left (sh_of t)).
Proof. unfold side. destruct (s_left (sh_of t)); reflexivity. Qed.

Lemma LBO_eq cs : LBO cs = left_bounds (map sh_of cs).
Proof.
  unfold LBO, left_bounds. rewrite (filter_map_comm sh_of s_left), map_map. rewrite (qadd_eq _ HO).
  f_equal. apply filter_ext. intros t. apply side_left.
Qed.
Lemma RBO_eq cs : RBO cs = right_bounds (map sh_of cs).
Proof.
  unfold RBO, right_bounds. rewrite (filter_map_comm sh_of (fun s => negb (s_left s))), map_map.
  f_equal. apply filter_ext. intros t. apply side_right.
Qed.
Lemma bnd_max l m : bnd true l m == fold_left Qmax l m.
Proof.
  unfold bnd, qmm. rewrite (qmax_eq _ HO). destruct l as [|q l]; [reflexivity|]. cbn [fold_left].
  apply (fold_max_swap l q m).
Qed.
Lemma bnd_min l m : bnd false l m == fold_left Qmin l m.
Proof.
  unfold bnd, qmm. rewrite (qmin_eq _ HO). destruct l as [|q l]; [reflexivity|]. cbn [fold_left].
  apply (fold_min_swap l q m).
Qed.
Lemma l0O_eq : l0O = l0.
Proof. unfold l0O, l0. now rewrite (qadd_eq _ HO). Qed.
Lemma r0O_eq : r0O = r0.
Proof. unfold r0O, r0. now rewrite (qadd_eq _ HO), (qsub_eq _ HO). Qed.
Lemma min_bottom_eq c0 cs :
  fold_left (qmm O false) (map bottomO cs) (bottomO c0) = min_bottom (sh_of c0) (map sh_of cs).
Proof.
  unfold min_bottom, qmm, bottomO, s_bottom. rewrite (qmin_eq _ HO), (qadd_eq _ HO), map_map. reflexivity.
Qed.

Lemma step_model f y :
  match src_stepO y with
  | Break y' a b => exists a' b', avoid_loop (S f) MS l0 r0 bw bh y = Some (y', a', b') /\ a == a' /\ b == b'
  | Continue ny => avoid_loop (S f) MS l0 r0 bw bh y = avoid_loop f MS l0 r0 bw bh ny
  end.
Proof.
  unfold src_stepO, colliding_at, MS. cbn [avoid_loop]. rewrite (filter_map_comm sh_of (collides y bh)).
  destruct (filter (fun t => collides y bh (sh_of t)) shapes) as [|c0 cs].
  - cbn [map]. exists l0, r0. rewrite l0O_eq, r0O_eq. repeat split; reflexivity.
  - rewrite min_bottom_eq. rewrite (qleb_eq _ HO), (qsub_eq _ HO).
    change (sh_of c0 :: map sh_of cs) with (map sh_of (c0 :: cs)). cbn [map].
    set (a := bnd true (LBO (c0 :: cs)) l0O). set (b := bnd false (RBO (c0 :: cs)) r0O).
    set (a' := band_left (map sh_of (c0 :: cs)) l0). set (b' := band_right (map sh_of (c0 :: cs)) r0).
    assert (Ea : a == a') by (unfold a, a', band_left; rewrite LBO_eq, l0O_eq; apply bnd_max).
    assert (Eb : b == b') by (unfold b, b', band_right; rewrite RBO_eq, r0O_eq; apply bnd_min).
    change (band_left (sh_of c0 :: map sh_of cs) l0) with a'.
    change (band_right (sh_of c0 :: map sh_of cs) r0) with b'.
    unfold Qlt_b. rewrite <- (Qle_bool_compat bw bw (b - a) (b' - a')) by (try reflexivity; now rewrite Ea, Eb).
    destruct (Qle_bool bw (b - a)); cbn [negb].
    + exists a', b'. repeat split; assumption.
    + destruct (Qle_bool (min_bottom (sh_of c0) (map sh_of cs)) y); cbn [negb]; [|reflexivity].
      exists a', b'. repeat split; assumption.
Qed.

(* ---- the whole loop *)
Definition final_ok (r : Q * Q * Q) (rho : env) : Prop :=
  let '(y, a', b') := r in
  lookup "position_y" rho = VNum y /\
  exists a b, lookup "max_left_bound" rho = VNum a /\ a == a' /\ lookup "max_right_bound" rho = VNum b /\ b == b'.

Lemma wloop_spec : forall f n y ph r, (f <= n)%nat ->
  avoid_loop f MS l0 r0 bw bh y = Some r ->
  exists rho_f, (forall A kret kerr (K : env -> A), wloop O A kret kerr K wbody n (envA (base_of y) ph) = K rho_f) /\
                final_ok r rho_f.
Proof.
  induction f as [|f IH]; intros n y ph r Hn Hav; [discriminate|].
  destruct n as [|n]; [lia|].
  destruct (iter_spec y ph) as (rho' & Hex & Hpost). unfold iter_post in Hpost.
  pose proof (step_model f y) as Hm.
  destruct (src_stepO y) as [y' a b|ny].
  - destruct Hpost as (Hf & Hy & Ha & Hb). destruct Hm as (a' & b' & Hav' & Ea & Eb).
    rewrite Hav' in Hav. injection Hav as <-.
    exists (update "%flow" VNone rho'). split.
    + intros A kret kerr K. cbn [wloop]. rewrite Hex, Hf. reflexivity.
    + unfold final_ok. rewrite !lookup_update_other by reflexivity. split; [exact Hy|].
      exists a, b. repeat split; assumption.
  - destruct Hpost as (Hf & lo & Hlo). rewrite Hm in Hav.
    destruct (IH n ny (Some lo) r) as (rho_f & Hw & Hfin); [lia|exact Hav|].
    exists rho_f. split; [|exact Hfin].
    intros A kret kerr K. cbn [wloop]. rewrite Hex, Hf. cbn [String.eqb Ascii.eqb Bool.eqb]. rewrite Hlo. apply Hw.
Qed.

(* ---- the regenerated loop computes the model's avoid_loop *)
Definition avoid_post (y0 : Q) (rho : env) (r : option val) : Prop :=
  r = None /\
  exists res, avoid_loop (S (List.length shapes)) MS l0 r0 bw bh y0 = Some res /\ final_ok res rho.

Definition init_env (y0 : Q) : env :=
  [("excluded_shapes", VList (map vshape shapes)); ("position_y", VNum y0); ("box_width", VNum bw);
   ("box_height", VNum bh); ("box", vbox); ("containing_block", vcb); ("outer", VBool outer)].

Theorem gen_avoid_loop_sec y0 : (List.length shapes < wfuel O)%nat ->
  run O avoid_loop_body (init_env y0) (avoid_post y0) (fun _ => False).
Proof.
  intros Hfuel.
  destruct (avoid_loop (S (List.length shapes)) MS l0 r0 bw bh y0) as [res|] eqn:Hav.
  2:{ exfalso. revert Hav. unfold MS. rewrite <- (map_length sh_of shapes).
      apply WV.proofs.C11_float.avoid_loop_terminates. }
  destruct (wloop_spec (S (List.length shapes)) (wfuel O) y0 None res Hfuel Hav) as (rho_f & Hw & Hfin).
  rewrite avoid_loop_body_eq, run_while_true.
  change (init_env y0) with (envA (base_of y0) None). rewrite Hw.
  assert (P : avoid_post y0 rho_f None).
  { split; [reflexivity|]. exists res. split; [exact Hav|exact Hfin]. }
  destruct (flowing rho_f); exact P.
Qed.
End Iter.
End Loop.
End Shapes.

(* ---- the statement in full: the `while True:` loop of avoid_collisions, as regenerated from float.py, run on the
   placed floats [shapes] from position_y = y0 ends by `break` (it falls off the end of the body: no return, no
   exception, no fuel exhaustion) and leaves in position_y / max_left_bound / max_right_bound the components of
   the model's avoid_loop, the bounds up to == (the source computes max(max(left_bounds), default) where the model
   folds Qmax from the default) *)
Definition loop_env T sh_of extra (shapes : list T) (y0 bw bh ml mr cbw : Q) xb xc (outer : bool) : env :=
  [("excluded_shapes", VList (map (vshape T sh_of extra) shapes)); ("position_y", VNum y0); ("box_width", VNum bw);
   ("box_height", VNum bh); ("box", vbox ml mr xb); ("containing_block", vcb cbw xc); ("outer", VBool outer)].
Definition loop_post (model : option (Q * Q * Q)) (rho : env) (r : option val) : Prop :=
  r = None /\
  exists y mlb mrb, model = Some (y, mlb, mrb) /\ lookup "position_y" rho = VNum y /\
    exists a b, lookup "max_left_bound" rho = VNum a /\ a == mlb /\ lookup "max_right_bound" rho = VNum b /\ b == mrb.

Theorem gen_avoid_loop T (sh_of : T -> shape) extra O (HO : ops_ok O)
    (HMH : forall t, ocall O ".margin_height" [vshape T sh_of extra t] = VNum (s_h (sh_of t)))
    (HMW : forall t, ocall O ".margin_width" [vshape T sh_of extra t] = VNum (s_w (sh_of t)))
    (shapes : list T) (bw bh ml mr cbw cbx : Q) xb xc (outer : bool)
    (HCB : ocall O ".content_box_x" [vcb cbw xc] = VNum cbx) (y0 : Q) :
  (List.length shapes < wfuel O)%nat ->
  run O avoid_loop_body (loop_env T sh_of extra shapes y0 bw bh ml mr cbw xb xc outer)
    (loop_post (avoid_loop (S (List.length shapes)) (map sh_of shapes)
                  (if outer then cbx else cbx + ml) (if outer then cbx + cbw else cbx + cbw - mr) bw bh y0))
    (fun _ => False).
Proof.
  intros Hfuel.
  pose proof (gen_avoid_loop_sec T sh_of extra O HO HMH HMW shapes bw bh ml mr cbw cbx xb xc outer HCB y0 Hfuel) as H.
  change (init_env T sh_of extra shapes bw bh ml mr cbw xb xc outer y0)
    with (loop_env T sh_of extra shapes y0 bw bh ml mr cbw xb xc outer) in H.
  rewrite WV.proofs.PyNatural.run_natural in *.
  destruct (WV.proofs.PyNatural.run_out O avoid_loop_body _) as [rho r|m]; [|exact H].
  destruct H as (Hr & [[y a'] b'] & Hav & Hy & a & b & Ha & Ea & Hb & Eb).
  split; [exact Hr|]. exists y, a', b'. split; [exact Hav|]. split; [exact Hy|].
  exists a, b. repeat split; assumption.
Qed.

(* termination of the real `while True:` and absence of exceptions: the run ends normally, off the end of the body *)
Corollary gen_avoid_loop_terminates T (sh_of : T -> shape) extra O (HO : ops_ok O)
    (HMH : forall t, ocall O ".margin_height" [vshape T sh_of extra t] = VNum (s_h (sh_of t)))
    (HMW : forall t, ocall O ".margin_width" [vshape T sh_of extra t] = VNum (s_w (sh_of t)))
    (shapes : list T) (bw bh ml mr cbw cbx : Q) xb xc (outer : bool)
    (HCB : ocall O ".content_box_x" [vcb cbw xc] = VNum cbx) (y0 : Q) :
  (List.length shapes < wfuel O)%nat ->
  (exists rho', WV.proofs.PyNatural.run_out O avoid_loop_body
                  (loop_env T sh_of extra shapes y0 bw bh ml mr cbw xb xc outer) = WV.proofs.PyNatural.ONorm rho' None) /\
  (forall m, WV.proofs.PyNatural.run_out O avoid_loop_body
               (loop_env T sh_of extra shapes y0 bw bh ml mr cbw xb xc outer) <> WV.proofs.PyNatural.OErr m).
Proof.
  intros Hfuel.
  destruct (WV.proofs.PyNatural.run_prop_outcome O avoid_loop_body _ _
              (gen_avoid_loop T sh_of extra O HO HMH HMW shapes bw bh ml mr cbw cbx xb xc outer HCB y0 Hfuel))
    as (rho' & r & Hout & Hr & _).
  subst r. split; [exists rho'; exact Hout|]. intros m. rewrite Hout. discriminate.
Qed.
Print Assumptions gen_avoid_loop.
Print Assumptions gen_avoid_loop_terminates.

(* ---- linked: margin_height / margin_width / content_box_x answered by the Box methods regenerated from
   formatting_structure/boxes.py (gen/GenBoxes.v), run by base/PyLink.v *)
Require Import WV.base.PyLink WV.gen.GenBoxes.

Record fdims := mk_fdims { d_w : Q; d_h : Q; d_pl : Q; d_pr : Q; d_pt : Q; d_pb : Q; d_bl : Q; d_br : Q; d_bt : Q;
                           d_bb : Q; d_ml : Q; d_mr : Q; d_mt : Q; d_mb : Q }.
Definition margin_width_of (d : fdims) : Q := d_w d + d_pl d + d_pr d + d_bl d + d_br d + d_ml d + d_mr d.
Definition margin_height_of (d : fdims) : Q := d_h d + d_pt d + d_pb d + d_bt d + d_bb d + d_mt d + d_mb d.
Definition dims_fields (d : fdims) : list (string * val) :=
  [("width", VNum (d_w d)); ("height", VNum (d_h d)); ("padding_left", VNum (d_pl d)); ("padding_right", VNum (d_pr d));
   ("padding_top", VNum (d_pt d)); ("padding_bottom", VNum (d_pb d)); ("border_left_width", VNum (d_bl d));
   ("border_right_width", VNum (d_br d)); ("border_top_width", VNum (d_bt d)); ("border_bottom_width", VNum (d_bb d));
   ("margin_left", VNum (d_ml d)); ("margin_right", VNum (d_mr d)); ("margin_top", VNum (d_mt d));
   ("margin_bottom", VNum (d_mb d))].
(* a placed float: side, position of its margin box, box dimensions *)
Record pfloat := mk_pfloat { pf_left : bool; pf_x : Q; pf_y : Q; pf_d : fdims }.
Definition pf_shape (p : pfloat) : shape :=
  mk_shape (pf_left p) (pf_x p) (pf_y p) (margin_width_of (pf_d p)) (margin_height_of (pf_d p)).
Definition pf_extra (p : pfloat) : list (string * val) := dims_fields (pf_d p).
(* the containing block: what content_box_x() and .width read *)
Record cblock := mk_cblock { cb_x : Q; cb_ml : Q; cb_pl : Q; cb_bl : Q; cb_w : Q }.
Definition content_box_x_of (c : cblock) : Q := cb_x c + cb_ml c + cb_pl c + cb_bl c.
Definition cb_fields (c : cblock) : list (string * val) :=
  [("position_x", VNum (cb_x c)); ("margin_left", VNum (cb_ml c)); ("padding_left", VNum (cb_pl c));
   ("border_left_width", VNum (cb_bl c))].

(* the linked operations, with any loop fuel N *)
Definition linkedN (n N : nat) : qops := with_fuel (linked GenBoxes_table (S (S (S n)))) N.
Lemma linkedN_ok n N : ops_ok (linkedN n N).
Proof. constructor; reflexivity. Qed.

Lemma margin_height_linked n N p :
  ocall (linkedN n N) ".margin_height" [vshape pfloat pf_shape pf_extra p] = VNum (margin_height_of (pf_d p)).
Proof. destruct p as [lf x y [w h pl pr pt pb bl br bt bb ml mr mt mb]]. destruct lf; lazy -[Qplus]; reflexivity. Qed.
Lemma margin_width_linked n N p :
  ocall (linkedN n N) ".margin_width" [vshape pfloat pf_shape pf_extra p] = VNum (margin_width_of (pf_d p)).
Proof. destruct p as [lf x y [w h pl pr pt pb bl br bt bb ml mr mt mb]]. destruct lf; lazy -[Qplus]; reflexivity. Qed.
Lemma content_box_x_linked n N c :
  ocall (linkedN n N) ".content_box_x" [vcb (cb_w c) (cb_fields c)] = VNum (content_box_x_of c).
Proof. destruct c as [x ml pl bl w]. lazy -[Qplus]. reflexivity. Qed.

Theorem gen_avoid_loop_linked n N (floats : list pfloat) (bw bh ml mr : Q) (c : cblock) xb (outer : bool) (y0 : Q) :
  (List.length floats < N)%nat ->
  run (linkedN n N) avoid_loop_body
    (loop_env pfloat pf_shape pf_extra floats y0 bw bh ml mr (cb_w c) xb (cb_fields c) outer)
    (loop_post (avoid_loop (S (List.length floats)) (map pf_shape floats)
                  (if outer then content_box_x_of c else content_box_x_of c + ml)
                  (if outer then content_box_x_of c + cb_w c else content_box_x_of c + cb_w c - mr) bw bh y0))
    (fun _ => False).
Proof.
  intros Hfuel.
  exact (gen_avoid_loop pfloat pf_shape pf_extra (linkedN n N) (linkedN_ok n N) (margin_height_linked n N)
           (margin_width_linked n N) floats bw bh ml mr (cb_w c) (content_box_x_of c) xb (cb_fields c) outer
           (content_box_x_linked n N c) y0 Hfuel).
Qed.
Print Assumptions gen_avoid_loop_linked.

(* the hypotheses are satisfiable and the loop really iterates: two stacked left floats 60 wide in a containing
   block 100 wide push a box 50 wide down twice (0 -> 10 -> 20) *)
Definition ex_dims (w h : Q) : fdims := mk_fdims w h 0 0 0 0 0 0 0 0 0 0 0 0.
Definition ex_floats : list pfloat := [mk_pfloat true 0 0 (ex_dims 60 10); mk_pfloat true 0 10 (ex_dims 60 10)].
Definition ex_cb : cblock := mk_cblock 0 0 0 0 100.
Definition ex_env : env :=
  loop_env pfloat pf_shape pf_extra ex_floats 0 50 5 0 0 (cb_w ex_cb) [] (cb_fields ex_cb) true.
Example ex_avoid_loop_iterates :
  exists rho, WV.proofs.PyNatural.run_out (linkedN 0 3) avoid_loop_body ex_env = WV.proofs.PyNatural.ONorm rho None /\
    lookup "position_y" rho = VNum 20 /\ lookup "max_left_bound" rho = VNum 0 /\
    lookup "max_right_bound" rho = VNum 100 /\
    avoid_loop 3 (map pf_shape ex_floats) 0 100 50 5 0 = Some (20, 0, 100).
Proof. eexists. split; [vm_compute; reflexivity|]. vm_compute. repeat split; reflexivity. Qed.
(* the fuel bound is tight: this run makes three iterations (List.length ex_floats + 1), and with fuel 2 the
   interpreter gives up *)
Example ex_fuel_bound_tight :
  WV.proofs.PyNatural.run_out (linkedN 0 2) avoid_loop_body ex_env = WV.proofs.PyNatural.OErr "FuelExhausted".
Proof. vm_compute. reflexivity. Qed.
