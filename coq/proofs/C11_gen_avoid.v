From Coq Require Import QArith Qminmax Lqa List String Bool Lia.
Require Import WV.base.Py WV.gen.GenFloat WV.model.C11Float.
Require Import WV.proofs.C11_gen_avoid_base.
Import ListNotations.
Open Scope string_scope.
Open Scope list_scope.
Open Scope Q_scope.

Definition wbody : list stmt := match avoid_loop_body with [SWhile _ b] => b | _ => [] end.
Definition st (i : nat) : stmt := nth i wbody SPass.
Definition for_body : list stmt := match st 1 with SFor _ _ b => b | _ => [] end.

Lemma avoid_loop_body_eq : avoid_loop_body = [SWhile (EConst (VBool true)) wbody].
Proof. reflexivity. Qed.
Lemma wbody_eq : wbody = [st 0; st 1; st 2; st 3; st 4; st 5; st 6; st 7; st 8].
Proof. reflexivity. Qed.
Lemma st1_eq : st 1 = SFor "shape" (EVar "excluded_shapes") for_body.
Proof. reflexivity. Qed.

(* ---- the shapes the environment goes through.  The seven parameters come first; the locals are bound in the
   order of their first assignment: colliding_shapes, shape, shape_position_y, shape_margin_height, left_bounds,
   right_bounds, max_left_bound, max_right_bound, [new_position_y], %flow *)
Record base := mkb { b_es : val; b_py : val; b_bw : val; b_bh : val; b_box : val; b_cb : val; b_outer : val }.
Inductive tail :=
| T0
| T1 (cs : val)
| T2 (cs sh spy smh : val)
| U3 (cs sh spy smh lb : val)
| U4 (cs sh spy smh lb rb : val)
| U5 (cs sh spy smh lb rb mlb : val)
| U6 (cs sh spy smh lb rb mlb mrb : val)
| U7 (cs sh spy smh lb rb mlb mrb fl : val)
| U8 (cs sh spy smh lb rb mlb mrb npy : val)
| U9 (cs sh spy smh lb rb mlb mrb npy fl : val).
Definition mk (b : base) (t : tail) : env :=
  [("excluded_shapes", b_es b); ("position_y", b_py b); ("box_width", b_bw b); ("box_height", b_bh b);
   ("box", b_box b); ("containing_block", b_cb b); ("outer", b_outer b)] ++
  match t with
  | T0 => []
  | T1 cs => [("colliding_shapes", cs)]
  | T2 cs sh spy smh => [("colliding_shapes", cs); ("shape", sh); ("shape_position_y", spy); ("shape_margin_height", smh)]
  | U3 cs sh spy smh lb =>
      [("colliding_shapes", cs); ("shape", sh); ("shape_position_y", spy); ("shape_margin_height", smh);
       ("left_bounds", lb)]
  | U4 cs sh spy smh lb rb =>
      [("colliding_shapes", cs); ("shape", sh); ("shape_position_y", spy); ("shape_margin_height", smh);
       ("left_bounds", lb); ("right_bounds", rb)]
  | U5 cs sh spy smh lb rb mlb =>
      [("colliding_shapes", cs); ("shape", sh); ("shape_position_y", spy); ("shape_margin_height", smh);
       ("left_bounds", lb); ("right_bounds", rb); ("max_left_bound", mlb)]
  | U6 cs sh spy smh lb rb mlb mrb =>
      [("colliding_shapes", cs); ("shape", sh); ("shape_position_y", spy); ("shape_margin_height", smh);
       ("left_bounds", lb); ("right_bounds", rb); ("max_left_bound", mlb); ("max_right_bound", mrb)]
  | U7 cs sh spy smh lb rb mlb mrb fl =>
      [("colliding_shapes", cs); ("shape", sh); ("shape_position_y", spy); ("shape_margin_height", smh);
       ("left_bounds", lb); ("right_bounds", rb); ("max_left_bound", mlb); ("max_right_bound", mrb); ("%flow", fl)]
  | U8 cs sh spy smh lb rb mlb mrb npy =>
      [("colliding_shapes", cs); ("shape", sh); ("shape_position_y", spy); ("shape_margin_height", smh);
       ("left_bounds", lb); ("right_bounds", rb); ("max_left_bound", mlb); ("max_right_bound", mrb);
       ("new_position_y", npy)]
  | U9 cs sh spy smh lb rb mlb mrb npy fl =>
      [("colliding_shapes", cs); ("shape", sh); ("shape_position_y", spy); ("shape_margin_height", smh);
       ("left_bounds", lb); ("right_bounds", rb); ("max_left_bound", mlb); ("max_right_bound", mrb);
       ("new_position_y", npy); ("%flow", fl)]
  end.

(* what an earlier iteration left in the locals (None: this is the first iteration) *)
Record left := mkl { l_cs : val; l_sh : val; l_spy : val; l_smh : val; l_lb : val; l_rb : val; l_mlb : val;
                     l_mrb : val; l_npy : val }.
Definition phase := option left.
Definition envA b (ph : phase) : env :=
  match ph with None => mk b T0
  | Some lo => mk b (U9 (l_cs lo) (l_sh lo) (l_spy lo) (l_smh lo) (l_lb lo) (l_rb lo) (l_mlb lo) (l_mrb lo) (l_npy lo) VNone) end.
Definition envB b (ph : phase) cs : env :=
  match ph with None => mk b (T1 cs)
  | Some lo => mk b (U9 cs (l_sh lo) (l_spy lo) (l_smh lo) (l_lb lo) (l_rb lo) (l_mlb lo) (l_mrb lo) (l_npy lo) VNone) end.
Definition envC b (ph : phase) cs sh spy smh : env :=
  match ph with None => mk b (T2 cs sh spy smh)
  | Some lo => mk b (U9 cs sh spy smh (l_lb lo) (l_rb lo) (l_mlb lo) (l_mrb lo) (l_npy lo) VNone) end.
Definition envD b (ph : phase) cs sh spy smh lb : env :=
  match ph with None => mk b (U3 cs sh spy smh lb)
  | Some lo => mk b (U9 cs sh spy smh lb (l_rb lo) (l_mlb lo) (l_mrb lo) (l_npy lo) VNone) end.
Definition envE b (ph : phase) cs sh spy smh lb rb : env :=
  match ph with None => mk b (U4 cs sh spy smh lb rb)
  | Some lo => mk b (U9 cs sh spy smh lb rb (l_mlb lo) (l_mrb lo) (l_npy lo) VNone) end.
Definition envF b (ph : phase) cs sh spy smh lb rb mlb mrb : env :=
  match ph with None => mk b (U6 cs sh spy smh lb rb mlb mrb)
  | Some lo => mk b (U9 cs sh spy smh lb rb mlb mrb (l_npy lo) VNone) end.
(* after `break` without having computed new_position_y *)
Definition envG b (ph : phase) cs sh spy smh lb rb mlb mrb fl : env :=
  match ph with None => mk b (U7 cs sh spy smh lb rb mlb mrb fl)
  | Some lo => mk b (U9 cs sh spy smh lb rb mlb mrb (l_npy lo) fl) end.

(* the statements of the loop body that contain list constructs, re-read through [reflexivity] *)
Definition side_cond (s : string) : expr :=
  ECmp (ESubscr (EAttr (EVar "shape") "style") "float") [(Eq, EConst (VStr s))].
Definition lb_elt : expr := EBin Add (EAttr (EVar "shape") "position_x") (ECall ".margin_width" [EVar "shape"]).
Definition rb_elt : expr := EAttr (EVar "shape") "position_x".
Definition comp_stmt (x : string) (elt : expr) (s : string) : stmt :=
  SAssign [TVar x] (EListComp elt "shape" (EVar "colliding_shapes") (Some (side_cond s))).
Lemma st2_eq : st 2 = comp_stmt "left_bounds" lb_elt "left".
Proof. reflexivity. Qed.
Lemma st3_eq : st 3 = comp_stmt "right_bounds" rb_elt "right".
Proof. reflexivity. Qed.

Definition blk7 : list stmt := match st 7 with SIf _ th _ => th | _ => [] end.
Definition i0 := nth 0 blk7 SPass.
Definition i1 := nth 1 blk7 SPass.
Definition i2 := nth 2 blk7 SPass.
Lemma st7_eq : st 7 = SIf (EOr (EVar "left_bounds") (EVar "right_bounds")) [i0; i1; i2] [].
Proof. reflexivity. Qed.
Lemma st8_eq : st 8 = SBreak.
Proof. reflexivity. Qed.
Definition bound_stmt (ismax : bool) (lb mb : string) : stmt :=
  SIf (EVar lb) [SAssign [TVar mb] (EGen ismax (EVar "_x") "_x" (ETuple [EGen ismax (EVar "_x") "_x" (EVar lb) None; EVar mb]) None)] [].
Lemma i0_eq : i0 = bound_stmt true "left_bounds" "max_left_bound".
Proof. reflexivity. Qed.
Lemma i1_eq : i1 = bound_stmt false "right_bounds" "max_right_bound".
Proof. reflexivity. Qed.
Definition npy_elt : expr := EBin Add (EAttr (EVar "shape") "position_y") (ECall ".margin_height" [EVar "shape"]).
Lemma i2_eq : i2 =
  SIf (ECmp (EVar "box_width") [(Gt, EBin Sub (EVar "max_right_bound") (EVar "max_left_bound"))])
    [SAssign [TVar "new_position_y"] (EGen false npy_elt "shape" (EVar "colliding_shapes") None);
     SIf (ECmp (EVar "new_position_y") [(Gt, EVar "position_y")])
       [SAssign [TVar "position_y"] (EVar "new_position_y"); SContinue] []] [].
Proof. reflexivity. Qed.


Section Shapes.
Variable T : Type.
Variable sh_of : T -> shape.
Variable extra : T -> list (string * val).
Definition vshape (t : T) : val :=
  VObj (("style", VObj [("float", VStr (if s_left (sh_of t) then "left" else "right"))]) ::
        ("position_x", VNum (s_x (sh_of t))) :: ("position_y", VNum (s_y (sh_of t))) :: extra t).

Section Loop.
Variable O : qops.
Hypothesis HO : ops_ok O.
Hypothesis HMH : forall t, ocall O ".margin_height" [vshape t] = VNum (s_h (sh_of t)).
Hypothesis HMW : forall t, ocall O ".margin_width" [vshape t] = VNum (s_w (sh_of t)).

Ltac unseal :=
  rewrite ?(qadd_eq _ HO), ?(qsub_eq _ HO), ?(qmul_eq _ HO), ?(qdiv_eq _ HO), ?(qmax_eq _ HO), ?(qmin_eq _ HO),
          ?(qleb_eq _ HO), ?(qeqb_eq _ HO) in *.
Ltac ev := lazy -[qadd qsub qmul qdiv qmax qmin qleb qeqb ocall Qplus Qminus Qmax Qmin Qle_bool Qeq_bool
                  s_left s_x s_y s_w s_h sh_of extra].

(* ---- the `for` loop: colliding_shapes = the shapes that pass the three-clause test, in order *)
Definition cs_step (y bh : Q) (a : list val) (t : T) : list val :=
  if collides y bh (sh_of t) then a ++ [vshape t] else a.

Lemma body_step A kret kerr ves y vbw bh vbox vcb vout ph a vsh vspy vsmh t (k : env -> A) :
  let b := mkb ves (VNum y) vbw (VNum bh) vbox vcb vout in
  (exec_block O A kret kerr for_body (update "shape" (vshape t) (envB b ph (VList a))) k =
   k (envC b ph (VList (cs_step y bh a t)) (vshape t) (VNum (s_y (sh_of t))) (VNum (s_h (sh_of t))))) /\
  (exec_block O A kret kerr for_body (update "shape" (vshape t) (envC b ph (VList a) vsh vspy vsmh)) k =
   k (envC b ph (VList (cs_step y bh a t)) (vshape t) (VNum (s_y (sh_of t))) (VNum (s_h (sh_of t))))).
Proof.
  pose proof (HMH t) as Hm. unfold cs_step, collides, Qlt_b, s_bottom. unfold vshape in Hm |- *. set (X := extra t) in *. clearbody X.
  destruct (sh_of t) as [sl sx sy sw sh0]. cbn [s_left s_x s_y s_w s_h] in *.
  destruct ph as [[? ? ? ? ? ? ? ? ?]|]; (split;
    unfold for_body, st, wbody, avoid_loop_body, envB, envC, mk; cbn [nth app b_es b_py b_bw b_bh b_box b_cb b_outer];
    ev; rewrite ?Hm; ev; unseal;
    repeat match goal with |- context [Qle_bool ?a ?b] => destruct (Qle_bool a b) eqn:? end;
    cbn [negb andb orb]; reflexivity).
Qed.

Lemma cs_fold y bh l : forall a,
  fold_left (cs_step y bh) l a = a ++ map vshape (filter (fun t => collides y bh (sh_of t)) l).
Proof.
  induction l as [|t l IH]; intros a; cbn [fold_left filter map]; [now rewrite app_nil_r|].
  rewrite IH. unfold cs_step. destruct (collides y bh (sh_of t)); [|reflexivity].
  cbn [map]. now rewrite <- app_assoc.
Qed.

Lemma loop_spec ves y vbw bh vbox vcb vout ph : forall (l : list T) a vsh vspy vsmh,
  let b := mkb ves (VNum y) vbw (VNum bh) vbox vcb vout in
  exists vsh' vspy' vsmh', forall A kret kerr (k : env -> A),
    gen_iter (fun v rho k' => exec_block O A kret kerr for_body (update "shape" v rho) k') (map vshape l)
             (envC b ph (VList a) vsh vspy vsmh) k =
    k (envC b ph (VList (fold_left (cs_step y bh) l a)) vsh' vspy' vsmh').
Proof.
  induction l as [|t l IH]; intros a vsh vspy vsmh b.
  - exists vsh, vspy, vsmh. reflexivity.
  - destruct (IH (cs_step y bh a t) (vshape t) (VNum (s_y (sh_of t))) (VNum (s_h (sh_of t)))) as (v1 & v2 & v3 & H).
    exists v1, v2, v3. intros A kret kerr k. cbn [map gen_iter fold_left].
    rewrite (proj2 (body_step A kret kerr ves y vbw bh vbox vcb vout ph a vsh vspy vsmh t _)). apply H.
Qed.

Lemma st0_spec A kret kerr b ph (k : env -> A) :
  exec O A kret kerr (st 0) (envA b ph) k = k (envB b ph (VList [])).
Proof. destruct ph; reflexivity. Qed.

Lemma st1_spec y vbw bh vbox vcb vout ph t0 l :
  let b := mkb (VList (map vshape (t0 :: l))) (VNum y) vbw (VNum bh) vbox vcb vout in
  exists vsh vspy vsmh, forall A kret kerr (k : env -> A),
    exec O A kret kerr (st 1) (envB b ph (VList [])) k =
    k (envC b ph (VList (map vshape (filter (fun t => collides y bh (sh_of t)) (t0 :: l)))) vsh vspy vsmh).
Proof.
  intros b. subst b.
  destruct (loop_spec (VList (map vshape (t0 :: l))) y vbw bh vbox vcb vout ph l (cs_step y bh [] t0)
              (vshape t0) (VNum (s_y (sh_of t0))) (VNum (s_h (sh_of t0)))) as (v1 & v2 & v3 & H).
  exists v1, v2, v3. intros A kret kerr k.
  rewrite st1_eq, (exec_for O A kret kerr "shape" "excluded_shapes" for_body _ k (map vshape (t0 :: l)))
    by (destruct ph; reflexivity).
  cbn [map gen_iter].
  rewrite (proj1 (body_step A kret kerr _ y vbw bh vbox vcb vout ph [] VNone VNone VNone t0 _)).
  rewrite H.
  change (fold_left (cs_step y bh) l (cs_step y bh [] t0)) with (fold_left (cs_step y bh) (t0 :: l) []).
  now rewrite cs_fold.
Qed.

(* ---- the comprehensions left_bounds / right_bounds *)
Definition side (t : T) : string := if s_left (sh_of t) then "left" else "right".

Lemma side_cond_spec R err rho t s (kk : val -> R) :
  eval O R err (update "shape" (vshape t) rho) (side_cond s) kk = kk (VBool (String.eqb (side t) s)).
Proof.
  unfold side_cond. cbn [eval]. rewrite lookup_update_same. unfold vshape, side.
  cbn [lookup String.eqb Ascii.eqb Bool.eqb cmp_k veq_k].
  destruct (String.eqb (if s_left (sh_of t) then "left" else "right") s); reflexivity.
Qed.

Lemma comp_spec A kret kerr rho x elt s (g : T -> Q) CS (k : env -> A) :
  lookup "colliding_shapes" rho = VList (map vshape CS) ->
  (forall t kk, eval O A kerr (update "shape" (vshape t) rho) elt kk = kk (VNum (g t))) ->
  exec O A kret kerr (comp_stmt x elt s) rho k =
  k (update x (VList (map VNum (map g (filter (fun t => String.eqb (side t) s) CS)))) rho).
Proof.
  intros Hcs He. unfold comp_stmt. cbn [exec].
  rewrite (eval_listcomp O A kerr rho elt "shape" "colliding_shapes" (side_cond s) _ (map vshape CS) Hcs).
  rewrite (gen_collect_fm _ vshape (fun t => String.eqb (side t) s) (fun t => VNum (g t))).
  - cbn [rev app fold_left assign1]. now rewrite map_map.
  - intros t kk. rewrite side_cond_spec. cbn [bool_k]. destruct (String.eqb (side t) s); [apply He|reflexivity].
Qed.

Lemma lb_elt_spec R err rho t (kk : val -> R) :
  eval O R err (update "shape" (vshape t) rho) lb_elt kk = kk (VNum (qadd O (s_x (sh_of t)) (s_w (sh_of t)))).
Proof.
  unfold lb_elt. cbn [eval]. rewrite lookup_update_same.
  pose proof (HMW t) as Hm. unfold vshape in Hm |- *. cbn [lookup String.eqb Ascii.eqb Bool.eqb rev app].
  rewrite Hm. reflexivity.
Qed.
Lemma rb_elt_spec R err rho t (kk : val -> R) :
  eval O R err (update "shape" (vshape t) rho) rb_elt kk = kk (VNum (s_x (sh_of t))).
Proof. unfold rb_elt. cbn [eval]. rewrite lookup_update_same. reflexivity. Qed.
Lemma npy_elt_spec R err rho t (kk : val -> R) :
  eval O R err (update "shape" (vshape t) rho) npy_elt kk = kk (VNum (qadd O (s_y (sh_of t)) (s_h (sh_of t)))).
Proof.
  unfold npy_elt. cbn [eval]. rewrite lookup_update_same.
  pose proof (HMH t) as Hm. unfold vshape in Hm |- *. cbn [lookup String.eqb Ascii.eqb Bool.eqb rev app].
  rewrite Hm. reflexivity.
Qed.

(* ---- `if xs: m = max(max(xs), m)` and its min twin *)
Definition bnd (ismax : bool) (l : list Q) (m : Q) : Q :=
  match l with [] => m | q0 :: l' => qmm O ismax (fold_left (qmm O ismax) l' q0) m end.

Lemma update_id k v rho : lookup k rho = v -> (forall m, v <> VErr m) -> update k v rho = rho.
Proof.
  intros H N. induction rho as [|[k0 v0] r IH]; simpl in *.
  - exfalso. exact (N _ (eq_sym H)).
  - destruct (String.eqb k k0) eqn:E; [apply String.eqb_eq in E; subst; reflexivity|].
    now rewrite IH.
Qed.

Lemma bound_spec A kret kerr ismax lb mb rho (k : env -> A) LB m :
  lookup lb rho = VList (map VNum LB) -> lookup mb rho = VNum m ->
  exec O A kret kerr (bound_stmt ismax lb mb) rho k = k (update mb (VNum (bnd ismax LB m)) rho).
Proof.
  intros Hl Hm. unfold bound_stmt. rewrite exec_if. cbn [eval]. rewrite Hl.
  destruct LB as [|q0 LB']; cbn [map bool_k bnd].
  { rewrite update_id; [reflexivity|exact Hm|discriminate]. }
  rewrite exec_block_cons. cbn [exec].
  rewrite (eval_gen_pair O A kerr ismax rho "_x" _ _ _ (VNum (fold_left (qmm O ismax) LB' q0)) (VNum m)).
  - cbn [minmax_k fold_left assign1]. destruct (flowing _); reflexivity.
  - intros k'. now apply eval_gen_var.
  - intros k'. cbn [eval]. now rewrite Hm.
Qed.

(* ---- `if box_width > max_right_bound - max_left_bound:` *)
Definition bottomO (t : T) : Q := qadd O (s_y (sh_of t)) (s_h (sh_of t)).
Lemma flowing_set f rho : flowing (update "%flow" (VStr f) rho) = true.
Proof. unfold flowing. now rewrite lookup_update_same. Qed.

Lemma i2_spec A kret kerr rho (k : env -> A) bw a b y c0 CS :
  lookup "box_width" rho = VNum bw -> lookup "max_right_bound" rho = VNum b -> lookup "max_left_bound" rho = VNum a ->
  lookup "colliding_shapes" rho = VList (map vshape (c0 :: CS)) -> lookup "position_y" rho = VNum y ->
  flowing rho = false ->
  exec O A kret kerr i2 rho k =
  if qleb O bw (qsub O b a) then k rho
  else let ny := fold_left (qmm O false) (map bottomO CS) (bottomO c0) in
       let rho1 := update "new_position_y" (VNum ny) rho in
       if qleb O ny y then k rho1
       else k (update "%flow" (VStr "continue") (update "position_y" (VNum ny) rho1)).
Proof.
  intros Hbw Hb Ha Hcs Hy Hfl. rewrite i2_eq, exec_if. cbn [eval]. rewrite Hbw, Hb, Ha. cbn [arith_k cmp_k].
  destruct (qleb O bw (qsub O b a)); [reflexivity|].
  rewrite exec_block_cons. cbn [exec].
  rewrite (eval_gen_map O A kerr false rho "shape" "colliding_shapes" npy_elt _ vshape bottomO c0 CS Hcs);
    [|intros t kk; apply npy_elt_spec].
  cbn [fold_left assign1]. cbv zeta.
  rewrite flowing_update_other, Hfl by reflexivity.
  rewrite exec_block_cons, exec_if. cbn [eval]. rewrite lookup_update_same.
  rewrite lookup_update_other, Hy by reflexivity. cbn [cmp_k].
  destruct (qleb O _ y); cbn [bool_k].
  { rewrite exec_block_nil, flowing_update_other, Hfl by reflexivity. reflexivity. }
  rewrite exec_block_cons. cbn [exec eval fold_left assign1]. rewrite lookup_update_same.
  rewrite !flowing_update_other, Hfl by reflexivity.
  rewrite exec_block_cons. cbn [exec]. rewrite !flowing_set. reflexivity.
Qed.

(* ---- the end of the body: `if left_bounds or right_bounds: ...` and `break` *)
Lemma tail_spec A kret kerr rho (k : env -> A) LB RB bw a0 b0 y c0 CS :
  lookup "left_bounds" rho = VList (map VNum LB) -> lookup "right_bounds" rho = VList (map VNum RB) ->
  lookup "box_width" rho = VNum bw -> lookup "max_right_bound" rho = VNum b0 -> lookup "max_left_bound" rho = VNum a0 ->
  lookup "colliding_shapes" rho = VList (map vshape (c0 :: CS)) -> lookup "position_y" rho = VNum y ->
  flowing rho = false -> (LB <> [] \/ RB <> []) ->
  exec_block O A kret kerr [st 7; st 8] rho k =
  let a := bnd true LB a0 in
  let b := bnd false RB b0 in
  let rhob := update "max_right_bound" (VNum b) (update "max_left_bound" (VNum a) rho) in
  if qleb O bw (qsub O b a) then k (update "%flow" (VStr "break") rhob)
  else let ny := fold_left (qmm O false) (map bottomO CS) (bottomO c0) in
       let rho1 := update "new_position_y" (VNum ny) rhob in
       if qleb O ny y then k (update "%flow" (VStr "break") rho1)
       else k (update "%flow" (VStr "continue") (update "position_y" (VNum ny) rho1)).
Proof.
  intros Hlb Hrb Hbw Hb Ha Hcs Hy Hfl Hne. cbv zeta.
  set (a := bnd true LB a0). set (b := bnd false RB b0).
  set (rhoa := update "max_left_bound" (VNum a) rho).
  set (rhob := update "max_right_bound" (VNum b) rhoa).
  assert (Hfb : flowing rhob = false).
  { unfold rhob, rhoa. now rewrite !flowing_update_other by reflexivity. }
  assert (Hblk : forall kk : env -> A,
    exec_block O A kret kerr [i0; i1; i2] rho kk =
    if qleb O bw (qsub O b a) then kk rhob
    else let ny := fold_left (qmm O false) (map bottomO CS) (bottomO c0) in
         let rho1 := update "new_position_y" (VNum ny) rhob in
         if qleb O ny y then kk rho1
         else kk (update "%flow" (VStr "continue") (update "position_y" (VNum ny) rho1))).
  { intros kk.
    rewrite exec_block_cons, i0_eq, (bound_spec A kret kerr true "left_bounds" "max_left_bound" rho _ LB a0 Hlb Ha).
    fold a. fold rhoa. replace (flowing rhoa) with false
      by (unfold rhoa; now rewrite flowing_update_other by reflexivity).
    rewrite exec_block_cons, i1_eq, (bound_spec A kret kerr false "right_bounds" "max_right_bound" rhoa _ RB b0)
      by (unfold rhoa; rewrite lookup_update_other by reflexivity; assumption).
    fold b. fold rhob. rewrite Hfb.
    assert (L : forall x v, String.eqb x "max_right_bound" = false -> String.eqb x "max_left_bound" = false ->
                lookup x rho = v -> lookup x rhob = v).
    { intros x v N1 N2 Hx. unfold rhob, rhoa. now rewrite !lookup_update_other by assumption. }
    assert (Lb : lookup "max_right_bound" rhob = VNum b) by apply lookup_update_same.
    assert (La : lookup "max_left_bound" rhob = VNum a)
      by (unfold rhob; rewrite lookup_update_other by reflexivity; apply lookup_update_same).
    rewrite exec_block_cons, (i2_spec A kret kerr rhob _ bw a b y c0 CS (L "box_width" _ eq_refl eq_refl Hbw)
      Lb La
      (L "colliding_shapes" _ eq_refl eq_refl Hcs) (L "position_y" _ eq_refl eq_refl Hy) Hfb).
    cbv zeta. rewrite exec_block_nil.
    destruct (qleb O bw (qsub O b a)); [now rewrite Hfb|].
    destruct (qleb O _ y).
    - now rewrite flowing_update_other, Hfb by reflexivity.
    - now rewrite flowing_set. }
  rewrite exec_block_cons, st7_eq, exec_if. cbn [eval]. rewrite Hlb, Hrb.
  transitivity (exec_block O A kret kerr [i0; i1; i2] rho
       (fun rho' => if flowing rho' then k rho' else exec_block O A kret kerr [st 8] rho' k)).
  { destruct LB as [|q LB]; [|reflexivity]. destruct RB as [|q RB]; [destruct Hne; congruence|reflexivity]. }
  rewrite Hblk. cbv beta zeta. rewrite st8_eq.
  destruct (qleb O bw (qsub O b a)).
  { rewrite Hfb, exec_block_cons. cbn [exec]. now rewrite flowing_set. }
  destruct (qleb O _ y).
  - rewrite flowing_update_other, Hfb, exec_block_cons by reflexivity. cbn [exec]. now rewrite flowing_set.
  - now rewrite flowing_set.
Qed.

(* nothing collides: both lists are empty, the `if` is skipped *)
Lemma tail_empty A kret kerr rho (k : env -> A) :
  lookup "left_bounds" rho = VList [] -> lookup "right_bounds" rho = VList [] -> flowing rho = false ->
  exec_block O A kret kerr [st 7; st 8] rho k = k (update "%flow" (VStr "break") rho).
Proof.
  intros Hlb Hrb Hfl. rewrite exec_block_cons, st7_eq, exec_if. cbn [eval]. rewrite Hlb. cbn [bool_k].
  rewrite Hrb. cbn [bool_k]. rewrite exec_block_nil, Hfl, exec_block_cons, st8_eq. cbn [exec].
  now rewrite flowing_set.
Qed.


(* ---- one iteration of the `while True:` body *)
Section Iter.
Variables (shapes : list T) (bw bh ml mr cbw cbx : Q) (xb xc : list (string * val)) (outer : bool).
Definition vbox : val := VObj (("margin_left", VNum ml) :: ("margin_right", VNum mr) :: xb).
Definition vcb : val := VObj (("width", VNum cbw) :: xc).
Hypothesis HCB : ocall O ".content_box_x" [vcb] = VNum cbx.

Definition base_of (y : Q) : base :=
  mkb (VList (map vshape shapes)) (VNum y) (VNum bw) (VNum bh) vbox vcb (VBool outer).
Definition l0O : Q := if outer then cbx else qadd O cbx ml.
Definition r0O : Q := if outer then qadd O cbx cbw else qsub O (qadd O cbx cbw) mr.

Lemma defaults_spec A kret kerr y ph cs sh spy smh lb rb rest (k : env -> A) :
  exec_block O A kret kerr (st 4 :: st 5 :: st 6 :: rest) (envE (base_of y) ph cs sh spy smh lb rb) k =
  exec_block O A kret kerr rest (envF (base_of y) ph cs sh spy smh lb rb (VNum l0O) (VNum r0O)) k.
Proof.
  pose proof HCB as Hc. unfold vcb in Hc. unfold l0O, r0O, base_of, vbox, vcb.
  destruct ph as [[? ? ? ? ? ? ? ? ?]|], outer;
    unfold st, wbody, avoid_loop_body, envE, envF, mk; cbn [nth app b_es b_py b_bw b_bh b_box b_cb b_outer];
    ev; rewrite ?Hc; ev; rewrite ?Hc; ev; reflexivity.
Qed.
End Iter.
End Loop.
End Shapes.
