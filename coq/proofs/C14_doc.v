(* C14: selector lists of @page rules - proofs about model/C14Doc.v (what preprocess_stylesheet registers for
   `@page A, B, ... { declarations; @top-left { declarations } }`) *)
From Coq Require Import ZArith List String Bool Lia.
Require Import WV.model.C14Page WV.model.C14Pages WV.model.C14Doc WV.proofs.C14_page.
Import ListNotations.
Open Scope string_scope.
Open Scope list_scope.
Open Scope Z_scope.

Definition parsable (sels : list (option string * list pseudo)) : Prop :=
  forall s, In s sels -> parse_selector (fst s) (snd s) <> None.

Lemma parsable_forallb sels : parsable sels ->
  forallb (fun p : option (selector * spec3) => match p with Some _ => true | None => false end)
          (map (fun s => parse_selector (fst s) (snd s)) sels) = true.
Proof.
  intros H. apply forallb_forall. intros p Hp. apply in_map_iff in Hp. destruct Hp as [s [E Hs]].
  subst p. specialize (H s Hs). destruct (parse_selector (fst s) (snd s)); [reflexivity|congruence].
Qed.

(* A page matched through the k-th selector of the list, whatever k, receives every page-level declaration of
   the body and every declaration of the body's margin box, with that selector's specificity. *)
Theorem selector_list_body_uniform sels ds mds (k : nat) name ps sel sp pt n v imp :
  parsable sels ->
  nth_error sels k = Some (name, ps) -> parse_selector name ps = Some (sel, sp) -> match_spec sel pt ->
  (In (n, v, imp) ds ->
     In ((None, n), (v, (precedence Author imp, sp))) (page_updates (doc_sheets [(sels, ds, mds)]) pt)) /\
  (In (n, v, imp) mds ->
     In ((Some "@top-left", n), (v, (precedence Author imp, sp))) (page_updates (doc_sheets [(sels, ds, mds)]) pt)).
Proof.
  intros Hp Hk Hparse Hm. apply page_type_match_iff in Hm.
  unfold page_updates, doc_sheets. cbn [flat_map]. rewrite !app_nil_r. unfold sheet_updates.
  unfold rule_entries. rewrite (parsable_forallb sels Hp).
  assert (Hin : In (Some (sel, sp)) (map (fun s => parse_selector (fst s) (snd s)) sels)).
  { apply in_map_iff. exists (name, ps). split; [exact Hparse|]. eapply nth_error_In; exact Hk. }
  split; intros Hd.
  - apply in_flat_map. exists ([(sp, None, sel)], ds). split.
    + apply in_flat_map. exists (Some (sel, sp)). split; [exact Hin|].
      apply in_or_app. left. destruct ds; [contradiction|]. now left.
    + unfold rule_updates. cbn [fst snd flat_map]. rewrite Hm, app_nil_r.
      unfold decl_updates. apply in_map_iff. exists (n, v, imp). split; [reflexivity|exact Hd].
  - apply in_flat_map. exists ([(sp, Some "@top-left", sel)], mds). split.
    + apply in_flat_map. exists (Some (sel, sp)). split; [exact Hin|].
      apply in_or_app. right. destruct mds; [contradiction|]. now left.
    + unfold rule_updates. cbn [fst snd flat_map]. rewrite Hm, app_nil_r.
      unfold decl_updates. apply in_map_iff. exists (n, v, imp). split; [reflexivity|exact Hd].
Qed.

(* ... and nothing else: every update the rule contributes is a declaration of the body (or of its margin box)
   registered for a selector of the list that matches the page *)
Theorem selector_list_body_only sels ds mds pt e :
  In e (page_updates (doc_sheets [(sels, ds, mds)]) pt) ->
  exists name ps sel sp n v imp,
    In (name, ps) sels /\ parse_selector name ps = Some (sel, sp) /\ match_spec sel pt /\
    ((In (n, v, imp) ds /\ e = ((None, n), (v, (precedence Author imp, sp)))) \/
     (In (n, v, imp) mds /\ e = ((Some "@top-left", n), (v, (precedence Author imp, sp))))).
Proof.
  unfold page_updates, doc_sheets. cbn [flat_map]. rewrite !app_nil_r. unfold sheet_updates, rule_entries.
  destruct (forallb _ _); [|intros []].
  intros H. apply in_flat_map in H. destruct H as [r [Hr He]].
  apply in_flat_map in Hr. destruct Hr as [p [Hp Hr]].
  apply in_map_iff in Hp. destruct Hp as [[name ps] [Ep Hs]]. simpl in Ep.
  destruct p as [[sel sp]|]; [|contradiction].
  apply in_app_or in Hr.
  destruct Hr as [Hr|Hr]; [destruct ds as [|d0 ds']; [contradiction|]|destruct mds as [|d0 mds']; [contradiction|]];
    destruct Hr as [Hr|[]]; subst r; unfold rule_updates in He; cbn [fst snd flat_map] in He; rewrite app_nil_r in He;
    destruct (page_type_match sel pt) eqn:M; try contradiction;
    unfold decl_updates in He; apply in_map_iff in He; destruct He as [[[n v] imp] [E Hd]];
    exists name, ps, sel, sp, n, v, imp; (split; [exact Hs|]); (split; [exact Ep|]);
    (split; [now apply page_type_match_iff|]); [left|right]; (split; [exact Hd|now symmetry]).
Qed.

Example selector_list_example :
  let r := ([(None, [PFirst]); (None, [PLeft])], [("margin_left", 50, false)], [("content", 7, false)]) in
  doc_model (doc_sheets [r]) (20, 20) None [mkPT SRight false "" 0 []; mkPT SLeft false "" 1 []; mkPT SRight false "" 2 []]
  = [(50, 20, 7, Some 1); (50, 20, 7, Some 2); (20, 20, 0, Some 3)] /\
  doc_spec [r] (20, 20) None [mkPT SRight false "" 0 []; mkPT SLeft false "" 1 []; mkPT SRight false "" 2 []]
  = [(50, 20, 7, Some 1); (50, 20, 7, Some 2); (20, 20, 0, Some 3)].
Proof. vm_compute. split; reflexivity. Qed.
