(* C07 - proofs about validate_non_shorthand and the expanders (model/C07Expand.v). *)
From Coq Require Import ZArith QArith List Bool String Ascii Lia Permutation.
Require Import WV.model.C07Tok WV.model.C07Decl WV.model.C07Expand.
Import ListNotations.
Open Scope string_scope.

Lemma str_in_In s l : str_in s l = true <-> In s l.
Proof.
  unfold str_in. rewrite existsb_exists. split.
  - intros [x [Hx He]]. apply String.eqb_eq in He. now subst.
  - intro H. exists s. split; auto. apply String.eqb_refl.
Qed.

Section ExpandProofs.
  Variable V0 : Type.
  Variable known supported : string -> bool.
  Variable prop_validator : string -> list tok -> option V0.

  Notation value := (value V0).
  Notation vns := (validate_non_shorthand V0 known supported prop_validator).
  Notation vns1 := (vns1 V0 known supported prop_validator).
  Notation validate_each := (validate_each V0 known supported prop_validator).
  Notation expand_four_sides := (expand_four_sides V0 known supported prop_validator).
  Notation generic_expander := (generic_expander V0 known supported prop_validator).
  Notation emit := (emit V0 known supported prop_validator).

  (* ------------------------------------------------------------------ validate_non_shorthand *)
  Theorem vns_custom_property tokens name required :
    prefix "--" name = true -> vns tokens name required = Ok [(name, VRaw tokens)].
  Proof. intro H. unfold validate_non_shorthand. now rewrite H. Qed.

  Theorem vns_var_is_pending tokens name required :
    prefix "--" name = false -> known name = true -> supported name = true -> any_var tokens = true ->
    vns tokens name required = Ok [(name, VPendingProp tokens name)].
  Proof.
    intros H0 H1 H2 H3. unfold validate_non_shorthand. rewrite H0, H1, H2, H3.
    rewrite !andb_false_r. reflexivity.
  Qed.

  Lemma vns_required_agrees tokens name :
    known name = true -> supported name = true -> vns tokens name true = vns tokens name false.
  Proof. intros H1 H2. unfold validate_non_shorthand. rewrite H1, H2. reflexivity. Qed.

  Lemma vns_singleton tokens name required l :
    vns tokens name required = Ok l -> exists v, l = [(name, v)].
  Proof.
    unfold validate_non_shorthand.
    destruct (prefix "--" name). { intro H; inversion H; eauto. }
    destruct (negb required && negb (known name)); try discriminate.
    destruct (negb required && negb (supported name)); try discriminate.
    destruct (negb (supported name)); try discriminate.
    destruct (any_var tokens). { intro H; inversion H; eauto. }
    destruct (single_kw_in tokens _). { intro H; inversion H; eauto. }
    destruct (prop_validator name tokens); try discriminate. intro H; inversion H; eauto.
  Qed.

  Lemma vns1_ok tokens name nv :
    vns1 tokens name = Ok nv -> vns tokens name true = Ok [nv] /\ fst nv = name.
  Proof.
    unfold C07Decl.vns1, bind. destruct (vns tokens name true) as [l| |] eqn:E; try discriminate.
    destruct (vns_singleton _ _ _ _ E) as [v ->]. intro H. inversion H. subst. auto.
  Qed.

  Lemma validate_each_ok l out :
    validate_each l = Ok out -> Forall2 (fun nv nt => vns (snd nt) (fst nt) true = Ok [nv] /\ fst nv = fst nt) out l.
  Proof.
    revert out. induction l as [|[n ts] l IH]; intros out H; simpl in H.
    - inversion H. constructor.
    - unfold bind in H. destruct (vns1 ts n) as [nv| |] eqn:E; try discriminate.
      destruct (validate_each l) as [rest| |] eqn:E2; try discriminate.
      inversion H; subst. constructor; auto. apply vns1_ok in E. exact E.
  Qed.

  (* ------------------------------------------------------------------ expand_four_sides *)
  Lemma four_tokens_is_spec {A} (ts : list A) :
    four_tokens ts = match four_spec ts with Some (a, b, c, d) => Some [a; b; c; d] | None => None end.
  Proof.
    destruct ts as [|a [|b [|c [|d [|e r]]]]]; reflexivity.
  Qed.

  Lemma four_tokens_checked_plain tokens :
    (List.length tokens = 1%nat \/ has_wide_keyword tokens = false) -> four_tokens_checked tokens = four_tokens tokens.
  Proof.
    intros [H|H]; unfold four_tokens_checked.
    - destruct tokens as [|a [|b r]]; try discriminate; reflexivity.
    - rewrite H. destruct tokens as [|a [|b r]]; reflexivity.
  Qed.

  Theorem four_sides_rule tokens name :
    any_var tokens = false -> (List.length tokens = 1%nat \/ has_wide_keyword tokens = false) ->
    expand_four_sides tokens name =
    match four_spec tokens with
    | None => Invalid
    | Some (top, right_, bottom, left_) =>
        validate_each (combine (four_names name) [[top]; [right_]; [bottom]; [left_]])
    end.
  Proof.
    intros H W. unfold C07Expand.expand_four_sides. rewrite H, (four_tokens_checked_plain _ W), four_tokens_is_spec.
    destruct (four_spec tokens) as [[[[a b] c] d]|]; reflexivity.
  Qed.

  (* inherit / initial among several components: the declaration is invalid (css-cascade 7.3) *)
  Theorem wide_keyword_only_alone tokens name :
    any_var tokens = false -> (2 <= List.length tokens)%nat -> has_wide_keyword tokens = true ->
    expand_four_sides tokens name = Invalid.
  Proof.
    intros H L W. unfold C07Expand.expand_four_sides, four_tokens_checked. rewrite H, W.
    destruct tokens as [|a [|b r]]; simpl in L; try lia; reflexivity.
  Qed.

  Theorem four_sides_count (tokens : list tok) :
    four_spec tokens = None <-> (List.length tokens = 0 \/ 4 < List.length tokens)%nat.
  Proof.
    destruct tokens as [|a [|b [|c [|d [|e r]]]]]; simpl; split; intro H; try discriminate; try lia; auto.
  Qed.

  Theorem four_sides_var_is_pending tokens name :
    any_var tokens = true ->
    expand_four_sides tokens name = Ok (map (fun n => (n, VPendingExp tokens name)) (four_names name)).
  Proof. intro H. unfold C07Expand.expand_four_sides. now rewrite H. Qed.

  (* what the shorthand yields is what the four longhand declarations yield *)
  Theorem four_sides_equals_longhands tokens name top right_ bottom left_ out :
    any_var tokens = false -> (List.length tokens = 1%nat \/ has_wide_keyword tokens = false) ->
    four_spec tokens = Some (top, right_, bottom, left_) ->
    Forall (fun n => known n = true /\ supported n = true) (four_names name) ->
    expand_four_sides tokens name = Ok out ->
    Forall2 (fun nv nt => vns [snd nt] (fst nt) false = Ok [nv])
            out (combine (four_names name) [top; right_; bottom; left_]).
  Proof.
    intros Hv Hw Hs Hk H. rewrite four_sides_rule, Hs in H by assumption.
    apply validate_each_ok in H.
    unfold four_names in *. simpl in *.
    inversion Hk as [|? ? [K1 S1] Hk1]; subst. inversion Hk1 as [|? ? [K2 S2] Hk2]; subst.
    inversion Hk2 as [|? ? [K3 S3] Hk3]; subst. inversion Hk3 as [|? ? [K4 S4] Hk4]; subst.
    inversion H as [|? ? ? ? [A1 _] H1]; subst. inversion H1 as [|? ? ? ? [A2 _] H2]; subst.
    inversion H2 as [|? ? ? ? [A3 _] H3]; subst. inversion H3 as [|? ? ? ? [A4 _] H4]; subst.
    inversion H4; subst. simpl in *.
    repeat constructor; simpl; rewrite <- vns_required_agrees; assumption.
  Qed.

  (* ------------------------------------------------------------------ generic_expander *)
  Lemma emit_keys name names results l :
    emit name names results = Ok l -> map fst l = map (actual_name name) names.
  Proof.
    revert l. induction names as [|nn names IH]; intros l H; simpl in H.
    - inversion H. reflexivity.
    - unfold bind in H.
      destruct (lookup nn results) as [ts|].
      + destruct (vns1 ts (actual_name name nn)) as [nv| |] eqn:E; try discriminate.
        destruct (emit name names results) as [rest| |] eqn:E2; try discriminate.
        inversion H; subst. simpl. apply vns1_ok in E. destruct E as [_ ->]. f_equal. now apply IH.
      + destruct (emit name names results) as [rest| |] eqn:E2; try discriminate.
        inversion H; subst. simpl. f_equal. now apply IH.
  Qed.

  (* the result's names are exactly the expanded names, each once, in their order - whatever the tokens *)
  Theorem shorthand_sets_every_longhand names wrapped tokens name l :
    generic_expander names wrapped tokens name = Ok l -> map fst l = map (actual_name name) names.
  Proof.
    unfold C07Expand.generic_expander.
    destruct (single_kw_in tokens _).
    { intro H. inversion H. rewrite map_map. reflexivity. }
    destruct (any_var tokens && _).
    { intro H. inversion H. rewrite map_map. reflexivity. }
    unfold bind. destruct (wrapped tokens name) as [y| |]; try discriminate.
    destruct (collect names y []) as [r| |]; try discriminate.
    apply emit_keys.
  Qed.

  Lemma emit_omitted name names results l nn :
    emit name names results = Ok l -> In nn names -> lookup nn results = None ->
    In (actual_name name nn, VKeyword "initial") l.
  Proof.
    revert l. induction names as [|n0 names IH]; intros l H Hin Hl; simpl in H.
    - destruct Hin.
    - unfold bind in H.
      destruct Hin as [->|Hin].
      + rewrite Hl in H. destruct (emit name names results); try discriminate. inversion H. now left.
      + destruct (match lookup n0 results with Some ts => vns1 ts (actual_name name n0) | None => _ end);
          try discriminate.
        destruct (emit name names results) as [rest| |]; try discriminate.
        inversion H. right. now apply IH.
  Qed.

  (* collect: what the loop over the wrapped expander's yields does *)
  Lemma collect_ok names y acc r :
    collect names y acc = Ok r ->
    r = (acc ++ y)%list /\ NoDup (map fst y) /\ (forall n, In n (map fst y) -> ~ In n (map fst acc)) /\
    Forall (fun p => In (fst p) names) y.
  Proof.
    revert acc r. induction y as [|[n ts] y IH]; intros acc r H; simpl in H.
    - inversion H. rewrite app_nil_r. repeat split; auto; try constructor; try (intros n []).
    - destruct (negb (str_in n names)) eqn:E1; try discriminate.
      destruct (str_in n (map fst acc)) eqn:E2; try discriminate.
      apply IH in H. destruct H as (-> & Hnd & Hdis & Hall).
      apply negb_false_iff in E1. apply str_in_In in E1.
      assert (E2' : ~ In n (map fst acc)) by (rewrite <- str_in_In; congruence).
      rewrite <- app_assoc. simpl. repeat split; auto.
      + constructor; auto. intro Hc. apply (Hdis n Hc). rewrite map_app. apply in_or_app. right. now left.
      + intros m [<-|Hm]; auto. intro Hc. apply (Hdis m Hm). rewrite map_app. apply in_or_app. now left.
  Qed.

  Lemma collect_complete names y acc :
    Forall (fun p => In (fst p) names) y -> NoDup (map fst y) ->
    (forall n, In n (map fst y) -> ~ In n (map fst acc)) ->
    collect names y acc = Ok (acc ++ y)%list.
  Proof.
    revert acc. induction y as [|[n ts] y IH]; intros acc Hall Hnd Hdis; simpl.
    - now rewrite app_nil_r.
    - inversion Hall as [|? ? Hn Hall']; subst. inversion Hnd as [|? ? Hnn Hnd']; subst. simpl in *.
      apply str_in_In in Hn. rewrite Hn. simpl.
      destruct (str_in n (map fst acc)) eqn:E.
      { apply str_in_In in E. exfalso. apply (Hdis n); auto. }
      rewrite IH; auto.
      + now rewrite <- app_assoc.
      + intros m Hm. rewrite map_app. intro Hc. apply in_app_or in Hc. destruct Hc as [Hc|[<-|[]]].
        * apply (Hdis m); auto.
        * contradiction.
  Qed.

  Lemma collect_no_crash names y acc :
    Forall (fun p => In (fst p) names) y -> collect names y acc <> Crash.
  Proof.
    revert acc. induction y as [|[n ts] y IH]; intros acc Hall; simpl; try discriminate.
    inversion Hall as [|? ? Hn Hall']; subst. simpl in Hn. apply str_in_In in Hn. rewrite Hn. simpl.
    destruct (str_in n (map fst acc)); try discriminate. now apply IH.
  Qed.

  (* a second value for the same longhand makes the shorthand invalid *)
  Theorem duplicates_are_invalid names y1 y2 y3 n a b :
    Forall (fun p => In (fst p) names) (y1 ++ (n, a) :: y2 ++ (n, b) :: y3) ->
    collect names (y1 ++ (n, a) :: y2 ++ (n, b) :: y3) [] = Invalid.
  Proof.
    intro Hall. destruct (collect names _ []) as [r| |] eqn:E; auto.
    - apply collect_ok in E. destruct E as (_ & Hnd & _).
      rewrite map_app in Hnd. simpl in Hnd. apply NoDup_remove_2 in Hnd.
      exfalso. apply Hnd. apply in_or_app. right. rewrite map_app. apply in_or_app. right. now left.
    - exfalso. apply (collect_no_crash names _ [] Hall). exact E.
  Qed.

  (* ---- the order of the components does not matter *)
  Definition same_yield (a b : res (list (string * list tok))) : Prop :=
    match a, b with
    | Ok x, Ok y => Permutation x y
    | Invalid, Invalid => True
    | _, _ => False
    end.

  Lemma lookup_in {A} n (l : list (string * A)) v :
    NoDup (map fst l) -> (lookup n l = Some v <-> In (n, v) l).
  Proof.
    induction l as [|[k w] l IH]; intro Hnd; simpl.
    - split; [discriminate|intros []].
    - inversion Hnd as [|? ? Hk Hnd']; subst.
      destruct (String.eqb n k) eqn:E.
      + apply String.eqb_eq in E. subst. split.
        * intro H. inversion H. now left.
        * intros [H|H]. { inversion H. reflexivity. }
          exfalso. apply Hk. apply in_map_iff. exists (k, v). auto.
      + rewrite IH by assumption. split; auto. intros [H|H]; auto.
        inversion H. subst. rewrite String.eqb_refl in E. discriminate.
  Qed.

  Lemma lookup_none {A} n (l : list (string * A)) : lookup n l = None <-> ~ In n (map fst l).
  Proof.
    induction l as [|[k w] l IH]; simpl.
    - split; auto.
    - destruct (String.eqb n k) eqn:E.
      + apply String.eqb_eq in E. subst. split; [discriminate|]. intro H. exfalso. apply H. now left.
      + rewrite IH. split; intro H; [intros [Hc|Hc]|]; auto.
        subst. rewrite String.eqb_refl in E. discriminate.
  Qed.

  Lemma lookup_perm {A} n (l l' : list (string * A)) :
    NoDup (map fst l) -> Permutation l l' -> lookup n l = lookup n l'.
  Proof.
    intros Hnd Hp.
    assert (Hnd' : NoDup (map fst l')) by (eapply Permutation_NoDup; [apply Permutation_map; eassumption|assumption]).
    destruct (lookup n l) as [v|] eqn:E.
    - symmetry. apply lookup_in; auto. apply lookup_in in E; auto. eapply Permutation_in; eauto.
    - symmetry. apply lookup_none. apply lookup_none in E. intro Hc. apply E.
      eapply Permutation_in; [apply Permutation_sym, Permutation_map; eassumption|assumption].
  Qed.

  Lemma emit_perm name names r r' :
    NoDup (map fst r) -> Permutation r r' -> emit name names r = emit name names r'.
  Proof.
    intros Hnd Hp. induction names as [|nn names IH]; simpl; auto.
    rewrite (lookup_perm nn r r' Hnd Hp), IH. reflexivity.
  Qed.

  Lemma collect_perm names y y' :
    Forall (fun p => In (fst p) names) y -> Permutation y y' ->
    match collect names y [], collect names y' [] with
    | Ok r, Ok r' => Permutation r r' /\ NoDup (map fst r)
    | Invalid, Invalid => True
    | _, _ => False
    end.
  Proof.
    intros Hall Hp.
    assert (Hall' : Forall (fun p => In (fst p) names) y').
    { rewrite Forall_forall in *. intros p Hin. apply Hall. eapply Permutation_in; [apply Permutation_sym|]; eauto. }
    destruct (collect names y []) as [r| |] eqn:E.
    - apply collect_ok in E. destruct E as (-> & Hnd & _ & _). simpl.
      assert (Hnd' : NoDup (map fst y'))
        by (eapply Permutation_NoDup; [apply Permutation_map; eassumption|assumption]).
      rewrite (collect_complete names y' [] Hall' Hnd') by (intros n _ []).
      simpl. split; auto.
    - destruct (collect names y' []) as [r'| |] eqn:E'; auto.
      + apply collect_ok in E'. destruct E' as (-> & Hnd & _ & _).
        assert (Hnd' : NoDup (map fst y))
          by (eapply Permutation_NoDup; [apply Permutation_map, Permutation_sym; eassumption|assumption]).
        rewrite (collect_complete names y [] Hall Hnd') in E by (intros n _ []). discriminate.
      + apply (collect_no_crash names y' [] Hall'). exact E'.
    - apply (collect_no_crash names y [] Hall). exact E.
  Qed.

  Lemma existsb_perm {A} (f : A -> bool) l l' : Permutation l l' -> existsb f l = existsb f l'.
  Proof.
    induction 1; simpl; auto.
    - now rewrite IHPermutation.
    - destruct (f x), (f y); reflexivity.
    - congruence.
  Qed.

  Lemma single_kw_perm ts ts' l : Permutation ts ts' -> single_kw_in ts l = single_kw_in ts' l.
  Proof.
    intro Hp. destruct ts as [|t [|t2 r]].
    - apply Permutation_nil in Hp. now subst.
    - apply Permutation_length_1_inv in Hp. now subst.
    - pose proof (Permutation_length Hp) as HL. destruct ts' as [|a [|b r']]; simpl in HL; try discriminate.
      reflexivity.
  Qed.

  Theorem generic_expander_order_free names (wrapped : inner) tokens tokens' name :
    Permutation tokens tokens' -> any_var tokens = false ->
    same_yield (wrapped tokens name) (wrapped tokens' name) ->
    (forall y, wrapped tokens name = Ok y -> Forall (fun p => In (fst p) names) y) ->
    generic_expander names wrapped tokens name = generic_expander names wrapped tokens' name.
  Proof.
    intros Hp Hv Hs Hn. unfold C07Expand.generic_expander.
    rewrite <- (single_kw_perm tokens tokens' _ Hp).
    destruct (single_kw_in tokens _) as [k|].
    { reflexivity. }
    assert (Hv' : any_var tokens' = false).
    { unfold any_var in *. now rewrite <- (existsb_perm has_var tokens tokens' Hp). }
    rewrite Hv, Hv'. simpl. unfold bind.
    destruct (wrapped tokens name) as [y| |] eqn:E, (wrapped tokens' name) as [y'| |] eqn:E';
      simpl in Hs; try contradiction; auto.
    pose proof (collect_perm names y y' (Hn y eq_refl) Hs) as Hc.
    destruct (collect names y []) as [r| |], (collect names y' []) as [r'| |]; try contradiction; auto.
    destruct Hc as [Hperm Hnd]. now apply emit_perm.
  Qed.

  (* ------------------------------------------------------------------ border-top ... outline, column-rule *)
  Variable is_color is_border_width is_border_style : tok -> bool.
  Notation border_side_inner := (border_side_inner is_color is_border_width is_border_style).
  Notation expand_border_side :=
    (expand_border_side V0 known supported prop_validator is_color is_border_width is_border_style).

  Lemma border_side_inner_names ts y :
    border_side_inner ts = Ok y -> Forall (fun p => In (fst p) BORDER_SIDE_NAMES) y.
  Proof.
    revert y. induction ts as [|t ts IH]; intros y H; simpl in H.
    - inversion H. constructor.
    - destruct (is_color t).
      { unfold bind in H. destruct (border_side_inner ts); try discriminate. inversion H. constructor; auto.
        simpl. auto. }
      destruct (is_border_width t).
      { unfold bind in H. destruct (border_side_inner ts); try discriminate. inversion H. constructor; auto.
        simpl. auto. }
      destruct (is_border_style t); try discriminate.
      unfold bind in H. destruct (border_side_inner ts); try discriminate. inversion H. constructor; auto.
      simpl. auto.
  Qed.

  Lemma border_side_inner_no_crash ts : border_side_inner ts <> Crash.
  Proof.
    induction ts as [|t ts IH]; simpl; try discriminate.
    destruct (if is_color t then _ else _); try discriminate.
    unfold bind. destruct (border_side_inner ts); try discriminate. congruence.
  Qed.

  Lemma same_yield_trans a b c : same_yield a b -> same_yield b c -> same_yield a c.
  Proof.
    destruct a, b, c; simpl; try tauto. apply Permutation_trans.
  Qed.

  Lemma border_side_inner_perm ts ts' :
    Permutation ts ts' -> same_yield (border_side_inner ts) (border_side_inner ts').
  Proof.
    induction 1 as [| x l l' Hp IH | x y l | l l' l'' H1 IH1 H2 IH2].
    - simpl. constructor.
    - simpl. destruct (if is_color x then _ else _); simpl; auto.
      unfold bind. destruct (border_side_inner l), (border_side_inner l'); simpl in *; try contradiction; auto.
    - simpl. pose proof (border_side_inner_no_crash l) as Hc.
      destruct (if is_color y then _ else _), (if is_color x then _ else _); unfold bind;
        destruct (border_side_inner l); simpl; auto; try congruence.
      apply perm_swap.
    - eapply same_yield_trans; eauto.
  Qed.

  (* border-top: 1px solid red = border-top: red 1px solid = ... : every order of the components *)
  Theorem border_side_order_free tokens tokens' name :
    Permutation tokens tokens' -> any_var tokens = false ->
    expand_border_side tokens name = expand_border_side tokens' name.
  Proof.
    intros Hp Hv. unfold C07Expand.expand_border_side.
    apply generic_expander_order_free; auto.
    - now apply border_side_inner_perm.
    - intros y Hy. now apply border_side_inner_names in Hy.
  Qed.

  (* one component of each kind at most; which longhand a component goes to depends on the component alone *)
  Definition border_side_suffix (t : tok) : string :=
    if is_color t then "-color" else if is_border_width t then "-width" else "-style".
  Definition border_side_component (t : tok) : bool := is_color t || is_border_width t || is_border_style t.

  Theorem border_side_rule tokens y :
    border_side_inner tokens = Ok y ->
    Forall2 (fun t p => p = (border_side_suffix t, [t]) /\ border_side_component t = true) tokens y.
  Proof.
    revert y. induction tokens as [|t ts IH]; intros y H; simpl in H.
    - inversion H. constructor.
    - unfold border_side_suffix, border_side_component.
      destruct (is_color t) eqn:C; [|destruct (is_border_width t) eqn:W; [|destruct (is_border_style t) eqn:S;
        [|discriminate]]];
        unfold bind in H; destruct (border_side_inner ts) as [rest| |]; try discriminate;
        inversion H; subst;
        (constructor; [unfold border_side_suffix, border_side_component; rewrite ?C, ?W, ?S; simpl;
                       rewrite ?orb_true_r; split; reflexivity|now apply IH]).
  Qed.

  (* ------------------------------------------------------------------ border-radius *)
  Notation border_radius_inner := (border_radius_inner V0 known supported prop_validator).

  Definition no_slash (ts : list tok) : Prop := Forall (fun t => is_slash t = false) ts.

  Lemma radius_scan_plain flag ts in_v h v :
    no_slash ts ->
    radius_scan flag ts in_v h v = if in_v then Some (h, (v ++ ts)%list) else Some ((h ++ ts)%list, v).
  Proof.
    revert h v. induction ts as [|t ts IH]; intros h v Hn; simpl.
    - destruct in_v; now rewrite app_nil_r.
    - inversion Hn as [|? ? Ht Hn']; subst. rewrite Ht.
      destruct in_v; rewrite IH by assumption; rewrite <- app_assoc; reflexivity.
  Qed.

  Lemma last_no_slash (ts : list tok) d :
    ts <> [] -> no_slash ts -> (match last ts d with TLit v => String.eqb v "/" | _ => false end) = false.
  Proof.
    intros Hne Hn. induction ts as [|t ts IH]; [congruence|].
    inversion Hn as [|? ? Ht Hn']; subst.
    destruct ts as [|t2 ts].
    - simpl. unfold is_slash, is_lit in Ht. destruct t; auto.
    - change (last (t :: t2 :: ts) d) with (last (t2 :: ts) d). apply IH; auto. discriminate.
  Qed.

  Lemma last_app_cons {A} (a : list A) x b d : last (a ++ x :: b)%list d = last (x :: b) d.
  Proof.
    induction a as [|y a IH]; auto.
    change ((y :: a) ++ x :: b)%list with (y :: (a ++ x :: b))%list.
    destruct (a ++ x :: b)%list as [|a0 l] eqn:E.
    - destruct a; discriminate.
    - change (last (y :: a0 :: l) d) with (last (a0 :: l) d). exact IH.
  Qed.

  Definition radius_result (h v : list tok) : res (list (string * list tok)) :=
    match four_spec h, four_spec v with
    | Some (h1, h2, h3, h4), Some (v1, v2, v3, v4) =>
        let pairs := combine RADIUS_NAMES [[h1; v1]; [h2; v2]; [h3; v3]; [h4; v4]] in
        bind (validate_each pairs) (fun _ => Ok pairs)
    | _, _ => Invalid
    end.

  Lemma radius_tail h v :
    match four_tokens h, four_tokens v with
    | Some h4, Some v4 =>
        let pairs := combine RADIUS_NAMES (map (fun hv => [fst hv; snd hv]) (combine h4 v4)) in
        bind (validate_each pairs) (fun _ => Ok pairs)
    | _, _ => Invalid
    end = radius_result h v.
  Proof.
    unfold radius_result. rewrite !four_tokens_is_spec.
    destruct (four_spec h) as [[[[a b] c] d]|]; auto.
    destruct (four_spec v) as [[[[a' b'] c'] d']|]; auto.
  Qed.

  (* border-radius: h{1,4} : the vertical radii are the horizontal ones *)
  Theorem border_radius_without_slash h :
    no_slash h -> border_radius_inner h = radius_result h h.
  Proof.
    intro Hn. unfold C07Expand.border_radius_inner.
    rewrite radius_scan_plain by assumption. simpl app.
    destruct h as [|t h'].
    - reflexivity.
    - apply radius_tail.
  Qed.

  (* border-radius: h{1,4} / v{1,4} *)
  Theorem border_radius_with_slash h v :
    no_slash h -> no_slash v -> v <> [] ->
    border_radius_inner (h ++ TLit "/" :: v) = radius_result h v.
  Proof.
    intros Hh Hv Hne. unfold C07Expand.border_radius_inner.
    rewrite last_app_cons.
    assert (L : (match last (TLit "/" :: v) TWs with TLit s => String.eqb s "/" | _ => false end) = false).
    { destruct v as [|t v']; [congruence|]. change (last (TLit "/" :: t :: v') TWs) with (last (t :: v') TWs).
      apply last_no_slash; auto. }
    rewrite L.
    assert (S : forall acc, radius_scan false (h ++ TLit "/" :: v) false acc [] = Some ((acc ++ h)%list, v)).
    { clear L. induction h as [|t h' IH]; intro acc.
      - simpl. rewrite radius_scan_plain by assumption. now rewrite app_nil_r.
      - inversion Hh as [|? ? Ht Hh']; subst. simpl. rewrite Ht. rewrite IH by assumption.
        now rewrite <- app_assoc. }
    rewrite S. simpl app.
    destruct v as [|t v']; [congruence|]. apply radius_tail.
  Qed.

  Theorem border_radius_bad_slashes h v w :
    border_radius_inner (h ++ [TLit "/"]) = Invalid /\
    (no_slash h -> border_radius_inner (h ++ TLit "/" :: v ++ TLit "/" :: w) = Invalid).
  Proof.
    split.
    - unfold C07Expand.border_radius_inner. rewrite last_app_cons. simpl last. simpl String.eqb.
      assert (S : forall in_v a b, radius_scan true (h ++ [TLit "/"]) in_v a b = None).
      { induction h as [|t h' IH]; intros in_v a b.
        - simpl. destruct in_v; reflexivity.
        - simpl. destruct (is_slash t).
          + destruct in_v; auto.
          + destruct in_v; apply IH. }
      now rewrite S.
    - intro Hh. unfold C07Expand.border_radius_inner.
      assert (S : forall flag a, radius_scan flag (h ++ TLit "/" :: v ++ TLit "/" :: w) false a [] = None).
      { intros flag. induction h as [|t h' IH]; intro a.
        - simpl. destruct flag; auto.
          assert (S2 : forall b, radius_scan false (v ++ TLit "/" :: w) true a b = None).
          { induction v as [|t v' IHv]; intro b; simpl; auto.
            destruct (is_slash t); auto. }
          apply S2.
        - inversion Hh as [|? ? Ht Hh']; subst. simpl. rewrite Ht. now apply IH. }
      now rewrite S.
  Qed.

  Theorem border_radius_rule h v :
    no_slash h -> no_slash v -> v <> [] ->
    border_radius_inner h = radius_result h h /\
    border_radius_inner (h ++ TLit "/" :: v) = radius_result h v /\
    border_radius_inner (h ++ [TLit "/"]) = Invalid /\
    (forall w, border_radius_inner (h ++ TLit "/" :: v ++ TLit "/" :: w) = Invalid).
  Proof.
    intros Hh Hv Hne. repeat split.
    - now apply border_radius_without_slash.
    - now apply border_radius_with_slash.
    - exact (proj1 (border_radius_bad_slashes h v [])).
    - intro w. exact (proj2 (border_radius_bad_slashes h v w) Hh).
  Qed.

  (* ------------------------------------------------------------------ columns *)
  Variable is_column_width is_column_count : tok -> bool.
  Notation columns_inner := (columns_inner is_column_width is_column_count).
  Notation columns_loop := (columns_loop is_column_width is_column_count).
  Notation expand_columns :=
    (expand_columns V0 known supported prop_validator is_column_width is_column_count).

  Lemma columns_loop_names ts nm y nm' :
    columns_loop ts nm = Ok (y, nm') -> Forall (fun p => In (fst p) COLUMNS_NAMES) y.
  Proof.
    revert nm y nm'. induction ts as [|t ts IH]; intros nm y nm' H; simpl in H.
    - inversion H. constructor.
    - destruct (is_column_width t && _).
      + unfold bind in H. destruct (columns_loop ts (Some "column-width")) as [[y0 n0]| |] eqn:E; try discriminate.
        inversion H; subst. constructor; [simpl; auto|]. eapply IH; eauto.
      + destruct (is_column_count t); try discriminate.
        unfold bind in H. destruct (columns_loop ts (Some "column-count")) as [[y0 n0]| |] eqn:E; try discriminate.
        inversion H; subst. constructor; [simpl; auto|]. eapply IH; eauto.
  Qed.

  (* columns: 2 100px = columns: 100px 2 - given that only `auto` is both a width and a count, which is the
     case of the real column_width / column_count *)
  Lemma columns_inner_swap a b :
    (forall t, is_column_width t = true -> is_column_count t = true -> kw_is t "auto" = true) ->
    kw_is a "auto" && kw_is b "auto" = false ->
    same_yield (columns_inner [a; b]) (columns_inner [b; a]).
  Proof.
    intros Hboth Hnb. pose proof (Hboth a) as Ha. pose proof (Hboth b) as Hb.
    unfold C07Expand.columns_inner.
    destruct (kw_is a "auto") eqn:Ka, (kw_is b "auto") eqn:Kb;
      destruct (is_column_width a) eqn:Wa, (is_column_count a) eqn:Ca,
               (is_column_width b) eqn:Wb, (is_column_count b) eqn:Cb;
      try (simpl in Hnb; discriminate);
      try (specialize (Ha eq_refl eq_refl); discriminate);
      try (specialize (Hb eq_refl eq_refl); discriminate);
      simpl; rewrite ?Wa, ?Ca, ?Wb, ?Cb; simpl; rewrite ?Wa, ?Ca, ?Wb, ?Cb; simpl;
      auto using perm_swap, Permutation_refl.
  Qed.

  Theorem columns_order_free a b name :
    (forall t, is_column_width t = true -> is_column_count t = true -> kw_is t "auto" = true) ->
    kw_is a "auto" && kw_is b "auto" = false ->
    any_var [a; b] = false ->
    expand_columns [a; b] name = expand_columns [b; a] name.
  Proof.
    intros Hboth Hnb Hv. unfold C07Expand.expand_columns.
    apply generic_expander_order_free; auto.
    - apply perm_swap.
    - now apply columns_inner_swap.
    - intros y Hy. unfold C07Expand.columns_inner in Hy. unfold bind in Hy.
      destruct (columns_loop _ None) as [[y0 n0]| |] eqn:E; try discriminate.
      apply columns_loop_names in E.
      destruct (if kw_is a "auto" then [b; a] else [a; b]) as [|x [|x2 r]]; inversion Hy; subst; auto.
      apply Forall_app. split; auto. constructor; [|constructor].
      simpl. destruct n0 as [n|]; [destruct (String.eqb n "column-count")|]; auto.
  Qed.

  (* ------------------------------------------------------------------ flex *)
  Variable is_flex_basis : tok -> bool.
  Variable flex_factor : tok -> option (Q * option Z).
  Notation flex_inner := (flex_inner is_flex_basis flex_factor).

  Definition flex_yield (g s : Q * option Z) (b : tok) : res (list (string * list tok)) :=
    Ok [("-grow", [num_tok g]); ("-shrink", [num_tok s]); ("-basis", [b])].

  (* css-flexbox-1 7.1: none | [ <flex-grow> <flex-shrink>? || <flex-basis> ] ; omitted grow and shrink are 1,
     an omitted basis is 0 ; a unitless zero not preceded by two factors is a factor *)
  Theorem flex_rule g s b z G S Z0 :
    get_keyword g = None -> is_num_zero g = false -> is_flex_basis g = false -> flex_factor g = Some G ->
    get_keyword s = None -> is_num_zero s = false -> is_flex_basis s = false -> flex_factor s = Some S ->
    is_num_zero b = false -> is_flex_basis b = true -> kw_is b "none" = false -> flex_factor b = None ->
    is_num_zero z = true -> get_keyword z = None -> flex_factor z = Some Z0 -> is_flex_basis z = true ->
    flex_inner [TIdent "none" "none"] = flex_yield (0%Q, Some 0%Z) (0%Q, Some 0%Z) AUTO /\
    flex_inner [g] = flex_yield G ONE ZERO_PX /\
    flex_inner [g; s] = flex_yield G S ZERO_PX /\
    flex_inner [b] = flex_yield ONE ONE b /\
    flex_inner [g; b] = flex_yield G ONE b /\
    flex_inner [b; g] = flex_yield G ONE b /\
    flex_inner [g; s; b] = flex_yield G S b /\
    flex_inner [b; g; s] = flex_yield G S b /\
    flex_inner [z] = flex_yield Z0 ONE ZERO_PX /\
    flex_inner [g; z] = flex_yield G Z0 ZERO_PX /\
    flex_inner [g; s; z] = flex_yield G S z /\
    flex_inner [g; s; g] = Invalid /\
    flex_inner [b; b] = Invalid.
  Proof.
    intros Kg Zg Bg Fg Ks Zs Bs Fs Zb Bb Kb Fb Zz Kz Fz Bz.
    assert (Kb' : single_kw_in [b] ["none"] = None).
    { unfold single_kw_in, get_single_keyword. unfold kw_is in Kb. destruct (get_keyword b); auto.
      simpl. rewrite Kb. reflexivity. }
    unfold C07Expand.flex_inner, flex_yield.
    repeat split;
      unfold single_kw_in, get_single_keyword; rewrite ?Kg, ?Ks, ?Kz; try rewrite Kb';
      try (unfold single_kw_in, get_single_keyword in Kb'; rewrite Kb');
      simpl; rewrite ?Zg, ?Zs, ?Zb, ?Zz, ?Bg, ?Bs, ?Bb, ?Bz, ?Fg, ?Fs, ?Fz, ?Fb; simpl;
      rewrite ?Zg, ?Zs, ?Zb, ?Zz, ?Bg, ?Bs, ?Bb, ?Bz, ?Fg, ?Fs, ?Fz, ?Fb; simpl;
      rewrite ?Zg, ?Zs, ?Zb, ?Zz, ?Bg, ?Bs, ?Bb, ?Bz, ?Fg, ?Fs, ?Fz, ?Fb; simpl; try reflexivity.
  Qed.

  (* the two factors must be adjacent: a basis between them is invalid (it used to be accepted: F133, repaired) *)
  Theorem flex_rejects_basis_between_factors g s b G S :
    get_keyword g = None -> is_num_zero g = false -> is_flex_basis g = false -> flex_factor g = Some G ->
    is_num_zero s = false -> is_flex_basis s = false -> flex_factor s = Some S ->
    is_num_zero b = false -> is_flex_basis b = true ->
    flex_inner [g; b; s] = Invalid.
  Proof.
    intros Kg Zg Bg Fg Zs Bs Fs Zb Bb.
    unfold C07Expand.flex_inner, single_kw_in, get_single_keyword. simpl.
    rewrite ?Zg, ?Zs, ?Zb, ?Bg, ?Bs, ?Bb, ?Fg, ?Fs; simpl.
    rewrite ?Zg, ?Zs, ?Zb, ?Bg, ?Bs, ?Bb, ?Fg, ?Fs; simpl.
    rewrite ?Zg, ?Zs, ?Zb, ?Bg, ?Bs, ?Bb, ?Fg, ?Fs; simpl. reflexivity.
  Qed.
End ExpandProofs.

(* the hypotheses of the theorems above are satisfiable *)
Example four_names_margin : four_names "margin" = ["margin-top"; "margin-right"; "margin-bottom"; "margin-left"].
Proof. reflexivity. Qed.
Example four_names_border_color :
  four_names "border-color" = ["border-top-color"; "border-right-color"; "border-bottom-color"; "border-left-color"].
Proof. reflexivity. Qed.
Example four_names_all :
  map four_names ["padding"; "bleed"; "border-style"; "border-width"] =
  [["padding-top"; "padding-right"; "padding-bottom"; "padding-left"];
   ["bleed-top"; "bleed-right"; "bleed-bottom"; "bleed-left"];
   ["border-top-style"; "border-right-style"; "border-bottom-style"; "border-left-style"];
   ["border-top-width"; "border-right-width"; "border-bottom-width"; "border-left-width"]].
Proof. reflexivity. Qed.

Example four_sides_example :
  let pv := fun (n : string) (ts : list tok) => match ts with [TAtom k] => Some k | _ => None end in
  expand_four_sides Z (fun _ => true) (fun _ => true) pv [TAtom 1; TAtom 2; TAtom 3] "margin" =
  Ok [("margin-top", VVal 1%Z); ("margin-right", VVal 2%Z); ("margin-bottom", VVal 3%Z); ("margin-left", VVal 2%Z)].
Proof. reflexivity. Qed.

Example border_side_example :
  let pv := fun (n : string) (ts : list tok) => match ts with [TAtom k] => Some k | _ => None end in
  let e := expand_border_side Z (fun _ => true) (fun _ => true) pv
             (fun t => match t with TAtom 1 => true | _ => false end)
             (fun t => match t with TAtom 2 => true | _ => false end)
             (fun t => match t with TAtom 3 => true | _ => false end) in
  e [TAtom 3; TAtom 1] "border-top" =
  Ok [("border-top-width", VKeyword "initial"); ("border-top-color", VVal 1%Z); ("border-top-style", VVal 3%Z)]
  /\ e [TAtom 1; TAtom 3] "border-top" = e [TAtom 3; TAtom 1] "border-top"
  /\ e [TAtom 1; TAtom 1] "border-top" = Invalid.
Proof. repeat split; reflexivity. Qed.

Example border_radius_example :
  let pv := fun (n : string) (ts : list tok) => match ts with [TAtom h; TAtom v] => Some (h * 10 + v)%Z | _ => None end in
  expand_border_radius Z (fun _ => true) (fun _ => true) pv [TAtom 1; TAtom 2; TLit "/"; TAtom 3] "border-radius" =
  Ok [("border-top-left-radius", VVal 13%Z); ("border-top-right-radius", VVal 23%Z);
      ("border-bottom-right-radius", VVal 13%Z); ("border-bottom-left-radius", VVal 23%Z)].
Proof. reflexivity. Qed.

