(* C20 - proofs about the DiskCache model (model/C20Cache.v): get after set (None included), absent keys,
   frame, and refinement of a dict under the callers' key discipline; link with the image cache of C20Doc. *)
From Coq Require Import List String Bool Arith Lia.
Require Import WV.model.C20Cache WV.model.C20Url WV.model.C20Doc WV.proofs.C20_doc.
Import ListNotations.
Open Scope string_scope.
Open Scope list_scope.

Section CacheProofs.
  Variable digest : string -> string.
  Notation dset := (dc_set digest).
  Notation dget := (dc_get digest).
  Notation dcontains := (dc_contains digest).

  (* get after set returns the stored value - None (a failed image) included.  For a bytes value the key
     must not already sit in the memory layer (see the refuted statement below). *)
  Lemma dc_get_after_set s k v :
    (is_bytes v = true -> afind (dc_mem s) k = None) -> dget (dset s k v) k = Some v.
  Proof.
    intros H. unfold dc_get, dc_set. destruct v as [b|o]; simpl.
    - rewrite (H eq_refl). rewrite String.eqb_refl. reflexivity.
    - rewrite String.eqb_refl. reflexivity.
  Qed.

  Lemma dc_get_after_set_none s k : dget (dset s k (VObj None)) k = Some (VObj None).
  Proof. apply dc_get_after_set. intros H; discriminate. Qed.

  Lemma dc_contains_after_set s k v : dcontains (dset s k v) k = true.
  Proof.
    unfold dc_contains, dc_set. destruct v; simpl; rewrite String.eqb_refl; simpl; auto using orb_true_r.
  Qed.

  Lemma dc_contains_is_get s k : dcontains s k = is_some (dget s k).
  Proof.
    unfold dc_contains, dc_get. destruct (afind (dc_mem s) k); simpl; [reflexivity|].
    destruct (afind (dc_disk s) (digest k)); reflexivity.
  Qed.

  (* frame: another key (with another file name) is not touched *)
  Lemma dc_get_set_other s k v k' : k <> k' -> digest k <> digest k' -> dget (dset s k v) k' = dget s k'.
  Proof.
    intros Hk Hd. apply String.eqb_neq in Hk. apply String.eqb_neq in Hd.
    unfold dc_get, dc_set. destruct v; simpl; [rewrite Hd|rewrite Hk]; reflexivity.
  Qed.

  (* a key never set is absent, whatever else happened (reopening included) *)
  Definition never_sets (k : string) (ops : list op) : Prop :=
    Forall (fun o => match o with OSet k' _ => k' <> k /\ digest k' <> digest k | _ => True end) ops.

  Lemma dc_never_set_absent k ops : never_sets k ops -> forall s,
    dget s k = None -> dget (snd (dc_run digest s ops)) k = None.
  Proof.
    induction ops as [|o r IH]; intros Hn s Hs; [exact Hs|].
    inversion Hn as [|x y Hx Hy]; subst. simpl.
    destruct o as [k' v|k'|k'|].
    - destruct Hx as [H1 H2]. specialize (IH Hy (dset s k' v)).
      destruct (dc_run digest (dset s k' v) r) as [ob s']. simpl in *. apply IH.
      rewrite dc_get_set_other; assumption.
    - specialize (IH Hy s Hs). destruct (dc_run digest s r) as [ob s']. exact IH.
    - specialize (IH Hy s Hs). destruct (dc_run digest s r) as [ob s']. exact IH.
    - specialize (IH Hy (dc_reopen s)). destruct (dc_run digest (dc_reopen s) r) as [ob s']. simpl in *.
      apply IH. reflexivity.
  Qed.

  Lemma dc_fresh_absent k : dget dc_empty k = None /\ dcontains dc_empty k = false.
  Proof. split; reflexivity. Qed.

  (* ---- refinement of a dict *)
  Variable bytes_key : string -> bool.
  Hypothesis digest_injective : forall a b, digest a = digest b -> a = b.

  Definition Inv (s : dcache) (d : dict) : Prop :=
    (forall k v, afind (dc_mem s) k = Some v -> bytes_key k = false) /\
    (forall k, dget s k = afind d k).

  Lemma Inv_set s d k v : is_bytes v = bytes_key k -> Inv s d -> Inv (dset s k v) ((k, v) :: d).
  Proof.
    intros Hk [I1 I2]. split.
    - intros k' v'. unfold dc_set. destruct v as [b|o]; simpl; [apply I1|].
      destruct (k =? k') eqn:E; [|apply I1]. apply String.eqb_eq in E. subst k'. intros _. symmetry. exact Hk.
    - intros k'. simpl. destruct (k =? k') eqn:E.
      + apply String.eqb_eq in E. subst k'. apply dc_get_after_set.
        intros Hb. destruct (afind (dc_mem s) k) as [v'|] eqn:Em; [|reflexivity].
        pose proof (I1 _ _ Em) as H. congruence.
      + rewrite <- I2. apply dc_get_set_other.
        * apply String.eqb_neq. exact E.
        * intros Hd. apply digest_injective in Hd. apply String.eqb_neq in E. contradiction.
  Qed.

  Theorem diskcache_refines_dict ops : disciplined bytes_key ops -> forall s d, Inv s d ->
    fst (dc_run digest s ops) = fst (dict_run d ops).
  Proof.
    induction ops as [|o r IH]; intros Hd s d HI; [reflexivity|].
    inversion Hd as [|x y Hx Hy]; subst. simpl.
    destruct o as [k v|k|k|]; try contradiction.
    - specialize (IH Hy _ _ (Inv_set s d k v Hx HI)).
      destruct (dc_run digest (dset s k v) r) as [o1 s1]. destruct (dict_run ((k, v) :: d) r) as [o2 d2].
      simpl in *. rewrite IH. reflexivity.
    - specialize (IH Hy _ _ HI). destruct HI as [_ I2].
      destruct (dc_run digest s r) as [o1 s1]. destruct (dict_run d r) as [o2 d2].
      simpl in *. rewrite IH, I2. reflexivity.
    - specialize (IH Hy _ _ HI). destruct HI as [_ I2].
      destruct (dc_run digest s r) as [o1 s1]. destruct (dict_run d r) as [o2 d2].
      simpl in *. rewrite IH, dc_contains_is_get, I2. reflexivity.
  Qed.

  Lemma Inv_empty : Inv dc_empty [].
  Proof. split; [intros k v H; discriminate|reflexivity]. Qed.
End CacheProofs.

(* REFUTED in general (not reachable through images.py, whose bytes keys and object keys are disjoint): a bytes
   value stored under a key that already holds an object is shadowed by the memory layer *)
Lemma dc_get_after_set_stale_refuted :
  exists (s : dcache) k v, dc_get (fun x => x) (dc_set (fun x => x) s k v) k <> Some v.
Proof.
  exists (dc_set (fun x => x) dc_empty "k" (VObj None)), "k", (VBytes "data"). simpl. discriminate.
Qed.

(* ---- the image cache of the resource state machine (C20Doc.cache: request key -> loaded?) kept in a
   DiskCache: the key is spelled as a string (f'{url} {orientation} {image_options}', any injective spelling),
   the memory layer holds an object for a loaded image and None for a failed one *)
Definition obj_of (ok : bool) : value := VObj (if ok then Some 1 else None).
Definition loaded_of (v : value) : bool := match v with VObj (Some _) => true | _ => false end.

Section ImageCache.
  Variable show : rkey -> string.
  Hypothesis show_injective : forall a b, show a = show b -> a = b.

  Definition mem_of (c : cache) : list (string * value) := map (fun p => (show (fst p), obj_of (snd p))) c.

  Lemma show_eqb a b : (show a =? show b) = rkey_eqb a b.
  Proof.
    destruct (show a =? show b) eqn:E.
    - apply String.eqb_eq in E. apply show_injective in E. subst. symmetry. apply rkey_eqb_refl.
    - destruct (rkey_eqb a b) eqn:E'; [|reflexivity].
      apply rkey_eqb_eq in E'. subst. rewrite String.eqb_refl in E. discriminate.
  Qed.

  Lemma afind_mem_of c k : afind (mem_of c) (show k) = option_map obj_of (cfind c k).
  Proof.
    induction c as [|[k' v] c IH]; [reflexivity|]. simpl. rewrite show_eqb.
    destruct (rkey_eqb k' k); [reflexivity|exact IH].
  Qed.

  (* whatever files the folder holds for other keys, the DiskCache answers for image keys exactly like the
     association list of the machine, failed images (None) included; m_get's update is a set *)
  Theorem diskcache_is_image_cache digest (c : cache) disk k :
    afind disk (digest (show k)) = None ->
    let s := {| dc_mem := mem_of c; dc_disk := disk |} in
    option_map loaded_of (dc_get digest s (show k)) = cfind c k /\
    dc_contains digest s (show k) = is_some (cfind c k) /\
    forall ok, dc_mem (dc_set digest s (show k) (obj_of ok)) = mem_of ((k, ok) :: c).
  Proof.
    intros Hd s. unfold dc_get, dc_contains. simpl. rewrite afind_mem_of, Hd.
    destruct (cfind c k) as [ok|]; simpl.
    - repeat split; destruct ok; reflexivity.
    - repeat split.
  Qed.
End ImageCache.

Example cache_example :
  fst (dc_run (fun k => k) dc_empty
         [OContains "u"; OSet "u" (VObj None); OContains "u"; OGet "u"; OSet "id-source-" (VBytes "PNG");
          OGet "id-source-"; OReopen; OContains "u"; OGet "id-source-"; OGet "u"])
  = [ObsIn false; ObsSet; ObsIn true; ObsGet (Some (VObj None)); ObsSet; ObsGet (Some (VBytes "PNG"));
     ObsSet; ObsIn false; ObsGet None; ObsGet None].
Proof. reflexivity. Qed.
