(* C13 - min_max_auto_replaced against the table of CSS 2.1 10.4. *)
From Coq Require Import QArith Qminmax Lqa List Bool.
Require Import WV.model.C13Replaced WV.model.C13Spec WV.proofs.C13_base.
Open Scope Q_scope.

Lemma nz_pos w : 0 < w -> nz w = w.
Proof. unfold nz. intro. breakb; [lra | reflexivity]. Qed.

Ltac fin :=
  cbn [fst snd]; first [ exfalso; lra | split; symmetry; assumption ].

(* every row of the table that applies is what the code computes *)
Lemma mmar_ratio_rows w h minw minh MW MH rw rh :
  0 < w -> 0 < h -> le_inf minw MW -> le_inf minh MH ->
  table_10_4 w h minw minh MW MH rw rh ->
  fst (mmar_ratio w h minw minh MW MH) == rw /\ snd (mmar_ratio w h minw minh MW MH) == rh.
Proof.
  intros Hw Hh Lw Lh T. unfold mmar_ratio. rewrite (nz_pos w Hw), (nz_pos h Hh). unfold viol_of.
  destruct T; subst; unfold le_inf in *;
    repeat match goal with
           | |- context [match ?M with Some _ => _ | None => _ end] => is_var M; destruct M
           end;
    breakb; fin.
Qed.

(* some row always applies: the code's result is in the table *)
Lemma mmar_ratio_in_table w h minw minh MW MH :
  0 < w -> 0 < h ->
  table_10_4 w h minw minh MW MH (fst (mmar_ratio w h minw minh MW MH)) (snd (mmar_ratio w h minw minh MW MH)).
Proof.
  intros Hw Hh. unfold mmar_ratio. rewrite (nz_pos w Hw), (nz_pos h Hh). unfold viol_of.
  destruct MW as [mw|], MH as [mh|]; breakb; cbn [fst snd].
  all: first
    [ eapply row_wmax_hmax_1; solve [reflexivity | eassumption | cbn; lra]
    | eapply row_wmax_hmax_2; solve [reflexivity | eassumption | cbn; lra]
    | eapply row_wmin_hmin_1; solve [reflexivity | eassumption | cbn; lra]
    | eapply row_wmin_hmin_2; solve [reflexivity | eassumption | cbn; lra]
    | eapply row_wmin_hmax; solve [reflexivity | eassumption | cbn; lra]
    | eapply row_wmax_hmin; solve [reflexivity | eassumption | cbn; lra]
    | eapply row_wmax; solve [reflexivity | eassumption | cbn; lra]
    | eapply row_wmin; solve [reflexivity | eassumption | cbn; lra]
    | eapply row_hmax; solve [reflexivity | eassumption | cbn; lra]
    | eapply row_hmin; solve [reflexivity | eassumption | cbn; lra]
    | eapply row_none; solve [reflexivity | eassumption | cbn; lra] ].
Qed.

Lemma le_inf_qmax a b : le_inf a (qmax_inf a b).
Proof. destruct b; cbn; [apply Q.le_max_l | exact I]. Qed.

(* ---- min_max_auto_replaced itself (max := max(min, max) as the code and the specification both do) *)
Theorem minmax_table_rows r w h minw minh maxw maxh rw rh :
  0 < w -> 0 < h ->
  table_10_4 w h minw minh (qmax_inf minw maxw) (qmax_inf minh maxh) rw rh ->
  fst (mmar (Some r) w h minw minh maxw maxh) == rw /\ snd (mmar (Some r) w h minw minh maxw maxh) == rh.
Proof.
  intros Hw Hh T. unfold mmar. apply mmar_ratio_rows; auto using le_inf_qmax.
Qed.

Theorem minmax_table_total r w h minw minh maxw maxh :
  0 < w -> 0 < h ->
  table_10_4 w h minw minh (qmax_inf minw maxw) (qmax_inf minh maxh)
             (fst (mmar (Some r) w h minw minh maxw maxh)) (snd (mmar (Some r) w h minw minh maxw maxh)).
Proof. intros Hw Hh. unfold mmar. now apply mmar_ratio_in_table. Qed.

Example minmax_example :
  mmar (Some 2) 100 50 0 0 (Some 40) None = (40, Qmax (40 * 50 / 100) 0).
Proof. reflexivity. Qed.
Example table_example : table_10_4 100 50 0 0 (Some 40) None 40 20.
Proof. eapply row_wmax; cbn; try reflexivity; try lra. Qed.

(* the zero-size work-around (width 0 replaced by 1e-6): the result can leave the [min, max] range.
   Witness: width 0, height 10, min-width 1e-7, min-height 10: the row "w < min-width" gives height
   min(1e-7 * 10 / 1e-6, inf) = 1 < min-height. *)
Lemma minmax_zero_width_refuted :
  exists w h minw minh maxw maxh,
    w == 0 /\ 0 < h /\ 0 <= minw /\ 0 <= minh /\ snd (mmar (Some 1) w h minw minh maxw maxh) < minh.
Proof.
  exists 0, 10, (1 # 10000000), 10, None, None. repeat split; try (vm_compute; congruence).
Qed.
