(* C14 - StyleFor._page_type_match of weasyprint/css/__init__.py as REGENERATED from the source on every run
   (gen/GenPageSel.v): for EVERY page selector (side, :blank, :first, name, :nth(an+b), :nth(an+b of group)) and
   EVERY page type (side, blank, name, index, any list of page groups) the body returns the boolean of the hand
   model page_type_match of model/C14Page.v, and raises nothing - so that C14_page_type_match, C14_nth_semantics
   and the cascade theorems that rest on page_type_match speak about the source.
   Integers are the numbers n#1 of base/Py.v; `offset / a` is the exact quotient and `offset % a` the primitive
   PMod (floor-mod) of base/Py.v, shown here to be Z.modulo on integers.  The loop over page_type.groups (tuple
   target, `if name != group_name: continue`) is handled for an abstract list by the technique of C11_gen_clearance. *)
From Coq Require Import ZArith QArith Qround Lqa List String Bool Lia.
Require Import WV.base.Py WV.base.PyLink WV.gen.GenPageSel WV.model.C14Page WV.proofs.C14_page WV.proofs.PyNatural.
Import ListNotations.
Open Scope string_scope.
Open Scope list_scope.

Lemma qeqb_inj a : Qeq_bool (inject_Z a) 0 = (a =? 0)%Z.
Proof. unfold Qeq_bool, inject_Z. cbn. rewrite Z.mul_1_r. destruct a; reflexivity. Qed.

Lemma qeqb_eq_z x z : (x == inject_Z z)%Q -> Qeq_bool x 0 = (z =? 0)%Z.
Proof.
  intros E. rewrite <- qeqb_inj. destruct (Qeq_bool (inject_Z z) 0) eqn:H.
  - apply Qeq_bool_iff. rewrite E. now apply Qeq_bool_iff.
  - destruct (Qeq_bool x 0) eqn:H'; [|reflexivity]. apply Qeq_bool_iff in H'. rewrite E in H'.
    apply Qeq_bool_iff in H'. congruence.
Qed.

Lemma qleb_comp a b c d : (a == c)%Q -> (b == d)%Q -> Qle_bool a b = Qle_bool c d.
Proof.
  intros E F. destruct (Qle_bool c d) eqn:H.
  - apply Qle_bool_iff. rewrite E, F. now apply Qle_bool_iff.
  - destruct (Qle_bool a b) eqn:H'; [|reflexivity]. apply Qle_bool_iff in H'. rewrite E, F in H'.
    apply Qle_bool_iff in H'. congruence.
Qed.

Lemma py_mod_int x off a : (x == inject_Z off)%Q -> a <> 0%Z ->
  exists r, prim_apply PMod [VNum x; VNum (inject_Z a)] = VNum r /\ (r == inject_Z (off mod a))%Q.
Proof.
  intros E Ha. unfold prim_apply. rewrite qeqb_inj. destruct (Z.eqb_spec a 0) as [|_]; [contradiction|].
  eexists. split; [reflexivity|].
  assert (F : Qfloor (x / inject_Z a) = (off / a)%Z).
  { rewrite E. symmetry. apply Zdiv_Qdiv. }
  rewrite F, E. rewrite Z.mod_eq by exact Ha. unfold Z.sub.
  rewrite inject_Z_plus, inject_Z_opp, inject_Z_mult. unfold Qminus. reflexivity.
Qed.

Definition vside (s : side) : val := VStr (match s with SLeft => "left" | SRight => "right" end).
Definition vopt {T} (f : T -> val) (o : option T) : val := match o with Some x => f x | None => VNone end.
Definition vz (z : Z) : val := VNum (inject_Z z).
Definition vidx (i : Z * Z * option string) : val := let '(a, b, g) := i in VList [vz a; vz b; vopt VStr g].
Definition vsel_raw (vs vb vf vi vn : val) : val :=
  VObj [("side", vs); ("blank", vb); ("first", vf); ("index", vi); ("name", vn)].
Definition vpt_raw (ps pb pn pi pg : val) : val :=
  VObj [("side", ps); ("blank", pb); ("name", pn); ("index", pi); ("groups", pg)].
Definition vsel (s : selector) : val :=
  vsel_raw (vopt vside (s_side s)) (vopt VBool (s_blank s)) (vopt VBool (s_first s)) (vopt vidx (s_index s))
           (vopt VStr (s_name s)).
Definition vgroup (g : string * Z) : val := VList [VStr (fst g); vz (snd g)].
Definition vpt (p : page_type) : val :=
  vpt_raw (vside (pt_side p)) (VBool (pt_blank p)) (VStr (pt_name p)) (vz (pt_index p)) (VList (map vgroup (pt_groups p))).

Definition env0 (s p : val) : env := [("page_selector_type", s); ("page_type", p)].
Definition st (n : nat) : stmt := nth n page_type_match_body SPass.
Lemma body_split : page_type_match_body = [st 0; st 1; st 2; st 3; st 4; st 5].
Proof. reflexivity. Qed.

Section Match.
Variable O : qops.
Hypothesis HO : ops_ok O.
Variable A : Type.
Variable P : val -> A.
Variable kerr : string -> A.
Notation kret := (fun (_ : env) (v : val) => P v).
Notation xb := (exec_block O A kret kerr).

Notation xs := (exec O A kret kerr).

Lemma guard_side vb vf vi vn pb pn pi pg os s K :
  xs (st 0) (env0 (vsel_raw (vopt vside os) vb vf vi vn) (vpt_raw (vside s) pb pn pi pg)) K =
  if opt_in side_eqb os s
  then K (env0 (vsel_raw (vopt vside os) vb vf vi vn) (vpt_raw (vside s) pb pn pi pg))
  else P (VBool false).
Proof. destruct os as [[|]|], s; lazy; reflexivity. Qed.

Lemma guard_blank vs vf vi vn ps pn pi pg ob b K :
  xs (st 1) (env0 (vsel_raw vs (vopt VBool ob) vf vi vn) (vpt_raw ps (VBool b) pn pi pg)) K =
  if opt_in Bool.eqb ob b
  then K (env0 (vsel_raw vs (vopt VBool ob) vf vi vn) (vpt_raw ps (VBool b) pn pi pg))
  else P (VBool false).
Proof. destruct ob as [[|]|], b; lazy; reflexivity. Qed.

Lemma guard_name vs vb vf vi ps pb pi pg on n K :
  xs (st 3) (env0 (vsel_raw vs vb vf vi (vopt VStr on)) (vpt_raw ps pb (VStr n) pi pg)) K =
  if opt_in String.eqb on n
  then K (env0 (vsel_raw vs vb vf vi (vopt VStr on)) (vpt_raw ps pb (VStr n) pi pg))
  else P (VBool false).
Proof. destruct on as [m|]; [|lazy; reflexivity]. cbn [opt_in].
  unfold st, page_type_match_body, env0, vsel_raw, vpt_raw, vopt. cbn. rewrite (String.eqb_sym n m).
  destruct (String.eqb m n); reflexivity. Qed.

Ltac unsealO := rewrite ?(qadd_eq _ HO), ?(qsub_eq _ HO), ?(qmul_eq _ HO), ?(qdiv_eq _ HO), ?(qleb_eq _ HO), ?(qeqb_eq _ HO) in *.

Lemma guard_first vs vb vi vn ps pb pn pg of i K :
  xs (st 2) (env0 (vsel_raw vs vb (vopt VBool of) vi vn) (vpt_raw ps pb pn (vz i) pg)) K =
  if opt_in Bool.eqb of (i =? 0)%Z
  then K (env0 (vsel_raw vs vb (vopt VBool of) vi vn) (vpt_raw ps pb pn (vz i) pg))
  else P (VBool false).
Proof.
  destruct of as [[|]|]; lazy -[qeqb inject_Z Z.eqb]; unsealO; rewrite ?qeqb_inj; destruct (i =? 0)%Z; reflexivity.
Qed.

Lemma idx_none vs vb vf vn p K :
  xs (st 4) (env0 (vsel_raw vs vb vf VNone vn) p) K = K (env0 (vsel_raw vs vb vf VNone vn) p).
Proof. lazy. reflexivity. Qed.


Lemma off_eq i b : (inject_Z i + 1 - inject_Z b == inject_Z (i + 1 - b))%Q.
Proof. unfold Z.sub. rewrite inject_Z_plus, inject_Z_opp, inject_Z_plus. reflexivity. Qed.

(* the test `offset == 0 if a == 0 else (offset / a >= 0 and not offset % a)` as the interpreter computes it *)
Ltac ev := lazy -[qadd qsub qdiv qleb qeqb inject_Z prim_apply nth_test Qplus Qminus Qdiv Qle_bool Qeq_bool Z.eqb Z.modulo].
Ltac nth_fin a b i :=
  let Ha := fresh "Ha" in
  destruct (Z.eqb_spec a 0) as [Ha|Ha];
  [ subst a; unsealO; change (Qeq_bool (inject_Z 0) 0) with true; cbv iota;
    rewrite (qeqb_eq_z _ _ (off_eq i b)); unfold nth_test; cbn [Z.eqb]
  | let r := fresh "r" in let Hr := fresh "Hr" in let Er := fresh "Er" in
    destruct (py_mod_int _ _ a (off_eq i b) Ha) as (r & Hr & Er);
    unsealO; unfold vz; rewrite Hr; cbv iota beta; unsealO;
    rewrite (qeqb_inj a), (qeqb_eq_z r _ Er),
            (qleb_comp 0 ((inject_Z i + 1 - inject_Z b) / inject_Z a) 0 (inject_Z (i + 1 - b) / inject_Z a)
                       (Qeq_refl 0) (Qdiv_comp _ _ (off_eq i b) _ _ (Qeq_refl _)));
    unfold nth_test; destruct (Z.eqb_spec a 0) as [|_]; [contradiction|] ].

Lemma idx_plain vs vb vf vn ps pb pn pg a b i K :
  xs (st 4) (env0 (vsel_raw vs vb vf (vidx (a, b, None)) vn) (vpt_raw ps pb pn (vz i) pg)) K =
  P (VBool (nth_test a b i)).
Proof.
  ev; nth_fin a b i.
  - destruct (i + 1 - b =? 0)%Z; reflexivity.
  - destruct (Qle_bool 0 (inject_Z (i + 1 - b) / inject_Z a)), ((i + 1 - b) mod a =? 0)%Z; reflexivity.
Qed.

Definition loop_body : list stmt :=
  match st 4 with
  | SIf _ [_; _; _; SFor _ _ body; _] _ => body
  | _ => []
  end.
Definition env1 (s p : val) (a b : Z) (g : string) : env :=
  env0 s p ++ [("a", vz a); ("b", vz b); ("name", VStr g)].
Inductive eshape := S0 | S1 (item : val) (gn : string) (gi : Z) | S2 (item : val) (gn : string) (gi : Z) (off : val).
Definition mk s p a b g (sh : eshape) : env :=
  match sh with
  | S0 => env1 s p a b g
  | S1 item gn gi => env1 s p a b g ++ [("%item", item); ("group_name", VStr gn); ("index", vz gi)]
  | S2 item gn gi off => env1 s p a b g ++ [("%item", item); ("group_name", VStr gn); ("index", vz gi); ("offset", off)]
  end.
Definition next_shape (b : Z) (g : string) (sh : eshape) (e : string * Z) : eshape :=
  if String.eqb g (fst e)
  then S2 (vgroup e) (fst e) (snd e) (VNum (qsub O (qadd O (inject_Z (snd e)) 1) (inject_Z b)))
  else match sh with
       | S0 | S1 _ _ _ => S1 (vgroup e) (fst e) (snd e)
       | S2 _ _ _ off => S2 (vgroup e) (fst e) (snd e) off
       end.

Lemma body_step s p a b g sh e k :
  xb loop_body (update "%item" (vgroup e) (mk s p a b g sh)) k =
  if String.eqb g (fst e) && nth_test a b (snd e) then P (VBool true) else k (mk s p a b g (next_shape b g sh e)).
Proof.
  destruct e as [gn gi]. unfold next_shape. cbn [fst snd].
  destruct sh as [|it0 gn0 gi0|it0 gn0 gi0 off0].
  all: unfold loop_body, st, page_type_match_body, mk, env1, env0, vgroup;
    cbn -[inject_Z prim_apply nth_test qadd qsub qdiv qleb qeqb];
    (destruct (String.eqb g gn); cbn [negb andb]; [|reflexivity]);
    nth_fin a b gi.
  all: try (destruct (gi + 1 - b =? 0)%Z; reflexivity).
  all: destruct (Qle_bool 0 (inject_Z (gi + 1 - b) / inject_Z a)), ((gi + 1 - b) mod a =? 0)%Z; reflexivity.
Qed.

Definition grp_test (a b : Z) (g : string) (e : string * Z) : bool := String.eqb g (fst e) && nth_test a b (snd e).

Lemma loop_spec s p a b g : forall l sh k,
  gen_iter (fun v rho k' => xb loop_body (update "%item" v rho) k') (map vgroup l) (mk s p a b g sh) k =
  if existsb (grp_test a b g) l then P (VBool true) else k (mk s p a b g (fold_left (next_shape b g) l sh)).
Proof.
  induction l as [|e l IH]; intros sh k; [reflexivity|].
  cbn [map gen_iter existsb fold_left]. rewrite body_step. unfold grp_test at 1.
  destruct (String.eqb g (fst e) && nth_test a b (snd e)); [reflexivity|apply IH].
Qed.

Lemma flowing_mk s p a b g sh : flowing (mk s p a b g sh) = false.
Proof. destruct sh; reflexivity. Qed.

Lemma idx_group vs vb vf vn ps pb a b g n i l K :
  xs (st 4) (env0 (vsel_raw vs vb vf (vidx (a, b, Some g)) vn) (vpt_raw ps pb (VStr n) (vz i) (VList (map vgroup l)))) K =
  P (VBool (if negb (String.eqb g n) then false else existsb (grp_test a b g) l)).
Proof.
  set (S := vsel_raw vs vb vf (vidx (a, b, Some g)) vn).
  set (Pv := vpt_raw ps pb (VStr n) (vz i) (VList (map vgroup l))).
  change (xs (st 4) (env0 S Pv) K) with
    (if negb (String.eqb g n) then P (VBool false)
     else gen_iter (fun v rho k' => xb loop_body (update "%item" v rho) k') (map vgroup l) (mk S Pv a b g S0)
                   (fun rho => if flowing rho then K rho else P (VBool false))).
  destruct (String.eqb g n); cbn [negb]; [|reflexivity].
  rewrite loop_spec, flowing_mk. destruct (existsb _ l); reflexivity.
Qed.

Lemma flowing_env0 s p : flowing (env0 s p) = false.
Proof. reflexivity. Qed.

Lemma last_returns_true rho k : xb [st 5] rho k = P (VBool true).
Proof. reflexivity. Qed.

(* the whole body, for every selector and page type and every observer *)
Lemma body_value (sel : selector) (pt : page_type) k :
  xb page_type_match_body (env0 (vsel sel) (vpt pt)) k = P (VBool (page_type_match sel pt)).
Proof.
  rewrite body_split. unfold page_type_match, vsel, vpt.
  cbn [exec_block]. rewrite guard_side.
  destruct (opt_in side_eqb (s_side sel) (pt_side pt)); cbn [negb]; [|reflexivity]. rewrite flowing_env0.
  rewrite guard_blank.
  destruct (opt_in Bool.eqb (s_blank sel) (pt_blank pt)); cbn [negb]; [|reflexivity]. rewrite flowing_env0.
  rewrite guard_first.
  destruct (opt_in Bool.eqb (s_first sel) (pt_index pt =? 0)%Z); cbn [negb]; [|reflexivity]. rewrite flowing_env0.
  rewrite guard_name.
  destruct (opt_in String.eqb (s_name sel) (pt_name pt)); cbn [negb]; [|reflexivity]. rewrite flowing_env0.
  destruct (s_index sel) as [[[a b] [g|]]|]; cbn [vopt].
  - rewrite idx_group. reflexivity.
  - rewrite idx_plain. reflexivity.
  - unfold vidx. rewrite idx_none, flowing_env0. reflexivity.
Qed.
End Match.

Theorem gen_page_type_match O (HO : ops_ok O) (sel : selector) (pt : page_type) :
  run O page_type_match_body (env0 (vsel sel) (vpt pt))
      (fun _ r => r = Some (VBool (page_type_match sel pt))) (fun _ => False).
Proof.
  unfold run.
  rewrite (body_value O HO Prop (fun v => Some v = Some (VBool (page_type_match sel pt))) (fun _ => False) sel pt).
  reflexivity.
Qed.
Print Assumptions gen_page_type_match.

(* the value of a call of the regenerated function (what a caller linked by base/PyLink.v receives) *)
Theorem call_page_type_match O (HO : ops_ok O) (sel : selector) (pt : page_type) :
  call_body O (page_type_match_args, page_type_match_body) [vsel sel; vpt pt] = VBool (page_type_match sel pt).
Proof.
  unfold call_body, page_type_match_args. cbn [fst snd bind]. unfold run.
  exact (body_value O HO val (fun v => v) VErr sel pt _).
Qed.

(* ---- consequences for the source: it decides the meaning of the selector *)
Lemma run_consequence O body rho (P P' : env -> option val -> Prop) (E E' : string -> Prop) :
  (forall r v, P r v -> P' r v) -> (forall m, E m -> E' m) -> run O body rho P E -> run O body rho P' E'.
Proof.
  intros HP HE. rewrite !run_natural. destruct (run_out O body rho) as [rho' r|m]; [apply HP|apply HE].
Qed.

Theorem source_page_type_match_spec O (HO : ops_ok O) (sel : selector) (pt : page_type) :
  run O page_type_match_body (env0 (vsel sel) (vpt pt))
      (fun _ r => exists m : bool, r = Some (VBool m) /\ (m = true <-> match_spec sel pt)) (fun _ => False).
Proof.
  eapply run_consequence; [| |exact (gen_page_type_match O HO sel pt)]; [|intros m []].
  intros _ r ->. exists (page_type_match sel pt). split; [reflexivity|apply page_type_match_iff].
Qed.

(* `@page :nth(an+b)` alone, for all integers a, b and every page index *)
Definition sel_nth (a b : Z) : selector := mkSel None None None (Some (a, b, None)) None.
Theorem source_nth_semantics O (HO : ops_ok O) (a b : Z) (pt : page_type) :
  run O page_type_match_body (env0 (vsel (sel_nth a b)) (vpt pt))
      (fun _ r => exists m : bool, r = Some (VBool m) /\
                  (m = true <-> exists n : Z, (0 <= n)%Z /\ (pt_index pt + 1 = a * n + b)%Z)) (fun _ => False).
Proof.
  eapply run_consequence; [| |exact (gen_page_type_match O HO (sel_nth a b) pt)]; [|intros m []].
  intros _ r ->. exists (page_type_match (sel_nth a b) pt). split; [reflexivity|].
  unfold page_type_match, sel_nth. cbn. apply nth_semantics.
Qed.

(* the hypotheses are satisfiable and the encodings are the ones the code reads: the real operations, concrete inputs *)
Example run_nth_of_group :
  call_body real_ops (page_type_match_args, page_type_match_body)
    [vsel (mkSel (Some SRight) None None (Some (2, 1, Some "chapter"))%Z (Some "chapter"));
     vpt (mkPT SRight false "chapter" 6 [("intro", 0); ("chapter", 2)]%Z)] = VBool true
  /\ call_body real_ops (page_type_match_args, page_type_match_body)
    [vsel (mkSel None None (Some true) (Some (-1, 3, None))%Z None); vpt (mkPT SLeft false "" 0 [])] = VBool true
  /\ call_body real_ops (page_type_match_args, page_type_match_body)
    [vsel (mkSel None None None (Some (-1, 3, None))%Z None); vpt (mkPT SLeft false "" 3 [])] = VBool false.
Proof. vm_compute. repeat split. Qed.
Print Assumptions call_page_type_match.
Print Assumptions source_page_type_match_spec.
Print Assumptions source_nth_semantics.
