(* C08 - proofs about the white-space model (model/C08Whitespace.v). *)
From Coq Require Import List Ascii Bool Arith Lia.
Require Import WV.model.C08Whitespace.
Import ListNotations.

(* ------------------------------------------------------------------ characters *)
Lemma cls_LF : cls LF = Klf. Proof. reflexivity. Qed.
Lemma cls_SP : cls SP = Kts. Proof. reflexivity. Qed.
Lemma cls_CR : cls CR = Kcr. Proof. reflexivity. Qed.
Lemma cls_TAB : cls TAB = Kts. Proof. reflexivity. Qed.

Lemma cls_ts_inv c : cls c = Kts -> c = TAB \/ c = SP.
Proof.
  unfold cls. destruct (Ascii.eqb_spec c TAB); [auto|]. destruct (Ascii.eqb_spec c SP); [auto|].
  destruct (Ascii.eqb c LF); [discriminate|]. destruct (Ascii.eqb c CR); discriminate.
Qed.
Lemma cls_lf_inv c : cls c = Klf -> c = LF.
Proof.
  unfold cls. destruct (Ascii.eqb c TAB); [discriminate|]. destruct (Ascii.eqb c SP); [discriminate|].
  destruct (Ascii.eqb_spec c LF); [auto|]. destruct (Ascii.eqb c CR); discriminate.
Qed.
Lemma eqb_SP_ts c : Ascii.eqb c SP = true -> cls c = Kts.
Proof. intros H. apply Ascii.eqb_eq in H. subst. reflexivity. Qed.

Ltac cl c := let E := fresh "E" in destruct (cls c) eqn:E;
  repeat (progress (simpl in *; unfold is_ts, is_lf, is_cr, is_white in *; rewrite ?E in *)).
Ltac ev := repeat (progress (simpl in *; unfold is_ts, is_lf, is_cr, is_white in *;
  repeat match goal with H : cls ?c = _ |- _ => progress (rewrite ?H in * ) end)).
Ltac side := first [discriminate | solve [auto]].
Ltac unf := unfold is_ts, is_lf, is_cr, is_white in *; rewrite ?cls_LF, ?cls_SP, ?cls_CR, ?cls_TAB in *; simpl in *.

Lemma bytes_eqb_refl x : bytes_eqb x x = true.
Proof. induction x; simpl; [reflexivity|]. rewrite Ascii.eqb_refl. exact IHx. Qed.
Lemma bytes_eqb_eq x y : bytes_eqb x y = true -> x = y.
Proof.
  revert y. induction x; destruct y; simpl; try discriminate; auto.
  intros H. apply andb_true_iff in H. destruct H as [H1 H2]. apply Ascii.eqb_eq in H1. f_equal; auto.
Qed.

(* ------------------------------------------------------------------ predicates on processed text *)
Definition noCR (s : list ascii) : Prop := Forall (fun c => is_cr c = false) s.
Definition noLF (s : list ascii) : Prop := Forall (fun c => is_lf c = false) s.
Definition allts (s : list ascii) : Prop := Forall (fun c => is_ts c = true) s.
Definition nonwhite (s : list ascii) : list ascii := filter (fun c => negb (is_white c)) s.
Definition nonts (s : list ascii) : list ascii := filter (fun c => negb (is_ts c)) s.

(* a = previous character is \n, p = previous character is [\t ]: no [\t ] next to a \n *)
Fixpoint clean (a p : bool) (t : list ascii) : bool :=
  match t with
  | [] => true
  | c :: r => match cls c with
              | Kts => negb a && clean false true r
              | Klf => negb p && clean true false r
              | _ => clean false false r
              end
  end.

(* b = previous character is [\t ]: every [\t ] is a single space *)
Fixpoint single (b : bool) (t : list ascii) : bool :=
  match t with
  | [] => true
  | c :: r => if is_ts c then negb b && Ascii.eqb c SP && single true r else single false r
  end.

(* ------------------------------------------------------------------ norm_lf *)
Lemma norm_lf_noCR b s : noCR (norm_lf b s).
Proof.
  revert b. induction s as [|c r IH]; intros b; simpl; [constructor|].
  cl c; try (constructor; [unf; rewrite ?E; reflexivity | apply IH]).
  - destruct b; [apply IH|]. constructor; [unf; rewrite E; reflexivity | apply IH].
Qed.

Lemma norm_lf_id s : noCR s -> norm_lf false s = s.
Proof.
  induction 1 as [|c r Hc Hr IH]; simpl; [reflexivity|].
  cl c; try discriminate; rewrite IH; reflexivity.
Qed.

Lemma norm_lf_nonwhite b s : nonwhite (norm_lf b s) = nonwhite s.
Proof.
  revert b. unfold nonwhite. induction s as [|c r IH]; intros b; simpl; [reflexivity|].
  cl c; rewrite ?E; simpl; rewrite ?IH; try reflexivity.
  - destruct b; simpl; rewrite ?E; simpl; apply IH.
Qed.

Lemma norm_lf_nonempty s : s <> [] -> norm_lf false s <> [].
Proof. destruct s as [|c r]; [congruence|]. intros _. simpl. cl c; discriminate. Qed.

Lemma skel_norm_lf b w s : (b = true -> w = true) -> skel w (norm_lf b s) = skel w s.
Proof.
  revert b w. induction s as [|c r IH]; intros b w Hb; simpl; [reflexivity|].
  cl c.
  - destruct w; rewrite IH by side; reflexivity.
  - destruct b.
    + rewrite (Hb eq_refl). apply IH. side.
    + ev. destruct w; rewrite IH by side; reflexivity.
  - destruct w; rewrite IH by side; reflexivity.
  - rewrite IH by side; reflexivity.
Qed.

(* ------------------------------------------------------------------ strip_nl *)
Lemma clean_allts p q : allts q -> clean false p q = true.
Proof.
  intros H. revert p. induction H as [|c r Hc Hr IH]; intros p; simpl; [reflexivity|].
  cl c; try discriminate. apply IH.
Qed.

Lemma clean_app_other a p q c x :
  allts q -> (a = true -> q = []) -> cls c <> Kts -> cls c <> Klf ->
  clean a p (q ++ c :: x) = clean false false x.
Proof.
  intros Hq Ha H1 H2. destruct q as [|d q'].
  - simpl. destruct (cls c); try congruence.
  - assert (a = false) by (destruct a; auto; specialize (Ha eq_refl); discriminate). subst a.
    clear Ha. revert p. induction Hq as [|e r He Hr IH]; intros p; simpl.
    + destruct (cls c); congruence.
    + cl e; try discriminate. apply IH.
Qed.

Lemma strip_nl_clean pend a s :
  allts pend -> (a = true -> pend = []) -> clean a false (strip_nl pend a s) = true.
Proof.
  revert pend a. induction s as [|c r IH]; intros pend a Hp Ha; simpl.
  - destruct a; [rewrite (Ha eq_refl); reflexivity | apply clean_allts; exact Hp].
  - destruct (cls c) eqn:E.
    + destruct a.
      * apply IH; [constructor | auto].
      * apply IH; [|discriminate]. apply Forall_app; split; [exact Hp|]. constructor; [|constructor].
        unfold is_ts. rewrite E. reflexivity.
    + simpl. rewrite E. simpl. apply IH; [constructor|auto].
    + rewrite clean_app_other; auto; try congruence. apply IH; [constructor|discriminate].
    + rewrite clean_app_other; auto; try congruence. apply IH; [constructor|discriminate].
Qed.

Lemma strip_nl_id a p t pend a' :
  clean a p t = true -> (a' = true -> a = true) -> (pend <> [] -> p = true) -> (a' = true -> pend = []) ->
  strip_nl pend a' t = pend ++ t.
Proof.
  revert a p pend a'. induction t as [|c r IH]; intros a p pend a' Hc H1 H2 H3; simpl.
  - rewrite app_nil_r. reflexivity.
  - simpl in Hc. destruct (cls c) eqn:E.
    + apply andb_true_iff in Hc. destruct Hc as [Ha Hc]. destruct a; [discriminate|].
      destruct a'; [specialize (H1 eq_refl); discriminate|].
      rewrite (IH false true (pend ++ [c]) false); auto; try discriminate.
      rewrite <- app_assoc. reflexivity.
    + apply andb_true_iff in Hc. destruct Hc as [Hp Hc]. destruct p; [discriminate|].
      assert (pend = []) by (destruct pend; auto; exfalso; assert (false = true) by (apply H2; discriminate); discriminate).
      subst pend. simpl. rewrite (IH true false [] true); auto; try discriminate; try congruence.
    + rewrite (IH false false [] false); auto; try discriminate; try congruence.
    + rewrite (IH false false [] false); auto; try discriminate; try congruence.
Qed.

Lemma strip_nl_id0 a p t : clean a p t = true -> strip_nl [] false t = t.
Proof. intros H. apply (strip_nl_id a p t [] false H); congruence. Qed.

Lemma nonts_app x y : nonts (x ++ y) = nonts x ++ nonts y.
Proof. unfold nonts. apply filter_app. Qed.
Lemma nonts_allts q : allts q -> nonts q = [].
Proof. induction 1 as [|c r Hc Hr IH]; simpl; [reflexivity|]. rewrite Hc. simpl. exact IH. Qed.

Lemma strip_nl_nonts pend a s : allts pend -> nonts (strip_nl pend a s) = nonts s.
Proof.
  revert pend a. induction s as [|c r IH]; intros pend a Hp; simpl.
  - apply nonts_allts. exact Hp.
  - destruct (cls c) eqn:E; unfold is_ts; rewrite ?E; simpl.
    + destruct a; apply IH; [constructor|]. apply Forall_app; split; [exact Hp|]. constructor; [|constructor].
      unfold is_ts. rewrite E. reflexivity.
    + unfold is_ts. rewrite E. simpl. f_equal. apply IH. constructor.
    + rewrite nonts_app, nonts_allts by exact Hp. simpl. unfold is_ts. rewrite E. simpl. f_equal. apply IH. constructor.
    + rewrite nonts_app, nonts_allts by exact Hp. simpl. unfold is_ts. rewrite E. simpl. f_equal. apply IH. constructor.
Qed.

Lemma nonwhite_nonts s : nonwhite (nonts s) = nonwhite s.
Proof.
  unfold nonwhite, nonts. induction s as [|c r IH]; simpl; [reflexivity|].
  cl c; rewrite ?E; simpl; rewrite ?E; simpl; rewrite IH; reflexivity.
Qed.

Lemma strip_nl_nonwhite s : nonwhite (strip_nl [] false s) = nonwhite s.
Proof. rewrite <- nonwhite_nonts, strip_nl_nonts by constructor. apply nonwhite_nonts. Qed.

Lemma strip_nl_noCR pend a s : noCR pend -> noCR s -> noCR (strip_nl pend a s).
Proof.
  intros Hp Hs. revert pend a Hp. induction Hs as [|c r Hc Hr IH]; intros pend a Hp; simpl; [exact Hp|].
  destruct (cls c) eqn:E.
  - destruct a; apply IH; [constructor|]. apply Forall_app; split; [exact Hp|]. constructor; [exact Hc|constructor].
  - constructor; [exact Hc|]. apply IH. constructor.
  - apply Forall_app; split; [exact Hp|]. constructor; [exact Hc|]. apply IH. constructor.
  - apply Forall_app; split; [exact Hp|]. constructor; [exact Hc|]. apply IH. constructor.
Qed.

Lemma strip_nl_nonempty pend s : pend ++ s <> [] -> strip_nl pend false s <> [].
Proof.
  revert pend. induction s as [|c r IH]; intros pend H; simpl.
  - rewrite app_nil_r in H. exact H.
  - destruct (cls c); try discriminate.
    + apply IH. destruct pend; discriminate.
    + destruct pend; discriminate.
    + destruct pend; discriminate.
Qed.

Lemma skel_app_white w q x :
  Forall (fun c => is_white c = true) q ->
  skel w (q ++ x) = match q with [] => skel w x | _ => if w then skel true x else SP :: skel true x end.
Proof.
  intros H. revert w. induction H as [|c r Hc Hr IH]; intros w; simpl; [reflexivity|].
  rewrite Hc. destruct w; rewrite IH; destruct r; reflexivity.
Qed.

Lemma allts_white q : allts q -> Forall (fun c => is_white c = true) q.
Proof. apply Forall_impl. intros c H. cl c; congruence. Qed.

Lemma skel_strip_nl pend a w s :
  allts pend -> (a = true -> pend = [] /\ w = true) -> skel w (strip_nl pend a s) = skel w (pend ++ s).
Proof.
  revert pend a w. induction s as [|c r IH]; intros pend a w Hp Ha; simpl.
  - rewrite app_nil_r. reflexivity.
  - destruct (cls c) eqn:E.
    + destruct a.
      * destruct (Ha eq_refl) as [-> ->]. simpl. unfold is_white. rewrite E.
        apply (IH [] true true); [constructor|auto].
      * rewrite IH; [rewrite <- app_assoc; reflexivity| |discriminate].
        apply Forall_app; split; [exact Hp|]. constructor; [|constructor]. unfold is_ts. rewrite E. reflexivity.
    + rewrite (skel_app_white w pend (c :: r)) by (apply allts_white; exact Hp).
      simpl. unfold is_white. rewrite E.
      assert (IH' := IH [] true true (Forall_nil _) (fun _ => conj eq_refl eq_refl)). simpl in IH'.
      destruct pend; destruct w; rewrite IH'; reflexivity.
    + rewrite !(skel_app_white w pend) by (apply allts_white; exact Hp).
      simpl. unfold is_white. rewrite E.
      assert (IH' := IH [] false true (Forall_nil _)). simpl in IH'. rewrite IH' by discriminate.
      reflexivity.
    + rewrite !(skel_app_white w pend) by (apply allts_white; exact Hp).
      simpl. unfold is_white. rewrite E.
      assert (IH' := IH [] false false (Forall_nil _)). simpl in IH'. rewrite IH' by discriminate.
      reflexivity.
Qed.

(* ------------------------------------------------------------------ nl_to_sp *)
Lemma nl_to_sp_noLF s : noLF (nl_to_sp s).
Proof.
  induction s as [|c r IH]; simpl; [constructor|]. constructor; [|exact IH].
  cl c; rewrite ?E; auto.
Qed.
Lemma nl_to_sp_id s : noLF s -> nl_to_sp s = s.
Proof. induction 1 as [|c r Hc Hr IH]; simpl; [reflexivity|]. rewrite Hc, IH. reflexivity. Qed.
Lemma nl_to_sp_noCR s : noCR s -> noCR (nl_to_sp s).
Proof.
  induction 1 as [|c r Hc Hr IH]; simpl; [constructor|]. constructor; [|exact IH].
  cl c; auto.
Qed.
Lemma nl_to_sp_nonwhite s : nonwhite (nl_to_sp s) = nonwhite s.
Proof.
  unfold nonwhite. induction s as [|c r IH]; simpl; [reflexivity|].
  cl c; rewrite ?E; simpl; rewrite IH; reflexivity.
Qed.
Lemma skel_nl_to_sp w s : skel w (nl_to_sp s) = skel w s.
Proof.
  revert w. induction s as [|c r IH]; intros w; simpl; [reflexivity|].
  cl c; rewrite ?E; simpl; rewrite ?IH; reflexivity.
Qed.
Lemma nl_to_sp_nonempty s : s <> [] -> nl_to_sp s <> [].
Proof. destruct s; [congruence|discriminate]. Qed.
Lemma clean_noLF p s : noLF s -> clean false p s = true.
Proof.
  intros H. revert p. induction H as [|c r Hc Hr IH]; intros p; simpl; [reflexivity|].
  cl c; try discriminate; apply IH.
Qed.

(* ------------------------------------------------------------------ collapse_sp *)
Lemma collapse_single b s : single b (collapse_sp b s) = true.
Proof.
  revert b. induction s as [|c r IH]; intros b; simpl; [reflexivity|].
  destruct (is_ts c) eqn:E.
  - destruct b; [apply IH|]. simpl. unf. apply IH.
  - simpl. rewrite E. apply IH.
Qed.
Lemma collapse_id b t : single b t = true -> collapse_sp b t = t.
Proof.
  revert b. induction t as [|c r IH]; intros b H; simpl; [reflexivity|]. simpl in H.
  destruct (is_ts c) eqn:E.
  - apply andb_true_iff in H. destruct H as [H H2]. apply andb_true_iff in H. destruct H as [Hb Hc].
    destruct b; [discriminate|]. apply Ascii.eqb_eq in Hc. subst c. rewrite IH; auto.
  - rewrite IH; auto.
Qed.
Lemma single_weaken t : single true t = true -> single false t = true.
Proof.
  destruct t as [|c r]; simpl; [auto|]. destruct (is_ts c); [|auto]. simpl. discriminate.
Qed.
Lemma collapse_noCR b s : noCR s -> noCR (collapse_sp b s).
Proof.
  intros H. revert b. induction H as [|c r Hc Hr IH]; intros b; simpl; [constructor|].
  destruct (is_ts c); [destruct b; [apply IH|constructor; [reflexivity|apply IH]]|constructor; [exact Hc|apply IH]].
Qed.
Lemma collapse_noLF b s : noLF s -> noLF (collapse_sp b s).
Proof.
  intros H. revert b. induction H as [|c r Hc Hr IH]; intros b; simpl; [constructor|].
  destruct (is_ts c); [destruct b; [apply IH|constructor; [reflexivity|apply IH]]|constructor; [exact Hc|apply IH]].
Qed.
Lemma collapse_nonts b s : nonts (collapse_sp b s) = nonts s.
Proof.
  revert b. unfold nonts. induction s as [|c r IH]; intros b; simpl; [reflexivity|].
  destruct (is_ts c) eqn:E; simpl.
  - destruct b; simpl; unf; apply IH.
  - rewrite E. simpl. rewrite IH. reflexivity.
Qed.
Lemma collapse_nonwhite s : nonwhite (collapse_sp false s) = nonwhite s.
Proof. rewrite <- nonwhite_nonts, collapse_nonts. apply nonwhite_nonts. Qed.
Lemma collapse_nonempty s : s <> [] -> collapse_sp false s <> [].
Proof. destruct s as [|c r]; [congruence|]. intros _. simpl. destruct (is_ts c); discriminate. Qed.
Lemma collapse_clean a p b x :
  clean a p x = true -> (b = true -> p = true) -> clean a p (collapse_sp b x) = true.
Proof.
  revert a p b. induction x as [|c r IH]; intros a p b H Hb; simpl; [reflexivity|]. simpl in H.
  destruct (cls c) eqn:E; unfold is_ts; rewrite E.
  - apply andb_true_iff in H. destruct H as [Ha H]. destruct a; [discriminate|]. destruct b.
    + rewrite (Hb eq_refl). apply IH; auto.
    + simpl. unf. apply IH; auto.
  - apply andb_true_iff in H. destruct H as [Hp H]. destruct p; [discriminate|].
    destruct b; [specialize (Hb eq_refl); discriminate|]. simpl. rewrite E. simpl. apply IH; auto.
  - simpl. rewrite E. apply IH; auto; discriminate.
  - simpl. rewrite E. apply IH; auto; discriminate.
Qed.
Lemma skel_collapse b w s : (b = true -> w = true) -> skel w (collapse_sp b s) = skel w s.
Proof.
  revert b w. induction s as [|c r IH]; intros b w Hb; simpl; [reflexivity|].
  cl c.
  - destruct b.
    + rewrite (Hb eq_refl). apply IH. auto.
    + ev. unf. destruct w; rewrite IH by side; reflexivity.
  - destruct w; rewrite IH by side; reflexivity.
  - destruct w; rewrite IH by side; reflexivity.
  - rewrite IH by side; reflexivity.
Qed.

(* a text whose white space is single spaces only is its own skeleton *)
Lemma skel_id b t : noCR t -> noLF t -> single b t = true -> skel b t = t.
Proof.
  intros H1 H2. revert b. induction H1 as [|c r Hc Hr IH]; intros b H; simpl; [reflexivity|].
  inversion H2 as [|? ? Hl Hl']; subst. simpl in H.
  cl c; try discriminate.
  - apply andb_true_iff in H. destruct H as [H H3]. apply andb_true_iff in H. destruct H as [Hb Hs].
    destruct b; [discriminate|]. apply Ascii.eqb_eq in Hs. subst c. rewrite IH; auto.
  - rewrite IH; auto.
Qed.

(* ------------------------------------------------------------------ the pipeline *)
Definition stable (w : wsv) (t : list ascii) : Prop :=
  noCR t /\ (sp_collapse w = true ->
             (exists a p, clean a p t = true) /\ single false t = true /\ (nl_collapse w = true -> noLF t)).

Lemma pipeline_stable w s : stable w (pw_pipeline w s).
Proof.
  assert (N := norm_lf_noCR false s).
  assert (S1 : noCR (strip_nl [] false (norm_lf false s))) by (apply strip_nl_noCR; [constructor|exact N]).
  assert (A : forall x, noCR x -> stable WNormal (collapse_sp false (nl_to_sp x)) /\ stable WNowrap (collapse_sp false (nl_to_sp x))).
  { intros x Hx. split; (split; [apply collapse_noCR, nl_to_sp_noCR, Hx|]); intros _;
    (split; [|split; [apply collapse_single | intros _; apply collapse_noLF, nl_to_sp_noLF]]);
    exists false, false; (apply collapse_clean; [|discriminate]); apply clean_noLF, nl_to_sp_noLF. }
  unfold pw_pipeline. destruct w; simpl.
  - apply A. exact S1.
  - apply A. exact S1.
  - split; [exact N|discriminate].
  - split; [exact N|discriminate].
  - split; [apply collapse_noCR, S1|]. intros _.
    split; [|split; [apply collapse_single | discriminate]].
    exists false, false. apply collapse_clean; [|discriminate]. apply strip_nl_clean; [constructor|discriminate].
  - split; [exact N|discriminate].
Qed.

Lemma pipeline_noCR w s : noCR (pw_pipeline w s).
Proof.
  destruct (pipeline_stable w s) as [H _]. exact H.
Qed.

Lemma stable_fix w t : stable w t -> pw_pipeline w t = t.
Proof.
  intros [H1 H2]. unfold pw_pipeline. rewrite (norm_lf_id t H1).
  destruct w; simpl in *; try reflexivity;
    destruct (H2 eq_refl) as [[a [p Hc]] [Hs Hl]]; rewrite (strip_nl_id0 a p t Hc).
  - rewrite (nl_to_sp_id t (Hl eq_refl)). apply collapse_id, Hs.
  - rewrite (nl_to_sp_id t (Hl eq_refl)). apply collapse_id, Hs.
  - apply collapse_id, Hs.
Qed.

Lemma clean_tl a p c r : clean a p (c :: r) = true -> exists a' p', clean a' p' r = true.
Proof.
  simpl. destruct (cls c); intros H.
  - apply andb_true_iff in H. destruct H as [_ H]. eauto.
  - apply andb_true_iff in H. destruct H as [_ H]. eauto.
  - eauto.
  - eauto.
Qed.

Lemma single_tl b c r : single b (c :: r) = true -> single false r = true.
Proof.
  simpl. destruct (is_ts c); intros H.
  - apply andb_true_iff in H. destruct H as [_ H]. apply single_weaken. exact H.
  - exact H.
Qed.

Lemma stable_tl w t : stable w t -> stable w (tl t).
Proof.
  destruct t as [|c r]; [auto|]. simpl. intros [H1 H2]. split; [inversion H1; assumption|].
  intros Hs. destruct (H2 Hs) as [[a [p Hc]] [Hsi Hl]]. split; [|split].
  - eapply clean_tl. exact Hc.
  - eapply single_tl. exact Hsi.
  - intros Hn. specialize (Hl Hn). inversion Hl; assumption.
Qed.

Lemma pipeline_nonempty w s : s <> [] -> pw_pipeline w s <> [].
Proof.
  intros H. unfold pw_pipeline. pose proof (norm_lf_nonempty s H) as H1.
  assert (H2 : strip_nl [] false (norm_lf false s) <> []) by (apply strip_nl_nonempty; exact H1).
  destruct w; simpl; auto using collapse_nonempty, nl_to_sp_nonempty.
Qed.

Lemma ends_sp_cons c r : r <> [] -> ends_sp (c :: r) = ends_sp r.
Proof.
  intros H. unfold ends_sp. simpl. destruct (rev r) eqn:E.
  - exfalso. apply H. apply (f_equal (@rev ascii)) in E. rewrite rev_involutive in E. exact E.
  - reflexivity.
Qed.

Lemma single_true_nostart t : single true t = true -> starts_sp t = false.
Proof.
  destruct t as [|c r]; simpl; [auto|]. destruct (is_ts c) eqn:E; [simpl; discriminate|].
  intros _. destruct (Ascii.eqb c SP) eqn:Ec; [|reflexivity].
  apply eqb_SP_ts in Ec. unfold is_ts in E. rewrite Ec in E. discriminate.
Qed.

(* ------------------------------------------------------------------ one text box: absorption and idempotence *)
Definition leb (a b : bool) : Prop := a = true -> b = true.

Lemma pw_text_ne w f s : s <> [] ->
  pw_text w f s =
  (if sp_collapse w
   then (if f && starts_sp (pw_pipeline w s) then (tl (pw_pipeline w s), ends_sp (pw_pipeline w s), true)
         else (pw_pipeline w s, ends_sp (pw_pipeline w s), false))
   else (pw_pipeline w s, false, false)).
Proof. destruct s; [congruence|reflexivity]. Qed.

Lemma single_sp_tl c r : single false (c :: r) = true -> Ascii.eqb c SP = true -> single true r = true.
Proof.
  simpl. intros H Hc. pose proof (eqb_SP_ts c Hc) as E. unfold is_ts in H. rewrite E in H. simpl in H.
  apply andb_true_iff in H. destruct H as [_ H]. exact H.
Qed.

Lemma pw_text_absorb w f0 f s :
  leb f0 f ->
  let '(t1, g1, l1) := pw_text w f0 s in
  let '(t2, g2, l2) := pw_text w f t1 in
  let '(t3, g3, l3) := pw_text w f s in
  t2 = t3 /\ g2 = g3 /\ leb g1 g3 /\ (l1 || l2 = l3).
Proof.
  intros Hle. destruct s as [|c0 s0].
  - simpl. repeat split; auto.
  - set (s := c0 :: s0). assert (Hs : s <> []) by discriminate. clearbody s.
    rewrite !(pw_text_ne w _ s Hs).
    pose proof (pipeline_stable w s) as Hst. pose proof (pipeline_nonempty w s Hs) as Hne.
    set (p := pw_pipeline w s) in *. clearbody p.
    destruct (sp_collapse w) eqn:Ec.
    + destruct (f0 && starts_sp p) eqn:E0.
      * apply andb_true_iff in E0. destruct E0 as [Hf0 Hsp]. rewrite (Hle Hf0). rewrite Hsp. simpl.
        destruct p as [|c r]; [congruence|]. simpl tl. simpl in Hsp.
        pose proof (stable_tl w (c :: r) Hst) as Hst'. simpl in Hst'.
        assert (Hsi : single true r = true).
        { destruct Hst as [_ Hst]. destruct (Hst Ec) as [_ [Hsi _]]. apply (single_sp_tl c r Hsi Hsp). }
        destruct r as [|d r'] eqn:Er.
        -- simpl. apply Ascii.eqb_eq in Hsp. subst c. repeat split; auto; unfold leb; auto.
        -- rewrite <- Er in *. assert (Hr : r <> []) by (rewrite Er; discriminate).
           rewrite (pw_text_ne w true r Hr). rewrite Ec. rewrite (stable_fix w r Hst').
           rewrite (single_true_nostart r Hsi). simpl.
           rewrite (ends_sp_cons c r Hr). repeat split; auto; unfold leb; auto.
      * rewrite (pw_text_ne w f p Hne). rewrite Ec. rewrite (stable_fix w p Hst).
        destruct (f && starts_sp p); repeat split; auto; unfold leb; auto.
    + rewrite (pw_text_ne w f p Hne). rewrite Ec. rewrite (stable_fix w p Hst).
      repeat split; auto; unfold leb; auto.
Qed.

Lemma pw_text_idem w f s :
  let '(t1, g1, l1) := pw_text w f s in
  let '(t2, g2, l2) := pw_text w f t1 in
  t2 = t1 /\ g2 = g1 /\ (l1 || l2 = l1).
Proof.
  pose proof (pw_text_absorb w f f s (fun H => H)) as H.
  destruct (pw_text w f s) as [[t1 g1] l1]. destruct (pw_text w f t1) as [[t2 g2] l2].
  destruct H as [H1 [H2 [_ H4]]]. auto.
Qed.

(* ------------------------------------------------------------------ one text box: what the result looks like *)
Definition txt (x : list ascii * bool * bool) : list ascii := fst (fst x).
Definition flg (x : list ascii * bool * bool) : bool := snd (fst x).

Lemma pipeline_nonwhite w s : nonwhite (pw_pipeline w s) = nonwhite s.
Proof.
  unfold pw_pipeline. destruct w; simpl;
    rewrite ?collapse_nonwhite, ?nl_to_sp_nonwhite, ?strip_nl_nonwhite; apply norm_lf_nonwhite.
Qed.

Lemma nonwhite_tl_sp p : starts_sp p = true -> nonwhite (tl p) = nonwhite p.
Proof.
  destruct p as [|c r]; simpl; [discriminate|]. intros H. apply eqb_SP_ts in H.
  unfold nonwhite. simpl. unfold is_white. rewrite H. reflexivity.
Qed.

Lemma pw_text_nonwhite w f s : nonwhite (txt (pw_text w f s)) = nonwhite s.
Proof.
  destruct s as [|c0 s0]; [reflexivity|]. rewrite pw_text_ne by discriminate.
  destruct (sp_collapse w); [|apply pipeline_nonwhite].
  destruct (f && starts_sp _) eqn:E; unfold txt; simpl; [|apply pipeline_nonwhite].
  apply andb_true_iff in E. destruct E as [_ E]. rewrite nonwhite_tl_sp by exact E. apply pipeline_nonwhite.
Qed.

Lemma pw_text_preserving w f s :
  sp_collapse w = false -> s <> [] -> pw_text w f s = (norm_lf false s, false, false).
Proof.
  intros Hw Hs. rewrite pw_text_ne by exact Hs. rewrite Hw. unfold pw_pipeline. rewrite Hw.
  destruct w; try discriminate; reflexivity.
Qed.

Lemma pipeline_skel w s : nl_collapse w = true -> pw_pipeline w s = skel false s.
Proof.
  intros Hw. pose proof (pipeline_stable w s) as [H1 H2].
  assert (Hc : sp_collapse w = true) by (destruct w; try discriminate; reflexivity).
  destruct (H2 Hc) as [_ [Hs Hl]]. rewrite <- (skel_id false _ H1 (Hl Hw) Hs).
  unfold pw_pipeline. rewrite Hc, Hw.
  rewrite skel_collapse by side. rewrite skel_nl_to_sp. rewrite skel_strip_nl by (try constructor; side).
  simpl. apply skel_norm_lf. side.
Qed.

Fixpoint last_sp (f : bool) (l : list (option ascii)) : bool :=
  match l with [] => f | Some c :: r => last_sp (Ascii.eqb c SP) r | None :: r => last_sp false r end.

Lemma no_double_app f a b : no_double f (a ++ b) = no_double f a && no_double (last_sp f a) b.
Proof.
  revert f. induction a as [|[c|] r IH]; intros f; simpl; [reflexivity| |apply IH].
  destruct (Ascii.eqb c SP); rewrite IH; [rewrite andb_assoc|]; reflexivity.
Qed.
Lemma last_sp_app f a b : last_sp f (a ++ b) = last_sp (last_sp f a) b.
Proof. revert f. induction a as [|[c|] r IH]; intros f; simpl; auto. Qed.

Lemma last_sp_text f r : r <> [] -> last_sp f (map Some r) = ends_sp r.
Proof.
  revert f. induction r as [|c r IH]; intros f H; [congruence|]. simpl.
  destruct r as [|d r']; [reflexivity|]. rewrite IH by discriminate. symmetry. apply ends_sp_cons. discriminate.
Qed.

Lemma single_nd b t : single b t = true -> no_double b (map Some t) = true.
Proof.
  revert b. induction t as [|c r IH]; intros b H; simpl in *; [reflexivity|].
  destruct (is_ts c) eqn:E.
  - apply andb_true_iff in H. destruct H as [H H2]. apply andb_true_iff in H. destruct H as [Hb Hc].
    rewrite Hc, Hb. simpl. apply IH. exact H2.
  - destruct (Ascii.eqb c SP) eqn:Ec; [apply eqb_SP_ts in Ec; unfold is_ts in E; rewrite Ec in E; discriminate|].
    apply IH. exact H.
Qed.

Lemma single_nostart t : single false t = true -> starts_sp t = false -> single true t = true.
Proof.
  destruct t as [|c r]; simpl; [auto|]. destruct (is_ts c); [|auto]. simpl. intros H Hc. rewrite Hc in H. discriminate.
Qed.

Lemma single_forall b t : single b t = true -> forallb (fun c => negb (is_ts c) || Ascii.eqb c SP) t = true.
Proof.
  revert b. induction t as [|c r IH]; intros b H; simpl in *; [reflexivity|].
  destruct (is_ts c).
  - apply andb_true_iff in H. destruct H as [H H2]. apply andb_true_iff in H. destruct H as [_ Hc].
    rewrite Hc. simpl. eapply IH. exact H2.
  - simpl. eapply IH. exact H.
Qed.

Lemma pw_text_nd w f s :
  sp_collapse w = true ->
  no_double f (map Some (txt (pw_text w f s))) = true /\
  flg (pw_text w f s) = last_sp f (map Some (txt (pw_text w f s))) /\
  forallb (fun c => negb (is_ts c) || Ascii.eqb c SP) (txt (pw_text w f s)) = true.
Proof.
  intros Hw. destruct s as [|c0 s0]; [simpl; auto|].
  set (s := c0 :: s0). assert (Hs : s <> []) by discriminate. clearbody s.
  rewrite pw_text_ne by exact Hs. rewrite Hw.
  pose proof (pipeline_stable w s) as [_ H2]. destruct (H2 Hw) as [_ [Hsi _]].
  pose proof (pipeline_nonempty w s Hs) as Hne. set (p := pw_pipeline w s) in *. clearbody p.
  destruct (f && starts_sp p) eqn:E; unfold txt, flg; simpl.
  - apply andb_true_iff in E. destruct E as [-> Hsp]. destruct p as [|c r]; [congruence|]. simpl in *.
    pose proof (single_sp_tl c r Hsi Hsp) as Hr. split; [apply single_nd; exact Hr|]. split.
    + destruct r as [|d r']; [simpl; unfold ends_sp; simpl; exact Hsp|].
      rewrite last_sp_text by discriminate. apply ends_sp_cons. discriminate.
    + eapply single_forall. exact Hr.
  - split; [|split].
    + destruct f; [|apply single_nd; exact Hsi]. simpl in E. apply single_nd. apply single_nostart; assumption.
    + symmetry. apply last_sp_text. exact Hne.
    + eapply single_forall. exact Hsi.
Qed.

Lemma nonts_tl_sp p : starts_sp p = true -> nonts (tl p) = nonts p.
Proof.
  destruct p as [|c r]; simpl; [discriminate|]. intros H. apply eqb_SP_ts in H.
  unfold nonts. simpl. unfold is_ts. rewrite H. reflexivity.
Qed.

(* the model meets the CSS Text 3 reading of each white-space value *)
Lemma pw_text_spec w f s : spec_text w f s (txt (pw_text w f s)) = true.
Proof.
  destruct s as [|c0 s0]; [reflexivity|].
  set (s := c0 :: s0). assert (Hs : s <> []) by discriminate.
  assert (Hsp : spec_text w f s (txt (pw_text w f s)) =
    if nl_collapse w then bytes_eqb (txt (pw_text w f s)) (if f && starts_sp (skel false s) then tl (skel false s) else skel false s)
    else if sp_collapse w then
      bytes_eqb (nonts (txt (pw_text w f s))) (nonts (norm_lf false s))
      && no_double f (map Some (txt (pw_text w f s)))
      && forallb (fun c => negb (is_ts c) || Ascii.eqb c SP) (txt (pw_text w f s))
    else bytes_eqb (txt (pw_text w f s)) (norm_lf false s)) by reflexivity.
  rewrite Hsp. clear Hsp. clearbody s.
  destruct (nl_collapse w) eqn:En.
  - rewrite pw_text_ne by exact Hs. assert (Hc : sp_collapse w = true) by (destruct w; try discriminate; reflexivity).
    rewrite Hc. rewrite (pipeline_skel w s En).
    destruct (f && starts_sp (skel false s)); unfold txt; simpl; apply bytes_eqb_refl.
  - destruct (sp_collapse w) eqn:Ec.
    + destruct (pw_text_nd w f s Ec) as [H1 [_ H3]]. rewrite H1, H3. rewrite !andb_true_r.
      assert (Hn : nonts (txt (pw_text w f s)) = nonts (norm_lf false s)); [|rewrite Hn; apply bytes_eqb_refl].
      rewrite pw_text_ne by exact Hs. rewrite Ec.
      assert (Hp : nonts (pw_pipeline w s) = nonts (norm_lf false s)).
      { unfold pw_pipeline. rewrite Ec, En. rewrite collapse_nonts. apply strip_nl_nonts. constructor. }
      destruct (f && starts_sp _) eqn:E; unfold txt; simpl; [|exact Hp].
      apply andb_true_iff in E. destruct E as [_ E]. rewrite nonts_tl_sp by exact E. exact Hp.
    + rewrite pw_text_preserving by assumption. apply bytes_eqb_refl.
Qed.

(* ------------------------------------------------------------------ threading: induction principle *)
Section NodeInd.
  Variable P : node -> Prop.
  Hypothesis HT : forall w l s, P (T w l s).
  Hypothesis HI : forall fl ru ks, Forall P ks -> P (I fl ru ks).
  Hypothesis HO : forall fl, P (O fl).
  Fixpoint node_ind' (n : node) : P n :=
    match n with
    | T w l s => HT w l s
    | I fl ru ks => HI fl ru ks ((fix go (l : list node) : Forall P l :=
                                    match l with [] => Forall_nil _ | k :: r => Forall_cons _ (node_ind' k) (go r) end) ks)
    | O fl => HO fl
    end.
End NodeInd.

Lemma pw_node_I f fl ru ks :
  pw_node f (I fl ru ks) = (I fl ru (fst (pw_kids f ks)), snd (pw_kids f ks) && negb ru).
Proof.
  simpl.
  match goal with |- context [?F f ks] =>
    assert (H : forall f, F f ks = pw_kids f ks) end.
  { clear f. induction ks as [|k r IH]; intros f; simpl; [reflexivity|].
    destruct k; try (match goal with |- context [pw_node f ?x] => destruct (pw_node f x) as [k' fc] end);
      rewrite IH; reflexivity. }
  rewrite H. destruct (pw_kids f ks). reflexivity.
Qed.

Lemma flat_I fl ru ks : flat (I fl ru ks) = flats ks.
Proof. simpl. induction ks as [|k r IH]; simpl; [reflexivity|]. rewrite IH. reflexivity. Qed.
Lemma all_text_I P fl ru ks : all_text P (I fl ru ks) = all_texts P ks.
Proof. simpl. induction ks as [|k r IH]; simpl; [reflexivity|]. rewrite IH. reflexivity. Qed.
Lemma inl_flow_I fl ru ks : inl_flow (I fl ru ks) = fl && negb ru && inl_flows ks.
Proof. simpl. f_equal; try (induction ks as [|k r IH]; simpl; [reflexivity|]; rewrite <- IH; reflexivity). Qed.

Lemma pw_node_flow f n : node_flow (fst (pw_node f n)) = node_flow n.
Proof.
  destruct n; [simpl; destruct (pw_text w f s) as [[? ?] ?]; reflexivity | rewrite pw_node_I; reflexivity | reflexivity].
Qed.

Definition is_O (n : node) : bool := match n with O _ => true | _ => false end.

Lemma pw_kids_consN f k r :
  is_O k = false ->
  pw_kids f (k :: r) =
  (fst (pw_node f k) :: fst (pw_kids (if node_flow k then snd (pw_node f k) else f) r),
   snd (pw_kids (if node_flow k then snd (pw_node f k) else f) r)).
Proof.
  intros H. simpl. destruct k; [| |discriminate].
  - destruct (pw_node f (T w lead s)) as [k' c]. simpl. destruct (pw_kids _ r). reflexivity.
  - destruct (pw_node f (I flow run kids)) as [k' c]. simpl. destruct (pw_kids _ r). reflexivity.
Qed.

Lemma pw_kids_consO f fl r :
  pw_kids f (O fl :: r) =
  (O fl :: fst (pw_kids (if fl then false else f) r), snd (pw_kids (if fl then false else f) r)).
Proof. simpl. destruct (pw_kids _ r). reflexivity. Qed.

Lemma pw_node_isO f n : is_O (fst (pw_node f n)) = is_O n.
Proof.
  destruct n; [simpl; destruct (pw_text w f s) as [[? ?] ?]; reflexivity | rewrite pw_node_I; reflexivity | reflexivity].
Qed.

Lemma pw_node_T f w l s :
  pw_node f (T w l s) = (T w (l || snd (pw_text w f s)) (txt (pw_text w f s)), flg (pw_text w f s)).
Proof. simpl. destruct (pw_text w f s) as [[? ?] ?]. reflexivity. Qed.

(* ------------------------------------------------------------------ absorption over trees *)
Definition absorb_node (n : node) : Prop :=
  forall f0 f, leb f0 f ->
  fst (pw_node f (fst (pw_node f0 n))) = fst (pw_node f n) /\
  snd (pw_node f (fst (pw_node f0 n))) = snd (pw_node f n) /\
  leb (snd (pw_node f0 n)) (snd (pw_node f n)).

Definition absorb_kids (ks : list node) : Prop :=
  forall f0 f, leb f0 f ->
  fst (pw_kids f (fst (pw_kids f0 ks))) = fst (pw_kids f ks) /\
  snd (pw_kids f (fst (pw_kids f0 ks))) = snd (pw_kids f ks) /\
  leb (snd (pw_kids f0 ks)) (snd (pw_kids f ks)).

Lemma absorb_kids_of ks : Forall absorb_node ks -> absorb_kids ks.
Proof.
  induction 1 as [|k r Hk Hr IH]; intros f0 f Hle.
  - simpl. auto.
  - destruct (is_O k) eqn:EO.
    + destruct k; try discriminate. rewrite !pw_kids_consO. cbn [fst snd]. rewrite pw_kids_consO. cbn [fst snd].
      assert (HF13 : leb (if flow then false else f0) (if flow then false else f))
        by (destruct flow; [intro; assumption|assumption]).
      destruct (IH _ _ HF13) as [A' [B' C']]. rewrite A', B'. auto.
    + destruct (Hk f0 f Hle) as [A [B C]].
      rewrite (pw_kids_consN f0 k r EO), (pw_kids_consN f k r EO). cbn [fst snd].
      rewrite (pw_kids_consN f (fst (pw_node f0 k))) by (rewrite pw_node_isO; exact EO). cbn [fst snd].
      rewrite pw_node_flow, A, B.
      set (F1 := if node_flow k then snd (pw_node f0 k) else f0).
      set (F3 := if node_flow k then snd (pw_node f k) else f).
      assert (HF13 : leb F1 F3) by (unfold F1, F3; destruct (node_flow k); assumption).
      destruct (IH F1 F3 HF13) as [A' [B' C']]. rewrite A', B'. auto.
Qed.

Lemma absorb_all n : absorb_node n.
Proof.
  induction n as [w l s|fl ru ks IH|fl] using node_ind'; intros f0 f Hle.
  - rewrite !pw_node_T. cbn [fst snd]. rewrite pw_node_T. cbn [fst snd].
    pose proof (pw_text_absorb w f0 f s Hle) as H. unfold txt, flg.
    destruct (pw_text w f0 s) as [[t1 g1] l1]. cbn [fst snd].
    destruct (pw_text w f t1) as [[t2 g2] l2]. destruct (pw_text w f s) as [[t3 g3] l3]. cbn [fst snd].
    destruct H as [-> [-> [H3 H4]]]. rewrite <- orb_assoc, H4. auto.
  - rewrite !pw_node_I. cbn [fst snd]. rewrite pw_node_I. cbn [fst snd].
    destruct (absorb_kids_of ks IH f0 f Hle) as [A [B C]]. rewrite A, B. split; [reflexivity|]. split; [reflexivity|].
    intros H. apply andb_true_iff in H. destruct H as [H1 H2]. rewrite (C H1), H2. reflexivity.
  - simpl. auto.
Qed.

(* ------------------------------------------------------------------ no double space over an inline formatting context *)
Lemma flats_cons k r : flats (k :: r) = flat k ++ flats r.
Proof. reflexivity. Qed.

Definition nd_node (n : node) : Prop :=
  is_O n = false -> all_text sp_collapse n = true -> inl_flow n = true ->
  forall f, no_double f (flat (fst (pw_node f n))) = true /\ snd (pw_node f n) = last_sp f (flat (fst (pw_node f n))).

Lemma inl_flow_node_flow k : inl_flow k = true -> is_O k = false -> node_flow k = true.
Proof.
  destruct k; [reflexivity| |discriminate]. rewrite inl_flow_I. intros H _. apply andb_true_iff in H.
  destruct H as [H _]. apply andb_true_iff in H. destruct H as [H _]. exact H.
Qed.

Lemma nd_kids_of ks :
  Forall nd_node ks -> all_texts sp_collapse ks = true -> inl_flows ks = true ->
  forall f, no_double f (flats (fst (pw_kids f ks))) = true /\
            snd (pw_kids f ks) = last_sp f (flats (fst (pw_kids f ks))).
Proof.
  induction 1 as [|k r Hk Hr IH]; intros Ha Hf f; [simpl; auto|].
  simpl in Ha, Hf. apply andb_true_iff in Ha. destruct Ha as [Ha1 Ha2]. apply andb_true_iff in Hf. destruct Hf as [Hf1 Hf2].
  destruct (is_O k) eqn:EO.
  - destruct k; try discriminate. rewrite pw_kids_consO. cbn [fst snd].
    rewrite flats_cons, no_double_app, last_sp_app. destruct flow; simpl; apply IH; assumption.
  - rewrite (pw_kids_consN f k r EO). cbn [fst snd].
    rewrite (inl_flow_node_flow k Hf1 EO). cbn [andb].
    destruct (Hk EO Ha1 Hf1 f) as [A B]. rewrite flats_cons, no_double_app, last_sp_app. rewrite A, B. cbn [andb].
    apply IH; assumption.
Qed.

Lemma nd_all n : nd_node n.
Proof.
  induction n as [w l s|fl ru ks IH|fl] using node_ind'; intros HO Ha Hf f.
  - simpl in Ha. rewrite pw_node_T. cbn [fst snd flat]. destruct (pw_text_nd w f s Ha) as [A [B _]]. auto.
  - rewrite all_text_I in Ha. rewrite inl_flow_I in Hf. apply andb_true_iff in Hf. destruct Hf as [Hf Hf2].
    apply andb_true_iff in Hf. destruct Hf as [-> Hru]. apply negb_true_iff in Hru. subst ru.
    rewrite pw_node_I. cbn [fst snd]. rewrite flat_I. cbn [negb]. rewrite andb_true_r. apply nd_kids_of; assumption.
  - discriminate.
Qed.

(* ------------------------------------------------------------------ non-white characters over trees *)
Definition nw (l : list (option ascii)) : list (option ascii) :=
  filter (fun o => match o with Some c => negb (is_white c) | None => true end) l.

Lemma nw_text s : nw (map Some s) = map Some (nonwhite s).
Proof.
  unfold nw, nonwhite. induction s as [|c r IH]; simpl; [reflexivity|].
  destruct (negb (is_white c)); simpl; rewrite IH; reflexivity.
Qed.
Lemma nw_app a b : nw (a ++ b) = nw a ++ nw b.
Proof. apply filter_app. Qed.

Definition nwp_node (n : node) : Prop := forall f, nw (flat (fst (pw_node f n))) = nw (flat n).

Lemma nwp_kids_of ks : Forall nwp_node ks -> forall f, nw (flats (fst (pw_kids f ks))) = nw (flats ks).
Proof.
  induction 1 as [|k r Hk Hr IH]; intros f; [reflexivity|].
  destruct (is_O k) eqn:EO.
  - destruct k; try discriminate. rewrite pw_kids_consO. cbn [fst snd]. rewrite !flats_cons, !nw_app, IH. reflexivity.
  - rewrite (pw_kids_consN f k r EO). cbn [fst snd]. rewrite !flats_cons, !nw_app, IH, Hk. reflexivity.
Qed.

Lemma nwp_all n : nwp_node n.
Proof.
  induction n as [w l s|fl ru ks IH|fl] using node_ind'; intros f.
  - rewrite pw_node_T. cbn [fst flat]. rewrite !nw_text. rewrite pw_text_nonwhite. reflexivity.
  - rewrite pw_node_I. cbn [fst]. rewrite !flat_I. apply nwp_kids_of. exact IH.
  - reflexivity.
Qed.

(* ================================================================== statements used by props/C08.v *)
Lemma pair_eq {A B} (x y : A * B) : fst x = fst y -> snd x = snd y -> x = y.
Proof. destruct x, y. simpl. intros -> ->. reflexivity. Qed.

(* running process_whitespace again changes nothing: neither on one text box ... *)
Lemma ws_text_idempotent w f s :
  let '(t, g, _) := pw_text w f s in
  txt (pw_text w f t) = t /\ flg (pw_text w f t) = g.
Proof.
  pose proof (pw_text_idem w f s) as H. destruct (pw_text w f s) as [[t g] l].
  unfold txt, flg. destruct (pw_text w f t) as [[t2 g2] l2]. simpl. destruct H as [H1 [H2 _]]. auto.
Qed.

(* ... nor on the children of a box (element_to_box calls it once per ancestor until the first non-inline one) *)
Lemma ws_idempotent f ks : pw_kids f (fst (pw_kids f ks)) = pw_kids f ks.
Proof.
  assert (H : Forall absorb_node ks) by (apply Forall_forall; intros; apply absorb_all).
  destruct (absorb_kids_of ks H f f (fun h => h)) as [A [B _]]. apply pair_eq; assumption.
Qed.

(* the passes made by the ancestors absorb the element's own first pass (made with the flag unset) *)
Lemma ws_repass_absorbed f ks : pw_kids f (fst (pw_kids false ks)) = pw_kids f ks.
Proof.
  assert (H : Forall absorb_node ks) by (apply Forall_forall; intros; apply absorb_all).
  destruct (absorb_kids_of ks H false f) as [A [B _]]; [intro; discriminate|]. apply pair_eq; assumption.
Qed.

Example ws_idempotent_ex :
  let ks := [T WNormal false (codes [97; 32; 9]); I true false [T WNormal false (codes [32; 10; 98])];
             T WPreLine false (codes [32; 13; 10; 32; 99])] in
  fst (pw_kids false ks) =
  [T WNormal false (codes [97; 32]); I true false [T WNormal true (codes [98])]; T WPreLine false (codes [10; 99])].
Proof. vm_compute. reflexivity. Qed.

Lemma ws_no_double_space_when_collapsing f ks :
  all_texts sp_collapse ks = true -> inl_flows ks = true ->
  no_double f (flats (fst (pw_kids f ks))) = true /\
  Forall (fun o => match o with Some c => is_ts c = true -> c = SP | None => True end) (flats (fst (pw_kids f ks))).
Proof.
  intros Ha Hf. assert (H : Forall nd_node ks) by (apply Forall_forall; intros; apply nd_all).
  split; [apply (nd_kids_of ks H Ha Hf f)|].
  (* tabs: every text of the result satisfies the forallb clause of pw_text_nd *)
  clear H. revert f. induction ks as [|k r IH]; intros f; [constructor|].
  simpl in Ha, Hf. apply andb_true_iff in Ha. destruct Ha as [Ha1 Ha2]. apply andb_true_iff in Hf. destruct Hf as [Hf1 Hf2].
  assert (Hn : forall n f, all_text sp_collapse n = true ->
               Forall (fun o => match o with Some c => is_ts c = true -> c = SP | None => True end) (flat (fst (pw_node f n)))).
  { clear. induction n as [w l s|fl ru ks IHn|fl] using node_ind'; intros f Ha.
    - rewrite pw_node_T. cbn [fst flat]. simpl in Ha. destruct (pw_text_nd w f s Ha) as [_ [_ H]].
      rewrite forallb_forall in H. apply Forall_forall. intros o Ho. apply in_map_iff in Ho. destruct Ho as [c [<- Hc]].
      intros Hts. specialize (H c Hc). rewrite Hts in H. simpl in H. apply Ascii.eqb_eq. exact H.
    - rewrite pw_node_I. cbn [fst]. rewrite flat_I. rewrite all_text_I in Ha.
      revert f Ha. induction IHn as [|k r Hk Hr IHr]; intros f Ha; [constructor|].
      simpl in Ha. apply andb_true_iff in Ha. destruct Ha as [Ha1 Ha2].
      destruct (is_O k) eqn:EO.
      + destruct k; try discriminate. rewrite pw_kids_consO. cbn [fst]. rewrite flats_cons. apply Forall_app. split.
        * destruct flow; simpl; repeat constructor.
        * apply IHr. exact Ha2.
      + rewrite (pw_kids_consN f k r EO). cbn [fst]. rewrite flats_cons. apply Forall_app. split.
        * apply Hk. exact Ha1.
        * apply IHr. exact Ha2.
    - simpl. destruct fl; repeat constructor. }
  destruct (is_O k) eqn:EO.
  - destruct k; try discriminate. rewrite pw_kids_consO. cbn [fst]. rewrite flats_cons. apply Forall_app. split.
    + destruct flow; simpl; repeat constructor.
    + apply IH; assumption.
  - rewrite (pw_kids_consN f k r EO). cbn [fst]. rewrite flats_cons. apply Forall_app. split.
    + apply Hn. exact Ha1.
    + apply IH; assumption.
Qed.

Example ws_no_double_space_ex :
  let ks := [T WNormal false (codes [97; 32; 32]); I true false [T WNowrap false (codes [32; 9; 98; 10])];
             T WPreLine false (codes [32; 32; 99])] in
  all_texts sp_collapse ks = true /\ inl_flows ks = true /\
  flats (fst (pw_kids false ks)) = map Some (codes [97; 32; 98; 32; 99]).
Proof. vm_compute. auto. Qed.

(* the loop does not look at the box that holds the children (it may be a float or absolutely positioned: repaired
   defect F151): "a " + <b>" b"</b> gives "a b" *)
Example ws_former_refutation_witness :
  flats (fst (pw_kids false [T WNormal false (codes [97; 32]); I true false [T WNormal false (codes [32; 98])]])) =
  map Some (codes [97; 32; 98]).
Proof. vm_compute. reflexivity. Qed.

Lemma ws_preserves_non_space_chars_in_order f ks : nw (flats (fst (pw_kids f ks))) = nw (flats ks).
Proof. apply nwp_kids_of. apply Forall_forall. intros; apply nwp_all. Qed.

Lemma ws_pre_is_identity w f s :
  sp_collapse w = false -> s <> [] ->
  pw_text w f s = (norm_lf false s, false, false) /\
  noCR (norm_lf false s) /\ nonwhite (norm_lf false s) = nonwhite s /\ (noCR s -> norm_lf false s = s).
Proof.
  intros Hw Hs. split; [apply pw_text_preserving; assumption|]. split; [apply norm_lf_noCR|].
  split; [apply norm_lf_nonwhite|apply norm_lf_id].
Qed.

Example ws_pre_ex : pw_text WPre true (codes [32; 97; 13; 10; 9; 13; 98; 32]) = (codes [32; 97; 10; 9; 10; 98; 32], false, false).
Proof. vm_compute. reflexivity. Qed.

(* ------------------------------------------------------------------ text-transform *)
Lemma up_up c : up (up c) = up c.
Proof. destruct c as [[] [] [] [] [] [] [] []]; reflexivity. Qed.
Lemma low_low c : low (low c) = low c.
Proof. destruct c as [[] [] [] [] [] [] [] []]; reflexivity. Qed.
Lemma low_up c : low (up c) = low c.
Proof. destruct c as [[] [] [] [] [] [] [] []]; reflexivity. Qed.
Lemma up_alnum c : (is_lower (up c) || is_upper (up c) || is_digit (up c)) = (is_lower c || is_upper c || is_digit c).
Proof. destruct c as [[] [] [] [] [] [] [] []]; reflexivity. Qed.
Lemma up_sp c : Ascii.eqb (up c) SP = Ascii.eqb c SP.
Proof. destruct c as [[] [] [] [] [] [] [] []]; reflexivity. Qed.

Lemma capitalize_low b s : map low (capitalize b s) = map low s.
Proof.
  revert b. induction s as [|c r IH]; intros b; simpl; [reflexivity|].
  destruct (negb b && (is_lower c || is_upper c || is_digit c)); simpl; [rewrite low_up, IH; reflexivity|].
  destruct (Ascii.eqb c SP); simpl; rewrite IH; reflexivity.
Qed.
Lemma capitalize_idem b s : capitalize b (capitalize b s) = capitalize b s.
Proof.
  revert b. induction s as [|c r IH]; intros b; simpl; [reflexivity|].
  destruct (negb b && (is_lower c || is_upper c || is_digit c)) eqn:E; simpl.
  - rewrite up_alnum, E, up_up, IH. reflexivity.
  - destruct (Ascii.eqb c SP) eqn:Es; simpl; rewrite E, Es, IH; reflexivity.
Qed.
Lemma capitalize_length b s : length (capitalize b s) = length s.
Proof.
  revert b. induction s as [|c r IH]; intros b; simpl; [reflexivity|].
  destruct (negb b && _); simpl; [rewrite IH; reflexivity|]. destruct (Ascii.eqb c SP); simpl; rewrite IH; reflexivity.
Qed.

(* upper/lower/capitalize only change the case of ASCII letters, keep the length, and are idempotent *)
Lemma tt_case_only t s :
  t <> TFullWidth ->
  map low (tt_text t s) = map low s /\ length (tt_text t s) = length s /\ tt_text t (tt_text t s) = tt_text t s.
Proof.
  intros Ht. destruct t; simpl; try congruence.
  - auto.
  - rewrite !map_map, map_length. split; [apply map_ext; intros; apply low_up|]. split; [reflexivity|].
    apply map_ext. intros; apply up_up.
  - rewrite !map_map, map_length. split; [apply map_ext; intros; apply low_low|]. split; [reflexivity|].
    apply map_ext. intros; apply low_low.
  - split; [apply capitalize_low|]. split; [apply capitalize_length|apply capitalize_idem].
Qed.

Example tt_ex :
  tt_text TCapitalize (codes [104; 105; 32; 116; 104; 101; 45; 114; 101; 32; 50; 110; 100]) =
  codes [72; 105; 32; 84; 104; 101; 45; 114; 101; 32; 50; 110; 100] /\
  tt_text TFullWidth (codes [97; 32; 45]) = codes [239; 189; 129; 227; 128; 128; 226; 136; 146].
Proof. vm_compute. auto. Qed.
