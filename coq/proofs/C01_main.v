(* C01: block_container_layout (model bcl) conserves content, for every box tree, skip stack and geometry. *)
From Coq Require Import ZArith List Bool Lia Arith.
Require Import WV.model.Frag2 WV.proofs.C01_defs WV.proofs.C01_lines WV.proofs.C01_blocks WV.proofs.C01_step.
Import ListNotations.
Open Scope nat_scope.

(* specification of a layout function for one box *)
Definition RS (b : box) (rec : rec_t) : Prop :=
  forall p m bs sk pie a r A B C, wf_skip b sk -> rec p m bs sk pie a = (Some r, A, B, C) ->
    fwords (b_frag r) ++ words_res b (b_resume r) = words_from b sk /\
    wf_res b (b_resume r) /\
    (b_resume r = None -> cinv b sk (b_frag r)).

Lemma cinv_set_index b sk f i : cinv b sk f -> cinv b sk (set_index f i).
Proof. intros []; simpl; econstructor; eauto. Qed.
Lemma frag_index_set_index b sk f i : cinv b sk f -> frag_index (set_index f i) = i.
Proof. intros []; reflexivity. Qed.

Lemma nth_error_skipn_cons {A} (l : list A) : forall i x r, skipn i l = x :: r -> nth_error l i = Some x /\ skipn (S i) l = r.
Proof.
  induction l as [|a l IH]; intros [|i] x r H; simpl in *; try discriminate.
  - inversion H; auto.
  - apply IH in H. destruct H. split; auto.
Qed.

Section Loop.
Variables (kids : list box) (i0 : nat) (sub0 : option skip).
Hypothesis HFE : Forall FE kids.
Hypothesis Hwfk : forallb wf_box kids = true.

Lemma step_ok index sub newc child rec out :
  nth_error kids index = Some child -> RS child rec -> wf_skip child sub ->
  covers kids i0 sub0 newc -> index = i0 + length newc ->
  sub = (if length newc =? 0 then sub0 else None) ->
  step_shape rec index sub newc out ->
  match out with
  | SAbort _ => True
  | SCont s' => covers kids i0 sub0 (ls_newc s') /\ S index = i0 + length (ls_newc s') /\
                fwords_l (ls_newc s') ++ words_from_kids words_from kids (S index) None =
                fwords_l newc ++ words_from_kids words_from kids index sub
  | SStop res s' => exists jj x, res = Some (SChild jj x) /\ wf_skip_kids kids jj x /\
                fwords_l (ls_newc s') ++ words_from_kids words_from kids jj x =
                fwords_l newc ++ words_from_kids words_from kids index sub
  end.
Proof.
  intros Hk HRS Hwfs Hcov Hidx Hsub Hsh.
  destruct Hsh as [O|s' Hne Hn|newc' res' s' Hfe Hn|p m b pie a r A B C rs s' Hrec Hres Hn
                  |p m b pie a r A B C s' Hrec Hres Hn].
  - exact I.
  - (* stop before the child *)
    exists index, None. rewrite Hn. repeat split.
    + eapply wf_skip_kids_nth; [eassumption|apply wf_skip_none].
    + destruct newc; [congruence|]. simpl in Hsub. now subst sub.
  - (* earlier page break *)
    unfold find_earlier in Hfe.
    assert (Hgo : fe_go find_earlier_f newc = Some (newc', res')).
    { simpl in Hfe. destruct newc as [|f0 nc]; [exact Hfe|].
      destruct (Hcov 0 f0 eq_refl) as (kid & _ & _ & _ & Hc0).
      destruct (cinv_is_fblk _ _ _ Hc0) as (st1 & i1 & y1 & mt1 & mb1 & pt1 & pb1 & bt1 & bb1 & h1 & fk1 & ->).
      exact Hfe. }
    destruct (fe_go_spec kids HFE Hwfk newc i0 sub0 newc' res' Hcov Hgo) as (jj & x & -> & Hwx & Hw).
    exists jj, x. rewrite Hn. repeat split; auto. rewrite Hw, <- Hidx.
    destruct newc; [discriminate Hgo|]. simpl in Hsub. now subst sub.
  - (* the child is fragmented *)
    destruct (HRS _ _ _ _ _ _ _ _ _ _ Hwfs Hrec) as (Hw & Hwr & _). rewrite Hres in Hw, Hwr. simpl in Hw, Hwr.
    exists index, (Some rs). rewrite Hn. repeat split.
    + eapply wf_skip_kids_nth; eassumption.
    + rewrite fwords_l_app, fwords_l_one, fwords_set_index, (wfk_step _ _ _ _ Hk), (wfk_step _ _ sub _ Hk).
      rewrite <- !app_assoc. f_equal. rewrite !app_assoc. f_equal. exact Hw.
  - (* the child is complete *)
    destruct (HRS _ _ _ _ _ _ _ _ _ _ Hwfs Hrec) as (Hw & _ & Hc). rewrite Hres in Hw. simpl in Hw. rewrite app_nil_r in Hw.
    specialize (Hc Hres). rewrite Hn. repeat split.
    + apply covers_snoc with child; auto.
      * now rewrite <- Hidx.
      * rewrite <- Hidx. eapply frag_index_set_index; eassumption.
      * now rewrite <- Hsub.
      * rewrite <- Hsub. now apply cinv_set_index.
    + rewrite app_length. simpl. lia.
    + rewrite fwords_l_app, fwords_l_one, fwords_set_index, (wfk_step _ _ sub _ Hk), Hw.
      now rewrite <- !app_assoc.
Qed.

Variable stepf : box -> nat -> option skip -> lstate -> sout.
Hypothesis Hstep : forall index child sub s, nth_error kids index = Some child ->
  exists rec, RS child rec /\ step_shape rec index sub (ls_newc s) (stepf child index sub s).

Lemma kids_loop_ok : forall l index sub s,
  l = skipn index kids -> index <= length kids ->
  covers kids i0 sub0 (ls_newc s) -> index = i0 + length (ls_newc s) ->
  sub = (if length (ls_newc s) =? 0 then sub0 else None) ->
  (forall child, nth_error kids index = Some child -> wf_skip child sub) ->
  match kids_loop stepf l index 0 sub s with
  | LAbort _ => True
  | LDone true res s' => exists jj x, res = Some (SChild jj x) /\ wf_skip_kids kids jj x /\
      fwords_l (ls_newc s') ++ words_from_kids words_from kids jj x =
      fwords_l (ls_newc s) ++ words_from_kids words_from kids index sub
  | LDone false _ s' => covers kids i0 sub0 (ls_newc s') /\ i0 + length (ls_newc s') = length kids /\
      fwords_l (ls_newc s') = fwords_l (ls_newc s) ++ words_from_kids words_from kids index sub
  end.
Proof.
  induction l as [|child rest IH]; intros index sub s Hl Hle Hcov Hidx Hsub Hwfs.
  - simpl. assert (index = length kids).
    { assert (length (skipn index kids) = 0) by (rewrite <- Hl; reflexivity). rewrite skipn_length in *. lia. }
    repeat split; auto; [lia|]. rewrite wfk_beyond by lia. now rewrite app_nil_r.
  - symmetry in Hl. destruct (nth_error_skipn_cons _ _ _ _ Hl) as [Hk Hrest].
    simpl. destruct (Hstep index child sub s Hk) as (rec & HRS & Hsh).
    pose proof (step_ok index sub (ls_newc s) child rec _ Hk HRS (Hwfs _ Hk) Hcov Hidx Hsub Hsh) as Hok.
    destruct (stepf child index sub s) as [O|res s'|s']; [exact I|exact Hok|].
    destruct Hok as (Hcov' & Hidx' & Hw).
    assert (Hlt : index < length kids) by (apply nth_error_Some; congruence).
    assert (Hnz : length (ls_newc s') =? 0 = false) by (apply Nat.eqb_neq; lia).
    specialize (IH (S index) None s' (eq_sym Hrest) ltac:(lia) Hcov' Hidx' ltac:(now rewrite Hnz)
                   ltac:(intros; apply wf_skip_none)).
    destruct (kids_loop stepf rest (S index) 0 None s') as [O|[|] res s'']; [exact I| |].
    + destruct IH as (jj & x & -> & Hwx & Hw2). exists jj, x. repeat split; auto. now rewrite Hw2, Hw.
    + destruct IH as (Hc2 & Hl2 & Hw2). repeat split; auto. rewrite Hw2.
      rewrite <- Hw. reflexivity.
Qed.

Lemma kids_loop_skip : forall l index toskip sub s, toskip <= length l ->
  kids_loop stepf l index toskip sub s = kids_loop stepf (skipn toskip l) (index + toskip) 0 sub s.
Proof.
  induction l as [|k l IH]; intros index [|n] sub s H; simpl in *; try lia; rewrite ?Nat.add_0_r; try reflexivity.
  rewrite IH by lia. f_equal. lia.
Qed.
End Loop.
