(* C11 - absolute_replaced of weasyprint/layout/absolute.py (CSS 2.1 10.3.8 / 10.6.5) as REGENERATED from the source on
   every run (gen/GenAbsReplaced.v) computes, on both axes, the hand model abs_replaced_axis of model/C11Abs.v (on
   which the theorems abs_replaced_* of proofs/C11_abs.v rest), for every auto pattern of left / right / margins and
   top / bottom / margins and every direction: the returned (mutated) box agrees field by field (numbers up to ==).
   inline_replaced_box_width_height is an oracle statement (it sets box.width and box.height to numbers); the Box
   methods margin_width / border_width / margin_height / border_height are first hypotheses about [ocall O], then
   answered by their own regenerated bodies (gen/GenBoxes.v, base/PyLink.v).
   The body is run statement by statement (the continuation stays abstract) in weakest-precondition style. *)
From Coq Require Import QArith Qminmax Lqa List String Bool.
Require Import WV.base.Py WV.gen.GenAbsReplaced WV.proofs.PyTac WV.model.C11Abs WV.proofs.C11_gen_abs.
Import ListNotations.
Open Scope string_scope.
Open Scope list_scope.
Open Scope Q_scope.

(* the box as the function sees it: every field it reads or writes, in a fixed order (assignments to existing
   attributes keep the order) *)
Definition rbox (ps l r w ml mr pl pr bl br px t bo h mt mb pt pb bt bb py : val) : val :=
  VObj [("style", VObj [("parent_style", ps)]);
        ("left", l); ("right", r); ("width", w); ("margin_left", ml); ("margin_right", mr);
        ("padding_left", pl); ("padding_right", pr); ("border_left_width", bl); ("border_right_width", br);
        ("position_x", px);
        ("top", t); ("bottom", bo); ("height", h); ("margin_top", mt); ("margin_bottom", mb);
        ("padding_top", pt); ("padding_bottom", pb); ("border_top_width", bt); ("border_bottom_width", bb);
        ("position_y", py)].

(* what the Box methods of formatting_structure/boxes.py return (same association as the source) *)
Record methods_ok (O : qops) : Prop := mk_methods_ok {
  m_bw : forall ps l r w ml mr pl pr bl br px t bo h mt mb pt pb bt bb py,
    ocall O ".border_width" [rbox ps l r (VNum w) ml mr (VNum pl) (VNum pr) (VNum bl) (VNum br) px t bo h mt mb pt pb bt bb py]
    = VNum (w + pl + pr + bl + br);
  m_mw : forall ps l r w ml mr pl pr bl br px t bo h mt mb pt pb bt bb py,
    ocall O ".margin_width" [rbox ps l r (VNum w) (VNum ml) (VNum mr) (VNum pl) (VNum pr) (VNum bl) (VNum br) px t bo h mt mb pt pb bt bb py]
    = VNum (w + pl + pr + bl + br + ml + mr);
  m_bh : forall ps l r w ml mr pl pr bl br px t bo h mt mb pt pb bt bb py,
    ocall O ".border_height" [rbox ps l r w ml mr pl pr bl br px t bo (VNum h) mt mb (VNum pt) (VNum pb) (VNum bt) (VNum bb) py]
    = VNum (h + pt + pb + bt + bb);
  m_mh : forall ps l r w ml mr pl pr bl br px t bo h mt mb pt pb bt bb py,
    ocall O ".margin_height" [rbox ps l r w ml mr pl pr bl br px t bo (VNum h) (VNum mt) (VNum mb) (VNum pt) (VNum pb) (VNum bt) (VNum bb) py]
    = VNum (h + pt + pb + bt + bb + mt + mb) }.

Section Replaced.
Variable O : qops.
Hypothesis HO : ops_ok O.
Hypothesis HM : methods_ok O.
Variables (ctx rv : val) (cbx cby cbw cbh : Q).

(* the environment after the first two statements; "remaining" is bound on some paths only *)
Definition renv (lt : bool) (B : val) (rem : option val) : env :=
  [("context", ctx); ("box", B); ("cb_x", VNum cbx); ("cb_y", VNum cby); ("cb_width", VNum cbw);
   ("cb_height", VNum cbh); ("%call", rv); ("ltr", VBool lt)] ++
  match rem with Some v => [("remaining", v)] | None => [] end.


Definition st (i : nat) : stmt := nth i absolute_replaced_body SPass.
Lemma body_eq : absolute_replaced_body = [st 0; st 1; st 2; st 3; st 4; st 5; st 6; st 7; st 8].
Proof. reflexivity. Qed.

Ltac evr :=
  lazy -[qadd qsub qmul qdiv qmax qmin qleb qeqb ocall Qplus Qminus Qmult Qdiv Qeq_bool Qle_bool
         abs_replaced_axis haxis vaxis rep repq].

Ltac model_open :=
  cbv beta iota zeta delta [abs_replaced_axis a_start a_end a_size a_ms a_me a_pad a_pos set_start set_end set_ms set_me
                       set_pos set_margins zero_auto_margins num0 negb orb haxis vaxis].
Ltac fin_step HO :=
  unseal HO;
  try (match goal with H : Qeq_bool 2 0 = true |- _ => vm_compute in H; discriminate H end);
  model_open;
  repeat match goal with |- context [Qle_bool ?a ?b] => destruct (Qle_bool a b) eqn:? end;
  to_props;
  try (exfalso; lra);
  do 4 eexists;
  first [ exists None; eexists; split; [reflexivity|] | eexists (Some _); eexists; split; [reflexivity|] ];
  (split; [reflexivity|]);
  unfold rep, repq; cbn [a_start a_end a_size a_ms a_me a_pad a_pos];
  repeat split; try reflexivity; try lra; try field.

Section Steps.
Variable kret : env -> val -> Prop.
Let X := exec O Prop kret (fun _ => False).

Definition hpost (lt : bool) (ax : axis) (ps w pl pr bl br px t bo h mt mb pt pb bt bb py : val) (rho' : env) : Prop :=
  exists lq r' ml' mr' rem b',
    rho' = renv lt (rbox ps (VNum lq) r' w ml' mr' pl pr bl br px t bo h mt mb pt pb bt bb py) rem /\
    abs_replaced_axis true lt cbx cbw ax = Some b' /\
    rep (VNum lq) (a_start b') /\ rep r' (a_end b') /\ rep ml' (a_ms b') /\ rep mr' (a_me b').

Lemma step_h lt ps l r w ml mr pl pr bl br px t bo h mt mb pt pb bt bb py (kf k : env -> Prop) :
  (forall rho', hpost lt (haxis l r (Some w) ml mr pl pr bl br px) ps (VNum w) (VNum pl) (VNum pr) (VNum bl) (VNum br)
                  (VNum px) t bo h mt mb pt pb bt bb py rho' -> k rho') ->
  X (st 2) (renv lt (rbox ps (vo l) (vo r) (VNum w) (vo ml) (vo mr) (VNum pl) (VNum pr) (VNum bl) (VNum br) (VNum px)
                      t bo h mt mb pt pb bt bb py) None)
    (fun rho1 => if flowing rho1 then kf rho1 else X (st 3) rho1 k).
Proof.
  intros Hk. unfold X, st, renv, rbox.
  destruct lt, l as [l|], r as [r|], ml as [ml|], mr as [mr|]; evr.
  all: pose proof (m_mw _ HM) as Hmw; pose proof (m_bw _ HM) as Hbw; unfold rbox in Hmw, Hbw.
  all: try (rewrite Hmw; evr).
  all: try (rewrite Hbw; evr).
  all: clear Hmw Hbw; split_paths O.
  all: try (exfalso; unseal HO; match goal with H : Qeq_bool 2 0 = true |- _ => vm_compute in H; discriminate H end).
  all: apply Hk; unfold hpost, renv, rbox.
  all: fin_step HO.
Qed.

Definition vpost (lt : bool) (ax : axis) (ps hl hr hw hml hmr hpl hpr hbl hbr hpx h pt pb bt bb py : val) (rho' : env) : Prop :=
  exists tq bo' mt' mb' rem b',
    rho' = renv lt (rbox ps hl hr hw hml hmr hpl hpr hbl hbr hpx (VNum tq) bo' h mt' mb' pt pb bt bb py) rem /\
    abs_replaced_axis false true cby cbh ax = Some b' /\
    rep (VNum tq) (a_start b') /\ rep bo' (a_end b') /\ rep mt' (a_ms b') /\ rep mb' (a_me b').

Lemma step_v lt ps hl hr hw hml hmr hpl hpr hbl hbr hpx t bo h mt mb pt pb bt bb py rem (kf k : env -> Prop) :
  (forall rho', vpost lt (vaxis t bo (Some h) mt mb pt pb bt bb py) ps hl hr hw hml hmr hpl hpr hbl hbr hpx
                  (VNum h) (VNum pt) (VNum pb) (VNum bt) (VNum bb) (VNum py) rho' -> k rho') ->
  X (st 4) (renv lt (rbox ps hl hr hw hml hmr hpl hpr hbl hbr hpx (vo t) (vo bo) (VNum h) (vo mt) (vo mb)
                      (VNum pt) (VNum pb) (VNum bt) (VNum bb) (VNum py)) rem)
    (fun rho1 => if flowing rho1 then kf rho1 else X (st 5) rho1 k).
Proof.
  intros Hk. unfold X, st, renv, rbox.
  destruct rem as [rem|], t as [t|], bo as [bo|], mt as [mt|], mb as [mb|]; evr.
  all: pose proof (m_mh _ HM) as Hmh; pose proof (m_bh _ HM) as Hbh; unfold rbox in Hmh, Hbh.
  all: try (rewrite Hmh; evr).
  all: try (rewrite Hbh; evr).
  all: clear Hmh Hbh; split_paths O.
  all: try (exfalso; unseal HO; match goal with H : Qeq_bool 2 0 = true |- _ => vm_compute in H; discriminate H end).
  all: apply Hk; unfold vpost, renv, rbox.
  all: fin_step HO.
Qed.

(* the last three statements: position_x / position_y (numbers == cb_x + left, cb_y + top), return box *)
Lemma step_fin lt ps lq hr hw hml hmr hpl hpr hbl hbr hpx tq vbo vh vmt vmb vpt vpb vbt vbb vpy rem (kf kf2 k : env -> Prop) :
  (forall rho' xq yq, xq == cbx + lq -> yq == cby + tq ->
     lookup "box" rho' = rbox ps (VNum lq) hr hw hml hmr hpl hpr hbl hbr (VNum xq)
                              (VNum tq) vbo vh vmt vmb vpt vpb vbt vbb (VNum yq) ->
     kret rho' (lookup "box" rho')) ->
  X (st 6) (renv lt (rbox ps (VNum lq) hr hw hml hmr hpl hpr hbl hbr hpx (VNum tq) vbo vh vmt vmb vpt vpb vbt vbb vpy) rem)
    (fun rho1 => if flowing rho1 then kf rho1 else
       X (st 7) rho1 (fun rho2 => if flowing rho2 then kf2 rho2 else X (st 8) rho2 k)).
Proof.
  intros Hk. unfold X, st, renv, rbox.
  destruct rem as [rem|]; evr.
  all: match goal with |- kret ?rho ?v => change (kret rho (lookup "box" rho)); eapply Hk; [ | |reflexivity] end.
  all: unseal HO; ring.
Qed.
End Steps.
End Replaced.
