(* C16 - the graphics-state bookkeeping methods of weasyprint/pdf/stream.py `Stream` as REGENERATED from the source on
   every run (gen/GenStream.v): push_state, pop_state, begin_text, end_text, set_font_size, end_marked_content and the
   property ctm compute exactly the step functions of the hand model model/C16Stream.v (m_push, m_pop, m_begin_text,
   m_end_text, m_set_font, m_end_mc) on the object encoding of model/C16Py.v, for every state, and raise exactly when
   the model has no successor (IndexError on an empty ctm stack, AssertionError when pop_state empties it).  The
   methods of pydyf.Stream called through super() are the oracle model/C16Py.pydyf_call (each appends its operator
   to self.stream).  Then: the balance theorem about sequences of calls in which these methods are run from their
   regenerated bodies. *)
From Coq Require Import ZArith QArith List String Bool Lia.
Require Import WV.base.Py WV.base.PyLink WV.gen.GenStream WV.gen.GenMatrix WV.proofs.PyNatural WV.model.C16Py.
Require Import WV.proofs.C16_balance.
Import ListNotations.
Open Scope string_scope.
Open Scope list_scope.

Definition getter_ops : qops := with_calls real_ops (fun _ _ => VErr "NameError").
Definition ctm_impl (args : list val) : val := call_body getter_ops (Stream_ctm_args, Stream_ctm_body) args.
(* Matrix(..) and `@` in Stream.transform: the regenerated constructor and __matmul__ of weasyprint/matrix.py
   (gen/GenMatrix.v), linked (__matmul__ calls the constructor: depth 2) *)
Definition mat_calls (f : string) (args : list val) : val := link GenMatrix_table 2 f args.
Definition stream_calls (tagf : val -> string) (f : string) (args : list val) : val :=
  if String.eqb f ".ctm" then ctm_impl args
  else if String.eqb f "Matrix" then mat_calls f args
  else if String.eqb f ".__matmul__" then mat_calls f args
  else pydyf_call tagf f args.
Definition SO (tagf : val -> string) : qops := with_calls real_ops (stream_calls tagf).

Definition snoc (l : list val) (x : val) : list val := l ++ [x].
Definition nonnil (l : list val) : bool := match l with [] => false | _ :: _ => true end.

Definition obs_self (rho' : env) (r : option val) : (val * val) + string :=
  inl (lookup "self" rho', match r with Some v => v | None => VNone end).
Definition obs_err (m : string) : (val * val) + string := inr m.
Definition meth_out (O : qops) (body : list stmt) (rho : env) : (val * val) + string :=
  run O body rho obs_self obs_err.

Definition is_err (v : val) : bool := match v with VErr _ => true | _ => false end.

Lemma nonnil_snoc l x : nonnil (snoc l x) = true.
Proof. destruct l; reflexivity. Qed.

Lemma pindex_last l x : prim_apply PIndex [VList (snoc l x); VNum ((-1)#1)] = x.
Proof.
  unfold snoc. cbn [prim_apply]. change (as_int ((-1)#1)) with (Some (-1)%Z). cbv iota beta.
  rewrite app_length. cbn [List.length].
  replace (Z.of_nat (List.length l + 1)) with (Z.of_nat (List.length l) + 1)%Z by lia.
  assert (H0 : ((0 <=? -1) && (-1 <? Z.of_nat (List.length l) + 1))%Z = false) by reflexivity.
  rewrite H0.
  assert (H1 : ((- (Z.of_nat (List.length l) + 1) <=? -1) && (-1 <? 0))%Z = true).
  { apply andb_true_iff. split; [apply Z.leb_le; lia|reflexivity]. }
  rewrite H1.
  replace (Z.to_nat (Z.of_nat (List.length l) + 1 + -1)) with (List.length l) by lia.
  rewrite app_nth2 by lia. now rewrite Nat.sub_diag.
Qed.

Lemma pslice_last l x : prim_apply PSliceTo [VList (snoc l x); VNum ((-1)#1)] = VList l.
Proof.
  unfold snoc. cbn [prim_apply]. change (as_int ((-1)#1)) with (Some (-1)%Z). cbv iota beta.
  change (0 <=? -1)%Z with false. cbv iota.
  rewrite app_length. cbn [List.length].
  replace (Z.to_nat (Z.of_nat (List.length l + 1) + -1)) with (List.length l + 0)%nat by lia.
  rewrite firstn_app_2. cbn [firstn]. now rewrite app_nil_r.
Qed.

Lemma pindex_nil : prim_apply PIndex [VList []; VNum ((-1)#1)] = VErr "IndexError".
Proof. reflexivity. Qed.

Lemma ctm_impl_last f l x : lookup "_ctm_stack" f = VList (snoc l x) -> is_err x = false ->
  ctm_impl [VObj f] = x.
Proof.
  intros Hf Hx. unfold ctm_impl, call_body, Stream_ctm_args, Stream_ctm_body. cbn [fst snd bind].
  unfold run. cbn [exec_block exec eval lookup String.eqb Ascii.eqb Bool.eqb].
  rewrite Hf. cbn [arith_k getter_ops with_calls real_ops qsub qeqb rev app].
  change (Qminus 0 (1#1)) with ((-1)#1)%Q. rewrite pindex_last. destruct x; try reflexivity; discriminate.
Qed.
Lemma ctm_impl_nil f : lookup "_ctm_stack" f = VList [] -> ctm_impl [VObj f] = VErr "IndexError".
Proof.
  intros Hf. unfold ctm_impl, call_body, Stream_ctm_args, Stream_ctm_body. cbn [fst snd bind].
  unfold run. cbn [exec_block exec eval lookup String.eqb Ascii.eqb Bool.eqb].
  rewrite Hf. reflexivity.
Qed.

Lemma exec_block_cons O A kret kerr s l rho k :
  exec_block O A kret kerr (s :: l) rho k =
  exec O A kret kerr s rho (fun rho' => if flowing rho' then k rho' else exec_block O A kret kerr l rho' k).
Proof. reflexivity. Qed.
Lemma exec_block_nil O A kret kerr rho k : exec_block O A kret kerr [] rho k = k rho.
Proof. reflexivity. Qed.



Lemma map_rev_cons {A} (f : A -> val) x l : map f (rev (x :: l)) = snoc (map f (rev l)) (f x).
Proof. unfold snoc. cbn [rev]. now rewrite map_app. Qed.
Lemma Qeq_bool_z a b : Qeq_bool (a # 1) (b # 1) = (a =? b)%Z.
Proof.
  unfold Qeq_bool. cbn [Qnum Qden]. rewrite !Z.mul_1_r. unfold Zeq_bool.
  destruct (Z.eqb_spec a b) as [E|E]; [subst; now rewrite Z.compare_refl|].
  destruct (a ?= b)%Z eqn:C; try reflexivity. apply Z.compare_eq in C. contradiction.
Qed.
Definition str_eqb (a b : string) : bool := String.eqb a b.

Ltac ev := lazy -[exec_block prim_apply ctm_impl snoc nonnil obs_self obs_err SO real_ops ocall qsub qeqb veq_k str_eqb Qeq_bool Z.eqb Z.of_nat].
Ltac fix1 :=
  match goal with
  | |- context [match snoc ?C ?y with [] => false | _ :: _ => true end] =>
      change (match snoc C y with [] => false | _ :: _ => true end) with (nonnil (snoc C y)); rewrite (nonnil_snoc C y)
  | |- context [ocall (SO ?t) ?f ?a] => change (ocall (SO t) f a) with (stream_calls t f a)
  | |- context [qsub (SO ?t) ?a ?b] => change (qsub (SO t) a b) with (Qminus a b)
  | |- context [qeqb (SO ?t) ?a ?b] => change (qeqb (SO t) a b) with (Qeq_bool a b)
  | |- context [prim_apply PIndex [VList (snoc ?l ?x); VNum (-1 # 1)]] => rewrite (pindex_last l x)
  | |- context [prim_apply PSliceTo [VList (snoc ?l ?x); VNum (-1 # 1)]] => rewrite (pslice_last l x)
  | |- context [prim_apply PIndex [VList []; VNum (-1 # 1)]] => change (prim_apply PIndex [VList []; VNum (-1 # 1)]) with (VErr "IndexError")
  | |- context [prim_apply PLen [VList ?l]] => change (prim_apply PLen [VList l]) with (VNum (Z.of_nat (List.length l) # 1))
  | |- context [Qeq_bool (?a # 1) (?b # 1)] => rewrite (Qeq_bool_z a b)
  | |- context [ctm_impl [VObj ?f]] => first [erewrite (ctm_impl_last f) by reflexivity | erewrite (ctm_impl_nil f) by reflexivity]
  | |- context [veq_k ?O ?R ?e (VStr ?a) (VStr ?b) ?K] =>
      change (veq_k O R e (VStr a) (VStr b) K) with (K (str_eqb a b))
  | |- context [veq_k ?O ?R ?e (VList ?a) (VStr ?b) ?K] => change (veq_k O R e (VList a) (VStr b) K) with (K false)
  | |- context [veq_k ?O ?R ?e (VList ?a) VNone ?K] => change (veq_k O R e (VList a) VNone K) with (K false)
  | |- context [veq_k ?O ?R ?e (VList ?a) (VList ?b) ?K] =>
      change (veq_k O R e (VList a) (VList b) K) with (K (veq_deep O (VList a) (VList b)))
  | H : str_eqb ?a ?b = _ |- context [str_eqb ?a ?b] => rewrite H
  end.
Ltac fixp := repeat (fix1; ev).
Lemma exec_if O A kret kerr c th el rho k :
  exec O A kret kerr (SIf c th el) rho k =
  eval O A kerr rho c (fun vc => bool_k O A kerr vc (fun t =>
    if t then exec_block O A kret kerr th rho k else exec_block O A kret kerr el rho k)).
Proof. reflexivity. Qed.
Ltac step :=
  match goal with
  | |- exec_block ?O ?A ?kr ?ke [] ?rho ?k = _ => change (exec_block O A kr ke [] rho k) with (k rho); ev
  | |- exec_block ?O ?A ?kr ?ke (SIf ?c ?th ?el :: ?l) ?rho ?k = _ =>
      change (exec_block O A kr ke (SIf c th el :: l) rho k)
        with (eval O A ke rho c (fun vc => bool_k O A ke vc (fun t =>
                if t then exec_block O A kr ke th rho (fun rho' => if flowing rho' then k rho' else exec_block O A kr ke l rho' k)
                else exec_block O A kr ke el rho (fun rho' => if flowing rho' then k rho' else exec_block O A kr ke l rho' k))));
      let p := fresh "p" in let Hp := fresh "Hp" in
      let p1 := fresh "p" in let Hp1 := fresh "Hp" in
      let p2 := fresh "p" in let Hp2 := fresh "Hp" in
      remember l as p eqn:Hp; remember th as p1 eqn:Hp1; remember el as p2 eqn:Hp2; ev; fixp; subst p p1 p2
  | |- exec_block ?O ?A ?kr ?ke (?s :: ?l) ?rho ?k = _ =>
      change (exec_block O A kr ke (s :: l) rho k)
        with (exec O A kr ke s rho (fun rho' => if flowing rho' then k rho' else exec_block O A kr ke l rho' k));
      let p := fresh "p" in let Hp := fresh "Hp" in
      remember l as p eqn:Hp; ev; fixp; subst p
  end.
Ltac steps := match goal with |- _ = ?R => let rhs := fresh "rhs" in let Hr := fresh "Hr" in remember R as rhs eqn:Hr; repeat step; subst rhs end.
Ltac start body := unfold meth_out, run, body, obj.

(* shapes of the two lists *)
Inductive sshape := SNil | SStr (L : list val) (s : string) | SLst (L : list val) (y : list val).
Definition sh_list (sh : sshape) : list val :=
  match sh with SNil => [] | SStr L s => snoc L (VStr s) | SLst L y => snoc L (VList y) end.
Definition sh_hit (lit : string) (sh : sshape) : bool := match sh with SStr _ s => str_eqb s lit | _ => false end.
Definition sh_pop (lit : string) (em : val) (sh : sshape) : list val :=
  if sh_hit lit sh then match sh with SStr L _ => L | _ => [] end else snoc (sh_list sh) em.
Inductive cshape := CNil | COne (y1 : list val) | CMore (C : list val) (x2 : val) (y1 : list val).
Definition c_list (c : cshape) : list val :=
  match c with CNil => [] | COne y1 => snoc [] (VList y1) | CMore C x2 y1 => snoc (snoc C x2) (VList y1) end.

Section Raw.
Variable tagf : val -> string.
Variables (mk : list val) (others : list (string * val)).
Variables (cc ccs ca cas cf ofo res : val).
Notation O := (SO tagf).

Lemma push_raw L C y mark :
  meth_out O stream_push_state_body [("self", obj L (snoc C (VList y)) cc ccs ca cas cf ofo res mk mark others)] =
  inl (obj (snoc L (VStr "b'q'")) (snoc (snoc C (VList y)) (VList y)) cc ccs ca cas cf ofo res mk mark others, VNone).
Proof. start stream_push_state_body. steps. reflexivity. Qed.
Lemma push_raw_nil L mark :
  meth_out O stream_push_state_body [("self", obj L [] cc ccs ca cas cf ofo res mk mark others)] = inr "IndexError".
Proof. start stream_push_state_body. steps. reflexivity. Qed.

Lemma pop_raw sh c mark :
  meth_out O stream_pop_state_body [("self", obj (sh_list sh) (c_list c) cc ccs ca cas cf ofo res mk mark others)] =
  match c with
  | CNil => inr "IndexError" | COne _ => inr "AssertionError"
  | CMore C x2 _ => inl (obj (sh_pop "b'q'" (VStr "b'Q'") sh) (snoc C x2) VNone VNone VNone VNone VNone ofo res mk mark others, VNone)
  end.
Proof.
  start stream_pop_state_body. unfold sh_pop.
  destruct sh as [|L s|L y]; cbn [sh_list sh_hit]; [|destruct (str_eqb s "b'q'") eqn:E|]; destruct c; cbn [c_list];
    steps; reflexivity.
Qed.

Lemma begin_text_raw sh ct mark :
  meth_out O stream_begin_text_body [("self", obj (sh_list sh) ct cc ccs ca cas cf ofo res mk mark others)] =
  inl (obj (sh_pop "b'ET'" (VStr "b'BT'") sh) ct cc ccs ca cas (if sh_hit "b'ET'" sh then ofo else cf) ofo res mk mark others, VNone).
Proof.
  start stream_begin_text_body. unfold sh_pop.
  destruct sh as [|L s|L y]; cbn [sh_list sh_hit]; [|destruct (str_eqb s "b'ET'") eqn:E|]; steps; reflexivity.
Qed.

Lemma end_text_raw st ct mark :
  meth_out O stream_end_text_body [("self", obj st ct cc ccs ca cas cf ofo res mk mark others)] =
  inl (obj (snoc st (VStr "b'ET'")) ct cc ccs ca cas VNone cf res mk mark others, VNone).
Proof. start stream_end_text_body. steps. reflexivity. Qed.

Lemma end_mc_raw st ct (b : bool) :
  meth_out O stream_end_marked_content_body [("self", obj st ct cc ccs ca cas cf ofo res mk (VBool b) others)] =
  inl (obj (if b then snoc st (VStr "b'EMC'") else st) ct cc ccs ca cas cf ofo res mk (VBool b) others, VNone).
Proof. start stream_end_marked_content_body. destruct b; steps; reflexivity. Qed.

Lemma set_font_none st ct mark h z :
  meth_out O stream_set_font_size_body
    [("self", obj st ct cc ccs ca cas VNone ofo res mk mark others); ("font", VNum (h # 1)); ("size", VNum (z # 1))] =
  inl (obj (snoc st (VList [VStr "Tf"; VNum (h # 1); VNum (z # 1)])) ct cc ccs ca cas (VList [VNum (h # 1); VNum (z # 1)])
           ofo res mk mark others, VNone).
Proof. start stream_set_font_size_body. steps. reflexivity. Qed.
Lemma set_font_some st ct mark h z h' z' :
  meth_out O stream_set_font_size_body
    [("self", obj st ct cc ccs ca cas (VList [VNum (h' # 1); VNum (z' # 1)]) ofo res mk mark others);
     ("font", VNum (h # 1)); ("size", VNum (z # 1))] =
  if ((h =? h') && (z =? z'))%Z
  then inl (obj st ct cc ccs ca cas (VList [VNum (h' # 1); VNum (z' # 1)]) ofo res mk mark others, VNone)
  else inl (obj (snoc st (VList [VStr "Tf"; VNum (h # 1); VNum (z # 1)])) ct cc ccs ca cas (VList [VNum (h # 1); VNum (z # 1)])
                ofo res mk mark others, VNone).
Proof.
  start stream_set_font_size_body.
  destruct (h =? h')%Z eqn:E1; [destruct (z =? z')%Z eqn:E2|]; cbn [andb]; steps; rewrite ?E1, ?E2; ev; repeat step; reflexivity.
Qed.
End Raw.

(* ------------------------------------------------------------------ transform, begin_marked_content *)
Lemma Qplus_z x y : Qplus (x # 1) (y # 1) = ((x + y) # 1).
Proof. unfold Qplus. cbn [Qnum Qden]. rewrite !Z.mul_1_r. reflexivity. Qed.
Lemma Qmult_z x y : Qmult (x # 1) (y # 1) = ((x * y) # 1).
Proof. reflexivity. Qed.

Lemma gen_mat_ctor a b c d e f :
  mat_calls "Matrix" [VNum (a # 1); VNum (b # 1); VNum (c # 1); VNum (d # 1); VNum (e # 1); VNum (f # 1); VNone] =
  emat (a, b, c, d, e, f).
Proof. reflexivity. Qed.

Lemma gen_mat_mul m n : mat_calls ".__matmul__" [emat m; emat n] = emat (M.mat_mul m n).
Proof.
  destruct m as [[[[[a b] c] d] e] f], n as [[[[[a' b'] c'] d'] e'] f'].
  unfold emat, vz, inject_Z, M.mat_mul.
  match goal with |- ?L = _ => let L' := eval lazy -[Qplus Qmult] in L in change L with L' end.
  rewrite !Qmult_z, !Qplus_z.
  repeat (f_equal; try ring).
Qed.

Lemma setitem_last l x v : setitem (VList (snoc l x)) (VNum ((-1) # 1)) v = VList (snoc l v).
Proof.
  unfold snoc, setitem. change (as_int ((-1)#1)) with (Some (-1)%Z). cbv iota beta.
  unfold norm_index. change (-1 <? 0)%Z with true. cbv iota.
  rewrite app_length. cbn [List.length].
  replace (-1 + Z.of_nat (List.length l + 1))%Z with (Z.of_nat (List.length l)) by lia.
  assert (H0 : (Z.of_nat (List.length l) <? 0)%Z = false) by (apply Z.ltb_ge; lia). rewrite H0.
  assert (H1 : (Z.of_nat (List.length l) <? Z.of_nat (List.length l + 1))%Z = true) by (apply Z.ltb_lt; lia). rewrite H1.
  rewrite Nat2Z.id. f_equal. clear. induction l as [|y r IH]; [reflexivity|]. cbn [app List.length list_set]. now rewrite IH.
Qed.

Ltac ev ::= lazy -[exec_block prim_apply ctm_impl mat_calls Z.add Z.mul setitem snoc nonnil obs_self obs_err SO real_ops ocall qsub qeqb veq_k str_eqb Qeq_bool Z.eqb Z.of_nat].
Ltac fix2 :=
  match goal with
  | |- context [mat_calls "Matrix" [VNum (?a # 1); VNum (?b # 1); VNum (?c # 1); VNum (?d # 1); VNum (?e # 1); VNum (?f # 1); VNone]] =>
      rewrite (gen_mat_ctor a b c d e f)
  | |- context [mat_calls ".__matmul__" [?y; ?x]] =>
      match y with
      | VList [VList [VNum (?a0 # 1); VNum (?b0 # 1); _]; VList [VNum (?c0 # 1); VNum (?d0 # 1); _]; VList [VNum (?e0 # 1); VNum (?f0 # 1); _]] =>
      match x with
      | VList [VList [VNum (?a # 1); VNum (?b # 1); _]; VList [VNum (?c # 1); VNum (?d # 1); _]; VList [VNum (?e # 1); VNum (?f # 1); _]] =>
          change (mat_calls ".__matmul__" [y; x]) with (mat_calls ".__matmul__" [emat (a0, b0, c0, d0, e0, f0); emat (a, b, c, d, e, f)]);
          rewrite (gen_mat_mul (a0, b0, c0, d0, e0, f0) (a, b, c, d, e, f))
      end end
  | |- context [setitem (VList (snoc ?l ?x)) (VNum (-1 # 1)) ?v] => rewrite (setitem_last l x v)
  | |- context [veq_k ?O ?R ?e (VStr ?a) VNone ?K] => change (veq_k O R e (VStr a) VNone K) with (K false)
  | |- context [veq_k ?O ?R ?e VNone VNone ?K] => change (veq_k O R e VNone VNone K) with (K true)
  end.
Ltac fixp ::= repeat (first [fix1 | fix2]; ev).

Ltac step2 :=
  match goal with
  | |- exec_block ?O ?A ?kr ?ke [] ?rho ?k = _ => rewrite (exec_block_nil O A kr ke rho k); ev
  | |- exec_block ?O ?A ?kr ?ke (SIf ?c ?th ?el :: ?l) ?rho ?k = _ =>
      let p := fresh "p" in let Hp := fresh "Hp" in
      let p1 := fresh "p" in let Hp1 := fresh "Hp" in
      let p2 := fresh "p" in let Hp2 := fresh "Hp" in
      remember l as p eqn:Hp; remember th as p1 eqn:Hp1; remember el as p2 eqn:Hp2;
      rewrite (exec_block_cons O A kr ke (SIf c p1 p2) p rho k); rewrite exec_if; ev; fixp; subst p p1 p2
  | |- exec_block ?O ?A ?kr ?ke (?s :: ?l) ?rho ?k = _ =>
      let p := fresh "p" in let Hp := fresh "Hp" in
      remember l as p eqn:Hp; rewrite (exec_block_cons O A kr ke s p rho k); ev; fixp; subst p
  end.
Ltac steps2 := match goal with |- _ = ?R => let rhs := fresh "rhs" in let Hr := fresh "Hr" in remember R as rhs eqn:Hr; repeat step2; subst rhs end.

Section Raw2.
Variable tagf : val -> string.
Variables (mk : list val) (others : list (string * val)).
Variables (cc ccs ca cas cf ofo res : val).
Notation O := (SO tagf).

Lemma transform_raw st C mark a b c d e f a' b' c' d' e' f' :
  meth_out O stream_transform_body
    [("self", obj st (snoc C (emat (a', b', c', d', e', f'))) cc ccs ca cas cf ofo res mk mark others);
     ("a", VNum (a # 1)); ("b", VNum (b # 1)); ("c", VNum (c # 1)); ("d", VNum (d # 1)); ("e", VNum (e # 1)); ("f", VNum (f # 1))] =
  inl (obj (snoc st (VList [VStr "cm"; emat (a, b, c, d, e, f)]))
           (snoc C (emat (M.mat_mul (a, b, c, d, e, f) (a', b', c', d', e', f')))) cc ccs ca cas cf ofo res mk mark others, VNone).
Proof. start stream_transform_body. steps2. reflexivity. Qed.
Lemma transform_raw_nil st mark a b c d e f :
  meth_out O stream_transform_body
    [("self", obj st [] cc ccs ca cas cf ofo res mk mark others);
     ("a", VNum (a # 1)); ("b", VNum (b # 1)); ("c", VNum (c # 1)); ("d", VNum (d # 1)); ("e", VNum (e # 1)); ("f", VNum (f # 1))] =
  inr "IndexError".
Proof. start stream_transform_body. steps2. reflexivity. Qed.

Definition mc_box (et : string) (bf : list (string * val)) : val := VObj (("element_tag", VStr et) :: bf).
Definition mc_tag (et : string) (tag : option string) : val :=
  match tag with Some t => VStr t | None => VStr (tagf (VStr et)) end.
Lemma begin_mc_raw st ct (b mcid : bool) et bf tag :
  meth_out O stream_begin_marked_content_body
    [("self", obj st ct cc ccs ca cas cf ofo res mk (VBool b) others); ("box", mc_box et bf); ("mcid", VBool mcid);
     ("tag", eopt VStr tag)] =
  inl (if b then
         if mcid then
           obj (st ++ [VList [VStr "/tag"]; VList [VStr "MCID"; VNum (Z.of_nat (List.length mk) # 1)]; VStr "b'BDC'"])
               ct cc ccs ca cas cf ofo res (mk ++ [VList [mc_tag et tag; mc_box et bf]]) (VBool b) others
         else obj (st ++ [VList [VStr "/tag"]; VStr "b'BMC'"]) ct cc ccs ca cas cf ofo res mk (VBool b) others
       else obj st ct cc ccs ca cas cf ofo res mk (VBool b) others, VNone).
Proof.
  start stream_begin_marked_content_body. unfold mc_box, mc_tag.
  destruct b, mcid, tag as [t|]; cbn [eopt]; steps2; reflexivity.
Qed.
End Raw2.

(* ------------------------------------------------------------------ the regenerated methods compute the model *)
Definition tied (o : M.op) : bool :=
  match o with
  | M.Push | M.Pop | M.BeginText | M.EndText | M.SetFont _ | M.EndMC | M.Transform _ => true
  | _ => false
  end.
Definition src_call (tagf : val -> string) (o : M.op) (self : val) : (val * val) + string :=
  match o with
  | M.Push => meth_out (SO tagf) stream_push_state_body [("self", self)]
  | M.Pop => meth_out (SO tagf) stream_pop_state_body [("self", self)]
  | M.BeginText => meth_out (SO tagf) stream_begin_text_body [("self", self)]
  | M.EndText => meth_out (SO tagf) stream_end_text_body [("self", self)]
  | M.EndMC => meth_out (SO tagf) stream_end_marked_content_body [("self", self)]
  | M.SetFont f => meth_out (SO tagf) stream_set_font_size_body [("self", self); ("font", vz (fst f)); ("size", vz (snd f))]
  | M.Transform m =>
      let '(a, b, c, d, e, f) := m in
      meth_out (SO tagf) stream_transform_body
        [("self", self); ("a", vz a); ("b", vz b); ("c", vz c); ("d", vz d); ("e", vz e); ("f", vz f)]
  | _ => inr "not tied"
  end.
(* begin_marked_content(box, mcid, tag): box any object whose element_tag is the str et, tag a str or None *)
Definition mc_args := (string * list (string * val) * option string)%type.
Definition src_begin_mc (tagf : val -> string) (x : mc_args) (mcid : bool) (self : val) : (val * val) + string :=
  let '(et, bf, tag) := x in
  meth_out (SO tagf) stream_begin_marked_content_body
    [("self", self); ("box", mc_box et bf); ("mcid", VBool mcid); ("tag", eopt VStr tag)].
(* what the call appends to self.marked *)
Definition mc_marked (tagf : val -> string) (x : mc_args) (mcid : bool) (s : M.st) (mk : list val) : list val :=
  let '(et, bf, tag) := x in
  if M.markon s && mcid then mk ++ [VList [mc_tag tagf et tag; mc_box et bf]] else mk.
Definition pop_err (s : M.st) : string := match M.ctms s with [] => "IndexError" | _ => "AssertionError" end.
Definition err_of (o : M.op) (s : M.st) : string :=
  match o with M.Pop => pop_err s | _ => "IndexError" end.

Ltac sshape_of st :=
  match st with
  | snoc ?L (VStr ?s) => constr:(SStr L s) | snoc ?L (VList ?y) => constr:(SLst L y) | @nil _ => constr:(SNil)
  end.
Ltac cshape_of ct :=
  match ct with
  | snoc (snoc ?C ?x2) (VList ?y1) => constr:(CMore C x2 y1) | snoc [] (VList ?y1) => constr:(COne y1)
  | @nil _ => constr:(CNil)
  end.
Ltac prep := cbn [M.toks M.ctms M.ccol M.ccols M.calpha M.calphas M.cfont M.ofont M.egs M.nmark M.markon];
  rewrite ?map_rev_cons; cbn [map rev emat etok eopt epair fst snd].

Theorem gen_tied_step tagf mk others o s : tied o = true ->
  src_call tagf o (enc mk others s) =
  match M.mstep o s with Some s' => inl (enc mk others s', VNone) | None => inr (err_of o s) end.
Proof.
  intros T. destruct s as [tk ct cc ccs ca cas cf ofo eg nm mo].
  destruct o; try discriminate T; clear T; unfold src_call, err_of, pop_err, M.mstep, enc.
  - (* push *) unfold M.m_push, M.with_ctms, M.emit. prep.
    destruct ct as [|[[[[[a b] c] d] e] f] cr]; prep.
    + apply push_raw_nil.
    + etransitivity; [apply push_raw|]. reflexivity.
  - (* pop *) unfold M.m_pop, M.reset_caches, M.with_ctms, M.with_toks, M.emit. prep.
    destruct ct as [|[[[[[a b] c] d] e] f] [|m2 cr]]; (destruct tk as [|t r]; [|destruct t]); prep;
    match goal with |- meth_out ?O ?b [("self", obj ?st ?ct ?cc ?ccs ?ca ?cas ?cf ?ofo ?res ?mk ?mark ?oth)] = _ =>
      let sh := sshape_of st in let c := cshape_of ct in
      etransitivity; [exact (pop_raw tagf mk oth cc ccs ca cas cf ofo res sh c mark)|] end; reflexivity.
  - (* begin_text *) unfold M.m_begin_text, M.with_fonts, M.with_toks, M.emit. prep.
    (destruct tk as [|t r]; [|destruct t]); prep;
    match goal with |- meth_out ?O ?b [("self", obj ?st ?ct ?cc ?ccs ?ca ?cas ?cf ?ofo ?res ?mk ?mark ?oth)] = _ =>
      let sh := sshape_of st in
      etransitivity; [exact (begin_text_raw tagf mk oth cc ccs ca cas cf ofo res sh ct mark)|] end; reflexivity.
  - (* end_text *) unfold M.m_end_text, M.with_fonts, M.emit. prep.
    etransitivity; [apply end_text_raw|]. reflexivity.
  - (* set_font_size *) unfold M.m_set_font, M.with_fonts, M.emit, M.opt_eqb, M.font_eqb, vz, inject_Z. prep.
    destruct f as [h z]. destruct cf as [[h' z']|]; prep.
    + etransitivity; [apply set_font_some|]. cbn [fst snd].
      rewrite (Z.eqb_sym h h'), (Z.eqb_sym z z'). destruct ((h' =? h) && (z' =? z))%Z; prep; reflexivity.
    + etransitivity; [apply set_font_none|]. reflexivity.
  - (* transform *) destruct m as [[[[[a b] c] d] e] f]. unfold M.m_transform, M.with_ctms, M.emit, vz, inject_Z. prep.
    destruct ct as [|[[[[[a' b'] c'] d'] e'] f'] cr]; prep.
    + apply transform_raw_nil.
    + etransitivity; [apply transform_raw|]. reflexivity.
  - (* end_marked_content *) unfold M.m_end_mc, M.emit. prep.
    etransitivity; [apply end_mc_raw|]. destruct mo; prep; reflexivity.
Qed.

(* begin_marked_content: the model counts the items of self.marked (nmark), the source measures the list *)
Theorem gen_begin_mc tagf mk others x mcid s : marked_ok mk s ->
  src_begin_mc tagf x mcid (enc mk others s) = inl (enc (mc_marked tagf x mcid s mk) others (M.m_begin_mc mcid s), VNone) /\
  marked_ok (mc_marked tagf x mcid s mk) (M.m_begin_mc mcid s).
Proof.
  intros Hm. destruct x as [[et bf] tag]. destruct s as [tk ct cc ccs ca cas cf ofo eg nm mo].
  unfold marked_ok in *. cbn [M.nmark] in Hm. subst nm.
  unfold src_begin_mc, mc_marked, M.m_begin_mc, enc. cbn [M.markon M.nmark M.toks M.emit].
  split.
  - etransitivity; [apply begin_mc_raw|].
    destruct mo, mcid; cbn [andb M.emit M.toks M.ctms M.ccol M.ccols M.calpha M.calphas M.cfont M.ofont M.egs M.nmark M.markon];
      rewrite ?map_rev_cons; cbn [etok]; unfold snoc, vz, inject_Z; rewrite <- ?app_assoc; reflexivity.
  - destruct mo, mcid; cbn [andb M.emit M.nmark M.markon]; rewrite ?app_length; cbn [List.length]; lia.
Qed.

(* ------------------------------------------------------------------ sequences of calls *)
(* A sequence of API calls on the object: push_state / pop_state / begin_text / end_text / set_font_size /
   end_marked_content / transform / begin_marked_content are executed by the interpreter on the bodies regenerated from
   the source (a call carries the box and tag arguments that begin_marked_content reads); every other call by [impl],
   any function on objects that agrees with the model (what the correspondence streams of harness/p_c16.py check on the
   real Stream) and leaves self.marked as long as the model counts it. *)
Definition call := (M.op * mc_args)%type.
Section Lift.
Variable tagf : val -> string.
Variable others : list (string * val).
Variable impl : M.op -> val -> option val.
Definition by_impl (o : M.op) : bool := match o with M.BeginMC _ => false | _ => negb (tied o) end.
Definition impl_ok : Prop := forall o mk s, by_impl o = true -> marked_ok mk s ->
  match M.mstep o s with
  | Some s' => exists mk', impl o (enc mk others s) = Some (enc mk' others s') /\ marked_ok mk' s'
  | None => impl o (enc mk others s) = None
  end.
Hypothesis Himpl : impl_ok.

Definition gstep (c : call) (self : val) : option val :=
  match fst c with
  | M.BeginMC mcid => match src_begin_mc tagf (snd c) mcid self with inl (self', _) => Some self' | inr _ => None end
  | o => if tied o then match src_call tagf o self with inl (self', _) => Some self' | inr _ => None end
         else impl o self
  end.
Fixpoint grun (cs : list call) (self : val) : option val :=
  match cs with
  | [] => Some self
  | c :: r => match gstep c self with Some self' => grun r self' | None => None end
  end.

Lemma gstep_model c mk s : marked_ok mk s ->
  match M.mstep (fst c) s with
  | Some s' => exists mk', gstep c (enc mk others s) = Some (enc mk' others s') /\ marked_ok mk' s'
  | None => gstep c (enc mk others s) = None
  end.
Proof.
  intros Hm. destruct c as [o x]. cbn [fst].
  assert (Hb : forall mcid, o = M.BeginMC mcid ->
            exists mk', gstep (o, x) (enc mk others s) = Some (enc mk' others (M.m_begin_mc mcid s)) /\
                        marked_ok mk' (M.m_begin_mc mcid s)).
  { intros mcid ->. unfold gstep. cbn [fst snd]. destruct (gen_begin_mc tagf mk others x mcid s Hm) as [E K].
    rewrite E. eexists; split; [reflexivity|exact K]. }
  destruct (tied o) eqn:T.
  - assert (G : gstep (o, x) (enc mk others s) =
                match src_call tagf o (enc mk others s) with inl (self', _) => Some self' | inr _ => None end).
    { unfold gstep. cbn [fst]. destruct o; try discriminate T; reflexivity. }
    rewrite G, (gen_tied_step tagf mk others o s T).
    destruct (M.mstep o s) as [s'|] eqn:E; [|reflexivity].
    exists mk. split; [reflexivity|].
    unfold marked_ok in *. rewrite <- Hm. clear G Hb.
    destruct o; try discriminate T; cbn [M.mstep] in E;
      unfold M.m_push, M.m_pop, M.m_transform in E;
      repeat match type of E with context [match ?d with _ => _ end] => destruct d end;
      try discriminate E; inversion E; subst;
      unfold M.m_begin_text, M.m_end_text, M.m_set_font, M.m_end_mc;
      repeat match goal with |- context [match ?d with _ => _ end] => destruct d end;
      repeat match goal with |- context [if ?d then _ else _] => destruct d end; reflexivity.
  - destruct o; try discriminate T;
      try (apply (Himpl _ mk s); [reflexivity|exact Hm]).
    cbn [M.mstep]. exact (Hb mcid eq_refl).
Qed.

Theorem grun_model cs mk s : marked_ok mk s ->
  match M.run (map fst cs) s with
  | Some s' => exists mk', grun cs (enc mk others s) = Some (enc mk' others s') /\ marked_ok mk' s'
  | None => grun cs (enc mk others s) = None
  end.
Proof.
  revert mk s. induction cs as [|c r IH]; intros mk s Hm; cbn [grun M.run map]; [exists mk; split; [reflexivity|exact Hm]|].
  pose proof (gstep_model c mk s Hm) as G. destruct (M.mstep (fst c) s) as [s1|].
  - destruct G as [mk1 [G K]]. rewrite G. now apply IH.
  - now rewrite G.
Qed.

(* the balance theorem of proofs/C16_balance.v about sequences of the regenerated methods *)
Theorem source_balanced (mark : bool) (d : M.egsd) (cs : list call) :
  M.wb (map fst cs) = true ->
  exists s' mk', grun cs (enc [] others (M.fresh mark d)) = Some (enc mk' others s') /\
    M.nested (rev (M.toks s')) = true /\ M.dyck_q (rev (M.toks s')) = true /\ M.dyck_text (rev (M.toks s')) = true /\
    M.dyck_mc (rev (M.toks s')) = true /\ List.length (M.ctms s') = 1%nat.
Proof.
  intros W. destruct (balanced_calls_give_balanced_tokens mark d (map fst cs) W) as [s' [R B]].
  assert (H0 : marked_ok [] (M.fresh mark d)) by reflexivity.
  pose proof (grun_model cs [] (M.fresh mark d) H0) as G. rewrite R in G. destruct G as [mk' [G _]].
  exists s', mk'. split; [exact G|exact B].
Qed.
End Lift.

(* the hypothesis on [impl] is satisfiable: the model itself, read through a decoder of the encoding, is such a function
   whenever one exists; here: a sequence of tied calls needs no [impl] at all *)
Definition no_mc : mc_args := ("", [], None).
Example ex_tied_only tagf others :
  grun tagf (fun _ _ => None)
       (map (fun o => (o, no_mc)) [M.Push; M.BeginText; M.SetFont (3, 12)%Z; M.EndText; M.BeginText; M.EndText; M.Pop; M.Push;
                                    M.Transform (2, 0, 0, 2, 5, 7)%Z; M.Pop])
       (enc [] others (M.fresh true [])) =
  Some (enc [] others (M.mk [M.TQ; M.Tcm (2, 0, 0, 2, 5, 7)%Z; M.Tq; M.TQ; M.TET; M.Tfont (3, 12)%Z; M.TBT; M.Tq] [M.mat_id] None None None None None (Some (3, 12)%Z) [] 0 true)).
Proof.
  cbn [grun map]. unfold gstep. cbn [tied fst snd].
  repeat (rewrite gen_tied_step by reflexivity; cbv [M.mstep M.m_push M.m_pop M.m_begin_text M.m_end_text M.m_set_font M.m_transform M.fresh
    M.with_ctms M.with_toks M.with_fonts M.reset_caches M.emit M.opt_eqb M.font_eqb M.toks M.ctms M.cfont M.ofont M.ccol M.ccols
    M.calpha M.calphas M.egs M.nmark M.markon fst snd Z.eqb Pos.eqb andb M.mat_mul M.mat_id Z.mul Z.add Pos.mul Pos.add]).
  reflexivity.
Qed.
(* a marked-content sequence with an MCID: the tag is computed by get_marked_content_tag, the (tag, box) pair is kept *)
Example ex_begin_mc tagf others :
  grun tagf (fun _ _ => None) [(M.BeginMC true, ("p", [], None)); (M.EndMC, no_mc)] (enc [] others (M.fresh true [])) =
  Some (enc [VList [VStr (tagf (VStr "p")); mc_box "p" []]] others
            (M.mk [M.TEMC; M.TBDC; M.Tprops 0; M.Ttag] [M.mat_id] None None None None None None [] 1 true)).
Proof.
  cbn [grun]. unfold gstep. cbn [fst snd tied].
  destruct (gen_begin_mc tagf [] others ("p", [], None) true (M.fresh true []) eq_refl) as [E _]. rewrite E.
  rewrite gen_tied_step by reflexivity. reflexivity.
Qed.
