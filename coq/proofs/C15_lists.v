(* C15: nested ordered lists.  With the user-agent rules `ol { counter-reset: list-item }` and
   `li { display: list-item }` (implicit increment), counters(list-item) at the marker of a list item is the list
   of the 1-based positions of the items along its path (innermost first), however the lists are nested; an <ol>
   itself sees 0 in front of the path.  Proved on the reference interpreter, transferred to the model of
   build.py by counters_refine_spec. *)
From Coq Require Import ZArith List String Bool Lia.
Require Import WV.model.C15Scope WV.proofs.C15_scope.
Import ListNotations.
Open Scope Z_scope.

(* a tree of lists: the root is an <ol>, its children are <li>, their children <ol>, and so on alternately *)
Inductive ltree := LT (kids : list ltree).

Section LtreeInd.
  Variable P : ltree -> Prop.
  Hypothesis H : forall kids, Forall P kids -> P (LT kids).
  Fixpoint ltree_ind' (t : ltree) : P t :=
    match t with
    | LT kids => H kids ((fix go (l : list ltree) : Forall P l :=
                            match l with [] => Forall_nil P | k :: tl => Forall_cons k (ltree_ind' k) (go tl) end) kids)
    end.
End LtreeInd.

Definition li : name := "list-item"%string.
Definition ol_props : props := mkProps [(li, 0)] [] None false.
Definition li_props : props := mkProps [] [] None true.

Fixpoint to_node (is_ol : bool) (t : ltree) : node :=
  match t with
  | LT kids => Elem true (if is_ol then ol_props else li_props) None (map (to_node (negb is_ol)) kids) None
  end.

(* what every element observes for list-item (innermost first), in document order.
   For an <ol>, [stack] is what its parent sees; for an <li>, [stack] is its own stack k :: path. *)
Fixpoint expect (is_ol : bool) (stack : list Z) (t : ltree) : list (list Z) :=
  match t with
  | LT kids =>
    if is_ol then
      (0 :: stack) ::
      (fix items (k : Z) (l : list ltree) : list (list Z) :=
         match l with [] => [] | x :: tl => expect false (k :: stack) x ++ items (k + 1) tl end) 1 kids
    else
      stack :: flat_map (expect true stack) kids
  end.

Example expect_ex :
  expect true [] (LT [LT []; LT [LT [LT []; LT []]]; LT []])
  = [[0]; [1]; [2]; [0; 2]; [1; 2]; [2; 2]; [3]].
Proof. reflexivity. Qed.

Definition obs_li (o : list obs) : list (list Z) := map (fun ob => ob li) o.

(* facts on levels *)
Lemma assoc_cons_same n v l : assoc n ((n, v) :: l) = Some v.
Proof. simpl. rewrite String.eqb_refl. reflexivity. Qed.

Lemma reset_top (top : level) rest :
  exists top', ref_reset (top :: rest) (li, 0) = top' :: rest /\ assoc li top' = Some 0.
Proof.
  unfold ref_reset. cbn [fst snd]. destruct (in_level li top) eqn:E.
  - destruct (pick_in_level_true li top E) as (v & _ & Ha). eexists. split; [reflexivity|].
    apply (assoc_update_same li (fun _ => 0) top v Ha).
  - eexists. split; [reflexivity|]. apply assoc_cons_same.
Qed.

Lemma pick_assoc n l v : assoc n l = Some v -> pick n l = [v].
Proof. intros H. unfold pick. rewrite H. reflexivity. Qed.

Lemma incr_second (ctop otop : level) rest k :
  in_level li ctop = false -> assoc li otop = Some k ->
  ref_modify (fun x => x + 1) (ctop :: otop :: rest) li = ctop :: update_assoc li (fun x => x + 1) otop :: rest.
Proof.
  intros Hc Ho. unfold ref_modify. cbn [modify_innermost]. rewrite Hc.
  assert (E : in_level li otop = true) by (unfold in_level; rewrite Ho; reflexivity). rewrite E. reflexivity.
Qed.

(* the two statements proved together: an <ol> leaves the levels below its own untouched; an <li> increments
   the counter of its list (second level) and leaves the rest untouched *)
Definition ol_ok (t : ltree) : Prop := forall top rest,
  exists top', fst (ref_node (top :: rest) (to_node true t)) = top' :: rest /\
               obs_li (snd (ref_node (top :: rest) (to_node true t))) = expect true (flat_map (pick li) rest) t.
Definition li_ok (t : ltree) : Prop := forall ctop otop rest k,
  in_level li ctop = false -> assoc li otop = Some k ->
  exists otop', fst (ref_node (ctop :: otop :: rest) (to_node false t)) = ctop :: otop' :: rest /\
                assoc li otop' = Some (k + 1) /\
                obs_li (snd (ref_node (ctop :: otop :: rest) (to_node false t)))
                = expect false ((k + 1) :: flat_map (pick li) rest) t.

Lemma obs_li_app a b : obs_li (a ++ b) = obs_li a ++ obs_li b.
Proof. apply map_app. Qed.

Lemma ref_node_unfold lv p kids :
  ref_node lv (Elem true p None kids None) =
  (tl (fst (ref_nodes ([] :: ref_update lv p) kids)),
   ref_obs ([] :: ref_update lv p) :: snd (ref_nodes ([] :: ref_update lv p) kids)).
Proof.
  cbn [ref_node negb ref_pseudo]. rewrite ref_kids_eq.
  destruct (ref_nodes ([] :: ref_update lv p) kids) as [lv4 ok]. cbn [fst snd]. rewrite !app_nil_r. reflexivity.
Qed.

Theorem lists_ok : forall t, ol_ok t /\ li_ok t.
Proof.
  apply ltree_ind'. intros kids IH. split.
  - (* an <ol> *)
    intros top rest. cbn [to_node negb]. rewrite ref_node_unfold.
    unfold ref_update. cbn [ol_props p_reset p_set spec_increments p_inc p_list_item fold_left].
    destruct (reset_top top rest) as (top1 & -> & Ha1).
    (* the items: invariant on the two upper levels *)
    assert (Hitems : forall l, Forall (fun t => ol_ok t /\ li_ok t) l -> forall otop k,
              assoc li otop = Some k ->
              exists otop', fst (ref_nodes ([] :: otop :: rest) (map (to_node false) l)) = [] :: otop' :: rest /\
                            obs_li (snd (ref_nodes ([] :: otop :: rest) (map (to_node false) l)))
                            = (fix items (k : Z) (l : list ltree) : list (list Z) :=
                                 match l with [] => [] | x :: tl => expect false (k :: flat_map (pick li) rest) x ++ items (k + 1) tl end)
                                (k + 1) l).
    { induction l as [|x l IHl]; intros Hall otop k Hk.
      - exists otop. split; reflexivity.
      - inversion Hall as [|? ? [_ Hx] Hl]; subst. cbn [map ref_nodes].
        destruct (Hx [] otop rest k eq_refl Hk) as (otop1 & Hf & Ha & Ho).
        destruct (IHl Hl otop1 (k + 1) Ha) as (otop2 & Hf2 & Ho2).
        remember (ref_node ([] :: otop :: rest) (to_node false x)) as X eqn:EX. destruct X as [lv1 o1].
        assert (E1 : lv1 = [] :: otop1 :: rest) by (first [exact Hf | exact (eq_trans (f_equal fst EX) Hf)]).
        assert (E1o : obs_li o1 = expect false (k + 1 :: flat_map (pick li) rest) x)
          by (first [exact Ho | exact (eq_trans (f_equal (fun p => obs_li (snd p)) EX) Ho)]).
        subst lv1.
        remember (ref_nodes ([] :: otop1 :: rest) (map (to_node false) l)) as Y eqn:EY. destruct Y as [lv2 o2].
        assert (E2 : lv2 = [] :: otop2 :: rest) by (first [exact Hf2 | exact (eq_trans (f_equal fst EY) Hf2)]).
        assert (E2o := Ho2). first [rewrite <- EY in E2o | idtac]. cbn [snd] in E2o.
        cbn [fst snd]. exists otop2. split; [exact E2|]. rewrite obs_li_app, E1o, E2o. reflexivity. }
    destruct (Hitems kids IH top1 0 Ha1) as (topN & Hf & Ho).
    exists topN. rewrite Hf. cbn [tl fst snd]. split; [reflexivity|].
    cbn [expect]. unfold obs_li at 1. cbn [map]. f_equal.
    + unfold ref_obs. cbn [flat_map]. change (assoc li []) with (@None Z). cbn [app].
      rewrite Ha1. reflexivity.
    + exact Ho.
  - (* an <li> *)
    intros ctop otop rest k Hc Ho. cbn [to_node negb]. rewrite ref_node_unfold.
    unfold ref_update. cbn [li_props p_reset p_set spec_increments p_inc p_list_item fold_left fst snd].
    change "list-item"%string with li. rewrite (incr_second ctop otop rest k Hc Ho).
    set (otop' := update_assoc li (fun x => x + 1) otop).
    assert (Ha' : assoc li otop' = Some (k + 1)) by (apply (assoc_update_same li (fun x => x + 1) otop k Ho)).
    assert (Hstack : flat_map (pick li) (ctop :: otop' :: rest) = (k + 1) :: flat_map (pick li) rest).
    { cbn [flat_map]. rewrite (pick_in_level li ctop Hc), (pick_assoc li otop' _ Ha'). reflexivity. }
    (* the sub-lists *)
    assert (Hsubs : forall l, Forall (fun t => ol_ok t /\ li_ok t) l -> forall top,
              exists top', fst (ref_nodes (top :: ctop :: otop' :: rest) (map (to_node true) l)) = top' :: ctop :: otop' :: rest /\
                           obs_li (snd (ref_nodes (top :: ctop :: otop' :: rest) (map (to_node true) l)))
                           = flat_map (expect true ((k + 1) :: flat_map (pick li) rest)) l).
    { induction l as [|x l IHl]; intros Hall top.
      - exists top. split; reflexivity.
      - inversion Hall as [|? ? [Hx _] Hl]; subst. cbn [map ref_nodes].
        destruct (Hx top (ctop :: otop' :: rest)) as (top1 & Hf & Hox).
        destruct (IHl Hl top1) as (top2 & Hf2 & Ho2).
        remember (ref_node (top :: ctop :: otop' :: rest) (to_node true x)) as X eqn:EX. destruct X as [lv1 o1].
        assert (E1 : lv1 = top1 :: ctop :: otop' :: rest) by (first [exact Hf | exact (eq_trans (f_equal fst EX) Hf)]).
        assert (E1o := Hox). first [rewrite <- EX in E1o | idtac]. cbn [snd] in E1o.
        subst lv1.
        remember (ref_nodes (top1 :: ctop :: otop' :: rest) (map (to_node true) l)) as Y eqn:EY. destruct Y as [lv2 o2].
        assert (E2 : lv2 = top2 :: ctop :: otop' :: rest) by (first [exact Hf2 | exact (eq_trans (f_equal fst EY) Hf2)]).
        assert (E2o := Ho2). first [rewrite <- EY in E2o | idtac]. cbn [snd] in E2o.
        cbn [fst snd]. exists top2. split; [exact E2|]. rewrite obs_li_app, E1o, E2o, Hstack. reflexivity. }
    destruct (Hsubs kids IH []) as (topN & Hf & Hos).
    exists otop'. split; [exact (f_equal (@tl level) Hf)|]. split; [exact Ha'|].
    cbn [expect]. unfold obs_li at 1. cbn [map]. f_equal.
    + unfold ref_obs. cbn [flat_map]. change (assoc li []) with (@None Z). cbn [app].
      change (flat_map (pick li) (ctop :: otop' :: rest) = (k + 1) :: flat_map (pick li) rest). exact Hstack.
    + exact Hos.
Qed.

(* such documents satisfy the side condition of the refinement theorem *)
Lemma to_node_ok : forall t b, ok_tree (to_node b t).
Proof.
  apply (ltree_ind' (fun t => forall b, ok_tree (to_node b t))). intros kids IH b. cbn [to_node ok_tree].
  split; [destruct b; reflexivity|]. split; [exact I|]. split; [exact I|].
  induction kids as [|x l IHl]; cbn [map]; [exact I|]. inversion IH as [|? ? Hx Hl]; subst.
  split; [apply Hx|apply IHl; exact Hl].
Qed.

Lemma obs_eq_li a b : obs_eq a b -> obs_li a = obs_li b.
Proof. induction 1 as [|x y a b Hxy _ IH]; [reflexivity|]. cbn [obs_li map]. rewrite (Hxy li). f_equal. exact IH. Qed.

(* nested_list_numbering: the MODEL of build.py numbers every nesting of ol / li as expected *)
Theorem nested_list_numbering t :
  exists st o, run_node init_state (to_node true t) = Some (st, o) /\ obs_li o = expect true [] t.
Proof.
  destruct (document_refines_spec (to_node true t) (to_node_ok t true)) as (st & o & Hrun & Heq).
  exists st, o. split; [exact Hrun|]. rewrite (obs_eq_li _ _ Heq).
  destruct (proj1 (lists_ok t) [("footnote"%string, 0)] []) as (top' & _ & Ho). exact Ho.
Qed.
