(* C15: what one activation of render_value does (model/C15Style.v), for every counter style, every value:
   the six algorithms, the range rule, when and with which value the fallback style is called, the negative
   sign, the padding.  Everything here is about [render_resolved] / [represent] / [finish], i.e. about a counter
   whose `extends` has been resolved; [render_step_plain] connects it to render_value for a style that does not
   use `extends`. *)
From Coq Require Import ZArith List String Bool Lia.
Require Import WV.model.C15Style WV.proofs.C15_digits.
Import ListNotations.
Open Scope Z_scope.

(* --------------------------------------------------------------------------- styles without extends *)
Definition plain (c : cstyle) : Prop := fst (fst (sys_of c)) = false.

Lemma resolve_loop_plain fuel S c sys pt : resolve_loop fuel S c false sys pt = RLDone c pt.
Proof. destruct fuel; reflexivity. Qed.
Lemma extend_loop_plain fuel S c sys fx pt : extend_loop fuel S c false sys fx pt = ELOk c sys fx pt.
Proof. destruct fuel; reflexivity. Qed.

Lemma render_step_plain S n c v :
  lookup n S = Some c -> plain c ->
  render_step S v (CName n) None = render_resolved c (snd (fst (sys_of c))) (snd (sys_of c)) [CName n] v.
Proof.
  intros Hl Hp. unfold render_step, resolve. rewrite Hl. unfold plain in Hp.
  destruct (sys_of c) as [[ext sys] fx] eqn:Es. cbn [fst snd] in *. subst ext.
  rewrite resolve_loop_plain. rewrite Es. rewrite extend_loop_plain. reflexivity.
Qed.

(* ------------------------------------------------------------------------------------ range rule *)
Definition in_some_range (l : list ritem) (v : Z) : Prop :=
  exists lo hi, In (RItem lo hi) l /\ le_lo lo v = true /\ le_hi v hi = true.

Lemma check_ranges_in l v : check_ranges l v = RgIn -> in_some_range l v.
Proof.
  induction l as [|[|lo hi] l IH]; simpl; try discriminate.
  destruct (le_lo lo v && le_hi v hi) eqn:E.
  - intros _. apply andb_true_iff in E. exists lo, hi. split; [left; reflexivity|exact E].
  - intros H. destruct (IH H) as (lo' & hi' & Hin & Hb). exists lo', hi'. split; [right; exact Hin|exact Hb].
Qed.
Lemma check_ranges_out l v : check_ranges l v = RgOut -> ~ in_some_range l v.
Proof.
  induction l as [|[|lo hi] l IH]; simpl; try discriminate.
  - intros _ (lo & hi & [] & _).
  - destruct (le_lo lo v && le_hi v hi) eqn:E; [discriminate|]. intros H (lo' & hi' & [Heq|Hin] & H1 & H2).
    + injection Heq as <- <-. rewrite H1, H2 in E. discriminate.
    + apply (IH H). exists lo', hi'. auto.
Qed.

(* range_then_fallback: a value outside every range is rendered by the fallback style, same value, and the
   list of styles already tried is passed on *)
Theorem range_then_fallback c sys fx prev v :
  check_ranges (ranges_of c sys) v = RgOut ->
  render_resolved c sys fx prev v = CallFallback v (fallback_of c) prev.
Proof. intros H. unfold render_resolved. rewrite H. reflexivity. Qed.

(* the automatic range *)
Lemma auto_range_spec c sys v :
  (c_range c = None \/ c_range c = Some RAuto) ->
  check_ranges (ranges_of c sys) v =
    if (String.eqb sys "alphabetic" || String.eqb sys "symbolic") then (if 1 <=? v then RgIn else RgOut)
    else if String.eqb sys "additive" then (if 0 <=? v then RgIn else RgOut) else RgIn.
Proof.
  intros [H|H]; unfold ranges_of, auto_range; rewrite H;
    destruct (String.eqb sys "alphabetic" || String.eqb sys "symbolic"); simpl;
    try rewrite andb_true_r; try reflexivity; destruct (String.eqb sys "additive"); simpl;
    try rewrite andb_true_r; reflexivity.
Qed.

(* ------------------------------------------------------------------------ the fallback is called ... *)
(* ... with the ORIGINAL counter value, whatever made the style give up (range, fixed, additive) *)
Lemma represent_fallback_system c sys fx v :
  represent c sys fx v = RpFallback -> sys = "fixed"%string \/ sys = "additive"%string.
Proof.
  unfold represent.
  destruct (String.eqb_spec sys "cyclic").
  { destruct (c_symbols c); [destruct (zlen l <? 1)|]; discriminate. }
  destruct (String.eqb_spec sys "fixed"); [auto|].
  destruct (String.eqb_spec sys "symbolic").
  { destruct (c_symbols c); [destruct (zlen l <? 1)|]; discriminate. }
  destruct (String.eqb_spec sys "alphabetic").
  { destruct (c_symbols c); [destruct (zlen l <? 2); [|destruct (alpha_loop _ _ _ _)]|]; discriminate. }
  destruct (String.eqb_spec sys "numeric").
  { destruct (c_symbols c) as [l|]; [|discriminate]. destruct (v =? 0); [destruct l; discriminate|].
    destruct (zlen l <? 2); [|destruct (num_loop _ _ _ _)]; discriminate. }
  destruct (String.eqb_spec sys "additive"); [auto|discriminate].
Qed.

Theorem fallback_gets_original_value c sys fx prev v v' n p :
  render_resolved c sys fx prev v = CallFallback v' n p -> v' = v /\ n = fallback_of c /\ p = prev.
Proof.
  unfold render_resolved. destruct (check_ranges (ranges_of c sys) v).
  - destruct (represent c sys fx (if (v <? 0) && uses_negative sys then Z.abs v else v)) eqn:Er; try discriminate.
    intros [= <- <- <-]. split; [|auto].
    destruct (represent_fallback_system _ _ _ _ Er) as [->| ->]; cbn.
    + rewrite andb_false_r. reflexivity.
    + rewrite !andb_true_r. destruct (Z.ltb_spec v 0); lia.
  - intros [= <- <- <-]. auto.
  - discriminate.
Qed.

(* ... exactly when the value is out of range or the algorithm cannot represent it *)
Theorem fallback_iff c sys fx prev v :
  (exists v' n p, render_resolved c sys fx prev v = CallFallback v' n p) <->
  (check_ranges (ranges_of c sys) v = RgOut \/
   (check_ranges (ranges_of c sys) v = RgIn /\
    represent c sys fx (if (v <? 0) && uses_negative sys then Z.abs v else v) = RpFallback)).
Proof.
  unfold render_resolved. split.
  - intros (v' & n & p & H). destruct (check_ranges (ranges_of c sys) v); [|auto|discriminate].
    right. split; [reflexivity|]. destruct (represent c sys fx _); try discriminate. reflexivity.
  - intros [H|[H1 H2]]; [rewrite H|rewrite H1, H2]; eauto.
Qed.

(* when the fixed system gives up: exactly outside first .. first + n - 1 *)
Theorem fixed_range l first c v :
  c_symbols c = Some l -> 1 <= zlen l ->
  represent c "fixed" (Some first) v =
    if (first <=? v) && (v <? first + zlen l) then RpInitial (nth_sym l (v - first)) else RpFallback.
Proof.
  intros Hs Hl. unfold represent. cbn [String.eqb Ascii.eqb Bool.eqb]. rewrite Hs.
  destruct (Z.ltb_spec (zlen l) 1); [lia|].
  destruct (Z.leb_spec 0 (v - first)), (Z.ltb_spec (v - first) (zlen l)),
           (Z.leb_spec first v), (Z.ltb_spec v (first + zlen l)); cbn; try reflexivity; lia.
Qed.

(* cyclic: the symbol of index (v - 1) mod n, for every integer (negative ones included), period n *)
Theorem cyclic_index l c v :
  c_symbols c = Some l -> 1 <= zlen l ->
  represent c "cyclic" None v = RpInitial (nth_sym l ((v - 1) mod zlen l)) /\
  0 <= (v - 1) mod zlen l < zlen l /\
  represent c "cyclic" None (v + zlen l) = represent c "cyclic" None v.
Proof.
  intros Hs Hl. unfold represent. cbn [String.eqb Ascii.eqb Bool.eqb]. rewrite Hs.
  destruct (Z.ltb_spec (zlen l) 1); [lia|]. split; [reflexivity|]. split; [apply Z.mod_pos_bound; lia|].
  f_equal. f_equal. replace (v + zlen l - 1) with (v - 1 + 1 * zlen l) by ring. apply Z.mod_add. lia.
Qed.

(* symbolic: the symbol of index (v - 1) mod n repeated ceil(v / n) times *)
Lemma length_rep_text k t : List.length (rep_text k t) = (k * List.length t)%nat.
Proof. induction k as [|k IH]; simpl; [reflexivity|]. rewrite app_length, IH. reflexivity. Qed.

Theorem symbolic_repeat l c v :
  c_symbols c = Some l -> 1 <= zlen l -> 1 <= v ->
  exists k, represent c "symbolic" None v = RpInitial (rep_text (Z.to_nat k) (nth_sym l ((v - 1) mod zlen l))) /\
            (k - 1) * zlen l < v <= k * zlen l.
Proof.
  intros Hs Hl Hv. exists ((v - 1) / zlen l + 1). unfold represent. cbn [String.eqb Ascii.eqb Bool.eqb]. rewrite Hs.
  destruct (Z.ltb_spec (zlen l) 1); [lia|]. split; [reflexivity|].
  pose proof (Z.div_mod (v - 1) (zlen l) ltac:(lia)). pose proof (Z.mod_pos_bound (v - 1) (zlen l) ltac:(lia)). nia.
Qed.

(* numeric / alphabetic / additive: the initial representation is the concatenation of the symbols chosen by
   the digit loops, whose meaning is in C15_digits.v *)
Theorem numeric_representation l c v :
  c_symbols c = Some l -> 2 <= zlen l -> 0 < v ->
  exists ds, represent c "numeric" None v = RpInitial (join_idx l ds) /\
             decode (zlen l) ds = v /\ valid_digits (zlen l) ds /\ no_leading_zero ds.
Proof.
  intros Hs Hl Hv. destruct (numeric_roundtrip (zlen l) v Hl ltac:(lia)) as (ds & Hrun & Hdec & Hval & Hlead).
  exists ds. unfold represent. cbn [String.eqb Ascii.eqb Bool.eqb]. rewrite Hs.
  destruct (Z.eqb_spec v 0); [lia|]. destruct (Z.ltb_spec (zlen l) 2); [lia|].
  rewrite Z.abs_eq by lia. rewrite Hrun. repeat split; auto.
  intros d rest ->. destruct (Hlead Hv) as (d' & r' & Heq & Hd). injection Heq as <- _. exact Hd.
Qed.

Theorem numeric_zero l s c : c_symbols c = Some (s :: l) -> represent c "numeric" None 0 = RpInitial (symbol s).
Proof. intros Hs. unfold represent. cbn [String.eqb Ascii.eqb Bool.eqb]. rewrite Hs. reflexivity. Qed.

Theorem alphabetic_representation l c v :
  c_symbols c = Some l -> 2 <= zlen l -> 0 <= v ->
  exists ds, represent c "alphabetic" None v = RpInitial (join_idx l ds) /\
             decode_bij (zlen l) ds = v /\ valid_digits (zlen l) ds.
Proof.
  intros Hs Hl Hv. destruct (alphabetic_roundtrip (zlen l) v Hl Hv) as (ds & Hrun & Hdec & Hval).
  exists ds. unfold represent. cbn [String.eqb Ascii.eqb Bool.eqb]. rewrite Hs.
  destruct (Z.ltb_spec (zlen l) 2); [lia|]. rewrite Hrun. auto.
Qed.

Theorem additive_representation l c v t :
  c_additive c = Some l -> Forall (fun ws => 0 <= fst ws) l -> 0 < v ->
  represent c "additive" None v = RpInitial t ->
  exists parts, t = join_parts parts /\ sum_w parts = v /\ Forall (fun p => In p l) parts.
Proof.
  intros Ha Hw Hv. unfold represent. cbn [String.eqb Ascii.eqb Bool.eqb]. rewrite Ha.
  destruct (Z.eqb_spec v 0); [lia|]. destruct (zlen l <? 1); [discriminate|].
  destruct (add_loop l v []) as [parts|] eqn:Hrun; [|discriminate]. intros [= <-].
  exists parts. split; [reflexivity|]. apply (additive_sums_to_value l v parts Hw ltac:(lia) Hrun).
Qed.

(* ------------------------------------------------------------------------- negative sign, padding *)
Definition neg_of (c : cstyle) : text * text :=
  let '(np, ns) := orelse (c_negative c) default_negative in (symbol np, symbol ns).
Definition pad_of (c : cstyle) : Z * text := let p := orelse (c_pad c) (0, SStr []) in (fst p, symbol (snd p)).

Lemma finish_shape (c : cstyle) (use_neg : bool) (t : text) :
  let '(np, ns) := neg_of c in
  let '(pn, ps) := pad_of c in
  let k := Z.to_nat (pn - zlen t - (if use_neg then zlen np + zlen ns else 0)) in
  finish c use_neg t = if use_neg then np ++ rep_text k ps ++ t ++ ns else rep_text k ps ++ t.
Proof.
  unfold neg_of, pad_of, finish. destruct (orelse (c_negative c) default_negative) as [np ns].
  cbn [fst snd]. set (d := fst (orelse (c_pad c) (0, SStr [])) - zlen t - _).
  destruct (Z.gtb_spec d 0) as [Hd|Hd].
  - destruct use_neg; rewrite <- ?app_assoc; reflexivity.
  - replace (Z.to_nat d) with O by lia. destruct use_neg; reflexivity.
Qed.

(* negative_wrapping: a negative value in range of a style that uses a negative sign is the representation of its
   absolute value (padded) between the two negative symbols *)
Theorem negative_wrapping c sys fx prev v t :
  check_ranges (ranges_of c sys) v = RgIn -> v < 0 -> uses_negative sys = true ->
  represent c sys fx (- v) = RpInitial t ->
  let '(np, ns) := neg_of c in
  let '(pn, ps) := pad_of c in
  render_resolved c sys fx prev v =
    Done (ROk (np ++ rep_text (Z.to_nat (pn - zlen t - (zlen np + zlen ns))) ps ++ t ++ ns)).
Proof.
  intros Hr Hv Hu Hrep. pose proof (finish_shape c true t) as Hf.
  destruct (neg_of c) as [np ns]. destruct (pad_of c) as [pn ps]. cbn zeta in Hf.
  unfold render_resolved. rewrite Hr, Hu. destruct (Z.ltb_spec v 0); [|lia]. cbn [andb].
  rewrite Z.abs_neq by lia. rewrite Hrep, Hf. reflexivity.
Qed.

(* styles that do not use a negative sign (cyclic, fixed) see the negative value itself and print no sign *)
Theorem no_negative_sign c sys fx prev v t :
  check_ranges (ranges_of c sys) v = RgIn -> uses_negative sys = false ->
  represent c sys fx v = RpInitial t ->
  render_resolved c sys fx prev v = Done (ROk (finish c false t)).
Proof.
  intros Hr Hu Hrep. unfold render_resolved. rewrite Hr, Hu, andb_false_r, Hrep. reflexivity.
Qed.

(* pad_length: with a one-character pad symbol the result (signs included) has at least `pad` characters, and
   exactly max(pad, natural length) *)
Theorem pad_length (c : cstyle) (use_neg : bool) (t : text) :
  let '(np, ns) := neg_of c in
  let '(pn, ps) := pad_of c in
  zlen ps = 1 ->
  zlen (finish c use_neg t) = Z.max pn (zlen t + (if use_neg then zlen np + zlen ns else 0)).
Proof.
  pose proof (finish_shape c use_neg t) as Hf.
  destruct (neg_of c) as [np ns]. destruct (pad_of c) as [pn ps]. cbn zeta in Hf. intros Hps. rewrite Hf.
  unfold zlen in *. destruct use_neg; rewrite !app_length, length_rep_text; lia.
Qed.

Example pad_length_ex :
  finish (mkStyle None None None None None (Some (3, SStr [48])) None None None) false [55] = [48; 48; 55].
Proof. reflexivity. Qed.

(* --------------------------------------------------------------------------- extends, as repaired *)
(* F62: a style extending an undefined style is the decimal style completed... i.e. its own descriptors, completed
   by those of decimal (CSS Counter Styles 3, 3.1.7: "treated as if it was extending the decimal counter style") *)
Theorem extends_unknown_is_extends_decimal S n c t fx d :
  lookup n S = Some c -> c_system c = Some (mkSys true t fx) -> lookup t S = None ->
  lookup "decimal" S = Some d -> fst (fst (sys_of d)) = false ->
  resolve S (CName n) None = (ResSome (merge (set_system c (c_system d)) d), None).
Proof.
  intros Hn Hsys Ht Hd Hplain. unfold resolve. rewrite Hn. cbn match.
  unfold sys_of at 1. rewrite Hsys. cbn [s_ext s_name s_fixed].
  unfold loop_fuel. cbn [resolve_loop negb]. unfold has. rewrite Ht, Hd. cbn match. rewrite Hd.
  assert (E : sys_of (set_system c (c_system d)) = sys_of d) by reflexivity. rewrite E.
  destruct (sys_of d) as [[ext1 sys1] fx1] eqn:Ed. cbn [fst] in Hplain. subst ext1. cbn [andb].
  cbn [negb]. reflexivity.
Qed.

(* F61: resolving a name adds this name, and nothing else, to the list of styles already tried as fallbacks
   (the styles met on the extends chain have their own list) *)
Theorem resolve_adds_only_the_name S cn l r p :
  resolve S cn (Some l) = (r, p) -> p = Some l \/ p = Some (l ++ [cn]).
Proof.
  unfold resolve. destruct cn as [n|system args|t]; try (intros [= <- <-]; left; reflexivity).
  destruct (lookup n S) as [c0|]; [|intros [= <- <-]; left; reflexivity].
  destruct (mem_cname (CName n) l); [intros [= <- <-]; left; reflexivity|].
  destruct (sys_of c0) as [[ext sys] fx].
  destruct (resolve_loop (loop_fuel S) S c0 ext sys [CName n]); intros [= <- <-]; [left|right]; reflexivity.
Qed.
