(* C06 - the font-size computer of weasyprint/css/computed_values.py as REGENERATED from the source on every run
   (gen/GenComputed.v: the table FONT_SIZE_KEYWORDS and INITIAL_VALUES['font_size'] are read from the source as they
   are today and inlined) computes exactly the hand model `font_size` of model/C06Values.v: the seven keywords,
   larger / smaller (the two for / else searches over the keyword sizes) for every parent size, percentages and
   every length unit against the PARENT's font size (the initial 16px on the root element), rem against the root
   element's font size.  Its call of length() runs the regenerated body of length (proofs/C06_gen_length.v). *)
From Coq Require Import QArith Lqa List String Bool Lia.
Require Import WV.base.Py WV.base.PyLink WV.proofs.PyNatural WV.proofs.PyTac WV.gen.GenComputed.
Require Import WV.model.C06Values WV.proofs.C06_values WV.proofs.C06_gen_length.
Import ListNotations.
Open Scope string_scope.
Open Scope list_scope.
Open Scope Q_scope.

Definition kw_names : list string := ["xx-small"; "x-small"; "small"; "medium"; "large"; "x-large"; "xx-large"].
Definition fs_val (v : fsval) : val :=
  match v with
  | FKeyword i => VStr (nth i kw_names "medium")
  | FLarger => VStr "larger" | FSmaller => VStr "smaller"
  | FDim q u => dim q (VStr (unit_str u))
  end.
Definition fs_wf (v : fsval) : Prop := match v with FKeyword i => (i < 7)%nat | _ => True end.
Definition parent_val (p : option Q) : val := match p with Some x => VObj [("font_size", VNum x)] | None => VNone end.
(* the style: as for length(), plus style.parent_style (None on the root element) *)
Definition fstyle (own rootfs : Q) (root : bool) (parent : option Q) more : val :=
  style_val own rootfs root (("parent_style", parent_val parent) :: more).
Definition fs_ok (r : option Q) (res : val) : Prop :=
  match r with Some q => exists q', q' == q /\ res = VNum q' | None => False end.

(* evaluation by cbv (lazy needs gigabytes on the enumerate / index primitives of the two searches); as_int stays
   folded so that the index -i - 1, whose subtraction is an opaque operation until unsealed, is computed afterwards *)
Ltac ev3 := cbv -[qadd qsub qmul qdiv qmax qmin qleb qeqb ocall Qplus Qminus Qmult Qdiv Qeq_bool Qle_bool Qeq
                  call_body lops length_fn C06Values.length env_of as_int].
Ltac ev3h H := cbv -[qadd qsub qmul qdiv qmax qmin qleb qeqb ocall Qplus Qminus Qmult Qdiv Qeq_bool Qle_bool Qeq
                     call_body lops length_fn C06Values.length env_of as_int] in H.
Ltac ev_idx := cbv -[Qmult Qdiv Qeq_bool Qle_bool Qeq].
Ltac use_tests :=
  repeat match goal with
         | H : Qle_bool ?a ?b = _ |- context [Qle_bool ?a ?b] => rewrite H
         | H : Qeq_bool ?a ?b = _ |- context [Qeq_bool ?a ?b] => rewrite H
         end.
Ltac model_paths :=
  repeat match goal with |- context [Qle_bool ?a ?b] => destruct (Qle_bool a b) eqn:? end.
Ltac fin_fs :=
  match goal with
  | |- exists q', q' == _ /\ _ => eexists; split; [|reflexivity]; first [reflexivity | lra]
  | H : Qeq_bool 100 0 = true |- _ => vm_compute in H; discriminate H
  end.

Lemma gen_font_size_run O (HO : ops_ok O) xr cr (HC : calls2_ok O xr cr) own rootfs (root : bool) parent more v :
  fs_wf v ->
  run O font_size_body
    [("style", fstyle own rootfs root parent more); ("name", VStr "font_size"); ("value", fs_val v)]
    (fun _ res => match res with
                  | Some x => fs_ok (font_size (env_of xr cr own rootfs root (("parent_style", parent_val parent) :: more))
                                       parent v) x
                  | None => False end)
    (fun _ => False).
Proof.
  intros Hwf. destruct v as [i| | |q u].
  - (* the seven keywords *)
    do 7 (destruct i as [|i]; [destruct parent; ev3; fin_fs|]).
    exfalso. simpl in Hwf. lia.
  - (* larger *)
    (destruct parent as [p|]; ev3; split_paths O; unseal HO; ev_idx; model_paths; to_props; cbv iota beta;
          first [exfalso; lra | fin_fs]).
  - (* smaller *)
    (destruct parent as [p|]; ev3; split_paths O; unseal HO; ev_idx; model_paths; to_props; cbv iota beta;
          first [exfalso; lra | fin_fs]).
  - destruct u.
    12: { (* percentage: against the parent's font size *)
      destruct parent as [p|]; ev3; split_paths O; unseal HO; fin_fs. }
    (* a length: length(style, name, value, pixels_only=True, font_size=parent_font_size), the regenerated body *)
    all: set (pf := match parent with Some p => p | None => 16 end);
      match goal with
      | |- context [FDim _ ?u] =>
          destruct (gen_length_call (lops xr cr) (lops_ok xr cr) xr cr (lops_calls xr cr) own rootfs root
                      (("parent_style", parent_val parent) :: more) "font_size" KAuto (LDim q u) (Some pf) true)
            as [res [Hres Hok]]
      end;
      match type of Hok with
      | res_ok _ _ (C06Values.length ?e _ _ (LDim _ ?u)) _ =>
          destruct (length_is_px e true (Some pf) q u ltac:(discriminate)) as [x Hx]
      end;
      subst pf; destruct parent as [p|]; ev3; rewrite HC; ev3; ev3h Hres; rewrite Hres; ev3h Hok; ev3h Hx;
      rewrite Hx in *; destruct Hok as [q' [Hq ->]]; exists q'; (split; [exact Hq|reflexivity]).
Qed.

Definition font_size_fn : fn := (font_size_args, font_size_body).

(* the value of the call font_size(style, 'font_size', value) of the regenerated computer, under the concrete
   operations (its call of length runs the regenerated length): the hand model's answer, never an exception *)
Theorem gen_font_size xr cr own rootfs (root : bool) parent more v :
  fs_wf v ->
  fs_ok (font_size (env_of xr cr own rootfs root (("parent_style", parent_val parent) :: more)) parent v)
    (call_body (lops2 xr cr) font_size_fn [fstyle own rootfs root parent more; VStr "font_size"; fs_val v]).
Proof.
  intros Hwf.
  pose proof (gen_font_size_run (lops2 xr cr) (lops2_ok xr cr) xr cr (lops2_calls xr cr) own rootfs root parent more v
                Hwf) as H.
  unfold call_body. cbn [fst snd PyLink.bind font_size_fn font_size_args].
  rewrite run_natural in H. rewrite run_natural.
  destruct (run_out _ _ _) as [rho' [x|]|m]; try contradiction. exact H.
Qed.

(* the clause about the source: in font-size, em and % refer to the PARENT's font size - the initial 16px on the root
   element -, rem to the root element's font size (root_style) *)
Theorem gen_font_size_relative xr cr own rootfs (root : bool) parent more q :
  let call v := call_body (lops2 xr cr) font_size_fn [fstyle own rootfs root parent more; VStr "font_size"; v] in
  (exists x, x == q * parent_or_initial parent /\ call (dim q (VStr "em")) = VNum x) /\
  (exists x, x == q * parent_or_initial parent / 100 /\ call (dim q (VStr "%")) = VNum x) /\
  (exists x, x == q * rootfs /\ call (dim q (VStr "rem")) = VNum x).
Proof.
  intros call. subst call.
  set (e := env_of xr cr own rootfs root (("parent_style", parent_val parent) :: more)).
  pose proof (gen_font_size xr cr own rootfs root parent more (FDim q Em) I) as Hem.
  pose proof (gen_font_size xr cr own rootfs root parent more (FDim q Pct) I) as Hpct.
  pose proof (gen_font_size xr cr own rootfs root parent more (FDim q Rem) I) as Hrem.
  pose proof (font_size_em_against_parent e parent q) as Pem.
  pose proof (font_size_percent_against_parent e parent q) as Ppct.
  assert (Prem : some_is (font_size e parent (FDim q Rem)) (q * rootfs)).
  { pose proof (rem_against_root e true (Some (parent_or_initial parent)) q) as R.
    unfold font_size. fold (parent_or_initial parent).
    destruct (length e true (Some (parent_or_initial parent)) (LDim q Rem)); simpl in *;
      [apply R; apply andb_false_r | apply R; apply andb_false_r]. }
  fold e in Hem, Hpct, Hrem. cbn [fs_val unit_str] in *.
  split; [|split].
  - destruct (font_size e parent (FDim q Em)); [|contradiction]. destruct Hem as [x [Hx ->]].
    exists x. split; [rewrite Hx; exact Pem|reflexivity].
  - destruct (font_size e parent (FDim q Pct)); [|contradiction]. destruct Hpct as [x [Hx ->]].
    exists x. split; [rewrite Hx; exact Ppct|reflexivity].
  - destruct (font_size e parent (FDim q Rem)); [|contradiction]. destruct Hrem as [x [Hx ->]].
    exists x. split; [rewrite Hx; exact Prem|reflexivity].
Qed.

Example gen_font_size_ex :
  call_body (lops2 (fun _ => 1 # 2) (fun _ => 1 # 2)) font_size_fn
    [fstyle 0 16 false (Some 20) []; VStr "font_size"; dim (3 # 2) (VStr "em")] = VNum ((3 # 2) * 20) /\
  call_body (lops2 (fun _ => 1 # 2) (fun _ => 1 # 2)) font_size_fn
    [fstyle 0 16 false (Some 20) []; VStr "font_size"; VStr "larger"] = VNum 24 /\
  call_body (lops2 (fun _ => 1 # 2) (fun _ => 1 # 2)) font_size_fn
    [fstyle 0 16 false (Some 20) []; VStr "font_size"; VStr "smaller"] = VNum (96 # 5).
Proof. repeat split. Qed.
