(* C20 - proofs about the model of urls.fetch and its consumers (model/C20Fetch.v). *)
From Coq Require Import List String Bool Arith Lia.
Require Import WV.model.C20Fetch.
Import ListNotations.
Open Scope string_scope.
Open Scope list_scope.

Section FetchProofs.
  Variable fetcher : string -> fret.

  (* every Exception of the fetcher becomes URLFetchingError("Name: message"); the body is not run *)
  Lemma fetch_wraps_exception (A : Type) url (body : fdict -> outcome A * list event) e :
    fetcher url = FRaise e -> e_is_exception e = true ->
    fetch fetcher url body = (Exc (URLFetchingError (e_name e ++ ": " ++ e_msg e)%string), [Called url]).
  Proof. intros Hf He. unfold fetch. rewrite Hf, He. reflexivity. Qed.

  (* what can come out of `with fetch(...)` as an exception: nothing but these *)
  Lemma fetch_exception_cases (A : Type) url (body : fdict -> outcome A * list event) x :
    fst (fetch fetcher url body) = Exc x ->
    (exists e, fetcher url = FRaise e /\ e_is_exception e = true /\
               x = URLFetchingError (e_name e ++ ": " ++ e_msg e)%string) \/
    (exists e, fetcher url = FRaise e /\ e_is_exception e = false /\ x = Raised e) \/
    (fetcher url = FNotDict /\ x = AttributeError "setdefault") \/
    (exists d, fetcher url = FDict d /\
       match d_file d with
       | Some _ => convert_stream_error (fst (body (setdefaults url d))) = Exc x
       | None => fst (body (setdefaults url d)) = Exc x
       end).
  Proof.
    unfold fetch. destruct (fetcher url) as [e| |d] eqn:Hf.
    - destruct (e_is_exception e) eqn:He; simpl; intros H; inversion H; subst.
      + left. exists e. auto.
      + right. left. exists e. auto.
    - simpl. intros H. inversion H. right. right. left. auto.
    - destruct (body (setdefaults url d)) as [r ev] eqn:Hb.
      change (d_file (setdefaults url d)) with (d_file d).
      destruct (d_file d) eqn:Hfile; simpl; intros H; right; right; right; exists d;
        rewrite Hfile, Hb; auto.
  Qed.

  (* file_obj is closed exactly once, after everything the body did, whatever the body's outcome *)
  Lemma fetch_closes_file_obj (A : Type) url (body : fdict -> outcome A * list event) d f :
    fetcher url = FDict d -> d_file d = Some f ->
    fetch fetcher url body =
      (convert_stream_error (fst (body (setdefaults url d))),
       Called url :: snd (body (setdefaults url d)) ++ Closed (fo_id f) ::
         (if fo_close_raises f then [CloseWarning url] else [])).
  Proof.
    intros Hf Hfile. unfold fetch. rewrite Hf.
    destruct (body (setdefaults url d)) as [r ev] eqn:Hb. simpl.
    rewrite Hfile. reflexivity.
  Qed.

  Lemma fetch_without_file_obj (A : Type) url (body : fdict -> outcome A * list event) d :
    fetcher url = FDict d -> d_file d = None ->
    fetch fetcher url body = (fst (body (setdefaults url d)), Called url :: snd (body (setdefaults url d))).
  Proof.
    intros Hf Hfile. unfold fetch. rewrite Hf.
    destruct (body (setdefaults url d)) as [r ev] eqn:Hb. simpl. rewrite Hfile. reflexivity.
  Qed.

  (* the defaults filled in: redirected_url = url and mime_type = None unless given *)
  Lemma setdefaults_spec url d :
    d_redirected (setdefaults url d) = Some (match d_redirected d with Some r => r | None => url end) /\
    mime_value (setdefaults url d) = mime_value d /\
    d_string (setdefaults url d) = d_string d /\ d_file (setdefaults url d) = d_file d.
  Proof.
    unfold setdefaults, mime_value; simpl. destruct (d_redirected d), (d_mime d); auto.
  Qed.

  Definition count_closed (id : nat) (l : list event) : nat :=
    List.length (filter (fun e => match e with Closed i => Nat.eqb i id | _ => false end) l).

  Lemma count_closed_app id l1 l2 : count_closed id (l1 ++ l2) = count_closed id l1 + count_closed id l2.
  Proof. unfold count_closed. rewrite filter_app, app_length. reflexivity. Qed.

  (* ---- the consumers *)
  Definition has_data (d : fdict) : bool :=
    match d_string d, d_file d with
    | Some _, _ => true
    | None, Some f => match fo_read f with ReadOk _ => true | ReadRaises _ => false end
    | None, None => false
    end.

  Lemma read_payload_data d : has_data d = true -> exists s, fst (read_payload d) = Val s.
  Proof.
    unfold has_data, read_payload.
    destruct (d_string d); destruct (d_file d) as [f|]; try destruct (fo_read f);
      simpl; intros H; try discriminate; eauto.
  Qed.

  (* a stream whose read() fails with one of the converted stream errors *)
  Definition dies_with_io (d : fdict) : bool :=
    match d_string d, d_file d with
    | None, Some f => match fo_read f with ReadRaises e => e_is_io e | ReadOk _ => false end
    | _, _ => false
    end.

  (* graceful: an Exception raised by the call, an answer carrying data, or a stream that dies with an I/O,
     HTTP or decompression error never escapes a consumer, and "treated as absent" always comes with a log *)
  Lemma consume_graceful c url :
    (exists e, fetcher url = FRaise e /\ e_is_exception e = true) \/
    (exists d, fetcher url = FDict d /\ (has_data d = true \/ dies_with_io d = true)) ->
    exists v ev logs, consume fetcher c url = (Val v, ev, logs) /\ (v = None -> logs <> []).
  Proof.
    intros [[e [Hf He]]|[d [Hf [Hd|Hd]]]]; unfold consume, fetch; rewrite Hf.
    - rewrite He. simpl.
      destruct c; simpl; eexists; eexists; eexists; split; try reflexivity; intros _; discriminate.
    - assert (Hd' : has_data (setdefaults url d) = true) by exact Hd.
      destruct (checks_css_mime c && negb (is_css (mime_value (setdefaults url d)))) eqn:Hc.
      + destruct (d_file (setdefaults url d)); simpl;
          eexists; eexists; eexists; split; try reflexivity; intros _; discriminate.
      + destruct (read_payload_data _ Hd') as [s Hs].
        destruct (read_payload (setdefaults url d)) as [r ev] eqn:Hr. simpl in Hs. subst r.
        destruct (d_file (setdefaults url d)); simpl;
          eexists; eexists; eexists; split; try reflexivity; intros H; discriminate.
    - unfold dies_with_io in Hd. unfold read_payload.
      change (d_string (setdefaults url d)) with (d_string d).
      change (d_file (setdefaults url d)) with (d_file d).
      destruct (d_string d); [discriminate|]. destruct (d_file d) as [f|]; [|discriminate].
      destruct (fo_read f) as [s|e]; [discriminate|].
      destruct (checks_css_mime c && negb (is_css (mime_value (setdefaults url d)))).
      + simpl. eexists; eexists; eexists; split; try reflexivity; intros _; discriminate.
      + destruct c; simpl; try (destruct (e_name e =? "StopIteration")); simpl; rewrite ?Hd; simpl;
          eexists; eexists; eexists; split; try reflexivity; intros H; discriminate.
  Qed.

  (* exactly what escapes: (1) a BaseException outside Exception, always; and for every consumer but the
     font one (2) the AttributeError of a non-dict answer, (3) the KeyError of an answer without data,
     (4) what file_obj.read() raises when it is not one of the converted stream errors.  Nothing else. *)
  Lemma consume_escape_cases c url x ev logs :
    consume fetcher c url = (Exc x, ev, logs) ->
    (exists e, fetcher url = FRaise e /\ e_is_exception e = false /\ x = Raised e) \/
    (catches c (AttributeError "setdefault") = false /\ fetcher url = FNotDict /\
       x = AttributeError "setdefault") \/
    (catches c (KeyError "file_obj") = false /\
       exists d, fetcher url = FDict d /\ d_string d = None /\ d_file d = None /\ x = KeyError "file_obj") \/
    (exists d f e, fetcher url = FDict d /\ d_string d = None /\ d_file d = Some f /\
                   fo_read f = ReadRaises e /\ x = Raised e /\ e_is_io e = false /\
                   catches c (Raised e) = false).
  Proof.
    unfold consume, fetch. destruct (fetcher url) as [e| |d] eqn:Hf.
    - destruct (e_is_exception e) eqn:He.
      + destruct c; simpl; intros H; inversion H.
      + destruct c; simpl; try rewrite He; intros H; inversion H; subst; left; exists e; auto.
    - destruct c; simpl; intros H; inversion H; subst; right; left; repeat split; auto.
    - assert (Hs : d_string (setdefaults url d) = d_string d) by reflexivity.
      assert (Hfl : d_file (setdefaults url d) = d_file d) by reflexivity.
      destruct (checks_css_mime c && negb (is_css (mime_value (setdefaults url d)))) eqn:Hc.
      + destruct (d_file (setdefaults url d)); simpl; intros H; inversion H.
      + unfold read_payload. rewrite Hs, Hfl.
        destruct (d_string d) as [s|] eqn:Hstr.
        * destruct (d_file d); simpl; intros H; inversion H.
        * destruct (d_file d) as [f|] eqn:Hfile.
          -- destruct (fo_read f) as [s|e] eqn:Hrd.
             ++ simpl. intros H; inversion H.
             ++ destruct (e_is_io e) eqn:Hio.
                ** destruct c; simpl; try (destruct (e_name e =? "StopIteration") eqn:Hn; simpl);
                     rewrite ?Hio; simpl; intros H; inversion H.
                ** destruct c; simpl; try (destruct (e_name e =? "StopIteration") eqn:Hn; simpl);
                     rewrite ?Hio; simpl; try (destruct (e_is_exception e) eqn:He; simpl);
                     intros H; inversion H; subst;
                     right; right; right; exists d, f, e; repeat split; auto.
          -- simpl. destruct c; simpl; intros H; inversion H; subst;
               right; right; left; (split; [reflexivity|]); exists d; auto.
  Qed.

  (* REPAIRED (was the refuted statement of finding fetch-body-read-error-escapes): a stream that dies with
     a time-out, a reset, a truncated gzip body... is a fetching error for every consumer: the resource is
     skipped, the failure logged, the stream closed *)
  Lemma read_io_error_is_fetching_error c url d f e :
    fetcher url = FDict d -> d_string d = None -> d_file d = Some f -> fo_read f = ReadRaises e ->
    e_is_io e = true -> e_name e <> "StopIteration" ->
    exists ev logs, consume fetcher c url = (Val None, ev, logs) /\ logs <> [] /\ In (Closed (fo_id f)) ev.
  Proof.
    intros Hf Hs Hfile Hr Hio Hname. apply String.eqb_neq in Hname. unfold consume, fetch, read_payload. rewrite Hf.
    change (d_string (setdefaults url d)) with (d_string d).
    change (d_file (setdefaults url d)) with (d_file d).
    rewrite Hs, Hfile, Hr.
    destruct (checks_css_mime c && negb (is_css (mime_value (setdefaults url d)))).
    - simpl. eexists; eexists; split; [reflexivity|]. split; [discriminate|]. simpl. auto.
    - destruct c; simpl; rewrite ?Hname; simpl; rewrite Hio; simpl;
        (eexists; eexists; split; [reflexivity|]; split; [discriminate|]; simpl; auto).
  Qed.

End FetchProofs.

(* STILL REFUTED after the repair (residual of fetch-body-read-error-escapes): the conversion covers EOFError,
   HTTPException, OSError and zlib.error only; any other Exception raised by file_obj.read() - a ValueError
   ("I/O operation on closed file"), the ProtocolError of a urllib3 stream - still escapes the image, sheet and
   attachment consumers and ends the render.  Witness replayed on the implementation by consume-direct. *)
Definition value_error : exn :=
  {| e_name := "ValueError"; e_msg := "I/O operation on closed file"; e_is_exception := true; e_is_io := false |}.
Definition odd_stream : fret :=
  FDict {| d_string := None;
           d_file := Some {| fo_id := 1; fo_read := ReadRaises value_error; fo_close_raises := false |};
           d_mime := Some (Some "image/png"); d_redirected := None |}.

Lemma read_other_error_escapes_refuted :
  exists (fetcher : string -> fret) (url : string) (e : exn),
    e_is_exception e = true /\
    (forall c, catches c (Raised e) = false -> c <> CLinkSheet ->
               exists ev, consume fetcher c url = (Exc (Raised e), ev, [])) /\
    (exists ev, consume fetcher CImage url = (Exc (Raised e), ev, []) /\ In (Closed 1) ev).
Proof.
  exists (fun _ => odd_stream), "http://x/a.png", value_error. split; [reflexivity|]. split.
  - intros c Hc Hl. destruct c; try contradiction; try discriminate; eexists; reflexivity.
  - eexists. split; [reflexivity|]. simpl. auto.
Qed.

(* satisfiability of the hypotheses above *)
Example fetch_example :
  let fetcher := fun u => if u =? "http://x/ok" then
                   FDict {| d_string := None;
                            d_file := Some {| fo_id := 7; fo_read := ReadOk "PNG"; fo_close_raises := true |};
                            d_mime := None; d_redirected := None |}
                 else FRaise {| e_name := "OSError"; e_msg := "no route"; e_is_exception := true;
                                e_is_io := true |} in
  consume fetcher CImage "http://x/ok" =
    (Val (Some ("PNG", None)), [Called "http://x/ok"; ReadEv 7; Closed 7; CloseWarning "http://x/ok"], []) /\
  consume fetcher CImage "http://x/ko" =
    (Val None, [Called "http://x/ko"], [LogError "Failed to load image" "http://x/ko"]).
Proof. split; reflexivity. Qed.
