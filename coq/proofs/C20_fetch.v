(* C20 - proofs about the model of urls.fetch and its consumers (model/C20Fetch.v). *)
From Coq Require Import List String Bool Arith Lia.
Require Import WV.model.C20Fetch.
Import ListNotations.
Open Scope string_scope.
Open Scope list_scope.

Section FetchProofs.
  Variable fetcher : string -> fret.

  (* every Exception of the fetcher becomes URLFetchingError("Name: message"); the body is not run *)
  Lemma fetch_wraps_exception (A : Type) url (body : fdict -> outcome A * list event) e :
    fetcher url = FRaise e -> e_is_exception e = true ->
    fetch fetcher url body = (Exc (URLFetchingError (e_name e ++ ": " ++ e_msg e)%string), [Called url]).
  Proof. intros Hf He. unfold fetch. rewrite Hf, He. reflexivity. Qed.

  (* what can come out of `with fetch(...)` as an exception: nothing but these *)
  Lemma fetch_exception_cases (A : Type) url (body : fdict -> outcome A * list event) x :
    fst (fetch fetcher url body) = Exc x ->
    (exists e, fetcher url = FRaise e /\ e_is_exception e = true /\
               x = URLFetchingError (e_name e ++ ": " ++ e_msg e)%string) \/
    (exists e, fetcher url = FRaise e /\ e_is_exception e = false /\ x = Raised e) \/
    (fetcher url = FNotDict /\ x = AttributeError "setdefault") \/
    (exists d, fetcher url = FDict d /\
       match d_file d with
       | Some _ => convert_stream_error (fst (body (setdefaults url d))) = Exc x
       | None => fst (body (setdefaults url d)) = Exc x
       end).
  Proof.
    unfold fetch. destruct (fetcher url) as [e| |d] eqn:Hf.
    - destruct (e_is_exception e) eqn:He; simpl; intros H; inversion H; subst.
      + left. exists e. auto.
      + right. left. exists e. auto.
    - simpl. intros H. inversion H. right. right. left. auto.
    - destruct (body (setdefaults url d)) as [r ev] eqn:Hb.
      change (d_file (setdefaults url d)) with (d_file d).
      destruct (d_file d) eqn:Hfile; simpl; intros H; right; right; right; exists d;
        rewrite Hfile, Hb; auto.
  Qed.

  (* file_obj is closed exactly once, after everything the body did, whatever the body's outcome *)
  Lemma fetch_closes_file_obj (A : Type) url (body : fdict -> outcome A * list event) d f :
    fetcher url = FDict d -> d_file d = Some f ->
    fetch fetcher url body =
      (convert_stream_error (fst (body (setdefaults url d))),
       Called url :: snd (body (setdefaults url d)) ++ Closed (fo_id f) ::
         (if fo_close_raises f then [CloseWarning url] else [])).
  Proof.
    intros Hf Hfile. unfold fetch. rewrite Hf.
    destruct (body (setdefaults url d)) as [r ev] eqn:Hb. simpl.
    rewrite Hfile. reflexivity.
  Qed.

  Lemma fetch_without_file_obj (A : Type) url (body : fdict -> outcome A * list event) d :
    fetcher url = FDict d -> d_file d = None ->
    fetch fetcher url body = (fst (body (setdefaults url d)), Called url :: snd (body (setdefaults url d))).
  Proof.
    intros Hf Hfile. unfold fetch. rewrite Hf.
    destruct (body (setdefaults url d)) as [r ev] eqn:Hb. simpl. rewrite Hfile. reflexivity.
  Qed.

  (* the defaults filled in: redirected_url = url and mime_type = None unless given *)
  Lemma setdefaults_spec url d :
    d_redirected (setdefaults url d) = Some (match d_redirected d with Some r => r | None => url end) /\
    mime_value (setdefaults url d) = mime_value d /\
    d_string (setdefaults url d) = d_string d /\ d_file (setdefaults url d) = d_file d.
  Proof.
    unfold setdefaults, mime_value; simpl. destruct (d_redirected d), (d_mime d); auto.
  Qed.

  Definition count_closed (id : nat) (l : list event) : nat :=
    List.length (filter (fun e => match e with Closed i => Nat.eqb i id | _ => false end) l).

  Lemma count_closed_app id l1 l2 : count_closed id (l1 ++ l2) = count_closed id l1 + count_closed id l2.
  Proof. unfold count_closed. rewrite filter_app, app_length. reflexivity. Qed.

  (* ---- the consumers *)
  Definition has_data (d : fdict) : bool :=
    match d_string d, d_file d with
    | Some _, _ => true
    | None, Some f => match fo_read f with ReadOk _ => true | ReadRaises _ => false end
    | None, None => false
    end.

  Lemma read_payload_data d : has_data d = true -> exists s, fst (read_payload d) = Val s.
  Proof.
    unfold has_data, read_payload, stream_read.
    destruct (d_string d); destruct (d_file d) as [f|]; try destruct (fo_read f);
      simpl; intros H; try discriminate; eauto.
  Qed.

  (* a stream whose read() fails with an Exception, of any class *)
  Definition dies_with_exception (d : fdict) : bool :=
    match d_string d, d_file d with
    | None, Some f => match fo_read f with ReadRaises e => e_is_exception e | ReadOk _ => false end
    | _, _ => false
    end.

  (* graceful: an Exception raised by the call, an answer carrying data, or a stream whose read() raises an
     Exception of any class never escapes a consumer, and "treated as absent" always comes with a log *)
  Lemma consume_graceful c url :
    (exists e, fetcher url = FRaise e /\ e_is_exception e = true) \/
    (exists d, fetcher url = FDict d /\ (has_data d = true \/ dies_with_exception d = true)) ->
    exists v ev logs, consume fetcher c url = (Val v, ev, logs) /\ (v = None -> logs <> []).
  Proof.
    intros [[e [Hf He]]|[d [Hf [Hd|Hd]]]]; unfold consume, fetch; rewrite Hf.
    - rewrite He. simpl.
      destruct c; simpl; eexists; eexists; eexists; split; try reflexivity; intros _; discriminate.
    - assert (Hd' : has_data (setdefaults url d) = true) by exact Hd.
      destruct (checks_css_mime c && negb (is_css (mime_value (setdefaults url d)))) eqn:Hc.
      + destruct (d_file (setdefaults url d)); simpl;
          eexists; eexists; eexists; split; try reflexivity; intros _; discriminate.
      + destruct (read_payload_data _ Hd') as [s Hs].
        destruct (read_payload (setdefaults url d)) as [r ev] eqn:Hr. simpl in Hs. subst r.
        destruct (d_file (setdefaults url d)); simpl;
          eexists; eexists; eexists; split; try reflexivity; intros H; discriminate.
    - unfold dies_with_exception in Hd. unfold read_payload, stream_read.
      change (d_string (setdefaults url d)) with (d_string d).
      change (d_file (setdefaults url d)) with (d_file d).
      destruct (d_string d); [discriminate|]. destruct (d_file d) as [f|]; [|discriminate].
      destruct (fo_read f) as [s|e]; [discriminate|]. rewrite Hd.
      destruct (checks_css_mime c && negb (is_css (mime_value (setdefaults url d)))).
      + simpl. eexists; eexists; eexists; split; try reflexivity; intros _; discriminate.
      + destruct c; simpl;
          eexists; eexists; eexists; split; try reflexivity; intros H; discriminate.
  Qed.

  (* exactly what escapes: (1) a BaseException outside Exception, always; and for every consumer but the
     font one (2) the AttributeError of a non-dict answer, (3) the KeyError of an answer without data,
     (4) a BaseException outside Exception raised by file_obj.read().  Nothing else: no Exception raised by
     the fetcher or by the stream it returned. *)
  Lemma consume_escape_cases c url x ev logs :
    consume fetcher c url = (Exc x, ev, logs) ->
    (exists e, fetcher url = FRaise e /\ e_is_exception e = false /\ x = Raised e) \/
    (catches c (AttributeError "setdefault") = false /\ fetcher url = FNotDict /\
       x = AttributeError "setdefault") \/
    (catches c (KeyError "file_obj") = false /\
       exists d, fetcher url = FDict d /\ d_string d = None /\ d_file d = None /\ x = KeyError "file_obj") \/
    (exists d f e, fetcher url = FDict d /\ d_string d = None /\ d_file d = Some f /\
                   fo_read f = ReadRaises e /\ x = Raised e /\ e_is_exception e = false).
  Proof.
    unfold consume, fetch. destruct (fetcher url) as [e| |d] eqn:Hf.
    - destruct (e_is_exception e) eqn:He.
      + destruct c; simpl; intros H; inversion H.
      + destruct c; simpl; try rewrite He; intros H; inversion H; subst; left; exists e; auto.
    - destruct c; simpl; intros H; inversion H; subst; right; left; repeat split; auto.
    - assert (Hs : d_string (setdefaults url d) = d_string d) by reflexivity.
      assert (Hfl : d_file (setdefaults url d) = d_file d) by reflexivity.
      destruct (checks_css_mime c && negb (is_css (mime_value (setdefaults url d)))) eqn:Hc.
      + destruct (d_file (setdefaults url d)); simpl; intros H; inversion H.
      + unfold read_payload, stream_read. rewrite Hs, Hfl.
        destruct (d_string d) as [s|] eqn:Hstr.
        * destruct (d_file d); simpl; intros H; inversion H.
        * destruct (d_file d) as [f|] eqn:Hfile.
          -- destruct (fo_read f) as [s|e] eqn:Hrd.
             ++ simpl. intros H; inversion H.
             ++ destruct (e_is_exception e) eqn:He.
                ** destruct c; simpl; intros H; inversion H.
                ** destruct (e_is_io e) eqn:Hio.
                   --- destruct c; simpl; rewrite ?Hio; simpl; intros H; inversion H.
                   --- destruct c; simpl; rewrite ?Hio; simpl; rewrite ?He; simpl;
                         intros H; inversion H; subst;
                         right; right; right; exists d, f, e; repeat split; auto.
          -- simpl. destruct c; simpl; intros H; inversion H; subst;
               right; right; left; (split; [reflexivity|]); exists d; auto.
  Qed.

  (* REPAIRED (were the refuted statements of the findings fetch-body-read-error-escapes and
     fetch-body-read-other-error-escapes): a stream whose read() raises an Exception of any class - a time-out,
     a reset, a truncated gzip body, the ValueError of a closed file, the ProtocolError of a urllib3 stream -
     is a fetching error for every consumer: the resource is skipped, the failure logged, the stream closed *)
  Lemma read_error_is_fetching_error c url d f e :
    fetcher url = FDict d -> d_string d = None -> d_file d = Some f -> fo_read f = ReadRaises e ->
    e_is_exception e = true ->
    exists ev logs, consume fetcher c url = (Val None, ev, logs) /\ logs <> [] /\ In (Closed (fo_id f)) ev.
  Proof.
    intros Hf Hs Hfile Hr He. unfold consume, fetch, read_payload, stream_read. rewrite Hf.
    change (d_string (setdefaults url d)) with (d_string d).
    change (d_file (setdefaults url d)) with (d_file d).
    rewrite Hs, Hfile, Hr, He.
    destruct (checks_css_mime c && negb (is_css (mime_value (setdefaults url d)))).
    - simpl. eexists; eexists; split; [reflexivity|]. split; [discriminate|]. simpl. auto.
    - destruct c; simpl;
        (eexists; eexists; split; [reflexivity|]; split; [discriminate|]; simpl; auto).
  Qed.

End FetchProofs.

(* the witness of the former refuted statement: read() raising ValueError("I/O operation on closed file") -
   not one of the classes of the except clause of fetch() - is now logged and skipped by every consumer *)
Definition value_error : exn :=
  {| e_name := "ValueError"; e_msg := "I/O operation on closed file"; e_is_exception := true; e_is_io := false |}.
Definition odd_stream : fret :=
  FDict {| d_string := None;
           d_file := Some {| fo_id := 1; fo_read := ReadRaises value_error; fo_close_raises := false |};
           d_mime := Some (Some "image/png"); d_redirected := None |}.

Example read_other_error_example :
  consume (fun _ => odd_stream) CImage "http://x/a.png" =
    (Val None, [Called "http://x/a.png"; ReadEv 1; Closed 1], [LogError "Failed to load image" "http://x/a.png"]) /\
  consume (fun _ => odd_stream) CAttachment "http://x/a.png" =
    (Val None, [Called "http://x/a.png"; ReadEv 1; Closed 1], [LogError "Failed to load attachment" "http://x/a.png"]).
Proof. split; reflexivity. Qed.

(* what still travels: a BaseException outside Exception raised by read() (the stream is closed all the same) *)
Example read_keyboard_interrupt_example :
  let ki := {| e_name := "KeyboardInterrupt"; e_msg := ""; e_is_exception := false; e_is_io := false |} in
  consume (fun _ => FDict {| d_string := None;
                             d_file := Some {| fo_id := 1; fo_read := ReadRaises ki; fo_close_raises := false |};
                             d_mime := None; d_redirected := None |}) CFontSrc "u" =
    (Exc (Raised ki), [Called "u"; ReadEv 1; Closed 1], []).
Proof. reflexivity. Qed.

(* satisfiability of the hypotheses above *)
Example fetch_example :
  let fetcher := fun u => if u =? "http://x/ok" then
                   FDict {| d_string := None;
                            d_file := Some {| fo_id := 7; fo_read := ReadOk "PNG"; fo_close_raises := true |};
                            d_mime := None; d_redirected := None |}
                 else FRaise {| e_name := "OSError"; e_msg := "no route"; e_is_exception := true;
                                e_is_io := true |} in
  consume fetcher CImage "http://x/ok" =
    (Val (Some ("PNG", None)), [Called "http://x/ok"; ReadEv 7; Closed 7; CloseWarning "http://x/ok"], []) /\
  consume fetcher CImage "http://x/ko" =
    (Val None, [Called "http://x/ko"], [LogError "Failed to load image" "http://x/ko"]).
Proof. split; reflexivity. Qed.
