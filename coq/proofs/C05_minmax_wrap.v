(* C05 - what the model of the min/max wrappers (model/C05MinMaxWrap.v) guarantees for EVERY decorated function that
   keeps a numeric size it is given and does not touch the bounds: after the wrapper min <= size, size <= max when
   min <= max, and size == min otherwise (min wins); an error can only be one raised by the decorated function. *)
From Coq Require Import QArith Qminmax Lqa List String Bool.
Require Import WV.base.Py WV.model.C05MinMaxWrap.
Import ListNotations.
Open Scope string_scope.
Open Scope list_scope.
Open Scope Q_scope.

Lemma lookup_update_eq k v (f : fields) : lookup k (update k v f) = v.
Proof.
  induction f as [|[k' v'] f IH]; simpl.
  - now rewrite String.eqb_refl.
  - destruct (String.eqb k k') eqn:E; simpl; [now rewrite String.eqb_refl|now rewrite E].
Qed.
Lemma lookup_update_neq k k' v (f : fields) : k <> k' -> lookup k (update k' v f) = lookup k f.
Proof.
  intros Hne. apply String.eqb_neq in Hne.
  induction f as [|[k2 v2] f IH]; simpl.
  - now rewrite Hne.
  - destruct (String.eqb k' k2) eqn:E; simpl.
    + apply String.eqb_eq in E. subst k2. now rewrite Hne.
    + destruct (String.eqb k k2); auto.
Qed.

(* the decorated function leaves the bounds alone and keeps a size that is a number *)
Definition keeps (F : oracle) (size mxn mnn : string) : Prop :=
  forall f a r f' a', F f a = inr (r, f', a') ->
    lookup mnn f' = lookup mnn f /\ lookup mxn f' = lookup mxn f /\
    (forall w, lookup size f = VNum w -> exists d, lookup size f' = VNum d /\ d == w).
Definition prep_ok (prep : fields -> fields) (size mxn mnn : string) : Prop :=
  forall f, lookup size (prep f) = lookup size f /\ lookup mxn (prep f) = lookup mxn f /\ lookup mnn (prep f) = lookup mnn f.
Definition clamped (size : string) (mn mx : Q) (f : fields) : Prop :=
  exists d, lookup size f = VNum d /\ mn <= d /\ (mn <= mx -> d <= mx) /\ (~ mn <= mx -> d == mn).
Definition raised_by (F : oracle) (m : string) : Prop := exists f a, F f a = inl m.

Lemma clamp_clamped F prep size mxn mnn r1 f1 a1 tr mn mx d1 :
  size <> mxn -> size <> mnn -> prep_ok prep size mxn mnn -> keeps F size mxn mnn ->
  lookup mnn f1 = VNum mn -> lookup mxn f1 = VNum mx -> lookup size f1 = VNum d1 ->
  match snd (clamp F prep size mxn mnn (r1, f1, a1) tr) with
  | inr (r, f, a) => clamped size mn mx f
  | inl m => raised_by F m
  end.
Proof.
  intros Hn1 Hn2 Hprep HK Hmn Hmx Hsz.
  assert (Hre : forall (f : fields) (a : list val) b r' f' a', lookup mnn f = VNum mn -> lookup mxn f = VNum mx ->
            F (prep (update size (VNum b) f)) a = inr (r', f', a') ->
            lookup mnn f' = VNum mn /\ lookup mxn f' = VNum mx /\ exists d, lookup size f' = VNum d /\ d == b).
  { intros f a b r' f' a' Hmn' Hmx' E. destruct (HK _ _ _ _ _ E) as (K1 & K2 & K3).
    destruct (Hprep (update size (VNum b) f)) as (P1 & P2 & P3).
    rewrite K1, K2, P2, P3, !lookup_update_neq, Hmn', Hmx' by (intro X; symmetry in X; contradiction).
    split; [reflexivity|]. split; [reflexivity|]. apply K3. rewrite P1. apply lookup_update_eq. }
  assert (Hmin : forall r2 f2 a2 tr2 d2, lookup mnn f2 = VNum mn -> lookup mxn f2 = VNum mx -> lookup size f2 = VNum d2 ->
            d2 <= mx \/ (~ mn <= mx /\ False) \/ d2 <= mx ->
            match snd (reenter F prep size mnn false (r2, f2, a2) tr2) with
            | inr (r, f, a) => clamped size mn mx f | inl m => raised_by F m end).
  { intros r2 f2 a2 tr2 d2 Hmn2 Hmx2 Hsz2 Hle. assert (Hd : d2 <= mx) by tauto. clear Hle.
    unfold reenter. rewrite Hsz2, Hmn2. cbn [vlt]. destruct (Qle_bool mn d2) eqn:E2; cbn.
    - apply Qle_bool_iff in E2. exists d2. repeat split; auto. intros Hno. exfalso. apply Hno. lra.
    - destruct (F (prep (update size (VNum mn) f2)) a2) as [m|[[r3 f3] a3]] eqn:E3; cbn.
      + now exists (prep (update size (VNum mn) f2)), a2.
      + destruct (Hre _ _ _ _ _ _ Hmn2 Hmx2 E3) as (_ & _ & d3 & Hs3 & Hd3).
        exists d3. split; [exact Hs3|]. repeat split; intros; lra. }
  unfold clamp, reenter at 1. rewrite Hsz, Hmx. cbn [vgt]. destruct (Qle_bool d1 mx) eqn:E1; cbn [negb].
  - apply Qle_bool_iff in E1. apply (Hmin r1 f1 a1 tr d1 Hmn Hmx Hsz). now left.
  - destruct (F (prep (update size (VNum mx) f1)) a1) as [m|[[r2 f2] a2]] eqn:E2; cbn [snd].
    + now exists (prep (update size (VNum mx) f1)), a1.
    + destruct (Hre _ _ _ _ _ _ Hmn Hmx E2) as (Hmn2 & Hmx2 & d2 & Hs2 & Hd2).
      apply (Hmin r2 f2 a2 _ d2 Hmn2 Hmx2 Hs2). left. lra.
Qed.

Lemma restore_prep_ok ma mb pos f0 size mxn mnn :
  (forall k, In k [size; mxn; mnn] -> k <> ma /\ k <> mb /\ pos <> Some k) ->
  prep_ok (restore ma mb pos f0) size mxn mnn.
Proof.
  intros H f. unfold restore.
  assert (G : forall k, In k [size; mxn; mnn] ->
            lookup k match pos with
                     | None => update mb (lookup mb f0) (update ma (lookup ma f0) f)
                     | Some p => match getattr_sem f0 p VNone with
                                 | VNone => update mb (lookup mb f0) (update ma (lookup ma f0) f)
                                 | px => update p px (update mb (lookup mb f0) (update ma (lookup ma f0) f)) end
                     end = lookup k f).
  { intros k Hk. destruct (H k Hk) as (H1 & H2 & H3).
    destruct pos as [p|]; [|now rewrite !lookup_update_neq].
    assert (k <> p) by (intro; subst; now apply H3).
    destruct (getattr_sem f0 p VNone); now rewrite !lookup_update_neq. }
  repeat split; apply G; simpl; auto.
Qed.

Theorem wrap_width_clamped (F : oracle) f0 a0 mn mx :
  keeps F "width" "max_width" "min_width" ->
  (forall f a r f' a', F f a = inr (r, f', a') -> exists d, lookup "width" f' = VNum d) ->
  lookup "min_width" f0 = VNum mn -> lookup "max_width" f0 = VNum mx ->
  match wrap_width F f0 a0 with
  | inr (r, f, a) => clamped "width" mn mx f
  | inl m => raised_by F m
  end.
Proof.
  intros HK Hnum Hmn Hmx. unfold wrap_width, wrap_width_full.
  destruct (F f0 a0) as [m|[[r1 f1] a1]] eqn:E1; [now exists f0, a0|].
  destruct (HK _ _ _ _ _ E1) as (K1 & K2 & _). destruct (Hnum _ _ _ _ _ E1) as (d1 & Hd1).
  apply clamp_clamped with (d1 := d1); try discriminate; auto; try congruence.
  apply restore_prep_ok. simpl. intros k [<-|[<-|[<-|[]]]]; repeat split; discriminate.
Qed.
Print Assumptions wrap_width_clamped.

Lemma or_lift (x : string + answer) (L P : fields -> Prop) (Q : string -> Prop) :
  match x with inr (r, f, a) => P f | inl m => Q m end ->
  match x with inr (r, f, a) => L f \/ P f | inl m => Q m end.
Proof. destruct x as [m|[[r f] a]]; auto. Qed.

Theorem wrap_height_clamped (F : oracle) f0 a0 mn mx :
  keeps F "height" "max_height" "min_height" ->
  (forall f a r f' a', F f a = inr (r, f', a') -> lookup "height" f' = VStr "auto" \/ exists d, lookup "height" f' = VNum d) ->
  lookup "min_height" f0 = VNum mn -> lookup "max_height" f0 = VNum mx ->
  match wrap_height F f0 a0 with
  | inr (r, f, a) => lookup "height" f = VStr "auto" \/ clamped "height" mn mx f
  | inl m => raised_by F m
  end.
Proof.
  intros HK Hnum Hmn Hmx. unfold wrap_height, wrap_height_full.
  destruct (F f0 a0) as [m|[[r1 f1] a1]] eqn:E1; [now exists f0, a0|].
  destruct (HK _ _ _ _ _ E1) as (K1 & K2 & _). destruct (Hnum _ _ _ _ _ E1) as [Ha|(d1 & Hd1)].
  - rewrite Ha. cbn. now left.
  - rewrite Hd1. cbn [is_auto_kw].
    apply (or_lift _ (fun f => lookup "height" f = VStr "auto") (clamped "height" mn mx) (raised_by F)).
    apply clamp_clamped with (d1 := d1); try discriminate; auto; try congruence.
    apply restore_prep_ok. simpl. intros k [<-|[<-|[<-|[]]]]; repeat split; discriminate.
Qed.
Print Assumptions wrap_height_clamped.

(* ---- the calls made by the wrappers: every re-entry starts from the margins (and the position) of the first
   entry, and what the wrapper answers is what one of these calls answered *)
Definition restored (ma mb : string) (pos : option string) (f0 fin : fields) : Prop :=
  lookup ma fin = lookup ma f0 /\ lookup mb fin = lookup mb f0 /\
  match pos with
  | Some p => getattr_sem f0 p VNone <> VNone -> lookup p fin = getattr_sem f0 p VNone
  | None => True
  end.
Lemma restore_restored ma mb pos f0 f :
  ma <> mb -> pos <> Some ma -> pos <> Some mb -> restored ma mb pos f0 (restore ma mb pos f0 f).
Proof.
  intros H1 H2 H3. unfold restored, restore. destruct pos as [p|].
  - assert (ma <> p) by congruence. assert (mb <> p) by congruence.
    destruct (getattr_sem f0 p VNone) eqn:E; repeat split; try (intros X; now contradiction X);
      repeat first [rewrite lookup_update_eq | rewrite lookup_update_neq by congruence]; auto.
  - repeat split; repeat first [rewrite lookup_update_eq | rewrite lookup_update_neq by congruence]; auto.
Qed.

Lemma reenter_inv F prep size bound above c tr :
  let res := reenter F prep size bound above c tr in
  (forall x, In x tr -> In x (fst res)) /\
  (forall fin ain, In (fin, ain) (fst res) -> In (fin, ain) tr \/ exists f, fin = prep f) /\
  (forall c', snd res = inr c' -> c' = c \/ exists fin ain, In (fin, ain) (fst res) /\ F fin ain = inr c').
Proof.
  destruct c as [[r f] a]. unfold reenter.
  destruct (if above then vgt (lookup size f) (lookup bound f) else vlt (lookup size f) (lookup bound f)) as [m|[|]];
    cbn [fst snd].
  - repeat split; auto; try (intros; discriminate).
  - repeat split.
    + intros x Hx. apply in_or_app. now left.
    + intros fin ain Hin. apply in_app_or in Hin. destruct Hin as [Hin|[E|[]]]; [now left|]. inversion E. right. eauto.
    + intros c' E. right. eexists _, _. split; [apply in_or_app; right; left; reflexivity|exact E].
  - repeat split; auto. intros c' E. inversion E. now left.
Qed.
Lemma clamp_inv F prep size mxn mnn c1 tr :
  let res := clamp F prep size mxn mnn c1 tr in
  (forall x, In x tr -> In x (fst res)) /\
  (forall fin ain, In (fin, ain) (fst res) -> In (fin, ain) tr \/ exists f, fin = prep f) /\
  (forall c', snd res = inr c' -> c' = c1 \/ exists fin ain, In (fin, ain) (fst res) /\ F fin ain = inr c').
Proof.
  unfold clamp. pose proof (reenter_inv F prep size mxn true c1 tr) as (A0 & A1 & A2).
  destruct (reenter F prep size mxn true c1 tr) as [tr1 [m|c2]]; cbn [fst snd] in *.
  - repeat split; auto; try (intros; discriminate).
  - pose proof (reenter_inv F prep size mnn false c2 tr1) as (B0 & B1 & B2). cbv zeta in *. repeat split.
    + auto.
    + intros fin ain Hin. destruct (B1 _ _ Hin) as [H|H]; auto.
    + intros c' E. destruct (B2 _ E) as [->|H]; auto.
      destruct (A2 c2 eq_refl) as [->|(fin & ain & Hin & EF)]; auto. right. exists fin, ain. split; auto.
Qed.

Theorem wrap_width_calls (F : oracle) f0 a0 :
  (forall fin ain, In (fin, ain) (fst (wrap_width_full F f0 a0)) ->
     (fin, ain) = (f0, a0) \/ restored "margin_left" "margin_right" (Some "position_x") f0 fin) /\
  (forall c, wrap_width F f0 a0 = inr c ->
     exists fin ain, In (fin, ain) (fst (wrap_width_full F f0 a0)) /\ F fin ain = inr c).
Proof.
  unfold wrap_width, wrap_width_full. destruct (F f0 a0) as [m|c1] eqn:E1; cbn [fst snd].
  - split; [intros fin ain [E|[]]; now left|intros; discriminate].
  - pose proof (clamp_inv F (restore "margin_left" "margin_right" (Some "position_x") f0) "width" "max_width" "min_width"
                  c1 [(f0, a0)]) as (C0 & C1 & C2). cbv zeta in *. split.
    + intros fin ain Hin. destruct (C1 _ _ Hin) as [[E|[]]|(f & ->)]; [now left|right].
      apply restore_restored; discriminate.
    + intros c E. destruct (C2 _ E) as [->|H]; auto. exists f0, a0. split; [apply C0; now left|exact E1].
Qed.
Print Assumptions wrap_width_calls.

Theorem wrap_height_calls (F : oracle) f0 a0 :
  (forall fin ain, In (fin, ain) (fst (wrap_height_full F f0 a0)) ->
     (fin, ain) = (f0, a0) \/ restored "margin_top" "margin_bottom" None f0 fin) /\
  (forall c, wrap_height F f0 a0 = inr c ->
     exists fin ain, In (fin, ain) (fst (wrap_height_full F f0 a0)) /\ F fin ain = inr c).
Proof.
  unfold wrap_height, wrap_height_full. destruct (F f0 a0) as [m|[[r1 f1] a1]] eqn:E1; cbn [fst snd].
  - split; [intros fin ain [E|[]]; now left|intros; discriminate].
  - destruct (is_auto_kw (lookup "height" f1)) as [m|[|]]; cbn [fst snd].
    + split; [intros fin ain [E|[]]; now left|intros; discriminate].
    + split; [intros fin ain [E|[]]; now left|]. intros c E. inversion E. subst c. exists f0, a0. split; [now left|exact E1].
    + pose proof (clamp_inv F (restore "margin_top" "margin_bottom" None f0) "height" "max_height" "min_height"
                  (r1, f1, a1) [(f0, a0)]) as (C0 & C1 & C2). cbv zeta in *. split.
      * intros fin ain Hin. destruct (C1 _ _ Hin) as [[E|[]]|(f & ->)]; [now left|right].
        apply restore_restored; discriminate.
      * intros c E. destruct (C2 _ E) as [->|H]; auto. exists f0, a0. split; [apply C0; now left|exact E1].
Qed.
Print Assumptions wrap_height_calls.

(* whatever every answer of the decorated function satisfies, the answer of the wrapper satisfies *)
Corollary wrap_width_preserves (F : oracle) (Q : answer -> Prop) f0 a0 c :
  (forall f a c, F f a = inr c -> Q c) -> wrap_width F f0 a0 = inr c -> Q c.
Proof. intros HQ E. destruct (proj2 (wrap_width_calls F f0 a0) c E) as (fin & ain & _ & EF). eauto. Qed.
Corollary wrap_height_preserves (F : oracle) (Q : answer -> Prop) f0 a0 c :
  (forall f a c, F f a = inr c -> Q c) -> wrap_height F f0 a0 = inr c -> Q c.
Proof. intros HQ E. destruct (proj2 (wrap_height_calls F f0 a0) c E) as (fin & ain & _ & EF). eauto. Qed.

Example clamped_example :
  let F : oracle := fun f a => inr (VNone, match lookup "width" f with VStr _ => update "width" (VNum 100) f | _ => f end, a) in
  wrap_width F [("margin_left", VNum 1); ("margin_right", VNum 2); ("width", VStr "auto"); ("min_width", VNum 10); ("max_width", VNum 40)] []
  = inr (VNone, [("margin_left", VNum 1); ("margin_right", VNum 2); ("width", VNum 40); ("min_width", VNum 10); ("max_width", VNum 40)], []).
Proof. reflexivity. Qed.
