(* C10 - fixed_table_layout of weasyprint/layout/table.py as REGENERATED from the source on every run
   (gen/GenTable.v, the slice from the choice of border_spacing_x to the end): for every table width, border
   spacing, list of first-row cells and list of column widths known so far, the regenerated statements leave in
   table.width / table.column_widths the values of the hand model (cells_loop then fixed_finish of
   model/C10Layout.v), up to == on the rationals (the source subtracts the known widths one by one where the model
   subtracts their sum).  Part A: the computation as the interpreter performs it (same structure as the model, the
   source's order of the arithmetic) and its equivalence with the hand model; pure list facts about indexes. *)
From Coq Require Import QArith Qreduction Qminmax Lqa Lia List String Bool ZArith Arith.
Require Import WV.base.Py WV.model.C10Distribute WV.model.C10Layout WV.proofs.C10_distribute WV.proofs.C10_fixed.
Require Import WV.proofs.C11_gen_avoid_base.
Import ListNotations.
Open Scope string_scope.
Open Scope list_scope.
Open Scope Q_scope.

(* ------------------------------------------------------------------ integers among the rationals *)
Lemma Qred_inject z : Qred (inject_Z z) = inject_Z z.
Proof.
  unfold Qred, inject_Z.
  pose proof (Z.ggcd_gcd z 1) as Hg. pose proof (Z.ggcd_correct_divisors z 1) as Hd.
  destruct (Z.ggcd z 1) as [g [aa bb]]. cbn [fst snd] in *. rewrite Z.gcd_1_r in Hg. subst g.
  destruct Hd as [Ha Hb]. rewrite Z.mul_1_l in Ha, Hb. subst. reflexivity.
Qed.
Lemma as_int_inject z : as_int (inject_Z z) = Some z.
Proof. unfold as_int. rewrite Qred_inject. reflexivity. Qed.
Lemma Qplus_inject a b : Qplus (inject_Z a) (inject_Z b) = inject_Z (a + b).
Proof. unfold Qplus, inject_Z. cbn [Qnum Qden]. rewrite !Z.mul_1_r. reflexivity. Qed.
Lemma Qplus_qnat a b : Qplus (qnat a) (qnat b) = qnat (a + b).
Proof. unfold qnat. rewrite Qplus_inject, Nat2Z.inj_add. reflexivity. Qed.
Lemma qnat_eq0 n : Qeq_bool (qnat n) 0 = Nat.eqb n 0.
Proof.
  destruct n as [|n]; [reflexivity|]. cbn [Nat.eqb].
  destruct (Qeq_bool (qnat (S n)) 0) eqn:E; [|reflexivity].
  apply Qeq_bool_iff in E. pose proof (qnat_pos (S n) ltac:(lia)). lra.
Qed.

Definition vnat (n : nat) : val := VNum (qnat n).
Definition voq (o : option Q) : val := match o with Some q => VNum q | None => VNone end.

Lemma norm_index_nat len j : (j < len)%nat -> norm_index len (Z.of_nat j) = Some j.
Proof.
  intros H. unfold norm_index.
  assert (E1 : (Z.of_nat j <? 0)%Z = false) by (apply Z.ltb_ge; lia).
  assert (E2 : (Z.of_nat j <? Z.of_nat len)%Z = true) by (apply Z.ltb_lt; lia).
  rewrite E1. cbv zeta. rewrite E1, E2. now rewrite Nat2Z.id.
Qed.
Lemma norm_index_over len j : (len <= j)%nat -> norm_index len (Z.of_nat j) = None.
Proof.
  intros H. unfold norm_index.
  assert (E1 : (Z.of_nat j <? 0)%Z = false) by (apply Z.ltb_ge; lia).
  assert (E2 : (Z.of_nat j <? Z.of_nat len)%Z = false) by (apply Z.ltb_ge; lia).
  rewrite E1. cbv zeta. now rewrite E1, E2.
Qed.

Lemma pindex_nat l j : (j < List.length l)%nat -> prim_apply PIndex [VList l; vnat j] = nth j l (VErr "IndexError").
Proof.
  intros H. unfold vnat, qnat. cbn [prim_apply]. rewrite as_int_inject. cbv zeta.
  assert (E1 : (0 <=? Z.of_nat j)%Z = true) by (apply Z.leb_le; lia).
  assert (E2 : (Z.of_nat j <? Z.of_nat (List.length l))%Z = true) by (apply Z.ltb_lt; lia).
  rewrite E1, E2. cbn [andb]. now rewrite Nat2Z.id.
Qed.
Lemma setitem_nat l j v : (j < List.length l)%nat -> setitem (VList l) (vnat j) v = VList (list_set l j v).
Proof. intros H. unfold setitem, vnat, qnat. now rewrite as_int_inject, norm_index_nat. Qed.

Lemma nth_map_voq (cw : list (option Q)) j d : (j < List.length cw)%nat -> nth j (map voq cw) d = voq (nth j cw None).
Proof. intros H. rewrite (nth_indep _ d (voq None)) by now rewrite map_length. apply map_nth. Qed.

Lemma seq_shift_map a n : map (fun k => (a + k)%nat) (seq 0 n) = seq a n.
Proof.
  revert a. induction n as [|n IH]; intros a; [reflexivity|].
  cbn [seq map]. rewrite Nat.add_0_r. f_equal. rewrite <- (seq_shift n 0), map_map, <- (IH (S a)).
  apply map_ext. intros k. lia.
Qed.
Lemma zrange_nat n : forall a, zrange_from (Z.of_nat a) n = map vnat (seq a n).
Proof.
  induction n as [|n IH]; intros a; [reflexivity|]. cbn [zrange_from seq map].
  replace (Z.of_nat a + 1)%Z with (Z.of_nat (S a)) by lia. now rewrite IH.
Qed.
Lemma range_nat a n : prim_apply PRange2 [vnat a; VNum (Qplus (qnat a) (qnat n))] = VList (map vnat (seq a n)).
Proof.
  rewrite Qplus_qnat. unfold vnat, qnat. cbn [prim_apply]. rewrite !as_int_inject.
  replace (Z.of_nat (a + n) - Z.of_nat a)%Z with (Z.of_nat n) by lia. now rewrite Nat2Z.id, zrange_nat.
Qed.

(* sum(xs) of numbers: the left fold from 0 *)
Definition sumL (l : list Q) : Q := fold_left Qplus l 0.
Lemma sum_vals_num l : forall acc, sum_vals acc (map VNum l) = VNum (fold_left Qplus l acc).
Proof. induction l as [|x l IH]; intros acc; [reflexivity|]. cbn [map sum_vals fold_left]. apply IH. Qed.
Lemma fold_plus_acc l : forall a, fold_left Qplus l a == a + qsum l.
Proof. induction l as [|x l IH]; intros a; simpl; [ring|]. rewrite IH. ring. Qed.
Lemma sumL_qsum l : sumL l == qsum l.
Proof. unfold sumL. rewrite fold_plus_acc. ring. Qed.

(* enumerate *)
Fixpoint zenum (z : Z) (l : list (option Q)) : list (Z * option Q) :=
  match l with [] => [] | o :: r => (z, o) :: zenum (z + 1) r end.
Definition vpair (p : Z * option Q) : val := VList [vint (fst p); voq (snd p)].
Lemma enum_from_voq l : forall z, enum_from z (map voq l) = map vpair (zenum z l).
Proof. induction l as [|o l IH]; intros z; [reflexivity|]. cbn [map enum_from zenum]. now rewrite IH. Qed.

(* ------------------------------------------------------------------ positions of the unknown widths *)
(* the indexes of the None entries of seg, counted from a *)
Fixpoint nidx (a : nat) (seg : list (option Q)) : list nat :=
  match seg with
  | [] => []
  | o :: r => (if is_none o then [a] else []) ++ nidx (S a) r
  end.
Lemma nidx_length a seg : List.length (nidx a seg) = nnone seg.
Proof.
  revert a. induction seg as [|o seg IH]; intros a; [reflexivity|]. cbn [nidx]. rewrite app_length, IH, nnone_cons.
  destruct (is_none o); reflexivity.
Qed.
Lemma zenum_nidx l : forall a,
  map (fun p => vint (fst p)) (filter (fun p => is_none (snd p)) (zenum (Z.of_nat a) l)) = map vnat (nidx a l).
Proof.
  induction l as [|o l IH]; intros a; [reflexivity|]. cbn [zenum filter nidx snd].
  replace (Z.of_nat a + 1)%Z with (Z.of_nat (S a)) by lia.
  destruct (is_none o); cbn [map app fst]; rewrite IH; reflexivity.
Qed.

(* what the loop `for j in range(i, i + colspan)` reads: by index in the whole list = along the segment *)
Definition sw (w : Q) (seg : list (option Q)) : Q :=
  fold_left (fun w o => match o with Some v => w - v | None => w end) seg w.
Definition l1_w (cw : list (option Q)) (w : Q) (js : list nat) : Q :=
  fold_left (fun w j => match nth j cw None with Some v => w - v | None => w end) js w.
Definition l1_idx (cw : list (option Q)) (js : list nat) : list nat := filter (fun j => is_none (nth j cw None)) js.

Lemma nth_mid {T} (pre : list T) x post d : nth (List.length pre) (pre ++ x :: post) d = x.
Proof. rewrite app_nth2 by lia. now rewrite Nat.sub_diag. Qed.

Lemma l1_w_seg seg : forall pre post w,
  l1_w (pre ++ seg ++ post) w (seq (List.length pre) (List.length seg)) = sw w seg.
Proof.
  induction seg as [|o seg IH]; intros pre post w; [reflexivity|].
  cbn [List.length seq]. unfold l1_w, sw. cbn [fold_left app]. rewrite nth_mid.
  specialize (IH (pre ++ [o]) post). rewrite <- app_assoc, app_length, Nat.add_1_r in IH. cbn [app] in IH.
  apply IH.
Qed.
Lemma l1_idx_seg seg : forall pre post,
  l1_idx (pre ++ seg ++ post) (seq (List.length pre) (List.length seg)) = nidx (List.length pre) seg.
Proof.
  induction seg as [|o seg IH]; intros pre post; [reflexivity|].
  cbn [List.length seq nidx]. unfold l1_idx. cbn [filter app]. rewrite nth_mid.
  specialize (IH (pre ++ [o]) post). rewrite <- app_assoc, app_length, Nat.add_1_r in IH. cbn [app] in IH.
  unfold l1_idx in IH. rewrite IH. destruct (is_none o); reflexivity.
Qed.

(* `for j in columns_without_width: column_widths[j] = v` *)
Definition set_all (l : list val) (js : list nat) (v : val) : list val := fold_left (fun l j => list_set l j v) js l.
Lemma list_set_length {T} (l : list T) : forall n v, List.length (list_set l n v) = List.length l.
Proof. induction l as [|x l IH]; intros [|n] v; cbn [list_set List.length]; auto. Qed.
Lemma list_set_mid {T} (pre : list T) x post v : list_set (pre ++ x :: post) (List.length pre) v = pre ++ v :: post.
Proof. induction pre as [|p pre IH]; [reflexivity|]. cbn [app List.length list_set]. now rewrite IH. Qed.
Lemma set_all_length js v : forall l, List.length (set_all l js v) = List.length l.
Proof. induction js as [|j js IH]; intros l; [reflexivity|]. cbn [set_all fold_left]. fold (set_all (list_set l j v) js v). now rewrite IH, list_set_length. Qed.

Lemma set_all_fill q seg : forall pre post,
  set_all (map voq (pre ++ seg ++ post)) (nidx (List.length pre) seg) (VNum q) = map voq (pre ++ fill q seg ++ post).
Proof.
  induction seg as [|o seg IH]; intros pre post; [reflexivity|].
  destruct o as [w|]; cbn [nidx fill map app is_none]; fold (fill q seg).
  - specialize (IH (pre ++ [Some w]) post).
    rewrite <- !app_assoc, app_length, Nat.add_1_r in IH. cbn [app] in IH. exact IH.
  - specialize (IH (pre ++ [Some q]) post).
    rewrite <- !app_assoc, app_length, Nat.add_1_r in IH. cbn [app] in IH. rewrite <- IH.
    unfold set_all. cbn [fold_left]. f_equal.
    rewrite !map_app. cbn [map]. rewrite <- (map_length voq pre). apply list_set_mid.
Qed.
Lemma set_all_fill_all q l : set_all (map voq l) (nidx 0 l) (VNum q) = map voq (fill q l).
Proof. pose proof (set_all_fill q l [] []) as H. cbn [app List.length] in H. rewrite !app_nil_r in H. exact H. Qed.
Lemma nidx_bound seg : forall a, Forall (fun j => (j < a + List.length seg)%nat) (nidx a seg).
Proof.
  induction seg as [|o seg IH]; intros a; [constructor|]. cbn [nidx List.length]. apply Forall_app. split.
  - destruct (is_none o); constructor; [lia|constructor].
  - specialize (IH (S a)). eapply Forall_impl; [|exact IH]. cbn. intros j. lia.
Qed.

(* ------------------------------------------------------------------ the computation in the source's order *)
(* a first-row cell after resolve_percentages: colspan, used width (None = 'auto'), border_width() *)
Record rcell := mk_rcell { r_span : nat; r_w : option Q; r_bw : Q }.

Definition icell (sp : Q) (c : rcell) (seg : list (option Q)) : list (option Q) :=
  match r_w c with
  | None => seg
  | Some _ => match nnone seg with
              | Datatypes.O => seg
              | k => fill (Qmax 0 (sw (r_bw c - sp * (qnat (r_span c) - 1)) seg) / qnat k) seg
              end
  end.
Fixpoint icells (sp : Q) (cells : list rcell) (cw : list (option Q)) : list (option Q) :=
  match cells with
  | [] => cw
  | c :: rest => icell sp c (firstn (r_span c) cw) ++ icells sp rest (skipn (r_span c) cw)
  end.
Definition somes (l : list (option Q)) : list Q := flat_map (fun o => match o with Some v => [v] | None => [] end) l.
Definition ifinish (W sp : Q) (n : nat) (cw1 : list (option Q)) : Q * list Q :=
  let allsp := sp * (qnat n + 1) in
  let minw := sumL (somes cw1) + allsp in
  let k := nnone cw1 in
  let cw2 := if (0 <? k)%nat && Qle_bool minw W then fill ((W - minw) / qnat k) cw1 else fill 0 cw1 in
  let ws := map oval cw2 in
  let extra := W - sumL ws - allsp in
  if Qle_bool extra 0 then (W - extra, ws)
  else match n with
       | Datatypes.O => (W, ws)
       | _ => (W, map (fun w => w + extra / qnat n) ws)
       end.

(* the model's cell: the declared width is the used one (resolve_percentages has run), paddings + borders are
   what border_width() adds to it *)
Definition fc_of (c : rcell) : fcell :=
  match r_w c with
  | None => mkfcell (r_span c) DAuto 0
  | Some v => mkfcell (r_span c) (DPx v) (r_bw c - v)
  end.
Lemma spans_fc cells : spans (map fc_of cells) = fold_right (fun c n => (r_span c + n)%nat) 0%nat cells.
Proof.
  induction cells as [|c cells IH]; [reflexivity|]. cbn [map spans fold_right]. fold (spans (map fc_of cells)).
  rewrite IH. unfold fc_of. destruct (r_w c); reflexivity.
Qed.

(* ---- equivalence up to == *)
Definition oeq (a b : option Q) : Prop :=
  match a, b with Some x, Some y => x == y | None, None => True | _, _ => False end.
Definition leq := Forall2 oeq.
Definition qleq := Forall2 Qeq.

Lemma oeq_refl a : oeq a a.
Proof. destruct a; cbn; [reflexivity|exact I]. Qed.
Lemma leq_refl l : leq l l.
Proof. induction l; constructor; [apply oeq_refl|assumption]. Qed.
Lemma leq_nnone a b : leq a b -> nnone a = nnone b.
Proof.
  induction 1 as [|x y a b H _ IH]; [reflexivity|]. rewrite !nnone_cons, IH.
  destruct x, y; cbn in *; try contradiction; reflexivity.
Qed.
Lemma leq_osum a b : leq a b -> osum a == osum b.
Proof.
  induction 1 as [|x y a b H _ IH]; [reflexivity|]. unfold osum in *. cbn [map qsum fold_right]. fold (qsum (map oval a)) (qsum (map oval b)).
  rewrite IH. destruct x, y; cbn in *; try contradiction; [rewrite H|]; reflexivity.
Qed.
Lemma leq_fill v v' a b : v == v' -> leq a b -> leq (fill v a) (fill v' b).
Proof.
  intros Hv. induction 1 as [|x y a b H _ IH]; [constructor|]. cbn [fill map]. constructor; [|exact IH].
  destruct x, y; cbn in *; try contradiction; assumption.
Qed.
Lemma leq_oval a b : leq a b -> qleq (map oval a) (map oval b).
Proof.
  induction 1 as [|x y a b H _ IH]; [constructor|]. cbn [map]. constructor; [|exact IH].
  destruct x, y; cbn in *; try contradiction; [assumption|reflexivity].
Qed.
Lemma qleq_qsum a b : qleq a b -> qsum a == qsum b.
Proof. induction 1 as [|x y a b H _ IH]; [reflexivity|]. cbn [qsum fold_right]. fold (qsum a) (qsum b). now rewrite H, IH. Qed.
Lemma qleq_map_add e e' a b : e == e' -> qleq a b -> qleq (map (fun w => w + e) a) (map (fun w => w + e') b).
Proof. intros He. induction 1 as [|x y a b H _ IH]; [constructor|]. cbn [map]. constructor; [now rewrite H, He|exact IH]. Qed.
Lemma qleq_length a b : qleq a b -> List.length a = List.length b.
Proof. induction 1; cbn; congruence. Qed.
Lemma leq_length a b : leq a b -> List.length a = List.length b.
Proof. induction 1; cbn; congruence. Qed.

Lemma sw_osum a b : leq a b -> forall w w', w == w' -> sw w a == w' - osum b.
Proof.
  induction 1 as [|x y a b H _ IH]; intros w w' E; [unfold sw, osum; cbn; rewrite E; ring|].
  unfold sw. cbn [fold_left]. fold (sw (match x with Some v => w - v | None => w end) a).
  unfold osum. cbn [map qsum fold_right]. fold (qsum (map oval b)). fold (osum b).
  destruct x as [v|], y as [v'|]; cbn in H; try contradiction; cbn [oval].
  - rewrite (IH (w - v) (w' - v')) by (rewrite E, H; reflexivity). ring.
  - rewrite (IH w w' E). ring.
Qed.
Lemma somes_osum a b : leq a b -> sumL (somes a) == osum b.
Proof.
  intros H. rewrite sumL_qsum. induction H as [|x y a b H _ IH]; [reflexivity|].
  unfold osum. cbn [somes flat_map map qsum fold_right]. fold (somes a). fold (qsum (map oval b)). fold (osum b).
  destruct x as [v|], y as [v'|]; cbn in H; try contradiction; cbn [app oval].
  - cbn [qsum fold_right]. fold (qsum (somes a)). now rewrite IH, H.
  - rewrite IH. ring.
Qed.

Lemma icell_model W sp c seg seg' : leq seg seg' -> leq (icell sp c seg) (cell_segment W sp (fc_of c) seg').
Proof.
  intros H. unfold icell, cell_segment, fc_of. destruct (r_w c) as [v|]; cbn [fc_width fc_span fc_bp resolve]; [|exact H].
  rewrite <- (leq_nnone _ _ H). destruct (nnone seg) as [|k]; [exact H|].
  apply leq_fill; [|exact H].
  rewrite (sw_osum _ _ H (r_bw c - sp * (qnat (r_span c) - 1)) (v + (r_bw c - v) - sp * (qnat (r_span c) - 1))) by ring.
  reflexivity.
Qed.

Lemma icells_model W sp cells : forall cw cw', leq cw cw' -> (spans (map fc_of cells) <= List.length cw)%nat ->
  exists r, cells_loop W sp (map fc_of cells) cw' = Some r /\ leq (icells sp cells cw) r.
Proof.
  induction cells as [|c cells IH]; intros cw cw' H L; cbn [map cells_loop icells]; [eauto|].
  cbn [map spans fold_right] in L. fold (spans (map fc_of cells)) in L.
  assert (Sp : fc_span (fc_of c) = r_span c) by (unfold fc_of; destruct (r_w c); reflexivity).
  rewrite Sp in *. rewrite firstn_length. rewrite <- (leq_length _ _ H).
  assert (Eb : (Nat.min (r_span c) (List.length cw) <? r_span c)%nat = false) by (apply Nat.ltb_ge; lia).
  rewrite Eb.
  destruct (IH (skipn (r_span c) cw) (skipn (r_span c) cw')) as [t [Et Ht]].
  - now apply Forall2_skipn.
  - rewrite skipn_length. lia.
  - rewrite Et. eexists. split; [reflexivity|]. apply Forall2_app; [|exact Ht].
    apply icell_model. now apply Forall2_firstn.
Qed.

Lemma ifinish_model W sp cw1 cw1' : leq cw1 cw1' ->
  fst (ifinish W sp (List.length cw1') cw1) == fst (fixed_finish W sp cw1') /\
  qleq (snd (ifinish W sp (List.length cw1') cw1)) (snd (fixed_finish W sp cw1')).
Proof.
  intros H. unfold ifinish, fixed_finish.
  set (n := List.length cw1'). set (allsp := sp * (qnat n + 1)).
  assert (Em : sumL (somes cw1) + allsp == osum cw1' + allsp) by (now rewrite (somes_osum _ _ H)).
  rewrite <- (leq_nnone _ _ H). set (k := nnone cw1).
  rewrite (Qle_bool_compat _ _ W W Em) by reflexivity.
  set (c := (0 <? k)%nat && Qle_bool (osum cw1' + allsp) W).
  assert (H2 : leq (if c then fill ((W - (sumL (somes cw1) + allsp)) / qnat k) cw1 else fill 0 cw1)
                   (if c then fill ((W - (osum cw1' + allsp)) / qnat k) cw1' else fill 0 cw1')).
  { destruct c; apply leq_fill; try exact H; [now rewrite Em|reflexivity]. }
  set (a := if c then fill ((W - (sumL (somes cw1) + allsp)) / qnat k) cw1 else fill 0 cw1) in *.
  set (b := if c then fill ((W - (osum cw1' + allsp)) / qnat k) cw1' else fill 0 cw1') in *.
  pose proof (leq_oval _ _ H2) as Hw.
  assert (Ee : W - sumL (map oval a) - allsp == W - qsum (map oval b) - allsp)
    by (now rewrite sumL_qsum, (qleq_qsum _ _ Hw)).
  rewrite (Qle_bool_compat _ _ 0 0 Ee) by reflexivity.
  destruct (Qle_bool (W - qsum (map oval b) - allsp) 0); cbn [fst snd].
  - split; [now rewrite Ee|exact Hw].
  - destruct n; cbn [fst snd]; (split; [reflexivity|]); [exact Hw|].
    apply qleq_map_add; [now rewrite Ee|exact Hw].
Qed.
