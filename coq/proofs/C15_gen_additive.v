(* C15 - the branch `elif system == 'additive':` of CounterStyle.render_value (weasyprint/css/counters.py) as
   REGENERATED from the source on every run (gen/GenCounters.v: rv_additive_body), the statement
   `if initial is None: .. return self.render_value(.. fallback ..)` that ends it included.  For every tuple of
   (weight, symbol) pairs (or None), every integer counter value, both values of is_negative, it does what
   [represent c "additive"] of the hand model model/C15Style.v says: `initial` is bound to the concatenation the
   greedy loop builds (weights 0 skipped; value 0: the symbol of the LAST pair of weight 0), or the decimal style is
   called (no pair at all), or the fallback style is called with the counter value negated back when is_negative,
   or the same error is raised.
   The loop `for weight, symbol_string in ..: .. break` is printed under the target option 'for_break' (a flag
   variable "%brk", see tools/py2coq.py for_with_break); `[s] * n`, `weight * repetitions`, len are the primitives
   PSeqMul / PSeqLen of base/Py.v (option 'seq_ops'). *)
From Coq Require Import ZArith QArith List String Bool Lia.
Require Import WV.model.C15Style WV.model.C15Builtins WV.proofs.C15_gen_base WV.proofs.C15_gen_numeric.
Require Import WV.proofs.C15_gen_symbolic.
Require Import WV.base.Py WV.gen.GenCounters.
Import ListNotations.
Open Scope string_scope.
Open Scope list_scope.

(* counter['additive_symbols'] as the Python code holds it: None, or a tuple of (weight, symbol) pairs *)
Definition vitem (wp : Z * psym) : val := VList [vint (fst wp); vsym (snd wp)].
Definition vadd (o : option (list (Z * psym))) : val :=
  match o with Some l => VList (map vitem l) | None => VNone end.
Definition mitem (wp : Z * psym) : Z * sym := (fst wp, msym (snd wp)).
Definition madd (o : option (list (Z * psym))) : option (list (Z * sym)) :=
  match o with Some l => Some (map mitem l) | None => None end.

(* the two loops on Python strings *)
Fixpoint add_loop_s (l : list (Z * psym)) (rem : Z) (ss : list string) : option (list string) :=
  match l with
  | [] => None
  | (w, p) :: tl =>
    if (w =? 0)%Z then add_loop_s tl rem ss else
    let reps := (rem / w)%Z in
    let ss' := ss ++ repeat (psym_str p) (Z.to_nat reps) in
    let rem' := (rem - w * reps)%Z in
    if (rem' =? 0)%Z then Some ss' else add_loop_s tl rem' ss'
  end.
Definition zfold (l : list (Z * psym)) (init : val) : val :=
  fold_left (fun acc wp => if (fst wp =? 0)%Z then VStr (psym_str (snd wp)) else acc) l init.

Definition sym_str (ws : Z * sym) : string := enc (symbol (snd ws)).
Lemma add_loop_s_model : forall l rem P,
  add_loop_s l rem (map sym_str P) = option_map (map sym_str) (add_loop (map mitem l) rem P).
Proof.
  induction l as [|[w p] tl IH]; intros rem P; [reflexivity|].
  cbn [map add_loop_s add_loop mitem fst snd]. destruct (w =? 0)%Z; [apply IH|]. cbv zeta.
  assert (E : map sym_str P ++ repeat (psym_str p) (Z.to_nat (rem / w)) =
              map sym_str (P ++ repeat (w, msym p) (Z.to_nat (rem / w)))).
  { rewrite map_app. f_equal. induction (Z.to_nat (rem / w)) as [|k IHk]; [reflexivity|].
    cbn [repeat map]. rewrite <- IHk. unfold sym_str at 1. cbn [snd]. now rewrite symbol_msym. }
  rewrite E. destruct (_ =? 0)%Z; [reflexivity|apply IH].
Qed.
Lemma enc_join_parts P : enc (join_parts P) = String.concat "" (map sym_str P).
Proof. unfold join_parts. rewrite enc_concat, map_map. reflexivity. Qed.
Lemma zfold_model : forall l acc,
  zfold l (match acc with Some t => VStr (enc t) | None => VNone end) =
  match fold_left (fun acc ws => if (fst ws =? 0)%Z then Some (symbol (snd ws)) else acc) (map mitem l) acc with
  | Some t => VStr (enc t) | None => VNone end.
Proof.
  induction l as [|[w p] tl IH]; intros acc; [reflexivity|].
  cbn [zfold fold_left map mitem fst snd]. destruct (w =? 0)%Z; [|apply IH].
  rewrite <- (symbol_msym p). apply (IH (Some (symbol (msym p)))).
Qed.

Lemma list_repeat_single n s : list_repeat n [VStr s] = map VStr (repeat s n).
Proof. induction n as [|n IH]; [reflexivity|]. cbn [list_repeat repeat map app]. now rewrite IH. Qed.
Lemma Qeq_bool_eq_0 q z : (q == inject_Z z)%Q -> Qeq_bool q (0 # 1) = (z =? 0)%Z.
Proof.
  intros E. rewrite <- (Qeq_bool_vint0' z).
  destruct (Qeq_bool q (0 # 1)) eqn:E1, (Qeq_bool (inject_Z z) (0 # 1)) eqn:E2; try reflexivity.
  - apply Qeq_bool_iff in E1. rewrite E in E1. apply Qeq_bool_iff in E1. congruence.
  - apply Qeq_bool_iff in E2. rewrite <- E in E2. apply Qeq_bool_iff in E2. congruence.
Qed.
Lemma inj_sub_mul q rem w r : (q == inject_Z rem)%Q ->
  (q - inject_Z w * inject_Z r == inject_Z (rem - w * r))%Q.
Proof.
  intros E. rewrite E. unfold Qeq, Qminus, Qplus, Qopp, Qmult, inject_Z. simpl. ring.
Qed.

(* pieces of the regenerated body *)
Definition add_test : expr := match rv_additive_body with [SIf c _ _; _] => c | _ => EConst VNone end.
Definition add_then : list stmt := match rv_additive_body with [SIf _ th _; _] => th | _ => [] end.
Definition add_else : list stmt := match rv_additive_body with [SIf _ _ el; _] => el | _ => [] end.
Definition add_tail : stmt := nth 1 rv_additive_body SPass.
Definition add_it : expr := match add_then with [SFor _ it _] => it | _ => EConst VNone end.
Definition zloop_body : list stmt := match add_then with [SFor _ _ b] => b | _ => [] end.
Definition aloop_body : list stmt := match nth 4 add_else SPass with SFor _ _ b => b | _ => [] end.
Definition aloop_inner : list stmt := match aloop_body with [SIf _ inner _] => inner | _ => [] end.
Definition aloop_els : list stmt := match nth 1 aloop_inner SPass with SIf _ _ el => el | _ => [] end.

Section Additive.
Variable O : qops.
Hypothesis HO : ops_ok O.
Hypothesis HS : forall p, ocall O "symbol" [vsym p] = VStr (psym_str p).

(* the dict `counter`: 'symbols' (whatever it holds), 'fallback', 'additive_symbols', and any other entries *)
Variables (sf : list (string * val)) (sy : val) (fb : option string) (rest : list (string * val)) (pl : list val).
Notation self := (VObj sf).
Definition acounter (oadd : option (list (Z * psym))) : val :=
  VObj (("symbols", sy) :: ("fallback", vfallback fb) :: ("additive_symbols", vadd oadd) :: rest).

Ltac ev := lazy -[qadd qsub qmul qdiv qmax qmin qleb qeqb ocall wfuel prim_apply inject_Z Z.abs Z.div Z.modulo
                  Z.of_nat Z.eqb Z.leb Z.ltb negb Qminus Qplus Qmult Z.sub Z.add Z.opp Z.mul andb Z.to_nat
                  List.length List.map String.concat repeat list_repeat].
Ltac unseal :=
  rewrite ?(qadd_eq _ HO), ?(qsub_eq _ HO), ?(qmul_eq _ HO), ?(qdiv_eq _ HO), ?(qmax_eq _ HO), ?(qmin_eq _ HO),
          ?(qleb_eq _ HO), ?(qeqb_eq _ HO) in *.

Lemma exec_for A kret kerr x it body rho (k : env -> A) :
  exec O A kret kerr (SFor x it body) rho k =
  eval O A kerr rho it (fun vit =>
    match vit with
    | VList l => gen_iter (fun v rho k' => exec_block O A kret kerr body (update x v rho) k') l rho k
    | VErr m => kerr m | _ => kerr "TypeError" end).
Proof. reflexivity. Qed.

Variable oadd : option (list (Z * psym)).
Lemma gen_iter_cons {R E} (f : val -> E -> (E -> R) -> R) v l rho k :
  gen_iter f (v :: l) rho k = f v rho (fun rho' => gen_iter f l rho' k).
Proof. reflexivity. Qed.

Definition base (v : Z) (neg : bool) (init : val) : env :=
  [("self", self); ("counter", acounter oadd); ("counter_value", vint v); ("initial", init);
   ("is_negative", VBool neg); ("previous_types", VList pl)].

Definition fallback_name : string :=
  match fb with Some f => if String.eqb f "" then "decimal" else f | None => "decimal" end.
(* the arguments of the fallback call: the counter value is negated back when is_negative (the number the
   subtraction 0 - v produces) *)
Definition fb_args (v : Z) (neg : bool) : list val :=
  [self; (if neg then VNum (0 - inject_Z v)%Q else vint v); VStr fallback_name; VNone; VList pl].

(* ---- counter_value == 0: the loop that keeps the symbol of the last pair of weight 0 *)
Inductive zphase := Z0 | Z1 (a b c : val).
Definition ztail (ph : zphase) : env :=
  match ph with Z0 => [] | Z1 a b c => [("%item", a); ("weight", b); ("symbol_string", c)] end.
Definition zenv (neg : bool) (init : val) (ph : zphase) : env := base 0 neg init ++ ztail ph.

(* the statement after the loops *)
Lemma ztail_none A kret kerr (k : env -> A) neg ph :
  exists rho',
  exec O A kret kerr add_tail (zenv neg VNone ph) k =
  match ocall O ".render_value" (fb_args 0 neg) with VErr m => kerr m | x => kret rho' x end.
Proof.
  unfold fb_args, fallback_name, zenv, base, acounter. destruct neg, fb as [[|a f']|], ph; eexists; ev; unseal; reflexivity.
Qed.
Lemma ztail_some A kret kerr (k : env -> A) neg s ph :
  exec O A kret kerr add_tail (zenv neg (VStr s) ph) k = k (zenv neg (VStr s) ph).
Proof. destruct ph; reflexivity. Qed.

Lemma zstep A kret kerr (k : env -> A) neg init ph wp :
  exists ph',
  exec_block O A kret kerr zloop_body (update "%item" (vitem wp) (zenv neg init ph)) k =
  k (zenv neg (if (fst wp =? 0)%Z then VStr (psym_str (snd wp)) else init) ph').
Proof.
  destruct wp as [w p]. cbn [fst snd]. pose proof (HS p) as Hp.
  exists (Z1 (vitem (w, p)) (vint w) (vsym p)).
  destruct ph; ev; unseal; rewrite Qeq_bool_vint0'; destruct (w =? 0)%Z; try reflexivity;
    destruct p; cbn [vsym psym_str] in *; rewrite Hp; reflexivity.
Qed.
Lemma zloop A kret kerr (k : env -> A) neg : forall l init ph,
  exists ph',
  gen_iter (fun v rho k' => exec_block O A kret kerr zloop_body (update "%item" v rho) k') (map vitem l)
    (zenv neg init ph) k = k (zenv neg (zfold l init) ph').
Proof.
  induction l as [|wp tl IH]; intros init ph; [exists ph; reflexivity|].
  destruct (zstep A kret kerr
              (fun rho' => gen_iter (fun v rho k' => exec_block O A kret kerr zloop_body (update "%item" v rho) k')
                             (map vitem tl) rho' k) neg init ph wp) as (ph1 & E).
  destruct (IH (if (fst wp =? 0)%Z then VStr (psym_str (snd wp)) else init) ph1) as (ph2 & E2).
  exists ph2. cbn [map]. rewrite gen_iter_cons. cbv beta. exact (eq_trans E E2).
Qed.

(* ---- counter_value != 0: the greedy loop *)
Inductive aphase := A0 | A1 (a b c : val) | A2 (a b c d : val).
Definition atail (ph : aphase) : env :=
  match ph with
  | A0 => []
  | A1 a b c => [("%item", a); ("weight", b); ("symbol_string", c)]
  | A2 a b c d => [("%item", a); ("weight", b); ("symbol_string", c); ("repetitions", d)]
  end.
Definition aenv (v : Z) (neg : bool) (init : val) (q : Q) (ss : list string) (brk : bool) (ph : aphase) : env :=
  base v neg init ++
  [("parts", VList (map VStr ss)); ("remaining_value", VNum q); ("%brk", VBool brk)] ++ atail ph.

Lemma atail_none A kret kerr (k : env -> A) v neg q ss brk ph :
  exists rho',
  exec O A kret kerr add_tail (aenv v neg VNone q ss brk ph) k =
  match ocall O ".render_value" (fb_args v neg) with VErr m => kerr m | x => kret rho' x end.
Proof.
  unfold fb_args, fallback_name, zenv, aenv, base, acounter. destruct neg, fb as [[|a f']|], ph; eexists; ev; unseal; reflexivity.
Qed.
Lemma atail_some A kret kerr (k : env -> A) v neg s q ss brk ph :
  exec O A kret kerr add_tail (aenv v neg (VStr s) q ss brk ph) k = k (aenv v neg (VStr s) q ss brk ph).
Proof. destruct ph; reflexivity. Qed.

Definition witem (ph : aphase) (item w s : val) : aphase :=
  match ph with A0 | A1 _ _ _ => A1 item w s | A2 _ _ _ d => A2 item w s d end.
Lemma flowing_aenv v neg init q ss brk ph : flowing (aenv v neg init q ss brk ph) = false.
Proof. destruct ph; reflexivity. Qed.

Lemma eval_not A kerr rho a (k : val -> A) :
  eval O A kerr rho (ENot a) k = eval O A kerr rho a (fun va => bool_k O A kerr va (fun t => k (VBool (negb t)))).
Proof. reflexivity. Qed.

Lemma eval_subscr' A kerr rho e key (k : val -> A) :
  eval O A kerr rho (ESubscr e key) k =
  eval O A kerr rho e (fun v => match v with VObj f => k (Py.lookup key f) | VErr m => kerr m
                                          | _ => kerr "TypeError" end).
Proof. reflexivity. Qed.

Section AStep.
Variables (A : Type) (kret : env -> val -> A) (kerr : string -> A) (v : Z) (neg : bool).
Notation XB := (exec_block O A kret kerr).
Notation X1 := (exec O A kret kerr).

(* after a break: the remaining items are only bound to %item *)
Lemma astep_brk k init q ss a b c d item :
  XB aloop_body (update "%item" item (aenv v neg init q ss true (A2 a b c d))) k =
  k (aenv v neg init q ss true (A2 item b c d)).
Proof. reflexivity. Qed.

Lemma outer_go k rho : Py.lookup "%brk" rho = VBool false ->
  XB aloop_body rho k = XB aloop_inner rho (fun r => if flowing r then k r else k r).
Proof.
  intros Hb. change aloop_body with [SIf (ENot (EVar "%brk")) aloop_inner []].
  rewrite exec_block_cons, exec_if, eval_not, eval_var, Hb. reflexivity.
Qed.

Lemma i0_step k init q ss ph wp :
  X1 (nth 0 aloop_inner SPass) (update "%item" (vitem wp) (aenv v neg init q ss false ph)) k =
  k (aenv v neg init q ss false (witem ph (vitem wp) (vint (fst wp)) (vsym (snd wp)))).
Proof. destruct ph; reflexivity. Qed.

Lemma i1_test (k : bool -> A) init q ss ph item w s :
  eval O A kerr (aenv v neg init q ss false (witem ph item (vint w) s))
    (match nth 1 aloop_inner SPass with SIf c _ _ => c | _ => EConst VNone end)
    (fun vc => bool_k O A kerr vc k) = k (w =? 0)%Z.
Proof. destruct ph; ev; unseal; rewrite Qeq_bool_vint0'; destruct (w =? 0)%Z; reflexivity. Qed.

Lemma e0_step k init q rem ss ph item w s : w <> 0%Z -> (q == inject_Z rem)%Q ->
  X1 (nth 0 aloop_els SPass) (aenv v neg init q ss false (witem ph item (vint w) s)) k =
  k (aenv v neg init q ss false (A2 item (vint w) s (vint (rem / w)))).
Proof.
  intros Hw Hq. destruct ph; ev; rewrite (prim_floordiv_eq q rem w Hw Hq); reflexivity.
Qed.

Lemma e1_step k init q ss item w p r :
  X1 (nth 1 aloop_els SPass) (aenv v neg init q ss false (A2 item w (vsym p) (vint r))) k =
  k (aenv v neg init q (ss ++ repeat (psym_str p) (Z.to_nat r)) false (A2 item w (vsym p) (vint r))).
Proof.
  pose proof (HS p) as Hp. unfold aenv. rewrite map_app, <- list_repeat_single.
  destruct p; cbn [vsym psym_str] in *; ev; rewrite Hp; cbv iota beta; unfold prim_apply; rewrite as_int_vint;
    reflexivity.
Qed.

Lemma e2_step k init q ss item w s r :
  X1 (nth 2 aloop_els SPass) (aenv v neg init q ss false (A2 item (vint w) s (vint r))) k =
  k (aenv v neg init (q - inject_Z w * inject_Z r)%Q ss false (A2 item (vint w) s (vint r))).
Proof. ev. unseal. reflexivity. Qed.

Lemma e3_step k q z ss item w s r : (q == inject_Z z)%Q ->
  X1 (nth 3 aloop_els SPass) (aenv v neg VNone q ss false (A2 item w s r)) k =
  if (z =? 0)%Z then k (aenv v neg (VStr (String.concat "" ss)) q ss true (A2 item w s r))
  else k (aenv v neg VNone q ss false (A2 item w s r)).
Proof.
  intros Hq. ev. unseal. rewrite (Qeq_bool_eq_0 q z Hq). destruct (z =? 0)%Z; [|reflexivity].
  rewrite prim_join. reflexivity.
Qed.

Lemma astep k q rem ss ph w p : (q == inject_Z rem)%Q ->
  exists q' ph', (q' == inject_Z (if (w =? 0)%Z then rem else rem - w * (rem / w)))%Q /\
  XB aloop_body (update "%item" (vitem (w, p)) (aenv v neg VNone q ss false ph)) k =
  if (w =? 0)%Z then k (aenv v neg VNone q' ss false ph')
  else let ss' := ss ++ repeat (psym_str p) (Z.to_nat (rem / w)) in
       if (rem - w * (rem / w) =? 0)%Z
       then k (aenv v neg (VStr (String.concat "" ss')) q' ss' true
                 (A2 (vitem (w, p)) (vint w) (vsym p) (vint (rem / w))))
       else k (aenv v neg VNone q' ss' false ph').
Proof.
  intros Hq.
  assert (Hb : Py.lookup "%brk" (update "%item" (vitem (w, p)) (aenv v neg VNone q ss false ph)) = VBool false)
    by (destruct ph; reflexivity).
  rewrite (outer_go _ _ Hb).
  change aloop_inner with [nth 0 aloop_inner SPass; nth 1 aloop_inner SPass].
  rewrite exec_block_cons, i0_step, flowing_aenv. cbn [fst snd].
  rewrite exec_block_cons.
  change (nth 1 aloop_inner SPass) with
    (SIf (match nth 1 aloop_inner SPass with SIf c _ _ => c | _ => EConst VNone end) [SPass] aloop_els).
  rewrite exec_if, i1_test.
  destruct (Z.eqb_spec w 0) as [Hw|Hw].
  - exists q, (witem ph (vitem (w, p)) (vint w) (vsym p)). split; [exact Hq|].
    cbn [exec_block exec]. rewrite !flowing_aenv. reflexivity.
  - exists (q - inject_Z w * inject_Z (rem / w))%Q, (A2 (vitem (w, p)) (vint w) (vsym p) (vint (rem / w))).
    pose proof (inj_sub_mul q rem w (rem / w) Hq) as Hq'. split; [exact Hq'|].
    change aloop_els with [nth 0 aloop_els SPass; nth 1 aloop_els SPass; nth 2 aloop_els SPass; nth 3 aloop_els SPass].
    rewrite exec_block_cons, (e0_step _ _ q rem) by assumption. rewrite flowing_aenv.
    rewrite exec_block_cons, e1_step, flowing_aenv.
    rewrite exec_block_cons, e2_step, flowing_aenv.
    rewrite exec_block_cons, (e3_step _ _ _ _ _ _ _ _ Hq'). cbv zeta.
    destruct (_ =? 0)%Z; rewrite !flowing_aenv; reflexivity.
Qed.
End AStep.
Section ALoop.
Variables (A : Type) (kret : env -> val -> A) (kerr : string -> A) (k : env -> A) (v : Z) (neg : bool).
Notation F := (fun it rho k' => exec_block O A kret kerr aloop_body (update "%item" it rho) k').

Lemma aloop_brk : forall l init q ss a b c d, exists a',
  gen_iter F (map vitem l) (aenv v neg init q ss true (A2 a b c d)) k = k (aenv v neg init q ss true (A2 a' b c d)).
Proof.
  induction l as [|wp tl IH]; intros; [eexists; reflexivity|].
  destruct (IH init q ss (vitem wp) b c d) as (a' & E2). exists a'.
  cbn [map]. rewrite gen_iter_cons. cbv beta.
  exact (eq_trans (astep_brk A kret kerr v neg _ init q ss a b c d (vitem wp)) E2).
Qed.

Lemma aloop_run : forall l rem q ss ph, (q == inject_Z rem)%Q ->
  match add_loop_s l rem ss with
  | Some ss' => exists q' a b c d,
      gen_iter F (map vitem l) (aenv v neg VNone q ss false ph) k =
      k (aenv v neg (VStr (String.concat "" ss')) q' ss' true (A2 a b c d))
  | None => exists q' ss' ph',
      gen_iter F (map vitem l) (aenv v neg VNone q ss false ph) k = k (aenv v neg VNone q' ss' false ph')
  end.
Proof.
  induction l as [|[w p] tl IH]; intros rem q ss ph Hq; [exists q, ss, ph; reflexivity|].
  destruct (astep A kret kerr v neg (fun rho' => gen_iter F (map vitem tl) rho' k) q rem ss ph w p Hq)
    as (q' & ph' & Hq' & E).
  cbn [add_loop_s]. cbn [map]. rewrite gen_iter_cons. cbv beta.
  destruct (w =? 0)%Z.
  - specialize (IH rem q' ss ph' Hq'). destruct (add_loop_s tl rem ss) as [ss'|].
    + destruct IH as (q2 & a & b & c & d & E2). exists q2, a, b, c, d. exact (eq_trans E E2).
    + destruct IH as (q2 & ss2 & ph2 & E2). exists q2, ss2, ph2. exact (eq_trans E E2).
  - cbv zeta in *. destruct (rem - w * (rem / w) =? 0)%Z.
    + destruct (aloop_brk tl (VStr (String.concat "" (ss ++ repeat (psym_str p) (Z.to_nat (rem / w))))) q'
                  (ss ++ repeat (psym_str p) (Z.to_nat (rem / w))) (vitem (w, p)) (vint w) (vsym p)
                  (vint (rem / w))) as (a' & E2).
      exists q', a', (vint w), (vsym p), (vint (rem / w)). exact (eq_trans E E2).
    + specialize (IH (rem - w * (rem / w))%Z q' (ss ++ repeat (psym_str p) (Z.to_nat (rem / w))) ph' Hq').
      destruct (add_loop_s tl _ _) as [ss'|].
      * destruct IH as (q2 & a & b & c & d & E2). exists q2, a, b, c, d. exact (eq_trans E E2).
      * destruct IH as (q2 & ss2 & ph2 & E2). exists q2, ss2, ph2. exact (eq_trans E E2).
Qed.
End ALoop.
Lemma flowing_zenv neg init ph : flowing (zenv neg init ph) = false.
Proof. destruct ph; reflexivity. Qed.
Lemma add_test_step A kerr (k : bool -> A) v neg :
  eval O A kerr (base v neg VNone) add_test (fun vc => bool_k O A kerr vc k) = k (v =? 0)%Z.
Proof. ev. unseal. rewrite Qeq_bool_vint0'. destruct (v =? 0)%Z; reflexivity. Qed.
Lemma add_it_step A kerr (k : val -> A) rho : Py.lookup "counter" rho = acounter oadd ->
  eval O A kerr rho add_it k = k (vadd oadd).
Proof.
  intros Hc. change add_it with (ESubscr (EVar "counter") "additive_symbols").
  rewrite eval_subscr', eval_var, Hc. reflexivity.
Qed.

(* the statements of the else branch before the loop *)
Lemma s1_step A kret kerr (k : env -> A) v neg l : oadd = Some l ->
  exec O A kret kerr (nth 1 add_else SPass) (base v neg VNone ++ [("parts", VList [])]) k =
  if (1 <=? Z.of_nat (List.length l))%Z then k (base v neg VNone ++ [("parts", VList [])])
  else match ocall O ".render_value" (rv_args self v "decimal" VNone) with
       | VErr m => kerr m
       | x => kret (base v neg VNone ++ [("parts", VList [])]) x
       end.
Proof.
  intros Ho. unfold base, acounter. rewrite Ho. cbn [vadd]. ev. rewrite prim_seqlen_list, map_length. ev. unseal.
  change (1 # 1) with (inject_Z 1). rewrite Qle_bool_vint. destruct (1 <=? _)%Z; reflexivity.
Qed.
Lemma s1_none A kret kerr (k : env -> A) v neg : oadd = None ->
  exec O A kret kerr (nth 1 add_else SPass) (base v neg VNone ++ [("parts", VList [])]) k = kerr "TypeError".
Proof. intros Ho. unfold base, acounter. rewrite Ho. reflexivity. Qed.

Definition fb_args_of (c : cstyle) (v : Z) (neg : bool) : list val :=
  [self; (if neg then VNum (0 - inject_Z v)%Q else vint v); VStr (fallback_of c); VNone; VList pl].

Theorem gen_additive (c : cstyle) (fx : option Z) (v : Z) (neg : bool) :
  c_additive c = madd oadd -> c_fallback c = fb -> fb <> Some "" ->
  run O rv_additive_body (base v neg VNone)
    (agrees O (rv_args self v "decimal" VNone) (fb_args_of c v neg) (represent c "additive" fx v))
    (raises O (rv_args self v "decimal" VNone) (fb_args_of c v neg) (represent c "additive" fx v)).
Proof.
  intros Hc Hfb Hne.
  assert (Hrep : represent c "additive" fx v =
    match c_additive c with
    | None => RpExc
    | Some l =>
      if (v =? 0)%Z then (match add_zero l with Some t => RpInitial t | None => RpFallback end) else
      if (zlen l <? 1)%Z then RpDecimal else
      match add_loop l v [] with
      | Some parts => RpInitial (join_parts parts)
      | None => RpFallback
      end
    end) by reflexivity.
  assert (Hname : fb_args_of c v neg = fb_args v neg).
  { unfold fb_args_of, fb_args, fallback_of, fallback_name, orelse. rewrite Hfb. destruct fb as [f|]; [|reflexivity].
    destruct (String.eqb_spec f ""); [subst; congruence|reflexivity]. }
  rewrite Hrep, Hc, Hname. clear Hrep Hname. unfold run.
  change rv_additive_body with [SIf add_test add_then add_else; add_tail].
  rewrite exec_block_cons, exec_if, add_test_step.
  destruct (Z.eqb_spec v 0) as [->|Hv].
  - (* counter_value == 0 *)
    change add_then with [SFor "%item" add_it zloop_body].
    rewrite exec_block_cons, exec_for, (add_it_step _ _ _ (base 0 neg VNone) eq_refl).
    destruct oadd as [l|] eqn:Ho; cbn [vadd madd]; [|left; reflexivity].
    change (base 0 neg VNone) with (zenv neg VNone Z0).
    match goal with |- gen_iter (fun _ _ _ => exec_block O Prop ?kr ?ke _ _ _) _ _ ?k0 =>
      destruct (zloop Prop kr ke k0 neg l VNone Z0) as (ph' & E) end.
    rewrite E. clear E. rewrite flowing_zenv.
    change (exec_block O Prop ?kr ?ke [add_tail] ?rho ?k0) with
      (exec O Prop kr ke add_tail rho (fun rho' => if flowing rho' then k0 rho' else k0 rho')).
    rewrite (zfold_model l None). change (fold_left _ (map mitem l) None) with (add_zero (map mitem l)).
    destruct (add_zero (map mitem l)) as [t|].
    + rewrite exec_block_nil; cbv beta; rewrite flowing_zenv. rewrite ztail_some, flowing_zenv. cbn [agrees]. split; [reflexivity|]. destruct ph'; reflexivity.
    + rewrite exec_block_nil; cbv beta; rewrite flowing_zenv.
      match goal with |- exec O Prop ?kr ?ke _ _ ?k0 =>
        destruct (ztail_none Prop kr ke k0 neg ph') as (rho' & E) end.
      rewrite E. cbn [agrees raises]. destruct (ocall O ".render_value" _) eqn:E1; try reflexivity.
  - (* counter_value != 0 *)
    change add_else with [nth 0 add_else SPass; nth 1 add_else SPass; nth 2 add_else SPass; nth 3 add_else SPass;
                          SFor "%item" add_it aloop_body].
    rewrite exec_block_cons.
    change (exec O Prop ?kr ?ke (nth 0 add_else SPass) (base v neg VNone) ?k0) with
      (k0 (base v neg VNone ++ [("parts", VList [])])).
    cbv beta. change (flowing (base v neg VNone ++ [("parts", VList [])])) with false. cbv iota.
    rewrite exec_block_cons.
    destruct oadd as [l|] eqn:Ho; cbn [madd]; [|rewrite (s1_none _ _ _ _ _ _ Ho); left; reflexivity].
    rewrite (s1_step _ _ _ _ _ _ l Ho).
    unfold zlen. rewrite map_length. rewrite (Z.ltb_antisym 1).
    destruct (1 <=? Z.of_nat (List.length l))%Z; cbn [negb];
      [|cbn [agrees raises]; destruct (ocall O ".render_value" _) eqn:E1; try reflexivity].
    change (flowing (base v neg VNone ++ [("parts", VList [])])) with false. cbv iota.
    rewrite exec_block_cons.
    change (exec O Prop ?kr ?ke (nth 2 add_else SPass) (base v neg VNone ++ [("parts", VList [])]) ?k0) with
      (k0 (base v neg VNone ++ [("parts", VList [])] ++ [("remaining_value", vint v)])).
    cbv beta. change (flowing (base v neg VNone ++ [("parts", VList [])] ++ [("remaining_value", vint v)])) with false.
    cbv iota. rewrite exec_block_cons.
    change (exec O Prop ?kr ?ke (nth 3 add_else SPass)
              (base v neg VNone ++ [("parts", VList [])] ++ [("remaining_value", vint v)]) ?k0) with
      (k0 (aenv v neg VNone (inject_Z v) [] false A0)).
    cbv beta. rewrite flowing_aenv, exec_block_cons, exec_for, (add_it_step _ _ _ (aenv v neg VNone (inject_Z v) [] false A0) eq_refl).
    rewrite Ho. cbn [vadd].
    match goal with |- gen_iter (fun _ _ _ => exec_block O Prop ?kr ?ke _ _ _) _ _ ?k0 =>
      pose proof (aloop_run Prop kr ke k0 v neg l v (inject_Z v) [] A0 (Qeq_refl _)) as HL end.
    pose proof (add_loop_s_model l v []) as Hm. cbn [map] in Hm. rewrite Hm in HL. clear Hm.
    destruct (add_loop (map mitem l) v []) as [P|]; cbn [option_map] in HL.
    + destruct HL as (q' & a & b & c0 & d & E). refine (eq_ind_r (fun X : Prop => X) _ E). clear E.
      cbv beta.
      rewrite exec_block_nil; cbv beta; rewrite flowing_aenv.
      change (exec_block O Prop ?kr ?ke [add_tail] ?rho ?k0) with
        (exec O Prop kr ke add_tail rho (fun rho' => if flowing rho' then k0 rho' else k0 rho')).
      rewrite atail_some, flowing_aenv. cbn [agrees]. split; [reflexivity|].
      rewrite enc_join_parts. reflexivity.
    + destruct HL as (q' & ss' & ph' & E). refine (eq_ind_r (fun X : Prop => X) _ E). clear E.
      cbv beta.
      rewrite exec_block_nil; cbv beta; rewrite flowing_aenv.
      change (exec_block O Prop ?kr ?ke [add_tail] ?rho ?k0) with
        (exec O Prop kr ke add_tail rho (fun rho' => if flowing rho' then k0 rho' else k0 rho')).
      match goal with |- exec O Prop ?kr ?ke _ _ ?k0 =>
        destruct (atail_none Prop kr ke k0 v neg q' ss' false ph') as (rho' & E) end.
      rewrite E. cbn [agrees raises]. destruct (ocall O ".render_value" _) eqn:E1; try reflexivity.
Qed.
End Additive.
Print Assumptions gen_additive.
