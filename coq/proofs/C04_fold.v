(* C04: the break-value resolution of block_level_page_break / force_page_break / avoid_page_break, proved about
   the bodies regenerated from /repo, and its precedence properties for every list of values. *)
From Coq Require Import QArith List String Bool Lia.
Require Import WV.base.Py WV.gen.GenBlock WV.model.Frag2.
Import ListNotations.
Open Scope string_scope.
Open Scope list_scope.

Definition bname (b : brk) : string :=
  match b with
  | BAuto => "auto" | BAvoid => "avoid" | BAvoidPage => "avoid-page" | BAvoidColumn => "avoid-column"
  | BPage => "page" | BColumn => "column" | BLeft => "left" | BRight => "right" | BRecto => "recto" | BVerso => "verso"
  end.
Definition bval (b : brk) : val := VStr (bname b).

(* ---- the loop body of the source = fold_step of the model, for all 100 pairs of values ---- *)
Definition fold_env (vs : val) (r v : brk) : env := [("values", vs); ("result", bval r); ("value", bval v)].

Definition loop_body : list stmt :=
  match break_fold_body with
  | [_; SFor _ _ body; _] => body
  | _ => []
  end.

Lemma loop_body_step (A : Type) kret kerr vs (r v : brk) (k : env -> A) :
  exec_block real_ops A kret kerr loop_body (fold_env vs r v) k = k (fold_env vs (fold_step r v) v).
Proof. destruct r, v; reflexivity. Qed.

Lemma loop_body_first (A : Type) kret kerr vs (v : brk) (k : env -> A) :
  exec_block real_ops A kret kerr loop_body [("values", vs); ("result", bval BAuto); ("value", bval v)] k =
  k (fold_env vs (fold_step BAuto v) v).
Proof. apply loop_body_step. Qed.

Lemma last_default_irrelevant {T} (l : list T) x d1 d2 : last (x :: l) d1 = last (x :: l) d2.
Proof. revert x. induction l as [|y l IH]; intros x; [reflexivity|]. simpl in *. apply IH. Qed.

Lemma iter_fold (A : Type) kret kerr vs : forall (l : list brk) (r v0 : brk) (k : env -> A),
  gen_iter (fun v rho k' => exec_block real_ops A kret kerr loop_body (update "value" v rho) k')
           (map bval l) (fold_env vs r v0) k =
  k (fold_env vs (fold_left fold_step l r) (last l v0)).
Proof.
  induction l as [|v l IH]; intros r v0 k; [reflexivity|].
  cbn [map gen_iter]. change (update "value" (bval v) (fold_env vs r v0)) with (fold_env vs r v).
  rewrite loop_body_step, IH. destruct l as [|b l]; [reflexivity|].
  cbn [fold_left]. do 2 f_equal. simpl last at 2. apply last_default_irrelevant.
Qed.

Definition returns_val (x : val) (_ : env) (r : option val) : Prop := r = Some x.

(* the value fold of block_level_page_break, as it is in /repo now, on every list of break values *)
Theorem break_fold_is_fold_breaks (l : list brk) :
  run real_ops break_fold_body [("values", VList (map bval l))] (returns_val (bval (fold_breaks l))) (fun _ => False).
Proof.
  unfold run, fold_breaks.
  assert (Hshape : exists s1 x it s3, break_fold_body = [s1; SFor x it loop_body; s3]) by (do 4 eexists; reflexivity).
  destruct l as [|v l].
  - reflexivity.
  - (* first iteration creates the variable, then the environment has a fixed shape *)
    change (exec_block real_ops Prop (fun rho v0 => returns_val (bval (fold_left fold_step (v :: l) BAuto)) rho (Some v0))
              (fun _ => False) break_fold_body [("values", VList (map bval (v :: l)))]
              (fun rho => returns_val (bval (fold_left fold_step (v :: l) BAuto)) rho None))
      with (gen_iter (fun v1 rho k' => exec_block real_ops Prop
                        (fun rho v0 => returns_val (bval (fold_left fold_step (v :: l) BAuto)) rho (Some v0))
                        (fun _ => False) loop_body (update "value" v1 rho) k')
                     (map bval (v :: l))
                     [("values", VList (map bval (v :: l))); ("result", bval BAuto)]
                     (fun rho => if flowing rho then returns_val (bval (fold_left fold_step (v :: l) BAuto)) rho None
                                 else returns_val (bval (fold_left fold_step (v :: l) BAuto)) rho (Some (lookup "result" rho)))).
    cbn [map gen_iter].
    change (update "value" (bval v) [("values", VList (bval v :: map bval l)); ("result", bval BAuto)])
      with (fold_env (VList (bval v :: map bval l)) BAuto v).
    rewrite loop_body_step, iter_fold. reflexivity.
Qed.

(* force_page_break / avoid_page_break outside and inside columns *)
Definition ctx_val (in_column : bool) : val := VObj [("in_column", VBool in_column)].
Definition force_in_col (v : brk) : bool := force v || match v with BColumn => true | _ => false end.
Definition avoid_in_col (v : brk) : bool := avoid v || match v with BAvoidColumn => true | _ => false end.

Theorem force_page_break_spec (v : brk) (in_col : bool) :
  run real_ops force_page_break_body [("page_break", bval v); ("context", ctx_val in_col)]
      (returns_val (VBool (if in_col then force_in_col v else force v))) (fun _ => False).
Proof. destruct v, in_col; reflexivity. Qed.

Theorem avoid_page_break_spec (v : brk) (in_col : bool) :
  run real_ops avoid_page_break_body [("page_break", bval v); ("context", ctx_val in_col)]
      (returns_val (VBool (if in_col then avoid_in_col v else avoid v))) (fun _ => False).
Proof. destruct v, in_col; reflexivity. Qed.

(* ---- precedence: what the fold means ---- *)
Local Open Scope nat_scope.
(* rank: auto 0 < avoid* 1 < column 2 < page 3 < left/right/recto/verso 4 *)
Definition rank (v : brk) : nat :=
  match v with
  | BAuto => 0 | BAvoid | BAvoidPage | BAvoidColumn => 1 | BColumn => 2 | BPage => 3
  | BLeft | BRight | BRecto | BVerso => 4
  end.
Definition list_max (l : list nat) : nat := fold_right Nat.max 0 l.

Lemma fold_step_rank r v : rank (fold_step r v) = Nat.max (rank r) (rank v).
Proof. destruct r, v; reflexivity. Qed.

Lemma fold_left_rank : forall l r, rank (fold_left fold_step l r) = Nat.max (rank r) (list_max (map rank l)).
Proof.
  induction l as [|v l IH]; intros r; simpl.
  - now rewrite Nat.max_0_r.
  - rewrite IH, fold_step_rank. lia.
Qed.

(* the strongest value among all boxes meeting at the break point wins *)
Theorem fold_breaks_rank_is_max (l : list brk) : rank (fold_breaks l) = list_max (map rank l).
Proof. unfold fold_breaks. now rewrite fold_left_rank. Qed.

Lemma list_max_ge l x : In x l -> x <= list_max l.
Proof. induction l as [|a l IH]; simpl; [tauto|]. intros [->|H]; [lia|]. specialize (IH H). lia. Qed.

(* a forced page break among the values always forces (outside and inside columns) *)
Theorem forced_break_always_forces (l : list brk) v :
  In v l -> force v = true -> force (fold_breaks l) = true.
Proof.
  intros Hin Hf. pose proof (fold_breaks_rank_is_max l) as Hr.
  assert (3 <= rank v) by (destruct v; simpl in *; try discriminate; lia).
  assert (rank v <= list_max (map rank l)) by (apply list_max_ge, in_map, Hin).
  destruct (fold_breaks l); simpl in *; try reflexivity; lia.
Qed.

Lemma fold_left_keep_side : forall l acc, rank acc = 4 -> (forall x, In x l -> rank x < 4) ->
  fold_left fold_step l acc = acc.
Proof.
  induction l as [|b l IH]; intros acc Hacc Hl; [reflexivity|]. simpl.
  assert (H : fold_step acc b = acc).
  { assert (rank b < 4) by (apply Hl; now left). destruct acc, b; simpl in *; try lia; reflexivity. }
  rewrite H. apply IH; [exact Hacc|]. intros x Hx. apply Hl. now right.
Qed.

(* among left/right/recto/verso the last one in tree order wins *)
Lemma fold_left_side : forall l r, (exists v, In v l /\ rank v = 4) ->
  exists v, rank v = 4 /\ fold_left fold_step l r = v /\
            (exists l1 l2, l = l1 ++ v :: l2 /\ forall x, In x l2 -> rank x < 4).
Proof.
  induction l as [|a l IH]; intros r [v [Hin Hv]]; [contradiction|]. simpl.
  destruct (existsb (fun x => Nat.eqb (rank x) 4) l) eqn:E.
  - apply existsb_exists in E. destruct E as [x [Hx Hx4]]. apply Nat.eqb_eq in Hx4.
    destruct (IH (fold_step r a) (ex_intro _ x (conj Hx Hx4))) as (w & Hw & Hf & l1 & l2 & Hl & Hlt).
    exists w. repeat split; auto. exists (a :: l1), l2. split; [now rewrite Hl|exact Hlt].
  - assert (Hnone : forall x, In x l -> rank x < 4).
    { intros x Hx. destruct (Nat.eqb (rank x) 4) eqn:E4.
      - assert (existsb (fun x => Nat.eqb (rank x) 4) l = true) by (apply existsb_exists; eauto). congruence.
      - apply Nat.eqb_neq in E4. destruct x; simpl in *; lia. }
    assert (Ha : rank a = 4).
    { destruct Hin as [->|Hin]; [exact Hv|]. specialize (Hnone _ Hin). lia. }
    exists a. split; [exact Ha|]. split.
    + assert (Hfa : fold_step r a = a) by (destruct r, a; simpl in *; try discriminate; reflexivity).
      rewrite Hfa. apply fold_left_keep_side; [exact Ha|exact Hnone].
    + exists [], l. split; [reflexivity|exact Hnone].
Qed.

Theorem last_side_wins (l : list brk) :
  (exists v, In v l /\ rank v = 4) ->
  exists l1 v l2, l = l1 ++ v :: l2 /\ rank v = 4 /\ (forall x, In x l2 -> rank x < 4) /\ fold_breaks l = v.
Proof.
  intros H. destruct (fold_left_side l BAuto H) as (v & Hv & Hf & l1 & l2 & Hl & Hlt).
  exists l1, v, l2. repeat split; auto.
Qed.

(* avoid is honoured for both kinds: if no value forces a break and some value avoids page breaks, the result
   avoids page breaks *)
Lemma fold_left_avoid : forall l r, (forall x, In x l -> rank x <= 1) -> rank r <= 1 ->
  (avoid r = true \/ exists v, In v l /\ avoid v = true) -> avoid (fold_left fold_step l r) = true.
Proof.
  induction l as [|a l IH]; intros r Hl Hr H; simpl.
  - destruct H as [H|[v [[] _]]]. exact H.
  - apply IH.
    + intros x Hx. apply Hl. now right.
    + rewrite fold_step_rank. assert (rank a <= 1) by (apply Hl; now left). lia.
    + assert (Ha : rank a <= 1) by (apply Hl; now left).
      destruct H as [H|[v [[->|Hin] Hv]]].
      * left. destruct r, a; simpl in *; try discriminate; try lia; reflexivity.
      * left. destruct r, v; simpl in *; try discriminate; try lia; reflexivity.
      * right. eauto.
Qed.

Theorem avoid_honoured_for_both_kinds (l : list brk) v :
  (forall x, In x l -> rank x <= 1) -> In v l -> avoid v = true -> avoid (fold_breaks l) = true.
Proof. intros Hl Hin Hv. apply fold_left_avoid; auto. right. eauto. Qed.

Example fold_example : fold_breaks [BAvoidColumn; BAvoidPage; BColumn; BPage; BRight; BLeft; BAvoid] = BLeft.
Proof. reflexivity. Qed.
