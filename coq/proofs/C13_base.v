(* C13 - reflection lemmas and tactics shared by the C13 proofs. *)
From Coq Require Import QArith Qminmax Lqa List Bool.
Require Import WV.model.C13Replaced WV.model.C13Spec.
Open Scope Q_scope.

Lemma Qltb_true a b : Qltb a b = true <-> a < b.
Proof.
  unfold Qltb. rewrite negb_true_iff. split; intro H.
  - apply Qnot_le_lt. intro L. apply Qle_bool_iff in L. congruence.
  - destruct (Qle_bool b a) eqn:E; [|reflexivity]. apply Qle_bool_iff in E. lra.
Qed.
Lemma Qltb_false a b : Qltb a b = false <-> b <= a.
Proof.
  unfold Qltb. rewrite negb_false_iff. apply Qle_bool_iff.
Qed.
Lemma Qle_bool_false a b : Qle_bool a b = false <-> b < a.
Proof.
  split; intro H.
  - apply Qnot_le_lt. intro L. apply Qle_bool_iff in L. congruence.
  - destruct (Qle_bool a b) eqn:E; [|reflexivity]. apply Qle_bool_iff in E. lra.
Qed.
Lemma Qeq_bool_false a b : Qeq_bool a b = false <-> ~ a == b.
Proof.
  split; intro H.
  - intro E. apply Qeq_bool_iff in E. congruence.
  - destruct (Qeq_bool a b) eqn:E; [|reflexivity]. apply Qeq_bool_iff in E. contradiction.
Qed.

(* case split on every boolean comparison in the goal, turning it into a Prop hypothesis *)
Ltac breakb :=
  repeat match goal with
  | |- context [Qltb ?a ?b] =>
      let E := fresh "E" in destruct (Qltb a b) eqn:E; [apply Qltb_true in E | apply Qltb_false in E]
  | |- context [Qle_bool ?a ?b] =>
      let E := fresh "E" in destruct (Qle_bool a b) eqn:E; [apply Qle_bool_iff in E | apply Qle_bool_false in E]
  | |- context [Qeq_bool ?a ?b] =>
      let E := fresh "E" in destruct (Qeq_bool a b) eqn:E; [apply Qeq_bool_iff in E | apply Qeq_bool_false in E]
  | H : context [Qltb ?a ?b] |- _ =>
      let E := fresh "E" in destruct (Qltb a b) eqn:E; [apply Qltb_true in E | apply Qltb_false in E]
  | H : context [Qle_bool ?a ?b] |- _ =>
      let E := fresh "E" in destruct (Qle_bool a b) eqn:E; [apply Qle_bool_iff in E | apply Qle_bool_false in E]
  | H : context [Qeq_bool ?a ?b] |- _ =>
      let E := fresh "E" in destruct (Qeq_bool a b) eqn:E; [apply Qeq_bool_iff in E | apply Qeq_bool_false in E]
  end.

Lemma qdiv_nz a b : ~ b == 0 -> qdiv a b = Some (a / b).
Proof. intro H. unfold qdiv. apply Qeq_bool_false in H. now rewrite H. Qed.
Lemma qdiv_pos a b : 0 < b -> qdiv a b = Some (a / b).
Proof. intro H. apply qdiv_nz. lra. Qed.

Lemma Qdiv_mult_r a b : ~ b == 0 -> a / b * b == a.
Proof. intro H. field. exact H. Qed.
Lemma Qdiv_le_pos a b c : 0 < c -> (a / c <= b <-> a <= b * c).
Proof.
  intro H. split; intro L.
  - setoid_replace a with (a / c * c) by (field; lra). apply Qmult_le_compat_r; lra.
  - apply Qle_shift_div_r; assumption.
Qed.
Lemma Qle_div_pos a b c : 0 < c -> (b <= a / c <-> b * c <= a).
Proof.
  intro H. split; intro L.
  - setoid_replace a with (a / c * c) by (field; lra). apply Qmult_le_compat_r; lra.
  - apply Qle_shift_div_l; assumption.
Qed.
Lemma Qdiv_lt_pos a b c : 0 < c -> (a / c < b <-> a < b * c).
Proof.
  intro H. split; intro L.
  - apply Qnot_le_lt. intro L2. apply (Qle_div_pos a b c H) in L2. lra.
  - apply Qnot_le_lt. intro L2. apply (Qle_div_pos a b c H) in L2. lra.
Qed.
Lemma Qlt_div_pos a b c : 0 < c -> (b < a / c <-> b * c < a).
Proof.
  intro H. split; intro L.
  - apply Qnot_le_lt. intro L2. apply (Qdiv_le_pos a b c H) in L2. lra.
  - apply Qnot_le_lt. intro L2. apply (Qdiv_le_pos a b c H) in L2. lra.
Qed.

Lemma Qmax_case_le a b : (a <= b /\ Qmax a b == b) \/ (b <= a /\ Qmax a b == a).
Proof.
  destruct (Qlt_le_dec a b) as [H|H].
  - left. split; [lra|]. apply Q.max_r. lra.
  - right. split; [lra|]. apply Q.max_l. lra.
Qed.
Lemma Qmin_case_le a b : (a <= b /\ Qmin a b == a) \/ (b <= a /\ Qmin a b == b).
Proof.
  destruct (Qlt_le_dec a b) as [H|H].
  - left. split; [lra|]. apply Q.min_l. lra.
  - right. split; [lra|]. apply Q.min_r. lra.
Qed.

(* replace every Qmax / Qmin (goal and hypotheses) by a fresh variable with its defining inequalities *)
Ltac mm_max a b :=
  let m := fresh "m" in let Hm := fresh "Hm" in let Hq := fresh "Hq" in
  destruct (Qmax_case_le a b) as [[? Hm]|[? Hm]]; remember (Qmax a b) as m eqn:Hq; clear Hq.
Ltac mm_min a b :=
  let m := fresh "m" in let Hm := fresh "Hm" in let Hq := fresh "Hq" in
  destruct (Qmin_case_le a b) as [[? Hm]|[? Hm]]; remember (Qmin a b) as m eqn:Hq; clear Hq.
Ltac minmax :=
  repeat match goal with
  | |- context [Qmax ?a ?b] => mm_max a b
  | |- context [Qmin ?a ?b] => mm_min a b
  | H : context [Qmax ?a ?b] |- _ => mm_max a b
  | H : context [Qmin ?a ?b] |- _ => mm_min a b
  end.
