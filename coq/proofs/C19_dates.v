(* C19 - proofs about the dates written into a PDF (model/C19Dates.v): the clock is an input of the model and, with
   SOURCE_DATE_EPOCH set, no output depends on it. *)
From Coq Require Import ZArith List Bool Lia.
Require Import WV.model.C19Dates.
Import ListNotations.
Local Open Scope Z_scope.

(* ---- with the variable set, `now_date` never looks at the clock: for EVERY value, 0 included ---- *)
Lemma now_ignores_the_clock (e t1 t2 : Z) : now_date (Some e) t1 = now_date (Some e) t2.
Proof. reflexivity. Qed.

Lemma attachment_dates_ignore_the_clock (e t1 t2 : Z) (a : attachment) :
  attachment_dates (Some e) t1 a = attachment_dates (Some e) t2 a.
Proof. reflexivity. Qed.

Lemma attachments_dates_ignore_the_clock (e : Z) (c1 c2 : nat -> Z) (l : list attachment) :
  forall k1 k2, attachments_dates (Some e) c1 k1 l = attachments_dates (Some e) c2 k2 l.
Proof.
  induction l as [|a r IH]; intros k1 k2; simpl; [reflexivity|].
  rewrite (IH (S k1) (S k2)). reflexivity.
Qed.

Lemma font_dates_ignore_the_clock (e : Z) (c1 c2 : nat -> Z) (n : nat) (l : list font) :
  forall s,
  map (fun kf => font_date (Some e) (c1 (n + fst kf)%nat) (snd kf)) (combine (seq s (length l)) l) =
  map (fun kf => font_date (Some e) (c2 (n + fst kf)%nat) (snd kf)) (combine (seq s (length l)) l).
Proof.
  induction l as [|f r IH]; intros s; simpl; [reflexivity|].
  rewrite (IH (S s)). unfold font_date. simpl. reflexivity.
Qed.

(* dates_ignore_the_clock: the written dates are a function of (document, environment) only *)
Theorem dates_ignore_the_clock (e : Z) (c1 c2 : nat -> Z) (d : dated) :
  write (Some e) c1 d = write (Some e) c2 d.
Proof.
  unfold write. rewrite (attachments_dates_ignore_the_clock e c1 c2 (d_attachments d) 0%nat 0%nat).
  rewrite (font_dates_ignore_the_clock e c1 c2 (length (d_attachments d)) (d_font_programs d) 0%nat). reflexivity.
Qed.

(* ---- the dates the dated does not give are the epoch ---- *)
Lemma attachment_dates_ok (e t : Z) (a : attachment) : date_ok e a (attachment_dates (Some e) t a) = true.
Proof.
  unfold date_ok, attachment_dates, now_date. simpl.
  destruct (a_created a), (a_modified a), (from_file (a_source a)); simpl; rewrite ?Z.eqb_refl; reflexivity.
Qed.

Lemma attachments_dates_ok (e : Z) (c : nat -> Z) (l : list attachment) :
  forall k, Forall2 (fun a w => date_ok e a w = true) l (attachments_dates (Some e) c k l).
Proof.
  induction l as [|a r IH]; intros k; simpl; constructor.
  - apply attachment_dates_ok.
  - apply IH.
Qed.

Theorem default_dates_are_the_epoch (e : Z) (c : nat -> Z) (d : dated) :
  w_info (write (Some e) c d) = (d_created d, d_modified d) /\
  Forall2 (fun a w => date_ok e a w = true) (d_attachments d) (w_files (write (Some e) c d)) /\
  Forall (fun w => font_ok e (map f_file_modified (d_font_programs d)) w = true) (w_fonts (write (Some e) c d)).
Proof.
  split; [reflexivity|]. split; [apply attachments_dates_ok|].
  unfold write. simpl.
  apply Forall_forall. intros w Hin. apply in_map_iff in Hin. destruct Hin as [[k f] [Hw Hin]].
  apply in_combine_r in Hin. subst w. unfold font_ok, font_date, now_date. simpl.
  destruct (f_saved f).
  - rewrite Z.eqb_refl. reflexivity.
  - apply orb_true_iff. right. apply existsb_exists. exists (f_file_modified f). split.
    + apply in_map. exact Hin.
    + apply Z.eqb_refl.
Qed.

(* what date_ok says, spelled out: a date that is not given and does not come from a file is exactly e *)
Lemma date_ok_default (e : Z) (a : attachment) (w : Z * Z) :
  date_ok e a w = true -> from_file (a_source a) = false ->
  (a_created a = None -> fst w = e) /\ (a_modified a = None -> snd w = e) /\
  (forall x, a_created a = Some x -> fst w = x) /\ (forall x, a_modified a = Some x -> snd w = x).
Proof.
  unfold date_ok. intros H F. rewrite F in H. apply andb_true_iff in H. destruct H as [H1 H2].
  repeat split.
  - intros N. rewrite N in H1. simpl in H1. apply Z.eqb_eq. exact H1.
  - intros N. rewrite N in H2. simpl in H2. apply Z.eqb_eq. exact H2.
  - intros x N. rewrite N in H1. apply Z.eqb_eq. exact H1.
  - intros x N. rewrite N in H2. apply Z.eqb_eq. exact H2.
Qed.

(* ---- without the variable the clock is written: the property demands nothing there, the correspondence does ---- *)
Theorem unset_epoch_writes_the_clock (t : Z) (a : attachment) :
  a_created a = None -> a_modified a = None -> from_file (a_source a) = false ->
  attachment_dates None t a = (t, t).
Proof.
  intros C M F. unfold attachment_dates, now_date. rewrite C, M, F. reflexivity.
Qed.

(* ---- the truthiness variant: equal to the code for every non-zero value, and wrong at 0 ---- *)
Theorem truthy_variant_agrees_off_zero (e : Z) (c : nat -> Z) (l : list attachment) :
  e <> 0 -> forall k, attachments_dates_truthy (Some e) c k l = attachments_dates (Some e) c k l.
Proof.
  intros NZ. induction l as [|a r IH]; intros k; simpl; [reflexivity|].
  rewrite IH. unfold attachment_dates_truthy, attachment_dates, now_truthy, now_date.
  destruct (Z.eqb_spec e 0) as [E|_]; [contradiction|]. reflexivity.
Qed.

(* <link rel=attachment href=...>: a URL, no dates given *)
Definition linked : attachment := amk Url None None 0 0.

Theorem truthy_variant_refuted :
  attachments_dates_truthy (Some 0) (fun _ => 1000) 0 [linked] = [(1000, 1000)] /\
  attachments_dates_truthy (Some 0) (fun _ => 1001) 0 [linked] = [(1001, 1001)] /\
  attachments_dates (Some 0) (fun _ => 1000) 0 [linked] = [(0, 0)] /\
  attachments_dates (Some 0) (fun _ => 1001) 0 [linked] = [(0, 0)] /\
  date_ok 0 linked (1000, 1000) = false.
Proof. repeat split. Qed.

(* ---- the judge is sound for its bit 1: mask 0 on a case of an epoch e means every listed date obeys the spec ---- *)
Theorem date_judge_sound e t meta infos files font_files fonts others :
  date_judge (Some e, t, meta, infos, files, font_files, fonts, others) = 0%nat ->
  Forall (fun aw => date_ok e (fst aw) (snd aw) = true) files /\
  Forall (fun w => font_ok e font_files w = true) fonts /\
  Forall (fun w => w = e) others /\
  Forall (fun i => oz_eqb (fst i) (fst meta) = true /\ oz_eqb (snd i) (snd meta) = true) infos.
Proof.
  unfold date_judge. intros H.
  match type of H with ((if ?s then _ else _) + (if ?p then _ else _))%nat = _ =>
    destruct s eqn:S; destruct p eqn:P; try discriminate end.
  clear H S. repeat (apply andb_true_iff in P; destruct P as [P ?]).
  repeat split.
  - apply Forall_forall. intros x Hx. eapply forallb_forall in H1; eauto.
  - apply Forall_forall. intros x Hx. eapply forallb_forall in H0; eauto.
  - apply Forall_forall. intros x Hx. eapply forallb_forall in H; eauto. apply Z.eqb_eq in H. auto.
  - apply Forall_forall. intros x Hx. eapply forallb_forall in P; eauto. simpl in P.
    apply andb_true_iff in P. exact P.
Qed.

(* examples: a dated with every kind of attachment under epoch 0 and two clocks *)
Definition sample : dated :=
  dated_mk (Some 1577836800) None
      [linked; amk Guess None None 0 0; amk Filename None None 111 222; amk Str (Some 5) None 0 0; amk FileObj None (Some 7) 0 0]
      [fmk true 999; fmk false 1234].

Example sample_written :
  write (Some 0) (fun k => 1000 + Z.of_nat k) sample =
    wmk (Some 1577836800, None) [(0, 0); (0, 0); (111, 222); (5, 0); (0, 7)] [0; 1234] /\
  write None (fun k => 1000 + Z.of_nat k) sample =
    wmk (Some 1577836800, None) [(1000, 1000); (1001, 1001); (111, 222); (5, 1003); (1004, 7)] [1005; 1234] /\
  date_judge (Some 0, 1000, (Some 1577836800, None), [(Some 1577836800, None)],
              [(linked, (0, 0)); (amk Filename None None 111 222, (111, 222)); (amk Str (Some 5) None 0 0, (5, 0))],
              [1234], [0; 1234], []) = 0%nat /\
  date_judge (Some 0, 1000, (None, None), [], [(linked, (1000, 1000))], [], [], []) = 3%nat /\
  date_judge (None, 1000, (None, None), [], [(linked, (1000, 1000))], [], [1000], []) = 0%nat.
Proof. repeat split. Qed.
