(* C12 - flex_layout step 6 (css-flexbox 9.7) as REGENERATED from weasyprint/layout/flex.py on every run
   (gen/GenFlexResolve.v): each slice, run by the interpreter of base/Py.v on ANY flex line (any number of items,
   any attribute values), ends normally and leaves exactly the values of the source-order functions of
   proofs/C12_gen_flex_base.v (inflex1, fs_from, rem_src, dist_src, clamp_src, freeze_src, mode_src).  The local
   variables of a slice are listed in its environment with arbitrary values (they are written before they are
   read; "not bound yet" is the error value an unbound name reads as, one of these values: proofs/C10_gen_env.v).
   Technique: one lemma per loop body on a concrete environment shape ([lazy] with the arithmetic left opaque),
   induction on the line for the loop, statements stepped with the block kept opaque. *)
From Coq Require Import QArith Qminmax List String Bool ZArith.
Require Import WV.base.Py WV.gen.GenFlexResolve.
Require Import WV.proofs.C12_gen_flex_base.
Import ListNotations.
Open Scope string_scope.
Open Scope list_scope.

Section Run.
Variable O : qops.
Hypothesis HO : ops_ok O.
Definition mode_name (grow : bool) : string := if grow then "grow" else "shrink".
Ltac unseal :=
  rewrite ?(qadd_eq _ HO), ?(qsub_eq _ HO), ?(qmul_eq _ HO), ?(qdiv_eq _ HO), ?(qmax_eq _ HO), ?(qmin_eq _ HO),
          ?(qleb_eq _ HO), ?(qeqb_eq _ HO) in *.
Ltac ev := lazy -[qadd qsub qmul qdiv qmax qmin qleb qeqb ocall Qplus Qminus Qmult Qdiv Qmax Qmin Qle_bool Qeq_bool Qopp
                  List.app map List.length Z.of_nat inject_Z gen_iter gen_collect sum_vals enum_from].
Ltac splitq :=
  repeat match goal with |- context [Qeq_bool ?a ?b] => destruct (Qeq_bool a b) eqn:? end;
  repeat match goal with |- context [Qle_bool ?a ?b] => destruct (Qle_bool a b) eqn:? end.

(* what a run of a slice must do: fall through its end (no return, no exception) with an environment of which
   [P] holds *)
Definition ends (P : env -> Prop) (rho : env) (r : option val) : Prop := r = None /\ P rho.

Lemma exec_block_cons A kret kerr s l rho (k : env -> A) :
  exec_block O A kret kerr (s :: l) rho k =
  exec O A kret kerr s rho (fun rho' => if flowing rho' then k rho' else exec_block O A kret kerr l rho' k).
Proof. reflexivity. Qed.
Lemma exec_for A kret kerr x it body rho (k : env -> A) l :
  eval O A kerr rho it = (fun kk => kk (VList l)) ->
  exec O A kret kerr (SFor x it body) rho k
  = gen_iter (fun v rho k' => exec_block O A kret kerr body (update x v rho) k') l rho k.
Proof. intros H. cbn [exec]. rewrite H. reflexivity. Qed.
Ltac evb := lazy -[qadd qsub qmul qdiv qmax qmin qleb qeqb ocall Qplus Qminus Qmult Qdiv Qmax Qmin Qle_bool Qeq_bool Qopp
                  map List.length Z.of_nat inject_Z gen_iter gen_collect sum_vals enum_from exec_block vpair vchild vline mode_name
                  rd0 rd rda inflex1 fs_from rem_from rem_src dist0 sums1 dist1_src dist_src clamp_src freeze_src
                  ssum_src gsum_src adj_sum hyp_sum mode_src zQ].
Ltac step := rewrite exec_block_cons; evb.

(* ---- 9.7.3 *)
Definition infl_loop : list stmt :=
  match flex_inflexible_body with [_; SFor _ _ body; _] => body | _ => [] end.
Definition Einfl (line : val) (grow : bool) (new item idx child fc : val) : env :=
  [("line", line); ("flex_factor_type", VStr (mode_name grow)); ("%new", new); ("%item", item); ("index", idx);
   ("child", child); ("flex_condition", fc)].

Lemma infl_step (A : Type) kret kerr line grow acc item idx child fc c (k : env -> A) :
  exec_block O A kret kerr infl_loop (update "%item" (vpair c) (Einfl line grow (VList acc) item idx child fc)) k =
  k (Einfl line grow (VList (acc ++ [vpair (inflex1 grow c)])) (vpair c) (k_idx c) (vchild (inflex1 grow c))
       (VBool (if grow then negb (Qle_bool (k_base c) (k_hyp c)) else negb (Qle_bool (k_hyp c) (k_base c))))).
Proof.
  destruct c as [cidx sty rest g sh hyp base extra mnw mxw mnh mxh ff fr tg adj ssf]. destruct grow; unfold inflex1; cbn [k_g k_sh k_hyp k_base k_idx];
  unfold infl_loop, flex_inflexible_body, Einfl, vpair, vchild, mode_name; ev; unseal; splitq; ev; reflexivity.
Qed.

Lemma infl_loop_spec (A : Type) kret kerr line grow : forall l acc item idx child fc (k : env -> A),
  exists item' idx' child' fc',
  gen_iter (fun v rho k' => exec_block O A kret kerr infl_loop (update "%item" v rho) k')
           (map vpair l) (Einfl line grow (VList acc) item idx child fc) k =
  k (Einfl line grow (VList (acc ++ map vpair (map (inflex1 grow) l))) item' idx' child' fc').
Proof.
  induction l as [|c l IH]; intros acc item idx child fc k.
  - exists item, idx, child, fc. cbn [map gen_iter]. rewrite app_nil_r. reflexivity.
  - cbn [map gen_iter]. rewrite infl_step.
    destruct (IH (acc ++ [vpair (inflex1 grow c)]) (vpair c) (k_idx c) (vchild (inflex1 grow c))
                 (VBool (if grow then negb (Qle_bool (k_base c) (k_hyp c)) else negb (Qle_bool (k_hyp c) (k_base c)))) k)
      as (i' & j' & c' & f' & E).
    exists i', j', c', f'. rewrite E. rewrite <- app_assoc. reflexivity.
Qed.

Lemma infl_wp (A : Type) kret kerr grow l new item idx child fc (k : env -> A) :
  exists new' item' idx' child' fc',
  exec_block O A kret kerr flex_inflexible_body (Einfl (vline l) grow new item idx child fc) k =
  k (Einfl (vline (map (inflex1 grow) l)) grow new' item' idx' child' fc').
Proof.
  unfold flex_inflexible_body, Einfl.
  step. rewrite exec_block_cons. erewrite exec_for by reflexivity.
  destruct (infl_loop_spec A kret kerr (vline l) grow l [] item idx child fc
     (fun rho' => if flowing rho' then k rho'
                  else exec_block O A kret kerr [SAssign [TVar "line"] (EVar "%new")] rho' k)) as (i' & j' & c' & f' & E).
  unfold Einfl, infl_loop, flex_inflexible_body in E. unfold vline in E at 2. rewrite E. clear E.
  step. exists (VList (map vpair (map (inflex1 grow) l))), i', j', c', f'. reflexivity.
Qed.

Theorem run_flex_inflexible grow l new item idx child fc :
  run O flex_inflexible_body (Einfl (vline l) grow new item idx child fc)
    (ends (fun rho => lookup "line" rho = vline (map (inflex1 grow) l))) (fun _ => False).
Proof.
  unfold run.
  destruct (infl_wp Prop (fun rho v => ends (fun rho => lookup "line" rho = vline (map (inflex1 grow) l)) rho (Some v))
              (fun _ => False) grow l new item idx child fc
              (fun rho => ends (fun rho => lookup "line" rho = vline (map (inflex1 grow) l)) rho None))
    as (n' & i' & j' & c' & f' & E).
  rewrite E. split; reflexivity.
Qed.

(* ---- 9.7.4 *)
Definition fs_loop : list stmt :=
  match flex_initial_free_space_body with [_; SFor _ _ body] => body | _ => [] end.
Definition Efs (line gap avail ifs item i item1 idx child : val) : env :=
  [("line", line); ("main_gap", gap); ("available_main_space", avail); ("initial_free_space", ifs);
   ("%item", item); ("i", i); ("%item1", item1); ("index", idx); ("child", child)].

Lemma fs_step (A : Type) kret kerr line gap avail acc item i item1 idx child z r (k : env -> A) :
  exec_block O A kret kerr fs_loop
    (update "%item" (VList [vint z; vpair (rd0 r)]) (Efs line (VNum gap) avail (VNum acc) item i item1 idx child)) k =
  k (Efs line (VNum gap) avail
       (VNum (let a := (acc - (used r + r_extra r))%Q in if Qeq_bool (zQ z) 0 then a else (a - gap)%Q))
       (VList [vint z; vpair (rd0 r)]) (vint z) (vpair (rd0 r)) (k_idx (r_c r)) (vchild (rd0 r))).
Proof.
  destruct r as [c b t f a]. destruct c as [cidx sty rest g sh hyp base extra mnw mxw mnh mxh ff fr tg adj ssf].
  destruct b; unfold fs_loop, flex_initial_free_space_body, Efs, vpair, vchild, rd0, used, r_extra, r_base, vint, zQ;
    cbn [r_c r_b r_t r_f k_idx k_base k_extra set_fr set_ff set_tg k_style k_rest k_g k_sh k_hyp k_mnw k_mxw k_mnh k_mxh
         k_ff k_fr k_tg k_adj k_ssf];
    ev; unseal; splitq; ev; reflexivity.
Qed.

Lemma fs_loop_spec (A : Type) kret kerr line gap avail : forall l z acc item i item1 idx child (k : env -> A),
  exists item' i' item1' idx' child',
  gen_iter (fun v rho k' => exec_block O A kret kerr fs_loop (update "%item" v rho) k')
           (enum_from z (map vpair (map rd0 l))) (Efs line (VNum gap) avail (VNum acc) item i item1 idx child) k =
  k (Efs line (VNum gap) avail (VNum (fs_from gap z acc l)) item' i' item1' idx' child').
Proof.
  induction l as [|r l IH]; intros z acc item i item1 idx child k.
  - exists item, i, item1, idx, child. reflexivity.
  - cbn [map enum_from gen_iter fs_from]. rewrite fs_step. apply IH.
Qed.

Lemma fs_wp (A : Type) kret kerr gap avail l ifs item i item1 idx child (k : env -> A) :
  exists item' i' item1' idx' child',
  exec_block O A kret kerr flex_initial_free_space_body
    (Efs (vline (map rd0 l)) (VNum gap) (VNum avail) ifs item i item1 idx child) k =
  k (Efs (vline (map rd0 l)) (VNum gap) (VNum avail) (VNum (fs_from gap 0 avail l)) item' i' item1' idx' child').
Proof.
  unfold flex_initial_free_space_body, Efs.
  step. rewrite exec_block_cons. rewrite exec_for with (l := enum_from 0 (map vpair (map rd0 l))) by reflexivity.
  destruct (fs_loop_spec A kret kerr (vline (map rd0 l)) gap (VNum avail) l 0%Z avail item i item1 idx child
     (fun rho' => if flowing rho' then k rho' else exec_block O A kret kerr [] rho' k)) as (i' & j' & c' & f' & g' & E).
  unfold Efs, fs_loop, flex_initial_free_space_body in E. rewrite E. clear E.
  exists i', j', c', f', g'. reflexivity.
Qed.

(* ---- 9.7.5.b *)
Definition rem_loop : list stmt :=
  match flex_remaining_body with [_; _; SFor _ _ body; _; _; _] => body | _ => [] end.
Definition Erem (line gap avail init0 inf sys ufs rem item i item1 idx child scaled : val) : env :=
  [("line", line); ("main_gap", gap); ("available_main_space", avail); ("initial_free_space", init0);
   ("inf", inf); ("sys", sys); ("unfrozen_factor_sum", ufs); ("remaining_free_space", rem);
   ("%item", item); ("i", i); ("%item1", item1); ("index", idx); ("child", child); ("scaled_free_space", scaled)].

Lemma rem_step (A : Type) kret kerr line gap avail init0 inf sys u acc item i item1 idx child scaled z r (k : env -> A) :
  exec_block O A kret kerr rem_loop
    (update "%item" (VList [vint z; vpair (rd0 r)])
       (Erem line (VNum gap) avail init0 inf sys (VNum u) (VNum acc) item i item1 idx child scaled)) k =
  k (Erem line (VNum gap) avail init0 inf sys
       (VNum (if r_b r then u else (u + r_f r)%Q))
       (VNum (let a := (acc - (used r + r_extra r))%Q in if Qeq_bool (zQ z) 0 then a else (a - gap)%Q))
       (VList [vint z; vpair (rd0 r)]) (vint z) (vpair (rd0 r)) (k_idx (r_c r)) (vchild (rd0 r)) scaled).
Proof.
  destruct r as [c b t f a]. destruct c as [cidx sty rest g sh hyp base extra mnw mxw mnh mxh ff fr tg adj ssf].
  destruct b; unfold rem_loop, flex_remaining_body, Erem, vpair, vchild, rd0, used, r_extra, r_base, vint, zQ;
    cbn [r_c r_b r_t r_f k_idx k_base k_extra set_fr set_ff set_tg k_style k_rest k_g k_sh k_hyp k_mnw k_mxw k_mnh k_mxh
         k_ff k_fr k_tg k_adj k_ssf];
    ev; unseal; splitq; ev; reflexivity.
Qed.

Lemma rem_loop_spec (A : Type) kret kerr line gap avail init0 inf sys scaled :
  forall l z u acc item i item1 idx child (k : env -> A),
  exists item' i' item1' idx' child',
  gen_iter (fun v rho k' => exec_block O A kret kerr rem_loop (update "%item" v rho) k')
           (enum_from z (map vpair (map rd0 l)))
           (Erem line (VNum gap) avail init0 inf sys (VNum u) (VNum acc) item i item1 idx child scaled) k =
  k (Erem line (VNum gap) avail init0 inf sys (VNum (snd (rem_from gap z acc u l))) (VNum (fst (rem_from gap z acc u l)))
       item' i' item1' idx' child' scaled).
Proof.
  induction l as [|r l IH]; intros z u acc item i item1 idx child k.
  - exists item, i, item1, idx, child. reflexivity.
  - cbn [map enum_from gen_iter rem_from]. rewrite rem_step. apply IH.
Qed.

Lemma rem_wp (A : Type) kret kerr gap avail init0 infs sys l ufs rem item i item1 idx child scaled (k : env -> A) :
  exists ufs' item' i' item1' idx' child' scaled',
  exec_block O A kret kerr flex_remaining_body
    (Erem (vline (map rd0 l)) (VNum gap) (VNum avail) (VNum init0) (VStr infs) sys ufs rem item i item1 idx child scaled) k =
  k (Erem (vline (map rd0 l)) (VNum gap) (VNum avail) (VNum init0) (VStr infs) sys ufs'
       (VNum (rem_src gap avail init0 l)) item' i' item1' idx' child' scaled').
Proof.
  unfold flex_remaining_body, Erem.
  step. step. rewrite exec_block_cons. rewrite exec_for with (l := enum_from 0 (map vpair (map rd0 l))) by reflexivity.
  destruct (rem_loop_spec A kret kerr (vline (map rd0 l)) gap (VNum avail) (VNum init0) (VStr infs) sys scaled l 0%Z 0%Q avail
     item i item1 idx child
     (fun rho' => if flowing rho' then k rho' else exec_block O A kret kerr
        (match flex_remaining_body with [_; _; _; a; b; c] => [a; b; c] | _ => [] end) rho' k))
    as (i' & j' & c' & f' & g' & E).
  unfold Erem, rem_loop, flex_remaining_body in E. rewrite E. clear E.
  unfold rem_src. destruct (rem_from gap 0 avail 0 l) as [rm u]. cbn [fst snd].
  step. step. rewrite exec_block_cons. evb. unseal. unfold qabs.
  destruct (Qle_bool 1 u); [evb; eexists _, _, _, _, _, _, _; reflexivity|].
  destruct (Qle_bool (if Qle_bool 0 rm then rm else - rm) _); evb; eexists _, _, _, _, _, _, _; reflexivity.
Qed.

(* ---- 9.7.5.d (main = 'width' and main = 'height') *)
Ltac ev2 := lazy -[qadd qsub qmul qdiv qmax qmin qleb qeqb ocall Qplus Qminus Qmult Qdiv Qmax Qmin Qle_bool Qeq_bool Qopp
                   map List.length Z.of_nat inject_Z].
Definition clamp_body (wide : bool) : list stmt := if wide then flex_clamp_width_body else flex_clamp_height_body.
Definition clamp_loop (wide : bool) : list stmt :=
  match clamp_body wide with [_; SFor _ _ body; _] => body | _ => [] end.
Definition Ecl (line new item idx child mn mx cl : val) : env :=
  [("line", line); ("%new", new); ("%item", item); ("index", idx); ("child", child); ("min_size", mn);
   ("max_size", mx); ("clamped_size", cl)].

Lemma clamp_step (A : Type) kret kerr wide line acc item idx child mn mx cl r :
  exists mn' mx' cl', forall (k : env -> A),
  exec_block O A kret kerr (clamp_loop wide) (update "%item" (vpair (rd r)) (Ecl line (VList acc) item idx child mn mx cl)) k =
  k (Ecl line (VList (acc ++ [vpair (rda (clamp_src wide r))])) (vpair (rd r)) (k_idx (r_c r))
       (vchild (rda (clamp_src wide r))) mn' mx' cl').
Proof.
  destruct r as [c b t f a]. destruct c as [cidx sty rest g sh hyp base extra mnw mxw mnh mxh ff fr tg adj ssf].
  destruct b, wide; unfold clamp_loop, clamp_body, flex_clamp_width_body, flex_clamp_height_body, Ecl, vpair, vchild,
      rda, rd, clamp_src, with_a, with_t;
    cbn [r_c r_b r_t r_f r_a k_idx k_base k_extra set_fr set_ff set_tg set_adj k_style k_rest k_g k_sh k_hyp k_mnw k_mxw
         k_mnh k_mxh k_ff k_fr k_tg k_adj k_ssf];
    eexists _, _, _; intros k; ev2; unseal; reflexivity.
Qed.

Lemma clamp_loop_spec (A : Type) kret kerr wide line : forall l acc item idx child mn mx cl (k : env -> A),
  exists item' idx' child' mn' mx' cl',
  gen_iter (fun v rho k' => exec_block O A kret kerr (clamp_loop wide) (update "%item" v rho) k')
           (map vpair (map rd l)) (Ecl line (VList acc) item idx child mn mx cl) k =
  k (Ecl line (VList (acc ++ map vpair (map rda (map (clamp_src wide) l)))) item' idx' child' mn' mx' cl').
Proof.
  induction l as [|r l IH]; intros acc item idx child mn mx cl k.
  - exists item, idx, child, mn, mx, cl. cbn [map gen_iter]. rewrite app_nil_r. reflexivity.
  - cbn [map gen_iter].
    destruct (clamp_step A kret kerr wide line acc item idx child mn mx cl r) as (a1 & a2 & a3 & E).
    rewrite E. clear E.
    destruct (IH (acc ++ [vpair (rda (clamp_src wide r))]) (vpair (rd r)) (k_idx (r_c r))
                 (vchild (rda (clamp_src wide r))) a1 a2 a3 k) as (b1 & b2 & b3 & b4 & b5 & b6 & E).
    exists b1, b2, b3, b4, b5, b6. rewrite E. rewrite <- app_assoc. reflexivity.
Qed.

Lemma clamp_wp (A : Type) kret kerr wide l new item idx child mn mx cl (k : env -> A) :
  exists new' item' idx' child' mn' mx' cl',
  exec_block O A kret kerr (clamp_body wide) (Ecl (vline (map rd l)) new item idx child mn mx cl) k =
  k (Ecl (vline (map rda (map (clamp_src wide) l))) new' item' idx' child' mn' mx' cl').
Proof.
  destruct (clamp_loop_spec A kret kerr wide (vline (map rd l)) l [] item idx child mn mx cl
     (fun rho' => if flowing rho' then k rho'
                  else exec_block O A kret kerr [SAssign [TVar "line"] (EVar "%new")] rho' k)) as (b1 & b2 & b3 & b4 & b5 & b6 & E).
  destruct wide; unfold clamp_body, flex_clamp_width_body, flex_clamp_height_body, Ecl;
    (step; rewrite exec_block_cons; rewrite exec_for with (l := map vpair (map rd l)) by reflexivity;
     unfold Ecl, clamp_loop, clamp_body, flex_clamp_width_body, flex_clamp_height_body in E; rewrite E; clear E;
     step; eexists _, _, _, _, _, _, _; reflexivity).
Qed.

(* ---- 9.7.5.e *)
Definition fr_loop : list stmt :=
  match flex_freeze_body with [_; _; SFor _ _ body; _] => body | _ => [] end.
Definition Efr (line adjs new item idx child : val) : env :=
  [("line", line); ("adjustments", adjs); ("%new", new); ("%item", item); ("index", idx); ("child", child)].

Lemma fr_step (A : Type) kret kerr line tot acc item idx child r (k : env -> A) :
  exec_block O A kret kerr fr_loop (update "%item" (vpair (rda r)) (Efr line (VNum tot) (VList acc) item idx child)) k =
  k (Efr line (VNum tot) (VList (acc ++ [vpair (rda (freeze_src tot r))])) (vpair (rda r)) (k_idx (r_c r))
       (vchild (rda (freeze_src tot r)))).
Proof.
  destruct r as [c b t f a]. destruct c as [cidx sty rest g sh hyp base extra mnw mxw mnh mxh ff fr tg adj ssf].
  unfold fr_loop, flex_freeze_body, Efr, vpair, vchild, rda, rd, freeze_src, with_b;
    cbn [r_c r_b r_t r_f r_a k_idx k_base k_extra set_fr set_ff set_tg set_adj k_style k_rest k_g k_sh k_hyp k_mnw k_mxw
         k_mnh k_mxh k_ff k_fr k_tg k_adj k_ssf];
    ev; unseal; splitq; ev; reflexivity.
Qed.

Lemma fr_loop_spec (A : Type) kret kerr line tot : forall l acc item idx child (k : env -> A),
  exists item' idx' child',
  gen_iter (fun v rho k' => exec_block O A kret kerr fr_loop (update "%item" v rho) k')
           (map vpair (map rda l)) (Efr line (VNum tot) (VList acc) item idx child) k =
  k (Efr line (VNum tot) (VList (acc ++ map vpair (map rda (map (freeze_src tot) l)))) item' idx' child').
Proof.
  induction l as [|r l IH]; intros acc item idx child k.
  - exists item, idx, child. cbn [map gen_iter]. rewrite app_nil_r. reflexivity.
  - cbn [map gen_iter]. rewrite fr_step.
    destruct (IH (acc ++ [vpair (rda (freeze_src tot r))]) (vpair (rda r)) (k_idx (r_c r))
                 (vchild (rda (freeze_src tot r))) k) as (b1 & b2 & b3 & E).
    exists b1, b2, b3. rewrite E. rewrite <- app_assoc. reflexivity.
Qed.

(* list comprehensions and sums over a line *)
Lemma collect_map {R} (f : val -> (option val -> R) -> R) {T} (enc : T -> val) (g : T -> val) :
  (forall c kk, f (enc c) kk = kk (Some (g c))) ->
  forall l acc k, gen_collect f (map enc l) acc k = k (rev acc ++ map g l).
Proof.
  intros H. induction l as [|c l IH]; intros acc k; cbn [map gen_collect].
  - rewrite app_nil_r. reflexivity.
  - rewrite H. rewrite IH. cbn [rev]. rewrite <- app_assoc. reflexivity.
Qed.
Lemma sum_vals_map {T} (h : T -> Q) : forall l acc,
  sum_vals acc (map (fun c => VNum (h c)) l) = VNum (fold_left Qplus (map h l) acc).
Proof. induction l as [|c l IH]; intros acc; cbn [map sum_vals fold_left]; [reflexivity|apply IH]. Qed.

Lemma fr_wp (A : Type) kret kerr l adjs new item idx child (k : env -> A) :
  exists new' item' idx' child',
  exec_block O A kret kerr flex_freeze_body (Efr (vline (map rda l)) adjs new item idx child) k =
  k (Efr (vline (map rda (map (freeze_src (adj_sum l)) l))) (VNum (adj_sum l)) new' item' idx' child').
Proof.
  unfold flex_freeze_body, Efr. rewrite exec_block_cons.
  cbn [exec eval]. cbn [lookup String.eqb Ascii.eqb Bool.eqb]. unfold vline at 1.
  rewrite map_map.
  rewrite (collect_map _ (fun r => vpair (rda r)) (fun r => VNum (r_a r)))
    by (intros [c b t f a] kk; destruct c; reflexivity).
  cbn [rev app prim_apply]. rewrite sum_vals_map. change (fold_left Qplus (map r_a l) 0%Q) with (adj_sum l).
  evb. step. rewrite exec_block_cons. rewrite exec_for with (l := map vpair (map rda l)) by reflexivity.
  destruct (fr_loop_spec A kret kerr (vline (map rda l)) (adj_sum l) l [] item idx child
     (fun rho' => if flowing rho' then k rho'
                  else exec_block O A kret kerr [SAssign [TVar "line"] (EVar "%new")] rho' k)) as (b1 & b2 & b3 & E).
  unfold Efr, fr_loop, flex_freeze_body in E. rewrite E. clear E.
  step. eexists _, _, _, _. reflexivity.
Qed.

(* ---- 9.7.1 *)
Definition Emode (line gap avail hms fft : val) : env :=
  [("line", line); ("main_gap", gap); ("available_main_space", avail); ("hypothetical_main_size", hms);
   ("flex_factor_type", fft)].
Lemma mode_wp (A : Type) kret kerr l gap avail hms fft (k : env -> A) :
  exec_block O A kret kerr flex_mode_body (Emode (vline l) (VNum gap) (VNum avail) hms fft) k =
  k (Emode (vline l) (VNum gap) (VNum avail) (VNum (hyp_sum l gap)) (VStr (mode_name (mode_src l gap avail)))).
Proof.
  unfold flex_mode_body, Emode, vline. rewrite exec_block_cons.
  cbn [exec eval]. cbn [lookup String.eqb Ascii.eqb Bool.eqb].
  rewrite (collect_map _ vpair (fun c => VNum (k_hyp c + k_extra c)%Q))
    by (intros c kk; destruct c; ev; unseal; reflexivity).
  cbn [rev app prim_apply]. rewrite sum_vals_map.
  unfold mode_src, hyp_sum, zQ.
  remember (fold_left Qplus (map (fun c : cst => (k_hyp c + k_extra c)%Q) l) 0%Q) as S eqn:ES.
  evb. step. rewrite map_length. unseal.
  rewrite exec_block_cons. evb. unseal.
  destruct (Qle_bool avail _); evb; reflexivity.
Qed.

(* ---- 9.7.5.c *)
Lemma exec_if A kret kerr c th el rho (k : env -> A) :
  exec O A kret kerr (SIf c th el) rho k =
  eval O A kerr rho c (fun vc => bool_k O A kerr vc (fun t =>
    if t then exec_block O A kret kerr th rho k else exec_block O A kret kerr el rho k)).
Proof. reflexivity. Qed.

Definition dz_loop : list stmt :=
  match flex_distribute_body with [SIf _ [_; SFor _ _ body; _] _] => body | _ => [] end.
Definition ds_loop : list stmt :=
  match flex_distribute_body with [SIf _ _ [_; _; _; SFor _ _ body; _; _; _; _]] => body | _ => [] end.
Definition dd_loop : list stmt :=
  match flex_distribute_body with [SIf _ _ [_; _; _; _; _; _; SFor _ _ body; _]] => body | _ => [] end.
Definition Ed (line rem : val) (grow : bool) (new item idx child ss gs ratio : val) : env :=
  [("line", line); ("remaining_free_space", rem); ("flex_factor_type", VStr (mode_name grow)); ("%new", new);
   ("%item", item); ("index", idx); ("child", child); ("scaled_flex_shrink_factors_sum", ss);
   ("flex_grow_factors_sum", gs); ("ratio", ratio)].
Ltac cbr := cbn [r_c r_b r_t r_f r_a k_idx k_base k_extra set_fr set_ff set_tg set_adj set_ssf k_style k_rest k_g k_sh k_hyp
                 k_mnw k_mxw k_mnh k_mxh k_ff k_fr k_tg k_adj k_ssf].

Lemma dz_step (A : Type) kret kerr line rem grow acc item idx child ss gs ratio r (k : env -> A) :
  exec_block O A kret kerr dz_loop (update "%item" (vpair (rd0 r)) (Ed line rem grow (VList acc) item idx child ss gs ratio)) k =
  k (Ed line rem grow (VList (acc ++ [vpair (rd (dist0 r))])) (vpair (rd0 r)) (k_idx (r_c r)) (vchild (rd (dist0 r)))
       ss gs ratio).
Proof.
  destruct r as [c b t f a]. destruct c as [cidx sty rest g sh hyp base extra mnw mxw mnh mxh ff fr tg adj ssf].
  destruct b, grow; unfold dz_loop, flex_distribute_body, Ed, vpair, vchild, rd, rd0, dist0, with_t, r_base, mode_name; cbr;
    ev; reflexivity.
Qed.
Lemma dz_loop_spec (A : Type) kret kerr line rem grow ss gs ratio : forall l acc item idx child,
  exists item' idx' child', forall (k : env -> A),
  gen_iter (fun v rho k' => exec_block O A kret kerr dz_loop (update "%item" v rho) k')
           (map vpair (map rd0 l)) (Ed line rem grow (VList acc) item idx child ss gs ratio) k =
  k (Ed line rem grow (VList (acc ++ map vpair (map rd (map dist0 l)))) item' idx' child' ss gs ratio).
Proof.
  induction l as [|r l IH]; intros acc item idx child.
  - exists item, idx, child. intros k. cbn [map gen_iter]. rewrite app_nil_r. reflexivity.
  - destruct (IH (acc ++ [vpair (rd (dist0 r))]) (vpair (rd0 r)) (k_idx (r_c r)) (vchild (rd (dist0 r))))
      as (b1 & b2 & b3 & E).
    exists b1, b2, b3. intros k. cbn [map gen_iter]. rewrite dz_step. rewrite E. rewrite <- app_assoc. reflexivity.
Qed.

Lemma ds_step (A : Type) kret kerr line rem grow acc item idx child ss gs ratio r (k : env -> A) :
  exec_block O A kret kerr ds_loop
    (update "%item" (vpair (rd0 r)) (Ed line rem grow (VList acc) item idx child (VNum ss) (VNum gs) ratio)) k =
  k (Ed line rem grow (VList (acc ++ [vpair (rd0 (sums1 r))])) (vpair (rd0 r)) (k_idx (r_c r)) (vchild (rd0 (sums1 r)))
       (VNum (if r_b r then ss else (ss + ssf_of r)%Q)) (VNum (if r_b r then gs else (gs + k_g (r_c r))%Q)) ratio).
Proof.
  destruct r as [c b t f a]. destruct c as [cidx sty rest g sh hyp base extra mnw mxw mnh mxh ff fr tg adj ssf].
  destruct b, grow; unfold ds_loop, flex_distribute_body, Ed, vpair, vchild, rd0, sums1, with_c, ssf_of, r_base, mode_name;
    cbr; ev; unseal; reflexivity.
Qed.
Lemma ds_loop_spec (A : Type) kret kerr line rem grow ratio : forall l acc item idx child ss gs,
  exists item' idx' child', forall (k : env -> A),
  gen_iter (fun v rho k' => exec_block O A kret kerr ds_loop (update "%item" v rho) k')
           (map vpair (map rd0 l)) (Ed line rem grow (VList acc) item idx child (VNum ss) (VNum gs) ratio) k =
  k (Ed line rem grow (VList (acc ++ map vpair (map rd0 (map sums1 l)))) item' idx' child'
       (VNum (fold_left (fun a r => if r_b r then a else (a + ssf_of r)%Q) l ss))
       (VNum (fold_left (fun a r => if r_b r then a else (a + k_g (r_c r))%Q) l gs)) ratio).
Proof.
  induction l as [|r l IH]; intros acc item idx child ss gs.
  - exists item, idx, child. intros k. cbn [map gen_iter fold_left]. rewrite app_nil_r. reflexivity.
  - destruct (IH (acc ++ [vpair (rd0 (sums1 r))]) (vpair (rd0 r)) (k_idx (r_c r)) (vchild (rd0 (sums1 r)))
                 (if r_b r then ss else (ss + ssf_of r)%Q) (if r_b r then gs else (gs + k_g (r_c r))%Q))
      as (b1 & b2 & b3 & E).
    exists b1, b2, b3. intros k. cbn [map gen_iter fold_left]. rewrite ds_step. rewrite E. rewrite <- app_assoc. reflexivity.
Qed.

Lemma dd_step (A : Type) kret kerr line rem grow acc item idx child ss gs ratio r :
  (grow = true -> Qeq_bool gs 0 = false) ->
  exists ratio', forall (k : env -> A),
  exec_block O A kret kerr dd_loop
    (update "%item" (vpair (rd0 (sums1 r))) (Ed line (VNum rem) grow (VList acc) item idx child (VNum ss) (VNum gs) ratio)) k =
  k (Ed line (VNum rem) grow (VList (acc ++ [vpair (rd (dist1_src grow rem gs ss (sums1 r)))])) (vpair (rd0 (sums1 r)))
       (k_idx (r_c r)) (vchild (rd (dist1_src grow rem gs ss (sums1 r)))) (VNum ss) (VNum gs) ratio').
Proof.
  intros Hg.
  destruct r as [c b t f a]. destruct c as [cidx sty rest g sh hyp base extra mnw mxw mnh mxh ff fr tg adj ssf].
  destruct b, grow; try specialize (Hg eq_refl);
    unfold dd_loop, flex_distribute_body, Ed, vpair, vchild, rd, rd0, sums1, dist1_src, with_c, with_t, ssf_of, r_base, mode_name;
    cbr; destruct (Qeq_bool ss 0) eqn:Hs; eexists; intros k; ev; unseal; rewrite ?Hg, ?Hs; ev; reflexivity.
Qed.

Lemma dd_loop_spec (A : Type) kret kerr line rem grow ss gs :
  (grow = true -> Qeq_bool gs 0 = false) ->
  forall l acc item idx child ratio, exists item' idx' child' ratio', forall (k : env -> A),
  gen_iter (fun v rho k' => exec_block O A kret kerr dd_loop (update "%item" v rho) k')
           (map vpair (map rd0 (map sums1 l)))
           (Ed line (VNum rem) grow (VList acc) item idx child (VNum ss) (VNum gs) ratio) k =
  k (Ed line (VNum rem) grow (VList (acc ++ map vpair (map rd (map (dist1_src grow rem gs ss) (map sums1 l)))))
       item' idx' child' (VNum ss) (VNum gs) ratio').
Proof.
  intros Hg. induction l as [|r l IH]; intros acc item idx child ratio.
  - exists item, idx, child, ratio. intros k. cbn [map gen_iter]. rewrite app_nil_r. reflexivity.
  - destruct (dd_step A kret kerr line rem grow acc item idx child ss gs ratio r Hg) as (r1 & E1).
    destruct (IH (acc ++ [vpair (rd (dist1_src grow rem gs ss (sums1 r)))]) (vpair (rd0 (sums1 r))) (k_idx (r_c r))
                 (vchild (rd (dist1_src grow rem gs ss (sums1 r)))) r1) as (b1 & b2 & b3 & b4 & E).
    exists b1, b2, b3, b4. intros k. cbn [map gen_iter]. rewrite E1. rewrite E. rewrite <- app_assoc. reflexivity.
Qed.

Lemma dist_wp (A : Type) kret kerr l rem grow new item idx child ss gs ratio (k : env -> A) :
  (grow = true -> Qeq_bool rem 0 = false -> Qeq_bool (gsum_src l) 0 = false) ->
  exists new' item' idx' child' ss' gs' ratio',
  exec_block O A kret kerr flex_distribute_body
    (Ed (vline (map rd0 l)) (VNum rem) grow new item idx child ss gs ratio) k =
  k (Ed (vline (map rd (dist_src grow rem l))) (VNum rem) grow new' item' idx' child' ss' gs' ratio').
Proof.
  intros Hg. unfold flex_distribute_body, Ed, dist_src. rewrite exec_block_cons. rewrite exec_if.
  evb. unseal. destruct (Qeq_bool rem 0) eqn:Hr.
  - step. rewrite exec_block_cons. rewrite exec_for with (l := map vpair (map rd0 l)) by reflexivity.
    destruct (dz_loop_spec A kret kerr (vline (map rd0 l)) (VNum rem) grow ss gs ratio l [] item idx child)
      as (b1 & b2 & b3 & E).
    unfold Ed, dz_loop, flex_distribute_body in E. rewrite E. clear E.
    step. eexists _, _, _, _, _, _, _. reflexivity.
  - specialize (fun H => Hg H eq_refl).
    step. step. step. rewrite exec_block_cons. rewrite exec_for with (l := map vpair (map rd0 l)) by reflexivity.
    destruct (ds_loop_spec A kret kerr (vline (map rd0 l)) (VNum rem) grow ratio l [] item idx child 0%Q 0%Q)
      as (b1 & b2 & b3 & E).
    unfold Ed, ds_loop, flex_distribute_body in E. rewrite E. clear E.
    change (fold_left (fun a r => if r_b r then a else (a + ssf_of r)%Q) l 0%Q) with (ssum_src l).
    change (fold_left (fun a r => if r_b r then a else (a + k_g (r_c r))%Q) l 0%Q) with (gsum_src l).
    step. step. rewrite exec_block_cons.
    rewrite exec_for with (l := map vpair (map rd0 (map sums1 l))) by reflexivity.
    destruct (dd_loop_spec A kret kerr (vline (map rd0 (map sums1 l))) rem grow (ssum_src l) (gsum_src l) Hg l []
                b1 b2 b3 ratio) as (c1 & c2 & c3 & c4 & E).
    unfold Ed, dd_loop, flex_distribute_body in E. rewrite E. clear E.
    step. eexists _, _, _, _, _, _, _. reflexivity.
Qed.

(* 9.7.5.c raises ZeroDivisionError exactly where the model's distribute is None: growing, a non-zero free space,
   flex-grow factors of the unfrozen items summing to zero - and an unfrozen item to divide for *)
Lemma dd_step_frozen (A : Type) kret kerr line rem grow acc item idx child ss gs ratio r (k : env -> A) :
  r_b r = true ->
  exec_block O A kret kerr dd_loop
    (update "%item" (vpair (rd0 (sums1 r))) (Ed line (VNum rem) grow (VList acc) item idx child (VNum ss) (VNum gs) ratio)) k =
  k (Ed line (VNum rem) grow (VList (acc ++ [vpair (rd0 (sums1 r))])) (vpair (rd0 (sums1 r)))
       (k_idx (r_c r)) (vchild (rd0 (sums1 r))) (VNum ss) (VNum gs) ratio).
Proof.
  destruct r as [c b t f a]. destruct c as [cidx sty rest g sh hyp base extra mnw mxw mnh mxh ff fr tg adj ssf].
  cbn [r_b]. intros ->. destruct grow;
    unfold dd_loop, flex_distribute_body, Ed, vpair, vchild, rd0, sums1, mode_name; cbr; ev; reflexivity.
Qed.
Lemma dd_step_err (A : Type) kret kerr line rem acc item idx child ss gs ratio r (k : env -> A) :
  r_b r = false -> Qeq_bool gs 0 = true ->
  exec_block O A kret kerr dd_loop
    (update "%item" (vpair (rd0 (sums1 r))) (Ed line (VNum rem) true (VList acc) item idx child (VNum ss) (VNum gs) ratio)) k =
  kerr "ZeroDivisionError".
Proof.
  destruct r as [c b t f a]. destruct c as [cidx sty rest g sh hyp base extra mnw mxw mnh mxh ff fr tg adj ssf].
  cbn [r_b]. intros -> Hz.
  unfold dd_loop, flex_distribute_body, Ed, vpair, vchild, rd0, sums1, with_c, ssf_of, r_base, mode_name; cbr; ev; unseal.
  rewrite Hz. reflexivity.
Qed.
Lemma dd_loop_err (A : Type) kret kerr line rem ss gs : Qeq_bool gs 0 = true ->
  forall l acc item idx child ratio (k : env -> A), existsb (fun r => negb (r_b r)) l = true ->
  gen_iter (fun v rho k' => exec_block O A kret kerr dd_loop (update "%item" v rho) k')
           (map vpair (map rd0 (map sums1 l)))
           (Ed line (VNum rem) true (VList acc) item idx child (VNum ss) (VNum gs) ratio) k =
  kerr "ZeroDivisionError".
Proof.
  intros Hz. induction l as [|r l IH]; intros acc item idx child ratio k Hex; [discriminate|].
  cbn [map gen_iter]. cbn [existsb] in Hex. destruct (r_b r) eqn:B.
  - rewrite dd_step_frozen by exact B. apply IH. exact Hex.
  - apply dd_step_err; assumption.
Qed.
Theorem run_flex_distribute_divzero l rem new item idx child ss gs ratio :
  Qeq_bool rem 0 = false -> Qeq_bool (gsum_src l) 0 = true -> existsb (fun r => negb (r_b r)) l = true ->
  run O flex_distribute_body (Ed (vline (map rd0 l)) (VNum rem) true new item idx child ss gs ratio)
    (fun _ _ => False) (fun m => m = "ZeroDivisionError").
Proof.
  intros Hr Hz Hex. unfold run, flex_distribute_body, Ed. rewrite exec_block_cons. rewrite exec_if.
  evb. unseal. rewrite Hr.
  step. step. step. rewrite exec_block_cons. rewrite exec_for with (l := map vpair (map rd0 l)) by reflexivity.
  destruct (ds_loop_spec Prop (fun _ _ => False) (fun m => m = "ZeroDivisionError")
              (vline (map rd0 l)) (VNum rem) true ratio l [] item idx child 0%Q 0%Q) as (b1 & b2 & b3 & E).
  unfold Ed, ds_loop, flex_distribute_body in E. rewrite E. clear E.
  change (fold_left (fun a r => if r_b r then a else (a + ssf_of r)%Q) l 0%Q) with (ssum_src l).
  change (fold_left (fun a r => if r_b r then a else (a + k_g (r_c r))%Q) l 0%Q) with (gsum_src l).
  step. step. rewrite exec_block_cons.
  rewrite exec_for with (l := map vpair (map rd0 (map sums1 l))) by reflexivity.
  assert (E := fun k => dd_loop_err Prop (fun _ _ => False) (fun m => m = "ZeroDivisionError")
                        (vline (map rd0 (map sums1 l))) rem (ssum_src l) (gsum_src l) Hz l [] b1 b2 b3 ratio k Hex).
  unfold Ed, dd_loop, flex_distribute_body in E. rewrite E. reflexivity.
Qed.

(* ---- the slices as runs: each falls through its end (no exception, no return) and leaves the stated values *)
Theorem run_flex_mode l gap avail hms fft :
  run O flex_mode_body (Emode (vline l) (VNum gap) (VNum avail) hms fft)
    (ends (fun rho => lookup "flex_factor_type" rho = VStr (mode_name (mode_src l gap avail)))) (fun _ => False).
Proof. unfold run. rewrite mode_wp. split; reflexivity. Qed.

Theorem run_flex_initial_free_space gap avail l ifs item i item1 idx child :
  run O flex_initial_free_space_body (Efs (vline (map rd0 l)) (VNum gap) (VNum avail) ifs item i item1 idx child)
    (ends (fun rho => lookup "initial_free_space" rho = VNum (fs_from gap 0 avail l))) (fun _ => False).
Proof.
  unfold run. edestruct (fs_wp Prop) as (a1 & a2 & a3 & a4 & a5 & E). rewrite E. split; reflexivity.
Qed.

Theorem run_flex_remaining gap avail init0 infs sys l ufs rem item i item1 idx child scaled :
  run O flex_remaining_body
    (Erem (vline (map rd0 l)) (VNum gap) (VNum avail) (VNum init0) (VStr infs) sys ufs rem item i item1 idx child scaled)
    (ends (fun rho => lookup "remaining_free_space" rho = VNum (rem_src gap avail init0 l) /\
                      lookup "initial_free_space" rho = VNum init0)) (fun _ => False).
Proof.
  unfold run. edestruct (rem_wp Prop) as (a0 & a1 & a2 & a3 & a4 & a5 & a6 & E). rewrite E. repeat split; reflexivity.
Qed.

Theorem run_flex_distribute l rem grow new item idx child ss gs ratio :
  (grow = true -> Qeq_bool rem 0 = false -> Qeq_bool (gsum_src l) 0 = false) ->
  run O flex_distribute_body (Ed (vline (map rd0 l)) (VNum rem) grow new item idx child ss gs ratio)
    (ends (fun rho => lookup "line" rho = vline (map rd (dist_src grow rem l)))) (fun _ => False).
Proof.
  intros Hg. unfold run. edestruct (dist_wp Prop) as (a0 & a1 & a2 & a3 & a4 & a5 & a6 & E); [exact Hg|].
  rewrite E. split; reflexivity.
Qed.

Theorem run_flex_clamp wide l new item idx child mn mx cl :
  run O (clamp_body wide) (Ecl (vline (map rd l)) new item idx child mn mx cl)
    (ends (fun rho => lookup "line" rho = vline (map rda (map (clamp_src wide) l)))) (fun _ => False).
Proof.
  unfold run. edestruct (clamp_wp Prop) as (a0 & a1 & a2 & a3 & a4 & a5 & a6 & E). rewrite E. split; reflexivity.
Qed.

Theorem run_flex_freeze l adjs new item idx child :
  run O flex_freeze_body (Efr (vline (map rda l)) adjs new item idx child)
    (ends (fun rho => lookup "line" rho = vline (map rda (map (freeze_src (adj_sum l)) l)))) (fun _ => False).
Proof.
  unfold run. edestruct (fr_wp Prop) as (a0 & a1 & a2 & a3 & E). rewrite E. split; reflexivity.
Qed.
End Run.
