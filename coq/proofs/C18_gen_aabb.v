(* C18 - rectangle_aabb of weasyprint/anchors.py and Matrix.transform_point / Matrix.__matmul__ / Matrix(...) of
   weasyprint/matrix.py as REGENERATED from the source on every run (gen/GenAnchors.v, gen/GenMatrix.v) compute the
   hand model of model/C18Aabb.v (on which the link-rectangle theorems of C18 rest), for every 3x3 matrix of numbers
   (whatever its third column), every position and every size, numbers up to ==; without a matrix (None, or an
   empty one) the rectangle itself is returned.  Calls are linked: rectangle_aabb runs the regenerated
   transform_point (through the alias `transform_point = matrix.transform_point`, see tools/py2coq.py), which runs the regenerated __matmul__ and constructor.  So the covering / smallest-box theorems
   are theorems about the source. *)
From Coq Require Import QArith Qminmax Lqa List String Bool.
Require Import WV.base.Py WV.base.PyLink WV.gen.GenAnchors WV.gen.GenMatrix WV.proofs.PyTac WV.proofs.PyNatural.
Require WV.model.C18Aabb WV.proofs.C18_aabb.
Import ListNotations.
Open Scope string_scope.
Open Scope list_scope.
Open Scope Q_scope.

Module M := WV.model.C18Aabb.
Module P := WV.proofs.C18_aabb.

(* anchors.py calls matrix.py: the two regenerated tables together *)
Definition T : table := GenAnchors_table ++ GenMatrix_table.

Definition vrow (a b c : Q) : val := VList [VNum a; VNum b; VNum c].
(* any 3x3 matrix of numbers; Matrix(a, b, c, d, e, f) is the one with third column 0 0 1 *)
Definition vmat (a b p c d q e f r : Q) : val := VList [vrow a b p; vrow c d q; vrow e f r].
Definition vrect (r : Q * Q * Q * Q) : val :=
  let '(a, b, c, d) := r in VList [VNum a; VNum b; VNum c; VNum d].
Definition rect_eq (r s : Q * Q * Q * Q) : Prop :=
  let '(a, b, c, d) := r in let '(a', b', c', d') := s in a == a' /\ b == b' /\ c == c' /\ d == d'.

(* ---- Matrix(a, b, c, d, e, f): the constructor's regenerated body builds the rows [[a,b,0],[c,d,0],[e,f,1]] ---- *)
Lemma gen_matrix_ctor n a b c d e f :
  ocall (linked T (S n)) "Matrix" [VNum a; VNum b; VNum c; VNum d; VNum e; VNum f; VNone] = vmat a b 0 c d 0 e f 1.
Proof. lazy -[Qplus Qmult]. reflexivity. Qed.

(* ---- transform_point: (Matrix(matrix=[[x, y, 1]]) @ self)[0][:2], three linked calls deep.  Python's sum starts
   from 0, hence the leading 0 + ; the third column of the matrix is not read into the result ---- *)
Lemma tp_value n a b p c d q e f r x y :
  ocall (linked T (S (S (S n)))) ".transform_point" [vmat a b p c d q e f r; VNum x; VNum y] =
  VList [VNum (0 + x * a + y * c + 1 * e); VNum (0 + x * b + y * d + 1 * f)].
Proof. lazy -[Qplus Qmult]. reflexivity. Qed.

Theorem gen_transform_point n a b p c d q e f r x y :
  exists u v, ocall (linked T (S (S (S n)))) ".transform_point" [vmat a b p c d q e f r; VNum x; VNum y] =
              VList [VNum u; VNum v] /\
              u == fst (M.transform_point (a, b, c, d, e, f) x y) /\ v == snd (M.transform_point (a, b, c, d, e, f) x y).
Proof.
  eexists; eexists; split; [apply tp_value|]. cbn [M.transform_point fst snd]. split; ring.
Qed.

(* the product itself: a row vector times a 3x3 matrix *)
Lemma gen_matmul_row n a b p c d q e f r x y z :
  ocall (linked T (S (S n))) ".__matmul__" [VList [vrow x y z]; vmat a b p c d q e f r] =
  VList [vrow (0 + x * a + y * c + z * e) (0 + x * b + y * d + z * f) (0 + x * p + y * q + z * r)].
Proof. lazy -[Qplus Qmult]. reflexivity. Qed.

(* a matrix that is not 3x3 is refused by the assert of __matmul__ *)
Example matmul_asserts n a b c d x y :
  ocall (linked T (S (S n))) ".__matmul__" [VList [vrow x y 1]; VList [VList [VNum a; VNum b]; VList [VNum c; VNum d]]] =
  VErr "AssertionError".
Proof. lazy -[Qplus Qmult]. reflexivity. Qed.

(* no transform in force: None, or an empty matrix (`if not matrix`) *)
Lemma gen_aabb_none O (HO : ops_ok O) (mv : val) x y w h :
  mv = VNone \/ mv = VList [] ->
  run O rectangle_aabb_body
      [("matrix", mv); ("pos_x", VNum x); ("pos_y", VNum y); ("width", VNum w); ("height", VNum h)]
      (fun _ res => res = Some (vrect (M.rectangle_aabb None x y w h))) (fun _ => False).
Proof.
  intros [-> | ->]; unfold run, rectangle_aabb_body;
    lazy -[qadd qsub qmul qdiv qmax qmin qleb qeqb ocall Qplus Qminus Qmult Qdiv Qmax Qmin Qeq_bool Qle_bool];
    unseal HO; reflexivity.
Qed.

(* ---- linked: transform_point answered by its own regenerated body ---- *)
Lemma Qmin_compat a a' b b' : a == a' -> b == b' -> Qmin a b == Qmin a' b'.
Proof.
  intros Ha Hb. destruct (Q.min_spec a b) as [[? E]|[? E]], (Q.min_spec a' b') as [[? E']|[? E']]; rewrite E, E'; lra.
Qed.
Lemma Qmax_compat a a' b b' : a == a' -> b == b' -> Qmax a b == Qmax a' b'.
Proof.
  intros Ha Hb. destruct (Q.max_spec a b) as [[? E]|[? E]], (Q.max_spec a' b') as [[? E']|[? E']]; rewrite E, E'; lra.
Qed.
Lemma min4_compat a a' b b' c c' d d' :
  a == a' -> b == b' -> c == c' -> d == d' -> M.min4 a b c d == M.min4 a' b' c' d'.
Proof. intros. unfold M.min4. repeat apply Qmin_compat; assumption. Qed.
Lemma max4_compat a a' b b' c c' d d' :
  a == a' -> b == b' -> c == c' -> d == d' -> M.max4 a b c d == M.max4 a' b' c' d'.
Proof. intros. unfold M.max4. repeat apply Qmax_compat; assumption. Qed.

Lemma run_consequence O body rho (P P' : env -> option val -> Prop) (E E' : string -> Prop) :
  (forall r v, P r v -> P' r v) -> (forall m, E m -> E' m) -> run O body rho P E -> run O body rho P' E'.
Proof.
  intros HP HE. rewrite !run_natural. destruct (run_out O body rho) as [rho' r|m]; [apply HP|apply HE].
Qed.

Definition aabb_post (r : Q * Q * Q * Q) (_ : env) (res : option val) : Prop :=
  exists o, res = Some (vrect o) /\ rect_eq o r.

Theorem gen_rectangle_aabb_linked n a b p c d q e f r x y w h :
  run (linked T (S (S (S (S n))))) rectangle_aabb_body
      [("matrix", vmat a b p c d q e f r); ("pos_x", VNum x); ("pos_y", VNum y); ("width", VNum w); ("height", VNum h)]
      (aabb_post (M.rectangle_aabb (Some (a, b, c, d, e, f)) x y w h)) (fun _ => False).
Proof.
  unfold run, rectangle_aabb_body.
  lazy -[Qplus Qmult Qmin Qmax aabb_post M.rectangle_aabb].
  unfold aabb_post. eexists (_, _, _, _); split; [reflexivity|].
  cbn [M.rectangle_aabb M.transform_point rect_eq].
  repeat split; first [apply min4_compat | apply max4_compat]; ring.
Qed.

Theorem gen_rectangle_aabb_no_matrix n (mv : val) x y w h :
  mv = VNone \/ mv = VList [] ->
  run (linked T n) rectangle_aabb_body
      [("matrix", mv); ("pos_x", VNum x); ("pos_y", VNum y); ("width", VNum w); ("height", VNum h)]
      (fun _ res => res = Some (vrect (M.rectangle_aabb None x y w h))) (fun _ => False).
Proof. intros H. exact (gen_aabb_none (linked T n) (linked_ok _ _) mv x y w h H). Qed.

(* ---- the link-rectangle theorems of C18, about the source ---- *)
Lemma in_rect_compat o r pt : rect_eq o r -> P.in_rect r pt -> P.in_rect o pt.
Proof.
  destruct o as [[[o1 o2] o3] o4], r as [[[r1 r2] r3] r4]. cbn. intros (E1 & E2 & E3 & E4) [[? ?] [? ?]].
  repeat split; lra.
Qed.

(* the rectangle that the source computes covers the image of every point of the box ... *)
Theorem source_rectangle_covers n a b p c d q e f r x y w h :
  run (linked T (S (S (S (S n))))) rectangle_aabb_body
      [("matrix", vmat a b p c d q e f r); ("pos_x", VNum x); ("pos_y", VNum y); ("width", VNum w); ("height", VNum h)]
      (fun _ res => exists o, res = Some (vrect o) /\
         forall s t, 0 <= s <= 1 -> 0 <= t <= 1 ->
           P.in_rect o (M.transform_point (a, b, c, d, e, f) (x + s * w) (y + t * h)))
      (fun _ => False).
Proof.
  eapply run_consequence; [| |exact (gen_rectangle_aabb_linked n a b p c d q e f r x y w h)].
  - intros rho res (o & -> & Ho). exists o. split; [reflexivity|]. intros s t Hs Ht.
    eapply in_rect_compat; [exact Ho|]. apply P.aabb_contains; assumption.
  - intros ? [].
Qed.

(* ... and is the smallest axis-aligned rectangle that does *)
Theorem source_rectangle_smallest n a b p c d q e f r x y w h bx1 by1 bx2 by2 :
  (forall s t, 0 <= s <= 1 -> 0 <= t <= 1 ->
     P.in_rect (bx1, by1, bx2, by2) (M.transform_point (a, b, c, d, e, f) (x + s * w) (y + t * h))) ->
  run (linked T (S (S (S (S n))))) rectangle_aabb_body
      [("matrix", vmat a b p c d q e f r); ("pos_x", VNum x); ("pos_y", VNum y); ("width", VNum w); ("height", VNum h)]
      (fun _ res => exists o1 o2 o3 o4, res = Some (vrect (o1, o2, o3, o4)) /\
         bx1 <= o1 /\ by1 <= o2 /\ o3 <= bx2 /\ o4 <= by2)
      (fun _ => False).
Proof.
  intros H.
  eapply run_consequence; [| |exact (gen_rectangle_aabb_linked n a b p c d q e f r x y w h)].
  - intros rho res (o & -> & Ho). destruct o as [[[o1 o2] o3] o4]. exists o1, o2, o3, o4. split; [reflexivity|].
    pose proof (P.aabb_smallest (a, b, c, d, e, f) x y w h bx1 by1 bx2 by2 H) as Hs.
    cbn [M.rectangle_aabb M.transform_point] in Ho, Hs. cbn [rect_eq] in Ho.
    destruct Ho as (E1 & E2 & E3 & E4). destruct Hs as (H1 & H2 & H3 & H4).
    rewrite E1, E2, E3, E4. repeat split; assumption.
  - intros ? [].
Qed.

(* a rotation by the 3-4-5 triangle, run through the regenerated bodies with the real arithmetic *)
Example source_rotation_example :
  run (linked T 4) rectangle_aabb_body
      [("matrix", vmat (3#5) (4#5) 0 (-(4#5)) (3#5) 0 0 0 1); ("pos_x", VNum 0); ("pos_y", VNum 0);
       ("width", VNum 100); ("height", VNum 20)]
      (fun _ res => match res with
                    | Some (VList [VNum o1; VNum o2; VNum o3; VNum o4]) => M.rect_eqb (o1, o2, o3, o4) (-16, 0, 60, 92) = true
                    | _ => False end)
      (fun _ => False).
Proof. vm_compute. reflexivity. Qed.
