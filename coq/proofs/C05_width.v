(* C05: the CSS 2.1 10.3.3 width equation, proved about the body of block_level_width as it is in /repo now
   (gen/GenBlock.v is regenerated from the source on every run). *)
From Coq Require Import QArith Qminmax Lqa List String Bool.
Require Import WV.base.Py WV.gen.GenBlock WV.proofs.PyTac.
Import ListNotations.
Open Scope string_scope.
Open Scope Q_scope.

Definition mkbox (ml mr w : val) (pl pr bl br px : Q) (is_col : bool) : val :=
  VObj [("margin_left", ml); ("margin_right", mr); ("width", w);
        ("padding_left", VNum pl); ("padding_right", VNum pr);
        ("border_left_width", VNum bl); ("border_right_width", VNum br);
        ("position_x", VNum px); ("is_column", VBool is_col)].
Definition cb_tuple (cbw : Q) : val := VList [VNum cbw; VNum 0].
Definition cb_box (cbw : Q) (dir : string) : val :=
  VObj [("width", VNum cbw); ("style", VObj [("direction", VStr dir)])].

(* Over-constrained: width given and nothing left to absorb the difference. *)
Definition total (ml mr w : val) (pl pr bl br : Q) : Q := numof ml + numof mr + pl + pr + bl + br + numof w.

(* The post-condition (geometric reading R1 of DESIGN.md):
   - used margin-left / margin-right / width are numbers afterwards;
   - specified values are honoured (width always; margins when not auto);
   - when width is auto, or some margin is auto and the box fits, the seven terms sum to the containing width;
     two auto margins are equal;
   - when the box does not fit, auto margins become 0 (the box overflows on the end side);
   - position_x only moves in the rtl over-constrained case, by the amount that puts the right margin edge on
     the containing block's right edge. *)
Definition width_post (ml mr w : val) (pl pr bl br px cbw : Q) (rtl_shift : bool) (rho : env) (_ : option val) : Prop :=
  exists a c d x is_col,
    (* the box afterwards: only the three lengths and (rtl) the position change *)
    lookup "box" rho = mkbox (VNum a) (VNum c) (VNum d) pl pr bl br x is_col /\
    (is_auto w = false -> d == numof w) /\
    (is_auto ml = false -> a == numof ml) /\
    (is_auto mr = false -> c == numof mr) /\
    (is_auto w = true -> a + bl + pl + d + pr + br + c == cbw /\ (is_auto ml = true -> a == 0) /\ (is_auto mr = true -> c == 0)) /\
    (is_auto w = false -> (is_auto ml || is_auto mr = true) -> total ml mr w pl pr bl br <= cbw ->
        a + bl + pl + d + pr + br + c == cbw /\ (is_auto ml = true -> is_auto mr = true -> a == c)) /\
    (is_auto w = false -> ~ total ml mr w pl pr bl br <= cbw -> (is_auto ml = true -> a == 0) /\ (is_auto mr = true -> c == 0)) /\
    (if rtl_shift && negb (is_auto w)
     then (* rtl: when nothing is left to absorb the difference, the right margin edge sits on the containing
             block's right edge (margin-left is the one that gives way) *)
          (is_auto ml || is_auto mr = false \/ ~ total ml mr w pl pr bl br <= cbw ->
             x + a + bl + pl + d + pr + br + c == px + cbw) /\
          (is_auto ml || is_auto mr = true -> total ml mr w pl pr bl br <= cbw -> x == px)
     else x == px).

Ltac blw_tac O HO :=
  lazy -[width_post Qplus Qeq Qle Qlt Qminus Qmult Qdiv Qopp Qinv qadd qsub qmul qdiv qmax qmin qleb qeqb];
  split_paths O; unseal HO; to_props; unfold width_post, total;
  cbn [lookup fieldq fieldv String.eqb Ascii.eqb Bool.eqb is_auto numof andb orb negb];
  try (do 5 eexists; repeat split; try reflexivity; intros;
       try discriminate; try (field; fail); simpl in *; try lra; try (exfalso; lra));
  try (match goal with H : _ == _ |- False => unfold Qeq in H; simpl in H; discriminate H end);
  try lra;
  try (match goal with H : _ \/ _ |- _ => destruct H; try discriminate; simpl in *; try lra; try (exfalso; lra) end).

Lemma blw_ltr_gen O (HO : ops_ok O) is_col ml mr w pl pr bl br px cbw :
  len ml -> len mr -> len w ->
  run O block_level_width_body
      [("box", mkbox ml mr w pl pr bl br px is_col); ("containing_block", cb_tuple cbw)]
      (width_post ml mr w pl pr bl br px cbw false) (fun _ => False).
Proof.
  intros Hml Hmr Hw.
  destruct ml as [ml|sml| | | | |]; try contradiction; destruct mr as [mr|smr| | | | |]; try contradiction;
  destruct w as [w|sw| | | | |]; try contradiction; simpl in Hml, Hmr, Hw; subst;
  blw_tac O HO.
Qed.

Lemma blw_box_gen O (HO : ops_ok O) (rtl is_col : bool) ml mr w pl pr bl br px cbw :
  len ml -> len mr -> len w ->
  run O block_level_width_body
      [("box", mkbox ml mr w pl pr bl br px is_col);
       ("containing_block", cb_box cbw (if rtl then "rtl" else "ltr"))]
      (width_post ml mr w pl pr bl br px cbw (rtl && negb is_col)) (fun _ => False).
Proof.
  intros Hml Hmr Hw.
  destruct rtl, is_col;
  destruct ml as [ml|sml| | | | |]; try contradiction; destruct mr as [mr|smr| | | | |]; try contradiction;
  destruct w as [w|sw| | | | |]; try contradiction; simpl in Hml, Hmr, Hw; subst;
  blw_tac O HO.
Qed.

(* The statements about the real operations. *)
Theorem block_level_width_equation_tuple_cb is_col ml mr w pl pr bl br px cbw :
  len ml -> len mr -> len w ->
  run real_ops block_level_width_body
      [("box", mkbox ml mr w pl pr bl br px is_col); ("containing_block", cb_tuple cbw)]
      (width_post ml mr w pl pr bl br px cbw false) (fun _ => False).
Proof. exact (blw_ltr_gen real_ops real_ok is_col ml mr w pl pr bl br px cbw). Qed.

Theorem block_level_width_equation_box_cb (rtl is_col : bool) ml mr w pl pr bl br px cbw :
  len ml -> len mr -> len w ->
  run real_ops block_level_width_body
      [("box", mkbox ml mr w pl pr bl br px is_col);
       ("containing_block", cb_box cbw (if rtl then "rtl" else "ltr"))]
      (width_post ml mr w pl pr bl br px cbw (rtl && negb is_col)) (fun _ => False).
Proof. exact (blw_box_gen real_ops real_ok rtl is_col ml mr w pl pr bl br px cbw). Qed.

(* Non-vacuity: a concrete non-trivial run (auto margins, fixed width: centred). *)
Example blw_example :
  run real_ops block_level_width_body
      [("box", mkbox (VStr "auto") (VStr "auto") (VNum 40) 1 2 3 4 0 false); ("containing_block", cb_tuple 100)]
      (fun rho _ => fieldq (lookup "box" rho) "margin_left" = Some ((100 - (1 + 2 + 3 + 4) - 40) / 2)) (fun _ => False).
Proof. vm_compute. reflexivity. Qed.
