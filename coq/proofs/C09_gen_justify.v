(* C09 - justify_line(context, line, extra_width) of weasyprint/layout/inline.py as REGENERATED from the source on every
   run (gen/GenInline.v; `if (nb_spaces := count_expandable_spaces(line)):` printed as the binding followed by
   `if nb_spaces:`) computes the hand model justify_line of model/C09Align.v, on which justify_fills (the justified line
   is wider by exactly the extra width) and justify_well_nested of proofs/C09_align.v rest:
   add_word_spacing is called exactly when the count of expandable spaces is not 0, with (context, the line as received,
   extra_width / count, 0), and the line is left as add_word_spacing leaves it; otherwise the line is untouched.
   count_expandable_spaces and add_word_spacing are oracles (tools/py2coq.py, option oracle_stmts of the target):
   the first theorem holds whatever functions of their arguments they are; the second one takes for them the model's
   count_spaces / add_word_spacing through ANY encoding of model boxes as objects. *)
From Coq Require Import QArith Qminmax Lqa List String Bool ZArith.
Require Import WV.base.Py WV.base.PyLink WV.gen.GenInline WV.proofs.PyTac WV.proofs.PyNatural.
Require Import WV.model.C09Line WV.model.C09Align WV.proofs.C09_align.
Import ListNotations.
Open Scope string_scope.
Open Scope list_scope.
Open Scope Q_scope.

(* count_expandable_spaces(box) answers the number cnt [box]; add_word_spacing(context, box, spacing, x_advance)
   answers ret and leaves the box in the state aws [context; box; spacing; x_advance]: cnt, aws ANY functions *)
Definition justify_oracle (cnt : list val -> Q) (ret : val) (aws : list val -> val) (f : string) (args : list val)
  : val :=
  if String.eqb f "count_expandable_spaces" then VList [VNum (cnt args)]
  else if String.eqb f "add_word_spacing" then VList [ret; aws args]
  else VErr "NameError".

Definition justify_post (ctx line : val) (e : Q) (cnt : list val -> Q) (ret : val) (aws : list val -> val)
           (rho : env) (res : option val) : Prop :=
  res = None /\
  if Qeq_bool (cnt [line]) 0
  then lookup "line" rho = line /\ lookup "%call" rho = VErr "unbound:%call"
  else lookup "line" rho = aws [ctx; line; VNum (e / cnt [line]); VNum 0] /\ lookup "%call" rho = ret.

Lemma gen_justify_line O (HO : ops_ok O) cf lf e cnt ret aws :
  let ctx := VObj cf in
  let line := VObj lf in
  run (with_calls O (justify_oracle cnt ret aws)) justify_line_body
      [("context", ctx); ("line", line); ("extra_width", VNum e)]
      (justify_post ctx line e cnt ret aws) (fun _ => False).
Proof.
  intros ctx line. subst ctx line.
  unfold run, justify_line_body.
  destruct O as [qa qs qm qd qx qn ql qe oc wf]; destruct HO as [H1 H2 H3 H4 H5 H6 H7 H8];
    cbn [Py.qadd Py.qsub Py.qmul Py.qdiv Py.qmax Py.qmin Py.qleb Py.qeqb] in *; subst.
  unfold with_calls; cbn [Py.qadd Py.qsub Py.qmul Py.qdiv Py.qmax Py.qmin Py.qleb Py.qeqb Py.wfuel].
  lazy -[Qeq_bool Qdiv justify_post].
  unfold justify_post.
  destruct (Qeq_bool (cnt [VObj lf]) 0) eqn:E.
  - lazy -[Qeq_bool Qdiv]. split; [reflexivity|split; reflexivity].
  - lazy -[Qeq_bool Qdiv]. rewrite ?E. lazy -[Qeq_bool Qdiv]. split; [reflexivity|split; reflexivity].
Qed.

(* ---- the callees as the model has them: enc is ANY encoding of the model's inline boxes as objects, dec a decoding *)
Section Model.
  Variable enc : ibox -> list (string * val).
  Variable dec : val -> ibox.
  Hypothesis dec_enc : forall b, dec (VObj (enc b)) = b.

  Definition nat_q (n : nat) : Q := inject_Z (Z.of_nat n).
  Definition cnt_model (args : list val) : Q :=
    match args with [v] => nat_q (count_spaces (dec v)) | _ => 0 end.
  Definition aws_model (args : list val) : val :=
    match args with
    | [_; v; VNum js; VNum adv] => VObj (enc (fst (add_word_spacing (dec v) js adv)))
    | _ => VErr "TypeError"
    end.

  Lemma nat_q_zero n : Qeq_bool (nat_q n) 0 = negb (0 <? n)%nat.
  Proof. destruct n; reflexivity. Qed.

  (* the source leaves the line as the model's justify_line does, for every line box, extra width, context *)
  Lemma gen_justify_line_model O (HO : ops_ok O) cf b e ret :
    run (with_calls O (justify_oracle cnt_model ret aws_model)) justify_line_body
        [("context", VObj cf); ("line", VObj (enc b)); ("extra_width", VNum e)]
        (fun rho res => res = None /\ lookup "line" rho = VObj (enc (justify_line b e)))
        (fun _ => False).
  Proof.
    generalize (gen_justify_line O HO cf (enc b) e cnt_model ret aws_model); cbv zeta.
    rewrite !(PyNatural.run_natural _ justify_line_body).
    destruct (PyNatural.run_out _ justify_line_body _) as [rho' r|m]; [|exact (fun x => x)].
    unfold justify_post. intros (-> & H). split; [reflexivity|].
    unfold cnt_model in H. rewrite dec_enc, nat_q_zero in H. unfold justify_line.
    destruct (0 <? count_spaces b)%nat; cbn [negb] in H; destruct H as (-> & _); [|reflexivity].
    unfold aws_model. rewrite dec_enc. reflexivity.
  Qed.

  (* justification distributes exactly the extra width: the line the source leaves is wider by extra_width as soon
     as it holds an expandable space, and is the received line when it holds none *)
  Lemma gen_justify_line_fills O (HO : ops_ok O) cf b e ret :
    run (with_calls O (justify_oracle cnt_model ret aws_model)) justify_line_body
        [("context", VObj cf); ("line", VObj (enc b)); ("extra_width", VNum e)]
        (fun rho res =>
           ((0 < count_spaces b)%nat -> box_w (dec (lookup "line" rho)) == box_w b + e) /\
           (count_spaces b = 0%nat -> lookup "line" rho = VObj (enc b)) /\
           (well_nested b -> well_nested (dec (lookup "line" rho))))
        (fun _ => False).
  Proof.
    generalize (gen_justify_line_model O HO cf b e ret).
    rewrite !(PyNatural.run_natural _ justify_line_body).
    destruct (PyNatural.run_out _ justify_line_body _) as [rho' r|m]; [|exact (fun x => x)].
    intros (_ & ->). rewrite dec_enc. split; [|split].
    - intros Hn. exact (justify_fills b e Hn).
    - intros Hz. rewrite (justify_no_space b e Hz). reflexivity.
    - exact (justify_well_nested b e).
  Qed.
End Model.

Definition demo_cnt (args : list val) : Q := match args with [VObj [("spaces", VNum n)]] => n | _ => 0 end.
Example justify_line_example :
  run (with_calls real_ops (justify_oracle demo_cnt VNone VList)) justify_line_body
      [("context", VObj []); ("line", VObj [("spaces", VNum 4)]); ("extra_width", VNum 30)]
      (fun rho r => r = None /\
                    lookup "line" rho = VList [VObj []; VObj [("spaces", VNum 4)]; VNum (30 / 4); VNum 0])
      (fun _ => False).
Proof. split; reflexivity. Qed.
Example justify_line_example_no_space :
  run (with_calls real_ops (justify_oracle demo_cnt VNone VList)) justify_line_body
      [("context", VObj []); ("line", VObj [("spaces", VNum 0)]); ("extra_width", VNum 30)]
      (fun rho r => r = None /\ lookup "line" rho = VObj [("spaces", VNum 0)] /\
                    lookup "%call" rho = VErr "unbound:%call")
      (fun _ => False).
Proof. repeat split. Qed.
