(* C12 - flex_layout step 6 (css-flexbox 9.7) as REGENERATED from weasyprint/layout/flex.py (gen/GenFlexResolve.v):
   how a flex line is written as a value of base/Py.v, and the source-order functions on these values that the
   regenerated slices are proved to compute (proofs/C12_gen_flex_run.v); their relation to the hand model of
   model/C12Flex.v is in proofs/C12_gen_flex.v.

   A line is the list of the pairs (index, child); a child is an attribute bag.  The attributes the slices read or
   write come first, in a fixed order; [k_rest] are all its other attributes and [k_style] the other entries of its
   style.  The five attributes that step 6 itself writes (flex_factor, frozen, target_main_size, adjustment,
   scaled_flex_shrink_factor) hold arbitrary values where a slice does not read them (a variable that is not
   bound yet reads as an error value, which is one of these values).  min_<main> / max_<main> are numbers: a
   max size of `inf` (no max-width / max-height) is a float outside the numbers of Py.v, so the clamping slice is
   tied for items with a finite max size only. *)
From Coq Require Import QArith Qminmax List String Bool.
Require Import WV.base.Py.
Import ListNotations.
Open Scope string_scope.
Open Scope list_scope.

Record cst := mkC {
  k_idx : val; k_style : list (string * val); k_rest : list (string * val);
  k_g : Q; k_sh : Q; k_hyp : Q; k_base : Q; k_extra : Q;
  k_mnw : Q; k_mxw : Q; k_mnh : Q; k_mxh : Q;
  k_ff : val; k_fr : val; k_tg : val; k_adj : val; k_ssf : val }.

Definition vchild (c : cst) : val :=
  VObj (("style", VObj (("flex_grow", VNum (k_g c)) :: ("flex_shrink", VNum (k_sh c)) :: k_style c)) ::
        ("hypothetical_main_size", VNum (k_hyp c)) :: ("flex_base_size", VNum (k_base c)) ::
        ("main_outer_extra", VNum (k_extra c)) ::
        ("min_width", VNum (k_mnw c)) :: ("max_width", VNum (k_mxw c)) ::
        ("min_height", VNum (k_mnh c)) :: ("max_height", VNum (k_mxh c)) ::
        ("flex_factor", k_ff c) :: ("frozen", k_fr c) :: ("target_main_size", k_tg c) ::
        ("adjustment", k_adj c) :: ("scaled_flex_shrink_factor", k_ssf c) :: k_rest c).
Definition vpair (c : cst) : val := VList [k_idx c; vchild c].
Definition vline (l : list cst) : val := VList (map vpair l).

Definition set_ff (c : cst) (v : val) : cst :=
  mkC (k_idx c) (k_style c) (k_rest c) (k_g c) (k_sh c) (k_hyp c) (k_base c) (k_extra c)
      (k_mnw c) (k_mxw c) (k_mnh c) (k_mxh c) v (k_fr c) (k_tg c) (k_adj c) (k_ssf c).
Definition set_fr (c : cst) (v : val) : cst :=
  mkC (k_idx c) (k_style c) (k_rest c) (k_g c) (k_sh c) (k_hyp c) (k_base c) (k_extra c)
      (k_mnw c) (k_mxw c) (k_mnh c) (k_mxh c) (k_ff c) v (k_tg c) (k_adj c) (k_ssf c).
Definition set_tg (c : cst) (v : val) : cst :=
  mkC (k_idx c) (k_style c) (k_rest c) (k_g c) (k_sh c) (k_hyp c) (k_base c) (k_extra c)
      (k_mnw c) (k_mxw c) (k_mnh c) (k_mxh c) (k_ff c) (k_fr c) v (k_adj c) (k_ssf c).
Definition set_adj (c : cst) (v : val) : cst :=
  mkC (k_idx c) (k_style c) (k_rest c) (k_g c) (k_sh c) (k_hyp c) (k_base c) (k_extra c)
      (k_mnw c) (k_mxw c) (k_mnh c) (k_mxh c) (k_ff c) (k_fr c) (k_tg c) v (k_ssf c).
Definition set_ssf (c : cst) (v : val) : cst :=
  mkC (k_idx c) (k_style c) (k_rest c) (k_g c) (k_sh c) (k_hyp c) (k_base c) (k_extra c)
      (k_mnw c) (k_mxw c) (k_mnh c) (k_mxh c) (k_ff c) (k_fr c) (k_tg c) (k_adj c) v.

Open Scope Q_scope.

(* ---- 9.7.3, one item: the flex factor of the line's mode, frozen at its hypothetical size when the factor is
   zero or the base size is on the wrong side of the hypothetical size *)
Definition inflex1 (grow : bool) (c : cst) : cst :=
  let f := if grow then k_g c else k_sh c in
  let cond := if grow then negb (Qle_bool (k_base c) (k_hyp c)) else negb (Qle_bool (k_hyp c) (k_base c)) in
  let c1 := set_ff c (VNum f) in
  if Qeq_bool f 0 then set_fr (set_tg c1 (VNum (k_hyp c))) (VBool true)
  else if cond then set_fr (set_tg c1 (VNum (k_hyp c))) (VBool true)
  else set_fr c1 (VBool false).

(* ---- the state of an item inside the `while` loop: [r_b] frozen, [r_t] target_main_size, [r_f] flex_factor,
   [r_a] adjustment.  Three readings as a value: rd0 before 9.7.5.c has written the target of an unfrozen item
   (whatever the attribute holds stays there), rd after it, rda after 9.7.5.d (the adjustment is a number) *)
Record rst := mkR { r_c : cst; r_b : bool; r_t : Q; r_f : Q; r_a : Q }.
Definition rd0 (r : rst) : cst :=
  set_fr (set_ff (if r_b r then set_tg (r_c r) (VNum (r_t r)) else r_c r) (VNum (r_f r))) (VBool (r_b r)).
Definition rd (r : rst) : cst := set_fr (set_ff (set_tg (r_c r) (VNum (r_t r))) (VNum (r_f r))) (VBool (r_b r)).
Definition rda (r : rst) : cst := set_adj (rd r) (VNum (r_a r)).
Definition r_base (r : rst) : Q := k_base (r_c r).
Definition r_extra (r : rst) : Q := k_extra (r_c r).
Definition used (r : rst) : Q := if r_b r then r_t r else r_base r.
Definition with_c (r : rst) (c : cst) : rst := mkR c (r_b r) (r_t r) (r_f r) (r_a r).
Definition with_t (r : rst) (t : Q) : rst := mkR (r_c r) (r_b r) t (r_f r) (r_a r).
Definition with_b (r : rst) (b : bool) : rst := mkR (r_c r) b (r_t r) (r_f r) (r_a r).
Definition with_a (r : rst) (a : Q) : rst := mkR (r_c r) (r_b r) (r_t r) (r_f r) a.

Definition zQ (z : Z) : Q := inject_Z z.

(* ---- 9.7.1: grow iff the outer hypothetical sizes and the gaps are less than the available space *)
Definition hyp_sum (l : list cst) (gap : Q) : Q :=
  fold_left Qplus (map (fun c => k_hyp c + k_extra c) l) 0 + (zQ (Z.of_nat (List.length l)) - 1) * gap.
Definition mode_src (l : list cst) (gap avail : Q) : bool := negb (Qle_bool avail (hyp_sum l gap)).

(* ---- 9.7.4 / 9.7.5.b: the free space, in the order the loop subtracts; the item number z decides the gap *)
Fixpoint fs_from (gap : Q) (z : Z) (acc : Q) (l : list rst) : Q :=
  match l with
  | [] => acc
  | r :: t => let a := acc - (used r + r_extra r) in
              fs_from gap (z + 1) (if Qeq_bool (zQ z) 0 then a else a - gap) t
  end.
Fixpoint rem_from (gap : Q) (z : Z) (acc u : Q) (l : list rst) : Q * Q :=
  match l with
  | [] => (acc, u)
  | r :: t => let a := acc - (used r + r_extra r) in
              rem_from gap (z + 1) (if Qeq_bool (zQ z) 0 then a else a - gap) (if r_b r then u else u + r_f r) t
  end.
Definition qabs (q : Q) : Q := if Qle_bool 0 q then q else - q.
Definition rem_src (gap avail init0 : Q) (l : list rst) : Q :=
  let (rem, u) := rem_from gap 0 avail 0 l in
  if Qle_bool 1 u then rem
  else let s := init0 * u in if Qle_bool (qabs rem) (qabs s) then rem else s.

(* ---- 9.7.5.c *)
Definition dist0 (r : rst) : rst := if r_b r then r else with_t r (r_base r).
Definition ssf_of (r : rst) : Q := r_base r * k_sh (r_c r).
Definition sums1 (r : rst) : rst := if r_b r then r else with_c r (set_ssf (r_c r) (VNum (ssf_of r))).
Definition ssum_src (l : list rst) : Q := fold_left (fun a r => if r_b r then a else a + ssf_of r) l 0.
Definition gsum_src (l : list rst) : Q := fold_left (fun a r => if r_b r then a else a + k_g (r_c r)) l 0.
Definition dist1_src (grow : bool) (rem gs ss : Q) (r : rst) : rst :=
  if r_b r then r
  else if grow then with_t r (r_base r + rem * (k_g (r_c r) / gs))
  else if Qeq_bool ss 0 then with_t r (r_base r)
  else with_t r (r_base r + rem * (ssf_of r / ss)).
Definition dist_src (grow : bool) (rem : Q) (l : list rst) : list rst :=
  if Qeq_bool rem 0 then map dist0 l
  else map (dist1_src grow rem (gsum_src l) (ssum_src l)) (map sums1 l).

(* ---- 9.7.5.d *)
Definition clamp_src (wide : bool) (r : rst) : rst :=
  if r_b r then with_a r 0
  else let mn := if wide then k_mnw (r_c r) else k_mnh (r_c r) in
       let mx := if wide then k_mxw (r_c r) else k_mxh (r_c r) in
       let cl := Qmax mn (Qmin (r_t r) mx) in
       with_a (with_t r cl) (cl - r_t r).

(* ---- 9.7.5.e *)
Definition adj_sum (l : list rst) : Q := fold_left Qplus (map r_a l) 0.
Definition freeze_src (tot : Q) (r : rst) : rst :=
  if Qeq_bool tot 0 then with_b r true
  else if negb (Qle_bool tot 0) && negb (Qle_bool (r_a r) 0) then with_b r true
  else if negb (Qle_bool 0 tot) && negb (Qle_bool 0 (r_a r)) then with_b r true
  else r.
