(* C18 - rectangle_aabb (model/C18Aabb.v): the result contains the image of every point of the rectangle and is the
   smallest axis-aligned box that does. *)
From Coq Require Import QArith Qminmax Lqa List Bool.
Require Import WV.model.C18Aabb.
Import ListNotations.
Open Scope Q_scope.

Lemma min4_le a b c d : min4 a b c d <= a /\ min4 a b c d <= b /\ min4 a b c d <= c /\ min4 a b c d <= d.
Proof.
  unfold min4. pose proof (Q.le_min_l (Qmin (Qmin a b) c) d). pose proof (Q.le_min_r (Qmin (Qmin a b) c) d).
  pose proof (Q.le_min_l (Qmin a b) c). pose proof (Q.le_min_r (Qmin a b) c).
  pose proof (Q.le_min_l a b). pose proof (Q.le_min_r a b). repeat split; lra.
Qed.
Lemma max4_ge a b c d : a <= max4 a b c d /\ b <= max4 a b c d /\ c <= max4 a b c d /\ d <= max4 a b c d.
Proof.
  unfold max4. pose proof (Q.le_max_l (Qmax (Qmax a b) c) d). pose proof (Q.le_max_r (Qmax (Qmax a b) c) d).
  pose proof (Q.le_max_l (Qmax a b) c). pose proof (Q.le_max_r (Qmax a b) c).
  pose proof (Q.le_max_l a b). pose proof (Q.le_max_r a b). repeat split; lra.
Qed.
Lemma min4_cases a b c d : min4 a b c d == a \/ min4 a b c d == b \/ min4 a b c d == c \/ min4 a b c d == d.
Proof.
  unfold min4. destruct (Q.min_dec (Qmin (Qmin a b) c) d) as [E|E]; rewrite E; [|right; right; right; reflexivity].
  destruct (Q.min_dec (Qmin a b) c) as [E'|E']; rewrite E'; [|right; right; left; reflexivity].
  destruct (Q.min_dec a b) as [E''|E'']; rewrite E''; [left|right; left]; reflexivity.
Qed.
Lemma max4_cases a b c d : max4 a b c d == a \/ max4 a b c d == b \/ max4 a b c d == c \/ max4 a b c d == d.
Proof.
  unfold max4. destruct (Q.max_dec (Qmax (Qmax a b) c) d) as [E|E]; rewrite E; [|right; right; right; reflexivity].
  destruct (Q.max_dec (Qmax a b) c) as [E'|E']; rewrite E'; [|right; right; left; reflexivity].
  destruct (Q.max_dec a b) as [E''|E'']; rewrite E''; [left|right; left]; reflexivity.
Qed.

(* a point of a segment lies between the ends *)
Lemma between_lo lo a b s : lo <= a -> lo <= b -> 0 <= s <= 1 -> lo <= a + s * (b - a).
Proof. intros. nra. Qed.
Lemma between_hi hi a b s : a <= hi -> b <= hi -> 0 <= s <= 1 -> a + s * (b - a) <= hi.
Proof. intros. nra. Qed.

Definition in_rect (r : Q * Q * Q * Q) (p : Q * Q) : Prop :=
  let '(x1, y1, x2, y2) := r in x1 <= fst p <= x2 /\ y1 <= snd p <= y2.

(* coordinate of the image of (x + s w, y + t h) as a point of the segment between two points of opposite edges *)
Lemma bilinear (a c e x y w h s t : Q) :
  (x + s * w) * a + (y + t * h) * c + 1 * e ==
  let c1 := x * a + y * c + 1 * e in let c2 := (x + w) * a + y * c + 1 * e in
  let c3 := x * a + (y + h) * c + 1 * e in let c4 := (x + w) * a + (y + h) * c + 1 * e in
  let e1 := c1 + s * (c2 - c1) in let e2 := c3 + s * (c4 - c3) in e1 + t * (e2 - e1).
Proof. cbv zeta. ring. Qed.

Theorem aabb_contains m x y w h s t :
  0 <= s <= 1 -> 0 <= t <= 1 ->
  in_rect (rectangle_aabb (Some m) x y w h) (transform_point m (x + s * w) (y + t * h)).
Proof.
  intros Hs Ht. destruct m as [[[[[a b] c] d] e] f]. cbn [rectangle_aabb transform_point in_rect fst snd].
  rewrite (bilinear a c e), (bilinear b d f). cbv zeta.
  set (c1 := x * a + y * c + 1 * e). set (c2 := (x + w) * a + y * c + 1 * e).
  set (c3 := x * a + (y + h) * c + 1 * e). set (c4 := (x + w) * a + (y + h) * c + 1 * e).
  set (d1 := x * b + y * d + 1 * f). set (d2 := (x + w) * b + y * d + 1 * f).
  set (d3 := x * b + (y + h) * d + 1 * f). set (d4 := (x + w) * b + (y + h) * d + 1 * f).
  destruct (min4_le c1 c2 c3 c4) as (? & ? & ? & ?). destruct (max4_ge c1 c2 c3 c4) as (? & ? & ? & ?).
  destruct (min4_le d1 d2 d3 d4) as (? & ? & ? & ?). destruct (max4_ge d1 d2 d3 d4) as (? & ? & ? & ?).
  repeat split.
  - apply between_lo; [apply between_lo| apply between_lo|]; assumption.
  - apply between_hi; [apply between_hi| apply between_hi|]; assumption.
  - apply between_lo; [apply between_lo| apply between_lo|]; assumption.
  - apply between_hi; [apply between_hi| apply between_hi|]; assumption.
Qed.

Theorem aabb_smallest m x y w h bx1 by1 bx2 by2 :
  (forall s t, 0 <= s <= 1 -> 0 <= t <= 1 ->
     in_rect (bx1, by1, bx2, by2) (transform_point m (x + s * w) (y + t * h))) ->
  let '(x1, y1, x2, y2) := rectangle_aabb (Some m) x y w h in
  bx1 <= x1 /\ by1 <= y1 /\ x2 <= bx2 /\ y2 <= by2.
Proof.
  intros H. destruct m as [[[[[a b] c] d] e] f].
  assert (H00 := H 0 0 ltac:(lra) ltac:(lra)). assert (H10 := H 1 0 ltac:(lra) ltac:(lra)).
  assert (H01 := H 0 1 ltac:(lra) ltac:(lra)). assert (H11 := H 1 1 ltac:(lra) ltac:(lra)).
  cbn [rectangle_aabb transform_point in_rect fst snd] in *.
  set (c1 := x * a + y * c + 1 * e). set (c2 := (x + w) * a + y * c + 1 * e).
  set (c3 := x * a + (y + h) * c + 1 * e). set (c4 := (x + w) * a + (y + h) * c + 1 * e).
  set (d1 := x * b + y * d + 1 * f). set (d2 := (x + w) * b + y * d + 1 * f).
  set (d3 := x * b + (y + h) * d + 1 * f). set (d4 := (x + w) * b + (y + h) * d + 1 * f).
  assert (E1 : (x + 0 * w) * a + (y + 0 * h) * c + 1 * e == c1) by (unfold c1; ring).
  assert (E2 : (x + 1 * w) * a + (y + 0 * h) * c + 1 * e == c2) by (unfold c2; ring).
  assert (E3 : (x + 0 * w) * a + (y + 1 * h) * c + 1 * e == c3) by (unfold c3; ring).
  assert (E4 : (x + 1 * w) * a + (y + 1 * h) * c + 1 * e == c4) by (unfold c4; ring).
  assert (F1 : (x + 0 * w) * b + (y + 0 * h) * d + 1 * f == d1) by (unfold d1; ring).
  assert (F2 : (x + 1 * w) * b + (y + 0 * h) * d + 1 * f == d2) by (unfold d2; ring).
  assert (F3 : (x + 0 * w) * b + (y + 1 * h) * d + 1 * f == d3) by (unfold d3; ring).
  assert (F4 : (x + 1 * w) * b + (y + 1 * h) * d + 1 * f == d4) by (unfold d4; ring).
  rewrite E1, F1 in H00. rewrite E2, F2 in H10. rewrite E3, F3 in H01. rewrite E4, F4 in H11.
  repeat split.
  - destruct (min4_cases c1 c2 c3 c4) as [E|[E|[E|E]]]; rewrite E; tauto.
  - destruct (min4_cases d1 d2 d3 d4) as [E|[E|[E|E]]]; rewrite E; tauto.
  - destruct (max4_cases c1 c2 c3 c4) as [E|[E|[E|E]]]; rewrite E; tauto.
  - destruct (max4_cases d1 d2 d3 d4) as [E|[E|[E|E]]]; rewrite E; tauto.
Qed.

(* without a transform in force the rectangle itself is returned: it is its own bounding box *)
Theorem aabb_no_transform x y w h s t :
  0 <= w -> 0 <= h -> 0 <= s <= 1 -> 0 <= t <= 1 ->
  in_rect (rectangle_aabb None x y w h) (x + s * w, y + t * h) /\
  rectangle_aabb None x y w h = (x, y, x + w, y + h).
Proof. intros. cbn [rectangle_aabb in_rect fst snd]. repeat split; nra. Qed.

(* a 30-60-90-like rotation by the 3-4-5 triangle: two opposite corners would not span the box *)
Example aabb_example :
  rect_eqb (rectangle_aabb (Some (3#5, 4#5, -(4#5), 3#5, 0, 0)) 0 0 100 20) (-16, 0, 60, 92) = true.
Proof. vm_compute. reflexivity. Qed.
