(* C03 / C04 - _break_line of weasyprint/layout/block.py as REGENERATED from the source on every run
   (gen/GenBreakLine.v): the orphans / widows decision taken when a line of a paragraph overflows the page.
   For every number of placed lines, of lines left in the iterator, every orphans, every widows >= 1 and both values
   of page_is_empty the regenerated body returns what `Frag2.break_line` decides (cancel the box / stop and give
   back `drop` lines), and leaves in new_children exactly `Frag2.removelast_n drop` of the placed lines.
   remove_placeholders is a statement oracle (any function of its arguments); "%dict1" is the display {k: v}. *)
From Coq Require Import QArith Qminmax Lqa List String Bool ZArith Lia.
Require Import WV.base.Py WV.gen.GenBreakLine WV.proofs.C10_gen_env.
Require WV.model.Frag2 WV.proofs.PyNatural.
Import ListNotations.
Open Scope string_scope.
Open Scope list_scope.

(* ---- integers among the rationals ---- *)
Lemma Qred_inject z : Qred (inject_Z z) = inject_Z z.
Proof.
  unfold Qred, inject_Z.
  pose proof (Z.ggcd_gcd z 1) as Hg. pose proof (Z.ggcd_correct_divisors z 1) as Hd.
  destruct (Z.ggcd z 1) as [g [aa bb]]. cbn [fst snd] in *. rewrite Z.gcd_1_r in Hg. subst g.
  destruct Hd as [Ha Hb]. rewrite Z.mul_1_l in Ha, Hb. subst. reflexivity.
Qed.
Lemma as_int_inject z : as_int (inject_Z z) = Some z.
Proof. unfold as_int. rewrite Qred_inject. reflexivity. Qed.
Lemma Qminus_inject a b : Qminus (inject_Z a) (inject_Z b) = inject_Z (a - b).
Proof. unfold Qminus, Qplus, Qopp, inject_Z. cbn [Qnum Qden]. rewrite !Z.mul_1_r. reflexivity. Qed.
Lemma Qle_bool_inject a b : Qle_bool (inject_Z a) (inject_Z b) = (a <=? b)%Z.
Proof. unfold Qle_bool, inject_Z. cbn [Qnum Qden]. rewrite !Z.mul_1_r. reflexivity. Qed.
Lemma Qeq_bool_inject a b : Qeq_bool (inject_Z a) (inject_Z b) = (a =? b)%Z.
Proof.
  destruct (Qeq_bool (inject_Z a) (inject_Z b)) eqn:E; symmetry.
  - apply Qeq_bool_iff in E. apply Z.eqb_eq. unfold Qeq, inject_Z in E. cbn [Qnum Qden] in E. lia.
  - apply Z.eqb_neq. intros ->.
    assert (H : Qeq_bool (inject_Z b) (inject_Z b) = true) by (apply Qeq_bool_iff; reflexivity). congruence.
Qed.

Lemma exec_block_cons O A kret kerr s l rho k :
  exec_block O A kret kerr (s :: l) rho k =
  exec O A kret kerr s rho (fun rho' => if flowing rho' then k rho' else exec_block O A kret kerr l rho' k).
Proof. reflexivity. Qed.
Lemma exec_block_nil O A kret kerr rho k : exec_block O A kret kerr [] rho k = k rho.
Proof. reflexivity. Qed.
Lemma exec_if O A kret kerr c th el rho k :
  exec O A kret kerr (SIf c th el) rho k =
  eval O A kerr rho c (fun vc => bool_k O A kerr vc (fun t =>
    if t then exec_block O A kret kerr th rho k else exec_block O A kret kerr el rho k)).
Proof. reflexivity. Qed.
Lemma exec_for O A kret kerr x it b rho k :
  exec O A kret kerr (SFor x it b) rho k =
  eval O A kerr rho it (fun vit =>
    match vit with
    | VList l => gen_iter (fun v rho k' => exec_block O A kret kerr b (update x v rho) k') l rho k
    | VErr m => kerr m | _ => kerr "TypeError" end).
Proof. reflexivity. Qed.

Definition not_err (v : val) : Prop := match v with VErr _ => False | _ => True end.
Definition dict1 (k v : val) : val := VObj [("%key", k); ("%value", v)].
Definition U (x : string) : val := VErr ("unbound:" ++ x).

(* the statements of the body, by position *)
Definition stmt_n (n : nat) : stmt := nth n break_line_body SPass.
Definition loop1_body : list stmt :=
  match stmt_n 3 with SIf _ [_; SFor _ _ b] _ => b | _ => [] end.
Definition then6 : list stmt := match stmt_n 5 with SIf _ th _ => th | _ => [] end.
Definition loop2_body : list stmt := match then6 with [SFor _ _ b; _] => b | _ => [] end.
Definition for6 : stmt := nth 0 then6 SPass.
Definition assign6 : stmt := nth 1 then6 SPass.

Section BL.
Variable T : Type.                          (* the lines already placed on the page *)
Variable kids_of : T -> list val.           (* line.children *)
Variable extra : T -> list (string * val).  (* their other attributes *)
Definition vline (t : T) : val := VObj (("children", VList (kids_of t)) :: extra t).

(* remove_placeholders: any function of its four arguments, answering the state of the three it may mutate *)
Variable rp1 : list (string * val) -> list val -> list val -> list val -> list (string * val).
Variable rp2 rp3 : list (string * val) -> list val -> list val -> list val -> list val.
Variable oc : string -> list val -> val.
Variable fuel : nat.
Definition O : qops := mkOps Qplus Qminus Qmult Qdiv Qmax Qmin Qle_bool Qeq_bool oc fuel.
Hypothesis HR : forall cx l ab fb,
  oc "remove_placeholders" [VObj cx; VList l; VList ab; VList fb] =
  VList [VNone; VObj (rp1 cx l ab fb); VList (rp2 cx l ab fb); VList (rp3 cx l ab fb)].
Hypothesis HD : forall k v, oc "%dict1" [k; v] = dict1 k v.

(* what does not change during the call *)
Variables (o w : Z) (sx bx : list (string * val)) (lc : list val) (lx : list (string * val)).
Variables (rest : list val) (pie : bool) (ix : Z) (sk ra : val).
Hypothesis Hsk : not_err sk.
Definition boxv : val := VObj (("style", VObj (("orphans", vint o) :: ("widows", vint w) :: sx)) :: bx).
Definition linev : val := VObj (("children", VList lc) :: lx).

(* the environment, every local listed from the start *)
Definition Env (cx : list (string * val)) (nc ab fb : list val) (oo nd brk item us cl ch : val) : env :=
  [("context", VObj cx); ("box", boxv); ("line", linev); ("new_children", VList nc);
   ("lines_iterator", VList rest); ("page_is_empty", VBool pie); ("index", vint ix); ("skip_stack", sk);
   ("resume_at", ra); ("absolute_boxes", VList ab); ("fixed_boxes", VList fb);
   ("over_orphans", oo); ("needed", nd); ("%brk", brk); ("%item", item); ("_", us); ("%call", cl); ("child", ch)].

Lemma flowing_Env cx nc ab fb oo nd brk item us cl ch : flowing (Env cx nc ab fb oo nd brk item us cl ch) = false.
Proof. reflexivity. Qed.
Lemma lookup_nc cx nc ab fb oo nd brk item us cl ch :
  lookup "new_children" (Env cx nc ab fb oo nd brk item us cl ch) = VList nc.
Proof. reflexivity. Qed.

(* the loop of statement 4 on (needed, %brk, %item, _) *)
Fixpoint lp (l : list val) (n : Z) (b : bool) (item us : val) : Z * bool * val * val :=
  match l with
  | [] => (n, b, item, us)
  | v :: r => if b then lp r n true v us else lp r (n - 1) (n - 1 =? 0)%Z v v
  end.

(* the loop of statement 6 on the state of the oracle, %call and child *)
Fixpoint rpf (l : list T) (cx : list (string * val)) (ab fb : list val) (cl ch : val)
  : list (string * val) * list val * list val * val * val :=
  match l with
  | [] => (cx, ab, fb, cl, ch)
  | t :: r => rpf r (rp1 cx (kids_of t) ab fb) (rp2 cx (kids_of t) ab fb) (rp3 cx (kids_of t) ab fb) VNone (vline t)
  end.

Section Exec.
Variable A : Type.
Variable kret : env -> val -> A.
Variable kerr : string -> A.

Ltac ev := lazy -[Qminus Qle_bool Qeq_bool inject_Z Z.of_nat List.length Z.sub Z.add Z.opp Z.leb Z.ltb Z.eqb
                  Z.to_nat as_int gen_iter skipn firstn map vline lp rpf].
Ltac evb := lazy -[Qminus Qle_bool Qeq_bool inject_Z Z.of_nat List.length Z.sub Z.add Z.opp Z.leb Z.ltb Z.eqb
                   Z.to_nat as_int gen_iter skipn firstn map vline exec_block lp rpf].
Ltac ints := change (1 # 1)%Q with (inject_Z 1); change (0 # 1)%Q with (inject_Z 0);
             rewrite ?Qminus_inject, ?Qle_bool_inject, ?Qeq_bool_inject, ?as_int_inject.

(* 1: over_orphans = len(new_children) - box.style['orphans'] *)
Lemma L1 cx nc ab fb oo nd brk item us cl ch k :
  exec O A kret kerr (stmt_n 0) (Env cx nc ab fb oo nd brk item us cl ch) k =
  k (Env cx nc ab fb (vint (Z.of_nat (List.length nc) - o)) nd brk item us cl ch).
Proof. unfold vint. rewrite <- Qminus_inject. ev. reflexivity. Qed.

(* 2: if over_orphans < 0 and not page_is_empty: cancel *)
Lemma L2 cx nc ab fb z nd brk item us cl ch k :
  exec O A kret kerr (stmt_n 1) (Env cx nc ab fb (vint z) nd brk item us cl ch) k =
  if (0 <=? z)%Z || pie then k (Env cx nc ab fb (vint z) nd brk item us cl ch)
  else kret (Env (rp1 cx lc ab fb) nc (rp2 cx lc ab fb) (rp3 cx lc ab fb) (vint z) nd brk item us VNone ch)
            (VList [VBool true; VBool false; ra]).
Proof.
  unfold vint. ev. ints. destruct (0 <=? z)%Z; cbn [orb]; [reflexivity|].
  destruct pie; [reflexivity|]. rewrite HR. ev. reflexivity.
Qed.

(* 3: needed = box.style['widows'] - 1 *)
Lemma L3 cx nc ab fb oo nd brk item us cl ch k :
  exec O A kret kerr (stmt_n 2) (Env cx nc ab fb oo nd brk item us cl ch) k =
  k (Env cx nc ab fb oo (vint (w - 1)) brk item us cl ch).
Proof. unfold vint. rewrite <- Qminus_inject. ev. reflexivity. Qed.

(* 4: if needed: for _ in lines_iterator: needed -= 1; if needed == 0: break *)
Lemma loop1_step cx nc ab fb oo n b item us cl ch v k :
  exec_block O A kret kerr loop1_body (update "%item" v (Env cx nc ab fb oo (vint n) (VBool b) item us cl ch)) k =
  if b then k (Env cx nc ab fb oo (vint n) (VBool true) v us cl ch)
  else k (Env cx nc ab fb oo (vint (n - 1)) (VBool (n - 1 =? 0)%Z) v v cl ch).
Proof.
  unfold vint. destruct b; ev; [reflexivity|]. ints. destruct (n - 1 =? 0)%Z; reflexivity.
Qed.

Lemma loop1_spec cx nc ab fb oo cl ch : forall l n b item us k,
  gen_iter (fun v rho k' => exec_block O A kret kerr loop1_body (update "%item" v rho) k') l
           (Env cx nc ab fb oo (vint n) (VBool b) item us cl ch) k =
  let '(n', b', item', us') := lp l n b item us in k (Env cx nc ab fb oo (vint n') (VBool b') item' us' cl ch).
Proof.
  induction l as [|v l IH]; intros n b item us k; [reflexivity|].
  cbn [gen_iter lp]. rewrite loop1_step. destruct b; apply IH.
Qed.

Lemma L4 cx nc ab fb oo n brk item us cl ch k :
  exec O A kret kerr (stmt_n 3) (Env cx nc ab fb oo (vint n) brk item us cl ch) k =
  if (n =? 0)%Z then k (Env cx nc ab fb oo (vint n) brk item us cl ch)
  else let '(n', b', item', us') := lp rest n false item us in
       k (Env cx nc ab fb oo (vint n') (VBool b') item' us' cl ch).
Proof.
  change (stmt_n 3) with (SIf (EVar "needed")
    [SAssign [TVar "%brk"] (EConst (VBool false)); SFor "%item" (EVar "lines_iterator") loop1_body] []).
  rewrite exec_if. unfold vint. evb. ints. destruct (n =? 0)%Z; [reflexivity|].
  rewrite exec_block_cons. evb. rewrite exec_block_cons, exec_for. evb.
  rewrite (loop1_spec cx nc ab fb oo cl ch rest n false item us).
  destruct (lp rest n false item us) as [[[n' b'] item'] us']. evb. reflexivity.
Qed.

(* 5: if needed > over_orphans and not page_is_empty: cancel *)
Lemma L5 cx nc ab fb z n brk item us cl ch k :
  exec O A kret kerr (stmt_n 4) (Env cx nc ab fb (vint z) (vint n) brk item us cl ch) k =
  if (n <=? z)%Z || pie then k (Env cx nc ab fb (vint z) (vint n) brk item us cl ch)
  else kret (Env (rp1 cx lc ab fb) nc (rp2 cx lc ab fb) (rp3 cx lc ab fb) (vint z) (vint n) brk item us VNone ch)
            (VList [VBool true; VBool false; ra]).
Proof.
  unfold vint. ev. ints. destruct (n <=? z)%Z; cbn [orb]; [reflexivity|].
  destruct pie; [reflexivity|]. rewrite HR. ev. reflexivity.
Qed.

(* 6: if needed and needed <= over_orphans: give the last `needed` lines back *)
Lemma loop2_step cx nc ab fb oo nd brk item us cl ch t k :
  exec_block O A kret kerr loop2_body (update "child" (vline t) (Env cx nc ab fb oo nd brk item us cl ch)) k =
  k (Env (rp1 cx (kids_of t) ab fb) nc (rp2 cx (kids_of t) ab fb) (rp3 cx (kids_of t) ab fb)
         oo nd brk item us VNone (vline t)).
Proof.
  unfold vline. lazy -[Qminus Qle_bool Qeq_bool inject_Z map]. rewrite HR.
  lazy -[Qminus Qle_bool Qeq_bool inject_Z map]. reflexivity.
Qed.

Lemma loop2_spec nc oo nd brk item us : forall l cx ab fb cl ch k,
  gen_iter (fun v rho k' => exec_block O A kret kerr loop2_body (update "child" v rho) k') (map vline l)
           (Env cx nc ab fb oo nd brk item us cl ch) k =
  let '(cx', ab', fb', cl', ch') := rpf l cx ab fb cl ch in k (Env cx' nc ab' fb' oo nd brk item us cl' ch').
Proof.
  induction l as [|t l IH]; intros cx ab fb cl ch k; [reflexivity|].
  cbn [map gen_iter rpf]. rewrite loop2_step. apply IH.
Qed.

Lemma L6 cx nc ab fb z n brk item us cl ch k :
  exec O A kret kerr (stmt_n 5) (Env cx nc ab fb (vint z) (vint n) brk item us cl ch) k =
  if negb (n =? 0)%Z && (n <=? z)%Z then exec_block O A kret kerr then6 (Env cx nc ab fb (vint z) (vint n) brk item us cl ch) k
  else k (Env cx nc ab fb (vint z) (vint n) brk item us cl ch).
Proof.
  change (stmt_n 5) with (SIf (EAnd (EVar "needed") (ECmp (EVar "needed") [(LtE, EVar "over_orphans")])) then6 []).
  rewrite exec_if. unfold vint. evb. ints.
  destruct (n =? 0)%Z; cbn [negb andb]; [reflexivity|]. destruct (n <=? z)%Z; reflexivity.
Qed.

Definition tail_from (nc : list val) (n : Z) : list val :=
  if (0 <=? 0 - n)%Z then skipn (Z.to_nat (0 - n)) nc else skipn (Z.to_nat (Z.of_nat (List.length nc) + (0 - n))) nc.
Definition head_to (nc : list val) (n : Z) : list val :=
  if (0 <=? 0 - n)%Z then firstn (Z.to_nat (0 - n)) nc else firstn (Z.to_nat (Z.of_nat (List.length nc) + (0 - n))) nc.

Lemma L6a cx nc ab fb oo n brk item us cl ch k :
  exec O A kret kerr for6 (Env cx nc ab fb oo (vint n) brk item us cl ch) k =
  gen_iter (fun v rho k' => exec_block O A kret kerr loop2_body (update "child" v rho) k') (tail_from nc n)
           (Env cx nc ab fb oo (vint n) brk item us cl ch) k.
Proof.
  change for6 with (SFor "child" (EPrim PSliceFrom [EVar "new_children"; EBin Sub (EConst (VNum 0)) (EVar "needed")])
                         loop2_body).
  rewrite exec_for. unfold vint, tail_from. evb. ints. evb. destruct (0 <=? 0 - n)%Z; reflexivity.
Qed.

Lemma L6b cx nc ab fb oo n brk item us cl ch k :
  exec O A kret kerr assign6 (Env cx nc ab fb oo (vint n) brk item us cl ch) k =
  k (Env cx (head_to nc n) ab fb oo (vint n) brk item us cl ch).
Proof.
  unfold vint, head_to. evb. ints. evb. destruct (0 <=? 0 - n)%Z; reflexivity.
Qed.

(* 7: remove_placeholders(context, line.children, ..) *)
Lemma L7 cx nc ab fb oo nd brk item us cl ch k :
  exec O A kret kerr (stmt_n 6) (Env cx nc ab fb oo nd brk item us cl ch) k =
  k (Env (rp1 cx lc ab fb) nc (rp2 cx lc ab fb) (rp3 cx lc ab fb) oo nd brk item us VNone ch).
Proof. ev. rewrite HR. ev. reflexivity. Qed.

(* 8: return False, True, {index: skip_stack} *)
Lemma L8 cx nc ab fb oo nd brk item us cl ch k :
  exec O A kret kerr (stmt_n 7) (Env cx nc ab fb oo nd brk item us cl ch) k =
  kret (Env cx nc ab fb oo nd brk item us cl ch) (VList [VBool false; VBool true; dict1 (vint ix) sk]).
Proof.
  unfold vint, Env. generalize Hsk. generalize sk. intros s Hs.
  destruct s; try (exfalso; exact Hs); ev; rewrite HD; reflexivity.
Qed.
End Exec.

(* ---- the whole body ---- *)
Definition abort_ret : val := VList [VBool true; VBool false; ra].
Definition stop_ret : val := VList [VBool false; VBool true; dict1 (vint ix) sk].
(* the decision in the source's own terms, on integers: None = the box is cancelled, Some d = stop, d lines given back *)
Definition src_break_line (len rem : Z) : option Z :=
  let oo := (len - o)%Z in
  if (0 <=? oo)%Z || pie then
    let nd := (w - 1 - Z.min (w - 1) rem)%Z in
    if (nd <=? oo)%Z || pie then
      if negb (nd =? 0)%Z && (nd <=? oo)%Z then Some nd else Some 0%Z
    else None
  else None.

Lemma lp_n : forall l n b i u,
  (b = true -> fst (fst (fst (lp l n b i u))) = n) /\
  (b = false -> (1 <= n)%Z -> fst (fst (fst (lp l n b i u))) = (n - Z.min n (Z.of_nat (List.length l)))%Z).
Proof.
  induction l as [|v l IH]; intros n b i u; cbn [lp List.length].
  - split; intros; cbn [fst]; [reflexivity|lia].
  - destruct b.
    + split; [intros _|discriminate]. apply (IH n true v u). reflexivity.
    + split; [discriminate|intros _ Hn]. rewrite Nat2Z.inj_succ.
      destruct (n - 1 =? 0)%Z eqn:E.
      * apply Z.eqb_eq in E. destruct (IH (n - 1)%Z true v v) as [H _]. rewrite (H eq_refl). lia.
      * apply Z.eqb_neq in E. destruct (IH (n - 1)%Z false v v) as [_ H]. rewrite (H eq_refl) by lia. lia.
Qed.

Definition env0 (cx : list (string * val)) (nc ab fb : list val) : env :=
  [("context", VObj cx); ("box", boxv); ("line", linev); ("new_children", VList nc);
   ("lines_iterator", VList rest); ("page_is_empty", VBool pie); ("index", vint ix); ("skip_stack", sk);
   ("resume_at", ra); ("absolute_boxes", VList ab); ("fixed_boxes", VList fb)].

Lemma env0_Env cx nc ab fb :
  env_eqv (env0 cx nc ab fb)
          (Env cx nc ab fb (U "over_orphans") (U "needed") (U "%brk") (U "%item") (U "_") (U "%call") (U "child")).
Proof.
  intros x. unfold env0, Env, U. cbn [lookup].
  repeat match goal with
         | |- context [String.eqb x ?k] =>
             let H := fresh "Hx" in
             destruct (String.eqb x k) eqn:H; [try reflexivity; apply String.eqb_eq in H; subst x; reflexivity|]
         end.
  reflexivity.
Qed.

Section Whole.
Variable Post : val -> list val -> Prop.
Definition obs (rho : env) (r : option val) : Prop :=
  match r, lookup "new_children" rho with Some v, VList l => Post v l | _, _ => False end.
Let kret (rho : env) (v : val) : Prop := obs rho (Some v).
Let kerr (m : string) : Prop := False.
Let kend (rho : env) : Prop := obs rho None.

(* statements 5 to 8, for any value of needed >= 0 *)
Lemma tail_spec (ncs : list T) z n cx ab fb brk item us cl ch :
  (0 <= n)%Z ->
  (if (n <=? z)%Z || pie then
     if negb (n =? 0)%Z && (n <=? z)%Z
     then Post stop_ret (firstn (Z.to_nat (Z.of_nat (List.length ncs) - n)) (map vline ncs))
     else Post stop_ret (map vline ncs)
   else Post abort_ret (map vline ncs)) ->
  exec_block O Prop kret kerr [stmt_n 4; stmt_n 5; stmt_n 6; stmt_n 7]
    (Env cx (map vline ncs) ab fb (vint z) (vint n) brk item us cl ch) kend.
Proof.
  intros Hn H.
  rewrite exec_block_cons, L5.
  destruct ((n <=? z)%Z || pie); [|unfold kret, obs; rewrite lookup_nc; exact H].
  rewrite flowing_Env, exec_block_cons, L6.
  destruct (negb (n =? 0)%Z && (n <=? z)%Z) eqn:C.
  - apply andb_prop in C. destruct C as [C0 _]. apply negb_true_iff, Z.eqb_neq in C0.
    change then6 with [for6; assign6].
    rewrite exec_block_cons, L6a. unfold tail_from.
    replace (0 <=? 0 - n)%Z with false by (symmetry; apply Z.leb_gt; lia).
    rewrite skipn_map, loop2_spec.
    destruct (rpf _ cx ab fb cl ch) as [[[[cx' ab'] fb'] cl'] ch'].
    rewrite flowing_Env, exec_block_cons, L6b, flowing_Env, exec_block_nil.
    rewrite flowing_Env, exec_block_cons, L7, flowing_Env, exec_block_cons, L8.
    unfold kret, obs. rewrite lookup_nc. unfold head_to.
    replace (0 <=? 0 - n)%Z with false by (symmetry; apply Z.leb_gt; lia).
    rewrite map_length.
    replace (Z.of_nat (List.length ncs) + (0 - n))%Z with (Z.of_nat (List.length ncs) - n)%Z by lia.
    exact H.
  - rewrite flowing_Env, exec_block_cons, L7, flowing_Env, exec_block_cons, L8.
    unfold kret, obs. rewrite lookup_nc. exact H.
Qed.

Theorem gen_break_line_run (ncs : list T) cx ab fb :
  (1 <= w)%Z ->
  match src_break_line (Z.of_nat (List.length ncs)) (Z.of_nat (List.length rest)) with
  | None => Post abort_ret (map vline ncs)
  | Some d => Post stop_ret (firstn (Z.to_nat (Z.of_nat (List.length ncs) - d)) (map vline ncs))
  end ->
  run O break_line_body (env0 cx (map vline ncs) ab fb) obs (fun _ => False).
Proof.
  intros Hw H.
  rewrite (run_env_eqv _ _ _ _ _ _ (env0_Env cx (map vline ncs) ab fb)).
  2:{ intros a b r Hab. unfold obs. now rewrite (Hab "new_children"). }
  unfold run. fold kend. change (fun (rho : env) (v : val) => obs rho (Some v)) with kret.
  change (fun _ : string => False) with kerr.
  change break_line_body with [stmt_n 0; stmt_n 1; stmt_n 2; stmt_n 3; stmt_n 4; stmt_n 5; stmt_n 6; stmt_n 7].
  rewrite exec_block_cons, L1, flowing_Env, exec_block_cons, L2. rewrite map_length.
  unfold src_break_line in H.
  set (z := (Z.of_nat (List.length ncs) - o)%Z) in *.
  destruct ((0 <=? z)%Z || pie); [|unfold kret, obs; rewrite lookup_nc; exact H].
  rewrite flowing_Env, exec_block_cons, L3, flowing_Env, exec_block_cons, L4.
  set (nd := (w - 1 - Z.min (w - 1) (Z.of_nat (List.length rest)))%Z) in *.
  assert (Hfin : forall n brk item us, n = nd ->
            exec_block O Prop kret kerr [stmt_n 4; stmt_n 5; stmt_n 6; stmt_n 7]
              (Env cx (map vline ncs) ab fb (vint z) (vint n) brk item us (U "%call") (U "child")) kend).
  { intros n brk item us ->. apply tail_spec; [subst nd; lia|].
    destruct ((nd <=? z)%Z || pie); [|exact H].
    destruct (negb (nd =? 0)%Z && (nd <=? z)%Z) eqn:C; [exact H|].
    rewrite Z.sub_0_r, Nat2Z.id, <- (map_length vline ncs), firstn_all in H. exact H. }
  destruct (w - 1 =? 0)%Z eqn:E.
  - apply Z.eqb_eq in E. rewrite flowing_Env. apply Hfin. subst nd. lia.
  - apply Z.eqb_neq in E.
    pose proof (lp_n rest (w - 1)%Z false (U "%item") (U "_")) as [_ Hl].
    destruct (lp rest (w - 1)%Z false (U "%item") (U "_")) as [[[n' b'] item'] us']. cbn [fst] in Hl.
    rewrite flowing_Env. apply Hfin. rewrite Hl by (reflexivity || lia). reflexivity.
Qed.
End Whole.

(* the decision on integers is Frag2.break_line's *)
Lemma src_break_line_model (st : Frag2.style) (np rem : nat) :
  o = Z.of_nat (Frag2.s_orphans st) -> w = Z.of_nat (Frag2.s_widows st) -> (1 <= Frag2.s_widows st)%nat ->
  src_break_line (Z.of_nat np) (Z.of_nat rem) = option_map Z.of_nat (Frag2.break_line st np rem pie).
Proof.
  intros Ho Hw H1. unfold src_break_line, Frag2.break_line. rewrite Ho, Hw.
  set (needed := (Frag2.s_widows st - 1 - Nat.min (Frag2.s_widows st - 1) rem)%nat).
  replace (Z.of_nat (Frag2.s_widows st) - 1 - Z.min (Z.of_nat (Frag2.s_widows st) - 1) (Z.of_nat rem))%Z
    with (Z.of_nat needed) by (subst needed; lia).
  set (oo := (Z.of_nat np - Z.of_nat (Frag2.s_orphans st))%Z).
  rewrite !Z.ltb_antisym.
  destruct (Z.leb_spec 0 oo), pie, (Z.leb_spec (Z.of_nat needed) oo), (Nat.eqb_spec needed 0),
           (Z.eqb_spec (Z.of_nat needed) 0); cbn; try reflexivity; try lia.
Qed.

(* the regenerated body decides what the model decides and leaves the lines the model leaves *)
Theorem gen_break_line_model (st : Frag2.style) (ncs : list T) cx ab fb :
  o = Z.of_nat (Frag2.s_orphans st) -> w = Z.of_nat (Frag2.s_widows st) -> (1 <= Frag2.s_widows st)%nat ->
  run O break_line_body (env0 cx (map vline ncs) ab fb)
    (fun rho r =>
       match Frag2.break_line st (List.length ncs) (List.length rest) pie with
       | None => r = Some abort_ret /\ lookup "new_children" rho = VList (map vline ncs)
       | Some drop => r = Some stop_ret /\
                      lookup "new_children" rho = VList (map vline (Frag2.removelast_n drop ncs))
       end)
    (fun _ => False).
Proof.
  intros Ho Hw H1.
  pose (Post := fun (v : val) (l : list val) =>
    match Frag2.break_line st (List.length ncs) (List.length rest) pie with
    | None => v = abort_ret /\ l = map vline ncs
    | Some drop => v = stop_ret /\ l = map vline (Frag2.removelast_n drop ncs)
    end).
  assert (H : run O break_line_body (env0 cx (map vline ncs) ab fb) (obs Post) (fun _ => False)).
  { apply gen_break_line_run; [lia|].
    rewrite (src_break_line_model st _ _ Ho Hw H1). unfold Post.
    destruct (Frag2.break_line st (List.length ncs) (List.length rest) pie) as [drop|]; cbn [option_map].
    - split; [reflexivity|]. unfold Frag2.removelast_n. rewrite firstn_map. f_equal. f_equal. lia.
    - split; reflexivity. }
  rewrite WV.proofs.PyNatural.run_natural in *.
  destruct (WV.proofs.PyNatural.run_out O break_line_body _) as [rho r|m]; [|exact H].
  unfold obs, Post in H. destruct r as [v|]; [|contradiction].
  destruct (lookup "new_children" rho); try contradiction.
  destruct (Frag2.break_line st (List.length ncs) (List.length rest) pie); destruct H as [-> ->]; split; reflexivity.
Qed.
End BL.

(* ---- for every operations record with exact arithmetic ---- *)
Section Ops.
Variable T : Type.
Variable kids_of : T -> list val.
Variable extra : T -> list (string * val).
Variable rp1 : list (string * val) -> list val -> list val -> list val -> list (string * val).
Variable rp2 rp3 : list (string * val) -> list val -> list val -> list val -> list val.
Variable Ops : qops.
Hypothesis HO : ops_ok Ops.
Hypothesis HR : forall cx l ab fb,
  ocall Ops "remove_placeholders" [VObj cx; VList l; VList ab; VList fb] =
  VList [VNone; VObj (rp1 cx l ab fb); VList (rp2 cx l ab fb); VList (rp3 cx l ab fb)].
Hypothesis HD : forall k v, ocall Ops "%dict1" [k; v] = dict1 k v.

Definition bl_env (st : Frag2.style) sx bx lc lx rest pie ix sk ra cx (ncs : list T) ab fb : env :=
  env0 (Z.of_nat (Frag2.s_orphans st)) (Z.of_nat (Frag2.s_widows st)) sx bx lc lx rest pie ix sk ra
       cx (map (vline T kids_of extra) ncs) ab fb.

Theorem gen_break_line st sx bx lc lx rest pie ix sk ra cx (ncs : list T) ab fb :
  not_err sk -> (1 <= Frag2.s_widows st)%nat ->
  run Ops break_line_body (bl_env st sx bx lc lx rest pie ix sk ra cx ncs ab fb)
    (fun rho r =>
       match Frag2.break_line st (List.length ncs) (List.length rest) pie with
       | None => r = Some (abort_ret ra) /\
                 lookup "new_children" rho = VList (map (vline T kids_of extra) ncs)
       | Some drop => r = Some (stop_ret ix sk) /\
                      lookup "new_children" rho = VList (map (vline T kids_of extra) (Frag2.removelast_n drop ncs))
       end)
    (fun _ => False).
Proof.
  intros Hsk H1.
  destruct Ops as [qa qs qm qd qmx qmn ql qe oc fuel]. destruct HO as [E1 E2 E3 E4 E5 E6 E7 E8].
  cbn [qadd qsub qmul qdiv qmax qmin qleb qeqb ocall] in *. subst.
  exact (gen_break_line_model T kids_of extra rp1 rp2 rp3 oc fuel HR HD _ _ sx bx lc lx rest pie ix sk ra Hsk
           st ncs cx ab fb eq_refl eq_refl H1).
Qed.
End Ops.

(* ---- the C04 clause about the source: when the page is not empty, a break inside a paragraph (the body answers
   abort = False, stop = True) leaves at least `orphans` lines on the page and at least `widows` lines (the line that
   overflowed, the lines given back and the lines still to come) for the next one ---- *)
Require WV.proofs.C04_breaks.
Section Clause.
Variable T : Type.
Variable kids_of : T -> list val.
Variable extra : T -> list (string * val).
Variable rp1 : list (string * val) -> list val -> list val -> list val -> list (string * val).
Variable rp2 rp3 : list (string * val) -> list val -> list val -> list val -> list val.
Variable Ops : qops.
Hypothesis HO : ops_ok Ops.
Hypothesis HR : forall cx l ab fb,
  ocall Ops "remove_placeholders" [VObj cx; VList l; VList ab; VList fb] =
  VList [VNone; VObj (rp1 cx l ab fb); VList (rp2 cx l ab fb); VList (rp3 cx l ab fb)].
Hypothesis HD : forall k v, ocall Ops "%dict1" [k; v] = dict1 k v.

Theorem gen_break_line_orphans_widows st sx bx lc lx rest ix sk ra cx (ncs : list T) ab fb :
  not_err sk -> (1 <= Frag2.s_widows st)%nat ->
  run Ops break_line_body (bl_env T kids_of extra st sx bx lc lx rest false ix sk ra cx ncs ab fb)
    (fun rho r =>
       exists abort stop resume kept,
         r = Some (VList [VBool abort; VBool stop; resume]) /\
         lookup "new_children" rho = VList (map (vline T kids_of extra) kept) /\
         (abort = true -> stop = false /\ kept = ncs) /\
         (abort = false -> stop = true /\ (exists drop, kept = Frag2.removelast_n drop ncs) /\
            (Frag2.s_orphans st <= List.length kept)%nat /\
            (Frag2.s_widows st <= List.length ncs + 1 + List.length rest - List.length kept)%nat))
    (fun _ => False).
Proof.
  intros Hsk H1.
  pose proof (gen_break_line T kids_of extra rp1 rp2 rp3 Ops HO HR HD st sx bx lc lx rest false ix sk ra cx ncs ab fb
                Hsk H1) as H.
  rewrite WV.proofs.PyNatural.run_natural in *.
  destruct (WV.proofs.PyNatural.run_out Ops break_line_body _) as [rho r|m]; [|exact H].
  destruct (Frag2.break_line st (List.length ncs) (List.length rest) false) as [drop|] eqn:E; destruct H as [-> Hl].
  - destruct (WV.proofs.C04_breaks.orphans_widows_kept st _ _ _ _ E eq_refl) as [Ho [Hw Hd]].
    exists false, true, (dict1 (vint ix) sk), (Frag2.removelast_n drop ncs).
    split; [reflexivity|]. split; [exact Hl|]. split; [discriminate|]. intros _.
    split; [reflexivity|]. split; [exists drop; reflexivity|].
    unfold Frag2.removelast_n. rewrite firstn_length. lia.
  - exists true, false, ra, ncs. split; [reflexivity|]. split; [exact Hl|].
    split; [intros _; split; reflexivity|discriminate].
Qed.
End Clause.

(* ---- the hypotheses are satisfiable: an operations record whose remove_placeholders changes nothing, and a run:
   orphans 2, widows 3, five lines placed, one more to come: one line is given back (Frag2.break_line = Some 1) ---- *)
Definition ex_calls (f : string) (args : list val) : val :=
  if String.eqb f "%dict1" then match args with [k; v] => dict1 k v | _ => VErr "TypeError" end
  else if String.eqb f "remove_placeholders"
       then match args with [VObj cx; VList l; VList ab; VList fb] => VList [VNone; VObj cx; VList ab; VList fb]
                          | _ => VErr "TypeError" end
       else VErr "NameError".
Definition ex_ops : qops := with_calls real_ops ex_calls.
Lemma ex_ops_hyps :
  ops_ok ex_ops /\
  (forall cx l ab fb, ocall ex_ops "remove_placeholders" [VObj cx; VList l; VList ab; VList fb] =
                      VList [VNone; VObj cx; VList ab; VList fb]) /\
  (forall k v, ocall ex_ops "%dict1" [k; v] = dict1 k v).
Proof. split; [constructor; reflexivity|]. split; intros; reflexivity. Qed.

Example gen_break_line_example :
  let st := Frag2.mkStyle 0 0 0 0 0 0 Frag2.BAuto Frag2.BAuto Frag2.BAuto 2 3 false in
  Frag2.break_line st 5 1 false = Some 1%nat /\
  run ex_ops break_line_body
    (bl_env nat (fun _ => []) (fun n => [("id", vint (Z.of_nat n))]) st [] [] [] [] [VNone] false 7 VNone VNone [] [1; 2; 3; 4; 5]%nat [] [])
    (fun rho r => r = Some (VList [VBool false; VBool true; dict1 (vint 7) VNone]) /\
                  lookup "new_children" rho =
                  VList (map (vline nat (fun _ => []) (fun n => [("id", vint (Z.of_nat n))])) [1; 2; 3; 4]%nat))
    (fun _ => False).
Proof. split; [reflexivity|]. vm_compute. split; reflexivity. Qed.
