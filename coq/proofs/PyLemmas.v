(* Once-and-for-all lemmas about the interpreter's list constructs. *)
From Coq Require Import QArith Qminmax Lqa List String Bool.
Require Import WV.base.Py.
Import ListNotations.
Open Scope string_scope.
Open Scope list_scope.

Lemma gen_collect_filter {R} (f : val -> (option val -> R) -> R) (p : Q -> bool) :
  (forall q kk, f (VNum q) kk = if p q then kk (Some (VNum q)) else kk None) ->
  forall l acc k, gen_collect f (map VNum l) acc k = k (rev acc ++ map VNum (filter p l)).
Proof.
  intros Hf l. induction l as [|q l IH]; intros acc k; simpl.
  - now rewrite app_nil_r.
  - rewrite Hf. destruct (p q); rewrite IH; simpl; [|reflexivity].
    now rewrite <- app_assoc.
Qed.

(* max/min over a non-empty list of numbers is a left fold *)
Lemma minmax_k_nums O {R} (err : string -> R) (ismax : bool) q0 (l : list Q) (k : val -> R) :
  minmax_k O R err ismax (VNum q0 :: map VNum l) k =
  k (VNum (fold_left (fun a b => if ismax then qmax O a b else qmin O a b) l q0)).
Proof.
  unfold minmax_k. revert q0. induction l as [|q l IH]; intros q0; simpl; [reflexivity|].
  apply IH.
Qed.

