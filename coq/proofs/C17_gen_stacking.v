(* C17 - StackingContext.__init__ of weasyprint/stacking.py as REGENERATED from the source on every run
   (gen/GenStacking.v): for every box, every list of child contexts (objects whose z_index is an integer) and
   whatever the four lists and the page are, the constructor leaves in `self` exactly the components of the hand
   model mk_ctx of model/C17Stacking.v, on which the paint-order theorems of C17 rest:
     negative_z_contexts = sort_z (children with z < 0),  zero_z_contexts = children with z = 0 (tree order),
     positive_z_contexts = sort_z (the others),  z_index = zctx (0 when auto, or when z-index does not apply:
     position static and neither a flex nor a grid item).
   `self.x.append(c)` is printed as `self.x = self.x + [c]` and `self.x.sort(key=lambda c: c.z_index)` as the
   primitive PSortedByAttr of base/Py.v (a stable insertion sort on the numeric attribute), see tools/py2coq.py. *)
From Coq Require Import ZArith QArith List String Bool Lia.
Require Import WV.base.Py WV.gen.GenStacking WV.model.C17Stacking.
Require WV.proofs.PyNatural.
Import ListNotations.
Open Scope string_scope.
Open Scope list_scope.

(* ------------------------------------------------------------------ how a box and a context are read *)
Definition pos_name (p : position) : string :=
  match p with PStatic => "static" | PRelative => "relative" | PAbsolute => "absolute" | PFixed => "fixed"
             | PSticky => "sticky" end.
Definition vz (z : option Z) : val := match z with Some n => VNum (inject_Z n) | None => VStr "auto" end.
(* box.style['z_index'], box.style['position'], box.is_flex_item, box.is_grid_item; [es], [eb]: whatever else the
   style and the box carry *)
Definition vbox (i : info) (es eb : list (string * val)) : val :=
  VObj (("style", VObj (("z_index", vz (zi i)) :: ("position", VStr (pos_name (pos i))) :: es)) ::
        ("is_flex_item", VBool (fit i)) :: ("is_grid_item", VBool (git i)) :: eb).

Lemma Qle_bool_0_inject z : Qle_bool (0 # 1) (inject_Z z) = (0 <=? z)%Z.
Proof. unfold Qle_bool, inject_Z; cbn [Qnum Qden]. rewrite !Z.mul_1_r. reflexivity. Qed.
Lemma Qeq_bool_inject_0 z : Qeq_bool (inject_Z z) (0 # 1) = (z =? 0)%Z.
Proof. unfold Qeq_bool, Zeq_bool, inject_Z; cbn [Qnum Qden]. rewrite Z.mul_1_r. cbn [Z.mul].
       rewrite Z.eqb_compare. destruct (z ?= 0)%Z; reflexivity. Qed.
Lemma Qle_bool_inject a b : Qle_bool (inject_Z a) (inject_Z b) = (a <=? b)%Z.
Proof. unfold Qle_bool, inject_Z; cbn [Qnum Qden]. now rewrite !Z.mul_1_r. Qed.

Section Init.
Variable C : Type.                              (* the child contexts, with whatever attributes they have *)
Variable cz : C -> Z.                           (* their z_index *)
Variable cextra : C -> list (string * val).
Definition vctx (c : C) : val := VObj (("z_index", VNum (inject_Z (cz c))) :: cextra c).

(* ---- the primitive: list.sort(key=lambda c: c.z_index) on such objects is the model's stable sort_z *)
Lemma attr_keys_vctx l :
  attr_keys "z_index" (map vctx l) = Some (map (fun c => (inject_Z (cz c), vctx c)) l).
Proof. induction l as [|c l IH]; [reflexivity|]. cbn [map attr_keys vctx obj_attr String.eqb Ascii.eqb Bool.eqb].
       fold (vctx c). rewrite IH. reflexivity. Qed.
Lemma key_insert_vctx c l :
  key_insert (inject_Z (cz c)) (vctx c) (map (fun c => (inject_Z (cz c), vctx c)) l) =
  map (fun c => (inject_Z (cz c), vctx c)) (insert_z cz c l).
Proof.
  induction l as [|y l IH]; [reflexivity|]. cbn [map key_insert insert_z]. rewrite Qle_bool_inject.
  destruct (cz c <=? cz y)%Z; [reflexivity|]. cbn [map]. now rewrite IH.
Qed.
Lemma key_sort_vctx l :
  key_sort (map (fun c => (inject_Z (cz c), vctx c)) l) = map (fun c => (inject_Z (cz c), vctx c)) (sort_z cz l).
Proof. induction l as [|c l IH]; [reflexivity|]. cbn [map key_sort sort_z]. rewrite IH. apply key_insert_vctx. Qed.
Lemma sorted_prim l :
  prim_apply PSortedByAttr [VList (map vctx l); VStr "z_index"] = VList (map vctx (sort_z cz l)).
Proof. cbn [prim_apply]. rewrite attr_keys_vctx, key_sort_vctx, map_map. reflexivity. Qed.

(* ---- the pieces of the regenerated body *)
Definition loop_body : list stmt :=
  match stacking_init_body with
  | [_; _; _; _; _; _; _; _; SFor _ _ body; _; _; _; _; _] => body
  | _ => []
  end.
Definition post : list stmt :=
  match stacking_init_body with
  | [_; _; _; _; _; _; _; _; SFor _ _ _; a; b; c; d; e] => [a; b; c; d; e]
  | _ => []
  end.
Definition sort1 : stmt := nth 0 post SPass.
Definition sort2 : stmt := nth 1 post SPass.
Definition tail : list stmt := skipn 2 post.

(* the environment while the loop runs: the three buckets grow; "context" is bound after the first iteration *)
Definition EV (B Pg bl fl bc CC : val) (nv zv pv : val) (ctx : option val) : env :=
  [("self", VObj [("box", B); ("page", Pg); ("block_level_boxes", bl); ("float_contexts", fl);
                  ("negative_z_contexts", nv); ("zero_z_contexts", zv); ("positive_z_contexts", pv);
                  ("blocks_and_cells", bc)]);
   ("box", B); ("child_contexts", CC); ("blocks", bl); ("floats", fl); ("blocks_and_cells", bc); ("page", Pg)]
  ++ match ctx with Some v => [("context", v)] | None => [] end.
Definition E (B Pg bl fl bc CC : val) (n z p : list val) (ctx : option val) : env :=
  EV B Pg bl fl bc CC (VList n) (VList z) (VList p) ctx.
(* the environment at the end: z_index set, `applies` bound *)
Definition EF (i : info) (B Pg bl fl bc CC : val) (nv zv pv : val) (ctx : option val) : env :=
  [("self", VObj [("box", B); ("page", Pg); ("block_level_boxes", bl); ("float_contexts", fl);
                  ("negative_z_contexts", nv); ("zero_z_contexts", zv); ("positive_z_contexts", pv);
                  ("blocks_and_cells", bc); ("z_index", VNum (inject_Z (zctx i)))]);
   ("box", B); ("child_contexts", CC); ("blocks", bl); ("floats", fl); ("blocks_and_cells", bc); ("page", Pg)]
  ++ match ctx with Some v => [("context", v)] | None => [] end
  ++ [("applies", VBool (negb (static i) || fit i || git i))].

Definition step (s : list val * list val * list val) (c : C) : list val * list val * list val :=
  let '(n, z, p) := s in
  if (cz c <? 0)%Z then (n ++ [vctx c], z, p)
  else if (cz c =? 0)%Z then (n, z ++ [vctx c], p) else (n, z, p ++ [vctx c]).

Section Ops.
Variable O : qops.
Hypothesis HO : ops_ok O.

Ltac unseal :=
  rewrite ?(qadd_eq _ HO), ?(qsub_eq _ HO), ?(qmul_eq _ HO), ?(qdiv_eq _ HO), ?(qmax_eq _ HO), ?(qmin_eq _ HO),
          ?(qleb_eq _ HO), ?(qeqb_eq _ HO) in *.
Ltac ev := lazy -[qadd qsub qmul qdiv qmax qmin qleb qeqb ocall Qle_bool Qeq_bool inject_Z prim_apply
                  Z.ltb Z.eqb Z.leb sort_z filter map app vctx].

Lemma body_step (A : Type) kret kerr B Pg bl fl bc CC n z p ctx c (k : env -> A) :
  exec_block O A kret kerr loop_body (update "context" (vctx c) (E B Pg bl fl bc CC n z p ctx)) k =
  let '(n', z', p') := step (n, z, p) c in k (E B Pg bl fl bc CC n' z' p' (Some (vctx c))).
Proof.
  unfold step, vctx. set (X := cextra c). clearbody X.
  destruct ctx as [v|]; unfold loop_body, stacking_init_body, E, EV; cbn [app];
    ev; unseal; rewrite Qle_bool_0_inject, ?Qeq_bool_inject_0, Z.ltb_antisym;
    destruct (0 <=? cz c)%Z; cbn [negb]; ev; unseal; rewrite ?Qeq_bool_inject_0;
    try destruct (cz c =? 0)%Z; reflexivity.
Qed.

Lemma loop_spec (A : Type) kret kerr B Pg bl fl bc CC : forall (l : list C) n z p ctx (k : env -> A),
  gen_iter (fun v rho k' => exec_block O A kret kerr loop_body (update "context" v rho) k')
           (map vctx l) (E B Pg bl fl bc CC n z p ctx) k =
  let '(n', z', p') := fold_left step l (n, z, p) in
  k (E B Pg bl fl bc CC n' z' p' (match rev l with c :: _ => Some (vctx c) | [] => ctx end)).
Proof.
  induction l as [|c l IH]; intros n z p ctx k.
  - reflexivity.
  - cbn [map gen_iter fold_left]. rewrite body_step.
    destruct (step (n, z, p) c) as [[n1 z1] p1] eqn:Es. rewrite IH.
    destruct (fold_left step l (n1, z1, p1)) as [[n2 z2] p2].
    cbn [rev]. destruct (rev l) as [|d r]; reflexivity.
Qed.

Lemma flowing_EV B Pg bl fl bc CC nv zv pv ctx : flowing (EV B Pg bl fl bc CC nv zv pv ctx) = false.
Proof. destruct ctx; reflexivity. Qed.

Lemma exec_sort1 (A : Type) kret kerr B Pg bl fl bc CC N zv pv ctx (k : env -> A) :
  exec O A kret kerr sort1 (EV B Pg bl fl bc CC (VList (map vctx N)) zv pv ctx) k =
  k (EV B Pg bl fl bc CC (VList (map vctx (sort_z cz N))) zv pv ctx).
Proof.
  destruct ctx as [v|]; unfold sort1, post, stacking_init_body, EV; cbn [app nth];
    ev; cbn [app]; rewrite sorted_prim; ev; reflexivity.
Qed.
Lemma exec_sort2 (A : Type) kret kerr B Pg bl fl bc CC nv zv P ctx (k : env -> A) :
  exec O A kret kerr sort2 (EV B Pg bl fl bc CC nv zv (VList (map vctx P)) ctx) k =
  k (EV B Pg bl fl bc CC nv zv (VList (map vctx (sort_z cz P))) ctx).
Proof.
  destruct ctx as [v|]; unfold sort2, post, stacking_init_body, EV; cbn [app nth];
    ev; cbn [app]; rewrite sorted_prim; ev; reflexivity.
Qed.

Lemma sorts_spec (A : Type) kret kerr B Pg bl fl bc CC N zv P ctx l (k : env -> A) :
  exec_block O A kret kerr (sort1 :: sort2 :: l) (EV B Pg bl fl bc CC (VList (map vctx N)) zv (VList (map vctx P)) ctx) k =
  exec_block O A kret kerr l
    (EV B Pg bl fl bc CC (VList (map vctx (sort_z cz N))) zv (VList (map vctx (sort_z cz P))) ctx) k.
Proof.
  cbn [exec_block]. rewrite exec_sort1. cbv beta. rewrite flowing_EV. cbv iota.
  rewrite exec_sort2. cbv beta. rewrite flowing_EV. reflexivity.
Qed.

Lemma tail_spec (A : Type) kret kerr i es eb Pg bl fl bc CC nv zv pv ctx (k : env -> A) :
  exec_block O A kret kerr tail (EV (vbox i es eb) Pg bl fl bc CC nv zv pv ctx) k =
  k (EF i (vbox i es eb) Pg bl fl bc CC nv zv pv ctx).
Proof.
  destruct i as [bid0 knd0 pos0 flt0 zi0 opa0 trf0 tm0 ovf0 clp0 git0 col0 hid0 rcl0 fit0].
  unfold EF, zctx, z_of, static, vbox. cbn [zi pos fit git].
  destruct ctx as [v|], zi0 as [zv0|], pos0, fit0, git0;
    unfold tail, post, stacking_init_body, EV; cbn [app skipn vz pos_name negb orb]; ev; reflexivity.
Qed.
End Ops.

(* what the loop has collected: the three filters of the model, in tree order *)
Definition neg_of (l : list C) := filter (fun c => cz c <? 0)%Z l.
Definition zero_of (l : list C) := filter (fun c => cz c =? 0)%Z l.
Definition pos_of (l : list C) := filter (fun c => negb (cz c <? 0)%Z && negb (cz c =? 0)%Z) l.

Lemma fold_step_filters : forall l n z p,
  fold_left step l (n, z, p) =
  (n ++ map vctx (neg_of l), z ++ map vctx (zero_of l), p ++ map vctx (pos_of l)).
Proof.
  induction l as [|c l IH]; intros n z p; cbn [fold_left neg_of zero_of pos_of filter map].
  - now rewrite !app_nil_r.
  - unfold step at 2. fold (neg_of l) (zero_of l) (pos_of l).
    destruct (Z.ltb_spec (cz c) 0), (Z.eqb_spec (cz c) 0); try lia;
      cbn [negb andb map]; rewrite IH, <- ?app_assoc; reflexivity.
Qed.

(* ------------------------------------------------------------------------------------------ the theorem *)
(* `self` when the constructor is done *)
Definition self_after (B Pg bl fl bc : val) (neg zero pos_ : list C) (z : Z) : val :=
  VObj [("box", B); ("page", Pg); ("block_level_boxes", bl); ("float_contexts", fl);
        ("negative_z_contexts", VList (map vctx neg)); ("zero_z_contexts", VList (map vctx zero));
        ("positive_z_contexts", VList (map vctx pos_)); ("blocks_and_cells", bc);
        ("z_index", VNum (inject_Z z))].

Theorem gen_stacking_init O (HO : ops_ok O) (i : info) es eb (children : list C) (Pg bl fl bc : val) :
  run O stacking_init_body
      [("self", VObj []); ("box", vbox i es eb); ("child_contexts", VList (map vctx children));
       ("blocks", bl); ("floats", fl); ("blocks_and_cells", bc); ("page", Pg)]
      (fun rho r =>
         r = None /\
         lookup "self" rho =
           self_after (vbox i es eb) Pg bl fl bc
                      (sort_z cz (neg_of children)) (zero_of children) (sort_z cz (pos_of children)) (zctx i))
      (fun _ => False).
Proof.
  unfold run.
  set (obs := fun (rho : env) (r : option val) =>
         r = None /\
         lookup "self" rho =
           self_after (vbox i es eb) Pg bl fl bc
                      (sort_z cz (neg_of children)) (zero_of children) (sort_z cz (pos_of children)) (zctx i)).
  change (gen_iter (fun v rho k' => exec_block O Prop (fun rho v0 => obs rho (Some v0)) (fun _ => False)
                                      loop_body (update "context" v rho) k')
                   (map vctx children)
                   (E (vbox i es eb) Pg bl fl bc (VList (map vctx children)) [] [] [] None)
                   (fun rho => if flowing rho then obs rho None
                               else exec_block O Prop (fun rho v0 => obs rho (Some v0)) (fun _ => False) post rho
                                                (fun rho => obs rho None))).
  rewrite (loop_spec O HO). rewrite fold_step_filters. cbn [app].
  set (ctx := match rev children with c :: _ => Some (vctx c) | [] => None end). clearbody ctx.
  replace (flowing _) with false by (destruct ctx; reflexivity).
  change post with (sort1 :: sort2 :: tail). unfold E.
  rewrite (sorts_spec O), (tail_spec O).
  subst obs. split; [reflexivity|]. destruct ctx; reflexivity.
Qed.
End Init.

(* ---- in the words of the model: the regenerated constructor builds mk_ctx *)
Definition ctx_fields (n : pnode) (vc : pnode -> val) (B Pg bl fl bc : val) : val :=
  match n with
  | PC _ _ neg zero pos_ _ _ _ z =>
      VObj [("box", B); ("page", Pg); ("block_level_boxes", bl); ("float_contexts", fl);
            ("negative_z_contexts", VList (map vc neg)); ("zero_z_contexts", VList (map vc zero));
            ("positive_z_contexts", VList (map vc pos_)); ("blocks_and_cells", bc);
            ("z_index", VNum (inject_Z z))]
  | PB _ _ => VNone
  end.

Theorem gen_stacking_init_is_mk_ctx O (HO : ops_ok O) (cextra : pnode -> list (string * val))
        (i : info) es eb kids (children blocks floats bcs : list pnode) (Pg bl fl bc : val) :
  run O stacking_init_body
      [("self", VObj []); ("box", vbox i es eb); ("child_contexts", VList (map (vctx pnode ctx_z cextra) children));
       ("blocks", bl); ("floats", fl); ("blocks_and_cells", bc); ("page", Pg)]
      (fun rho r =>
         r = None /\
         lookup "self" rho =
           ctx_fields (mk_ctx i kids children blocks floats bcs) (vctx pnode ctx_z cextra) (vbox i es eb) Pg bl fl bc)
      (fun _ => False).
Proof. exact (gen_stacking_init pnode ctx_z cextra O HO i es eb children Pg bl fl bc). Qed.

(* the clause the seeded mutant C17-static-zindex-layer breaks: a box to which z-index does not apply (static, not
   a flex or grid item) gets z_index 0 whatever its style says, so its context is painted in the zero layer *)
Corollary gen_stacking_init_static_is_zero O (HO : ops_ok O) (cextra : pnode -> list (string * val))
        (i : info) es eb (children : list pnode) (Pg bl fl bc : val) :
  static i = true -> fit i = false -> git i = false ->
  run O stacking_init_body
      [("self", VObj []); ("box", vbox i es eb); ("child_contexts", VList (map (vctx pnode ctx_z cextra) children));
       ("blocks", bl); ("floats", fl); ("blocks_and_cells", bc); ("page", Pg)]
      (fun rho r => exists f, lookup "self" rho = VObj f /\ lookup "z_index" f = VNum (inject_Z 0))
      (fun _ => False).
Proof.
  intros Hs Hf Hg.
  pose proof (gen_stacking_init pnode ctx_z cextra O HO i es eb children Pg bl fl bc) as H.
  rewrite WV.proofs.PyNatural.run_natural in *.
  destruct (WV.proofs.PyNatural.run_out O stacking_init_body _) as [rho r|m]; [|exact H].
  destruct H as [_ H]. eexists. split; [exact H|].
  unfold zctx. rewrite Hs, Hf, Hg. reflexivity.
Qed.

Example init_example :
  run real_ops stacking_init_body
      [("self", VObj []);
       ("box", vbox (mkI 1 KBlock PStatic false (Some 5) true false TNone false false false false false false false) [] []);
       ("child_contexts", VList (map (vctx Z (fun z => z) (fun _ => [])) [3; -1; 0; 2; -1; 0; -7]%Z));
       ("blocks", VList []); ("floats", VList []); ("blocks_and_cells", VList []); ("page", VNone)]
      (fun rho r => exists f, lookup "self" rho = VObj f /\
         lookup "negative_z_contexts" f = VList (map (vctx Z (fun z => z) (fun _ => [])) [-7; -1; -1]%Z) /\
         lookup "positive_z_contexts" f = VList (map (vctx Z (fun z => z) (fun _ => [])) [2; 3]%Z) /\
         lookup "z_index" f = VNum 0)
      (fun _ => False).
Proof. vm_compute. eexists. repeat split. Qed.
