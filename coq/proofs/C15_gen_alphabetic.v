(* C15 - the branch `elif system == 'alphabetic':` of CounterStyle.render_value as REGENERATED from
   weasyprint/css/counters.py on every run (gen/GenCounters.v: rv_alphabetic_body): for every tuple of symbols and
   every integer counter value it does what [represent c "alphabetic"] of model/C15Style.v says (the bijective
   numeration of C15_alphabetic_representation / _roundtrip / _bijective), the loop `while counter_value != 0:
   counter_value -= 1; ..append(symbols[counter_value % length]); counter_value //= length` being the model's
   [alpha_loop]; on a negative value the loop never ends, in the model (RpFuel) and in the source (the interpreter
   runs out of fuel whatever the fuel).  Same conventions as proofs/C15_gen_numeric.v. *)
From Coq Require Import ZArith QArith List String Bool Lia.
Require Import WV.model.C15Style WV.model.C15Builtins WV.proofs.C15_digits WV.proofs.C15_gen_base.
Require Import WV.proofs.C15_gen_numeric.
Require Import WV.base.Py WV.gen.GenCounters.
Import ListNotations.
Open Scope string_scope.
Open Scope list_scope.

Definition alpha_cond : expr := match rv_alphabetic_body with [_; _; _; SWhile c _; _] => c | _ => EConst VNone end.
Definition alpha_body : list stmt := match rv_alphabetic_body with [_; _; _; SWhile _ b; _] => b | _ => [] end.

Section Alphabetic.
Variable O : qops.
Hypothesis HO : ops_ok O.
Hypothesis HS : forall p, ocall O "symbol" [vsym p] = VStr (psym_str p).

Variables (sf : list (string * val)) (fb : option string) (rest : list (string * val)).
Notation self := (VObj sf).

Ltac ev := lazy -[qadd qsub qmul qdiv qmax qmin qleb qeqb ocall wfuel prim_apply inject_Z Z.abs Z.div Z.modulo
                  Z.of_nat Z.eqb Z.leb negb Qminus].
Ltac unseal :=
  rewrite ?(qadd_eq _ HO), ?(qsub_eq _ HO), ?(qmul_eq _ HO), ?(qdiv_eq _ HO), ?(qmax_eq _ HO), ?(qmin_eq _ HO),
          ?(qleb_eq _ HO), ?(qeqb_eq _ HO) in *.

Section Syms.
Variables (l : list psym) (L : list val) (n : Z).
Hypothesis HL : L = map vsym l.
Hypothesis Hn : n = Z.of_nat (List.length l).

Definition acounter : val := VObj (("symbols", VList L) :: ("fallback", vfallback fb) :: rest).
Definition aenv0 (z : Z) : env := [("self", self); ("counter", acounter); ("counter_value", vint z)].
Definition aenv1 (z : Z) : env := aenv0 z ++ [("length", vint n)].
(* inside the loop the counter value is a rational: an integer up to == after `counter_value -= 1` *)
Definition aenvQ (q : Q) (ps : list val) : env :=
  [("self", self); ("counter", acounter); ("counter_value", VNum q); ("length", vint n); ("reversed_parts", VList ps)].
Definition aenvL (z : Z) (ps : list val) : env := aenvQ (inject_Z z) ps.
Definition aenvF (z : Z) (ps : list val) (s : string) : env := aenvL z ps ++ [("initial", VStr s)].

Lemma alength_L : Z.of_nat (List.length L) = n.
Proof. subst L n. now rewrite map_length. Qed.

Section Stmts.
Variables (A : Type) (kret : env -> val -> A) (kerr : string -> A).

Lemma a0_step z k : exec O A kret kerr (nth 0 rv_alphabetic_body SPass) (aenv0 z) k = k (aenv1 z).
Proof. ev. rewrite prim_len, alength_L. reflexivity. Qed.

Lemma a1_step z k :
  exec O A kret kerr (nth 1 rv_alphabetic_body SPass) (aenv1 z) k =
  if (2 <=? n)%Z then k (aenv1 z)
  else match ocall O ".render_value" (rv_args self z "decimal" VNone) with
       | VErr m => kerr m
       | x => kret (aenv1 z) x
       end.
Proof.
  ev. unseal. change (2 # 1) with (inject_Z 2). rewrite Qle_bool_vint.
  destruct (2 <=? n)%Z; reflexivity.
Qed.

Lemma a2_step z k : exec O A kret kerr (nth 2 rv_alphabetic_body SPass) (aenv1 z) k = k (aenvL z []).
Proof. reflexivity. Qed.

Lemma a4_step ss k :
  exec O A kret kerr (nth 4 rv_alphabetic_body SPass) (aenvL 0 (map VStr ss)) k =
  k (aenvF 0 (map VStr ss) (String.concat "" (rev ss))).
Proof. ev. rewrite prim_reversed. ev. rewrite prim_join. reflexivity. Qed.

Lemma acond_step z ps (k : bool -> A) :
  eval O A kerr (aenvL z ps) alpha_cond (fun vc => bool_k O A kerr vc k) = k (negb (z =? 0)%Z).
Proof.
  ev. unseal. rewrite Qeq_bool_vint0'. destruct (z =? 0)%Z; reflexivity.
Qed.

Hypothesis Hpos : (0 < n)%Z.

(* counter_value -= 1 *)
Lemma ab0_step z ps k :
  exec O A kret kerr (nth 0 alpha_body SPass) (aenvL z ps) k = k (aenvQ (inject_Z z - (1 # 1)) ps).
Proof. ev. unseal. reflexivity. Qed.

(* reversed_parts.append(symbol(counter['symbols'][counter_value % length])) *)
Lemma ab1_step q w ps k :
  (q == inject_Z w)%Q ->
  exec O A kret kerr (nth 1 alpha_body SPass) (aenvQ q ps) k =
  k (aenvQ q (ps ++ [VStr (digit_str l (w mod n))])).
Proof.
  intros Hq0.
  assert (Hn0 : n <> 0%Z) by lia.
  destruct (prim_mod_eq q w n Hn0 Hq0) as (r & Er & Hr).
  assert (Hb : (0 <= w mod n < Z.of_nat (List.length L))%Z) by (rewrite alength_L; apply Z.mod_pos_bound; lia).
  remember (digit_str l (w mod n)) as d eqn:Hd. unfold digit_str in Hd.
  ev. rewrite Er. ev.
  rewrite (prim_index_nth L r (w mod n) Hr Hb). rewrite HL at 1.
  rewrite nth_vsym by (rewrite HL, map_length in Hb; lia).
  set (p := nth (Z.to_nat (w mod n)) l (PUrl "")) in *.
  pose proof (HS p) as Hp. destruct p; cbn [vsym psym_str] in *; subst d; ev; rewrite Hp; reflexivity.
Qed.

(* counter_value //= length *)
Lemma ab2_step q w ps k :
  (q == inject_Z w)%Q ->
  exec O A kret kerr (nth 2 alpha_body SPass) (aenvQ q ps) k = k (aenvL (w / n) ps).
Proof. intros Hq0. ev. rewrite (prim_floordiv_eq q w n) by (lia || exact Hq0). reflexivity. Qed.

Lemma alpha_body_eq : alpha_body = [nth 0 alpha_body SPass; nth 1 alpha_body SPass; nth 2 alpha_body SPass].
Proof. reflexivity. Qed.
Lemma flowing_aenvQ q ps : flowing (aenvQ q ps) = false.
Proof. reflexivity. Qed.
Lemma flow_aenvQ q ps : Py.lookup "%flow" (aenvQ q ps) = VErr "unbound:%flow".
Proof. reflexivity. Qed.

Lemma abody_step z ps k :
  exec_block O A kret kerr alpha_body (aenvL z ps) k =
  k (aenvL ((z - 1) / n) (ps ++ [VStr (digit_str l ((z - 1) mod n))])).
Proof.
  rewrite alpha_body_eq, exec_block_cons, ab0_step, flowing_aenvQ.
  rewrite exec_block_cons, (ab1_step _ (z - 1)) by apply inject_Z_pred. rewrite flowing_aenvQ.
  rewrite exec_block_cons, (ab2_step _ (z - 1)) by apply inject_Z_pred.
  unfold aenvL at 1. rewrite flowing_aenvQ. apply exec_block_nil.
Qed.

Definition astrs (idx : list Z) : list val := map VStr (map (digit_str l) (rev idx)).
Lemma astrs_cons d idx : astrs (d :: idx) = astrs idx ++ [VStr (digit_str l d)].
Proof. unfold astrs. cbn [rev]. now rewrite !map_app. Qed.

(* the interpreter's loop with fuel f+1 is the model's loop with fuel f *)
Lemma alpha_wloop k : forall f z idx,
  wloopc O A kret kerr k alpha_cond alpha_body (S f) (aenvL z (astrs idx)) =
  match alpha_loop f n z idx with
  | Some idx' => k (aenvL 0 (astrs idx'))
  | None => kerr "FuelExhausted"
  end.
Proof.
  induction f as [|f IH]; intros z idx.
  - cbn [wloopc]. rewrite acond_step. cbn [alpha_loop].
    destruct (Z.eqb_spec z 0) as [->|Hz]; cbn [negb]; [reflexivity|].
    rewrite abody_step. unfold aenvL at 1. rewrite flow_aenvQ. reflexivity.
  - change (wloopc O A kret kerr k alpha_cond alpha_body (S (S f)) (aenvL z (astrs idx))) with
      (eval O A kerr (aenvL z (astrs idx)) alpha_cond (fun vc => bool_k O A kerr vc (fun t =>
         if t then
           exec_block O A kret kerr alpha_body (aenvL z (astrs idx)) (fun rho' =>
             match Py.lookup "%flow" rho' with
             | VStr fl => if String.eqb fl "break" then k (update "%flow" VNone rho')
                          else wloopc O A kret kerr k alpha_cond alpha_body (S f) (update "%flow" VNone rho')
             | _ => wloopc O A kret kerr k alpha_cond alpha_body (S f) rho'
             end)
         else k (aenvL z (astrs idx))))).
    rewrite acond_step. cbn [alpha_loop].
    destruct (Z.eqb_spec z 0) as [->|Hz]; cbn [negb]; [reflexivity|].
    rewrite abody_step. unfold aenvL at 1. rewrite flow_aenvQ. rewrite <- astrs_cons. apply IH.
Qed.
End Stmts.

Lemma alpha_prefix A kret kerr (k : env -> A) v :
  exec_block O A kret kerr rv_alphabetic_body (aenv0 v) k =
  if (2 <=? n)%Z then
    exec_block O A kret kerr [SWhile alpha_cond alpha_body; nth 4 rv_alphabetic_body SPass] (aenvL v []) k
  else match ocall O ".render_value" (rv_args self v "decimal" VNone) with
       | VErr m => kerr m
       | x => kret (aenv1 v) x
       end.
Proof.
  change rv_alphabetic_body with
    [nth 0 rv_alphabetic_body SPass; nth 1 rv_alphabetic_body SPass; nth 2 rv_alphabetic_body SPass;
     SWhile alpha_cond alpha_body; nth 4 rv_alphabetic_body SPass] at 1.
  rewrite exec_block_cons, a0_step. change (flowing (aenv1 v)) with false. cbv iota.
  rewrite exec_block_cons, a1_step. destruct (2 <=? n)%Z; [|reflexivity].
  change (flowing (aenv1 v)) with false. cbv iota.
  rewrite exec_block_cons, a2_step. unfold aenvL at 1. rewrite flowing_aenvQ. reflexivity.
Qed.

Lemma alpha_suffix A kret kerr (k : env -> A) v f :
  (0 < n)%Z -> wfuel O = S f ->
  exec_block O A kret kerr [SWhile alpha_cond alpha_body; nth 4 rv_alphabetic_body SPass] (aenvL v []) k =
  match alpha_loop f n v [] with
  | Some idx => k (aenvF 0 (astrs idx) (String.concat "" (map (digit_str l) idx)))
  | None => kerr "FuelExhausted"
  end.
Proof.
  intros Hpos Hf.
  rewrite exec_block_cons, exec_while, Hf.
  change (@nil val) with (astrs []). rewrite alpha_wloop by exact Hpos.
  destruct (alpha_loop f n v []) as [idx|]; [|reflexivity].
  unfold aenvL at 1. rewrite flowing_aenvQ.
  rewrite exec_block_cons. unfold astrs at 1. rewrite a4_step.
  change (flowing (aenvF 0 (map VStr (map (digit_str l) (rev idx)))
                         (String.concat "" (rev (map (digit_str l) (rev idx)))))) with false. cbv iota.
  rewrite exec_block_nil. rewrite <- map_rev, rev_involutive. reflexivity.
Qed.
End Syms.

Theorem gen_alphabetic (osyms : option (list psym)) (c : cstyle) (v : Z) :
  c_symbols c = msyms osyms -> (digit_fuel v < wfuel O)%nat ->
  run O rv_alphabetic_body
    [("self", self); ("counter", vcounter osyms fb rest); ("counter_value", vint v)]
    (agrees O (rv_args self v "decimal" VNone) [] (represent c "alphabetic" None v))
    (raises O (rv_args self v "decimal" VNone) [] (represent c "alphabetic" None v)).
Proof.
  intros Hc Hfuel.
  assert (Hrep : represent c "alphabetic" None v =
    match c_symbols c with
    | None => RpExc
    | Some l0 =>
      if (zlen l0 <? 2)%Z then RpDecimal else
      match alpha_loop (digit_fuel v) (zlen l0) v [] with
      | None => RpFuel
      | Some idx => RpInitial (join_idx l0 idx)
      end
    end) by reflexivity.
  rewrite Hrep, Hc. clear Hrep.
  unfold run.
  destruct osyms as [l|]; cbn [msyms].
  - set (n := Z.of_nat (List.length l)).
    rewrite zlen_msym. fold n.
    change (exec_block O Prop ?kr ?ke rv_alphabetic_body
              [("self", self); ("counter", vcounter (Some l) fb rest); ("counter_value", vint v)] ?k)
      with (exec_block O Prop kr ke rv_alphabetic_body (aenv0 (map vsym l) v) k).
    rewrite (alpha_prefix l (map vsym l) n eq_refl eq_refl).
    destruct (Z.ltb_spec n 2) as [Hlt|Hge].
    + replace (2 <=? n)%Z with false by (symmetry; apply Z.leb_gt; exact Hlt).
      cbn [agrees raises]. destruct (ocall O ".render_value" _) eqn:E; try reflexivity.
    + replace (2 <=? n)%Z with true by (symmetry; apply Z.leb_le; exact Hge).
      destruct (wfuel O) as [|f] eqn:Hf; [lia|].
      rewrite (alpha_suffix l (map vsym l) n eq_refl eq_refl Prop _ _ _ v f) by (lia || exact Hf).
      destruct (Z.lt_ge_cases v 0) as [Hneg|Hnn].
      * rewrite !(alpha_loop_negative n Hge) by exact Hneg. reflexivity.
      * destruct (alphabetic_roundtrip n v Hge Hnn) as (idx & Hrun & _).
        rewrite Hrun. rewrite (alpha_loop_mono n _ _ _ _ Hrun) by lia.
        cbn [agrees]. split; [reflexivity|]. rewrite enc_join_idx. reflexivity.
  - (* counter['symbols'] is None: len(None) *)
    lazy -[qadd qsub qmul qdiv qmax qmin qleb qeqb ocall wfuel inject_Z]. left. reflexivity.
Qed.
End Alphabetic.
Print Assumptions gen_alphabetic.
