From Coq Require Import QArith Qminmax Lqa List String Bool.
Require Import WV.base.Py WV.base.PyLink WV.gen.GenMinMax WV.proofs.PyNatural WV.model.C05MinMaxWrap.
Import ListNotations.
Open Scope string_scope.
Open Scope list_scope.

Lemma xb_cons O A kret kerr s l rho k :
  exec_block O A kret kerr (s :: l) rho k =
  exec O A kret kerr s rho (fun rho' => if flowing rho' then k rho' else exec_block O A kret kerr l rho' k).
Proof. reflexivity. Qed.
Lemma xb_nil O A kret kerr rho k : exec_block O A kret kerr [] rho k = k rho.
Proof. reflexivity. Qed.
Lemma x_if O A kret kerr c th el rho k :
  exec O A kret kerr (SIf c th el) rho k =
  eval O A kerr rho c (fun vc => bool_k O A kerr vc (fun t =>
    if t then exec_block O A kret kerr th rho k else exec_block O A kret kerr el rho k)).
Proof. reflexivity. Qed.

Lemma getattr_sem_ok f n : match getattr_sem f n VNone with VErr _ => False | _ => True end.
Proof. unfold getattr_sem. destruct (lookup n f); exact I. Qed.

Section W.
Variable O : qops.
Hypothesis HO : ops_ok O.
Variable F : oracle.
Hypothesis HF : forall f a, ocall O "function" [VObj f; VList a] = enc (F f a).
Hypothesis HG : forall f n d, ocall O "%getattr" [VObj f; VStr n; d] = getattr_sem f n d.
Variable A : Type.
Variable kret : env -> val -> A.
Variable kerr : string -> A.

Definition call_stmt : stmt :=
  SUnpack [TVar "result"; TVar "box"; TVar "args"] (ECall "function" [EVar "box"; EVar "args"]).

Definition envW (f : fields) (a : list val) (cm px r : val) : env :=
  [("box", VObj f); ("args", VList a); ("computed_margins", cm); ("position_x", px); ("result", r)].

Definition then_W (size bound : string) : list stmt :=
      [SAssign [TAttr "box" size] (EAttr (EVar "box") bound);
       SUnpack [TAttr "box" "margin_left"; TAttr "box" "margin_right"] (EVar "computed_margins");
       SIf (ECmp (EVar "position_x") [(NotEq, EConst VNone)]) [SAssign [TAttr "box" "position_x"] (EVar "position_x")] [];
       call_stmt].

Lemma then_W_ok size bound f0 r f a k :
  let cm := VList [lookup "margin_left" f0; lookup "margin_right" f0] in
  let px := getattr_sem f0 "position_x" VNone in
  exec_block O A kret kerr (then_W size bound) (envW f a cm px r) k =
  match F (restore "margin_left" "margin_right" (Some "position_x") f0 (update size (lookup bound f) f)) a with
  | inl m => kerr m
  | inr (r', f', a') => k (envW f' a' cm px r')
  end.
Proof.
  intros cm px. unfold restore. fold px.
  pose proof (getattr_sem_ok f0 "position_x") as Hpx. fold px in Hpx.
  clearbody px. subst cm.
  destruct px; try contradiction.
  all: lazy -[ocall enc]; rewrite HF.
  all: match goal with |- context [F ?X ?Y] => destruct (F X Y) as [m|[[r1 f1] a1]] end; reflexivity.
Qed.

Definition reenter_stmt_W (size bound : string) (above : bool) : stmt :=
  SIf (ECmp (EAttr (EVar "box") size) [(if above then Gt else Lt, EAttr (EVar "box") bound)]) (then_W size bound) [].

Lemma reenter_W_ok size bound above f0 r f a tr k :
  let cm := VList [lookup "margin_left" f0; lookup "margin_right" f0] in
  let px := getattr_sem f0 "position_x" VNone in
  exec O A kret kerr (reenter_stmt_W size bound above) (envW f a cm px r) k =
  match snd (reenter F (restore "margin_left" "margin_right" (Some "position_x") f0) size bound above (r, f, a) tr) with
  | inl m => kerr m
  | inr (r', f', a') => k (envW f' a' cm px r')
  end.
Proof.
  intros cm px. unfold reenter_stmt_W. rewrite x_if. unfold reenter.
  pose proof (then_W_ok size bound f0 r f a k) as Hthen. cbv zeta in Hthen. fold cm px in Hthen.
  destruct above; cbn -[exec_block then_W restore].
  all: destruct (lookup size f), (lookup bound f); cbn -[exec_block then_W restore]; try reflexivity.
  all: rewrite (qleb_eq _ HO); match goal with |- context [Qle_bool ?x ?y] => destruct (Qle_bool x y) end;
       cbn -[exec_block then_W restore]; [reflexivity|exact Hthen].
Qed.

Lemma flowing_envW f a cm px r : flowing (envW f a cm px r) = false.
Proof. reflexivity. Qed.

Lemma margins_stmt ma mb f a k :
  exec O A kret kerr (SAssign [TVar "computed_margins"] (ETuple [EAttr (EVar "box") ma; EAttr (EVar "box") mb]))
       [("box", VObj f); ("args", VList a)] k =
  k [("box", VObj f); ("args", VList a); ("computed_margins", VList [lookup ma f; lookup mb f])].
Proof. reflexivity. Qed.
Lemma getattr_stmt f a cm k :
  exec O A kret kerr (SAssign [TVar "position_x"] (ECall "%getattr" [EVar "box"; EConst (VStr "position_x"); EConst VNone]))
       [("box", VObj f); ("args", VList a); ("computed_margins", cm)] k =
  k [("box", VObj f); ("args", VList a); ("computed_margins", cm); ("position_x", getattr_sem f "position_x" VNone)].
Proof.
  lazy -[ocall getattr_sem]. rewrite HG. pose proof (getattr_sem_ok f "position_x") as Hpx.
  destruct (getattr_sem f "position_x" VNone); try contradiction; reflexivity.
Qed.
Lemma call_W0 f a cm px k :
  exec O A kret kerr call_stmt [("box", VObj f); ("args", VList a); ("computed_margins", cm); ("position_x", px)] k =
  match F f a with inl m => kerr m | inr (r', f', a') => k (envW f' a' cm px r') end.
Proof.
  unfold call_stmt, envW. lazy -[ocall enc]. rewrite HF.
  destruct (F f a) as [m|[[r' f'] a']]; reflexivity.
Qed.
Lemma return_W f a cm px r k :
  exec O A kret kerr (SReturn (EVar "result")) (envW f a cm px r) k = kret (envW f a cm px r) r.
Proof. reflexivity. Qed.

Lemma width_body_ok f0 a0 k :
  let cm := VList [lookup "margin_left" f0; lookup "margin_right" f0] in
  let px := getattr_sem f0 "position_x" VNone in
  exec_block O A kret kerr min_max_width_wrapper_body [("box", VObj f0); ("args", VList a0)] k =
  match wrap_width F f0 a0 with
  | inl m => kerr m
  | inr (r, f, a) => kret (envW f a cm px r) r
  end.
Proof.
  intros cm px. unfold min_max_width_wrapper_body, wrap_width, wrap_width_full, clamp.
  rewrite xb_cons, margins_stmt. change (flowing _) with false. cbv iota. fold cm.
  rewrite xb_cons, getattr_stmt. change (flowing _) with false. cbv iota. fold px.
  rewrite xb_cons. change (SUnpack _ (ECall "function" _)) with call_stmt at 1. rewrite call_W0.
  destruct (F f0 a0) as [m|[[r1 f1] a1]]; [reflexivity|].
  rewrite flowing_envW, xb_cons.
  change (SIf (ECmp _ [(Gt, _)]) _ _) with (reenter_stmt_W "width" "max_width" true).
  rewrite (reenter_W_ok "width" "max_width" true f0 r1 f1 a1 [(f0, a0)]). fold cm px.
  unfold fields, answer, calls in *.
  destruct (reenter F _ "width" "max_width" true (r1, f1, a1) [(f0, a0)]) as [tr1 [m|[[r2 f2] a2]]]; [reflexivity|].
  cbn [snd]. rewrite flowing_envW, xb_cons.
  change (SIf (ECmp _ [(Lt, _)]) _ _) with (reenter_stmt_W "width" "min_width" false).
  rewrite (reenter_W_ok "width" "min_width" false f0 r2 f2 a2 tr1). fold cm px.
  destruct (reenter F _ "width" "min_width" false (r2, f2, a2) tr1) as [tr2 [m|[[r3 f3] a3]]]; [reflexivity|].
  cbn [snd]. rewrite flowing_envW, xb_cons, return_W. reflexivity.
Qed.

(* ------------------------------------------------------------------ height *)
Definition envH (f : fields) (a : list val) (cm r : val) : env :=
  [("box", VObj f); ("args", VList a); ("computed_margins", cm); ("result", r)].
Lemma flowing_envH f a cm r : flowing (envH f a cm r) = false.
Proof. reflexivity. Qed.
Lemma call_H f a cm r k :
  exec O A kret kerr call_stmt (envH f a cm r) k =
  match F f a with inl m => kerr m | inr (r', f', a') => k (envH f' a' cm r') end.
Proof.
  unfold call_stmt, envH. lazy -[ocall enc]. rewrite HF.
  destruct (F f a) as [m|[[r' f'] a']]; reflexivity.
Qed.
Lemma call_H0 f a cm k :
  exec O A kret kerr call_stmt [("box", VObj f); ("args", VList a); ("computed_margins", cm)] k =
  match F f a with inl m => kerr m | inr (r', f', a') => k (envH f' a' cm r') end.
Proof.
  unfold call_stmt, envH. lazy -[ocall enc]. rewrite HF.
  destruct (F f a) as [m|[[r' f'] a']]; reflexivity.
Qed.
Lemma return_H f a cm r k :
  exec O A kret kerr (SReturn (EVar "result")) (envH f a cm r) k = kret (envH f a cm r) r.
Proof. reflexivity. Qed.
Lemma auto_stmt_H f a cm r k :
  exec O A kret kerr (SIf (ECmp (EAttr (EVar "box") "height") [(Eq, EConst (VStr "auto"))]) [SReturn (EVar "result")] [])
       (envH f a cm r) k =
  match is_auto_kw (lookup "height" f) with
  | inl m => kerr m
  | inr true => kret (envH f a cm r) r
  | inr false => k (envH f a cm r)
  end.
Proof.
  rewrite x_if. cbn -[exec_block]. destruct (lookup "height" f); cbn; try reflexivity.
Qed.

Definition then_H (size bound : string) : list stmt :=
      [SAssign [TAttr "box" size] (EAttr (EVar "box") bound);
       SUnpack [TAttr "box" "margin_top"; TAttr "box" "margin_bottom"] (EVar "computed_margins");
       call_stmt].
Lemma then_H_ok size bound f0 r f a k :
  let cm := VList [lookup "margin_top" f0; lookup "margin_bottom" f0] in
  exec_block O A kret kerr (then_H size bound) (envH f a cm r) k =
  match F (restore "margin_top" "margin_bottom" None f0 (update size (lookup bound f) f)) a with
  | inl m => kerr m
  | inr (r', f', a') => k (envH f' a' cm r')
  end.
Proof.
  intros cm. unfold restore. subst cm.
  lazy -[ocall enc]; rewrite HF.
  match goal with |- context [F ?X ?Y] => destruct (F X Y) as [m|[[r1 f1] a1]] end; reflexivity.
Qed.
Definition reenter_stmt_H (size bound : string) (above : bool) : stmt :=
  SIf (ECmp (EAttr (EVar "box") size) [(if above then Gt else Lt, EAttr (EVar "box") bound)]) (then_H size bound) [].
Lemma reenter_H_ok size bound above f0 r f a tr k :
  let cm := VList [lookup "margin_top" f0; lookup "margin_bottom" f0] in
  exec O A kret kerr (reenter_stmt_H size bound above) (envH f a cm r) k =
  match snd (reenter F (restore "margin_top" "margin_bottom" None f0) size bound above (r, f, a) tr) with
  | inl m => kerr m
  | inr (r', f', a') => k (envH f' a' cm r')
  end.
Proof.
  intros cm. unfold reenter_stmt_H. rewrite x_if. unfold reenter.
  pose proof (then_H_ok size bound f0 r f a k) as Hthen. cbv zeta in Hthen. fold cm in Hthen.
  destruct above; cbn -[exec_block then_H restore].
  all: destruct (lookup size f), (lookup bound f); cbn -[exec_block then_H restore]; try reflexivity.
  all: rewrite (qleb_eq _ HO); match goal with |- context [Qle_bool ?x ?y] => destruct (Qle_bool x y) end;
       cbn -[exec_block then_H restore]; [reflexivity|exact Hthen].
Qed.

Lemma height_body_ok f0 a0 k :
  let cm := VList [lookup "margin_top" f0; lookup "margin_bottom" f0] in
  exec_block O A kret kerr min_max_height_wrapper_body [("box", VObj f0); ("args", VList a0)] k =
  match wrap_height F f0 a0 with
  | inl m => kerr m
  | inr (r, f, a) => kret (envH f a cm r) r
  end.
Proof.
  intros cm. unfold min_max_height_wrapper_body, wrap_height, wrap_height_full, clamp.
  rewrite xb_cons, margins_stmt. change (flowing _) with false. cbv iota. fold cm.
  rewrite xb_cons. change (SUnpack _ (ECall "function" _)) with call_stmt at 1. rewrite call_H0.
  destruct (F f0 a0) as [m|[[r1 f1] a1]]; [reflexivity|].
  rewrite flowing_envH, xb_cons, auto_stmt_H.
  destruct (is_auto_kw (lookup "height" f1)) as [m|[|]]; [reflexivity|reflexivity|].
  rewrite flowing_envH, xb_cons.
  change (SIf (ECmp _ [(Gt, _)]) _ _) with (reenter_stmt_H "height" "max_height" true).
  rewrite (reenter_H_ok "height" "max_height" true f0 r1 f1 a1 [(f0, a0)]). fold cm.
  unfold fields, answer, calls in *.
  destruct (reenter F _ "height" "max_height" true (r1, f1, a1) [(f0, a0)]) as [tr1 [m|[[r2 f2] a2]]]; [reflexivity|].
  cbn [snd]. rewrite flowing_envH, xb_cons.
  change (SIf (ECmp _ [(Lt, _)]) _ _) with (reenter_stmt_H "height" "min_height" false).
  rewrite (reenter_H_ok "height" "min_height" false f0 r2 f2 a2 tr1). fold cm.
  destruct (reenter F _ "height" "min_height" false (r2, f2, a2) tr1) as [tr2 [m|[[r3 f3] a3]]]; [reflexivity|].
  cbn [snd]. rewrite flowing_envH, xb_cons, return_H. reflexivity.
Qed.
End W.

(* ------------------------------------------------------------------ the theorems *)
(* what the observer of a run sees when the wrapper returns r with the box in state f and the other arguments in
   state a: the environment holds the locals of the wrapper as well *)
Definition width_final (f0 : fields) (f : fields) (a : list val) (r : val) : env :=
  envW f a (VList [lookup "margin_left" f0; lookup "margin_right" f0]) (getattr_sem f0 "position_x" VNone) r.
Definition height_final (f0 : fields) (f : fields) (a : list val) (r : val) : env :=
  envH f a (VList [lookup "margin_top" f0; lookup "margin_bottom" f0]) r.

Theorem gen_wrap_width O (HO : ops_ok O) (F : oracle)
  (HF : forall f a, ocall O "function" [VObj f; VList a] = enc (F f a))
  (HG : forall f n d, ocall O "%getattr" [VObj f; VStr n; d] = getattr_sem f n d)
  {A} (obs : env -> option val -> A) (kerr : string -> A) f0 a0 :
  run O min_max_width_wrapper_body [("box", VObj f0); ("args", VList a0)] obs kerr =
  match wrap_width F f0 a0 with
  | inl m => kerr m
  | inr (r, f, a) => obs (width_final f0 f a r) (Some r)
  end.
Proof. unfold run. apply (width_body_ok O HO F HF HG). Qed.
Print Assumptions gen_wrap_width.

Theorem gen_wrap_height O (HO : ops_ok O) (F : oracle)
  (HF : forall f a, ocall O "function" [VObj f; VList a] = enc (F f a))
  {A} (obs : env -> option val -> A) (kerr : string -> A) f0 a0 :
  run O min_max_height_wrapper_body [("box", VObj f0); ("args", VList a0)] obs kerr =
  match wrap_height F f0 a0 with
  | inl m => kerr m
  | inr (r, f, a) => obs (height_final f0 f a r) (Some r)
  end.
Proof. unfold run. apply (height_body_ok O HO F HF). Qed.
Print Assumptions gen_wrap_height.

(* the same with the calls interpreted by [wrap_calls F]: no hypothesis is left, F is any oracle *)
Corollary gen_wrap_width_closed (F : oracle) {A} (obs : env -> option val -> A) (kerr : string -> A) f0 a0 :
  run (with_calls real_ops (wrap_calls F)) min_max_width_wrapper_body [("box", VObj f0); ("args", VList a0)] obs kerr =
  match wrap_width F f0 a0 with inl m => kerr m | inr (r, f, a) => obs (width_final f0 f a r) (Some r) end.
Proof. apply gen_wrap_width; [apply with_calls_ok, real_ok| |]; reflexivity. Qed.
Corollary gen_wrap_height_closed (F : oracle) {A} (obs : env -> option val -> A) (kerr : string -> A) f0 a0 :
  run (with_calls real_ops (wrap_calls F)) min_max_height_wrapper_body [("box", VObj f0); ("args", VList a0)] obs kerr =
  match wrap_height F f0 a0 with inl m => kerr m | inr (r, f, a) => obs (height_final f0 f a r) (Some r) end.
Proof. apply gen_wrap_height; [apply with_calls_ok, real_ok|]; reflexivity. Qed.

(* ------------------------------------------------------------------ the min/max clause, about the source *)
Require Import WV.proofs.C05_minmax_wrap.
Open Scope Q_scope.
Definition box_of (rho : env) : fields := match lookup "box" rho with VObj f => f | _ => [] end.

(* the regenerated wrapper of handle_min_max_width around ANY function that keeps a numeric width and leaves the
   bounds alone: it returns with min_width <= width, width <= max_width when min_width <= max_width, and
   width == min_width otherwise; it raises only what the function raises *)
Theorem source_min_max_width O (HO : ops_ok O) (F : oracle)
  (HF : forall f a, ocall O "function" [VObj f; VList a] = enc (F f a))
  (HG : forall f n d, ocall O "%getattr" [VObj f; VStr n; d] = getattr_sem f n d) f0 a0 mn mx :
  keeps F "width" "max_width" "min_width" ->
  (forall f a r f' a', F f a = inr (r, f', a') -> exists d, lookup "width" f' = VNum d) ->
  lookup "min_width" f0 = VNum mn -> lookup "max_width" f0 = VNum mx ->
  run O min_max_width_wrapper_body [("box", VObj f0); ("args", VList a0)]
      (fun rho _ => clamped "width" mn mx (box_of rho)) (raised_by F).
Proof.
  intros HK Hnum Hmn Hmx. rewrite (gen_wrap_width O HO F HF HG).
  pose proof (wrap_width_clamped F f0 a0 mn mx HK Hnum Hmn Hmx) as H.
  destruct (wrap_width F f0 a0) as [m|[[r f] a]]; exact H.
Qed.
Print Assumptions source_min_max_width.

Theorem source_min_max_height O (HO : ops_ok O) (F : oracle)
  (HF : forall f a, ocall O "function" [VObj f; VList a] = enc (F f a)) f0 a0 mn mx :
  keeps F "height" "max_height" "min_height" ->
  (forall f a r f' a', F f a = inr (r, f', a') -> lookup "height" f' = VStr "auto" \/ exists d, lookup "height" f' = VNum d) ->
  lookup "min_height" f0 = VNum mn -> lookup "max_height" f0 = VNum mx ->
  run O min_max_height_wrapper_body [("box", VObj f0); ("args", VList a0)]
      (fun rho _ => lookup "height" (box_of rho) = VStr "auto" \/ clamped "height" mn mx (box_of rho)) (raised_by F).
Proof.
  intros HK Hnum Hmn Hmx. rewrite (gen_wrap_height O HO F HF).
  pose proof (wrap_height_clamped F f0 a0 mn mx HK Hnum Hmn Hmx) as H.
  destruct (wrap_height F f0 a0) as [m|[[r f] a]]; exact H.
Qed.
Print Assumptions source_min_max_height.

(* whatever every answer of the decorated function satisfies (e.g. the width equation), the box and the value that
   the regenerated wrapper returns satisfy *)
Theorem source_min_max_width_preserves O (HO : ops_ok O) (F : oracle)
  (HF : forall f a, ocall O "function" [VObj f; VList a] = enc (F f a))
  (HG : forall f n d, ocall O "%getattr" [VObj f; VStr n; d] = getattr_sem f n d) (Q : answer -> Prop) f0 a0 :
  (forall f a c, F f a = inr c -> Q c) ->
  run O min_max_width_wrapper_body [("box", VObj f0); ("args", VList a0)]
      (fun rho r => exists v a, r = Some v /\ lookup "args" rho = VList a /\ Q (v, box_of rho, a)) (fun _ => True).
Proof.
  intros HQ. rewrite (gen_wrap_width O HO F HF HG).
  destruct (wrap_width F f0 a0) as [m|[[r f] a]] eqn:E; [exact I|].
  exists r, a. repeat split. exact (wrap_width_preserves F Q f0 a0 _ HQ E).
Qed.
Print Assumptions source_min_max_width_preserves.
