(* C03 / C04 - find_earlier_page_break of weasyprint/layout/block.py, its first statement (the case of a list of line
   boxes) as REGENERATED from the source on every run (gen/GenBreakLine.v: find_earlier_lines): index = len(children)
   - widows lines are kept, nothing when index < orphans.  It returns what `Frag2.find_earlier_f` returns on a
   fragment whose children are lines: None, or the first `index` lines and the place to resume. *)
From Coq Require Import QArith Qminmax Lqa List String Bool ZArith Lia.
Require Import WV.base.Py WV.gen.GenBreakLine WV.proofs.C10_gen_env WV.proofs.C03_gen_break_line.
Require WV.model.Frag2 WV.proofs.PyNatural.
Import ListNotations.
Open Scope string_scope.
Open Scope list_scope.

Definition fe_body : list stmt := match find_earlier_lines_body with [SIf _ th _] => th | _ => [] end.
Definition fe_n (n : nat) : stmt := nth n fe_body SPass.

(* line.resume_at: None after the last line of the paragraph, else the place of the next line *)
Definition res_val (r : option nat) : val :=
  match r with None => VNone | Some n => dict1 (vint (Z.of_nat n)) VNone end.

Lemma pindex_last l : prim_apply PIndex [VList l; VNum (inject_Z (0 - 1))] = last l (VErr "IndexError").
Proof.
  unfold prim_apply. rewrite as_int_inject. cbv zeta.
  destruct l as [|x l'] using rev_ind; [reflexivity|].
  rewrite app_length, Nat.add_comm. cbn [List.length Nat.add]. rewrite last_last.
  replace ((0 <=? 0 - 1)%Z && (0 - 1 <? Z.of_nat (S (List.length l')))%Z) with false by reflexivity.
  replace ((- Z.of_nat (S (List.length l')) <=? 0 - 1)%Z && (0 - 1 <? 0)%Z) with true
    by (symmetry; apply andb_true_intro; split; [apply Z.leb_le; lia|reflexivity]).
  replace (Z.to_nat (Z.of_nat (S (List.length l')) + (0 - 1))) with (List.length l') by lia.
  rewrite app_nth2 by lia. rewrite Nat.sub_diag. reflexivity.
Qed.
Lemma last_map {X Y} (f : X -> Y) (l : list X) (x0 : X) d : l <> [] -> last (map f l) d = f (last l x0).
Proof.
  induction l as [|x l IH]; [congruence|]. intros _. destruct l as [|y l]; [reflexivity|].
  change (last (map f (y :: l)) d = f (last (y :: l) x0)). apply IH. discriminate.
Qed.

Section FE.
Variable T : Type.                            (* the lines *)
Variable resume_of : T -> option nat.         (* line.resume_at *)
Variable extra : T -> list (string * val).    (* their other attributes *)
Variables (o w : Z) (sx : list (string * val)).
(* line boxes inherit orphans / widows: the source reads them on the first line *)
Definition fline (t : T) : val :=
  VObj (("style", VObj (("orphans", vint o) :: ("widows", vint w) :: sx)) :: ("resume_at", res_val (resume_of t))
        :: extra t).

Variable rp1 : list (string * val) -> list val -> list val -> list val -> list (string * val).
Variable rp2 rp3 : list (string * val) -> list val -> list val -> list val -> list val.
Variable oc : string -> list val -> val.
Variable fuel : nat.
Definition O : qops := mkOps Qplus Qminus Qmult Qdiv Qmax Qmin Qle_bool Qeq_bool oc fuel.
(* the module `boxes`: boxes.LineBox is some class object, and the children are instances of it *)
Variables (lcf bxs : list (string * val)).
Hypothesis HR : forall cx l ab fb,
  oc "remove_placeholders" [VObj cx; VList l; VList ab; VList fb] =
  VList [VNone; VObj (rp1 cx l ab fb); VList (rp2 cx l ab fb); VList (rp3 cx l ab fb)].
Hypothesis HD : forall k v, oc "%dict1" [k; v] = dict1 k v.
Hypothesis HI : forall t, oc "%isinstance" [fline t; VObj lcf] = VBool true.

Variables (t0 : T) (ls : list T).
Definition kidsv : list val := fline t0 :: map fline ls.
Definition Env2 (cx : list (string * val)) (ab fb : list val) (orp wid idx nc ra cl : val) : env :=
  [("context", VObj cx); ("children", VList kidsv); ("absolute_boxes", VList ab);
   ("fixed_boxes", VList fb); ("boxes", VObj (("LineBox", VObj lcf) :: bxs));
   ("orphans", orp); ("widows", wid); ("index", idx); ("new_children", nc); ("resume_at", ra); ("%call", cl)].
Lemma flowing_Env2 cx ab fb orp wid idx nc ra cl : flowing (Env2 cx ab fb orp wid idx nc ra cl) = false.
Proof. reflexivity. Qed.

Section Exec.
Variable A : Type.
Variable kret : env -> val -> A.
Variable kerr : string -> A.
Ltac ev := lazy -[Qminus Qle_bool Qeq_bool inject_Z Z.of_nat List.length Z.sub Z.add Z.opp Z.leb Z.ltb Z.eqb
                  Z.to_nat as_int gen_iter skipn firstn map fline exec_block res_val].
Ltac evp := lazy -[Qminus Qle_bool Qeq_bool inject_Z Z.of_nat List.length Z.sub Z.add Z.opp Z.leb Z.ltb Z.eqb
                  Z.to_nat as_int gen_iter skipn firstn map fline exec_block res_val prim_apply last].
Ltac ints := change (1 # 1)%Q with (inject_Z 1); change (0 # 1)%Q with (inject_Z 0);
             rewrite ?Qminus_inject, ?Qle_bool_inject, ?Qeq_bool_inject, ?as_int_inject.

(* the test of the statement: children and isinstance(children[0], boxes.LineBox) *)
Lemma F_if cx ab fb orp wid idx nc ra cl k :
  exec O A kret kerr (SIf (EAnd (EVar "children")
                                (ECall "%isinstance" [EIndex (EVar "children") 0; EAttr (EVar "boxes") "LineBox"]))
                          fe_body []) (Env2 cx ab fb orp wid idx nc ra cl) k =
  exec_block O A kret kerr fe_body (Env2 cx ab fb orp wid idx nc ra cl) k.
Proof. rewrite exec_if. unfold kidsv. ev. unfold fline at 1. ev. fold (fline t0). rewrite HI. reflexivity. Qed.

Lemma F0 cx ab fb orp wid idx nc ra cl k :
  exec O A kret kerr (fe_n 0) (Env2 cx ab fb orp wid idx nc ra cl) k = k (Env2 cx ab fb (vint o) wid idx nc ra cl).
Proof. unfold kidsv, fline. ev. reflexivity. Qed.
Lemma F1 cx ab fb orp wid idx nc ra cl k :
  exec O A kret kerr (fe_n 1) (Env2 cx ab fb orp wid idx nc ra cl) k = k (Env2 cx ab fb orp (vint w) idx nc ra cl).
Proof. unfold kidsv, fline. ev. reflexivity. Qed.
Lemma F2 cx ab fb orp idx nc ra cl k :
  exec O A kret kerr (fe_n 2) (Env2 cx ab fb orp (vint w) idx nc ra cl) k =
  k (Env2 cx ab fb orp (vint w) (vint (Z.of_nat (S (List.length ls)) - w)) nc ra cl).
Proof.
  transitivity (k (Env2 cx ab fb orp (vint w)
                        (VNum (Qminus (inject_Z (Z.of_nat (S (List.length ls)))) (inject_Z w))) nc ra cl));
    [|rewrite Qminus_inject; reflexivity].
  unfold vint. ev. cbn [List.length]. rewrite map_length. reflexivity.
Qed.
Lemma F3 cx ab fb i nc ra cl k :
  exec O A kret kerr (fe_n 3) (Env2 cx ab fb (vint o) (vint w) (vint i) nc ra cl) k =
  if (o <=? i)%Z then k (Env2 cx ab fb (vint o) (vint w) (vint i) nc ra cl)
  else kret (Env2 cx ab fb (vint o) (vint w) (vint i) nc ra cl) VNone.
Proof. unfold vint. ev. ints. destruct (o <=? i)%Z; reflexivity. Qed.
Lemma F4 cx ab fb orp wid i nc ra cl k :
  (0 <= i)%Z ->
  exec O A kret kerr (fe_n 4) (Env2 cx ab fb orp wid (vint i) nc ra cl) k =
  k (Env2 cx ab fb orp wid (vint i) (VList (firstn (Z.to_nat i) kidsv)) ra cl).
Proof.
  intros Hi. unfold vint. ev. ints. ev. replace (0 <=? i)%Z with true by (symmetry; apply Z.leb_le; exact Hi).
  reflexivity.
Qed.
Lemma F5 cx ab fb orp wid idx (t1 : T) (l : list T) ra cl k :
  exec O A kret kerr (fe_n 5) (Env2 cx ab fb orp wid idx (VList (map fline (t1 :: l))) ra cl) k =
  k (Env2 cx ab fb orp wid idx (VList (map fline (t1 :: l))) (dict1 (vint 0) (res_val (resume_of (last (t1 :: l) t1)))) cl).
Proof.
  evp. change (Qminus (0 # 1) (1 # 1)) with (inject_Z (0 - 1)). rewrite pindex_last.
  rewrite (last_map fline (t1 :: l) t1) by discriminate.
  unfold fline at 1. destruct (resume_of (last (t1 :: l) t1)); ev; rewrite HD; reflexivity.
Qed.
Lemma F6 cx ab fb orp wid i nc ra cl k :
  (0 <= i)%Z ->
  exec O A kret kerr (fe_n 6) (Env2 cx ab fb orp wid (vint i) nc ra cl) k =
  k (Env2 (rp1 cx (skipn (Z.to_nat i) kidsv) ab fb) (rp2 cx (skipn (Z.to_nat i) kidsv) ab fb)
          (rp3 cx (skipn (Z.to_nat i) kidsv) ab fb) orp wid (vint i) nc ra VNone).
Proof.
  intros Hi. unfold vint. ev. ints. ev. replace (0 <=? i)%Z with true by (symmetry; apply Z.leb_le; exact Hi).
  rewrite HR. ev. reflexivity.
Qed.
Lemma F7 cx ab fb orp wid idx (l : list val) (ra : val) cl k :
  exec O A kret kerr (fe_n 7) (Env2 cx ab fb orp wid idx (VList l) ra cl) k =
  kret (Env2 cx ab fb orp wid idx (VList l) ra cl) (VList [VList l; ra]).
Proof. ev. reflexivity. Qed.
End Exec.

Variables (cx : list (string * val)) (ab fb : list val).
Definition fe_env0 : env :=
  [("context", VObj cx); ("children", VList kidsv); ("absolute_boxes", VList ab);
   ("fixed_boxes", VList fb); ("boxes", VObj (("LineBox", VObj lcf) :: bxs))].
Lemma fe_env0_Env2 :
  env_eqv fe_env0 (Env2 cx ab fb (U "orphans") (U "widows") (U "index") (U "new_children") (U "resume_at") (U "%call")).
Proof.
  intros x. unfold fe_env0, Env2, U. cbn [lookup].
  repeat match goal with
         | |- context [String.eqb x ?k] =>
             let H := fresh "Hx" in
             destruct (String.eqb x k) eqn:H; [try reflexivity; apply String.eqb_eq in H; subst x; reflexivity|]
         end.
  reflexivity.
Qed.

(* what the statement returns, on integers: the number of lines kept *)
Definition src_find_earlier : option Z :=
  let i := (Z.of_nat (S (List.length ls)) - w)%Z in if (o <=? i)%Z then Some i else None.
Definition fe_ret (i : Z) : val :=
  let kept := firstn (Z.to_nat i) (t0 :: ls) in
  VList [VList (map fline kept); dict1 (vint 0) (res_val (resume_of (last kept t0)))].

Theorem gen_find_earlier_run :
  (1 <= o)%Z ->
  run O find_earlier_lines_body fe_env0
    (fun _ r => r = Some (match src_find_earlier with None => VNone | Some i => fe_ret i end)) (fun _ => False).
Proof.
  intros Ho.
  rewrite (run_env_eqv _ _ _ _ _ _ fe_env0_Env2) by (intros; reflexivity).
  unfold run, src_find_earlier.
  change find_earlier_lines_body with
    [SIf (EAnd (EVar "children")
               (ECall "%isinstance" [EIndex (EVar "children") 0; EAttr (EVar "boxes") "LineBox"])) fe_body []].
  rewrite exec_block_cons, F_if.
  change fe_body with [fe_n 0; fe_n 1; fe_n 2; fe_n 3; fe_n 4; fe_n 5; fe_n 6; fe_n 7].
  rewrite exec_block_cons, F0, flowing_Env2, exec_block_cons, F1, flowing_Env2, exec_block_cons, F2, flowing_Env2.
  rewrite exec_block_cons, F3.
  set (i := (Z.of_nat (S (List.length ls)) - w)%Z).
  destruct (o <=? i)%Z eqn:E; [|reflexivity].
  apply Z.leb_le in E.
  rewrite flowing_Env2, exec_block_cons, F4, flowing_Env2 by lia.
  unfold fe_ret. destruct (Z.to_nat i) as [|n] eqn:En; [lia|].
  unfold kidsv. change (fline t0 :: map fline ls) with (map fline (t0 :: ls)). rewrite firstn_map.
  cbn [firstn].
  rewrite exec_block_cons, F5, flowing_Env2, exec_block_cons, F6, flowing_Env2, exec_block_cons, F7 by lia.
  reflexivity.
Qed.
End FE.

(* ---- the value returned is Frag2.find_earlier_f's, on a fragment whose children are lines ---- *)
Definition ldata := (Z * Z * Z * option nat)%type.       (* word id, y, height, resume *)
Definition mk_line (on wn : nat) (d : ldata) : Frag2.frag :=
  let '(wid, y, h, r) := d in Frag2.FLine wid y h r on wn.
Definition ld_res (d : ldata) : option nat := snd d.

Lemma find_earlier_lines_model (on wn : nat) st i y mt mb pt pb bt bb h (d0 : ldata) (ds : list ldata) :
  (1 <= on)%nat ->
  Frag2.find_earlier_f (Frag2.FBlk st i y mt mb pt pb bt bb h (map (mk_line on wn) (d0 :: ds))) =
  match src_find_earlier ldata (Z.of_nat on) (Z.of_nat wn) ds with
  | None => None
  | Some k =>
      let kept := firstn (Z.to_nat k) (d0 :: ds) in
      Some (map (mk_line on wn) kept,
            Frag2.SChild 0 (match ld_res (last kept d0) with Some n => Some (Frag2.SLine n) | None => None end))
  end.
Proof.
  intros Ho. unfold src_find_earlier.
  destruct d0 as [[[wid0 y0] h0] r0]. cbn [map mk_line Frag2.find_earlier_f].
  cbn [List.length]. rewrite map_length.
  set (len := S (List.length ds)).
  destruct (Z.leb_spec (Z.of_nat on) (Z.of_nat len - Z.of_nat wn)) as [H|H].
  - replace ((len <? wn)%nat || (len - wn <? on)%nat) with false
      by (symmetry; apply orb_false_intro; apply Nat.ltb_ge; lia).
    replace (Z.to_nat (Z.of_nat len - Z.of_nat wn)) with (len - wn)%nat by lia.
    change (Frag2.FLine wid0 y0 h0 r0 on wn :: map (mk_line on wn) ds)
      with (map (mk_line on wn) ((wid0, y0, h0, r0) :: ds)).
    rewrite firstn_map. cbv zeta. f_equal. f_equal. f_equal.
    unfold Frag2.last_resume.
    destruct (len - wn)%nat as [|n] eqn:En; [lia|]. cbn [firstn].
    rewrite (last_map (mk_line on wn) _ (wid0, y0, h0, r0)) by discriminate.
    assert (Hh : forall d, match mk_line on wn d with Frag2.FLine _ _ _ r _ _ => r | _ => None end = ld_res d)
      by (intros [[[? ?] ?] ?]; reflexivity).
    rewrite Hh. reflexivity.
  - replace ((len <? wn)%nat || (len - wn <? on)%nat) with true; [reflexivity|].
    symmetry. apply orb_true_iff. destruct (Nat.ltb_spec len wn); [left; reflexivity|right; apply Nat.ltb_lt; lia].
Qed.

(* ---- for every operations record with exact arithmetic ---- *)
Section Ops.
Variable rp1 : list (string * val) -> list val -> list val -> list val -> list (string * val).
Variable rp2 rp3 : list (string * val) -> list val -> list val -> list val -> list val.
Variable Ops : qops.
Hypothesis HO : ops_ok Ops.
Variables (on wn : nat) (sx lcf bxs : list (string * val)).
Definition enc_line (d : ldata) : val :=
  fline ldata ld_res (fun d => [("id", vint (fst (fst (fst d)))); ("position_y", vint (snd (fst (fst d))));
                                ("height", vint (snd (fst d)))]) (Z.of_nat on) (Z.of_nat wn) sx d.
Hypothesis HR : forall cx l ab fb,
  ocall Ops "remove_placeholders" [VObj cx; VList l; VList ab; VList fb] =
  VList [VNone; VObj (rp1 cx l ab fb); VList (rp2 cx l ab fb); VList (rp3 cx l ab fb)].
Hypothesis HD : forall k v, ocall Ops "%dict1" [k; v] = dict1 k v.
Hypothesis HI : forall d, ocall Ops "%isinstance" [enc_line d; VObj lcf] = VBool true.

Definition enc_skip (s : Frag2.skip) : val :=
  match s with
  | Frag2.SChild i sub => dict1 (vint (Z.of_nat i)) (match sub with Some (Frag2.SLine n) => res_val (Some n) | _ => VNone end)
  | Frag2.SLine n => res_val (Some n)
  end.
Definition enc_found (r : option (list Frag2.frag * Frag2.skip)) (enc : Frag2.frag -> val) : val :=
  match r with None => VNone | Some (newc, s) => VList [VList (map enc newc); enc_skip s] end.

Theorem gen_find_earlier st i y mt mb pt pb bt bb h (d0 : ldata) (ds : list ldata) cx ab fb :
  (1 <= on)%nat ->
  run Ops find_earlier_lines_body
    [("context", VObj cx); ("children", VList (map enc_line (d0 :: ds))); ("absolute_boxes", VList ab);
     ("fixed_boxes", VList fb); ("boxes", VObj (("LineBox", VObj lcf) :: bxs))]
    (fun _ r =>
       exists enc : Frag2.frag -> val,
         (forall d, enc (mk_line on wn d) = enc_line d) /\
         r = Some (enc_found (Frag2.find_earlier_f
                                (Frag2.FBlk st i y mt mb pt pb bt bb h (map (mk_line on wn) (d0 :: ds)))) enc))
    (fun _ => False).
Proof.
  intros Ho.
  destruct Ops as [qa qs qm qd qmx qmn ql qe oc fuel]. destruct HO as [E1 E2 E3 E4 E5 E6 E7 E8].
  cbn [qadd qsub qmul qdiv qmax qmin qleb qeqb ocall] in *. subst.
  pose proof (gen_find_earlier_run ldata ld_res _ (Z.of_nat on) (Z.of_nat wn) sx rp1 rp2 rp3 oc fuel lcf bxs HR HD HI
                d0 ds cx ab fb ltac:(lia)) as H.
  unfold O in H.
  match type of H with run _ _ ?E _ _ => match goal with |- run _ _ ?E' _ _ => change E' with E end end.
  rewrite WV.proofs.PyNatural.run_natural in *.
  match type of H with match ?X with _ => _ end => destruct X as [rho r|m] end; [|exact H].
  subst r.
  exists (fun f => match f with
                   | Frag2.FLine wid yy hh r _ _ => enc_line (wid, yy, hh, r)
                   | _ => VNone end).
  split; [intros [[[a b] c] r]; reflexivity|].
  rewrite (find_earlier_lines_model on wn st i y mt mb pt pb bt bb h d0 ds Ho).
  destruct (src_find_earlier ldata (Z.of_nat on) (Z.of_nat wn) ds) as [k|]; [|reflexivity].
  cbv zeta. unfold enc_found, fe_ret, enc_skip. rewrite map_map. f_equal. f_equal. f_equal.
  - f_equal. apply map_ext. intros [[[a b] c] r]. reflexivity.
  - destruct (ld_res (last (firstn (Z.to_nat k) (d0 :: ds)) d0)); reflexivity.
Qed.
End Ops.

(* ---- the hypotheses are satisfiable: five lines, orphans 2, widows 2: three lines are kept ---- *)
Definition ex_calls2 (f : string) (args : list val) : val :=
  if String.eqb f "%isinstance" then VBool true else ex_calls f args.
Definition ex_lines : list ldata :=
  [(1, 0, 10, Some 1%nat); (2, 10, 10, Some 2%nat); (3, 20, 10, Some 3%nat); (4, 30, 10, Some 4%nat); (5, 40, 10, None)]%Z.
Example gen_find_earlier_example :
  let st := Frag2.mkStyle 0 0 0 0 0 0 Frag2.BAuto Frag2.BAuto Frag2.BAuto 2 2 false in
  Frag2.find_earlier_f (Frag2.FBlk st 0 0 0 0 0 0 0 0 50 (map (mk_line 2 2) ex_lines)) =
    Some (map (mk_line 2 2) (firstn 3 ex_lines), Frag2.SChild 0 (Some (Frag2.SLine 3))) /\
  run (with_calls real_ops ex_calls2) find_earlier_lines_body
    [("context", VObj []); ("children", VList (map (enc_line 2 2 []) ex_lines)); ("absolute_boxes", VList []);
     ("fixed_boxes", VList []); ("boxes", VObj [("LineBox", VObj [])])]
    (fun _ r => r = Some (VList [VList (map (enc_line 2 2 []) (firstn 3 ex_lines));
                                 dict1 (vint 0) (res_val (Some 3%nat))]))
    (fun _ => False).
Proof. split; [reflexivity|]. vm_compute. reflexivity. Qed.
