(* C17 - the hypotheses of the theorems are satisfiable by non-trivial inputs. *)
From Coq Require Import ZArith List Bool.
Require Import WV.model.C17Stacking WV.model.C17Spec WV.model.C17Judge.
Import ListNotations.
Open Scope Z_scope.

Definition pl (id : Z) (k : kind) : info := I id k PStatic None TNone 0.
Definition line (id : Z) (kids : list box) : box := Box (pl id KLine) kids.
Definition text (id : Z) : box := Box (pl id KText) [].

(* body > [ relative z=1 block with a float and an absolutely positioned z=-1 child; a table with one cell whose
   line holds an inline-block (opacity) containing a positioned span; an overflow:hidden block with transform ] *)
Definition ex_tree : box :=
  Box (pl 0 KBlock)
    [ Box (I 1 KBlock PRelative (Some 1) TNone 0)
        [ Box (I 2 KBlock PStatic None TNone 1 (* float *)) [line 3 [text 4]];
          Box (I 5 KBlock PAbsolute (Some (-1)) TNone 0) [line 6 [text 7]];
          Box (pl 8 KBlock) [line 9 [text 10]] ];
      Box (pl 11 KBlock)
        [ Box (pl 12 KTable)
            [ Box (pl 13 KRowGroup)
                [ Box (pl 14 KRow)
                    [ Box (pl 15 KCell)
                        [ line 16
                            [ text 17;
                              Box (I 18 KInlineBlock PStatic None TNone 2 (* opacity *))
                                [ line 19 [ Box (I 20 KInline PRelative None TNone 0) [text 21] ] ] ] ] ] ] ] ];
      Box (I 22 KBlock PStatic None TRegular (4 + 8) (* transform, overflow *)) [line 23 [text 24]] ].

Example ex_tree_wf : wf ex_tree = true /\ regular ex_tree = true.
Proof. vm_compute. split; reflexivity. Qed.

Example ex_tree_nontrivial :
  length (ctx_neg (from_box ex_tree)) = 0%nat /\ length (ctx_zero (from_box ex_tree)) = 2%nat /\
  length (ctx_pos (from_box ex_tree)) = 1%nat /\ length (ctx_blocks (from_box ex_tree)) = 2%nat /\
  length (ctx_bcs (from_box ex_tree)) = 3%nat /\
  match ctx_pos (from_box ex_tree) with
  | [c] => length (ctx_neg c) = 1%nat /\ length (ctx_floats c) = 1%nat
  | _ => False
  end.
Proof. vm_compute. repeat split. Qed.

Definition ex_page : box := Box (pl 100 KPage) [ex_tree; Box (pl 101 KMargin) [line 102 [text 103]]].
Example ex_page_wf : wf_page ex_page = true.
Proof. vm_compute. reflexivity. Qed.

(* the equality the order theorem states, computed on the example (sanity of the statement itself) *)
Example ex_tree_order : events_eqb (paint_ctx (from_box ex_tree)) (appendix_E_paint ex_tree) = true.
Proof. vm_compute. reflexivity. Qed.
Example ex_tree_once : once_codes (paint_ctx (from_box ex_tree)) false ex_tree = [].
Proof. vm_compute. reflexivity. Qed.
