(* C20 - proofs about the resource state machine, part 3: every failure the library can notice is logged.
   For every fetch of a URL that fails in a way the consumer can detect, the run contains a log record naming
   that URL (error for images, sheets and attachments; debug for a font source - the face that cannot be
   loaded at all gets its own warning). *)
From Coq Require Import List String Bool Arith ZArith Lia.
Require Import WV.model.C20Url WV.model.C20Doc WV.proofs.C20_doc.
Import ListNotations.
Open Scope string_scope.
Open Scope list_scope.

(* what each consumer can notice: any failure of an image or a font; for a sheet an exception or a foreign
   type (empty or truncated CSS is a valid, empty sheet); for an attachment an exception (any bytes are a
   payload); any failure of an external <use> (fetched through urls.fetch and logged since the repair) *)
Definition detect (fails : fails_t) (ch : channel) (u : string) : Prop :=
  match ch, fails u with
  | ChImage, Some _ => True
  | ChUse, Some _ => True
  | ChFont, Some _ => True
  | ChSheet, Some MRaise | ChSheet, Some MWrongType | ChSheet, Some MHtml => True
  | ChAttach, Some MRaise => True
  | _, _ => False
  end.

Definition Q (fails : fails_t) (l : list ev) : Prop :=
  forall ch u, In (Fetch ch u) l -> detect fails ch u -> exists lv, In (Log lv u) l.

Section Logged.
  Variable W : world.
  Variable fails : fails_t.
  Notation Q := (Q fails).

  Lemma Q_nil : Q [].
  Proof. intros ch u []. Qed.

  Lemma Q_app l1 l2 : Q l1 -> Q l2 -> Q (l1 ++ l2).
  Proof.
    intros H1 H2 ch u Hin Hd. apply in_app_or in Hin as [Hin|Hin].
    - destruct (H1 _ _ Hin Hd) as [lv H]. exists lv. apply in_or_app. left. exact H.
    - destruct (H2 _ _ Hin Hd) as [lv H]. exists lv. apply in_or_app. right. exact H.
  Qed.

  Lemma Q_cons e l : (forall ch u, e <> Fetch ch u) -> Q l -> Q (e :: l).
  Proof.
    intros He H ch u [Hin|Hin] Hd; [exfalso; exact (He _ _ Hin)|].
    destruct (H _ _ Hin Hd) as [lv H']. exists lv. right. exact H'.
  Qed.

  Lemma Q_fetch_logged ch u lv l : Q l -> Q (Fetch ch u :: Log lv u :: l).
  Proof.
    intros H ch' u' [Hin|[Hin|Hin]] Hd.
    - inversion Hin; subst. exists lv. right. left. reflexivity.
    - discriminate.
    - destruct (H _ _ Hin Hd) as [lv' H']. exists lv'. right. right. exact H'.
  Qed.

  Lemma Q_fetch_fine ch u l : ~ detect fails ch u -> Q l -> Q (Fetch ch u :: l).
  Proof.
    intros Hn H ch' u' [Hin|Hin] Hd.
    - inversion Hin; subst. contradiction.
    - destruct (H _ _ Hin Hd) as [lv' H']. exists lv'. right. exact H'.
  Qed.

  Lemma Q_flat_map {A} (f : A -> list ev) l : (forall x, Q (f x)) -> Q (flat_map f l).
  Proof. intros H. induction l as [|x l IH]; [apply Q_nil|]. simpl. apply Q_app; [apply H|exact IH]. Qed.

  Ltac not_fetch := let c := fresh in let v := fresh in intros c v; discriminate.

  Lemma font_srcs_Q b srcs : Q (fst (font_srcs W fails b srcs)).
  Proof.
    induction srcs as [|rf r IH]; [apply Q_nil|]. simpl.
    destruct (url_join b rf false) as [a|].
    - destruct (font_ok W fails (fetched_string a)) eqn:E.
      + simpl. apply Q_fetch_fine; [|apply Q_nil].
        unfold detect. unfold font_ok in E. destruct (fails (fetched_string a)); [discriminate|tauto].
      + destruct (font_srcs W fails b r) as [e ok]. simpl in *. apply Q_fetch_logged. exact IH.
    - destruct (font_srcs W fails b r) as [e ok]. simpl in *. apply Q_cons; [not_fetch|exact IH].
  Qed.

  Lemma font_face_Q b id srcs : Q (font_face W fails b id srcs).
  Proof.
    unfold font_face. pose proof (font_srcs_Q b srcs) as H.
    destruct (font_srcs W fails b srcs) as [e ok]. simpl in H.
    apply Q_app; [exact H|]. apply Q_app.
    - destruct ok; [apply Q_nil|apply Q_cons; [not_fetch|apply Q_nil]].
    - apply Q_cons; [not_fetch|apply Q_nil].
  Qed.

  Lemma run_items_Q load b : (forall a, Q (fst (load a))) ->
    forall items ign, Q (fst (run_items W fails load b ign items)).
  Proof.
    intros Hload. induction items as [|s r IH]; intros ign; [apply Q_nil|]. simpl.
    destruct s as [id|rf mo|id srcs|k id rf].
    - specialize (IH true). destruct (run_items W fails load b true r) as [e i]. simpl in *.
      apply Q_cons; [not_fetch|exact IH].
    - specialize (IH ign). destruct (run_items W fails load b ign r) as [e2 i2]. simpl in IH.
      assert (H1 : Q (fst (if ign then ([Log LWarning "@import not at the beginning"], [])
                           else match url_join b rf false with
                                | None => ([Log LError (show_ref rf)], [])
                                | Some a => if mo then load a else ([], [])
                                end : list ev * list cssimg))).
      { destruct ign; simpl; [apply Q_cons; [not_fetch|apply Q_nil]|].
        destruct (url_join b rf false) as [a|]; [|simpl; apply Q_cons; [not_fetch|apply Q_nil]].
        destruct mo; [apply Hload|apply Q_nil]. }
      destruct (if ign then _ else _) as [e1 i1]. simpl in *. apply Q_app; assumption.
    - specialize (IH true). destruct (run_items W fails load b true r) as [e i]. simpl in *.
      apply Q_app; [apply font_face_Q|exact IH].
    - specialize (IH true). destruct (run_items W fails load b true r) as [e i]. simpl in *.
      destruct rf as [rf|]; [|exact IH].
      destruct (url_join b rf false); simpl; [exact IH|]. apply Q_cons; [not_fetch|exact IH].
  Qed.

  Lemma sheet_fail_Q link m u l : fails u = Some m -> Q l -> Q (Fetch ChSheet u :: sheet_fail_log link m u ++ l).
  Proof.
    intros Hf H. destruct m; simpl; try (apply Q_fetch_logged; exact H);
      apply Q_fetch_fine; try exact H; unfold detect; rewrite Hf; tauto.
  Qed.

  Lemma load_sheet_Q w : forall link a, Q (fst (load_sheet W fails w link a)).
  Proof.
    induction w as [|[k c] w IH]; intros link a; simpl.
    - apply Q_fetch_logged. apply Q_nil.
    - destruct (fetched_string k =? fetched_string a); [|apply IH].
      destruct (fails (fetched_string a)) as [m|] eqn:Ef.
      + simpl. rewrite <- (app_nil_r (sheet_fail_log link m (fetched_string a))).
        apply sheet_fail_Q; [exact Ef|apply Q_nil].
      + destruct c; try (simpl; apply Q_fetch_logged; apply Q_nil).
        pose proof (run_items_Q (load_sheet W fails w false) (base_of k) (IH false) items false) as H.
        destruct (run_items W fails (load_sheet W fails w false) (base_of k) false items) as [e i].
        simpl in *. apply Q_fetch_fine; [|exact H]. unfold detect. rewrite Ef. tauto.
  Qed.

  Lemma sheets_of_Q b items : Q (fst (sheets_of W fails b items)).
  Proof.
    induction items as [|it r IH]; [apply Q_nil|]. simpl.
    destruct it as [rf|its|k id rf al|k id rf|rf]; try exact IH.
    - destruct (sheets_of W fails b r) as [e2 i2]. simpl in IH.
      assert (H1 : Q (fst (match url_join b rf false with
                           | None => ([Log LError (show_ref rf)], [])
                           | Some a => load_sheet W fails W true a
                           end : list ev * list cssimg))).
      { destruct (url_join b rf false) as [a|]; [apply load_sheet_Q|].
        simpl. apply Q_cons; [not_fetch|apply Q_nil]. }
      destruct (match url_join b rf false with None => _ | Some a => _ end) as [e1 i1].
      simpl in *. apply Q_app; assumption.
    - destruct (sheets_of W fails b r) as [e2 i2]. simpl in IH.
      pose proof (run_items_Q (load_sheet W fails W false) b (load_sheet_Q W false) its false) as H1.
      destruct (run_items W fails (load_sheet W fails W false) b false its) as [e1 i1].
      simpl in *. apply Q_app; assumption.
  Qed.

  Lemma attach_one_Q u : Q (attach_one W fails u).
  Proof.
    unfold attach_one. destruct (att_ok W fails u) eqn:E.
    - apply Q_fetch_fine; [|apply Q_cons; [not_fetch|apply Q_nil]].
      unfold detect. unfold att_ok in E. destruct (fails u) as [[]|]; try tauto. discriminate.
    - apply Q_fetch_logged. apply Q_nil.
  Qed.

  Lemma attach_items_Q b anchors : forall items seen, Q (attach_items W fails b anchors seen items).
  Proof.
    induction items as [|it r IH]; intros seen; [apply Q_nil|]. cbn [attach_items].
    destruct it as [rf|its|k id rf al|k id rf|rf]; try apply IH.
    destruct (Bool.eqb match k with AAnchor => true | _ => false end anchors); [|apply IH].
    destruct (url_join b rf (if anchors then true else false)) as [a|].
    - destruct (anchors && existsb (String.eqb (fetched_string a)) seen); [apply IH|].
      apply Q_app; [apply attach_one_Q|apply IH].
    - apply Q_cons; [not_fetch|apply IH].
  Qed.

  Lemma sem_req_Q q : Q (sem_req W fails q).
  Proof.
    destruct q as [[[[k id] a] al] o]. destruct a as [a|]; simpl.
    - apply Q_cons; [not_fetch|]. apply Q_cons; [not_fetch|apply Q_nil].
    - apply Q_cons; [not_fetch|apply Q_nil].
  Qed.

  Lemma sem_kids_Q rec owner oo b : (forall u, Q (rec u)) -> forall kids, Q (sem_kids W fails rec owner oo b kids).
  Proof.
    intros Hrec. induction kids as [|v r IH]; [apply Q_nil|]. simpl.
    destruct v as [rf|rf]; destruct (url_join b rf true) as [a|]; try exact IH.
    - apply Q_cons; [not_fetch|]. apply Q_app; [|exact IH].
      destruct (img_ok W fails (fetched_string a)); [apply Hrec|apply Q_nil].
    - apply Q_cons; [not_fetch|exact IH].
  Qed.

  Lemma sem_draw_Q w : forall u o, Q (sem_draw W fails w u o).
  Proof.
    induction w as [|[k c] w IH]; intros u o; [apply Q_nil|]. simpl.
    destruct (fetched_string k =? u); [|apply IH].
    destruct c; try apply Q_nil.
    - apply Q_cons; [not_fetch|apply Q_nil].
    - apply sem_kids_Q. intros v. apply IH.
  Qed.

  Lemma sem_draw_req_Q q : Q (sem_draw_req W fails q).
  Proof.
    destruct q as [[[[k id] a] al] o]. destruct a as [a|]; simpl; [|apply Q_nil].
    destruct (img_ok W fails (fetched_string a)); [apply sem_draw_Q|apply Q_nil].
  Qed.

  Lemma sem_doc_Q d : Q (sem_doc W fails d).
  Proof.
    unfold sem_doc. pose proof (sheets_of_Q (d_base d) (d_items d)) as Hs.
    destruct (sheets_of W fails (d_base d) (d_items d)) as [es ci]. simpl in Hs.
    apply Q_app; [exact Hs|]. apply Q_app; [apply Q_flat_map; apply sem_req_Q|].
    apply Q_app; [apply Q_flat_map; apply sem_draw_req_Q|].
    apply Q_app; apply attach_items_Q.
  Qed.

  (* through the cache filter: the logs of the semantics stay, a cached fetch brings its own *)
  Lemma cfilter_keeps_logs l : forall seen lv u,
    In (Log lv u) l -> In (Log lv u) (cachefilter W fails seen l).
  Proof.
    induction l as [|e l IH]; intros seen lv u H; [destruct H|].
    destruct H as [H|H].
    - subst e. left. reflexivity.
    - destruct e as [ch v|v|lv' v|x]; simpl; try (right; apply IH; exact H).
      destruct (existsb (rkey_eqb v) seen); [apply IH; exact H|].
      right. apply in_or_app. right. apply IH. exact H.
  Qed.

  Lemma cfilter_fetch_origin l : forall seen ch u,
    In (Fetch ch u) (cachefilter W fails seen l) ->
    In (Fetch ch u) l \/
    (exists k, ch = key_ch k /\ u = key_url k /\
               (key_ok W fails k = false -> In (Log LError u) (cachefilter W fails seen l))).
  Proof.
    induction l as [|e l IH]; intros seen ch u H; [destruct H|].
    destruct e as [ch' v|v|lv' v|x]; simpl in H.
    - destruct H as [H|H]; [left; left; exact H|].
      destruct (IH _ _ _ H) as [H'|[k [E1 [E2 H']]]]; [left; right; exact H'|right; exists k; repeat split; auto].
      intros Hi. right. apply H'. exact Hi.
    - simpl. destruct (existsb (rkey_eqb v) seen).
      + destruct (IH _ _ _ H) as [H'|H']; [left; right; exact H'|right; exact H'].
      + destruct H as [H|H].
        * inversion H; subst. right. exists v. repeat split. intros Hi. rewrite Hi. right. left. reflexivity.
        * apply in_app_or in H as [H|H].
          -- destruct (key_ok W fails v); [destruct H|]. destruct H as [H|[]]. discriminate.
          -- destruct (IH _ _ _ H) as [H'|[k [E1 [E2 H']]]]; [left; right; exact H'|right; exists k; repeat split; auto].
             intros Hi. right. apply in_or_app. right. apply H'. exact Hi.
    - destruct H as [H|H]; [discriminate|].
      destruct (IH _ _ _ H) as [H'|[k [E1 [E2 H']]]]; [left; right; exact H'|right; exists k; repeat split; auto].
      intros Hi. right. apply H'. exact Hi.
    - destruct H as [H|H]; [discriminate|].
      destruct (IH _ _ _ H) as [H'|[k [E1 [E2 H']]]]; [left; right; exact H'|right; exists k; repeat split; auto].
      intros Hi. right. apply H'. exact Hi.
  Qed.

  Theorem failures_are_logged c0 d : cache_ok W fails c0 -> Q (snd (m_doc W fails c0 d)).
  Proof.
    intros Hc. destruct (machine_is_filtered_semantics W fails c0 d Hc) as [E _]. rewrite E.
    intros ch u Hin Hd.
    destruct (cfilter_fetch_origin _ _ _ _ Hin) as [H|[k [Ech [Eu H]]]].
    - destruct (sem_doc_Q d _ _ H Hd) as [lv Hl]. exists lv. apply cfilter_keeps_logs. exact Hl.
    - subst ch u. exists LError. apply H. unfold detect in Hd.
      destruct k; simpl in *; unfold img_ok, use_ok;
        (destruct (fails u); [reflexivity|contradiction]).
  Qed.
End Logged.
