(* C16 - every name a Stream emits (gs, Do, sh, scn) is a key of the resource dictionary of that stream when the
   document is finalised; _use_references keeps the keys and finds every image name in the images table. *)
From Coq Require Import ZArith List Bool Lia.
Require Import WV.model.C16Stream WV.model.C16Res WV.proofs.C16_skip.
Import ListNotations.
Open Scope Z_scope.

(* --------------------------------------------------------------------------------------- list surgery *)
Lemma nth_error_upd_same {A} (l : list A) i x : (i < length l)%nat -> nth_error (upd l i x) i = Some x.
Proof. revert i. induction l as [|a l IH]; intros [|i] H; simpl in *; try lia; auto. apply IH. lia. Qed.
Lemma nth_error_upd_other {A} (l : list A) i j x : i <> j -> nth_error (upd l i x) j = nth_error l j.
Proof. revert i j. induction l as [|a l IH]; intros [|i] [|j] H; simpl; auto; try congruence. Qed.
Lemma length_upd {A} (l : list A) i x : length (upd l i x) = length l.
Proof. revert i. induction l as [|a l IH]; intros [|i]; simpl; auto. Qed.
Lemma nth_error_lt {A} (l : list A) i x : nth_error l i = Some x -> (i < length l)%nat.
Proof. intro H. apply nth_error_Some. congruence. Qed.
Lemma nth_error_app_l {A} (l m : list A) i x : nth_error l i = Some x -> nth_error (l ++ m) i = Some x.
Proof. intro H. rewrite nth_error_app1; auto. eapply nth_error_lt; eauto. Qed.
Lemma nth_error_snoc {A} (l : list A) x i y :
  nth_error (l ++ [x]) i = Some y -> nth_error l i = Some y \/ (i = length l /\ y = x).
Proof.
  intro H. destruct (Nat.lt_ge_cases i (length l)) as [L|L].
  - rewrite nth_error_app1 in H; auto.
  - rewrite nth_error_app2 in H; auto. destruct (i - length l)%nat eqn:E.
    + simpl in H. inversion H. right. split; auto. lia.
    + simpl in H. destruct n; discriminate.
Qed.

(* ----------------------------------------------------------------------------- the dictionaries only grow *)
Definition keys_sub (r r' : resd) : Prop := forall n, defined_in r n = true -> defined_in r' n = true.
Lemma keys_sub_refl r : keys_sub r r.
Proof. intros n H. exact H. Qed.

Lemma rname_eqb_refl n : rname_eqb n n = true.
Proof.
  destruct n; simpl; try apply Z.eqb_refl.
  - apply key_eqb_eq. reflexivity.
  - rewrite Z.eqb_refl, Bool.eqb_reflx. reflexivity.
Qed.
Lemma xo_mem_assign n v l m : xo_mem m l = true -> xo_mem m (xo_assign n v l) = true.
Proof.
  induction l as [|[n' v'] l IH]; simpl; [discriminate|]. intro H.
  destruct (rname_eqb n n'); simpl; auto.
  apply orb_true_iff in H. destruct H as [H|H]; [rewrite H; reflexivity|]. rewrite (IH H). apply orb_true_r.
Qed.
Lemma xo_mem_assign_same n v l : xo_mem n (xo_assign n v l) = true.
Proof.
  induction l as [|[n' v'] l IH]; simpl; [rewrite rname_eqb_refl; reflexivity|].
  destruct (rname_eqb n n') eqn:E; simpl; rewrite ?E; simpl; auto.
Qed.
Lemma gs_mem_assign k v l m : gs_mem m l = true -> gs_mem m (gs_assign k v l) = true.
Proof.
  induction l as [|[k' v'] l IH]; simpl; [discriminate|]. intro H.
  destruct (key_eqb k k'); simpl; auto.
  apply orb_true_iff in H. destruct H as [H|H]; [rewrite H; reflexivity|]. rewrite (IH H). apply orb_true_r.
Qed.
Lemma gs_mem_assign_same k v l : gs_mem k (gs_assign k v l) = true.
Proof.
  induction l as [|[k' v'] l IH]; simpl; [rewrite (proj2 (key_eqb_eq k k) eq_refl); reflexivity|].
  destruct (key_eqb k k') eqn:E; simpl; rewrite ?E; simpl; auto.
Qed.
Lemma gs_mem_app k l m : gs_mem k l = true -> gs_mem k (l ++ m) = true.
Proof. induction l as [|[k' v'] l IH]; simpl; [discriminate|]. intro H. apply orb_true_iff in H. destruct H as [H|H]; [rewrite H; reflexivity|]. rewrite IH; auto. apply orb_true_r. Qed.
Lemma gs_mem_snoc k v l : gs_mem k (l ++ [(k, v)]) = true.
Proof. induction l as [|[k' v'] l IH]; simpl; [rewrite (proj2 (key_eqb_eq k k) eq_refl); reflexivity|]. rewrite IH. apply orb_true_r. Qed.
Lemma pat_mem_assign n v l m :
  existsb (fun p => fst p =? m) l = true -> existsb (fun p : Z * nat => fst p =? m) (pat_assign n v l) = true.
Proof.
  induction l as [|[n' v'] l IH]; simpl; [discriminate|]. intro H.
  destruct (n =? n'); simpl; auto.
  apply orb_true_iff in H. destruct H as [H|H]; [rewrite H; reflexivity|]. rewrite (IH H). apply orb_true_r.
Qed.

(* ------------------------------------------------------------------------------------ the invariant *)
Definition SOK (d : doc) : Prop :=
  forall sid rid e, nth_error (d_str d) sid = Some (rid, e) ->
    exists r, nth_error (d_res d) rid = Some r /\ forall n, In n e -> defined_in r n = true.

Lemma SOK_set_res d rid r r' :
  SOK d -> nth_error (d_res d) rid = Some r -> keys_sub r r' -> SOK (set_res d rid r').
Proof.
  intros S E K sid rid0 e H. simpl in H. destruct (S _ _ _ H) as (r0 & E0 & D0).
  destruct (Nat.eq_dec rid rid0) as [->|N].
  - exists r'. simpl. split; [apply nth_error_upd_same; eapply nth_error_lt; eauto|].
    intros n I. apply K. rewrite E in E0. inversion E0; subst. auto.
  - exists r0. simpl. rewrite nth_error_upd_other; auto.
Qed.

Lemma d_res_emit_name d sid n : d_res (emit_name d sid n) = d_res d.
Proof. unfold emit_name. destruct (nth_error (d_str d) sid) as [[? ?]|]; reflexivity. Qed.
Lemma d_img_emit_name d sid n : d_img (emit_name d sid n) = d_img d.
Proof. unfold emit_name. destruct (nth_error (d_str d) sid) as [[? ?]|]; reflexivity. Qed.

Lemma SOK_emit d sid rid e r n :
  SOK d -> nth_error (d_str d) sid = Some (rid, e) -> nth_error (d_res d) rid = Some r -> defined_in r n = true ->
  SOK (emit_name d sid n).
Proof.
  intros S E R D sid0 rid0 e0 H. unfold emit_name in H. rewrite E in H. simpl in H.
  destruct (Nat.eq_dec sid sid0) as [->|N].
  - rewrite nth_error_upd_same in H by (eapply nth_error_lt; eauto). inversion H; subst.
    exists r. rewrite d_res_emit_name. split; auto. destruct (S _ _ _ E) as (r1 & E1 & D1). rewrite R in E1. inversion E1; subst.
    intros m [I|I]; subst; auto.
  - rewrite nth_error_upd_other in H by auto. destruct (S _ _ _ H) as (r0 & E0 & D0). exists r0.
    rewrite d_res_emit_name. auto.
Qed.

Lemma SOK_new_child d : SOK d -> SOK (fst (new_child d)).
Proof.
  intros S sid rid e H. simpl in H. apply nth_error_snoc in H. destruct H as [H|[-> H]].
  - destruct (S _ _ _ H) as (r & E & D). exists r. simpl. split; auto. apply nth_error_app_l. exact E.
  - inversion H; subst. exists res0. simpl. split; [rewrite nth_error_app2, Nat.sub_diag by lia; reflexivity|]. intros n [].
Qed.

Lemma res_of_Some d sid rid r :
  res_of d sid = Some (rid, r) -> exists e, nth_error (d_str d) sid = Some (rid, e) /\ nth_error (d_res d) rid = Some r.
Proof.
  unfold res_of. destruct (nth_error (d_str d) sid) as [[rid0 e]|] eqn:E; [|discriminate].
  destruct (nth_error (d_res d) rid0) as [r0|] eqn:R; [|discriminate]. intro H. inversion H; subst. eauto.
Qed.

Lemma step_SOK c d d' : SOK d -> call_scoped c d = true -> rstep c d = Some d' -> SOK d'.
Proof.
  intros S SC R. destruct c as [sid o]. unfold rstep in R.
  destruct (res_of d sid) as [[rid r]|] eqn:RO; [|discriminate].
  destruct (res_of_Some _ _ _ _ RO) as (e & ES & ER).
  destruct o.
  - (* RSetAlpha *)
    inversion R; subst; clear R.
    set (k := KA stroke a isint) in *.
    set (r' := if gs_mem k (r_gs r) then r else rmk (r_gs r ++ [(k, None)]) (r_xo r) (r_pat r) (r_sh r)).
    assert (K : keys_sub r r').
    { unfold r'. destruct (gs_mem k (r_gs r)); [apply keys_sub_refl|]. intros n H. destruct n; simpl in *; auto. apply gs_mem_app; auto. }
    assert (D : defined_in r' (NGs k) = true).
    { unfold r'. destruct (gs_mem k (r_gs r)) eqn:M; simpl; auto. apply gs_mem_snoc. }
    apply (SOK_emit _ sid rid e r'); auto.
    + apply (SOK_set_res d rid r r'); auto.
    + simpl. apply nth_error_upd_same. eapply nth_error_lt; eauto.
  - (* RSetState *)
    inversion R; subst; clear R.
    set (k := KS (Z.of_nat (length (r_gs r)))) in *.
    set (r' := rmk (gs_assign k None (r_gs r)) (r_xo r) (r_pat r) (r_sh r)).
    apply (SOK_emit _ sid rid e r'); auto.
    + apply (SOK_set_res d rid r r'); auto. intros n H. destruct n; simpl in *; auto. apply gs_mem_assign; auto.
    + simpl. apply nth_error_upd_same. eapply nth_error_lt; eauto.
    + simpl. apply gs_mem_assign_same.
  - (* RAlphaState *)
    simpl in R. inversion R; subst; clear R.
    set (d1 := dmk (d_res d ++ [res0]) (d_str d ++ [(length (d_res d), [])]) (d_img d)).
    assert (S1 : SOK d1) by (apply (SOK_new_child d S)).
    set (k := KS (Z.of_nat (length (r_gs r)))) in *.
    set (r' := rmk (gs_assign k (Some (length (d_str d))) (r_gs r))
                   (xo_assign (NX (Z.of_nat (length (r_xo r)))) (XG (length (d_str d))) (r_xo r)) (r_pat r) (r_sh r)).
    apply (SOK_emit _ sid rid e r'); auto.
    + apply (SOK_set_res d1 rid r r'); auto; [apply nth_error_app_l; auto|].
      intros n H. destruct n; simpl in *; auto; try (apply xo_mem_assign; auto). apply gs_mem_assign; auto.
    + simpl. apply nth_error_app_l. exact ES.
    + simpl. apply nth_error_upd_same. rewrite app_length. apply nth_error_lt in ER. lia.
    + simpl. apply gs_mem_assign_same.
  - (* RAddGroup *)
    simpl in R. inversion R; subst; clear R.
    set (d1 := dmk (d_res d ++ [res0]) (d_str d ++ [(length (d_res d), [])]) (d_img d)).
    assert (S1 : SOK d1) by (apply (SOK_new_child d S)).
    eapply (SOK_set_res d1 rid r); auto; [apply nth_error_app_l; auto|].
    intros n H. destruct n; simpl in *; auto; apply xo_mem_assign; auto.
  - (* RAddPattern *)
    simpl in R. inversion R; subst; clear R.
    set (d1 := dmk (d_res d ++ [res0]) (d_str d ++ [(length (d_res d), [])]) (d_img d)).
    assert (S1 : SOK d1) by (apply (SOK_new_child d S)).
    eapply (SOK_set_res d1 rid r); auto; [apply nth_error_app_l; auto|].
    intros n H. destruct n; simpl in *; auto. apply pat_mem_assign; auto.
  - (* RAddShading *)
    inversion R; subst; clear R.
    eapply (SOK_set_res d rid r); auto.
    intros n H. destruct n; simpl in *; auto.
    destruct (existsb (fun x => x =? Z.of_nat (length (r_sh r))) (r_sh r)); auto. rewrite existsb_app, H. reflexivity.
  - (* RAddImage *)
    inversion R; subst; clear R.
    assert (S1 : SOK (set_res d rid (rmk (r_gs r) (xo_assign (NI img interp) XI (r_xo r)) (r_pat r) (r_sh r)))).
    { eapply (SOK_set_res d rid r); auto. intros n H. destruct n; simpl in *; auto; apply xo_mem_assign; auto. }
    intros sid0 rid0 e0 H. exact (S1 sid0 rid0 e0 H).
  - (* RClone *)
    inversion R; subst; clear R. intros sid0 rid0 e0 H. simpl in H. apply nth_error_snoc in H. destruct H as [H|[-> H]].
    + destruct (S _ _ _ H) as (r0 & E0 & D0). exists r0. auto.
    + inversion H; subst. exists r. simpl. split; auto; intros n [].
  - (* RDraw *)
    inversion R; subst; clear R. simpl in SC.
    assert (D : defined d sid n = true) by (destruct n; try discriminate; exact SC).
    unfold defined in D. rewrite RO in D. eapply SOK_emit; eauto.
  - (* RShade *)
    inversion R; subst; clear R. simpl in SC.
    assert (D : defined d sid n = true) by (destruct n; try discriminate; exact SC).
    unfold defined in D. rewrite RO in D. eapply SOK_emit; eauto.
  - (* RPatColor *)
    inversion R; subst; clear R. simpl in SC.
    assert (D : defined d sid n = true) by (destruct n; try discriminate; exact SC).
    unfold defined in D. rewrite RO in D. eapply SOK_emit; eauto.
Qed.

Lemma run_SOK cs : forall d d', SOK d -> scoped d cs = true -> rrun cs d = Some d' -> SOK d'.
Proof.
  induction cs as [|c r IH]; simpl; intros d d' S SC R.
  - inversion R; subst. exact S.
  - apply andb_true_iff in SC. destruct SC as [SC1 SC2].
    destruct (rstep c d) as [d1|] eqn:E; [|discriminate].
    apply (IH d1 d'); auto. eapply step_SOK; eauto.
Qed.

Lemma doc_wf_SOK d : doc_wf d = true -> SOK d.
Proof.
  unfold doc_wf. intro W. apply andb_true_iff in W. destruct W as [W _]. apply andb_true_iff in W. destruct W as [_ W].
  rewrite forallb_forall in W. intros sid rid e H. apply nth_error_In in H. specialize (W _ H).
  unfold str_wf in W. simpl in W. destruct (nth_error (d_res d) rid) as [r|]; [|discriminate].
  exists r. split; auto. rewrite forallb_forall in W. exact W.
Qed.

Theorem every_named_resource_defined d calls d' :
  doc_wf d = true -> scoped d calls = true -> rrun calls d = Some d' ->
  forall sid n, In n (emitted d' sid) -> defined d' sid n = true.
Proof.
  intros W SC R sid n I. pose proof (run_SOK calls d d' (doc_wf_SOK d W) SC R) as S.
  unfold emitted in I. unfold defined, res_of.
  destruct (nth_error (d_str d') sid) as [[rid e]|] eqn:E; [|destruct I].
  destruct (S _ _ _ E) as (r & ER & D). rewrite ER. auto.
Qed.

(* ----------------------------------------------------------------- _use_references: keys kept, images found *)
Definition IMG (d : doc) : Prop :=
  forall r, In r (d_res d) -> forall i b v, In (NI i b, v) (r_xo r) -> img_mem i b (d_img d) = true.

Lemma In_xo_assign n v l m w : In (m, w) (xo_assign n v l) -> In (m, w) l \/ (m = n /\ w = v) \/ (rname_eqb n m = true /\ w = v).
Proof.
  induction l as [|[n' v'] l IH]; simpl.
  - intros [H|[]]. inversion H; subst. auto.
  - destruct (rname_eqb n n') eqn:E; simpl.
    + intros [H|H]; [inversion H; subst; right; right; auto|auto].
    + intros [H|H]; auto. destruct (IH H) as [A|A]; auto.
Qed.
Lemma rname_eqb_NI n i b : rname_eqb n (NI i b) = true -> n = NI i b.
Proof.
  destruct n; simpl; try discriminate. intro H. apply andb_true_iff in H. destruct H as [H1 H2].
  apply Z.eqb_eq in H1. apply Bool.eqb_prop in H2. congruence.
Qed.
Lemma In_upd {A} (l : list A) i x y : In y (upd l i x) -> In y l \/ y = x.
Proof.
  revert i. induction l as [|a l IH]; intros [|i]; simpl; auto.
  - intros [H|H]; auto.
  - intros [H|H]; auto. destruct (IH _ H); auto.
Qed.
Lemma img_mem_mono i b l x : img_mem i b l = true -> img_mem i b (l ++ [x]) = true.
Proof. unfold img_mem. intro H. rewrite existsb_app, H. reflexivity. Qed.

Lemma IMG_set_res d rid r r' :
  IMG d -> nth_error (d_res d) rid = Some r ->
  (forall i b v, In (NI i b, v) (r_xo r') -> In (NI i b, v) (r_xo r) \/ img_mem i b (d_img d) = true) ->
  IMG (set_res d rid r').
Proof.
  intros G E H r0 I i b v J. simpl in *. apply In_upd in I. destruct I as [I|I].
  - eapply G; eauto.
  - subst r0. destruct (H _ _ _ J) as [A|A]; auto. eapply G; eauto. eapply nth_error_In; eauto.
Qed.
Lemma IMG_new_child d : IMG d -> IMG (fst (new_child d)).
Proof.
  intros G r I i b v J. simpl in *. apply in_app_or in I. destruct I as [I|[E|[]]]; [eapply G; eauto|]. subst r. destruct J.
Qed.

Lemma step_IMG c d d' : IMG d -> rstep c d = Some d' -> IMG d'.
Proof.
  intros G R. destruct c as [sid o]. unfold rstep in R.
  destruct (res_of d sid) as [[rid r]|] eqn:RO; [|discriminate].
  destruct (res_of_Some _ _ _ _ RO) as (e & ES & ER).
  assert (EM : forall d0 n, IMG d0 -> IMG (emit_name d0 sid n)).
  { intros d0 n G0. unfold IMG. rewrite d_res_emit_name, d_img_emit_name. exact G0. }
  destruct o; simpl in R; inversion R; subst; clear R.
  - apply EM. eapply IMG_set_res; eauto. intros i b v J. left. destruct (gs_mem _ _); exact J.
  - apply EM. eapply IMG_set_res; eauto.
  - apply EM. eapply (IMG_set_res (fst (new_child d))); [apply IMG_new_child; auto|simpl; apply nth_error_app_l; eauto|].
    intros i b v J. simpl in J. apply In_xo_assign in J. destruct J as [J|[[J _]|[J _]]]; auto; try discriminate.
  - eapply (IMG_set_res (fst (new_child d))); [apply IMG_new_child; auto|simpl; apply nth_error_app_l; eauto|].
    intros i b v J. simpl in J. apply In_xo_assign in J. destruct J as [J|[[J _]|[J _]]]; auto; try discriminate.
  - eapply (IMG_set_res (fst (new_child d))); [apply IMG_new_child; auto|simpl; apply nth_error_app_l; eauto|]. auto.
  - eapply IMG_set_res; eauto.
  - (* RAddImage *)
    intros r0 I i b v J. simpl in *. apply In_upd in I.
    assert (M : forall i0 b0, img_mem i0 b0 (d_img d) = true ->
                img_mem i0 b0 (if img_mem img interp (d_img d) then d_img d else d_img d ++ [(img, interp)]) = true).
    { intros i0 b0 H. destruct (img_mem img interp (d_img d)); auto. apply img_mem_mono; auto. }
    destruct I as [I|I].
    + apply M. eapply G; eauto.
    + subst r0. simpl in J. apply In_xo_assign in J. destruct J as [J|[[J _]|[J _]]].
      * apply M. eapply G; eauto. eapply nth_error_In; eauto.
      * inversion J; subst. destruct (img_mem img interp (d_img d)) eqn:Q; auto.
        unfold img_mem. rewrite existsb_app. simpl. rewrite Z.eqb_refl, Bool.eqb_reflx. simpl. apply orb_true_r.
      * apply rname_eqb_NI in J. inversion J; subst. destruct (img_mem i b (d_img d)) eqn:Q; auto.
        unfold img_mem. rewrite existsb_app. simpl. rewrite Z.eqb_refl, Bool.eqb_reflx. simpl. apply orb_true_r.
  - intros r0 I. simpl in *. eapply G; eauto.
  - apply EM; auto.
  - apply EM; auto.
  - apply EM; auto.
Qed.

Lemma run_IMG cs : forall d d', IMG d -> rrun cs d = Some d' -> IMG d'.
Proof.
  induction cs as [|c r IH]; simpl; intros d d' G R.
  - inversion R; subst. exact G.
  - destruct (rstep c d) as [d1|] eqn:E; [|discriminate]. apply (IH d1 d'); [eapply step_IMG; eauto|exact R].
Qed.
Lemma doc_wf_IMG d : doc_wf d = true -> IMG d.
Proof.
  unfold doc_wf. intro W. apply andb_true_iff in W. destruct W as [_ W]. rewrite forallb_forall in W.
  intros r I i b v J. specialize (W r I). rewrite forallb_forall in W. exact (W _ J).
Qed.

Lemma xo_mem_map n l : xo_mem n (map (fun nv : rname * xval => (fst nv, XRef (snd nv))) l) = xo_mem n l.
Proof. induction l as [|[n' v'] l IH]; simpl; auto. rewrite IH. reflexivity. Qed.

Lemma finalise_all_ok imgs l :
  (forall r, In r l -> forall i b v, In (NI i b, v) (r_xo r) -> img_mem i b imgs = true) ->
  exists l', finalise_all imgs l = Some l' /\ length l' = length l /\
    forall rid r, nth_error l rid = Some r -> exists r', nth_error l' rid = Some r' /\ forall n, defined_in r' n = defined_in r n.
Proof.
  induction l as [|r l IH]; intro H.
  - exists []. simpl. repeat split; auto. intros [|?] ? E; discriminate.
  - destruct IH as (l' & E & L & P); [intros r0 I; apply H; right; auto|].
    assert (F : forallb (fun nv : rname * xval => match fst nv with NI i b => img_mem i b imgs | _ => true end) (r_xo r) = true).
    { apply forallb_forall. intros [n v] I. simpl. destruct n; auto. eapply (H r); [left; auto|exact I]. }
    simpl. unfold finalise_res. rewrite F, E. eexists. split; [reflexivity|]. split; [simpl; lia|].
    intros [|rid] r0 E0; simpl in *.
    + inversion E0; subst. eexists. split; [reflexivity|]. intro n. destruct n; simpl; auto.
      * apply xo_mem_map.
      * apply xo_mem_map.
    + apply P. exact E0.
Qed.

Theorem use_references_keeps_names d calls d' :
  doc_wf d = true -> scoped d calls = true -> rrun calls d = Some d' ->
  exists fin, finalise d' = Some fin /\
    (forall sid, emitted fin sid = emitted d' sid) /\
    (forall sid n, In n (emitted d' sid) -> defined fin sid n = true).
Proof.
  intros W SC R.
  pose proof (run_IMG calls d d' (doc_wf_IMG d W) R) as G.
  destruct (finalise_all_ok (d_img d') (d_res d') G) as (l' & E & L & P).
  unfold finalise. rewrite E. eexists. split; [reflexivity|]. split; [reflexivity|].
  intros sid n I. pose proof (every_named_resource_defined d calls d' W SC R sid n I) as D.
  unfold defined, res_of in *. simpl.
  destruct (nth_error (d_str d') sid) as [[rid e]|]; [|discriminate].
  destruct (nth_error (d_res d') rid) as [r|] eqn:ER; [|discriminate].
  destruct (P _ _ ER) as (r' & E' & Q). rewrite E', Q. exact D.
Qed.

Example named_resources_example :
  let cs := [(0%nat, RSetAlpha 500 false false); (0%nat, RAddGroup); (1%nat, RAddImage 7 true); (1%nat, RDraw (NI 7 true));
             (0%nat, RDraw (NX 0)); (0%nat, RAlphaState); (2%nat, RAddShading); (2%nat, RShade (NSh 0));
             (0%nat, RAddPattern); (0%nat, RPatColor (NP 0)); (0%nat, RClone); (4%nat, RSetState)] in
  doc_wf doc0 = true /\ scoped doc0 cs = true /\
  option_map (fun d => (nstreams d, emitted d 0, map fst (r_gs (nth 0 (d_res d) res0)))) (rrun cs doc0) =
    Some (5%nat, [NP 0; NGs (KS 1); NX 0; NGs (KA false 500 false)], [KA false 500 false; KS 1; KS 2]).
Proof. vm_compute. repeat split; reflexivity. Qed.
