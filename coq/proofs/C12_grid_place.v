(* C12 (grid part): proofs about the placement model WV.model.C12Grid (grid_layout step 1). *)
From Coq Require Import ZArith List Bool Lia.
Require Import WV.model.C12Grid.
Import ListNotations.
Open Scope Z_scope.

Ltac split_ifs :=
  repeat (match goal with
          | |- context[if ?b then _ else _] => destruct b eqn:?
          | H : context[if ?b then _ else _] |- _ => destruct b eqn:?
          end).

(* ------------------------------------------------------------------------------------------ _intersect *)

Lemma intersect_spec p1 s1 p2 s2 : 0 < s1 -> 0 < s2 ->
  (intersect p1 s1 p2 s2 = true <-> exists c, (p1 <= c < p1 + s1) /\ (p2 <= c < p2 + s2)).
Proof.
  intros H1 H2. unfold intersect. rewrite andb_true_iff, !Z.ltb_lt. split.
  - intros [A B]. exists (Z.max p1 p2). lia.
  - intros [c [A B]]. lia.
Qed.

Lemma intersect_false_disjoint p1 s1 p2 s2 c :
  intersect p1 s1 p2 s2 = false -> p1 <= c < p1 + s1 -> p2 <= c < p2 + s2 -> False.
Proof. unfold intersect. intros H A B. apply andb_false_iff in H. rewrite !Z.ltb_ge in H. lia. Qed.

Lemma intersect_sym p1 s1 p2 s2 : intersect p1 s1 p2 s2 = intersect p2 s2 p1 s1.
Proof. unfold intersect. apply andb_comm. Qed.

Lemma area_meets_sym a b : area_meets a b = area_meets b a.
Proof.
  destruct a as [[[x y] w] h], b as [[[x' y'] w'] h']. cbn.
  rewrite (intersect_sym x w), (intersect_sym y h). reflexivity.
Qed.

Definition in_area (a : area) (cx cy : Z) : Prop :=
  let '(x, y, w, h) := a in x <= cx < x + w /\ y <= cy < y + h.

Lemma area_meets_false_disjoint a b cx cy :
  area_meets a b = false -> in_area a cx cy -> in_area b cx cy -> False.
Proof.
  destruct a as [[[x y] w] h], b as [[[x' y'] w'] h']. cbn. intros H [A1 A2] [B1 B2].
  apply andb_false_iff in H. destruct H as [H | H].
  - exact (intersect_false_disjoint _ _ _ _ cx H A1 B1).
  - exact (intersect_false_disjoint _ _ _ _ cy H A2 B2).
Qed.

(* --------------------------------------------------------------------------------------- _get_placement *)

Definition nonline (g : gline) : bool := match g with GLine _ => false | _ => true end.
(* the span of an axis that is not given by a line: the start's span, else the end's, else 1 *)
Definition auto_size (s e : gline) : Z :=
  match s with GSpan n => n | _ => match e with GSpan m => m | _ => 1 end end.

Lemma norm_size c s : 1 <= snd (norm c s).
Proof. unfold norm. split_ifs; cbn [snd]; lia. Qed.
Lemma pl_line_start_size a e : 1 <= snd (pl_line_start a e).
Proof. apply norm_size. Qed.
Lemma pl_line_end_size s b : 1 <= snd (pl_line_end s b).
Proof. apply norm_size. Qed.
Lemma place_at_size s e k : 1 <= snd (place_at s e k).
Proof. unfold place_at. destruct s; auto using pl_line_start_size, pl_line_end_size. Qed.
Lemma get_placement_size s e k z : get_placement s e = Some (k, z) -> 1 <= z.
Proof.
  unfold get_placement. destruct s; [destruct e | | destruct e]; intros H; inversion H as [E]; clear H;
  try (pose proof (pl_line_end_size GAuto n) as P; rewrite E in P; exact P);
  try (pose proof (pl_line_start_size n e) as P; rewrite E in P; exact P);
  try (pose proof (pl_line_end_size (GSpan n) n0) as P; rewrite E in P; exact P).
Qed.

Lemma get_placement_none s e : get_placement s e = None <-> nonline s = true /\ nonline e = true.
Proof. destruct s, e; cbn; intuition discriminate. Qed.

Lemma place_at_valid s e k :
  nonline s = true -> nonline e = true -> gline_valid s = true -> gline_valid e = true ->
  place_at s e k = (k, auto_size s e) /\ 1 <= auto_size s e.
Proof.
  destruct s, e; cbn; intros; try discriminate;
  unfold pl_line_start, pl_line_end, norm, or1, get_span, or1; split_ifs;
  split; try (f_equal; lia); try lia.
Qed.

(* ------------------------------------------------------------------------------------------ max folds *)

Lemma fold_max_ge_init l a : a <= fold_left Z.max l a.
Proof. revert a. induction l as [|x l IH]; intros a; cbn; [lia|]. specialize (IH (Z.max a x)). lia. Qed.
Lemma fold_max_ge_in l a x : In x l -> x <= fold_left Z.max l a.
Proof.
  revert a. induction l as [|y l IH]; intros a; cbn; [tauto|]. intros [-> | H].
  - pose proof (fold_max_ge_init l (Z.max a x)). lia.
  - apply IH, H.
Qed.

Lemma max_end_bound l p : In p l -> fst p + snd p <= max_end l.
Proof. intros H. unfold max_end. apply fold_max_ge_in. apply (in_map (fun p => fst p + snd p)) in H. exact H. Qed.

Lemma occ_max_bound occ p : In p occ -> 0 < snd p -> fst p + snd p - 1 <= occ_max occ.
Proof.
  intros Hin Hpos. unfold occ_max.
  assert (F : In p (filter (fun p => 0 <? snd p) occ)) by (apply filter_In; split; [assumption | lia]).
  destruct (filter (fun p => 0 <? snd p) occ) as [|q r]; [destruct F|].
  destruct F as [-> | F].
  - apply fold_max_ge_init.
  - apply fold_max_ge_in. apply (in_map (fun p => fst p + snd p - 1)) in F. exact F.
Qed.

Lemma occ_beyond occ t : occ_max occ < t -> occ_mem t occ = false /\ forall z, occ_meets t z occ = false.
Proof.
  intros H. split; [|intros z].
  - destruct (occ_mem t occ) eqn:E; [|reflexivity]. unfold occ_mem in E. apply existsb_exists in E as [p [Hin Hp]].
    assert (0 < snd p) by lia. pose proof (occ_max_bound occ p Hin H0). lia.
  - destruct (occ_meets t z occ) eqn:E; [|reflexivity]. unfold occ_meets in E. apply existsb_exists in E as [p [Hin Hp]].
    assert (0 < snd p) by lia. pose proof (occ_max_bound occ p Hin H0). lia.
Qed.

(* --------------------------------------------------------------------------------------- log, children *)

Lemma is_placed_lookup i l : is_placed i l = false <-> lookup_area i l = None.
Proof.
  induction l as [|[j a] l IH]; cbn; [tauto|]. destruct (Nat.eqb j i); cbn; [split; discriminate | exact IH].
Qed.
Lemma is_placed_lookup_some i l : is_placed i l = true <-> exists a, lookup_area i l = Some a.
Proof.
  induction l as [|[j a] l IH]; cbn.
  - split; [discriminate | intros [a H]; discriminate].
  - destruct (Nat.eqb j i); cbn; [split; eauto | exact IH].
Qed.
Lemma lookup_in i a l : lookup_area i l = Some a -> In (i, a) l.
Proof.
  induction l as [|[j b] l IH]; cbn; [discriminate|]. destruct (Nat.eqb j i) eqn:E.
  - apply Nat.eqb_eq in E. subst. intros H; inversion H; auto.
  - auto.
Qed.
Lemma is_placed_cons i j a l : is_placed i ((j, a) :: l) = Nat.eqb j i || is_placed i l.
Proof. reflexivity. Qed.
Lemma is_placed_app i l1 l2 : is_placed i (l1 ++ l2) = is_placed i l1 || is_placed i l2.
Proof. unfold is_placed. apply existsb_app. Qed.

Lemma ins_child_in p q l : In q (ins_child p l) <-> q = p \/ In q l.
Proof.
  induction l as [|r l IH]; cbn; [intuition|]. destruct (order (snd p) <=? order (snd r)); cbn; [intuition|].
  rewrite IH. intuition.
Qed.
Lemma sort_children_in q l : In q (sort_children l) <-> In q l.
Proof.
  induction l as [|p l IH]; cbn; [tauto|]. rewrite ins_child_in, IH. intuition.
Qed.

Lemma index_from_in {A} (l : list A) k i (a : A) :
  In (i, a) (index_from k l) <-> (k <= i)%nat /\ nth_error l (i - k) = Some a.
Proof.
  revert k. induction l as [|b l IH]; intros k; cbn.
  - split; [tauto|]. intros [_ H]. destruct (i - k)%nat; discriminate.
  - rewrite IH. split.
    + intros [H | [H1 H2]].
      * inversion H; subst. rewrite Nat.sub_diag. auto.
      * split; [lia|]. replace (i - k)%nat with (S (i - S k)) by lia. exact H2.
    + intros [H1 H2]. destruct (Nat.eq_dec k i) as [-> | N].
      * rewrite Nat.sub_diag in H2. cbn in H2. left. congruence.
      * right. split; [lia|]. replace (i - k)%nat with (S (i - S k)) in H2 by lia. exact H2.
Qed.

Section Flow.
  Variable colflow : bool.
  Variable dense : bool.

  Lemma first_of_mk fi fsz si ssz : first_of colflow (mk_area colflow fi fsz si ssz) = (fi, fsz).
  Proof. unfold first_of, mk_area. destruct colflow; reflexivity. Qed.
  Lemma second_of_mk fi fsz si ssz : second_of colflow (mk_area colflow fi fsz si ssz) = (si, ssz).
  Proof. unfold second_of, mk_area. destruct colflow; reflexivity. Qed.

  Lemma area_meets_mk fi fsz si ssz f :
    area_meets (mk_area colflow fi fsz si ssz) f =
    intersect fi fsz (fst (first_of colflow f)) (snd (first_of colflow f)) &&
    intersect si ssz (fst (second_of colflow f)) (snd (second_of colflow f)).
  Proof.
    destruct f as [[[x y] w] h]. unfold mk_area, first_of, second_of. destruct colflow; cbn; [reflexivity | apply andb_comm].
  Qed.

  Definition area_pos (a : area) : Prop := let '(x, y, w, h) := a in 1 <= w /\ 1 <= h.
  Lemma area_pos_mk fi fsz si ssz : 1 <= fsz -> 1 <= ssz -> area_pos (mk_area colflow fi fsz si ssz).
  Proof. unfold mk_area. destruct colflow; cbn; tauto. Qed.
  Lemma area_pos_second a : area_pos a -> 1 <= snd (second_of colflow a).
  Proof. destruct a as [[[x y] w] h]. unfold second_of. destruct colflow; cbn; tauto. Qed.

  Lemma no_meet_beyond ps m k fsz si ssz :
    (forall f, In f ps -> fst (first_of colflow f) + snd (first_of colflow f) <= m) -> m <= k ->
    intersect_with_children (mk_area colflow k fsz si ssz) ps = false.
  Proof.
    intros Hb Hk. unfold intersect_with_children.
    destruct (existsb (area_meets (mk_area colflow k fsz si ssz)) ps) eqn:E; [|reflexivity].
    apply existsb_exists in E as [f [Hin Hm]]. rewrite area_meets_mk in Hm. apply andb_true_iff in Hm as [Hm _].
    unfold intersect in Hm. specialize (Hb f Hin). lia.
  Qed.

  Lemma max_end_first ps f : In f ps ->
    fst (first_of colflow f) + snd (first_of colflow f) <= max_end (map (first_of colflow) ps).
  Proof. intros H. apply (max_end_bound _ (first_of colflow f)). apply in_map, H. Qed.

  (* ------------------------------------------------------------------ fuel: _get_second_placement *)

  Lemma dense_track_fuel ss se occ :
    nonline ss = true -> nonline se = true -> gline_valid ss = true -> gline_valid se = true ->
    forall fuel track, (1 <= fuel)%nat -> occ_max occ - track + 1 < Z.of_nat fuel ->
    dense_track fuel ss se occ track <> None.
  Proof.
    intros N1 N2 V1 V2. induction fuel as [|f IH]; intros track Hf Hb; [lia|]. cbn.
    destruct (Z_lt_le_dec (occ_max occ) track) as [Hgt | Hle].
    - destruct (occ_beyond occ track Hgt) as [E1 E2]. rewrite E1.
      destruct (place_at_valid ss se track N1 N2 V1 V2) as [E _]. rewrite E. cbn [fst snd]. rewrite E2. discriminate.
    - assert (Hf' : (1 <= f)%nat) by lia.
      destruct (occ_mem track occ); [apply IH; lia|].
      destruct (occ_meets _ _ occ); [apply IH; lia | discriminate].
  Qed.

  Lemma sparse_end_fuel n track : 1 <= n ->
    forall fuel e, (1 <= fuel)%nat -> track + n - e < Z.of_nat fuel -> sparse_end fuel (GSpan n) track e <> None.
  Proof.
    intros Hn. induction fuel as [|f IH]; intros e Hf Hb; [lia|]. cbn.
    assert (E : pl_line_end (GSpan n) (e + 1) = (e - n, n)).
    { unfold pl_line_end, norm, or1. split_ifs; f_equal; lia. }
    rewrite E. cbn [fst]. destruct (track <=? e - n) eqn:C; [discriminate|]. apply IH; lia.
  Qed.

  Lemma sparse_end_result fuel ss track e pl : sparse_end fuel ss track e = Some pl -> track <= fst pl /\ 1 <= snd pl.
  Proof.
    revert e. induction fuel as [|f IH]; intros e; cbn; [discriminate|].
    destruct (track <=? fst (pl_line_end ss (e + 1))) eqn:C.
    - intros H. inversion H; subst. split; [lia | apply pl_line_end_size].
    - apply IH.
  Qed.

  Lemma dense_track_result fuel ss se occ track pl :
    dense_track fuel ss se occ track = Some pl -> occ_meets (fst pl) (snd pl) occ = false /\ 1 <= snd pl.
  Proof.
    revert track. induction fuel as [|f IH]; intros track; cbn; [discriminate|].
    destruct (occ_mem track occ); [apply IH|].
    destruct (occ_meets (fst (place_at ss se track)) (snd (place_at ss se track)) occ) eqn:E; [apply IH|].
    intros H. inversion H; subst. split; [exact E | apply place_at_size].
  Qed.

  Lemma second_placement_fuel fp ss se ps :
    nonline ss = true -> nonline se = true -> gline_valid ss = true -> gline_valid se = true ->
    second_placement colflow dense fp ss se ps <> None.
  Proof.
    intros N1 N2 V1 V2. unfold second_placement. destruct dense.
    - apply dense_track_fuel; auto; unfold dense_fuel; lia.
    - destruct ss as [|n|n]; [discriminate | discriminate |]. cbn in V1.
      apply sparse_end_fuel; unfold sparse_fuel, get_span, or1; split_ifs; lia.
  Qed.

  (* the second-axis range returned for a locked item avoids every placed area that meets its first-axis range *)
  Lemma occupied_sound fp ps p0 p1 :
    (forall f, In f ps -> area_pos f) -> 1 <= p1 ->
    occ_meets p0 p1 (occupied colflow fp ps) = false ->
    intersect_with_children (mk_area colflow (fst fp) (snd fp) p0 p1) ps = false.
  Proof.
    intros Hpos Hp1 Hocc. unfold intersect_with_children.
    destruct (existsb (area_meets (mk_area colflow (fst fp) (snd fp) p0 p1)) ps) eqn:E; [|reflexivity].
    apply existsb_exists in E as [f [Hin Hm]]. rewrite area_meets_mk in Hm. apply andb_true_iff in Hm as [Hm1 Hm2].
    assert (Ho : In (second_of colflow f) (occupied colflow fp ps)).
    { unfold occupied. apply in_map. apply filter_In. split; [exact Hin|]. rewrite intersect_sym. exact Hm1. }
    assert (C : occ_meets p0 p1 (occupied colflow fp ps) = true).
    { unfold occ_meets. apply existsb_exists. exists (second_of colflow f). split; [exact Ho|].
      pose proof (area_pos_second f (Hpos f Hin)). unfold intersect in Hm2. lia. }
    congruence.
  Qed.

  Lemma second_placement_sound fp ss se ps sp :
    (forall f, In f ps -> area_pos f) ->
    nonline se = true -> gline_valid se = true ->
    second_placement colflow dense fp ss se ps = Some sp ->
    1 <= snd sp /\ intersect_with_children (mk_area colflow (fst fp) (snd fp) (fst sp) (snd sp)) ps = false.
  Proof.
    intros Hpos N2 V2. unfold second_placement. destruct dense.
    - intros H. apply dense_track_result in H as [H1 H2]. split; [exact H2|]. apply occupied_sound; assumption.
    - assert (K : forall pl, occ_max (occupied colflow fp ps) + 1 <= fst pl -> 1 <= snd pl -> Some pl = Some sp ->
                  1 <= snd sp /\ intersect_with_children (mk_area colflow (fst fp) (snd fp) (fst sp) (snd sp)) ps = false).
      { intros pl H1 H2 H. inversion H; subst. split; [exact H2|]. apply occupied_sound; try assumption.
        apply occ_beyond. lia. }
      destruct ss as [|n|n].
      + apply K; [|apply pl_line_start_size].
        destruct se as [|m|m]; [| discriminate |]; cbn in V2; unfold pl_line_start, norm, or1; split_ifs; cbn [fst]; lia.
      + intros H. apply sparse_end_result in H as [H1 H2]. apply (K sp); auto; lia.
      + intros H. apply sparse_end_result in H as [H1 H2]. apply (K sp); auto; lia.
  Qed.

  (* ------------------------------------------------------------------------------ fuel: phase 1.4 loops *)
  Variables is1 is2 if1 : Z.

  Lemma first_search_fuel cmp fs fe cf0 si ssz ps :
    nonline fs = true -> nonline fe = true -> gline_valid fs = true -> gline_valid fe = true ->
    forall fuel k, cf0 <= k -> (1 <= fuel)%nat -> max_end (map (first_of colflow) ps) - k < Z.of_nat fuel ->
    first_search colflow fuel cmp fs fe cf0 si ssz ps k <> None.
  Proof.
    intros N1 N2 V1 V2. induction fuel as [|f IH]; intros k Hk Hf Hb; [lia|]. cbn.
    destruct (place_at_valid fs fe k N1 N2 V1 V2) as [E _]. rewrite E.
    assert (C : (k <? (if cmp then k else cf0)) = false) by (destruct cmp; lia). rewrite C.
    destruct (Z_le_gt_dec (max_end (map (first_of colflow) ps)) k) as [Hge | Hlt].
    - rewrite (no_meet_beyond ps _ k _ si ssz (max_end_first ps) Hge). discriminate.
    - destruct (intersect_with_children _ ps); [apply IH; lia | discriminate].
  Qed.

  Lemma first_search_result fuel cmp fs fe cf0 si ssz ps k r :
    first_search colflow fuel cmp fs fe cf0 si ssz ps k = Some r ->
    let '(k', fi, fsz) := r in
    k <= k' /\ 1 <= fsz /\ intersect_with_children (mk_area colflow fi fsz si ssz) ps = false /\
    (if cmp then k' <= fi else cf0 <= fi).
  Proof.
    revert k. induction fuel as [|f IH]; intros k; cbn; [discriminate|].
    destruct (place_at fs fe k) as [fi fsz] eqn:E.
    destruct (fi <? (if cmp then k else cf0)) eqn:C.
    { intros H. specialize (IH _ H). destruct r as [[k' fi'] fsz']. intuition lia. }
    destruct (intersect_with_children (mk_area colflow fi fsz si ssz) ps) eqn:I.
    { intros H. specialize (IH _ H). destruct r as [[k' fi'] fsz']. intuition lia. }
    intros H. inversion H; subst. pose proof (place_at_size fs fe k) as P. rewrite E in P. cbn in P.
    repeat split; try lia; try assumption. destruct cmp; lia.
  Qed.

  Lemma stale_search_result fuel fs si ssz ps stale k r :
    stale_search colflow fuel fs si ssz ps stale k = Some r ->
    let '(k', fi, fsz) := r in
    k <= k' /\ k' <= fi /\ 1 <= fsz /\ intersect_with_children (mk_area colflow fi fsz si ssz) ps = false.
  Proof.
    revert stale k. induction fuel as [|f IH]; intros stale k; cbn; [discriminate|].
    destruct (pl_line_end fs (stale + 1 + get_span fs)) as [fi fsz] eqn:E.
    destruct (fi <? k) eqn:C.
    { intros H. specialize (IH _ _ H). destruct r as [[k' fi'] fsz']. intuition lia. }
    destruct (intersect_with_children (mk_area colflow fi fsz si ssz) ps) eqn:I.
    { intros H. specialize (IH _ _ H). destruct r as [[k' fi'] fsz']. intuition lia. }
    intros H. inversion H; subst. pose proof (pl_line_end_size fs (stale + 1 + get_span fs)) as P. rewrite E in P. cbn in P.
    repeat split; try lia; assumption.
  Qed.

  (* the loop reading the stale first_i exits at its first iteration or never: Hang is a real divergence *)
  Lemma stale_search_diverges n si ssz ps stale k : 1 <= n ->
    stale_search colflow 1 (GSpan n) si ssz ps stale k = None ->
    forall fuel, stale_search colflow fuel (GSpan n) si ssz ps stale k = None.
  Proof.
    intros Hn H1 fuel.
    assert (E : forall s, pl_line_end (GSpan n) (s + 1 + get_span (GSpan n)) = (s, n)).
    { intros s. unfold pl_line_end, norm, get_span, or1. split_ifs; f_equal; lia. }
    cbn in H1. rewrite E in H1.
    assert (G : forall fuel k', k <= k' -> (stale <? k) = true \/ intersect_with_children (mk_area colflow stale n si ssz) ps = true ->
                stale_search colflow fuel (GSpan n) si ssz ps stale k' = None).
    { induction fuel0 as [|f IH]; intros k' Hk Hc; [reflexivity|]. cbn. rewrite E.
      destruct Hc as [Hc | Hc].
      - assert (C : (stale <? k') = true) by lia. rewrite C. apply IH; [lia | auto].
      - destruct (stale <? k'); [apply IH; [lia | auto]|]. rewrite Hc. apply IH; [lia | auto]. }
    apply G; [lia|]. destruct (stale <? k); [auto|].
    destruct (intersect_with_children (mk_area colflow stale n si ssz) ps); [auto | discriminate].
  Qed.

  Lemma scan_second_result n fs fe ss se ps k fi r :
    scan_second colflow is2 n fs fe ss se ps k fi = Some r ->
    let '(a, fi', fsz) := r in
    intersect_with_children a ps = false /\
    exists k' ssz, (k <= k' < k + Z.of_nat n) /\ a = mk_area colflow fi' fsz (fst (place_at ss se k')) ssz /\
                   ssz = snd (place_at ss se k') /\ fst (place_at ss se k') + ssz <= is2 /\ 1 <= fsz /\ 1 <= ssz.
  Proof.
    revert k fi. induction n as [|n IH]; intros k fi; cbn [scan_second]; [discriminate|].
    destruct (place_at fs fe fi) as [fi' fsz] eqn:E1. destruct (place_at ss se k) as [si ssz] eqn:E2.
    destruct (intersect_with_children (mk_area colflow fi' fsz si ssz) ps || (is2 <? si + ssz)) eqn:C.
    - intros H. specialize (IH _ _ H). destruct r as [[a fi''] fsz'']. destruct IH as [I [k' [z [Hk R]]]].
      split; [exact I|]. exists k', z. split; [lia | exact R].
    - intros H. inversion H; subst. apply orb_false_iff in C as [C1 C2]. split; [exact C1|].
      exists k, ssz. rewrite E2. cbn [fst snd].
      pose proof (place_at_size fs fe fi) as P1. rewrite E1 in P1. pose proof (place_at_size ss se k) as P2. rewrite E2 in P2.
      cbn in P1, P2. repeat split; try lia.
  Qed.

  (* with valid automatic lines the first-axis position is not moved by the scan *)
  Lemma scan_second_first n fs fe ss se ps k fi r :
    nonline fs = true -> nonline fe = true -> gline_valid fs = true -> gline_valid fe = true ->
    scan_second colflow is2 n fs fe ss se ps k fi = Some r ->
    let '(a, fi', fsz) := r in fi' = fi /\ first_of colflow a = (fi, fsz).
  Proof.
    intros N1 N2 V1 V2. revert k. induction n as [|n IH]; intros k; cbn [scan_second]; [discriminate|].
    destruct (place_at_valid fs fe fi N1 N2 V1 V2) as [E _]. rewrite E. destruct (place_at ss se k) as [si ssz].
    destruct (_ || _).
    - apply IH.
    - intros H. inversion H; subst. split; [reflexivity | apply first_of_mk].
  Qed.

  Lemma scan_second_free fs fe ss se ps r n :
    nonline fs = true -> nonline fe = true -> gline_valid fs = true -> gline_valid fe = true ->
    nonline ss = true -> nonline se = true -> gline_valid ss = true -> gline_valid se = true ->
    is1 + auto_size ss se <= is2 -> max_end (map (first_of colflow) ps) <= r -> (1 <= n)%nat ->
    scan_second colflow is2 n fs fe ss se ps is1 r <> None.
  Proof.
    intros N1 N2 V1 V2 N3 N4 V3 V4 Hfit Hr Hn. destruct n as [|n]; [lia|]. cbn [scan_second].
    destruct (place_at_valid fs fe r N1 N2 V1 V2) as [E1 _]. destruct (place_at_valid ss se is1 N3 N4 V3 V4) as [E2 _].
    rewrite E1, E2. rewrite (no_meet_beyond ps _ r _ _ _ (max_end_first ps) Hr).
    assert (C : (is2 <? is1 + auto_size ss se) = false) by lia. rewrite C. discriminate.
  Qed.

  Lemma auto_loop_fuel fs fe ss se ps :
    nonline fs = true -> nonline fe = true -> gline_valid fs = true -> gline_valid fe = true ->
    nonline ss = true -> nonline se = true -> gline_valid ss = true -> gline_valid se = true ->
    is1 + auto_size ss se <= is2 ->
    forall cf cs if2, auto_loop colflow is1 is2 (auto_fuel colflow ps cf) fs fe ss se ps cf cs if2 <> None.
  Proof.
    intros N1 N2 V1 V2 N3 N4 V3 V4 Hfit.
    destruct (place_at_valid ss se is1 N3 N4 V3 V4) as [_ Hsz].
    assert (Hn : (1 <= Z.to_nat (is2 - is1))%nat) by lia.
    assert (B : forall fuel cf if2, (1 <= fuel)%nat -> max_end (map (first_of colflow) ps) - cf < Z.of_nat fuel ->
                auto_loop colflow is1 is2 fuel fs fe ss se ps cf is1 if2 <> None).
    { induction fuel as [|f IH]; intros cf if2 Hf Hb; [lia|]. cbn [auto_loop].
      destruct (scan_second colflow is2 (Z.to_nat (is2 - is1)) fs fe ss se ps is1 cf) as [[[a fi] fsz]|] eqn:S; [discriminate|].
      destruct (Z_le_gt_dec (max_end (map (first_of colflow) ps)) cf) as [Hge | Hlt].
      - exfalso. revert S. apply scan_second_free; auto.
      - apply IH; lia. }
    intros cf cs if2. unfold auto_fuel.
    remember (S (Z.to_nat (max_end (map (first_of colflow) ps) - cf))) as f1 eqn:Ef. cbn [auto_loop].
    destruct (scan_second colflow is2 (Z.to_nat (is2 - cs)) fs fe ss se ps cs cf) as [[[a fi] fsz]|]; [discriminate|].
    apply B; lia.
  Qed.

  Lemma auto_loop_result fuel fs fe ss se ps cf cs if2 r :
    auto_loop colflow is1 is2 fuel fs fe ss se ps cf cs if2 = Some r ->
    let '(a, fi, fsz, cf', if2') := r in
    cf <= cf' /\ if2 <= if2' /\
    exists cs', (cs' = cs \/ cs' = is1) /\ (cf' = cf -> cs' = cs) /\
                scan_second colflow is2 (Z.to_nat (is2 - cs')) fs fe ss se ps cs' cf' = Some (a, fi, fsz).
  Proof.
    revert cf cs if2. induction fuel as [|f IH]; intros cf cs if2; cbn [auto_loop]; [discriminate|].
    destruct (scan_second colflow is2 (Z.to_nat (is2 - cs)) fs fe ss se ps cs cf) as [[[a fi] fsz]|] eqn:S.
    - intros H. inversion H; subst. repeat split; try lia. exists cs. auto.
    - intros H. specialize (IH _ _ _ H). destruct r as [[[[a fi] fsz] cf'] if2'].
      destruct IH as [H1 [H2 [cs' [H3 [H4 H5]]]]]. repeat split; try lia; [split_ifs; lia|].
      exists cs'. repeat split; [right; destruct H3; congruence | lia | exact H5].
  Qed.
End Flow.

(* ================================================================================================= phases *)

(* `l` is obtained from `base` by pushing, one at a time, areas with positive sizes that meet no area
   already present: what phases 1.2 and 1.4 do *)
Inductive chain (base : plog) : plog -> Prop :=
| chain_nil : chain base base
| chain_cons i a l : chain base l -> area_pos a -> intersect_with_children a (areas l) = false ->
                     chain base ((i, a) :: l).

Lemma chain_trans b l1 l2 : chain b l1 -> chain l1 l2 -> chain b l2.
Proof. intros H1 H2. induction H2; [exact H1 | constructor; auto]. Qed.
Lemma chain_ext b l : chain b l -> exists new, l = new ++ b.
Proof. induction 1 as [|i a l H [new ->]]; [exists []; reflexivity | exists ((i, a) :: new); reflexivity]. Qed.
Lemma chain_placed b l i : chain b l -> is_placed i b = true -> is_placed i l = true.
Proof. intros H P. destruct (chain_ext b l H) as [new ->]. rewrite is_placed_app, P. apply orb_true_r. Qed.
Lemma chain_pos b l : chain b l -> (forall f, In f (areas b) -> area_pos f) -> forall f, In f (areas l) -> area_pos f.
Proof. induction 1; intros Hb f; [apply Hb|]. cbn. intros [<- | Hin]; auto. Qed.

Lemma get_placement_pos s e k z : get_placement s e = Some (k, z) -> 1 <= z.
Proof. apply get_placement_size. Qed.

(* ---- 1.1 *)
Lemma phase11_spec its l :
  exists new, phase11 its l = new ++ l /\
    (forall p, In p new -> area_pos (snd p) /\ exists it, In (fst p, it) its /\ definite_item it = true) /\
    (forall i it, In (i, it) its -> definite_item it = true -> is_placed i (new ++ l) = true).
Proof.
  revert l. induction its as [|[i it] r IH]; intros l; cbn [phase11].
  - exists []. cbn. repeat split; intros; contradiction.
  - destruct (get_placement (col_s it) (col_e it)) as [[x w]|] eqn:E1;
    [destruct (get_placement (row_s it) (row_e it)) as [[y h]|] eqn:E2|].
    + destruct (IH ((i, (x, y, w, h)) :: l)) as [new [E [P1 P2]]]. exists (new ++ [(i, (x, y, w, h))]).
      rewrite <- app_assoc. cbn [app]. split; [exact E|]. split.
      * intros p Hp. apply in_app_or in Hp as [Hp | [<- | []]].
        -- destruct (P1 p Hp) as [A [it' [B C]]]. split; [exact A|]. exists it'. split; [right; exact B | exact C].
        -- split; [cbn; split; eauto using get_placement_pos|]. exists it. split; [left; reflexivity|].
           unfold definite_item. rewrite E1, E2. reflexivity.
      * intros j jt [H | H] D.
        -- inversion H; subst. rewrite is_placed_app, is_placed_cons, Nat.eqb_refl. cbn. apply orb_true_r.
        -- apply (P2 j jt H D).
    + destruct (IH l) as [new [E [P1 P2]]]. exists new. split; [exact E|]. split.
      * intros p Hp. destruct (P1 p Hp) as [A [it' [B C]]]. split; [exact A|]. exists it'. split; [right; exact B | exact C].
      * intros j jt [H | H] D; [|apply (P2 j jt H D)]. inversion H; subst. unfold definite_item in D. rewrite E1, E2 in D. discriminate.
    + destruct (IH l) as [new [E [P1 P2]]]. exists new. split; [exact E|]. split.
      * intros p Hp. destruct (P1 p Hp) as [A [it' [B C]]]. split; [exact A|]. exists it'. split; [right; exact B | exact C].
      * intros j jt [H | H] D; [|apply (P2 j jt H D)]. inversion H; subst. unfold definite_item in D. rewrite E1 in D. discriminate.
Qed.

Lemma item_valid_parts it : item_valid it = true ->
  gline_valid (col_s it) = true /\ gline_valid (col_e it) = true /\ gline_valid (row_s it) = true /\ gline_valid (row_e it) = true.
Proof. unfold item_valid. rewrite !andb_true_iff. tauto. Qed.

Section Phases.
  Variable colflow : bool.
  Variable dense : bool.

  Lemma valid_first it : item_valid it = true ->
    gline_valid (fst_s colflow it) = true /\ gline_valid (fst_e colflow it) = true /\
    gline_valid (snd_s colflow it) = true /\ gline_valid (snd_e colflow it) = true.
  Proof. intros H. apply item_valid_parts in H. unfold fst_s, fst_e, snd_s, snd_e. destruct colflow; tauto. Qed.

  Lemma definite_axes it :
    definite_item it = true <->
    (exists p, get_placement (fst_s colflow it) (fst_e colflow it) = Some p) /\
    (exists p, get_placement (snd_s colflow it) (snd_e colflow it) = Some p).
  Proof.
    unfold definite_item, fst_s, fst_e, snd_s, snd_e.
    destruct colflow; destruct (get_placement (col_s it) (col_e it)), (get_placement (row_s it) (row_e it));
      split; intros H; try discriminate; try reflexivity; try (split; eauto; fail);
      destruct H as [[? H1] [? H2]]; discriminate.
  Qed.

  (* ---- 1.2 *)
  Lemma phase12_fuel ch : forall l,
    (forall i it, In (i, it) ch -> item_valid it = true) ->
    (forall i it, In (i, it) ch -> definite_item it = true -> is_placed i l = true) ->
    phase12 colflow dense ch l <> None.
  Proof.
    induction ch as [|[i it] r IH]; intros l Hv Hd; cbn [phase12]; [discriminate|].
    assert (Hv' : forall j jt, In (j, jt) r -> item_valid jt = true) by (intros; eapply Hv; right; eauto).
    destruct (is_placed i l) eqn:P; [apply IH; auto; intros; eapply Hd; eauto; right; auto|].
    destruct (get_placement (fst_s colflow it) (fst_e colflow it)) as [fp|] eqn:E1;
      [|apply IH; auto; intros; eapply Hd; eauto; right; auto].
    destruct (get_placement (snd_s colflow it) (snd_e colflow it)) as [sp0|] eqn:E2.
    { assert (D : definite_item it = true) by (apply definite_axes; eauto).
      rewrite (Hd i it (or_introl eq_refl) D) in P. discriminate. }
    apply get_placement_none in E2 as [N1 N2]. destruct (valid_first it (Hv i it (or_introl eq_refl))) as [_ [_ [V1 V2]]].
    destruct (second_placement colflow dense fp (snd_s colflow it) (snd_e colflow it) (areas l)) as [sp|] eqn:S.
    - apply IH; auto. intros j jt Hin D. rewrite is_placed_cons, (Hd j jt (or_intror Hin) D). apply orb_true_r.
    - exfalso. revert S. apply second_placement_fuel; auto.
  Qed.

  Lemma phase12_spec ch : forall l l',
    (forall i it, In (i, it) ch -> item_valid it = true) ->
    (forall i it, In (i, it) ch -> definite_item it = true -> is_placed i l = true) ->
    (forall f, In f (areas l) -> area_pos f) ->
    phase12 colflow dense ch l = Some l' ->
    chain l l' /\
    (forall i it, In (i, it) ch -> is_placed i l' = true \/ get_placement (fst_s colflow it) (fst_e colflow it) = None).
  Proof.
    induction ch as [|[i it] r IH]; intros l l' Hv Hd Hpos; cbn [phase12].
    { intros H; inversion H; subst. split; [constructor | intros ? ? []]. }
    assert (Hv' : forall j jt, In (j, jt) r -> item_valid jt = true) by (intros; eapply Hv; right; eauto).
    assert (Hd' : forall j jt, In (j, jt) r -> definite_item jt = true -> is_placed j l = true)
      by (intros; eapply Hd; eauto; right; auto).
    destruct (is_placed i l) eqn:P.
    { intros H. destruct (IH l l' Hv' Hd' Hpos H) as [C Q]. split; [exact C|].
      intros j jt [E | Hin]; [inversion E; subst; left; eapply chain_placed; eauto | eauto]. }
    destruct (get_placement (fst_s colflow it) (fst_e colflow it)) as [fp|] eqn:E1.
    2:{ intros H. destruct (IH l l' Hv' Hd' Hpos H) as [C Q]. split; [exact C|].
        intros j jt [E | Hin]; [inversion E; subst; right; exact E1 | eauto]. }
    destruct (get_placement (snd_s colflow it) (snd_e colflow it)) as [sp0|] eqn:E2.
    { assert (D : definite_item it = true) by (apply definite_axes; eauto).
      rewrite (Hd i it (or_introl eq_refl) D) in P. discriminate. }
    apply get_placement_none in E2 as [N1 N2]. destruct (valid_first it (Hv i it (or_introl eq_refl))) as [_ [_ [V1 V2]]].
    destruct (second_placement colflow dense fp (snd_s colflow it) (snd_e colflow it) (areas l)) as [sp|] eqn:S; [|discriminate].
    destruct (second_placement_sound colflow dense fp _ _ _ sp Hpos N2 V2 S) as [Z1 Z2].
    destruct fp as [f0 f1]. pose proof (get_placement_pos _ _ _ _ E1) as Z0. cbn [fst snd] in *.
    intros H.
    assert (C1 : chain l ((i, mk_area colflow f0 f1 (fst sp) (snd sp)) :: l)).
    { constructor; [constructor | apply area_pos_mk; assumption | exact Z2]. }
    destruct (IH ((i, mk_area colflow f0 f1 (fst sp) (snd sp)) :: l) l' Hv') as [C Q].
    - intros j jt Hin D. rewrite is_placed_cons, (Hd' j jt Hin D). apply orb_true_r.
    - intros f. cbn. intros [<- | Hin]; [apply area_pos_mk; assumption | auto].
    - exact H.
    - split; [eapply chain_trans; eauto|].
      intros j jt [E | Hin]; [|eauto]. inversion E; subst. left. eapply chain_placed; [exact C|]. rewrite is_placed_cons, Nat.eqb_refl. reflexivity.
  Qed.

  (* ---- 1.3 *)
  Definition within (b : Z * Z) (k z : Z) : Prop := fst b <= k /\ k + z <= snd b.

  Lemma phase132_spec ch l : forall b b' rem,
    phase132 colflow ch l b = (b', rem) ->
    fst b' <= fst b /\ snd b <= snd b' /\
    (forall i it, In (i, it) rem -> In (i, it) ch /\ lookup_area i l = None) /\
    (forall i it, In (i, it) ch -> lookup_area i l = None -> In (i, it) rem) /\
    (forall i it a, In (i, it) ch -> lookup_area i l = Some a ->
                    within b' (fst (second_of colflow a)) (snd (second_of colflow a))) /\
    (forall i it k z, In (i, it) rem -> get_placement (snd_s colflow it) (snd_e colflow it) = Some (k, z) -> within b' k z).
  Proof.
    induction ch as [|[i it] r IH]; intros b b' rem; cbn [phase132].
    { intros H; inversion H; subst. repeat split; try lia; intros; contradiction. }
    destruct (lookup_area i l) as [a|] eqn:L.
    - destruct (second_of colflow a) as [k size] eqn:E. intros H. specialize (IH _ _ _ H). cbn [fst snd] in IH.
      destruct IH as [B1 [B2 [R1 [R2 [R3 R4]]]]]. repeat split; try lia.
      + right. eapply R1; eauto.
      + eapply R1; eauto.
      + intros j jt [Ej | Hin] Lj; [inversion Ej; subst; congruence | eauto].
      + cbn [fst]. destruct H0 as [Ej | Hin]; [inversion Ej; subst|].
        * rewrite L in H1. inversion H1; subst. rewrite E. cbn. lia.
        * destruct (R3 _ _ _ Hin H1). lia.
      + cbn [snd]. destruct H0 as [Ej | Hin]; [inversion Ej; subst|].
        * rewrite L in H1. inversion H1; subst. rewrite E. cbn. lia.
        * destruct (R3 _ _ _ Hin H1). lia.
      + eapply R4; eauto.
      + eapply R4; eauto.
    - set (bb := match get_placement (snd_s colflow it) (snd_e colflow it) with
                 | Some (k, size) => (Z.min k (fst b), Z.max (k + size) (snd b)) | None => b end).
      destruct (phase132 colflow r l bb) as [b'' rem'] eqn:H'. intros H. inversion H; subst. clear H.
      specialize (IH _ _ _ H'). destruct IH as [B1 [B2 [R1 [R2 [R3 R4]]]]].
      assert (Bb : fst bb <= fst b /\ snd b <= snd bb /\
                   forall k z, get_placement (snd_s colflow it) (snd_e colflow it) = Some (k, z) -> fst bb <= k /\ k + z <= snd bb).
      { subst bb. destruct (get_placement (snd_s colflow it) (snd_e colflow it)) as [[k z]|]; cbn [fst snd].
        - repeat split; try lia; inversion H; subst; lia.
        - repeat split; try lia; discriminate. }
      destruct Bb as [Bb1 [Bb2 Bb3]]. repeat split; try lia.
      + destruct H as [Ej | Hin]; [inversion Ej; subst; left; reflexivity | right; eapply R1; eauto].
      + destruct H as [Ej | Hin]; [inversion Ej; subst; exact L | eapply R1; eauto].
      + intros j jt [Ej | Hin] Lj; [left; exact Ej | right; eauto].
      + destruct H as [Ej | Hin]; [inversion Ej; subst; congruence | destruct (R3 _ _ _ Hin H0); lia].
      + destruct H as [Ej | Hin]; [inversion Ej; subst; congruence | destruct (R3 _ _ _ Hin H0); lia].
      + destruct H as [Ej | Hin]; [inversion Ej; subst; destruct (Bb3 _ _ H0); lia | destruct (R4 _ _ _ _ Hin H0); lia].
      + destruct H as [Ej | Hin]; [inversion Ej; subst; destruct (Bb3 _ _ H0); lia | destruct (R4 _ _ _ _ Hin H0); lia].
  Qed.

  Lemma phase133_spec rem is1 : forall is2,
    is2 <= phase133 colflow rem is1 is2 /\
    forall i it, In (i, it) rem -> is1 + span133 colflow it <= phase133 colflow rem is1 is2.
  Proof.
    induction rem as [|[i it] r IH]; intros is2; cbn [phase133]; [split; [lia | intros ? ? []]|].
    destruct (IH (Z.max (is1 + span133 colflow it) is2)) as [A B]. split; [lia|].
    intros j jt [E | Hin]; [inversion E; subst; lia | eauto].
  Qed.

  Lemma span133_auto it : item_valid it = true ->
    get_placement (snd_s colflow it) (snd_e colflow it) = None ->
    span133 colflow it = auto_size (snd_s colflow it) (snd_e colflow it).
  Proof.
    intros V N. apply get_placement_none in N as [N1 N2]. destruct (valid_first it V) as [_ [_ [V1 V2]]].
    unfold span133, auto_size, or1. destruct (snd_s colflow it), (snd_e colflow it); cbn in *; try discriminate; split_ifs; lia.
  Qed.

  Lemma first_bounds_spec ps : forall b,
    fst (first_bounds colflow ps b) <= fst b /\ snd b <= snd (first_bounds colflow ps b) /\
    forall a, In a ps -> fst (first_bounds colflow ps b) <= fst (first_of colflow a).
  Proof.
    unfold first_bounds. induction ps as [|a r IH]; intros b; cbn [fold_left]; [repeat split; try lia; intros ? []|].
    destruct (first_of colflow a) as [k size] eqn:E.
    destruct (IH (Z.min k (fst b), Z.max (k + size) (snd b))) as [A [B C]]. cbn [fst snd] in *.
    repeat split; try lia. intros a' [<- | Hin]; [rewrite E; cbn; lia | auto].
  Qed.

  (* ---- 1.4 *)
  Variables is1 is2 if1 : Z.

  Definition rem_ok (it : item) : Prop :=
    item_valid it = true /\ get_placement (fst_s colflow it) (fst_e colflow it) = None /\
    (get_placement (snd_s colflow it) (snd_e colflow it) = None ->
     is1 + auto_size (snd_s colflow it) (snd_e colflow it) <= is2).

  Lemma step14_fuel st i it : rem_ok it -> step14 colflow dense is1 is2 if1 st (i, it) <> OutOfFuel.
  Proof.
    intros [V [N F]]. apply get_placement_none in N as [N1 N2]. destruct (valid_first it V) as [V1 [V2 [V3 V4]]].
    unfold step14. destruct (get_placement (snd_s colflow it) (snd_e colflow it)) as [[si ssz]|] eqn:E.
    - destruct dense.
      + destruct (first_search colflow _ false _ _ if1 si ssz _ if1) as [[[k fi] fsz]|] eqn:S; [discriminate|].
        exfalso. revert S. apply first_search_fuel; auto; unfold search_fuel; lia.
      + destruct (fst_s colflow it) eqn:Efs; [| discriminate N1 |].
        * match goal with |- context[first_search colflow ?f true GAuto ?e ?c si ssz ?p ?k] =>
            destruct (first_search colflow f true GAuto e c si ssz p k) as [[[k' fi] fsz]|] eqn:S end; [discriminate|].
          exfalso. revert S. apply first_search_fuel; auto; unfold search_fuel; lia.
        * destruct (st_stale st); [|discriminate].
          match goal with |- context[stale_search ?a ?b ?c ?d ?e ?f ?g ?h] =>
            destruct (stale_search a b c d e f g h) as [[[k' fi] fsz]|] end; discriminate.
    - specialize (F eq_refl). apply get_placement_none in E as [N3 N4].
      match goal with |- context[auto_loop ?a ?b ?c ?d ?e ?f ?g ?h ?i ?j ?k ?l] =>
        destruct (auto_loop a b c d e f g h i j k l) as [[[[[a' fi] fsz] cf'] if2']|] eqn:S end; [discriminate|].
      exfalso. revert S. apply auto_loop_fuel; auto.
  Qed.

  Lemma phase14_fuel rem : forall st,
    (forall i it, In (i, it) rem -> rem_ok it) -> phase14 colflow dense is1 is2 if1 rem st <> OutOfFuel.
  Proof.
    induction rem as [|[i it] r IH]; intros st H; cbn [phase14]; [discriminate|].
    destruct (step14 colflow dense is1 is2 if1 st (i, it)) eqn:S; try discriminate.
    - apply IH. intros; eapply H; right; eauto.
    - exfalso. revert S. apply step14_fuel. eapply H; left; reflexivity.
  Qed.

  (* every step pushes one area with positive sizes that meets nothing placed before (no hypothesis needed) *)
  Lemma step14_push st i it st' : step14 colflow dense is1 is2 if1 st (i, it) = Ok st' ->
    exists a, st_log st' = (i, a) :: st_log st /\ area_pos a /\ intersect_with_children a (areas (st_log st)) = false.
  Proof.
    unfold step14. destruct (get_placement (snd_s colflow it) (snd_e colflow it)) as [[si ssz]|] eqn:E.
    - pose proof (get_placement_pos _ _ _ _ E) as Z0. destruct dense.
      + destruct (first_search colflow _ false _ _ if1 si ssz _ if1) as [[[k fi] fsz]|] eqn:S; [|discriminate].
        apply first_search_result in S as [_ [S1 [S2 _]]]. intros H; inversion H; subst; cbn [st_log].
        eexists; repeat split; eauto using area_pos_mk.
      + destruct (fst_s colflow it) eqn:Efs.
        * match goal with |- context[first_search colflow ?f true GAuto ?e ?c si ssz ?p ?k] =>
            destruct (first_search colflow f true GAuto e c si ssz p k) as [[[k' fi] fsz]|] eqn:S end; [|discriminate].
          apply first_search_result in S as [_ [S1 [S2 _]]]. intros H; inversion H; subst; cbn [st_log].
          eexists; repeat split; eauto using area_pos_mk.
        * destruct (st_stale st); [|discriminate].
          match goal with |- context[stale_search ?a ?b ?c ?d ?e ?f ?g ?h] =>
            destruct (stale_search a b c d e f g h) as [[[k' fi] fsz]|] eqn:S end; [|discriminate].
          apply stale_search_result in S as [_ [_ [S1 S2]]]. intros H; inversion H; subst; cbn [st_log].
          eexists; repeat split; eauto using area_pos_mk.
        * destruct (st_stale st); [|discriminate].
          match goal with |- context[stale_search ?a ?b ?c ?d ?e ?f ?g ?h] =>
            destruct (stale_search a b c d e f g h) as [[[k' fi] fsz]|] eqn:S end; [|discriminate].
          apply stale_search_result in S as [_ [_ [S1 S2]]]. intros H; inversion H; subst; cbn [st_log].
          eexists; repeat split; eauto using area_pos_mk.
    - match goal with |- context[auto_loop ?a ?b ?c ?d ?e ?f ?g ?h ?i ?j ?k ?l] =>
        destruct (auto_loop a b c d e f g h i j k l) as [[[[[a' fi] fsz] cf'] if2']|] eqn:S end; [|discriminate].
      apply auto_loop_result in S as [_ [_ [cs' [_ [_ S]]]]]. apply scan_second_result in S as [S1 [k' [z [_ [-> [_ [_ [S2 S3]]]]]]]].
      intros H; inversion H; subst; cbn [st_log]. eexists; repeat split; eauto using area_pos_mk.
  Qed.

  Lemma phase14_chain rem : forall st st', phase14 colflow dense is1 is2 if1 rem st = Ok st' ->
    chain (st_log st) (st_log st') /\ forall i it, In (i, it) rem -> is_placed i (st_log st') = true.
  Proof.
    induction rem as [|[i it] r IH]; intros st st'; cbn [phase14].
    { intros H; inversion H; subst. split; [constructor | intros ? ? []]. }
    destruct (step14 colflow dense is1 is2 if1 st (i, it)) as [st1| | |] eqn:S; try discriminate.
    intros H. destruct (IH _ _ H) as [C P]. destruct (step14_push _ _ _ _ S) as [a [E [A1 A2]]].
    assert (C1 : chain (st_log st) (st_log st1)) by (rewrite E; constructor; [constructor | assumption | assumption]).
    split; [eapply chain_trans; eauto|].
    intros j jt [Ej | Hin]; [|eauto]. inversion Ej; subst. eapply chain_placed; [exact C|]. rewrite E, is_placed_cons, Nat.eqb_refl. reflexivity.
  Qed.
End Phases.
