(* C12 (grid part): proofs about the placement model WV.model.C12Grid (grid_layout step 1). *)
From Coq Require Import ZArith List Bool Lia.
Require Import WV.model.C12Grid.
Import ListNotations.
Open Scope Z_scope.

Ltac split_ifs :=
  repeat (match goal with
          | |- context[if ?b then _ else _] => destruct b eqn:?
          | H : context[if ?b then _ else _] |- _ => destruct b eqn:?
          end).

(* ------------------------------------------------------------------------------------------ _intersect *)

Lemma intersect_spec p1 s1 p2 s2 : 0 < s1 -> 0 < s2 ->
  (intersect p1 s1 p2 s2 = true <-> exists c, (p1 <= c < p1 + s1) /\ (p2 <= c < p2 + s2)).
Proof.
  intros H1 H2. unfold intersect. rewrite andb_true_iff, !Z.ltb_lt. split.
  - intros [A B]. exists (Z.max p1 p2). lia.
  - intros [c [A B]]. lia.
Qed.

Lemma intersect_false_disjoint p1 s1 p2 s2 c :
  intersect p1 s1 p2 s2 = false -> p1 <= c < p1 + s1 -> p2 <= c < p2 + s2 -> False.
Proof. unfold intersect. intros H A B. apply andb_false_iff in H. rewrite !Z.ltb_ge in H. lia. Qed.

Lemma intersect_sym p1 s1 p2 s2 : intersect p1 s1 p2 s2 = intersect p2 s2 p1 s1.
Proof. unfold intersect. apply andb_comm. Qed.

Lemma area_meets_sym a b : area_meets a b = area_meets b a.
Proof.
  destruct a as [[[x y] w] h], b as [[[x' y'] w'] h']. cbn.
  rewrite (intersect_sym x w), (intersect_sym y h). reflexivity.
Qed.

Definition in_area (a : area) (cx cy : Z) : Prop :=
  let '(x, y, w, h) := a in x <= cx < x + w /\ y <= cy < y + h.

Lemma area_meets_false_disjoint a b cx cy :
  area_meets a b = false -> in_area a cx cy -> in_area b cx cy -> False.
Proof.
  destruct a as [[[x y] w] h], b as [[[x' y'] w'] h']. cbn. intros H [A1 A2] [B1 B2].
  apply andb_false_iff in H. destruct H as [H | H].
  - exact (intersect_false_disjoint _ _ _ _ cx H A1 B1).
  - exact (intersect_false_disjoint _ _ _ _ cy H A2 B2).
Qed.

(* --------------------------------------------------------------------------------------- _get_placement *)

Definition nonline (g : gline) : bool := match g with GLine _ => false | _ => true end.
(* the span of an axis that is not given by a line: the start's span, else the end's, else 1 *)
Definition auto_size (s e : gline) : Z :=
  match s with GSpan n => n | _ => match e with GSpan m => m | _ => 1 end end.

Lemma norm_size c s : 1 <= snd (norm c s).
Proof. unfold norm. split_ifs; cbn [snd]; lia. Qed.
Lemma pl_line_start_size a e : 1 <= snd (pl_line_start a e).
Proof. apply norm_size. Qed.
Lemma pl_line_end_size s b : 1 <= snd (pl_line_end s b).
Proof. apply norm_size. Qed.
Lemma place_at_size s e k : 1 <= snd (place_at s e k).
Proof. unfold place_at. destruct s; auto using pl_line_start_size, pl_line_end_size. Qed.
Lemma get_placement_size s e k z : get_placement s e = Some (k, z) -> 1 <= z.
Proof.
  unfold get_placement. destruct s; [destruct e | | destruct e]; intros H; inversion H as [E]; clear H;
  try (pose proof (pl_line_end_size GAuto n) as P; rewrite E in P; exact P);
  try (pose proof (pl_line_start_size n e) as P; rewrite E in P; exact P);
  try (pose proof (pl_line_end_size (GSpan n) n0) as P; rewrite E in P; exact P).
Qed.

Lemma get_placement_none s e : get_placement s e = None <-> nonline s = true /\ nonline e = true.
Proof. destruct s, e; cbn; intuition discriminate. Qed.

Lemma place_at_valid s e k :
  nonline s = true -> nonline e = true -> gline_valid s = true -> gline_valid e = true ->
  place_at s e k = (k, auto_size s e) /\ 1 <= auto_size s e.
Proof.
  destruct s, e; cbn; intros; try discriminate;
  unfold pl_line_start, pl_line_end, norm, or1, get_span, or1; split_ifs;
  split; try (f_equal; lia); try lia.
Qed.

(* ------------------------------------------------------------------------------------------ max folds *)

Lemma fold_max_ge_init l a : a <= fold_left Z.max l a.
Proof. revert a. induction l as [|x l IH]; intros a; cbn; [lia|]. specialize (IH (Z.max a x)). lia. Qed.
Lemma fold_max_ge_in l a x : In x l -> x <= fold_left Z.max l a.
Proof.
  revert a. induction l as [|y l IH]; intros a; cbn; [tauto|]. intros [-> | H].
  - pose proof (fold_max_ge_init l (Z.max a x)). lia.
  - apply IH, H.
Qed.

Lemma max_end_bound l p : In p l -> fst p + snd p <= max_end l.
Proof. intros H. unfold max_end. apply fold_max_ge_in. apply (in_map (fun p => fst p + snd p)) in H. exact H. Qed.

Lemma occ_max_bound occ p : In p occ -> 0 < snd p -> fst p + snd p - 1 <= occ_max occ.
Proof.
  intros Hin Hpos. unfold occ_max.
  assert (F : In p (filter (fun p => 0 <? snd p) occ)) by (apply filter_In; split; [assumption | lia]).
  destruct (filter (fun p => 0 <? snd p) occ) as [|q r]; [destruct F|].
  destruct F as [-> | F].
  - apply fold_max_ge_init.
  - apply fold_max_ge_in. apply (in_map (fun p => fst p + snd p - 1)) in F. exact F.
Qed.

Lemma occ_beyond occ t : occ_max occ < t -> occ_mem t occ = false /\ forall z, occ_meets t z occ = false.
Proof.
  intros H. split; [|intros z].
  - destruct (occ_mem t occ) eqn:E; [|reflexivity]. unfold occ_mem in E. apply existsb_exists in E as [p [Hin Hp]].
    assert (0 < snd p) by lia. pose proof (occ_max_bound occ p Hin H0). lia.
  - destruct (occ_meets t z occ) eqn:E; [|reflexivity]. unfold occ_meets in E. apply existsb_exists in E as [p [Hin Hp]].
    assert (0 < snd p) by lia. pose proof (occ_max_bound occ p Hin H0). lia.
Qed.

Lemma occ_next_beyond occ t : occ_next occ <= t -> occ_mem t occ = false /\ forall z, occ_meets t z occ = false.
Proof.
  unfold occ_next. destruct (filter (fun p => 0 <? snd p) occ) as [|q r] eqn:F.
  - intros _.
    assert (N : forall p, In p occ -> snd p <= 0).
    { intros p Hin. destruct (Z_lt_le_dec 0 (snd p)) as [H|H]; [|exact H].
      assert (X : In p (filter (fun p => 0 <? snd p) occ)) by (apply filter_In; split; [assumption | lia]).
      rewrite F in X. destruct X. }
    split; [|intros z].
    + destruct (occ_mem t occ) eqn:E; [|reflexivity]. unfold occ_mem in E. apply existsb_exists in E as [p [Hin Hp]].
      pose proof (N p Hin). lia.
    + destruct (occ_meets t z occ) eqn:E; [|reflexivity]. unfold occ_meets in E. apply existsb_exists in E as [p [Hin Hp]].
      pose proof (N p Hin). lia.
  - intros H. apply occ_beyond. lia.
Qed.
Lemma occ_next_nil : occ_next [] = 0.
Proof. reflexivity. Qed.

(* --------------------------------------------------------------------------------------- log, children *)

Lemma is_placed_lookup i l : is_placed i l = false <-> lookup_area i l = None.
Proof.
  induction l as [|[j a] l IH]; cbn; [tauto|]. destruct (Nat.eqb j i); cbn; [split; discriminate | exact IH].
Qed.
Lemma is_placed_lookup_some i l : is_placed i l = true <-> exists a, lookup_area i l = Some a.
Proof.
  induction l as [|[j a] l IH]; cbn.
  - split; [discriminate | intros [a H]; discriminate].
  - destruct (Nat.eqb j i); cbn; [split; eauto | exact IH].
Qed.
Lemma lookup_in i a l : lookup_area i l = Some a -> In (i, a) l.
Proof.
  induction l as [|[j b] l IH]; cbn; [discriminate|]. destruct (Nat.eqb j i) eqn:E.
  - apply Nat.eqb_eq in E. subst. intros H; inversion H; auto.
  - auto.
Qed.
Lemma is_placed_cons i j a l : is_placed i ((j, a) :: l) = Nat.eqb j i || is_placed i l.
Proof. reflexivity. Qed.
Lemma is_placed_app i l1 l2 : is_placed i (l1 ++ l2) = is_placed i l1 || is_placed i l2.
Proof. unfold is_placed. apply existsb_app. Qed.

Lemma ins_child_in p q l : In q (ins_child p l) <-> q = p \/ In q l.
Proof.
  induction l as [|r l IH]; cbn; [intuition|]. destruct (order (snd p) <=? order (snd r)); cbn; [intuition|].
  rewrite IH. intuition.
Qed.
Lemma sort_children_in q l : In q (sort_children l) <-> In q l.
Proof.
  induction l as [|p l IH]; cbn; [tauto|]. rewrite ins_child_in, IH. intuition.
Qed.

Lemma index_from_in {A} (l : list A) k i (a : A) :
  In (i, a) (index_from k l) <-> (k <= i)%nat /\ nth_error l (i - k) = Some a.
Proof.
  revert k. induction l as [|b l IH]; intros k; cbn.
  - split; [tauto|]. intros [_ H]. destruct (i - k)%nat; discriminate.
  - rewrite IH. split.
    + intros [H | [H1 H2]].
      * inversion H; subst. rewrite Nat.sub_diag. auto.
      * split; [lia|]. replace (i - k)%nat with (S (i - S k)) by lia. exact H2.
    + intros [H1 H2]. destruct (Nat.eq_dec k i) as [-> | N].
      * rewrite Nat.sub_diag in H2. cbn in H2. left. congruence.
      * right. split; [lia|]. replace (i - k)%nat with (S (i - S k)) in H2 by lia. exact H2.
Qed.

Section Flow.
  Variable colflow : bool.
  Variable dense : bool.

  Lemma first_of_mk fi fsz si ssz : first_of colflow (mk_area colflow fi fsz si ssz) = (fi, fsz).
  Proof. unfold first_of, mk_area. destruct colflow; reflexivity. Qed.
  Lemma second_of_mk fi fsz si ssz : second_of colflow (mk_area colflow fi fsz si ssz) = (si, ssz).
  Proof. unfold second_of, mk_area. destruct colflow; reflexivity. Qed.

  Lemma area_meets_mk fi fsz si ssz f :
    area_meets (mk_area colflow fi fsz si ssz) f =
    intersect fi fsz (fst (first_of colflow f)) (snd (first_of colflow f)) &&
    intersect si ssz (fst (second_of colflow f)) (snd (second_of colflow f)).
  Proof.
    destruct f as [[[x y] w] h]. unfold mk_area, first_of, second_of. destruct colflow; cbn; [reflexivity | apply andb_comm].
  Qed.

  Definition area_pos (a : area) : Prop := let '(x, y, w, h) := a in 1 <= w /\ 1 <= h.
  Lemma area_pos_mk fi fsz si ssz : 1 <= fsz -> 1 <= ssz -> area_pos (mk_area colflow fi fsz si ssz).
  Proof. unfold mk_area. destruct colflow; cbn; tauto. Qed.
  Lemma area_pos_second a : area_pos a -> 1 <= snd (second_of colflow a).
  Proof. destruct a as [[[x y] w] h]. unfold second_of. destruct colflow; cbn; tauto. Qed.

  Lemma no_meet_beyond ps m k fsz si ssz :
    (forall f, In f ps -> fst (first_of colflow f) + snd (first_of colflow f) <= m) -> m <= k ->
    intersect_with_children (mk_area colflow k fsz si ssz) ps = false.
  Proof.
    intros Hb Hk. unfold intersect_with_children.
    destruct (existsb (area_meets (mk_area colflow k fsz si ssz)) ps) eqn:E; [|reflexivity].
    apply existsb_exists in E as [f [Hin Hm]]. rewrite area_meets_mk in Hm. apply andb_true_iff in Hm as [Hm _].
    unfold intersect in Hm. specialize (Hb f Hin). lia.
  Qed.

  Lemma max_end_first ps f : In f ps ->
    fst (first_of colflow f) + snd (first_of colflow f) <= max_end (map (first_of colflow) ps).
  Proof. intros H. apply (max_end_bound _ (first_of colflow f)). apply in_map, H. Qed.

  (* ------------------------------------------------------------------ fuel: _get_second_placement *)

  Lemma dense_track_fuel ss se occ :
    nonline ss = true -> nonline se = true -> gline_valid ss = true -> gline_valid se = true ->
    forall fuel track, (1 <= fuel)%nat -> occ_max occ - track + 1 < Z.of_nat fuel ->
    dense_track fuel ss se occ track <> None.
  Proof.
    intros N1 N2 V1 V2. induction fuel as [|f IH]; intros track Hf Hb; [lia|]. cbn.
    destruct (Z_lt_le_dec (occ_max occ) track) as [Hgt | Hle].
    - destruct (occ_beyond occ track Hgt) as [E1 E2]. rewrite E1.
      destruct (place_at_valid ss se track N1 N2 V1 V2) as [E _]. rewrite E. cbn [fst snd]. rewrite E2. discriminate.
    - assert (Hf' : (1 <= f)%nat) by lia.
      destruct (occ_mem track occ); [apply IH; lia|].
      destruct (occ_meets _ _ occ); [apply IH; lia | discriminate].
  Qed.

  Lemma sparse_end_fuel n track : 1 <= n ->
    forall fuel e, (1 <= fuel)%nat -> track + n - e < Z.of_nat fuel -> sparse_end fuel (GSpan n) track e <> None.
  Proof.
    intros Hn. induction fuel as [|f IH]; intros e Hf Hb; [lia|]. cbn.
    assert (E : pl_line_end (GSpan n) (e + 1) = (e - n, n)).
    { unfold pl_line_end, norm, or1. split_ifs; f_equal; lia. }
    rewrite E. cbn [fst]. destruct (track <=? e - n) eqn:C; [discriminate|]. apply IH; lia.
  Qed.

  Lemma sparse_end_result fuel ss track e pl : sparse_end fuel ss track e = Some pl -> track <= fst pl /\ 1 <= snd pl.
  Proof.
    revert e. induction fuel as [|f IH]; intros e; cbn; [discriminate|].
    destruct (track <=? fst (pl_line_end ss (e + 1))) eqn:C.
    - intros H. inversion H; subst. split; [lia | apply pl_line_end_size].
    - apply IH.
  Qed.

  Lemma dense_track_result fuel ss se occ track pl :
    dense_track fuel ss se occ track = Some pl -> occ_meets (fst pl) (snd pl) occ = false /\ 1 <= snd pl.
  Proof.
    revert track. induction fuel as [|f IH]; intros track; cbn; [discriminate|].
    destruct (occ_mem track occ); [apply IH|].
    destruct (occ_meets (fst (place_at ss se track)) (snd (place_at ss se track)) occ) eqn:E; [apply IH|].
    intros H. inversion H; subst. split; [exact E | apply place_at_size].
  Qed.

  Lemma second_placement_fuel fp ss se ps :
    nonline ss = true -> nonline se = true -> gline_valid ss = true -> gline_valid se = true ->
    second_placement colflow dense fp ss se ps <> None.
  Proof.
    intros N1 N2 V1 V2. unfold second_placement. destruct dense.
    - apply dense_track_fuel; auto; unfold dense_fuel; lia.
    - destruct ss as [|n|n]; [discriminate | discriminate |]. cbn in V1.
      apply sparse_end_fuel; unfold sparse_fuel, get_span, or1; split_ifs; lia.
  Qed.

  (* the second-axis range returned for a locked item avoids every placed area that meets its first-axis range *)
  Lemma occupied_sound fp ps p0 p1 :
    (forall f, In f ps -> area_pos f) -> 1 <= p1 ->
    occ_meets p0 p1 (occupied colflow fp ps) = false ->
    intersect_with_children (mk_area colflow (fst fp) (snd fp) p0 p1) ps = false.
  Proof.
    intros Hpos Hp1 Hocc. unfold intersect_with_children.
    destruct (existsb (area_meets (mk_area colflow (fst fp) (snd fp) p0 p1)) ps) eqn:E; [|reflexivity].
    apply existsb_exists in E as [f [Hin Hm]]. rewrite area_meets_mk in Hm. apply andb_true_iff in Hm as [Hm1 Hm2].
    assert (Ho : In (second_of colflow f) (occupied colflow fp ps)).
    { unfold occupied. apply in_map. apply filter_In. split; [exact Hin|]. rewrite intersect_sym. exact Hm1. }
    assert (C : occ_meets p0 p1 (occupied colflow fp ps) = true).
    { unfold occ_meets. apply existsb_exists. exists (second_of colflow f). split; [exact Ho|].
      pose proof (area_pos_second f (Hpos f Hin)). unfold intersect in Hm2. lia. }
    congruence.
  Qed.

  Lemma second_placement_sound fp ss se ps sp :
    (forall f, In f ps -> area_pos f) ->
    nonline se = true -> gline_valid se = true ->
    second_placement colflow dense fp ss se ps = Some sp ->
    1 <= snd sp /\ intersect_with_children (mk_area colflow (fst fp) (snd fp) (fst sp) (snd sp)) ps = false.
  Proof.
    intros Hpos N2 V2. unfold second_placement. destruct dense.
    - intros H. apply dense_track_result in H as [H1 H2]. split; [exact H2|]. apply occupied_sound; assumption.
    - assert (K : forall pl, occ_next (occupied colflow fp ps) <= fst pl -> 1 <= snd pl -> Some pl = Some sp ->
                  1 <= snd sp /\ intersect_with_children (mk_area colflow (fst fp) (snd fp) (fst sp) (snd sp)) ps = false).
      { intros pl H1 H2 H. inversion H; subst. split; [exact H2|]. apply occupied_sound; try assumption.
        apply occ_next_beyond. lia. }
      destruct ss as [|n|n].
      + apply K; [|apply pl_line_start_size].
        destruct se as [|m|m]; [| discriminate |]; cbn in V2; unfold pl_line_start, norm, or1; split_ifs; cbn [fst]; lia.
      + intros H. apply sparse_end_result in H as [H1 H2]. apply (K sp); auto; lia.
      + intros H. apply sparse_end_result in H as [H1 H2]. apply (K sp); auto; lia.
  Qed.

  (* ------------------------------------------------------------------------------ fuel: phase 1.4 loops *)
  Variables is1 is2 if1 : Z.

  Lemma first_search_fuel cmp fs fe cf0 si ssz ps :
    nonline fs = true -> nonline fe = true -> gline_valid fs = true -> gline_valid fe = true ->
    forall fuel k, cf0 <= k -> (1 <= fuel)%nat -> max_end (map (first_of colflow) ps) - k < Z.of_nat fuel ->
    first_search colflow fuel cmp fs fe cf0 si ssz ps k <> None.
  Proof.
    intros N1 N2 V1 V2. induction fuel as [|f IH]; intros k Hk Hf Hb; [lia|]. cbn.
    destruct (place_at_valid fs fe k N1 N2 V1 V2) as [E _]. rewrite E.
    assert (C : (k <? (if cmp then k else cf0)) = false) by (destruct cmp; lia). rewrite C.
    destruct (Z_le_gt_dec (max_end (map (first_of colflow) ps)) k) as [Hge | Hlt].
    - rewrite (no_meet_beyond ps _ k _ si ssz (max_end_first ps) Hge). discriminate.
    - destruct (intersect_with_children _ ps); [apply IH; lia | discriminate].
  Qed.

  Lemma first_search_result fuel cmp fs fe cf0 si ssz ps k r :
    first_search colflow fuel cmp fs fe cf0 si ssz ps k = Some r ->
    let '(k', fi, fsz) := r in
    k <= k' /\ 1 <= fsz /\ intersect_with_children (mk_area colflow fi fsz si ssz) ps = false /\
    (if cmp then k' <= fi else cf0 <= fi).
  Proof.
    revert k. induction fuel as [|f IH]; intros k; cbn; [discriminate|].
    destruct (place_at fs fe k) as [fi fsz] eqn:E.
    destruct (fi <? (if cmp then k else cf0)) eqn:C.
    { intros H. specialize (IH _ H). destruct r as [[k' fi'] fsz']. intuition lia. }
    destruct (intersect_with_children (mk_area colflow fi fsz si ssz) ps) eqn:I.
    { intros H. specialize (IH _ H). destruct r as [[k' fi'] fsz']. intuition lia. }
    intros H. inversion H; subst. pose proof (place_at_size fs fe k) as P. rewrite E in P. cbn in P.
    repeat split; try lia; try assumption. destruct cmp; lia.
  Qed.

  Lemma scan_second_result n fs fe ss se ps k fi r :
    scan_second colflow is2 n fs fe ss se ps k fi = Some r ->
    let '(a, fi', fsz) := r in
    intersect_with_children a ps = false /\
    exists k' ssz, (k <= k' < k + Z.of_nat n) /\ a = mk_area colflow fi' fsz (fst (place_at ss se k')) ssz /\
                   ssz = snd (place_at ss se k') /\ fst (place_at ss se k') + ssz <= is2 /\ 1 <= fsz /\ 1 <= ssz.
  Proof.
    revert k fi. induction n as [|n IH]; intros k fi; cbn [scan_second]; [discriminate|].
    destruct (place_at fs fe fi) as [fi' fsz] eqn:E1. destruct (place_at ss se k) as [si ssz] eqn:E2.
    destruct (intersect_with_children (mk_area colflow fi' fsz si ssz) ps || (is2 <? si + ssz)) eqn:C.
    - intros H. specialize (IH _ _ H). destruct r as [[a fi''] fsz'']. destruct IH as [I [k' [z [Hk R]]]].
      split; [exact I|]. exists k', z. split; [lia | exact R].
    - intros H. inversion H; subst. apply orb_false_iff in C as [C1 C2]. split; [exact C1|].
      exists k, ssz. rewrite E2. cbn [fst snd].
      pose proof (place_at_size fs fe fi) as P1. rewrite E1 in P1. pose proof (place_at_size ss se k) as P2. rewrite E2 in P2.
      cbn in P1, P2. repeat split; try lia.
  Qed.

  (* with valid automatic lines the first-axis position is not moved by the scan *)
  Lemma scan_second_first n fs fe ss se ps k fi r :
    nonline fs = true -> nonline fe = true -> gline_valid fs = true -> gline_valid fe = true ->
    scan_second colflow is2 n fs fe ss se ps k fi = Some r ->
    let '(a, fi', fsz) := r in fi' = fi /\ first_of colflow a = (fi, fsz).
  Proof.
    intros N1 N2 V1 V2. revert k. induction n as [|n IH]; intros k; cbn [scan_second]; [discriminate|].
    destruct (place_at_valid fs fe fi N1 N2 V1 V2) as [E _]. rewrite E. destruct (place_at ss se k) as [si ssz].
    destruct (_ || _).
    - apply IH.
    - intros H. inversion H; subst. split; [reflexivity | apply first_of_mk].
  Qed.

  Lemma scan_second_free fs fe ss se ps r n :
    nonline fs = true -> nonline fe = true -> gline_valid fs = true -> gline_valid fe = true ->
    nonline ss = true -> nonline se = true -> gline_valid ss = true -> gline_valid se = true ->
    is1 + auto_size ss se <= is2 -> max_end (map (first_of colflow) ps) <= r -> (1 <= n)%nat ->
    scan_second colflow is2 n fs fe ss se ps is1 r <> None.
  Proof.
    intros N1 N2 V1 V2 N3 N4 V3 V4 Hfit Hr Hn. destruct n as [|n]; [lia|]. cbn [scan_second].
    destruct (place_at_valid fs fe r N1 N2 V1 V2) as [E1 _]. destruct (place_at_valid ss se is1 N3 N4 V3 V4) as [E2 _].
    rewrite E1, E2. rewrite (no_meet_beyond ps _ r _ _ _ (max_end_first ps) Hr).
    assert (C : (is2 <? is1 + auto_size ss se) = false) by lia. rewrite C. discriminate.
  Qed.

  Lemma auto_loop_fuel fs fe ss se ps :
    nonline fs = true -> nonline fe = true -> gline_valid fs = true -> gline_valid fe = true ->
    nonline ss = true -> nonline se = true -> gline_valid ss = true -> gline_valid se = true ->
    is1 + auto_size ss se <= is2 ->
    forall cf cs if2, auto_loop colflow is1 is2 (auto_fuel colflow ps cf) fs fe ss se ps cf cs if2 <> None.
  Proof.
    intros N1 N2 V1 V2 N3 N4 V3 V4 Hfit.
    destruct (place_at_valid ss se is1 N3 N4 V3 V4) as [_ Hsz].
    assert (Hn : (1 <= Z.to_nat (is2 - is1))%nat) by lia.
    assert (B : forall fuel cf if2, (1 <= fuel)%nat -> max_end (map (first_of colflow) ps) - cf < Z.of_nat fuel ->
                auto_loop colflow is1 is2 fuel fs fe ss se ps cf is1 if2 <> None).
    { induction fuel as [|f IH]; intros cf if2 Hf Hb; [lia|]. cbn [auto_loop].
      destruct (scan_second colflow is2 (Z.to_nat (is2 - is1)) fs fe ss se ps is1 cf) as [[[a fi] fsz]|] eqn:S; [discriminate|].
      destruct (Z_le_gt_dec (max_end (map (first_of colflow) ps)) cf) as [Hge | Hlt].
      - exfalso. revert S. apply scan_second_free; auto.
      - apply IH; lia. }
    intros cf cs if2. unfold auto_fuel.
    remember (S (Z.to_nat (max_end (map (first_of colflow) ps) - cf))) as f1 eqn:Ef. cbn [auto_loop].
    destruct (scan_second colflow is2 (Z.to_nat (is2 - cs)) fs fe ss se ps cs cf) as [[[a fi] fsz]|]; [discriminate|].
    apply B; lia.
  Qed.

  Lemma auto_loop_result fuel fs fe ss se ps cf cs if2 r :
    auto_loop colflow is1 is2 fuel fs fe ss se ps cf cs if2 = Some r ->
    let '(a, fi, fsz, cf', if2') := r in
    cf <= cf' /\ if2 <= if2' /\
    exists cs', (cs' = cs \/ cs' = is1) /\ (cf' = cf -> cs' = cs) /\
                scan_second colflow is2 (Z.to_nat (is2 - cs')) fs fe ss se ps cs' cf' = Some (a, fi, fsz).
  Proof.
    revert cf cs if2. induction fuel as [|f IH]; intros cf cs if2; cbn [auto_loop]; [discriminate|].
    destruct (scan_second colflow is2 (Z.to_nat (is2 - cs)) fs fe ss se ps cs cf) as [[[a fi] fsz]|] eqn:S.
    - intros H. inversion H; subst. repeat split; try lia. exists cs. auto.
    - intros H. specialize (IH _ _ _ H). destruct r as [[[[a fi] fsz] cf'] if2'].
      destruct IH as [H1 [H2 [cs' [H3 [H4 H5]]]]]. repeat split; try lia; [split_ifs; lia|].
      exists cs'. repeat split; [right; destruct H3; congruence | lia | exact H5].
  Qed.
End Flow.

(* ================================================================================================= phases *)

(* `l` is obtained from `base` by pushing, one at a time, areas with positive sizes that meet no area
   already present: what phases 1.2 and 1.4 do *)
Inductive chain (base : plog) : plog -> Prop :=
| chain_nil : chain base base
| chain_cons i a l : chain base l -> area_pos a -> intersect_with_children a (areas l) = false ->
                     chain base ((i, a) :: l).

Lemma chain_trans b l1 l2 : chain b l1 -> chain l1 l2 -> chain b l2.
Proof. intros H1 H2. induction H2; [exact H1 | constructor; auto]. Qed.
Lemma chain_ext b l : chain b l -> exists new, l = new ++ b.
Proof. induction 1 as [|i a l H [new ->]]; [exists []; reflexivity | exists ((i, a) :: new); reflexivity]. Qed.
Lemma chain_placed b l i : chain b l -> is_placed i b = true -> is_placed i l = true.
Proof. intros H P. destruct (chain_ext b l H) as [new ->]. rewrite is_placed_app, P. apply orb_true_r. Qed.
Lemma chain_pos b l : chain b l -> (forall f, In f (areas b) -> area_pos f) -> forall f, In f (areas l) -> area_pos f.
Proof. induction 1; intros Hb f; [apply Hb|]. cbn. intros [<- | Hin]; auto. Qed.

Lemma get_placement_pos s e k z : get_placement s e = Some (k, z) -> 1 <= z.
Proof. apply get_placement_size. Qed.

(* ---- 1.1 *)
Lemma phase11_spec its l :
  exists new, phase11 its l = new ++ l /\
    (forall p, In p new -> area_pos (snd p) /\ exists it, In (fst p, it) its /\ definite_item it = true) /\
    (forall i it, In (i, it) its -> definite_item it = true -> is_placed i (new ++ l) = true).
Proof.
  revert l. induction its as [|[i it] r IH]; intros l; cbn [phase11].
  - exists []. cbn. repeat split; intros; contradiction.
  - destruct (get_placement (col_s it) (col_e it)) as [[x w]|] eqn:E1;
    [destruct (get_placement (row_s it) (row_e it)) as [[y h]|] eqn:E2|].
    + destruct (IH ((i, (x, y, w, h)) :: l)) as [new [E [P1 P2]]]. exists (new ++ [(i, (x, y, w, h))]).
      rewrite <- app_assoc. cbn [app]. split; [exact E|]. split.
      * intros p Hp. apply in_app_or in Hp as [Hp | [<- | []]].
        -- destruct (P1 p Hp) as [A [it' [B C]]]. split; [exact A|]. exists it'. split; [right; exact B | exact C].
        -- split; [cbn; split; eauto using get_placement_pos|]. exists it. split; [left; reflexivity|].
           unfold definite_item. rewrite E1, E2. reflexivity.
      * intros j jt [H | H] D.
        -- inversion H; subst. rewrite is_placed_app, is_placed_cons, Nat.eqb_refl. cbn. apply orb_true_r.
        -- apply (P2 j jt H D).
    + destruct (IH l) as [new [E [P1 P2]]]. exists new. split; [exact E|]. split.
      * intros p Hp. destruct (P1 p Hp) as [A [it' [B C]]]. split; [exact A|]. exists it'. split; [right; exact B | exact C].
      * intros j jt [H | H] D; [|apply (P2 j jt H D)]. inversion H; subst. unfold definite_item in D. rewrite E1, E2 in D. discriminate.
    + destruct (IH l) as [new [E [P1 P2]]]. exists new. split; [exact E|]. split.
      * intros p Hp. destruct (P1 p Hp) as [A [it' [B C]]]. split; [exact A|]. exists it'. split; [right; exact B | exact C].
      * intros j jt [H | H] D; [|apply (P2 j jt H D)]. inversion H; subst. unfold definite_item in D. rewrite E1 in D. discriminate.
Qed.

Lemma item_valid_parts it : item_valid it = true ->
  gline_valid (col_s it) = true /\ gline_valid (col_e it) = true /\ gline_valid (row_s it) = true /\ gline_valid (row_e it) = true.
Proof. unfold item_valid. rewrite !andb_true_iff. tauto. Qed.

Section Phases.
  Variable colflow : bool.
  Variable dense : bool.

  Lemma valid_first it : item_valid it = true ->
    gline_valid (fst_s colflow it) = true /\ gline_valid (fst_e colflow it) = true /\
    gline_valid (snd_s colflow it) = true /\ gline_valid (snd_e colflow it) = true.
  Proof. intros H. apply item_valid_parts in H. unfold fst_s, fst_e, snd_s, snd_e. destruct colflow; tauto. Qed.

  Lemma definite_axes it :
    definite_item it = true <->
    (exists p, get_placement (fst_s colflow it) (fst_e colflow it) = Some p) /\
    (exists p, get_placement (snd_s colflow it) (snd_e colflow it) = Some p).
  Proof.
    unfold definite_item, fst_s, fst_e, snd_s, snd_e.
    destruct colflow; destruct (get_placement (col_s it) (col_e it)), (get_placement (row_s it) (row_e it));
      split; intros H; try discriminate; try reflexivity; try (split; eauto; fail);
      destruct H as [[? H1] [? H2]]; discriminate.
  Qed.

  (* ---- 1.2 *)
  Lemma phase12_fuel ch : forall l,
    (forall i it, In (i, it) ch -> item_valid it = true) ->
    (forall i it, In (i, it) ch -> definite_item it = true -> is_placed i l = true) ->
    phase12 colflow dense ch l <> None.
  Proof.
    induction ch as [|[i it] r IH]; intros l Hv Hd; cbn [phase12]; [discriminate|].
    assert (Hv' : forall j jt, In (j, jt) r -> item_valid jt = true) by (intros; eapply Hv; right; eauto).
    destruct (is_placed i l) eqn:P; [apply IH; auto; intros; eapply Hd; eauto; right; auto|].
    destruct (get_placement (fst_s colflow it) (fst_e colflow it)) as [fp|] eqn:E1;
      [|apply IH; auto; intros; eapply Hd; eauto; right; auto].
    destruct (get_placement (snd_s colflow it) (snd_e colflow it)) as [sp0|] eqn:E2.
    { assert (D : definite_item it = true) by (apply definite_axes; eauto).
      rewrite (Hd i it (or_introl eq_refl) D) in P. discriminate. }
    apply get_placement_none in E2 as [N1 N2]. destruct (valid_first it (Hv i it (or_introl eq_refl))) as [_ [_ [V1 V2]]].
    destruct (second_placement colflow dense fp (snd_s colflow it) (snd_e colflow it) (areas l)) as [sp|] eqn:S.
    - apply IH; auto. intros j jt Hin D. rewrite is_placed_cons, (Hd j jt (or_intror Hin) D). apply orb_true_r.
    - exfalso. revert S. apply second_placement_fuel; auto.
  Qed.

  Lemma phase12_spec ch : forall l l',
    (forall i it, In (i, it) ch -> item_valid it = true) ->
    (forall i it, In (i, it) ch -> definite_item it = true -> is_placed i l = true) ->
    (forall f, In f (areas l) -> area_pos f) ->
    phase12 colflow dense ch l = Some l' ->
    chain l l' /\
    (forall i it, In (i, it) ch -> is_placed i l' = true \/ get_placement (fst_s colflow it) (fst_e colflow it) = None).
  Proof.
    induction ch as [|[i it] r IH]; intros l l' Hv Hd Hpos; cbn [phase12].
    { intros H; inversion H; subst. split; [constructor | intros ? ? []]. }
    assert (Hv' : forall j jt, In (j, jt) r -> item_valid jt = true) by (intros; eapply Hv; right; eauto).
    assert (Hd' : forall j jt, In (j, jt) r -> definite_item jt = true -> is_placed j l = true)
      by (intros; eapply Hd; eauto; right; auto).
    destruct (is_placed i l) eqn:P.
    { intros H. destruct (IH l l' Hv' Hd' Hpos H) as [C Q]. split; [exact C|].
      intros j jt [E | Hin]; [inversion E; subst; left; eapply chain_placed; eauto | eauto]. }
    destruct (get_placement (fst_s colflow it) (fst_e colflow it)) as [fp|] eqn:E1.
    2:{ intros H. destruct (IH l l' Hv' Hd' Hpos H) as [C Q]. split; [exact C|].
        intros j jt [E | Hin]; [inversion E; subst; right; exact E1 | eauto]. }
    destruct (get_placement (snd_s colflow it) (snd_e colflow it)) as [sp0|] eqn:E2.
    { assert (D : definite_item it = true) by (apply definite_axes; eauto).
      rewrite (Hd i it (or_introl eq_refl) D) in P. discriminate. }
    apply get_placement_none in E2 as [N1 N2]. destruct (valid_first it (Hv i it (or_introl eq_refl))) as [_ [_ [V1 V2]]].
    destruct (second_placement colflow dense fp (snd_s colflow it) (snd_e colflow it) (areas l)) as [sp|] eqn:S; [|discriminate].
    destruct (second_placement_sound colflow dense fp _ _ _ sp Hpos N2 V2 S) as [Z1 Z2].
    destruct fp as [f0 f1]. pose proof (get_placement_pos _ _ _ _ E1) as Z0. cbn [fst snd] in *.
    intros H.
    assert (C1 : chain l ((i, mk_area colflow f0 f1 (fst sp) (snd sp)) :: l)).
    { constructor; [constructor | apply area_pos_mk; assumption | exact Z2]. }
    destruct (IH ((i, mk_area colflow f0 f1 (fst sp) (snd sp)) :: l) l' Hv') as [C Q].
    - intros j jt Hin D. rewrite is_placed_cons, (Hd' j jt Hin D). apply orb_true_r.
    - intros f. cbn. intros [<- | Hin]; [apply area_pos_mk; assumption | auto].
    - exact H.
    - split; [eapply chain_trans; eauto|].
      intros j jt [E | Hin]; [|eauto]. inversion E; subst. left. eapply chain_placed; [exact C|]. rewrite is_placed_cons, Nat.eqb_refl. reflexivity.
  Qed.

  (* ---- 1.3 *)
  Definition within (b : Z * Z) (k z : Z) : Prop := fst b <= k /\ k + z <= snd b.

  Lemma phase132_spec ch l : forall b b' rem,
    phase132 colflow ch l b = (b', rem) ->
    fst b' <= fst b /\ snd b <= snd b' /\
    (forall i it, In (i, it) rem -> In (i, it) ch /\ lookup_area i l = None) /\
    (forall i it, In (i, it) ch -> lookup_area i l = None -> In (i, it) rem) /\
    (forall i it a, In (i, it) ch -> lookup_area i l = Some a ->
                    within b' (fst (second_of colflow a)) (snd (second_of colflow a))) /\
    (forall i it k z, In (i, it) rem -> get_placement (snd_s colflow it) (snd_e colflow it) = Some (k, z) -> within b' k z).
  Proof.
    induction ch as [|[i it] r IH]; intros b b' rem; cbn [phase132].
    { intros H; inversion H; subst. repeat split; try lia; intros; contradiction. }
    destruct (lookup_area i l) as [a|] eqn:L.
    - destruct (second_of colflow a) as [k size] eqn:E. intros H. specialize (IH _ _ _ H). cbn [fst snd] in IH.
      destruct IH as [B1 [B2 [R1 [R2 [R3 R4]]]]]. repeat split; try lia.
      + right. eapply R1; eauto.
      + eapply R1; eauto.
      + intros j jt [Ej | Hin] Lj; [inversion Ej; subst; congruence | eauto].
      + cbn [fst]. destruct H0 as [Ej | Hin]; [inversion Ej; subst|].
        * rewrite L in H1. inversion H1; subst. rewrite E. cbn. lia.
        * destruct (R3 _ _ _ Hin H1). lia.
      + cbn [snd]. destruct H0 as [Ej | Hin]; [inversion Ej; subst|].
        * rewrite L in H1. inversion H1; subst. rewrite E. cbn. lia.
        * destruct (R3 _ _ _ Hin H1). lia.
      + eapply R4; eauto.
      + eapply R4; eauto.
    - set (bb := match get_placement (snd_s colflow it) (snd_e colflow it) with
                 | Some (k, size) => (Z.min k (fst b), Z.max (k + size) (snd b)) | None => b end).
      destruct (phase132 colflow r l bb) as [b'' rem'] eqn:H'. intros H. inversion H; subst. clear H.
      specialize (IH _ _ _ H'). destruct IH as [B1 [B2 [R1 [R2 [R3 R4]]]]].
      assert (Bb : fst bb <= fst b /\ snd b <= snd bb /\
                   forall k z, get_placement (snd_s colflow it) (snd_e colflow it) = Some (k, z) -> fst bb <= k /\ k + z <= snd bb).
      { subst bb. destruct (get_placement (snd_s colflow it) (snd_e colflow it)) as [[k z]|]; cbn [fst snd].
        - repeat split; try lia; inversion H; subst; lia.
        - repeat split; try lia; discriminate. }
      destruct Bb as [Bb1 [Bb2 Bb3]]. repeat split; try lia.
      + destruct H as [Ej | Hin]; [inversion Ej; subst; left; reflexivity | right; eapply R1; eauto].
      + destruct H as [Ej | Hin]; [inversion Ej; subst; exact L | eapply R1; eauto].
      + intros j jt [Ej | Hin] Lj; [left; exact Ej | right; eauto].
      + destruct H as [Ej | Hin]; [inversion Ej; subst; congruence | destruct (R3 _ _ _ Hin H0); lia].
      + destruct H as [Ej | Hin]; [inversion Ej; subst; congruence | destruct (R3 _ _ _ Hin H0); lia].
      + destruct H as [Ej | Hin]; [inversion Ej; subst; destruct (Bb3 _ _ H0); lia | destruct (R4 _ _ _ _ Hin H0); lia].
      + destruct H as [Ej | Hin]; [inversion Ej; subst; destruct (Bb3 _ _ H0); lia | destruct (R4 _ _ _ _ Hin H0); lia].
  Qed.

  Lemma phase133_spec rem is1 : forall is2,
    is2 <= phase133 colflow rem is1 is2 /\
    forall i it, In (i, it) rem -> is1 + span133 colflow it <= phase133 colflow rem is1 is2.
  Proof.
    induction rem as [|[i it] r IH]; intros is2; cbn [phase133]; [split; [lia | intros ? ? []]|].
    destruct (IH (Z.max (is1 + span133 colflow it) is2)) as [A B]. split; [lia|].
    intros j jt [E | Hin]; [inversion E; subst; lia | eauto].
  Qed.

  Lemma span133_auto it : item_valid it = true ->
    get_placement (snd_s colflow it) (snd_e colflow it) = None ->
    span133 colflow it = auto_size (snd_s colflow it) (snd_e colflow it).
  Proof.
    intros V N. apply get_placement_none in N as [N1 N2]. destruct (valid_first it V) as [_ [_ [V1 V2]]].
    unfold span133, auto_size, or1. destruct (snd_s colflow it), (snd_e colflow it); cbn in *; try discriminate; split_ifs; lia.
  Qed.

  Lemma first_bounds_spec ps : forall b,
    fst (first_bounds colflow ps b) <= fst b /\ snd b <= snd (first_bounds colflow ps b) /\
    forall a, In a ps -> fst (first_bounds colflow ps b) <= fst (first_of colflow a).
  Proof.
    unfold first_bounds. induction ps as [|a r IH]; intros b; cbn [fold_left]; [repeat split; try lia; intros ? []|].
    destruct (first_of colflow a) as [k size] eqn:E.
    destruct (IH (Z.min k (fst b), Z.max (k + size) (snd b))) as [A [B C]]. cbn [fst snd] in *.
    repeat split; try lia. intros a' [<- | Hin]; [rewrite E; cbn; lia | auto].
  Qed.

  Lemma first_bounds_end ps : forall b a, In a ps ->
    fst (first_of colflow a) + snd (first_of colflow a) <= snd (first_bounds colflow ps b).
  Proof.
    induction ps as [|a0 r IH]; intros b a; [intros []|]. intros [<- | Hin].
    - unfold first_bounds. cbn [fold_left]. destruct (first_of colflow a0) as [k size] eqn:E.
      pose proof (first_bounds_spec r (Z.min k (fst b), Z.max (k + size) (snd b))) as [_ [B _]].
      unfold first_bounds in B. cbn [fst snd] in *. lia.
    - unfold first_bounds. cbn [fold_left]. destruct (first_of colflow a0) as [k size].
      apply (IH _ a Hin).
  Qed.

  (* ---- 1.4 *)
  Variables is1 is2 if1 : Z.

  Definition rem_ok (it : item) : Prop :=
    item_valid it = true /\ get_placement (fst_s colflow it) (fst_e colflow it) = None /\
    (get_placement (snd_s colflow it) (snd_e colflow it) = None ->
     is1 + auto_size (snd_s colflow it) (snd_e colflow it) <= is2).

  Lemma step14_fuel st i it : rem_ok it -> step14 colflow dense is1 is2 if1 st (i, it) <> OutOfFuel.
  Proof.
    intros [V [N F]]. apply get_placement_none in N as [N1 N2]. destruct (valid_first it V) as [V1 [V2 [V3 V4]]].
    unfold step14. destruct (get_placement (snd_s colflow it) (snd_e colflow it)) as [[si ssz]|] eqn:E.
    - destruct dense.
      + destruct (first_search colflow _ false _ _ if1 si ssz _ if1) as [[[k fi] fsz]|] eqn:S; [discriminate|].
        exfalso. revert S. apply first_search_fuel; auto; unfold search_fuel; lia.
      + match goal with |- context[first_search colflow ?f true ?g ?e ?c si ssz ?p ?k] =>
          destruct (first_search colflow f true g e c si ssz p k) as [[[k' fi] fsz]|] eqn:S end; [discriminate|].
        exfalso. revert S. apply first_search_fuel; auto; unfold search_fuel; lia.
    - specialize (F eq_refl). apply get_placement_none in E as [N3 N4].
      match goal with |- context[auto_loop ?a ?b ?c ?d ?e ?f ?g ?h ?i ?j ?k ?l] =>
        destruct (auto_loop a b c d e f g h i j k l) as [[[[[a' fi] fsz] cf'] if2']|] eqn:S end; [discriminate|].
      exfalso. revert S. apply auto_loop_fuel; auto.
  Qed.

  Lemma phase14_fuel rem : forall st,
    (forall i it, In (i, it) rem -> rem_ok it) -> phase14 colflow dense is1 is2 if1 rem st <> OutOfFuel.
  Proof.
    induction rem as [|[i it] r IH]; intros st H; cbn [phase14]; [discriminate|].
    destruct (step14 colflow dense is1 is2 if1 st (i, it)) eqn:S; try discriminate.
    - apply IH. intros; eapply H; right; eauto.
    - exfalso. revert S. apply step14_fuel. eapply H; left; reflexivity.
  Qed.

  (* every step pushes one area with positive sizes that meets nothing placed before (no hypothesis needed) *)
  Lemma step14_push st i it st' : step14 colflow dense is1 is2 if1 st (i, it) = Ok st' ->
    exists a, st_log st' = (i, a) :: st_log st /\ area_pos a /\ intersect_with_children a (areas (st_log st)) = false.
  Proof.
    unfold step14. destruct (get_placement (snd_s colflow it) (snd_e colflow it)) as [[si ssz]|] eqn:E.
    - pose proof (get_placement_pos _ _ _ _ E) as Z0. destruct dense.
      + destruct (first_search colflow _ false _ _ if1 si ssz _ if1) as [[[k fi] fsz]|] eqn:S; [|discriminate].
        apply first_search_result in S as [_ [S1 [S2 _]]]. intros H; inversion H; subst; cbn [st_log].
        eexists; repeat split; eauto using area_pos_mk.
      + match goal with |- context[first_search colflow ?f true ?g ?e ?c si ssz ?p ?k] =>
          destruct (first_search colflow f true g e c si ssz p k) as [[[k' fi] fsz]|] eqn:S end; [|discriminate].
        apply first_search_result in S as [_ [S1 [S2 _]]]. intros H; inversion H; subst; cbn [st_log].
        eexists; repeat split; eauto using area_pos_mk.
    - match goal with |- context[auto_loop ?a ?b ?c ?d ?e ?f ?g ?h ?i ?j ?k ?l] =>
        destruct (auto_loop a b c d e f g h i j k l) as [[[[[a' fi] fsz] cf'] if2']|] eqn:S end; [|discriminate].
      apply auto_loop_result in S as [_ [_ [cs' [_ [_ S]]]]]. apply scan_second_result in S as [S1 [k' [z [_ [-> [_ [_ [S2 S3]]]]]]]].
      intros H; inversion H; subst; cbn [st_log]. eexists; repeat split; eauto using area_pos_mk.
  Qed.

  Lemma phase14_chain rem : forall st st', phase14 colflow dense is1 is2 if1 rem st = Ok st' ->
    chain (st_log st) (st_log st') /\ forall i it, In (i, it) rem -> is_placed i (st_log st') = true.
  Proof.
    induction rem as [|[i it] r IH]; intros st st'; cbn [phase14].
    { intros H; inversion H; subst. split; [constructor | intros ? ? []]. }
    destruct (step14 colflow dense is1 is2 if1 st (i, it)) as [st1|] eqn:S; try discriminate.
    intros H. destruct (IH _ _ H) as [C P]. destruct (step14_push _ _ _ _ S) as [a [E [A1 A2]]].
    assert (C1 : chain (st_log st) (st_log st1)) by (rewrite E; constructor; [constructor | assumption | assumption]).
    split; [eapply chain_trans; eauto|].
    intros j jt [Ej | Hin]; [|eauto]. inversion Ej; subst. eapply chain_placed; [exact C|]. rewrite E, is_placed_cons, Nat.eqb_refl. reflexivity.
  Qed.

  (* implicit_first_2 is extended to the end line of every area placed by 1.4 *)
  Definition first_end (a : area) : Z := fst (first_of colflow a) + snd (first_of colflow a).

  Lemma step14_end st i it st' : step14 colflow dense is1 is2 if1 st (i, it) = Ok st' ->
    st_if2 st <= st_if2 st' /\ exists a, st_log st' = (i, a) :: st_log st /\ first_end a <= st_if2 st'.
  Proof.
    unfold step14, first_end. destruct (get_placement (snd_s colflow it) (snd_e colflow it)) as [[si ssz]|] eqn:E.
    - destruct dense.
      + destruct (first_search colflow _ false _ _ if1 si ssz _ if1) as [[[k fi] fsz]|] eqn:S; [|discriminate].
        intros H; inversion H; subst; cbn [st_log st_if2]. unfold bump. split; [split_ifs; lia|].
        eexists; split; [reflexivity|]. rewrite first_of_mk. cbn. split_ifs; lia.
      + match goal with |- context[first_search colflow ?f true ?g ?e ?c si ssz ?p ?k] =>
          destruct (first_search colflow f true g e c si ssz p k) as [[[k' fi] fsz]|] eqn:S end; [|discriminate].
        intros H; inversion H; subst; cbn [st_log st_if2]. unfold bump. split; [split_ifs; lia|].
        eexists; split; [reflexivity|]. rewrite first_of_mk. cbn. split_ifs; lia.
    - match goal with |- context[auto_loop ?a ?b ?c ?d ?e ?f ?g ?h ?i ?j ?k ?l] =>
        destruct (auto_loop a b c d e f g h i j k l) as [[[[[a' fi] fsz] cf'] if2']|] eqn:S end; [|discriminate].
      apply auto_loop_result in S as [_ [S2 [cs' [_ [_ S]]]]]. apply scan_second_result in S as [_ [k' [z [_ [-> _]]]]].
      intros H; inversion H; subst; cbn [st_log st_if2]. unfold bump. split; [split_ifs; lia|].
      eexists; split; [reflexivity|]. rewrite first_of_mk. cbn. split_ifs; lia.
  Qed.

  Lemma phase14_end rem : forall st st', phase14 colflow dense is1 is2 if1 rem st = Ok st' ->
    (forall p, In p (st_log st) -> first_end (snd p) <= st_if2 st) ->
    st_if2 st <= st_if2 st' /\ forall p, In p (st_log st') -> first_end (snd p) <= st_if2 st'.
  Proof.
    induction rem as [|[i it] r IH]; intros st st'; cbn [phase14].
    { intros H; inversion H; subst. intros Hb. split; [lia | exact Hb]. }
    destruct (step14 colflow dense is1 is2 if1 st (i, it)) as [st1|] eqn:S; try discriminate.
    intros H Hb. destruct (step14_end _ _ _ _ S) as [M [a [E A]]].
    destruct (IH _ _ H) as [M' B].
    - intros p Hp. rewrite E in Hp. destruct Hp as [<- | Hp]; [exact A | specialize (Hb p Hp); lia].
    - split; [lia | exact B].
  Qed.
End Phases.

(* ============================================================================= invariants of phase 1.4 *)
Section Phase14Inv.
  Variable colflow : bool.
  Variable dense : bool.
  Variables is1 is2 if1 : Z.

  Definition snd_within (it : item) : Prop :=
    forall k z, get_placement (snd_s colflow it) (snd_e colflow it) = Some (k, z) -> is1 <= k /\ k + z <= is2.

  Lemma step14_inv st i it st' :
    rem_ok colflow is1 is2 it -> snd_within it -> if1 <= st_cf st -> is1 <= st_cs st ->
    step14 colflow dense is1 is2 if1 st (i, it) = Ok st' ->
    exists a, st_log st' = (i, a) :: st_log st /\ if1 <= st_cf st' /\ is1 <= st_cs st' /\
              (dense = false -> st_cf st <= st_cf st') /\
              if1 <= fst (first_of colflow a) /\
              (is1 <= fst (second_of colflow a) /\ fst (second_of colflow a) + snd (second_of colflow a) <= is2) /\
              (get_placement (snd_s colflow it) (snd_e colflow it) = None -> dense = false ->
               fst (first_of colflow a) = st_cf st').
  Proof.
    intros [V [N F]] W Hcf Hcs. apply get_placement_none in N as [N1 N2]. destruct (valid_first colflow it V) as [V1 [V2 [V3 V4]]].
    unfold step14. destruct (get_placement (snd_s colflow it) (snd_e colflow it)) as [[si ssz]|] eqn:E.
    - destruct (W si ssz E) as [W1 W2]. destruct dense.
      + destruct (first_search colflow _ false _ _ if1 si ssz _ if1) as [[[k fi] fsz]|] eqn:S; [|discriminate].
        apply first_search_result in S as [S0 [S1 [S2 S3]]]. intros H; inversion H; subst; cbn.
        eexists; split; [reflexivity|]. rewrite first_of_mk, second_of_mk. cbn. repeat split; try lia; discriminate.
      + match goal with |- context[first_search colflow ?f true ?g ?e ?c si ssz ?p ?k] =>
          destruct (first_search colflow f true g e c si ssz p k) as [[[k' fi] fsz]|] eqn:S end; [|discriminate].
        apply first_search_result in S as [S0 [S1 [S2 S3]]]. intros H; inversion H; subst; cbn.
        eexists; split; [reflexivity|]. rewrite first_of_mk, second_of_mk. cbn.
        repeat split; try lia; try discriminate; split_ifs; lia.
    - specialize (F eq_refl). apply get_placement_none in E as [N3 N4].
      match goal with |- context[auto_loop ?a ?b ?c ?d ?e ?f ?g ?h ?i ?j ?k ?l] =>
        destruct (auto_loop a b c d e f g h i j k l) as [[[[[a' fi] fsz] cf'] if2']|] eqn:S end; [|discriminate].
      apply auto_loop_result in S as [S1 [S2 [cs' [S3 [S4 S]]]]].
      pose proof (scan_second_first colflow is2 _ _ _ _ _ _ _ _ _ N1 N2 V1 V2 S) as [Q1 Q2].
      apply scan_second_result in S as [_ [k' [z [Hk [Ea [Ez [Hfit [Z1 Z2]]]]]]]].
      destruct (place_at_valid _ _ k' N3 N4 V3 V4) as [Ep _]. rewrite Ep in Ea, Hfit. cbn [fst] in Ea, Hfit.
      intros H; inversion H; subst; cbn.
      eexists; split; [reflexivity|]. rewrite first_of_mk, second_of_mk. cbn [fst snd].
      assert (is1 <= cs') by (destruct S3 as [-> | ->]; [destruct dense; lia | lia]).
      repeat split; try lia; try (destruct dense; lia); try (split_ifs; lia).
  Qed.

  Lemma phase14_inv rem : forall st st',
    (forall i it, In (i, it) rem -> rem_ok colflow is1 is2 it /\ snd_within it) ->
    if1 <= st_cf st -> is1 <= st_cs st ->
    phase14 colflow dense is1 is2 if1 rem st = Ok st' ->
    if1 <= st_cf st' /\ is1 <= st_cs st' /\ (dense = false -> st_cf st <= st_cf st') /\
    exists new, st_log st' = new ++ st_log st /\ map fst new = rev (map fst rem) /\
      forall p, In p new -> if1 <= fst (first_of colflow (snd p)) /\ is1 <= fst (second_of colflow (snd p)) /\
                           fst (second_of colflow (snd p)) + snd (second_of colflow (snd p)) <= is2.
  Proof.
    induction rem as [|[i it] r IH]; intros st st' Hr Hcf Hcs; cbn [phase14].
    { intros H; inversion H; subst. split; [lia|]. split; [lia|]. split; [intros; lia|].
      exists []. split; [reflexivity|]. split; [reflexivity | intros ? []]. }
    destruct (step14 colflow dense is1 is2 if1 st (i, it)) as [st1|] eqn:S; try discriminate.
    destruct (Hr i it (or_introl eq_refl)) as [R1 R2].
    destruct (step14_inv _ _ _ _ R1 R2 Hcf Hcs S) as [a [E [A1 [A2 [A3 [A4 [A5 A6]]]]]]].
    intros H.
    assert (Hr' : forall j jt, In (j, jt) r -> rem_ok colflow is1 is2 jt /\ snd_within jt) by (intros j jt Hj; apply (Hr j jt); right; exact Hj).
    destruct (IH st1 st' Hr' A1 A2 H) as [B1 [B2 [B3 [new [E' [M P]]]]]].
    split; [lia|]. split; [lia|]. split; [intros D; specialize (A3 D); specialize (B3 D); lia|].
    exists (new ++ [(i, a)]). rewrite <- app_assoc. cbn [app]. rewrite <- E. split; [exact E'|]. split.
    - rewrite map_app, M. cbn. reflexivity.
    - intros p Hp. apply in_app_or in Hp as [Hp | [<- | []]]; [auto|]. cbn [snd]. tauto.
  Qed.

  (* sparse packing: cursor_first never decreases, and a fully automatic item is placed on cursor_first *)
  Lemma phase14_app r1 r2 st :
    phase14 colflow dense is1 is2 if1 (r1 ++ r2) st =
    match phase14 colflow dense is1 is2 if1 r1 st with
    | Ok st1 => phase14 colflow dense is1 is2 if1 r2 st1
    | OutOfFuel => OutOfFuel
    end.
  Proof.
    revert st. induction r1 as [|c r IH]; intros st; cbn [app phase14]; [reflexivity|].
    destruct (step14 colflow dense is1 is2 if1 st c); auto.
  Qed.
End Phase14Inv.

(* ---------------------------------------------------------------------------------- more on the phases *)

Lemma phase11_only_def its : forall l i,
  is_placed i (phase11 its l) = true -> is_placed i l = true \/ exists it, In (i, it) its /\ definite_item it = true.
Proof.
  induction its as [|[j jt] r IH]; intros l i; cbn [phase11]; [auto|].
  destruct (get_placement (col_s jt) (col_e jt)) as [[x w]|] eqn:E1;
    [destruct (get_placement (row_s jt) (row_e jt)) as [[y h]|] eqn:E2|]; intros H; apply IH in H.
  - destruct H as [H | [it [H1 H2]]]; [|right; exists it; split; [right|]; assumption].
    rewrite is_placed_cons in H. apply orb_true_iff in H as [H | H]; [|auto].
    apply Nat.eqb_eq in H. subst. right. exists jt. split; [left; reflexivity|]. unfold definite_item. rewrite E1, E2. reflexivity.
  - destruct H as [H | [it [H1 H2]]]; [auto | right; exists it; split; [right|]; assumption].
  - destruct H as [H | [it [H1 H2]]]; [auto | right; exists it; split; [right|]; assumption].
Qed.

Lemma phase12_only_first colflow dense ch : forall l l' i,
  phase12 colflow dense ch l = Some l' -> is_placed i l' = true ->
  is_placed i l = true \/ exists it p, In (i, it) ch /\ get_placement (fst_s colflow it) (fst_e colflow it) = Some p.
Proof.
  induction ch as [|[j jt] r IH]; intros l l' i; cbn [phase12].
  { intros H; inversion H; subst; auto. }
  destruct (is_placed j l) eqn:P.
  { intros H Q. destruct (IH _ _ _ H Q) as [A | [it [p [A B]]]]; [auto | right; exists it, p; split; [right|]; assumption]. }
  destruct (get_placement (fst_s colflow jt) (fst_e colflow jt)) as [fp|] eqn:E1.
  2:{ intros H Q. destruct (IH _ _ _ H Q) as [A | [it [p [A B]]]]; [auto | right; exists it, p; split; [right|]; assumption]. }
  destruct (second_placement colflow dense fp _ _ (areas l)) as [sp|]; [|discriminate].
  intros H Q. destruct (IH _ _ _ H Q) as [A | [it [p [A B]]]]; [|right; exists it, p; split; [right|]; assumption].
  rewrite is_placed_cons in A. apply orb_true_iff in A as [A | A]; [|auto].
  apply Nat.eqb_eq in A. subst. right. exists jt, fp. split; [left; reflexivity | exact E1].
Qed.

Lemma phase132_filter colflow ch l : forall b,
  snd (phase132 colflow ch l b) =
  filter (fun p => match lookup_area (fst p) l with None => true | Some _ => false end) ch.
Proof.
  induction ch as [|[i it] r IH]; intros b; cbn [phase132 filter fst]; [reflexivity|].
  destruct (lookup_area i l) as [a|].
  - destruct (second_of colflow a). apply IH.
  - match goal with |- context[phase132 colflow r l ?bb] => specialize (IH bb); destruct (phase132 colflow r l bb) end.
    cbn [snd] in *. rewrite IH. reflexivity.
Qed.

Lemma ins_child_fst p l : forall x, In x (map fst (ins_child p l)) <-> x = fst p \/ In x (map fst l).
Proof.
  intros x. rewrite !in_map_iff. split.
  - intros [q [<- H]]. apply ins_child_in in H as [-> | H]; [auto | right; exists q; auto].
  - intros [-> | [q [<- H]]]; [exists p | exists q]; split; auto; apply ins_child_in; auto.
Qed.
Lemma ins_child_nodup p l : ~ In (fst p) (map fst l) -> NoDup (map fst l) -> NoDup (map fst (ins_child p l)).
Proof.
  induction l as [|q r IH]; cbn; intros H1 H2; [constructor; [tauto | constructor]|].
  destruct (order (snd p) <=? order (snd q)); cbn.
  - constructor; [cbn in H1; exact H1 | exact H2].
  - inversion H2; subst. constructor.
    + rewrite ins_child_fst. intros [E | E]; [apply H1; left; auto | auto].
    + apply IH; [intros E; apply H1; right; exact E | assumption].
Qed.
Lemma sort_children_nodup l : NoDup (map fst l) -> NoDup (map fst (sort_children l)).
Proof.
  unfold sort_children. induction l as [|p r IH]; cbn [fold_right]; [auto|]. intros H. cbn [map] in H.
  inversion H; subst. apply ins_child_nodup; [|apply IH; assumption].
  intros E. apply H2. apply in_map_iff in E as [q [E1 E2]]. apply (sort_children_in q r) in E2.
  apply in_map_iff. exists q; auto.
Qed.
Lemma index_from_nodup {A} (l : list A) k : NoDup (map fst (index_from k l)).
Proof.
  revert k. induction l as [|a r IH]; intros k; cbn; constructor; [|apply IH].
  intros E. apply in_map_iff in E as [[j b] [E1 E2]]. cbn in E1. subst. apply index_from_in in E2. lia.
Qed.
Lemma nodup_fst_unique {A} (l : list (nat * A)) i a b : NoDup (map fst l) -> In (i, a) l -> In (i, b) l -> a = b.
Proof.
  induction l as [|[j c] r IH]; cbn; [tauto|]. intros H. inversion H as [|? ? Hn Hd]; subst.
  intros [E1 | H1] [E2 | H2].
  - congruence.
  - inversion E1; subst. exfalso. apply Hn. apply in_map_iff. exists (i, b); auto.
  - inversion E2; subst. exfalso. apply Hn. apply in_map_iff. exists (i, a); auto.
  - auto.
Qed.

Lemma lookup_app_not_in i new l : ~ In i (map fst new) -> lookup_area i (new ++ l) = lookup_area i l.
Proof.
  induction new as [|[j a] r IH]; cbn; [auto|]. intros H. destruct (Nat.eqb j i) eqn:E.
  - apply Nat.eqb_eq in E. subst. tauto.
  - apply IH. tauto.
Qed.

Lemma in_lookup i a l : NoDup (map fst l) -> In (i, a) l -> lookup_area i l = Some a.
Proof.
  induction l as [|[j b] r IH]; cbn; [tauto|]. intros H. inversion H; subst. intros [E | Hin].
  - inversion E; subst. rewrite Nat.eqb_refl. reflexivity.
  - destruct (Nat.eqb j i) eqn:E; [|auto]. apply Nat.eqb_eq in E. subst. exfalso. apply H2.
    apply in_map_iff. exists (i, a); auto.
Qed.
Lemma is_placed_in i l : is_placed i l = true <-> In i (map fst l).
Proof.
  unfold is_placed. rewrite existsb_exists, in_map_iff. split.
  - intros [p [H E]]. apply Nat.eqb_eq in E. exists p; auto.
  - intros [p [E H]]. exists p. split; [auto | apply Nat.eqb_eq; auto].
Qed.

Lemma phase11_nodup its : forall l,
  NoDup (map fst its) -> (forall i, In i (map fst its) -> is_placed i l = false) -> NoDup (map fst l) ->
  NoDup (map fst (phase11 its l)).
Proof.
  induction its as [|[i it] r IH]; intros l H1 H2 H3; cbn [phase11]; [exact H3|].
  cbn in H1. inversion H1; subst.
  destruct (get_placement (col_s it) (col_e it)) as [[x w]|]; [destruct (get_placement (row_s it) (row_e it)) as [[y h]|]|];
    apply IH; auto; try (intros j Hj; apply H2; right; exact Hj).
  - intros j Hj. rewrite is_placed_cons. rewrite (H2 j (or_intror Hj)).
    destruct (Nat.eqb i j) eqn:E; [|reflexivity]. apply Nat.eqb_eq in E. subst. contradiction.
  - cbn. constructor; [|exact H3]. intros E. apply is_placed_in in E. rewrite (H2 i (or_introl eq_refl)) in E. discriminate.
Qed.

Lemma phase12_nodup colflow dense ch : forall l l',
  NoDup (map fst l) -> phase12 colflow dense ch l = Some l' -> NoDup (map fst l').
Proof.
  induction ch as [|[i it] r IH]; intros l l' H; cbn [phase12]; [intros E; inversion E; subst; exact H|].
  destruct (is_placed i l) eqn:P; [apply IH; exact H|].
  destruct (get_placement (fst_s colflow it) (fst_e colflow it)) as [fp|]; [|apply IH; exact H].
  destruct (second_placement colflow dense fp _ _ (areas l)) as [sp|]; [|discriminate].
  apply IH. cbn. constructor; [|exact H]. intros E. apply is_placed_in in E. congruence.
Qed.

Definition fully_auto (it : item) : Prop :=
  get_placement (col_s it) (col_e it) = None /\ get_placement (row_s it) (row_e it) = None.

Definition valid_items (items : list item) : Prop := forall it, In it items -> item_valid it = true.

(* ------------------------------------------------------------------------------ the whole of step 1 *)

Definition bounds_of (colflow : bool) (if1 if2 is1 is2 : Z) : Z * Z * Z * Z :=
  if colflow then (if1, if2, is1, is2) else (is1, is2, if1, if2).

Lemma grid_place_setup tc tr colflow dense items : valid_items items ->
  let doc := index_from 0 items in
  let children := sort_children doc in
  exists l1 l2 is1 is2 if1 if2 rem,
    l1 = phase11 doc [] /\
    (forall p, In p l1 -> area_pos (snd p) /\ exists it, In (fst p, it) doc /\ definite_item it = true) /\
    phase12 colflow dense children l1 = Some l2 /\ chain l1 l2 /\ NoDup (map fst l2) /\
    rem = filter (fun p => match lookup_area (fst p) l2 with None => true | Some _ => false end) children /\
    (forall i it, In (i, it) rem -> rem_ok colflow is1 is2 it /\ snd_within colflow is1 is2 it) /\
    (forall p, In p l2 -> if1 <= fst (first_of colflow (snd p)) /\ is1 <= fst (second_of colflow (snd p)) /\
                          fst (second_of colflow (snd p)) + snd (second_of colflow (snd p)) <= is2 /\
                          first_end colflow (snd p) <= if2) /\
    (forall i it, In (i, it) children -> fully_auto it -> In (i, it) rem) /\
    (forall i it, In (i, it) children -> is_placed i l2 = true \/ In (i, it) rem) /\
    grid_place_log tc tr colflow dense items =
      match phase14 colflow dense is1 is2 if1 rem (mkState l2 if1 is1 if2) with
      | Ok st => Ok (st_log st, bounds_of colflow if1 (Z.max (st_if2 st) (if1 + 1)) is1 (Z.max is2 (is1 + 1)))
      | OutOfFuel => OutOfFuel
      end.
Proof.
  intros Hval doc children.
  assert (Hdoc : forall i it, In (i, it) doc -> item_valid it = true).
  { intros i it H. apply index_from_in in H as [_ H]. apply Hval. eapply nth_error_In; eauto. }
  assert (Hch : forall i it, In (i, it) children -> In (i, it) doc) by (intros; apply sort_children_in; auto).
  assert (NDdoc : NoDup (map fst doc)) by apply index_from_nodup.
  assert (NDch : NoDup (map fst children)) by (apply sort_children_nodup; exact NDdoc).
  destruct (phase11_spec doc []) as [new [E11 [P1 P2]]]. rewrite app_nil_r in E11, P2.
  assert (Hv : forall i it, In (i, it) children -> item_valid it = true) by (intros; eapply Hdoc; eauto).
  assert (Hd : forall i it, In (i, it) children -> definite_item it = true -> is_placed i (phase11 doc []) = true).
  { intros i it H D. rewrite E11. eapply P2; eauto. }
  assert (Hpos1 : forall f, In f (areas (phase11 doc [])) -> area_pos f).
  { intros f H. rewrite E11 in H. unfold areas in H. apply in_map_iff in H as [p [<- H]]. apply P1, H. }
  assert (ND1 : NoDup (map fst (phase11 doc []))) by (apply phase11_nodup; auto; constructor).
  destruct (phase12 colflow dense children (phase11 doc [])) as [l2|] eqn:E12.
  2:{ exfalso. revert E12. apply phase12_fuel; auto. }
  destruct (phase12_spec colflow dense children _ _ Hv Hd Hpos1 E12) as [C12 Q12].
  pose proof (phase12_nodup colflow dense children _ _ ND1 E12) as ND2.
  unfold grid_place_log. fold doc. fold children. rewrite E12.
  set (s0 := if colflow then tr else tc).
  destruct (phase132 colflow children l2 (0, s0)) as [[is1 is2a] rem] eqn:E132.
  pose proof (phase132_filter colflow children l2 (0, s0)) as Frem. rewrite E132 in Frem. cbn [snd] in Frem.
  destruct (phase132_spec colflow children l2 _ _ _ E132) as [B1 [B2 [R1 [R2 [R3 R4]]]]]. cbn [fst snd] in *.
  destruct (phase133_spec colflow rem is1 is2a) as [B3 R5].
  set (is2 := phase133 colflow rem is1 is2a) in *.
  set (f0 := if colflow then tc else tr).
  destruct (first_bounds colflow (areas l2) (0, f0)) as [if1 if2] eqn:EFB.
  pose proof (first_bounds_spec colflow (areas l2) (0, f0)) as [FB1 [FB2 FB3]]. rewrite EFB in FB1, FB2, FB3. cbn [fst snd] in *.
  exists (phase11 doc []), l2, is1, is2, if1, if2, rem.
  split; [reflexivity|]. split; [rewrite E11; exact P1|]. split; [exact E12|]. split; [exact C12|].
  split; [exact ND2|]. split; [exact Frem|].
  assert (Hrem : forall i it, In (i, it) rem -> rem_ok colflow is1 is2 it /\ snd_within colflow is1 is2 it).
  { intros i it H. destruct (R1 i it H) as [Hin L]. split.
    - split; [eauto|]. split.
      + destruct (Q12 i it Hin) as [Q | Q]; [|exact Q]. apply is_placed_lookup in L. congruence.
      + intros N. rewrite <- (span133_auto colflow it (Hv i it Hin) N). eapply R5; eauto.
    - intros k z E. destruct (R4 i it k z H E). cbn [fst snd] in *. lia. }
  split; [exact Hrem|].
  assert (Hchild : forall i, is_placed i l2 = true -> exists it, In (i, it) children).
  { intros i Pl. destruct (phase12_only_first colflow dense children _ _ i E12 Pl) as [A | [it [p [A _]]]]; [|eauto].
    apply phase11_only_def in A as [A | [it [A _]]]; [discriminate | exists it; apply sort_children_in; exact A]. }
  split.
  { intros [i a] Hin. cbn [snd]. split; [apply FB3; unfold areas; apply in_map_iff; exists (i, a); auto|].
    assert (Pl : is_placed i l2 = true) by (apply is_placed_in, in_map_iff; exists (i, a); auto).
    destruct (Hchild i Pl) as [it Hc]. pose proof (in_lookup i a l2 ND2 Hin) as L.
    destruct (R3 i it a Hc L) as [W1 W2]. cbn [fst snd] in *.
    pose proof (first_bounds_end colflow (areas l2) (0, f0) a) as FE. rewrite EFB in FE. cbn [snd] in FE.
    repeat split; try lia. apply FE. unfold areas. apply in_map_iff. exists (i, a). auto. }
  split.
  { intros i it Hc [FA1 FA2]. rewrite Frem. apply filter_In. split; [exact Hc|]. cbn [fst].
    destruct (lookup_area i l2) as [a|] eqn:L; [|reflexivity]. exfalso.
    assert (Pl : is_placed i l2 = true) by (apply is_placed_lookup_some; eauto).
    destruct (phase12_only_first colflow dense children _ _ i E12 Pl) as [A | [it' [p [A B]]]].
    - apply phase11_only_def in A as [A | [it' [A D]]]; [discriminate|].
      rewrite (nodup_fst_unique doc i it' it NDdoc A (Hch i it Hc)) in D. unfold definite_item in D. rewrite FA1 in D. discriminate.
    - rewrite (nodup_fst_unique children i it' it NDch A Hc) in B. unfold fst_s, fst_e in B. destruct colflow; congruence. }
  split.
  { intros i it Hc. destruct (lookup_area i l2) as [a|] eqn:L.
    - left. apply is_placed_lookup_some. eauto.
    - right. apply R2; auto. }
  unfold bounds_of. destruct (phase14 colflow dense is1 is2 if1 rem _); destruct colflow; reflexivity.
Qed.

(* ========================================================================================== theorems *)

(* termination of every count() / while loop of step 1 *)
Theorem grid_place_fuel tc tr colflow dense items :
  valid_items items -> grid_place tc tr colflow dense items <> OutOfFuel.
Proof.
  intros Hval. destruct (grid_place_setup tc tr colflow dense items Hval)
    as [l1 [l2 [is1 [is2 [if1 [if2 [rem [_ [_ [_ [_ [_ [_ [Hrem [_ [_ [_ E]]]]]]]]]]]]]]]]].
  unfold grid_place. rewrite E.
  destruct (phase14 colflow dense is1 is2 if1 rem _) eqn:P; try discriminate.
  exfalso. revert P. apply phase14_fuel. intros i it H. apply (Hrem i it H).
Qed.

(* Hang is only reported for a loop that really never exits (and only in sparse mode, for an item whose
   first axis is `span n` while its second axis is given by a line) : see stale_search_diverges *)

Lemma nth_error_map_seq {A} (f : nat -> A) n : forall s i, (i < n)%nat ->
  nth_error (map f (seq s n)) i = Some (f (s + i)%nat).
Proof.
  induction n as [|n IH]; intros s i H; [lia|]. destruct i as [|i]; cbn.
  - f_equal. f_equal. lia.
  - rewrite IH by lia. f_equal. f_equal. lia.
Qed.

Lemma grid_place_lookup tc tr colflow dense items pl b :
  grid_place tc tr colflow dense items = Ok (pl, b) ->
  exists l, grid_place_log tc tr colflow dense items = Ok (l, b) /\ length pl = length items /\
            forall i o, nth_error pl i = Some o -> (i < length items)%nat /\ o = lookup_area i l.
Proof.
  unfold grid_place. destruct (grid_place_log tc tr colflow dense items) as [[l b']|]; try discriminate.
  intros H. inversion H; subst. exists l. split; [reflexivity|]. split; [rewrite map_length, seq_length; reflexivity|].
  intros i o Hn. assert (Hi : (i < length items)%nat).
  { assert (X : nth_error (map (fun i => lookup_area i l) (seq 0 (length items))) i <> None) by congruence.
    apply nth_error_Some in X. rewrite map_length, seq_length in X. exact X. }
  split; [exact Hi|]. rewrite nth_error_map_seq in Hn by exact Hi. inversion Hn. reflexivity.
Qed.

Lemma chain_pairwise base l : chain base l -> forall i a j b, In (i, a) l -> In (j, b) l -> i <> j ->
  (In (i, a) base /\ In (j, b) base) \/ area_meets a b = false.
Proof.
  induction 1 as [|k c l C IH P M]; intros i a j b Hi Hj N; [auto|].
  assert (D : forall q, In q l -> area_meets c (snd q) = false).
  { intros q Hq. unfold intersect_with_children in M. destruct (area_meets c (snd q)) eqn:E; [|reflexivity].
    assert (existsb (area_meets c) (areas l) = true) by (apply existsb_exists; exists (snd q); split; [apply in_map; exact Hq | exact E]).
    congruence. }
  destruct Hi as [Ei | Hi], Hj as [Ej | Hj].
  - inversion Ei; inversion Ej; subst. contradiction.
  - inversion Ei; subst. right. apply (D (j, b) Hj).
  - inversion Ej; subst. right. rewrite area_meets_sym. apply (D (i, a) Hi).
  - apply IH; auto.
Qed.

Lemma doc_nth (items : list item) i (it : item) : In (i, it) (index_from 0 items) <-> nth_error items i = Some it.
Proof. rewrite (index_from_in items 0%nat i it), Nat.sub_0_r. split; [tauto | split; [lia | assumption]]. Qed.

(* auto-placed items never overlap anything: two different items share a cell only if both are placed by their
   line numbers on both axes (css-grid lets those overlap) *)
Theorem grid_no_overlap tc tr colflow dense items pl b :
  valid_items items -> grid_place tc tr colflow dense items = Ok (pl, b) ->
  forall i j iti itj ai aj, i <> j ->
    nth_error items i = Some iti -> nth_error items j = Some itj ->
    nth_error pl i = Some (Some ai) -> nth_error pl j = Some (Some aj) ->
    definite_item iti && definite_item itj = false ->
    forall cx cy, in_area ai cx cy -> in_area aj cx cy -> False.
Proof.
  intros Hval Hok i j iti itj ai aj N Ii Ij Pi Pj D cx cy Ci Cj.
  destruct (grid_place_lookup _ _ _ _ _ _ _ Hok) as [l [El [_ Hl]]].
  destruct (grid_place_setup tc tr colflow dense items Hval)
    as [l1 [l2 [is1 [is2 [if1 [if2 [rem [E1 [P1 [_ [C12 [_ [_ [_ [_ [_ [_ E]]]]]]]]]]]]]]]]].
  rewrite E in El. destruct (phase14 colflow dense is1 is2 if1 rem _) as [st|] eqn:P14; try discriminate.
  inversion El; subst l. destruct (phase14_chain _ _ _ _ _ _ _ _ P14) as [C14 _]. cbn [st_log] in C14.
  pose proof (chain_trans _ _ _ C12 C14) as C.
  destruct (Hl i _ Pi) as [_ Li]. destruct (Hl j _ Pj) as [_ Lj]. symmetry in Li, Lj.
  apply lookup_in in Li, Lj.
  destruct (chain_pairwise _ _ C i ai j aj Li Lj N) as [[Bi Bj] | M].
  - destruct (P1 _ Bi) as [_ [it1 [A1 D1]]]. destruct (P1 _ Bj) as [_ [it2 [A2 D2]]]. cbn [fst] in *.
    apply doc_nth in A1, A2. assert (it1 = iti) by congruence. assert (it2 = itj) by congruence. subst.
    rewrite D1, D2 in D. discriminate.
  - exact (area_meets_false_disjoint _ _ cx cy M Ci Cj).
Qed.

(* every item gets an area, with at least one track on each axis *)
Theorem grid_all_placed tc tr colflow dense items pl b :
  valid_items items -> grid_place tc tr colflow dense items = Ok (pl, b) ->
  length pl = length items /\
  forall i, (i < length items)%nat -> exists x y w h, nth_error pl i = Some (Some (x, y, w, h)) /\ 1 <= w /\ 1 <= h.
Proof.
  intros Hval Hok. destruct (grid_place_lookup _ _ _ _ _ _ _ Hok) as [l [El [Hlen Hl]]]. split; [exact Hlen|].
  destruct (grid_place_setup tc tr colflow dense items Hval)
    as [l1 [l2 [is1 [is2 [if1 [if2 [rem [E1 [P1 [_ [C12 [_ [_ [_ [_ [_ [Hall E]]]]]]]]]]]]]]]]].
  rewrite E in El. destruct (phase14 colflow dense is1 is2 if1 rem _) as [st|] eqn:P14; try discriminate.
  inversion El; subst l. destruct (phase14_chain _ _ _ _ _ _ _ _ P14) as [C14 Pl14]. cbn [st_log] in C14.
  pose proof (chain_trans _ _ _ C12 C14) as C.
  intros i Hi. destruct (nth_error items i) as [it|] eqn:Ei; [|apply nth_error_None in Ei; lia].
  assert (Hc : In (i, it) (sort_children (index_from 0 items))) by (apply sort_children_in, doc_nth; exact Ei).
  assert (Pl : is_placed i (st_log st) = true).
  { destruct (Hall i it Hc) as [A | A]; [exact (chain_placed _ _ i C14 A) | exact (Pl14 i it A)]. }
  apply is_placed_lookup_some in Pl as [a La].
  assert (Hn : nth_error pl i = Some (Some a)).
  { destruct (nth_error pl i) as [o|] eqn:En; [|apply nth_error_None in En; lia]. destruct (Hl i o En) as [_ ->]. rewrite La. reflexivity. }
  assert (Pa : area_pos a).
  { apply (chain_pos _ _ C).
    - intros f Hf. apply in_map_iff in Hf as [p [<- Hp]]. apply P1, Hp.
    - apply lookup_in in La. apply in_map_iff. exists (i, a). auto. }
  destruct a as [[[x y] w] h]. exists x, y, w, h. split; [exact Hn | exact Pa].
Qed.

(* every area lies inside the second-axis bounds of the implicit grid computed by 1.3, and not before the
   first-axis start computed by 1.4 *)
Theorem grid_inside_implicit_bounds tc tr colflow dense items pl x1 x2 y1 y2 :
  valid_items items -> grid_place tc tr colflow dense items = Ok (pl, (x1, x2, y1, y2)) ->
  forall i x y w h, nth_error pl i = Some (Some (x, y, w, h)) ->
    if colflow then x1 <= x /\ y1 <= y /\ y + h <= y2 else y1 <= y /\ x1 <= x /\ x + w <= x2.
Proof.
  intros Hval Hok i x y w h Pi.
  destruct (grid_place_lookup _ _ _ _ _ _ _ Hok) as [l [El [_ Hl]]].
  destruct (grid_place_setup tc tr colflow dense items Hval)
    as [l1 [l2 [is1 [is2 [if1 [if2 [rem [E1 [P1 [_ [C12 [_ [_ [Hrem [B2 [_ [_ E]]]]]]]]]]]]]]]]].
  rewrite E in El. destruct (phase14 colflow dense is1 is2 if1 rem _) as [st|] eqn:P14; try discriminate.
  inversion El as [[El1 El2]]. clear El. subst l.
  pose proof (phase14_inv colflow dense is1 is2 if1 rem (mkState l2 if1 is1 if2) st Hrem) as X.
  cbn [st_cf st_cs] in X. specialize (X ltac:(lia) ltac:(lia) P14).
  destruct X as [_ [_ [_ [new [En [_ Bn]]]]]]. cbn [st_log] in En.
  destruct (Hl i _ Pi) as [_ Li]. symmetry in Li. apply lookup_in in Li. rewrite En in Li.
  assert (B : if1 <= fst (first_of colflow (x, y, w, h)) /\ is1 <= fst (second_of colflow (x, y, w, h)) /\
              fst (second_of colflow (x, y, w, h)) + snd (second_of colflow (x, y, w, h)) <= is2).
  { apply in_app_or in Li as [Li | Li]; [apply (Bn _ Li) | destruct (B2 _ Li) as [Q1 [Q2 [Q3 _]]]; cbn [snd] in *; auto]. }
  unfold bounds_of, first_of, second_of in *. destruct colflow; inversion El2; subst; cbn in B; lia.
Qed.

(* ... and, since implicit_first_2 follows every placed area, inside the implicit grid on both axes *)
Theorem grid_inside_implicit_grid tc tr colflow dense items pl x1 x2 y1 y2 :
  valid_items items -> grid_place tc tr colflow dense items = Ok (pl, (x1, x2, y1, y2)) ->
  forall i x y w h, nth_error pl i = Some (Some (x, y, w, h)) ->
    x1 <= x /\ x + w <= x2 /\ y1 <= y /\ y + h <= y2.
Proof.
  intros Hval Hok i x y w h Pi.
  pose proof (grid_inside_implicit_bounds _ _ _ _ _ _ _ _ _ _ Hval Hok i x y w h Pi) as B0.
  destruct (grid_place_lookup _ _ _ _ _ _ _ Hok) as [l [El [_ Hl]]].
  destruct (grid_place_setup tc tr colflow dense items Hval)
    as [l1 [l2 [is1 [is2 [if1 [if2 [rem [E1 [P1 [_ [C12 [_ [_ [Hrem [B2 [_ [_ E]]]]]]]]]]]]]]]]].
  rewrite E in El. destruct (phase14 colflow dense is1 is2 if1 rem _) as [st|] eqn:P14; try discriminate.
  inversion El as [[El1 El2]]. clear El. subst l.
  destruct (phase14_end colflow dense is1 is2 if1 rem _ _ P14) as [_ Hend].
  { cbn [st_log st_if2]. intros p Hp. destruct (B2 p Hp) as [_ [_ [_ Q]]]. exact Q. }
  destruct (Hl i _ Pi) as [_ Li]. symmetry in Li. apply lookup_in in Li.
  specialize (Hend _ Li). unfold first_end, first_of in Hend. cbn [snd] in Hend.
  unfold bounds_of in El2. destruct colflow; inversion El2; subst; cbn in Hend; lia.
Qed.

Lemma phase14_split colflow dense is1 is2 if1 r1 c r2 st st' :
  phase14 colflow dense is1 is2 if1 (r1 ++ c :: r2) st = Ok st' ->
  exists s1 s2, phase14 colflow dense is1 is2 if1 r1 st = Ok s1 /\ step14 colflow dense is1 is2 if1 s1 c = Ok s2 /\
                phase14 colflow dense is1 is2 if1 r2 s2 = Ok st'.
Proof.
  rewrite phase14_app. destruct (phase14 colflow dense is1 is2 if1 r1 st) as [s1|] eqn:E1; try discriminate.
  cbn [phase14]. destruct (step14 colflow dense is1 is2 if1 s1 c) as [s2|] eqn:E2; try discriminate.
  intros H. exists s1, s2. repeat split; auto.
Qed.

Lemma filter_split {A} (f : A -> bool) l1 x l2 y l3 :
  f x = true -> f y = true ->
  filter f (l1 ++ x :: l2 ++ y :: l3) = filter f l1 ++ x :: filter f l2 ++ y :: filter f l3.
Proof. intros Hx Hy. rewrite filter_app. cbn. rewrite Hx, filter_app. cbn. rewrite Hy. reflexivity. Qed.

Lemma nodup_app_r {A} (l1 l2 : list A) : NoDup (l1 ++ l2) -> NoDup l2.
Proof. induction l1 as [|a r IH]; cbn; [auto|]. intros H. inversion H; subst. auto. Qed.

Lemma nodup_mid {A} (l1 : list A) x l2 y l3 :
  NoDup (l1 ++ x :: l2 ++ y :: l3) -> ~ In x (l2 ++ y :: l3) /\ ~ In y l3.
Proof.
  intros H. split.
  - apply NoDup_remove_2 in H. intros X. apply H. apply in_or_app. right. exact X.
  - apply nodup_app_r in H. inversion H as [|? ? _ H']; subst. apply NoDup_remove_2 in H'.
    intros X. apply H'. apply in_or_app. right. exact X.
Qed.

(* sparse packing: among the fully automatic items, taken in order-modified document order, the first-axis
   (row for grid-auto-flow: row) position never decreases *)
Theorem grid_row_major_order tc tr colflow items l b :
  valid_items items -> grid_place_log tc tr colflow false items = Ok (l, b) ->
  forall ch1 i it ch2 j jt ch3,
    sort_children (index_from 0 items) = ch1 ++ (i, it) :: ch2 ++ (j, jt) :: ch3 ->
    fully_auto it -> fully_auto jt ->
    forall a c, lookup_area i l = Some a -> lookup_area j l = Some c ->
    fst (first_of colflow a) <= fst (first_of colflow c).
Proof.
  intros Hval El ch1 i it ch2 j jt ch3 Ech Fi Fj a c La Lc.
  destruct (grid_place_setup tc tr colflow false items Hval)
    as [l1 [l2 [is1 [is2 [if1 [if2 [rem [E1 [P1 [_ [C12 [ND2 [Frem [Hrem [B2 [Hfa [_ E]]]]]]]]]]]]]]]]].
  rewrite E in El. destruct (phase14 colflow false is1 is2 if1 rem _) as [st|] eqn:P14; try discriminate.
  inversion El; subst l b. clear El.
  set (P := fun p : nat * item => match lookup_area (fst p) l2 with None => true | Some _ => false end) in *.
  assert (Ii : In (i, it) rem) by (apply Hfa; [rewrite Ech; apply in_or_app; right; left; reflexivity | exact Fi]).
  assert (Ij : In (j, jt) rem).
  { apply Hfa; [rewrite Ech; apply in_or_app; right; right; apply in_or_app; right; left; reflexivity | exact Fj]. }
  assert (Pi : P (i, it) = true) by (rewrite Frem in Ii; apply filter_In in Ii; tauto).
  assert (Pj : P (j, jt) = true) by (rewrite Frem in Ij; apply filter_In in Ij; tauto).
  rewrite Ech, (filter_split P _ _ _ _ _ Pi Pj) in Frem.
  set (r1 := filter P ch1) in *. set (r2 := filter P ch2) in *. set (r3 := filter P ch3) in *.
  assert (ND : NoDup (map fst rem)).
  { assert (NDc : NoDup (map fst (sort_children (index_from 0 items)))) by (apply sort_children_nodup, index_from_nodup).
    rewrite Ech in NDc. subst rem. clear - NDc Pi Pj.
    assert (G : forall (l : list (nat * item)), NoDup (map fst l) -> NoDup (map fst (filter P l))).
    { induction l as [|p r IH]; cbn; [auto|]. intros H. inversion H; subst. destruct (P p); cbn; [|auto].
      constructor; [|auto]. intros X. apply H2. apply in_map_iff in X as [q [X1 X2]]. apply filter_In in X2 as [X2 _].
      apply in_map_iff. exists q; auto. }
    apply G in NDc. rewrite (filter_split P _ _ _ _ _ Pi Pj) in NDc. exact NDc. }
  rewrite Frem in P14, ND, Hrem.
  destruct (phase14_split _ _ _ _ _ _ _ _ _ _ P14) as [s1 [s2 [Q1 [Q2 Q3]]]].
  destruct (phase14_split _ _ _ _ _ _ _ _ _ _ Q3) as [s3 [s4 [Q4 [Q5 Q6]]]].
  assert (H1 : forall k kt, In (k, kt) r1 -> rem_ok colflow is1 is2 kt /\ snd_within colflow is1 is2 kt).
  { intros k kt H. apply (Hrem k kt). apply in_or_app. left. exact H. }
  assert (H2 : forall k kt, In (k, kt) r2 -> rem_ok colflow is1 is2 kt /\ snd_within colflow is1 is2 kt).
  { intros k kt H. apply (Hrem k kt). apply in_or_app. right. right. apply in_or_app. left. exact H. }
  assert (H3 : forall k kt, In (k, kt) r3 -> rem_ok colflow is1 is2 kt /\ snd_within colflow is1 is2 kt).
  { intros k kt H. apply (Hrem k kt). apply in_or_app. right. right. apply in_or_app. right. right. exact H. }
  destruct (Hrem i it) as [Ri Wi]; [apply in_or_app; right; left; reflexivity|].
  destruct (Hrem j jt) as [Rj Wj]; [apply in_or_app; right; right; apply in_or_app; right; left; reflexivity|].
  pose proof (phase14_inv colflow false is1 is2 if1 r1 (mkState l2 if1 is1 if2) s1 H1) as X.
  cbn [st_cf st_cs] in X. specialize (X ltac:(lia) ltac:(lia) Q1).
  destruct X as [A1 [A2 [_ [n1 [L1 [M1 _]]]]]]. cbn [st_log] in L1.
  destruct (step14_inv colflow false is1 is2 if1 _ _ _ _ Ri Wi A1 A2 Q2) as [ai [L2 [A3 [A4 [_ [_ [_ A5]]]]]]].
  destruct (phase14_inv colflow false is1 is2 if1 r2 _ _ H2 A3 A4 Q4) as [A6 [A7 [A8 [n3 [L3 [M3 _]]]]]].
  destruct (step14_inv colflow false is1 is2 if1 _ _ _ _ Rj Wj A6 A7 Q5) as [aj [L4 [A9 [A10 [A11 [_ [_ A12]]]]]]].
  destruct (phase14_inv colflow false is1 is2 if1 r3 _ _ H3 A9 A10 Q6) as [_ [_ [_ [n5 [L5 [M5 _]]]]]].
  destruct Fi as [Fi1 Fi2]. destruct Fj as [Fj1 Fj2].
  assert (Si : get_placement (snd_s colflow it) (snd_e colflow it) = None) by (unfold snd_s, snd_e; destruct colflow; assumption).
  assert (Sj : get_placement (snd_s colflow jt) (snd_e colflow jt) = None) by (unfold snd_s, snd_e; destruct colflow; assumption).
  specialize (A5 Si eq_refl). specialize (A12 Sj eq_refl). specialize (A8 eq_refl). specialize (A11 eq_refl).
  (* the final log and the lookups *)
  rewrite map_app in ND. cbn [map] in ND. rewrite map_app in ND. cbn [map fst] in ND.
  assert (Lf : st_log st = n5 ++ (j, aj) :: n3 ++ (i, ai) :: n1 ++ l2).
  { rewrite L5, L4, L3, L2, L1. reflexivity. }
  destruct (nodup_mid _ _ _ _ _ ND) as [Hx Hy].
  assert (Nj : ~ In j (map fst n5)).
  { rewrite M5, <- in_rev. exact Hy. }
  assert (Ni : ~ In i (map fst (n5 ++ (j, aj) :: n3))).
  { rewrite map_app. cbn [map fst]. rewrite M5, M3. intros X. apply Hx.
    apply in_app_or in X as [X | [X | X]].
    - apply in_or_app. right. right. apply in_rev. exact X.
    - subst. apply in_or_app. right. left. reflexivity.
    - apply in_or_app. left. apply in_rev. exact X. }
  rewrite Lf in La, Lc.
  rewrite (lookup_app_not_in j n5 _ Nj) in Lc. cbn [lookup_area] in Lc. rewrite Nat.eqb_refl in Lc.
  replace (n5 ++ (j, aj) :: n3 ++ (i, ai) :: n1 ++ l2) with ((n5 ++ (j, aj) :: n3) ++ (i, ai) :: n1 ++ l2) in La
    by (rewrite <- app_assoc; reflexivity).
  rewrite (lookup_app_not_in i _ _ Ni) in La. cbn [lookup_area] in La. rewrite Nat.eqb_refl in La.
  inversion La; inversion Lc; subst. lia.
Qed.

(* ---- items placed by line numbers on both axes keep exactly those lines (phase 1.1 is never overwritten) *)
Lemma phase11_area its : forall l i a, In (i, a) (phase11 its l) ->
  In (i, a) l \/ exists it x w y h, In (i, it) its /\ get_placement (col_s it) (col_e it) = Some (x, w) /\
                                    get_placement (row_s it) (row_e it) = Some (y, h) /\ a = (x, y, w, h).
Proof.
  induction its as [|[j jt] r IH]; intros l i a; cbn [phase11]; [auto|].
  destruct (get_placement (col_s jt) (col_e jt)) as [[x w]|] eqn:E1;
    [destruct (get_placement (row_s jt) (row_e jt)) as [[y h]|] eqn:E2|]; intros H; apply IH in H.
  - destruct H as [[H | H] | [it [x' [w' [y' [h' [A B]]]]]]].
    + inversion H; subst. right. exists jt, x, w, y, h. repeat split; auto. left; reflexivity.
    + left; exact H.
    + right. exists it, x', w', y', h'. split; [right; exact A | exact B].
  - destruct H as [H | [it [x' [w' [y' [h' [A B]]]]]]]; [left; exact H|].
    right. exists it, x', w', y', h'. split; [right; exact A | exact B].
  - destruct H as [H | [it [x' [w' [y' [h' [A B]]]]]]]; [left; exact H|].
    right. exists it, x', w', y', h'. split; [right; exact A | exact B].
Qed.

Theorem grid_definite_honoured tc tr colflow dense items pl b :
  valid_items items -> grid_place tc tr colflow dense items = Ok (pl, b) ->
  forall i it x w y h, nth_error items i = Some it ->
    get_placement (col_s it) (col_e it) = Some (x, w) -> get_placement (row_s it) (row_e it) = Some (y, h) ->
    nth_error pl i = Some (Some (x, y, w, h)).
Proof.
  intros Hval Hok i it x w y h Ii Gc Gr.
  destruct (grid_place_lookup _ _ _ _ _ _ _ Hok) as [l [El [Hlen Hl]]].
  destruct (grid_place_setup tc tr colflow dense items Hval)
    as [l1 [l2 [is1 [is2 [if1 [if2 [rem [E1 [P1 [_ [C12 [ND2 [Frem [Hrem [B2 [_ [_ E]]]]]]]]]]]]]]]]].
  rewrite E in El. destruct (phase14 colflow dense is1 is2 if1 rem _) as [st|] eqn:P14; try discriminate.
  inversion El as [[El1 El2]]. clear El. subst l.
  pose proof (phase14_inv colflow dense is1 is2 if1 rem (mkState l2 if1 is1 if2) st Hrem) as X.
  cbn [st_cf st_cs] in X. specialize (X ltac:(lia) ltac:(lia) P14).
  destruct X as [_ [_ [_ [new [En [Mn _]]]]]]. cbn [st_log] in En.
  set (doc := index_from 0 items) in *.
  assert (Hdoc : In (i, it) doc) by (apply doc_nth; exact Ii).
  assert (D : definite_item it = true) by (unfold definite_item; rewrite Gc, Gr; reflexivity).
  destruct (phase11_spec doc []) as [new1 [E11 [_ P2]]].
  pose proof (P2 i it Hdoc D) as Pl1. rewrite <- E11, <- E1 in Pl1.
  apply is_placed_lookup_some in Pl1 as [a La]. apply lookup_in in La.
  assert (Ea : a = (x, y, w, h)).
  { rewrite E1 in La. apply phase11_area in La as [[] | [it' [x' [w' [y' [h' [A [B1 [B2' B3]]]]]]]]].
    rewrite (nodup_fst_unique doc i it' it (index_from_nodup items 0) A Hdoc) in B1, B2'. congruence. }
  subst a. destruct (chain_ext _ _ C12) as [n12 E12].
  assert (L2 : lookup_area i l2 = Some (x, y, w, h)).
  { apply in_lookup; [exact ND2|]. rewrite E12. apply in_or_app. right. exact La. }
  assert (Nn : ~ In i (map fst new)).
  { rewrite Mn, <- in_rev. intros Hin. apply in_map_iff in Hin as [[j jt] [Ej Hj]]. cbn in Ej. subst j.
    rewrite Frem in Hj. apply filter_In in Hj as [_ Hj]. cbn [fst] in Hj. rewrite L2 in Hj. discriminate. }
  assert (Hi : (i < length pl)%nat) by (rewrite Hlen; apply nth_error_Some; congruence).
  destruct (nth_error pl i) as [o|] eqn:En'; [|apply nth_error_None in En'; lia].
  destruct (Hl i o En') as [_ ->]. rewrite En, (lookup_app_not_in i new l2 Nn), L2. reflexivity.
Qed.

(* ---- css-grid 8.3: the placement computed from the grid-placement properties, negative integers counted from
   the end of the explicit grid (`from_end=True`), is the range of lines that css-grid defines *)
Theorem placement_is_css (explicit : Z) (s e : gline) : gline_valid s = true -> gline_valid e = true ->
  get_placement (resolve_line (explicit + 1) s) (resolve_line (explicit + 1) e) = css_range explicit s e.
Proof.
  intros Vs Ve. unfold resolve_line, css_range, css_line.
  destruct s as [|a|n], e as [|b|m]; cbn in Vs, Ve; try reflexivity;
    repeat match goal with |- context[if ?x <? 0 then GLine _ else GLine _] => destruct (x <? 0) eqn:? end;
    cbn [get_placement]; unfold pl_line_start, pl_line_end, norm, or1; split_ifs;
    try (apply f_equal; apply pair_equal_spec; split; lia); lia.
Qed.

(* ---- the same theorems for step 1 on the items of the style sheet (negative lines resolved first) *)
Lemma resolve_valid tc tr items : valid_items items -> valid_items (map (resolve_item tc tr) items).
Proof.
  intros H it Hin. apply in_map_iff in Hin as [it0 [<- Hin]]. specialize (H it0 Hin).
  unfold item_valid in *. rewrite !andb_true_iff in *. unfold resolve_item; cbn.
  destruct H as [[[A B] C] D]. repeat split;
    match goal with |- gline_valid (resolve_line _ ?g) = true => destruct g; cbn in *; split_ifs; auto end.
Qed.

Lemma resolve_definite tc tr it : definite_item (resolve_item tc tr it) = definite_item it.
Proof.
  unfold definite_item, resolve_item; cbn.
  destruct (col_s it), (col_e it), (row_s it), (row_e it); cbn;
    repeat match goal with |- context[if ?x <? 0 then _ else _] => destruct (x <? 0) end; reflexivity.
Qed.

Theorem layout_no_overlap tc tr colflow dense items pl b :
  valid_items items -> grid_layout_place tc tr colflow dense items = Ok (pl, b) ->
  forall i j iti itj ai aj, i <> j ->
    nth_error items i = Some iti -> nth_error items j = Some itj ->
    nth_error pl i = Some (Some ai) -> nth_error pl j = Some (Some aj) ->
    definite_item iti && definite_item itj = false ->
    forall cx cy, in_area ai cx cy -> in_area aj cx cy -> False.
Proof.
  intros Hval Hok i j iti itj ai aj N Ii Ij Pi Pj D.
  apply (grid_no_overlap tc tr colflow dense _ pl b (resolve_valid tc tr items Hval) Hok i j
           (resolve_item tc tr iti) (resolve_item tc tr itj) ai aj N); auto using map_nth_error.
  rewrite !resolve_definite. exact D.
Qed.

(* all items placed; every definite axis pair is the css-grid 8.3 range (negative integers from the end); areas
   are inside the implicit grid on the second axis and never before its first track: the coordinates counted from
   the first implicit track (what the track sizing and step 4 index the track lists with) are >= 0 *)
Theorem layout_placement tc tr colflow dense items pl x1 x2 y1 y2 :
  valid_items items -> grid_layout_place tc tr colflow dense items = Ok (pl, (x1, x2, y1, y2)) ->
  length pl = length items /\
  forall i it, nth_error items i = Some it ->
    exists x y w h, nth_error pl i = Some (Some (x, y, w, h)) /\ 1 <= w /\ 1 <= h /\
      0 <= x - x1 /\ 0 <= y - y1 /\ x + w <= x2 /\ y + h <= y2 /\
      (forall cx cw cy ch, css_range tc (col_s it) (col_e it) = Some (cx, cw) ->
                           css_range tr (row_s it) (row_e it) = Some (cy, ch) ->
                           (x, y, w, h) = (cx, cy, cw, ch)).
Proof.
  intros Hval Hok. pose proof (resolve_valid tc tr items Hval) as Hv'.
  destruct (grid_all_placed _ _ _ _ _ _ _ Hv' Hok) as [Hlen Hall]. rewrite map_length in Hlen, Hall.
  split; [exact Hlen|]. intros i it Ii.
  assert (Hi : (i < length items)%nat) by (apply nth_error_Some; congruence).
  destruct (Hall i Hi) as [x [y [w [h [Pi [Hw Hh]]]]]]. exists x, y, w, h.
  pose proof (grid_inside_implicit_grid _ _ _ _ _ _ _ _ _ _ Hv' Hok i x y w h Pi) as B.
  split; [exact Pi|]. split; [exact Hw|]. split; [exact Hh|].
  split; [lia|]. split; [lia|]. split; [lia|]. split; [lia|].
  intros cx cw cy ch Cc Cr.
  assert (V : item_valid it = true) by (apply Hval; eapply nth_error_In; eauto).
  apply item_valid_parts in V as [V1 [V2 [V3 V4]]].
  pose proof (grid_definite_honoured _ _ _ _ _ _ _ Hv' Hok i (resolve_item tc tr it) cx cw cy ch
                (map_nth_error _ _ _ Ii)) as G.
  cbn [resolve_item col_s col_e row_s row_e] in G.
  rewrite (placement_is_css tc _ _ V1 V2), (placement_is_css tr _ _ V3 V4) in G.
  specialize (G Cc Cr). rewrite Pi in G. inversion G. reflexivity.
Qed.

(* ================================================================================= examples, refutations *)
Definition it_ (cs ce rs re : gline) : item := mkItem cs ce rs re 0.
Definition auto_item : item := it_ GAuto GAuto GAuto GAuto.

(* the hypotheses of the theorems are satisfiable: a 3 x 2 grid, one item placed by lines (columns 2-4, row 1),
   three automatic items; row flow, sparse *)
Example grid_example_items : list item := [it_ (GLine 2) (GLine 4) (GLine 1) GAuto; auto_item; auto_item; auto_item].
Example grid_example_valid : valid_items grid_example_items.
Proof. intros it H. cbn in H. repeat (destruct H as [<- | H]; [reflexivity|]). destruct H. Qed.
Example grid_example_run :
  grid_place 3 2 false false grid_example_items =
  Ok ([Some (1, 0, 2, 1); Some (0, 0, 1, 1); Some (0, 1, 1, 1); Some (1, 1, 1, 1)], (0, 3, 0, 2)).
Proof. vm_compute. reflexivity. Qed.
Example grid_example_dense_column :
  grid_place 3 2 true true [it_ (GLine 2) (GLine 4) (GLine 1) GAuto; it_ (GSpan 2) GAuto GAuto GAuto; auto_item;
                            it_ GAuto GAuto (GLine 2) GAuto] =
  Ok ([Some (1, 0, 2, 1); Some (0, 1, 2, 1); Some (0, 0, 1, 1); Some (2, 1, 1, 1)], (0, 3, 0, 2)).
Proof. vm_compute. reflexivity. Qed.
Example intersect_example : intersect 2 3 4 1 = true /\ intersect 2 2 4 1 = false.
Proof. split; reflexivity. Qed.
Example grid_row_major_example :
  exists l b, grid_place_log 3 2 false false grid_example_items = Ok (l, b) /\
    sort_children (index_from 0 grid_example_items) =
      [(0%nat, it_ (GLine 2) (GLine 4) (GLine 1) GAuto)] ++ (1%nat, auto_item) :: [] ++ (2%nat, auto_item) :: [(3%nat, auto_item)] /\
    fully_auto auto_item /\ lookup_area 1 l = Some (0, 0, 1, 1) /\ lookup_area 2 l = Some (0, 1, 1, 1).
Proof. eexists. eexists. split; [vm_compute; reflexivity|]. repeat split; reflexivity. Qed.

(* F-g  sparse packing back-fills: the lexicographic (row, column) order of css-grid 8.5 "sparse" is NOT kept.
   4 columns; D at column 2 of row 1; E spans 2 columns and lands on columns 3-4; F, which follows E, is put
   on column 1 of the same row, BEFORE E (css-grid: the cursor has passed column 4, F goes to row 2) *)
Theorem grid_lexicographic_order_refuted :
  exists items pl b, valid_items items /\ grid_place 4 2 false false items = Ok (pl, b) /\
    exists it jt xa ya wa ha xb yb wb hb,
      nth_error items 1 = Some it /\ nth_error items 2 = Some jt /\ fully_auto it /\ fully_auto jt /\
      nth_error pl 1 = Some (Some (xa, ya, wa, ha)) /\ nth_error pl 2 = Some (Some (xb, yb, wb, hb)) /\
      ya = yb /\ xb < xa.
Proof.
  exists [it_ (GLine 2) GAuto (GLine 1) GAuto; it_ (GSpan 2) GAuto GAuto GAuto; auto_item]. eexists. eexists.
  split; [intros it H; cbn in H; repeat (destruct H as [<- | H]; [reflexivity|]); destruct H|].
  split; [vm_compute; reflexivity|].
  do 10 eexists. repeat split; try reflexivity; cbn; lia.
Qed.

(* fixed in /repo (F73): `grid-row: span 3` in a grid of 2 rows creates the third row track, sparse and dense *)
Example grid_span_creates_tracks :
  grid_place 3 2 false false [it_ GAuto GAuto (GSpan 3) GAuto] = Ok ([Some (0, 0, 1, 3)], (0, 3, 0, 3)) /\
  grid_place 3 2 false true [it_ GAuto GAuto (GSpan 3) GAuto] = Ok ([Some (0, 0, 1, 3)], (0, 3, 0, 3)).
Proof. split; vm_compute; reflexivity. Qed.

(* fixed in /repo (F244): css-grid 8.5 step 2, sparse packing.  An item locked to a row (column) is placed on the other
   axis right after the last track occupied in its rows (columns) - on the first line when they hold nothing - with
   the span its placement properties give *)
Lemma sparse_end_exact n track : 1 <= n ->
  forall fuel e, e <= track + n -> track + n - e < Z.of_nat fuel -> sparse_end fuel (GSpan n) track e = Some (track, n).
Proof.
  intros Hn. induction fuel as [|f IH]; intros e He Hb; [lia|]. cbn.
  assert (E : pl_line_end (GSpan n) (e + 1) = (e - n, n)).
  { unfold pl_line_end, norm, or1. split_ifs; f_equal; lia. }
  rewrite E. cbn [fst]. destruct (Z.leb_spec track (e - n)).
  - do 2 f_equal. lia.
  - apply IH; lia.
Qed.

Theorem grid_locked_sparse_position (colflow : bool) (fp : Z * Z) (ss se : gline) (ps : list area) :
  nonline ss = true -> nonline se = true -> gline_valid ss = true -> gline_valid se = true ->
  second_placement colflow false fp ss se ps = Some (occ_next (occupied colflow fp ps), auto_size ss se).
Proof.
  intros N1 N2 V1 V2. unfold second_placement. set (t := occ_next _).
  destruct ss as [|n|n]; [|discriminate|].
  - destruct se as [|m|m]; [|discriminate|]; cbn in V2; unfold pl_line_start, norm, or1, auto_size; split_ifs;
      do 2 f_equal; lia.
  - cbn in V1. unfold auto_size. apply sparse_end_exact; unfold sparse_fuel, get_span, or1; split_ifs; lia.
Qed.

(* when no placed area meets the rows (columns) of the item, that is the first line *)
Theorem grid_locked_sparse_empty (colflow : bool) (fp : Z * Z) (ss se : gline) (ps : list area) :
  nonline ss = true -> nonline se = true -> gline_valid ss = true -> gline_valid se = true ->
  (forall a, In a ps -> intersect (fst (first_of colflow a)) (snd (first_of colflow a)) (fst fp) (snd fp) = false) ->
  second_placement colflow false fp ss se ps = Some (0, auto_size ss se).
Proof.
  intros N1 N2 V1 V2 H. rewrite grid_locked_sparse_position by assumption.
  replace (occupied colflow fp ps) with (@nil (Z * Z)); [reflexivity|].
  unfold occupied. induction ps as [|a ps IH]; [reflexivity|]. cbn [filter].
  rewrite (H a (or_introl eq_refl)). apply IH. intros b Hb. apply H. right. exact Hb.
Qed.

(* the witness of F244: `grid-row: 1` alone in a 3 x 2 grid is in the first column (it was in the second) *)
Theorem grid_locked_item_first_cell :
  grid_place 3 2 false false [it_ GAuto GAuto (GLine 1) GAuto] = Ok ([Some (0, 0, 1, 1)], (0, 3, 0, 2)) /\
  grid_place 3 2 false false [it_ GAuto GAuto (GLine 2) GAuto] = Ok ([Some (0, 1, 1, 1)], (0, 3, 0, 2)) /\
  grid_place 3 2 false false [it_ (GSpan 2) GAuto (GLine 2) GAuto] = Ok ([Some (0, 1, 2, 1)], (0, 3, 0, 2)).
Proof. repeat split; vm_compute; reflexivity. Qed.

(* fixed in /repo (F70/F71): sparse mode, an item whose flow axis is `span n` and whose other axis is a line number
   computes its end line from cursor_first: it is placed, alone or after another item *)
Example grid_span_locked_first : grid_place 3 2 false false [it_ (GLine 1) GAuto (GSpan 2) GAuto] = Ok ([Some (0, 0, 1, 2)], (0, 3, 0, 2)).
Proof. vm_compute. reflexivity. Qed.
Example grid_span_locked_second :
  grid_place 3 2 false false [auto_item; it_ (GLine 1) GAuto (GSpan 2) GAuto] = Ok ([Some (0, 0, 1, 1); Some (0, 1, 1, 2)], (0, 3, 0, 3)).
Proof. vm_compute. reflexivity. Qed.

(* fixed in /repo (F68): `grid-column-start: -1` in a 3-column grid is line 4 (area x = 3), as css-grid 8.3 says *)
Example grid_negative_line_from_end :
  exists a, grid_layout_place 3 2 false false [it_ (GLine (-1)) GAuto (GLine 1) GAuto] = Ok ([Some a], (0, 4, 0, 2)) /\
            a = (3, 0, 1, 1) /\ css_range 3 (GLine (-1)) GAuto = Some (3, 1) /\
            spec_lines 3 2 (it_ (GLine (-1)) GAuto (GLine 1) GAuto) a = true.
Proof. eexists. split; [vm_compute; reflexivity|]. repeat split; reflexivity. Qed.

(* fixed in /repo (F69, F72): an area on implicit tracks before the explicit grid is drawn on the leading implicit
   track (shifted coordinates), for both flow axes *)
Example grid_leading_implicit_tracks :
  render_model (mkPcase [13; 17; 19] [23; 29] 41 43 false false 3 5 [it_ GAuto (GLine 1) (GLine 1) GAuto]) =
    ROk [Some (0, 0, 1, 1)] [Some (0, 0, 41, 23)] /\
  css_rect (mkPcase [13; 17; 19] [23; 29] 41 43 false false 3 5 []) (-1) 0 (-1, 0, 1, 1) = (0, 0, 41, 23) /\
  render_model (mkPcase [13; 17; 19] [23; 29] 41 43 false false 3 5 [it_ (GLine 1) GAuto GAuto (GLine 1)]) =
    ROk [Some (0, 0, 1, 1)] [Some (0, 0, 13, 43)] /\
  render_model (mkPcase [13; 17; 19] [23; 29] 41 43 true false 3 5 [it_ (GLine 3) GAuto (GLine (-5)) GAuto]) =
    ROk [Some (2, 0, 1, 1)] [Some (13 + 3 + 17 + 3, 0, 19, 43)].
Proof. repeat split; vm_compute; reflexivity. Qed.
