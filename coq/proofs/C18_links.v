(* C18 - links and anchors (model/C18Links.v): first anchor wins, no dangling internal link, external links
   kept, missing anchors dropped and logged. *)
From Coq Require Import ZArith List Bool Lia Arith.
Require Import WV.model.C18Links.
Import ListNotations.
Open Scope Z_scope.

Fixpoint box_ind2 (P : box -> Prop)
  (H : forall id a l t at_ ks, Forall P ks -> P (Box id a l t at_ ks)) (b : box) : P b :=
  match b with
  | Box id a l t at_ ks =>
      H id a l t at_ ks ((fix go (l : list box) : Forall P l :=
                            match l with [] => Forall_nil _ | k :: r => Forall_cons _ (box_ind2 P H k) (go r) end) ks)
  end.

Lemma mem_cons n x l : mem n (x :: l) = (n =? x) || mem n l.
Proof. reflexivity. Qed.
Lemma mem_app n a b : mem n (a ++ b) = mem n a || mem n b.
Proof. apply existsb_app. Qed.
Lemma mem_In n l : mem n l = true <-> In n l.
Proof.
  unfold mem. rewrite existsb_exists. split.
  - intros (x & Hx & E). apply Z.eqb_eq in E. now subst.
  - intros H. exists n. split; [exact H|apply Z.eqb_refl].
Qed.
Lemma occurs_app n a b : occurs n (a ++ b) = occurs n a || occurs n b.
Proof. unfold occurs. now rewrite map_app, mem_app. Qed.

Lemma assoc_app n a b : assoc n (a ++ b) = match assoc n a with Some p => Some p | None => assoc n b end.
Proof. induction a as [|[m p] a IH]; [reflexivity|]. cbn [app assoc]. destruct (n =? m); [reflexivity|exact IH]. Qed.

Lemma assoc_none n a : assoc n a = None <-> occurs n a = false.
Proof.
  unfold occurs. induction a as [|[m p] a IH]; [split; reflexivity|]. cbn [assoc map fst]. rewrite mem_cons.
  destruct (n =? m); cbn [orb]; [split; discriminate|exact IH].
Qed.

Lemma assoc_In n p a : assoc n a = Some p -> In (n, p) a.
Proof.
  induction a as [|[m q] a IH]; [discriminate|]. cbn [assoc]. destruct (Z.eqb_spec n m) as [->|_].
  - intros H; inversion H; subst. now left.
  - intros H. right. now apply IH.
Qed.

(* ---- gather_anchors ---- *)
Fixpoint add_anchors (a : list anchor) (l : list anchor) : list anchor :=
  match l with
  | [] => a
  | (n, id) :: r => add_anchors (if mem n (map fst a) then a else a ++ [(n, id)]) r
  end.

Lemma add_anchors_app : forall x y a, add_anchors a (x ++ y) = add_anchors (add_anchors a x) y.
Proof. induction x as [|[n id] x IH]; intros y a; [reflexivity|]. cbn [app add_anchors]. apply IH. Qed.

Lemma assoc_add : forall l a n,
  assoc n (add_anchors a l) = match assoc n a with Some p => Some p | None => assoc n l end.
Proof.
  induction l as [|[m id] l IH]; intros a n.
  - cbn. now destruct (assoc n a).
  - cbn [add_anchors assoc]. rewrite IH. destruct (mem m (map fst a)) eqn:Hm.
    + destruct (assoc n a) eqn:Ha; [reflexivity|]. destruct (Z.eqb_spec n m) as [->|_]; [|reflexivity].
      apply assoc_none in Ha. unfold occurs in Ha. congruence.
    + rewrite assoc_app. destruct (assoc n a); [reflexivity|]. cbn [assoc]. now destruct (n =? m).
Qed.

Lemma NoDup_app_snoc {X} (l : list X) x : NoDup l -> ~ In x l -> NoDup (l ++ [x]).
Proof.
  induction 1 as [|y l Hy Hl IH]; intros Hx; cbn [app].
  - constructor; [intros []|constructor].
  - constructor.
    + intros Hin. apply in_app_or in Hin. destruct Hin as [Hin|[<-|[]]]; [now apply Hy|]. apply Hx. now left.
    + apply IH. intros Hin. apply Hx. now right.
Qed.

Lemma nodup_add : forall l a, NoDup (map fst a) -> NoDup (map fst (add_anchors a l)).
Proof.
  induction l as [|[m id] l IH]; intros a Ha; [exact Ha|]. cbn [add_anchors]. apply IH.
  destruct (mem m (map fst a)) eqn:Hm; [exact Ha|].
  rewrite map_app. cbn [map fst]. apply NoDup_app_snoc; [exact Ha|].
  intros Hin. apply mem_In in Hin. unfold anchor in *. rewrite Hm in Hin. discriminate.
Qed.

Lemma incl_add : forall l a x, In x (add_anchors a l) -> In x a \/ In x l.
Proof.
  induction l as [|[m id] l IH]; intros a x Hx; [now left|]. cbn [add_anchors] in Hx.
  apply IH in Hx. destruct Hx as [Hx|Hx]; [|right; now right].
  destruct (mem m (map fst a)); [now left|]. apply in_app_or in Hx. destruct Hx as [Hx|[<-|[]]]; [now left|].
  right; now left.
Qed.

Lemma occs_eq id a l t at_ ks :
  occs (Box id a l t at_ ks) = (match a with Some n => [(n, id)] | None => [] end) ++ flat_map occs ks.
Proof. reflexivity. Qed.
Lemma hrefs_eq id a l t at_ ks :
  hrefs (Box id a l t at_ ks) =
  (match l with
   | Some (internal, tg) =>
       if t then [] else [((if internal then Internal else if at_ then Attachment else External), tg, id)]
   | None => []
   end) ++ flat_map hrefs ks.
Proof. reflexivity. Qed.

Definition gather_P (b : box) : Prop :=
  forall a l, gather b (a, l) = (add_anchors a (occs b), l ++ hrefs b).

Lemma gather_kids : forall ks, Forall gather_P ks -> forall a l,
  (fix go (l : list box) (st : list anchor * list link) : list anchor * list link :=
     match l with [] => st | k :: r => go r (gather k st) end) ks (a, l) =
  (add_anchors a (flat_map occs ks), l ++ flat_map hrefs ks).
Proof.
  induction 1 as [|k ks Hk _ IH]; intros a l.
  - cbn. now rewrite app_nil_r.
  - rewrite Hk, IH. cbn [flat_map]. now rewrite add_anchors_app, app_assoc.
Qed.

Lemma gather_spec : forall b, gather_P b.
Proof.
  apply box_ind2. intros id an lk t at_ ks IH a l.
  cbn [gather]. unfold gather_here.
  rewrite (gather_kids ks IH). rewrite occs_eq, hrefs_eq, add_anchors_app, app_assoc. f_equal.
  - f_equal. destruct an as [n|]; [|reflexivity]. reflexivity.
  - f_equal. destruct lk as [[i tg]|]; [|now rewrite app_nil_r]. destruct t; [now rewrite app_nil_r|reflexivity].
Qed.

Lemma page_of_spec b : page_of b = (add_anchors [] (occs b), hrefs b).
Proof. unfold page_of. now rewrite gather_spec. Qed.

(* ---- resolve_links ---- *)
Lemma page_anchors_app : forall a b seen,
  page_anchors seen (a ++ b) =
  let '(o1, s1) := page_anchors seen a in let '(o2, s2) := page_anchors s1 b in (o1 ++ o2, s2).
Proof.
  induction a as [|[n p] a IH]; intros b seen.
  - cbn. now destruct (page_anchors seen b).
  - cbn [app page_anchors]. destruct (mem n seen); [apply IH|]. rewrite IH.
    destruct (page_anchors (n :: seen) a) as [o1 s1]. destruct (page_anchors s1 b). reflexivity.
Qed.

Lemma page_anchors_spec : forall items seen o s',
  page_anchors seen items = (o, s') ->
  (forall n, assoc n o = if mem n seen then None else assoc n items) /\
  (forall n, mem n s' = mem n seen || occurs n items) /\
  (forall n, In n (map fst o) -> mem n seen = false) /\
  NoDup (map fst o) /\ incl o items.
Proof.
  induction items as [|[m p] items IH]; intros seen o s' H.
  - cbn in H. inversion H; subst. split; [|split; [|split; [|split]]].
    + intros n. cbn. now destruct (mem n s').
    + intros n. cbn. now rewrite orb_false_r.
    + intros n [].
    + constructor.
    + intros x [].
  - cbn [page_anchors] in H. destruct (mem m seen) eqn:Hm.
    + destruct (IH _ _ _ H) as (H1 & H2 & H3 & H4 & H5). repeat split; auto.
      * intros n. rewrite H1. cbn [assoc]. destruct (Z.eqb_spec n m) as [->|_]; [now rewrite Hm|reflexivity].
      * intros n. rewrite H2. unfold occurs. cbn [map fst]. rewrite mem_cons.
        destruct (Z.eqb_spec n m) as [->|_]; [rewrite Hm; reflexivity|reflexivity].
      * intros x Hx. right. now apply H5.
    + destruct (page_anchors (m :: seen) items) as [o1 s1] eqn:E. inversion H; subst o s'; clear H.
      destruct (IH _ _ _ E) as (H1 & H2 & H3 & H4 & H5). repeat split.
      * intros n. cbn [assoc]. rewrite H1, mem_cons. destruct (Z.eqb_spec n m) as [->|_]; [now rewrite Hm|reflexivity].
      * intros n. rewrite H2, mem_cons. unfold occurs. cbn [map fst]. rewrite mem_cons.
        destruct (n =? m), (mem n seen); reflexivity.
      * intros n [<-|Hn]; [exact Hm|]. apply H3 in Hn. rewrite mem_cons in Hn. now apply orb_false_elim in Hn.
      * cbn [map fst]. constructor; [|exact H4]. intros Hin. apply H3 in Hin. rewrite mem_cons, Z.eqb_refl in Hin. discriminate.
      * intros x [<-|Hx]; [now left|right; now apply H5].
Qed.

Lemma all_anchors_spec : forall pages seen os s2,
  all_anchors seen pages = (os, s2) ->
  Forall2 (fun p o => incl o p) pages os /\ page_anchors seen (concat pages) = (concat os, s2).
Proof.
  induction pages as [|p ps IH]; intros seen os s2 H.
  - cbn in H. inversion H; subst. split; [constructor|reflexivity].
  - cbn [all_anchors] in H. destruct (page_anchors seen p) as [o s1] eqn:E1.
    destruct (all_anchors s1 ps) as [os' s2'] eqn:E2. inversion H; subst os s2; clear H.
    destruct (IH _ _ _ E2) as [F E]. split.
    + constructor; [|exact F]. now destruct (page_anchors_spec _ _ _ _ E1) as (_ & _ & _ & _ & Hi).
    + cbn [concat]. now rewrite page_anchors_app, E1, E.
Qed.

Lemma assoc_concat_pages : forall boxes n,
  assoc n (concat (map fst (map page_of boxes))) = assoc n (flat_map occs boxes).
Proof.
  induction boxes as [|b bs IH]; intros n; [reflexivity|]. cbn [map concat flat_map].
  rewrite !assoc_app, IH, page_of_spec. cbn [fst]. rewrite assoc_add. reflexivity.
Qed.

Lemma occurs_assoc n a b : (forall m, assoc m a = assoc m b) -> occurs n a = occurs n b.
Proof.
  intros H. destruct (occurs n b) eqn:E.
  - destruct (occurs n a) eqn:E'; [reflexivity|]. apply assoc_none in E'. rewrite H in E'. apply assoc_none in E'. congruence.
  - apply assoc_none. rewrite H. now apply assoc_none.
Qed.

Lemma Forall2_combine {X Y Z'} (R : X -> Y * Z' -> Prop) : forall (xs : list X) (ys : list Y) (zs : list Z'),
  length xs = length ys -> length ys = length zs ->
  (forall i x y z, nth_error xs i = Some x -> nth_error ys i = Some y -> nth_error zs i = Some z -> R x (y, z)) ->
  Forall2 R xs (combine ys zs).
Proof.
  induction xs as [|x xs IH]; intros [|y ys] [|z zs] H1 H2 HR; try discriminate; [constructor|].
  cbn [combine]. constructor.
  - apply (HR 0%nat); reflexivity.
  - apply IH; [now inversion H1|now inversion H2|]. intros i. apply (HR (S i)).
Qed.

Lemma Forall2_len {X Y} (R : X -> Y -> Prop) l l' : Forall2 R l l' -> length l = length l'.
Proof. induction 1; cbn; congruence. Qed.

Definition wanted (all : list anchor) (l : link) : bool := negb (is_internal l) || occurs (l_target l) all.
Definition missing (all : list anchor) (l : link) : bool := is_internal l && negb (occurs (l_target l) all).

(* the whole path, page boxes -> Page -> resolve_links *)
Theorem doc_links_spec (boxes : list box) :
  let '(out, errs) := doc_links boxes in
  let all := flat_map occs boxes in
  Forall2 (fun b o => fst o = filter (wanted all) (hrefs b) /\ incl (snd o) (occs b)) boxes out /\
  NoDup (map fst (flat_map snd out)) /\
  (forall n, assoc n (flat_map snd out) = assoc n all) /\
  errs = flat_map (fun b => map l_target (filter (missing all) (hrefs b))) boxes.
Proof.
  unfold doc_links, resolve_links.
  destruct (all_anchors [] (map fst (map page_of boxes))) as [pa seen] eqn:E.
  destruct (all_anchors_spec _ _ _ _ E) as [F Ec].
  destruct (page_anchors_spec _ _ _ _ Ec) as (H1 & H2 & _ & H4 & _).
  assert (Hseen : forall n, mem n seen = occurs n (flat_map occs boxes)).
  { intros n. rewrite H2. cbn [mem existsb orb]. apply occurs_assoc. apply assoc_concat_pages. }
  assert (Hlen : length (map page_of boxes) = length pa).
  { apply Forall2_len in F. now rewrite map_length in F. }
  assert (Hkeep : forall l, keep seen l = wanted (flat_map occs boxes) l).
  { intros l. unfold keep, wanted, is_internal. rewrite <- Hseen. destruct (l_type l); reflexivity. }
  assert (Hsnd : flat_map snd (combine (map (fun p => filter (keep seen) (snd p)) (map page_of boxes)) pa) = concat pa).
  { clear -Hlen. revert pa Hlen. induction (map page_of boxes) as [|p ps IH]; intros [|a pa] Hlen; try discriminate; [reflexivity|].
    cbn [map combine flat_map snd concat]. f_equal. apply IH. now inversion Hlen. }
  cbv zeta. split; [|split; [|split]].
  - apply Forall2_combine.
    + now rewrite !map_length.
    + now rewrite map_length.
    + intros i b ls an Hb Hls Han. cbn [fst snd].
      rewrite map_map in Hls. rewrite nth_error_map, Hb in Hls. cbn in Hls. inversion Hls; subst ls; clear Hls.
      rewrite page_of_spec. cbn [snd]. split; [apply filter_ext; exact Hkeep|].
      assert (Hp : nth_error (map fst (map page_of boxes)) i = Some (add_anchors [] (occs b))).
      { rewrite map_map, nth_error_map, Hb. cbn. now rewrite page_of_spec. }
      clear -F Hp Han. revert i Hp Han. induction F as [|p o ps os Hpo _ IH]; intros [|i] Hp Han; try discriminate.
      * cbn in Hp, Han. inversion Hp; inversion Han; subst.
        intros x Hx. apply Hpo in Hx. apply incl_add in Hx. destruct Hx as [[]|Hx]; exact Hx.
      * apply (IH i); assumption.
  - rewrite Hsnd. exact H4.
  - intros n. rewrite Hsnd, H1. cbn [mem existsb]. apply assoc_concat_pages.
  - rewrite flat_map_concat_map, flat_map_concat_map, map_map. f_equal. apply map_ext. intros b.
    rewrite page_of_spec. cbn [snd]. f_equal. apply filter_ext. intros l. unfold missing. now rewrite Hseen.
Qed.

(* ---- readable corollaries ---- *)
Lemma assoc_flat_map_snd : forall (out : list (list link * list anchor)) n p,
  assoc n (flat_map snd out) = Some p -> exists o, In o out /\ assoc n (snd o) = Some p.
Proof.
  induction out as [|o out IH]; intros n p H; [discriminate|]. cbn [flat_map] in H. rewrite assoc_app in H.
  destruct (assoc n (snd o)) eqn:E.
  - inversion H; subst. exists o. split; [now left|exact E].
  - destruct (IH _ _ H) as (o' & Ho & Ha). exists o'. split; [now right|exact Ha].
Qed.

Lemma assoc_nodup : forall (l : list anchor) n p, NoDup (map fst l) -> In (n, p) l -> assoc n l = Some p.
Proof.
  induction l as [|[m q] l IH]; intros n p Hnd Hin; [contradiction|]. cbn [map fst] in Hnd.
  inversion Hnd as [|? ? Hm Hnd']; subst. cbn [assoc]. destruct Hin as [E|Hin].
  - inversion E; subst. now rewrite Z.eqb_refl.
  - destruct (Z.eqb_spec n m) as [->|_]; [|now apply IH]. exfalso. apply Hm.
    change m with (fst (m, p)). now apply in_map.
Qed.

Lemma filter_filter_impl {X} (f g : X -> bool) l :
  (forall x, f x = true -> g x = true) -> filter f (filter g l) = filter f l.
Proof.
  intros H. induction l as [|x l IH]; [reflexivity|]. cbn [filter]. destruct (g x) eqn:Eg.
  - cbn [filter]. destruct (f x); now rewrite IH.
  - destruct (f x) eqn:Ef; [apply H in Ef; congruence|exact IH].
Qed.

Lemma Forall2_In_r {X Y} (R : X -> Y -> Prop) l l' y : Forall2 R l l' -> In y l' -> exists x, In x l /\ R x y.
Proof.
  induction 1 as [|a b l l' Hab _ IH]; intros Hin; [contradiction|]. destruct Hin as [<-|Hin].
  - exists a. split; [now left|exact Hab].
  - destruct (IH Hin) as (x & Hx & HR). exists x. split; [now right|exact HR].
Qed.

(* no dangling internal link: the named destination exists and is the first element carrying that name *)
Theorem no_dangling_internal_link (boxes : list box) :
  let '(out, errs) := doc_links boxes in
  forall o l, In o out -> In l (fst o) -> l_type l = Internal ->
  exists o' p, In o' out /\ In (l_target l, p) (snd o') /\ assoc (l_target l) (flat_map occs boxes) = Some p.
Proof.
  pose proof (doc_links_spec boxes) as H. destruct (doc_links boxes) as [out errs].
  destruct H as (F & Hnd & Ha & _). intros o l Ho Hl Ht.
  destruct (Forall2_In_r _ _ _ _ F Ho) as (b & _ & Hf & _). rewrite Hf in Hl.
  apply filter_In in Hl. destruct Hl as [_ Hw]. unfold wanted, is_internal in Hw. rewrite Ht in Hw. cbn in Hw.
  destruct (assoc (l_target l) (flat_map occs boxes)) as [p|] eqn:E.
  - rewrite <- Ha in E. destruct (assoc_flat_map_snd _ _ _ E) as (o' & Ho' & Hp).
    exists o', p. split; [exact Ho'|]. split; [now apply assoc_In|reflexivity].
  - apply assoc_none in E. congruence.
Qed.

(* first occurrence wins: an emitted destination is the first element of the document carrying its name, lies
   on that element's page, names are emitted once, and every carried name is emitted *)
Theorem first_anchor_wins (boxes : list box) :
  let '(out, errs) := doc_links boxes in
  (forall o n p, In o out -> In (n, p) (snd o) -> assoc n (flat_map occs boxes) = Some p) /\
  Forall2 (fun b o => incl (snd o) (occs b)) boxes out /\
  NoDup (map fst (flat_map snd out)) /\
  (forall n, occurs n (flat_map occs boxes) = true -> exists o p, In o out /\ In (n, p) (snd o)).
Proof.
  pose proof (doc_links_spec boxes) as H. destruct (doc_links boxes) as [out errs].
  destruct H as (F & Hnd & Ha & _). split; [|split; [|split]].
  - intros o n p Ho Hin. rewrite <- Ha. apply assoc_nodup; [exact Hnd|].
    apply in_flat_map. exists o. split; assumption.
  - clear -F. induction F as [|b o bs os [_ Hi] _ IH]; constructor; assumption.
  - exact Hnd.
  - intros n Hn. destruct (assoc n (flat_map occs boxes)) as [p|] eqn:E.
    + rewrite <- Ha in E. destruct (assoc_flat_map_snd _ _ _ E) as (o & Ho & Hp).
      exists o, p. split; [exact Ho|now apply assoc_In].
    + apply assoc_none in E. congruence.
Qed.

(* external and attachment links are kept unchanged, in order *)
Theorem external_links_kept (boxes : list box) :
  let '(out, errs) := doc_links boxes in
  Forall2 (fun b o => filter (fun l => negb (is_internal l)) (fst o) =
                      filter (fun l => negb (is_internal l)) (hrefs b)) boxes out.
Proof.
  pose proof (doc_links_spec boxes) as H. destruct (doc_links boxes) as [out errs].
  destruct H as (F & _). induction F as [|b o bs os [Hf _] _ IH]; constructor; [|exact IH].
  rewrite Hf. apply filter_filter_impl. intros l Hl. unfold wanted. now rewrite Hl.
Qed.

(* internal links: kept iff some element carries the target; the others are logged, in order *)
Theorem missing_anchor_dropped_and_logged (boxes : list box) :
  let '(out, errs) := doc_links boxes in
  Forall2 (fun b o => forall l, In l (hrefs b) -> is_internal l = true ->
                      (In l (fst o) <-> occurs (l_target l) (flat_map occs boxes) = true)) boxes out /\
  errs = flat_map (fun b => map l_target
            (filter (fun l => is_internal l && negb (occurs (l_target l) (flat_map occs boxes))) (hrefs b))) boxes.
Proof.
  pose proof (doc_links_spec boxes) as H. destruct (doc_links boxes) as [out errs].
  destruct H as (F & _ & _ & He). split; [|exact He].
  clear He. remember (flat_map occs boxes) as all eqn:Eall. clear Eall.
  induction F as [|b o bs os [Hf _] _ IH]; constructor; [|exact IH].
  intros l Hl Hi. rewrite Hf, filter_In. unfold wanted. rewrite Hi. cbn [negb orb]. tauto.
Qed.

Example links_example :
  doc_links [Box 1 None None false false
               [Box 2 (Some 7) (Some (true, 8)) false false []; Box 3 (Some 7) (Some (true, 9)) false false [];
                Box 4 None (Some (false, 50)) false true []];
             Box 5 (Some 8) None false false [Box 6 (Some 7) (Some (true, 7)) false false []]] =
  ([([(Internal, 8, 2); (Attachment, 50, 4)], [(7, 2)]); ([(Internal, 7, 6)], [(8, 5)])], [9]).
Proof. vm_compute. reflexivity. Qed.
