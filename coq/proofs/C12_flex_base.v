(* C12 - flex 9.7: basic lemmas (sums, clamp, structure of one pass). *)
From Coq Require Import QArith Qminmax Qabs List Bool ZArith Lia Lqa.
Require Import WV.model.C12Flex.
Import ListNotations.
Open Scope Q_scope.

(* ---------------------------------------------------------------- sums *)
Lemma sumQ_map {A B} (f : B -> Q) (g : A -> B) l : sumQ f (map g l) = sumQ (fun x => f (g x)) l.
Proof. induction l as [|x t IH]; simpl; [reflexivity | now rewrite IH]. Qed.

Lemma sumQ_ext {A} (f g : A -> Q) l : (forall x, In x l -> f x == g x) -> sumQ f l == sumQ g l.
Proof.
  induction l as [|x t IH]; simpl; intros H; [reflexivity|].
  rewrite (H x (or_introl eq_refl)), IH; [reflexivity | intros y Hy; apply H; now right].
Qed.

Lemma sumQ_plus {A} (f g : A -> Q) l : sumQ (fun x => f x + g x) l == sumQ f l + sumQ g l.
Proof. induction l as [|x t IH]; simpl; [lra | rewrite IH; lra]. Qed.

Lemma sumQ_minus {A} (f g : A -> Q) l : sumQ (fun x => f x - g x) l == sumQ f l - sumQ g l.
Proof. induction l as [|x t IH]; simpl; [lra | rewrite IH; lra]. Qed.

Lemma sumQ_scal {A} (k : Q) (f : A -> Q) l : sumQ (fun x => k * f x) l == k * sumQ f l.
Proof. induction l as [|x t IH]; simpl; [lra | rewrite IH; lra]. Qed.

Lemma sumQ_le {A} (f g : A -> Q) l : (forall x, In x l -> f x <= g x) -> sumQ f l <= sumQ g l.
Proof.
  induction l as [|x t IH]; simpl; intros H; [lra|].
  pose proof (H x (or_introl eq_refl)). assert (sumQ f t <= sumQ g t) by (apply IH; intros; apply H; now right). lra.
Qed.

Lemma sumQ_nonneg {A} (f : A -> Q) l : (forall x, In x l -> 0 <= f x) -> 0 <= sumQ f l.
Proof.
  intros H. assert (E : sumQ (fun _ : A => 0) l == 0) by (induction l; simpl; [lra | rewrite IHl; [lra | intros; apply H; now right]]).
  rewrite <- E. now apply sumQ_le.
Qed.

Lemma sumQ_zero {A} (f : A -> Q) l : (forall x, In x l -> f x == 0) -> sumQ f l == 0.
Proof. induction l as [|x t IH]; simpl; intros H; [lra|]. rewrite (H x (or_introl eq_refl)), IH; [lra | intros; apply H; now right]. Qed.

Lemma sumQ_pos_ex {A} (f : A -> Q) l : 0 < sumQ f l -> exists x, In x l /\ 0 < f x.
Proof.
  induction l as [|x t IH]; simpl; intros H; [lra|].
  destruct (Qlt_le_dec 0 (f x)) as [Hx|Hx]; [exists x; split; [now left | assumption]|].
  destruct IH as (y & Hy & Hp); [lra | exists y; split; [now right | assumption]].
Qed.

Lemma sumQ_neg_ex {A} (f : A -> Q) l : sumQ f l < 0 -> exists x, In x l /\ f x < 0.
Proof.
  induction l as [|x t IH]; simpl; intros H; [lra|].
  destruct (Qlt_le_dec (f x) 0) as [Hx|Hx]; [exists x; split; [now left | assumption]|].
  destruct IH as (y & Hy & Hp); [lra | exists y; split; [now right | assumption]].
Qed.

Lemma sumQ_nonneg_zero {A} (f : A -> Q) l : (forall x, In x l -> 0 <= f x) -> sumQ f l == 0 ->
  forall x, In x l -> f x == 0.
Proof.
  induction l as [|y t IH]; simpl; intros Hn Hs x Hx; [contradiction|].
  assert (0 <= f y) by (apply Hn; now left).
  assert (0 <= sumQ f t) by (apply sumQ_nonneg; intros; apply Hn; now right).
  destruct Hx as [<-|Hx]; [lra|]. apply IH; [intros; apply Hn; now right | lra | assumption].
Qed.

Lemma gaps_enum_map {A B} (g : A -> B) l gap : gaps_enum (map g l) gap = gaps_enum l gap.
Proof. destruct l; simpl; [reflexivity | now rewrite map_length]. Qed.

Lemma gaps_len_map {A B} (g : A -> B) l gap : gaps_len (map g l) gap = gaps_len l gap.
Proof. unfold gaps_len. now rewrite map_length. Qed.

Lemma gaps_len_enum {A} (l : list A) gap : l <> [] -> gaps_len l gap == gaps_enum l gap.
Proof.
  destruct l as [|x t]; [congruence|]. intros _. unfold gaps_len, gaps_enum, nQ. simpl length.
  rewrite Nat2Z.inj_succ. unfold Z.succ. rewrite inject_Z_plus. change (inject_Z 1) with 1. ring.
Qed.

(* ---------------------------------------------------------------- clamp *)
Lemma clamp_min it x : imin it <= clamp it x.
Proof. unfold clamp. apply Q.le_max_l. Qed.

Lemma clamp_max it x : le_max (imin it) (imax it) -> le_max (clamp it x) (imax it).
Proof.
  unfold clamp, le_max, qmin_opt. destruct (imax it) as [M|]; [|trivial]. intros H.
  apply Q.max_lub; [assumption | apply Q.le_min_r].
Qed.

Lemma clamp_mono it x y : x <= y -> clamp it x <= clamp it y.
Proof.
  intros H. unfold clamp, qmin_opt. destruct (imax it) as [M|].
  - apply Q.max_le_compat_l. apply Q.min_le_compat_r. assumption.
  - apply Q.max_le_compat_l. assumption.
Qed.

Lemma clamp_proper it x y : x == y -> clamp it x == clamp it y.
Proof. intros H. apply Qle_antisym; apply clamp_mono; lra. Qed.

(* the three outcomes of a clamp *)
Lemma clamp_cases it x : le_max (imin it) (imax it) ->
  (clamp it x == x /\ imin it <= x /\ le_max x (imax it)) \/
  (x < imin it /\ clamp it x == imin it) \/
  (exists M, imax it = Some M /\ M < x /\ clamp it x == M).
Proof.
  unfold clamp, le_max, qmin_opt. destruct (imax it) as [M|]; intros H.
  - destruct (Qlt_le_dec M x) as [H1|H1].
    + right; right. exists M. split; [reflexivity|]. split; [assumption|].
      rewrite (Q.min_r x M) by lra. apply Q.max_r. assumption.
    + rewrite (Q.min_l x M) by assumption.
      destruct (Qlt_le_dec x (imin it)) as [H2|H2].
      * right; left. split; [assumption | apply Q.max_l; lra].
      * left. split; [apply Q.max_r; assumption | split; assumption].
  - destruct (Qlt_le_dec x (imin it)) as [H2|H2].
    + right; left. split; [assumption | apply Q.max_l; lra].
    + left. split; [apply Q.max_r; assumption | split; [assumption | exact I]].
Qed.

Lemma hyp_min it : imin it <= ihyp it.
Proof. apply clamp_min. Qed.
Lemma hyp_max it : le_max (imin it) (imax it) -> le_max (ihyp it) (imax it).
Proof. apply clamp_max. Qed.

Definition inside (x : fst) : Prop := imin (fit x) < ftarget x /\ lt_max (ftarget x) (imax (fit x)).

(* an item strictly inside its min/max range has not been touched by the clamp *)
Lemma clamp_inside it p : le_max (imin it) (imax it) ->
  imin it < clamp it p -> lt_max (clamp it p) (imax it) -> clamp it p == p.
Proof.
  intros Hv H1 H2. destruct (clamp_cases it p Hv) as [(E & _)|[(Hlt & E)|(M & EM & Hlt & E)]].
  - assumption.
  - lra.
  - rewrite EM in H2. simpl in H2. lra.
Qed.

(* ---------------------------------------------------------------- one pass, item by item *)
Definition step1 (md : mode) (rem tot : Q) (l : list fst) (x : fst) : fst :=
  freeze tot (fix_viol (dist1 md rem l x)).
Definition adj1 (md : mode) (rem : Q) (l : list fst) (x : fst) : Q := snd (fix_viol (dist1 md rem l x)).
(* the proposed size of 9.7.5.c *)
Definition prop1 (md : mode) (rem : Q) (l : list fst) (x : fst) : Q :=
  if Qeq_dec rem 0 then ibase (fit x) else ibase (fit x) + rem * ratio md l x.

Lemma prop1_eq md rem l x : prop1 md rem l x == ibase (fit x) + rem * ratio md l x.
Proof. unfold prop1. destruct (Qeq_dec rem 0) as [E|E]; [rewrite E; lra | reflexivity]. Qed.

Lemma step1_frozen md rem tot l x : ffrozen x = true ->
  fit (step1 md rem tot l x) = fit x /\ ffrozen (step1 md rem tot l x) = true /\
  ftarget (step1 md rem tot l x) = ftarget x.
Proof.
  intros H. unfold step1, dist1, fix_viol. rewrite H. simpl. rewrite H.
  unfold freeze. destruct (freeze_b tot 0); simpl; auto.
Qed.

Lemma step1_unfrozen md rem tot l x : ffrozen x = false ->
  fit (step1 md rem tot l x) = fit x /\
  ftarget (step1 md rem tot l x) = clamp (fit x) (prop1 md rem l x) /\
  ffrozen (step1 md rem tot l x) = freeze_b tot (clamp (fit x) (prop1 md rem l x) - prop1 md rem l x) /\
  adj1 md rem l x = clamp (fit x) (prop1 md rem l x) - prop1 md rem l x.
Proof.
  intros H. unfold step1, adj1, dist1, fix_viol, prop1. rewrite H. simpl. rewrite H. simpl.
  unfold freeze. destruct (freeze_b _ _); simpl; rewrite ?H; auto.
Qed.

Lemma adj1_frozen md rem l x : ffrozen x = true -> adj1 md rem l x = 0.
Proof. intros H. unfold adj1, dist1, fix_viol. rewrite H. simpl. now rewrite H. Qed.

Lemma step1_fit md rem tot l x : fit (step1 md rem tot l x) = fit x.
Proof. destruct (ffrozen x) eqn:E; [apply step1_frozen | apply step1_unfrozen]; assumption. Qed.

Lemma step1_keeps_frozen md rem tot l x : ffrozen x = true -> ffrozen (step1 md rem tot l x) = true.
Proof. intros H. now apply step1_frozen. Qed.

Definition pass_tot (md : mode) (rem : Q) (l : list fst) : Q := sumQ (adj1 md rem l) l.

Lemma pass_some md avail gap init0 l l' : pass md avail gap init0 l = Some l' ->
  l' = map (step1 md (pass_rem md avail gap init0 l) (pass_tot md (pass_rem md avail gap init0 l) l) l) l.
Proof.
  unfold pass, distribute. set (rem := pass_rem md avail gap init0 l).
  assert (G : forall l1, l1 = map (dist1 md rem l) l ->
     Some (map (freeze (sumQ snd (map fix_viol l1))) (map fix_viol l1)) = Some l' ->
     l' = map (step1 md rem (pass_tot md rem l) l) l).
  { intros l1 -> H. injection H as <-. rewrite !map_map. unfold pass_tot.
    rewrite !sumQ_map. reflexivity. }
  destruct (Qeq_dec rem 0); [now apply G|].
  destruct md; [destruct (Qeq_dec (gsum l) 0); [discriminate | now apply G] | now apply G].
Qed.

(* ZeroDivisionError is unreachable: flex_grow_factors_sum == 0 forces the distributed space to be 0 *)
Lemma pass_rem_zero_when_gsum_zero avail gap init0 l : gsum l == 0 -> pass_rem Grow avail gap init0 l == 0.
Proof.
  intros H. unfold pass_rem. change (ufs Grow l) with (gsum l).
  destruct (Qlt_le_dec (gsum l) 1) as [H1|H1]; [|lra].
  assert (E : init0 * gsum l == 0) by (rewrite H; lra).
  destruct (Qlt_le_dec (Qabs (init0 * gsum l)) (Qabs (free_space avail gap l))) as [H2|H2]; [assumption|].
  rewrite E in H2. apply Qabs_Qle_condition in H2. simpl (Qabs 0) in H2. lra.
Qed.

Lemma pass_not_none md avail gap init0 l : pass md avail gap init0 l <> None.
Proof.
  unfold pass, distribute. destruct (Qeq_dec (pass_rem md avail gap init0 l) 0) as [E|E]; [discriminate|].
  destruct md; [|discriminate].
  destruct (Qeq_dec (gsum l) 0) as [G|G]; [|discriminate].
  exfalso. apply E. now apply pass_rem_zero_when_gsum_zero.
Qed.

(* ---------------------------------------------------------------- termination *)
Fixpoint cnt (l : list fst) : nat :=
  match l with [] => O | x :: t => ((if ffrozen x then 0 else 1) + cnt t)%nat end.

Lemma cnt_zero l : cnt l = O <-> forallb ffrozen l = true.
Proof.
  induction l as [|x t IH]; simpl; [tauto|]. destruct (ffrozen x); simpl; [exact IH | split; [lia | discriminate]].
Qed.

Lemma cnt_map_le (g : fst -> fst) l : (forall x, In x l -> ffrozen x = true -> ffrozen (g x) = true) ->
  (cnt (map g l) <= cnt l)%nat.
Proof.
  induction l as [|x t IH]; simpl; intros H; [lia|].
  assert (cnt (map g t) <= cnt t)%nat by (apply IH; intros; apply H; [now right | assumption]).
  destruct (ffrozen x) eqn:E; [rewrite (H x (or_introl eq_refl) E); lia | destruct (ffrozen (g x)); lia].
Qed.

Lemma cnt_map_lt (g : fst -> fst) l : (forall x, In x l -> ffrozen x = true -> ffrozen (g x) = true) ->
  (exists x, In x l /\ ffrozen x = false /\ ffrozen (g x) = true) -> (cnt (map g l) < cnt l)%nat.
Proof.
  induction l as [|x t IH]; simpl; intros H (y & Hy & Hf & Hg); [contradiction|].
  assert (Ht : (cnt (map g t) <= cnt t)%nat) by (apply cnt_map_le; intros; apply H; [now right | assumption]).
  destruct Hy as [<-|Hy].
  - rewrite Hf, Hg. lia.
  - assert (cnt (map g t) < cnt t)%nat by (apply IH; [intros; apply H; [now right | assumption] | exists y; auto]).
    destruct (ffrozen x) eqn:E; [rewrite (H x (or_introl eq_refl) E); lia | destruct (ffrozen (g x)); lia].
Qed.

Lemma forallb_false_ex l : forallb ffrozen l = false -> exists x, In x l /\ ffrozen x = false.
Proof.
  induction l as [|x t IH]; simpl; [discriminate|]. destruct (ffrozen x) eqn:E; simpl.
  - intros H. destruct (IH H) as (y & Hy & Hf). exists y; auto.
  - intros _. exists x; auto.
Qed.

Lemma freeze_b_zero tot adj : tot == 0 -> freeze_b tot adj = true.
Proof. intros H. unfold freeze_b. destruct (Qeq_dec tot 0); [reflexivity | contradiction]. Qed.
Lemma freeze_b_pos tot adj : 0 < tot -> freeze_b tot adj = true <-> 0 < adj.
Proof.
  intros H. unfold freeze_b. destruct (Qeq_dec tot 0); [lra|]. destruct (Qlt_le_dec 0 tot); [|lra].
  destruct (Qlt_le_dec 0 adj); split; intros; try reflexivity; try assumption; try discriminate; lra.
Qed.
Lemma freeze_b_neg tot adj : tot < 0 -> freeze_b tot adj = true <-> adj < 0.
Proof.
  intros H. unfold freeze_b. destruct (Qeq_dec tot 0); [lra|]. destruct (Qlt_le_dec 0 tot); [lra|].
  destruct (Qlt_le_dec adj 0); split; intros; try reflexivity; try assumption; try discriminate; lra.
Qed.

(* each pass freezes at least one item *)
Lemma pass_decreases md avail gap init0 l l' : forallb ffrozen l = false ->
  pass md avail gap init0 l = Some l' -> (cnt l' < cnt l)%nat.
Proof.
  intros Hnf Hp. apply pass_some in Hp. set (rem := pass_rem md avail gap init0 l) in *.
  set (tot := pass_tot md rem l) in *. subst l'.
  apply cnt_map_lt; [intros; now apply step1_keeps_frozen|].
  destruct (Qeq_dec tot 0) as [E|E].
  - destruct (forallb_false_ex l Hnf) as (x & Hx & Hf). exists x. split; [assumption|]. split; [assumption|].
    destruct (step1_unfrozen md rem tot l x Hf) as (_ & _ & -> & _). now apply freeze_b_zero.
  - destruct (Qlt_le_dec 0 tot) as [P|P].
    + destruct (sumQ_pos_ex _ _ P) as (x & Hx & Ha). exists x. split; [assumption|].
      destruct (ffrozen x) eqn:Hf; [rewrite adj1_frozen in Ha by assumption; lra|]. split; [reflexivity|].
      destruct (step1_unfrozen md rem tot l x Hf) as (_ & _ & -> & Ea). rewrite Ea in Ha. now apply freeze_b_pos.
    + assert (N : tot < 0) by (destruct (Qlt_le_dec tot 0); [assumption | exfalso; apply E; lra]).
      destruct (sumQ_neg_ex _ _ N) as (x & Hx & Ha). exists x. split; [assumption|].
      destruct (ffrozen x) eqn:Hf; [rewrite adj1_frozen in Ha by assumption; lra|]. split; [reflexivity|].
      destruct (step1_unfrozen md rem tot l x Hf) as (_ & _ & -> & Ea). rewrite Ea in Ha. now apply freeze_b_neg.
Qed.

Lemma loop_fuel md avail gap init0 fuel l : (cnt l <= fuel)%nat -> exists r, loop md avail gap init0 fuel l = Done r.
Proof.
  revert l. induction fuel as [|f IH]; intros l Hc; simpl.
  - assert (E : cnt l = O) by lia. apply cnt_zero in E. rewrite E. eauto.
  - destruct (forallb ffrozen l) eqn:E; [eauto|].
    destruct (pass md avail gap init0 l) as [l'|] eqn:Hp; [|exfalso; now apply (pass_not_none _ _ _ _ _ Hp)].
    apply IH. pose proof (pass_decreases _ _ _ _ _ _ E Hp). lia.
Qed.

Lemma cnt_le_length l : (cnt l <= length l)%nat.
Proof. induction l as [|x t IH]; simpl; [lia | destruct (ffrozen x); lia]. Qed.

(* the loop terminates within `length items` passes, for every input *)
Lemma resolve_fuel items gap avail : exists r, resolve items gap avail = Done r.
Proof.
  unfold resolve. apply loop_fuel.
  pose proof (cnt_le_length (map (init_item (choose_mode items gap avail)) items)) as H.
  now rewrite map_length in H.
Qed.
