(* C17 - every_box_painted_once, structural part: the dispatch partitions the box tree. *)
From Coq Require Import ZArith List Bool Lia Permutation.
Require Import WV.model.C17Stacking WV.model.C17Spec WV.proofs.C17_sort WV.proofs.C17_dispatch.
Import ListNotations.
Open Scope Z_scope.

Lemma flat_map_app' {A B} (f : A -> list B) l1 l2 : flat_map f (l1 ++ l2) = flat_map f l1 ++ flat_map f l2.
Proof. induction l1; simpl; [reflexivity|]. now rewrite IHl1, app_assoc. Qed.

Lemma perm_flat_map {A B} (f : A -> list B) l1 l2 :
  Permutation l1 l2 -> Permutation (flat_map f l1) (flat_map f l2).
Proof.
  induction 1; simpl.
  - reflexivity.
  - now apply Permutation_app_head.
  - rewrite !app_assoc. apply Permutation_app_tail, Permutation_app_comm.
  - etransitivity; eassumption.
Qed.

Lemma filter3_perm {A} (p q : A -> bool) (l : list A) :
  (forall x, p x = true -> q x = false) ->
  Permutation (filter p l ++ filter q l ++ filter (fun x => negb (p x) && negb (q x)) l) l.
Proof.
  intros H. induction l as [|x r IH]; simpl; [reflexivity|].
  destruct (p x) eqn:Px; simpl.
  - rewrite (H x Px). simpl. now constructor.
  - destruct (q x); simpl.
    + rewrite <- Permutation_middle. now constructor.
    + rewrite app_assoc. rewrite <- Permutation_middle. rewrite <- app_assoc. now constructor.
Qed.


Lemma perm_interleave3 {X} (a b c a' b' c' : list X) :
  Permutation ((a ++ a') ++ (b ++ b') ++ (c ++ c')) ((a ++ b ++ c) ++ (a' ++ b' ++ c')).
Proof.
  rewrite <- !app_assoc. apply Permutation_app_head.
  transitivity (b ++ a' ++ b' ++ c ++ c'); [apply Permutation_app_swap_app|].
  apply Permutation_app_head.
  transitivity ((a' ++ b') ++ c ++ c'); [now rewrite <- app_assoc|].
  transitivity (c ++ (a' ++ b') ++ c'); [apply Permutation_app_swap_app|].
  now rewrite <- app_assoc.
Qed.

(* the three buckets of __init__ together are the child contexts *)
Lemma buckets_perm (cs : list pnode) :
  Permutation
    (sort_z ctx_z (filter (fun c => ctx_z c <? 0) cs) ++ filter (fun c => ctx_z c =? 0) cs ++
     sort_z ctx_z (filter (fun c => negb (ctx_z c <? 0) && negb (ctx_z c =? 0)) cs)) cs.
Proof.
  rewrite !sort_z_perm. apply filter3_perm.
  intros x Hx. apply Z.ltb_lt in Hx. apply Z.eqb_neq. lia.
Qed.

Lemma owned_mk_ctx i nk cs bl fl bc :
  Permutation (owned (mk_ctx i nk cs bl fl bc))
              (bid i :: flat_map owned nk ++ flat_map owned cs ++ flat_map owned fl).
Proof.
  unfold mk_ctx. simpl. constructor. apply Permutation_app_head.
  rewrite !app_assoc. apply Permutation_app_tail. rewrite <- !app_assoc.
  rewrite <- !flat_map_app'. apply perm_flat_map, buckets_perm.
Qed.

Local Opaque mk_ctx.

Lemma owned_embed b : owned (embed b) = ids b.
Proof.
  unfold ids. induction b as [i kids IH] using box_ind'. simpl. f_equal.
  induction IH as [|k r Hk _ IHr]; simpl; [reflexivity|].
  rewrite map_app, Hk, IHr. reflexivity.
Qed.

Definition opt_list {A} (o : option A) : list A := match o with Some x => [x] | None => [] end.

Lemma flat_map_opt_cons {A B} (f : A -> list B) o l :
  flat_map f (opt_cons o l) = flat_map f (opt_list o) ++ flat_map f l.
Proof. destruct o; simpl; [now rewrite app_nil_r|reflexivity]. Qed.

(* what a subtree leaves in place, hands up as contexts and as floats, together are its boxes *)
Lemma fd_owned b :
  Permutation (flat_map owned (opt_list (fst (fd b))) ++ flat_map owned (s_cc (snd (fd b))) ++
               flat_map owned (s_fl (snd (fd b)))) (ids b).
Proof.
  induction b as [i kids IH] using box_ind'.
  assert (L : Permutation (flat_map owned (fst (fdl kids)) ++ flat_map owned (s_cc (snd (fdl kids))) ++
                           flat_map owned (s_fl (snd (fdl kids)))) (flat_map ids kids)).
  { induction IH as [|k r Hk _ IHr]; simpl; [reflexivity|].
    rewrite flat_map_opt_cons, !flat_map_app'.
    rewrite <- Hk, <- IHr. apply perm_interleave3. }
  assert (L' : Permutation (flat_map owned (fst (fd_children (Box i kids))) ++
                            flat_map owned (s_cc (snd (fd_children (Box i kids)))) ++
                            flat_map owned (s_fl (snd (fd_children (Box i kids))))) (flat_map ids kids)).
  { unfold fd_children. simpl. destruct (is_parent (knd i)); [exact L|]. simpl. rewrite !app_nil_r.
    clear. induction kids as [|k r IHr]; simpl; [reflexivity|]. rewrite owned_embed. now apply Permutation_app_head. }
  clear L IH.
  assert (Hids : ids (Box i kids) = bid i :: flat_map ids kids).
  { unfold ids. simpl. f_equal. clear. induction kids as [|k r IHr]; simpl; [reflexivity|].
    now rewrite map_app, IHr. }
  rewrite Hids, fd_eq. unfold fd_node.
  set (nk := fst (fd_children (Box i kids))) in *. set (d := snd (fd_children (Box i kids))) in *.
  destruct (defines_ctx i); [|destruct (negb (static i)); [|destruct (flt i); [|destruct (stacking_class (knd i))]]];
    simpl; rewrite ?owned_mk_ctx; simpl; rewrite ?app_nil_r; try rewrite <- Permutation_middle; constructor; rewrite <- L'.
  all: rewrite <- ?app_assoc.
  - reflexivity.
  - apply Permutation_app_head, Permutation_app_comm.
  - apply Permutation_app_swap_app.
  - apply Permutation_app_head, Permutation_app_comm.
  - reflexivity.
Qed.

Lemma fdl_owned l :
  Permutation (flat_map owned (fst (fdl l)) ++ flat_map owned (s_cc (snd (fdl l))) ++
               flat_map owned (s_fl (snd (fdl l)))) (flat_map ids l).
Proof.
  induction l as [|k r IHr]; simpl; [reflexivity|].
  rewrite flat_map_opt_cons, !flat_map_app'.
  rewrite <- (fd_owned k), <- IHr. apply perm_interleave3.
Qed.

Lemma ids_box i kids : ids (Box i kids) = bid i :: flat_map ids kids.
Proof.
  unfold ids. simpl. f_equal. induction kids as [|k r IHr]; simpl; [reflexivity|]. now rewrite map_app, IHr.
Qed.

(* every_box_painted_once: each box of the tree is owned by exactly one place of the structure *)
Theorem dispatch_partitions_tree t : Permutation (owned (from_box t)) (ids t).
Proof.
  rewrite from_box_fd. cbv zeta. rewrite owned_mk_ctx. destruct t as [i kids]. rewrite ids_box. simpl binfo.
  constructor. unfold fd_children. simpl.
  destruct (is_parent (knd i)).
  - apply fdl_owned.
  - simpl. rewrite !app_nil_r. clear. induction kids as [|k r IHr]; simpl; [reflexivity|].
    rewrite owned_embed. now apply Permutation_app_head.
Qed.

Theorem page_partitions_tree pi children :
  Permutation (owned (from_page pi children)) (bid pi :: flat_map ids children).
Proof.
  unfold from_page. rewrite owned_mk_ctx. simpl. constructor. rewrite app_nil_r.
  induction children as [|c r IH]; simpl; [reflexivity|].
  apply Permutation_app; [apply dispatch_partitions_tree|exact IH].
Qed.

(* ---- block_level_boxes and blocks_and_cells are exactly the block-level boxes (and cells) of the context's
        own tree, in tree order: every such box has its background painted once, at point 4 ---- *)

Definition blp (n : pnode) : bool := block_level (knd (pinfo n)).
Definition bcp (n : pnode) : bool := block_level (knd (pinfo n)) || is_cell (knd (pinfo n)).

Definition good_ctx (c : pnode) : Prop :=
  ctx_blocks c = filter blp (ctx_tree c) /\ ctx_bcs c = filter bcp (ctx_tree c).

Lemma filter_app' {A} (p : A -> bool) l1 l2 : filter p (l1 ++ l2) = filter p l1 ++ filter p l2.
Proof. induction l1; simpl; [reflexivity|]. destruct (p a); simpl; now rewrite IHl1. Qed.

Local Transparent mk_ctx.
Lemma ctx_tree_mk i nk cs bl fl bc :
  ctx_tree (mk_ctx i nk cs bl fl bc) = if is_parent (knd i) then flat_map tree_nodes nk else [].
Proof. reflexivity. Qed.
Lemma ctx_blocks_mk i nk cs bl fl bc : ctx_blocks (mk_ctx i nk cs bl fl bc) = bl.
Proof. reflexivity. Qed.
Lemma ctx_bcs_mk i nk cs bl fl bc : ctx_bcs (mk_ctx i nk cs bl fl bc) = bc.
Proof. reflexivity. Qed.
Lemma tree_nodes_mk i nk cs bl fl bc : tree_nodes (mk_ctx i nk cs bl fl bc) = [].
Proof. reflexivity. Qed.
Lemma all_ctxs_mk i nk cs bl fl bc x :
  In x (all_ctxs (mk_ctx i nk cs bl fl bc)) <->
  x = mk_ctx i nk cs bl fl bc \/ In x (flat_map all_ctxs nk) \/ In x (flat_map all_ctxs cs) \/
  In x (flat_map all_ctxs fl).
Proof.
  unfold mk_ctx at 1. simpl. rewrite !in_app_iff, !in_flat_map.
  assert (B : (exists c, In c cs /\ In x (all_ctxs c)) <->
              (exists c, In c (sort_z ctx_z (filter (fun c => ctx_z c <? 0) cs)) /\ In x (all_ctxs c)) \/
              (exists c, In c (filter (fun c => ctx_z c =? 0) cs) /\ In x (all_ctxs c)) \/
              (exists c, In c (sort_z ctx_z (filter (fun c => negb (ctx_z c <? 0) && negb (ctx_z c =? 0)) cs)) /\
                         In x (all_ctxs c))).
  { split.
    - intros [c [Hc Hx]].
      destruct (ctx_z c <? 0) eqn:E1; [left; exists c; split; [apply sort_z_in, filter_In; auto|exact Hx]|].
      destruct (ctx_z c =? 0) eqn:E2; [right; left; exists c; split; [apply filter_In; auto|exact Hx]|].
      right; right; exists c; split; [apply sort_z_in, filter_In; rewrite E1, E2; auto|exact Hx].
    - intros [[c [Hc Hx]]|[[c [Hc Hx]]|[c [Hc Hx]]]]; exists c; split; try exact Hx.
      + apply sort_z_in, filter_In in Hc. tauto.
      + apply filter_In in Hc. tauto.
      + apply sort_z_in, filter_In in Hc. tauto. }
  split.
  - intros [H|[H|[H|[H|[H|H]]]]].
    + left. symmetry. exact H.
    + right; left. exact H.
    + right; right; left. apply B. left. exact H.
    + right; right; left. apply B. right; left. exact H.
    + right; right; left. apply B. right; right. exact H.
    + right; right; right. exact H.
  - intros [H|[H|[H|H]]].
    + left. symmetry. exact H.
    + right; left. exact H.
    + apply B in H. destruct H as [H|[H|H]]; [right; right; left|right; right; right; left|right; right; right; right; left]; exact H.
    + right; right; right; right; right. exact H.
Qed.
Local Opaque mk_ctx.

Lemma fd_aliases b :
  s_bl (snd (fd b)) = filter blp (flat_map tree_nodes (opt_list (fst (fd b)))) /\
  s_bc (snd (fd b)) = filter bcp (flat_map tree_nodes (opt_list (fst (fd b)))) /\
  Forall good_ctx (flat_map all_ctxs (opt_list (fst (fd b))) ++ flat_map all_ctxs (s_cc (snd (fd b))) ++
                   flat_map all_ctxs (s_fl (snd (fd b)))).
Proof.
  induction b as [i kids IH] using box_ind'.
  assert (L : s_bl (snd (fdl kids)) = filter blp (flat_map tree_nodes (fst (fdl kids))) /\
              s_bc (snd (fdl kids)) = filter bcp (flat_map tree_nodes (fst (fdl kids))) /\
              Forall good_ctx (flat_map all_ctxs (fst (fdl kids)) ++ flat_map all_ctxs (s_cc (snd (fdl kids))) ++
                               flat_map all_ctxs (s_fl (snd (fdl kids))))).
  { induction IH as [|k r [Hk1 [Hk2 Hk3]] _ [IH1 [IH2 IH3]]]; simpl; [repeat split; constructor|].
    rewrite !flat_map_opt_cons, !flat_map_app', !filter_app', Hk1, Hk2, IH1, IH2.
    repeat split.
    rewrite !Forall_app in *. tauto. }
  clear IH.
  assert (L' : s_bl (snd (fd_children (Box i kids))) = filter blp (ctx_tree (PB i (fst (fd_children (Box i kids))))) /\
               s_bc (snd (fd_children (Box i kids))) = filter bcp (ctx_tree (PB i (fst (fd_children (Box i kids))))) /\
               Forall good_ctx (flat_map all_ctxs (fst (fd_children (Box i kids))) ++
                                flat_map all_ctxs (s_cc (snd (fd_children (Box i kids)))) ++
                                flat_map all_ctxs (s_fl (snd (fd_children (Box i kids)))))).
  { unfold fd_children, ctx_tree. simpl. destruct (is_parent (knd i)); [exact L|]. simpl.
    repeat split. rewrite !app_nil_r. clear.
    assert (E : forall k, all_ctxs (embed k) = []).
    { induction k as [j ks IHk] using box_ind'. simpl. induction IHk as [|x r Hx _ IHr]; simpl; [reflexivity|].
      now rewrite Hx, IHr. }
    induction kids as [|k r IHr]; simpl; [constructor|]. now rewrite E. }
  clear L. destruct L' as [L1 [L2 L3]].
  rewrite fd_eq. unfold fd_node.
  set (nk := fst (fd_children (Box i kids))) in *. set (d := snd (fd_children (Box i kids))) in *.
  assert (G : forall cs, good_ctx (mk_ctx i nk cs (s_bl d) (s_fl d) (s_bc d))).
  { intros cs. unfold good_ctx. rewrite ctx_tree_mk, ctx_blocks_mk, ctx_bcs_mk. split; assumption. }
  rewrite !Forall_app in L3. destruct L3 as [F1 [F2 F3]].
  assert (GA : forall cs, Forall good_ctx (flat_map all_ctxs cs) ->
                          Forall good_ctx (all_ctxs (mk_ctx i nk cs (s_bl d) (s_fl d) (s_bc d)))).
  { intros cs Hcs. apply Forall_forall. intros x Hx. apply all_ctxs_mk in Hx.
    rewrite Forall_forall in F1, F3, Hcs.
    destruct Hx as [->|[Hx|[Hx|Hx]]]; auto. }
  destruct (defines_ctx i); [|destruct (negb (static i)); [|destruct (flt i); [|destruct (stacking_class (knd i))]]];
    simpl; rewrite ?tree_nodes_mk, ?app_nil_r; simpl.
  - repeat split. now apply GA.
  - repeat split. apply Forall_app. split; [apply GA; constructor|exact F2].
  - repeat split. apply Forall_app. split; [exact F2|apply GA; constructor].
  - repeat split. apply Forall_app. split; [apply GA; constructor|exact F2].
  - unfold ctx_tree in L1, L2. simpl in L1, L2.
    unfold blp at 1, bcp at 1. simpl pinfo.
    destruct (is_parent (knd i)); rewrite L1, L2;
      destruct (block_level (knd i)); simpl; [| destruct (is_cell (knd i)) | | destruct (is_cell (knd i))]; simpl;
      repeat split; rewrite ?Forall_app; auto.
Qed.

(* all contexts of from_box t, nested ones included *)
Theorem aliases_are_tree_boxes t : Forall good_ctx (all_ctxs (from_box t)).
Proof.
  rewrite from_box_fd. cbv zeta. destruct t as [i kids]. simpl binfo.
  assert (L : s_bl (snd (fd_children (Box i kids))) = filter blp (ctx_tree (PB i (fst (fd_children (Box i kids))))) /\
              s_bc (snd (fd_children (Box i kids))) = filter bcp (ctx_tree (PB i (fst (fd_children (Box i kids))))) /\
              Forall good_ctx (flat_map all_ctxs (fst (fd_children (Box i kids))) ++
                               flat_map all_ctxs (s_cc (snd (fd_children (Box i kids)))) ++
                               flat_map all_ctxs (s_fl (snd (fd_children (Box i kids)))))).
  { unfold fd_children, ctx_tree. simpl. destruct (is_parent (knd i)).
    - clear. induction kids as [|k r [IH1 [IH2 IH3]]]; simpl; [repeat split; constructor|].
      destruct (fd_aliases k) as [Hk1 [Hk2 Hk3]].
      rewrite !flat_map_opt_cons, !flat_map_app', !filter_app', Hk1, Hk2, IH1, IH2.
      repeat split. rewrite !Forall_app in *. tauto.
    - simpl. repeat split. rewrite !app_nil_r. clear.
      assert (E : forall k, all_ctxs (embed k) = []).
      { induction k as [j ks IHk] using box_ind'. simpl. induction IHk as [|x r Hx _ IHr]; simpl; [reflexivity|].
        now rewrite Hx, IHr. }
      induction kids as [|k r IHr]; simpl; [constructor|]. now rewrite E. }
  destruct L as [L1 [L2 L3]]. rewrite !Forall_app in L3. destruct L3 as [F1 [F2 F3]].
  apply Forall_forall. intros x Hx. apply all_ctxs_mk in Hx.
  rewrite Forall_forall in F1, F2, F3.
  destruct Hx as [->|[Hx|[Hx|Hx]]]; auto.
  unfold good_ctx. rewrite ctx_tree_mk, ctx_blocks_mk, ctx_bcs_mk. split; assumption.
Qed.
