(* C14 - _standardize_page_based_counters of weasyprint/layout/page.py as REGENERATED from the source on every run
   (gen/GenPageCounters.v): for EVERY style (counter-set / counter-reset / counter-increment each 'auto' or any list
   of (name, value) pairs, whatever else the style dictionary holds) and both contexts (the page itself:
   pseudo_type None; a margin box: its at-keyword) the dictionary the body leaves in `style` is the hand model
   standardize of model/C14Pages.v (on which the page-counter theorems rest), and nothing is raised.
   The loop `for propname in ('counter_set', 'counter_reset', 'counter_increment')` is unrolled by the translator
   (option 'consts') so that style[propname] has a constant key; its `if ...: ...; continue` is an if / else; the
   inner loop over the pairs (tuple target) is handled for an abstract list as in C11_gen_clearance.  The style
   dictionary is the attribute bag [sty] (string keys), mutated in place in Python, read back from the final
   environment here. *)
From Coq Require Import ZArith QArith List String Bool.
Require Import WV.base.Py WV.base.PyLink WV.gen.GenPageCounters WV.model.C14Page WV.model.C14Pages WV.proofs.PyNatural.
Import ListNotations.
Open Scope string_scope.
Open Scope list_scope.

Definition vz (z : Z) : val := VNum (inject_Z z).
Definition vpair (nv : string * Z) : val := VList [VStr (fst nv); vz (snd nv)].
Definition vops (o : option ops) : val := match o with None => VStr "auto" | Some l => VList (map vpair l) end.
(* the style dictionary: the three counter properties first, then whatever else it holds *)
Definition sty (v1 v2 v3 : val) (extra : list (string * val)) : val :=
  VObj (("counter_set", v1) :: ("counter_reset", v2) :: ("counter_increment", v3) :: extra).

Definition st (n : nat) : stmt := nth n standardize_page_based_counters_body SPass.
Lemma body_split : standardize_page_based_counters_body = [st 0; st 1; st 2; st 3; st 4; st 5; st 6; st 7; st 8].
Proof. reflexivity. Qed.

Definition else_block (n : nat) : list stmt := match st n with SIf _ _ el => el | _ => [] end.
Definition loop_body : list stmt := match else_block 3 with [_; SFor _ _ body; _] => body | _ => [] end.

(* the environment: parameters, then the locals in the order of their first binding *)
Inductive eshape := SA | SB (acc : list val) | SC (acc : list val) (item name value : val).
Definition base (s pv : val) (t : bool) (pn : string) : env :=
  [("style", s); ("pseudo_type", pv); ("page_counter_touched", VBool t); ("propname", VStr pn)].
Definition mk s pv t pn (sh : eshape) : env :=
  match sh with
  | SA => base s pv t pn
  | SB acc => base s pv t pn ++ [("justified_values", VList acc)]
  | SC acc i n v => base s pv t pn ++ [("justified_values", VList acc); ("%item", i); ("name", n); ("value", v)]
  end.
Definition reset (sh : eshape) : eshape :=
  match sh with SA | SB _ => SB [] | SC _ i n v => SC [] i n v end.
Definition acc_of (sh : eshape) : list val := match sh with SA => [] | SB a | SC a _ _ _ => a end.
Definition keep (nv : string * Z) : bool := negb (String.eqb (fst nv) "pages").
Definition step_shape (sh : eshape) (nv : string * Z) : eshape :=
  SC (acc_of sh ++ (if keep nv then [vpair nv] else [])) (vpair nv) (VStr (fst nv)) (vz (snd nv)).
Definition is_page_name (nv : string * Z) : bool := String.eqb (fst nv) "page".

Section Std.
Variable O : qops.
Variable A : Type.
Variable kret : env -> val -> A.
Variable kerr : string -> A.
Notation xb := (exec_block O A kret kerr).
Notation xs := (exec O A kret kerr).

Lemma body_step s pv t pn sh nv k : sh <> SA ->
  xb loop_body (update "%item" (vpair nv) (mk s pv t pn sh)) k =
  k (mk s pv (t || is_page_name nv) pn (step_shape sh nv)).
Proof.
  destruct nv as [n z]. unfold step_shape, is_page_name, keep. cbn [fst snd].
  destruct sh as [|acc|acc i0 n0 v0]; [congruence| |]; intros _.
  all: unfold loop_body, else_block, st, standardize_page_based_counters_body, mk, base, vpair; cbn -[vz].
  all: destruct (String.eqb n "page"), (String.eqb n "pages"), t; cbn [negb orb]; rewrite ?app_nil_r; reflexivity.
Qed.

Definition fold_shape (l : ops) (sh : eshape) : eshape := fold_left step_shape l sh.

Lemma step_not_SA sh nv : step_shape sh nv <> SA.
Proof. discriminate. Qed.

Lemma loop_spec s pv pn : forall (l : ops) t sh k, sh <> SA ->
  gen_iter (fun v rho k' => xb loop_body (update "%item" v rho) k') (map vpair l) (mk s pv t pn sh) k =
  k (mk s pv (t || existsb is_page_name l) pn (fold_shape l sh)).
Proof.
  induction l as [|nv l IH]; intros t sh k Hsh.
  - cbn [map gen_iter existsb fold_shape fold_left]. now rewrite orb_false_r.
  - cbn [map gen_iter existsb]. rewrite body_step by exact Hsh. rewrite IH by apply step_not_SA.
    now rewrite orb_assoc.
Qed.

Lemma acc_fold : forall (l : ops) sh, acc_of (fold_shape l sh) = acc_of sh ++ map vpair (filter keep l).
Proof.
  induction l as [|nv l IH]; intros sh; cbn [fold_shape fold_left filter map]; [now rewrite app_nil_r|].
  fold (fold_shape l (step_shape sh nv)). rewrite IH. unfold step_shape at 1. cbn [acc_of].
  destruct (keep nv); cbn [map]; rewrite <- app_assoc; reflexivity.
Qed.

Lemma fold_not_SA : forall (l : ops) sh, sh <> SA -> fold_shape l sh <> SA.
Proof.
  induction l as [|nv l IH]; intros sh H; [exact H|]. cbn [fold_shape fold_left]. apply IH, step_not_SA.
Qed.

Lemma flowing_mk s pv t pn sh : flowing (mk s pv t pn sh) = false.
Proof. destruct sh; reflexivity. Qed.

Definition eb (n i : nat) : stmt := nth i (else_block n) SPass.
Lemma else_split n : n = 3%nat \/ n = 5%nat \/ n = 7%nat -> else_block n = [eb n 0; eb n 1; eb n 2].
Proof. intros [->|[->| ->]]; reflexivity. Qed.

(* propname = '<property>' *)
Lemma prop_assign n c s pv t pn sh K :
  (n = 2%nat /\ c = "counter_set") \/ (n = 4%nat /\ c = "counter_reset") \/ (n = 6%nat /\ c = "counter_increment") ->
  xs (st n) (mk s pv t pn sh) K = K (mk s pv t c sh).
Proof. intros [[-> ->]|[[-> ->]|[-> ->]]]; destruct sh; reflexivity. Qed.

(* justified_values = [] *)
Lemma jv_reset n s pv t pn sh K : n = 3%nat \/ n = 5%nat \/ n = 7%nat ->
  xs (eb n 0) (mk s pv t pn sh) K = K (mk s pv t pn (reset sh)).
Proof. intros [->|[->| ->]]; destruct sh; reflexivity. Qed.

Notation loopf := (fun v rho k' => xb loop_body (update "%item" v rho) k').

Lemma for_set l v2 v3 ex pv t pn sh K :
  xs (eb 3 1) (mk (sty (VList l) v2 v3 ex) pv t pn sh) K = gen_iter loopf l (mk (sty (VList l) v2 v3 ex) pv t pn sh) K.
Proof. destruct sh; reflexivity. Qed.
Lemma for_reset l v1 v3 ex pv t pn sh K :
  xs (eb 5 1) (mk (sty v1 (VList l) v3 ex) pv t pn sh) K = gen_iter loopf l (mk (sty v1 (VList l) v3 ex) pv t pn sh) K.
Proof. destruct sh; reflexivity. Qed.
Lemma for_incr l v1 v2 ex pv t pn sh K :
  xs (eb 7 1) (mk (sty v1 v2 (VList l) ex) pv t pn sh) K = gen_iter loopf l (mk (sty v1 v2 (VList l) ex) pv t pn sh) K.
Proof. destruct sh; reflexivity. Qed.

(* style['<property>'] = tuple(justified_values) *)
Lemma store_set v1 v2 v3 ex pv t pn sh K : sh <> SA ->
  xs (eb 3 2) (mk (sty v1 v2 v3 ex) pv t pn sh) K = K (mk (sty (VList (acc_of sh)) v2 v3 ex) pv t pn sh).
Proof. destruct sh; [congruence| |]; reflexivity. Qed.
Lemma store_reset v1 v2 v3 ex pv t pn sh K : sh <> SA ->
  xs (eb 5 2) (mk (sty v1 v2 v3 ex) pv t pn sh) K = K (mk (sty v1 (VList (acc_of sh)) v3 ex) pv t pn sh).
Proof. destruct sh; [congruence| |]; reflexivity. Qed.
Lemma store_incr v1 v2 v3 ex pv t pn sh K : sh <> SA ->
  xs (eb 7 2) (mk (sty v1 v2 v3 ex) pv t pn sh) K = K (mk (sty v1 v2 (VList (acc_of sh)) ex) pv t pn sh).
Proof. destruct sh; [congruence| |]; reflexivity. Qed.

Definition after (o : option ops) (sh : eshape) : eshape :=
  match o with None => sh | Some l => fold_shape l (reset sh) end.
Lemma reset_not_SA sh : reset sh <> SA.
Proof. destruct sh; discriminate. Qed.
Lemma acc_reset sh : acc_of (reset sh) = [].
Proof. destruct sh; reflexivity. Qed.

Lemma if_set o v2 v3 ex pv t pn sh K :
  xs (st 3) (mk (sty (vops o) v2 v3 ex) pv t pn sh) K =
  K (mk (sty (VList (map vpair (drop_pages o))) v2 v3 ex) pv (t || touches_page o) pn (after o sh)).
Proof.
  destruct o as [l|]; [|destruct sh, t; reflexivity].
  cbn [vops after].
  assert (E : xs (st 3) (mk (sty (VList (map vpair l)) v2 v3 ex) pv t pn sh) K =
              xb (else_block 3) (mk (sty (VList (map vpair l)) v2 v3 ex) pv t pn sh) K)
    by (destruct sh; reflexivity).
  rewrite E; clear E.
  rewrite else_split by auto. cbn [exec_block].
  rewrite jv_reset by auto. rewrite flowing_mk. rewrite for_set. rewrite loop_spec by apply reset_not_SA.
  rewrite flowing_mk. rewrite store_set by apply fold_not_SA, reset_not_SA. rewrite flowing_mk.
  rewrite acc_fold, acc_reset. reflexivity.
Qed.

Lemma if_reset o v1 v3 ex pv t pn sh K :
  xs (st 5) (mk (sty v1 (vops o) v3 ex) pv t pn sh) K =
  K (mk (sty v1 (VList (map vpair (drop_pages o))) v3 ex) pv (t || touches_page o) pn (after o sh)).
Proof.
  destruct o as [l|]; [|destruct sh, t; reflexivity].
  cbn [vops after].
  assert (E : xs (st 5) (mk (sty v1 (VList (map vpair l)) v3 ex) pv t pn sh) K =
              xb (else_block 5) (mk (sty v1 (VList (map vpair l)) v3 ex) pv t pn sh) K)
    by (destruct sh; reflexivity).
  rewrite E; clear E.
  rewrite else_split by auto. cbn [exec_block].
  rewrite jv_reset by auto. rewrite flowing_mk. rewrite for_reset. rewrite loop_spec by apply reset_not_SA.
  rewrite flowing_mk. rewrite store_reset by apply fold_not_SA, reset_not_SA. rewrite flowing_mk.
  rewrite acc_fold, acc_reset. reflexivity.
Qed.

Lemma if_incr o v1 v2 ex pv t pn sh K :
  xs (st 7) (mk (sty v1 v2 (vops o) ex) pv t pn sh) K =
  K (mk (sty v1 v2 (VList (map vpair (drop_pages o))) ex) pv (t || touches_page o) pn (after o sh)).
Proof.
  destruct o as [l|]; [|destruct sh, t; reflexivity].
  cbn [vops after].
  assert (E : xs (st 7) (mk (sty v1 v2 (VList (map vpair l)) ex) pv t pn sh) K =
              xb (else_block 7) (mk (sty v1 v2 (VList (map vpair l)) ex) pv t pn sh) K)
    by (destruct sh; reflexivity).
  rewrite E; clear E.
  rewrite else_split by auto. cbn [exec_block].
  rewrite jv_reset by auto. rewrite flowing_mk. rewrite for_incr. rewrite loop_spec by apply reset_not_SA.
  rewrite flowing_mk. rewrite store_incr by apply fold_not_SA, reset_not_SA. rewrite flowing_mk.
  rewrite acc_fold, acc_reset. reflexivity.
Qed.

(* pseudo_type: None for the page itself, the at-keyword of a margin box otherwise *)
Definition vpseudo (is_page : bool) (kw : string) : val := if is_page then VNone else VStr kw.

Lemma final_if v1 v2 (l3 : ops) ex is_page kw t pn sh K :
  xs (st 8) (mk (sty v1 v2 (VList (map vpair l3)) ex) (vpseudo is_page kw) t pn sh) K =
  K (mk (sty v1 v2 (VList (map vpair (if is_page && negb t then ("page", 1%Z) :: l3 else l3))) ex)
        (vpseudo is_page kw) t pn sh).
Proof. destruct is_page, t, sh; reflexivity. Qed.

Lemma prologue s pv rest k :
  xb (st 0 :: st 1 :: st 2 :: rest) [("style", s); ("pseudo_type", pv)] k = xb rest (mk s pv false "counter_set" SA) k.
Proof. reflexivity. Qed.

Definition final_shape (c : cstyle) : eshape := after (c_incr c) (after (c_reset c) (after (c_set c) SA)).
Definition vstd (r : ops * ops * ops) (extra : list (string * val)) : val :=
  sty (VList (map vpair (fst (fst r)))) (VList (map vpair (snd (fst r)))) (VList (map vpair (snd r))) extra.

Lemma body_value (c : cstyle) (is_page : bool) kw ex k :
  xb standardize_page_based_counters_body
     [("style", sty (vops (c_set c)) (vops (c_reset c)) (vops (c_incr c)) ex); ("pseudo_type", vpseudo is_page kw)] k =
  k (mk (vstd (standardize c is_page) ex) (vpseudo is_page kw)
        (touches_page (c_set c) || touches_page (c_reset c) || touches_page (c_incr c)) "counter_increment"
        (final_shape c)).
Proof.
  rewrite body_split, prologue. cbn [exec_block].
  rewrite if_set, flowing_mk. rewrite (prop_assign 4 "counter_reset") by auto. rewrite flowing_mk.
  rewrite if_reset, flowing_mk. rewrite (prop_assign 6 "counter_increment") by auto. rewrite flowing_mk.
  rewrite if_incr, flowing_mk. rewrite final_if, flowing_mk.
  cbn [orb]. unfold standardize, vstd, final_shape. cbn [fst snd]. reflexivity.
Qed.
End Std.

Theorem gen_standardize O (c : cstyle) (is_page : bool) (kw : string) (extra : list (string * val)) :
  run O standardize_page_based_counters_body
    [("style", sty (vops (c_set c)) (vops (c_reset c)) (vops (c_incr c)) extra); ("pseudo_type", vpseudo is_page kw)]
    (fun rho r => r = None /\ lookup "style" rho = vstd (standardize c is_page) extra) (fun _ => False).
Proof.
  unfold run. rewrite body_value. split; [reflexivity|]. destruct (final_shape c); reflexivity.
Qed.
Print Assumptions gen_standardize.

(* consequences for the source, in the terms of the property: no `pages` entry is left, every other entry is kept in
   order, and the page context gets `counter-increment: page 1` in front exactly when no property names `page` *)
Lemma run_consequence O body rho (P P' : env -> option val -> Prop) (E E' : string -> Prop) :
  (forall r v, P r v -> P' r v) -> (forall m, E m -> E' m) -> run O body rho P E -> run O body rho P' E'.
Proof.
  intros HP HE. rewrite !run_natural. destruct (run_out O body rho) as [rho' r|m]; [apply HP|apply HE].
Qed.

Definition oplist (o : option ops) : ops := match o with Some l => l | None => [] end.
Definition names_page (c : cstyle) : Prop :=
  exists v, In ("page", v) (oplist (c_set c)) \/ In ("page", v) (oplist (c_reset c)) \/ In ("page", v) (oplist (c_incr c)).

Lemma touches_iff o : touches_page o = true <-> exists v, In ("page", v) (oplist o).
Proof.
  destruct o as [l|]; cbn; [|split; [discriminate|intros [v []]]].
  rewrite existsb_exists. split.
  - intros [[n v] [Hin E]]. cbn in E. apply String.eqb_eq in E. subst n. now exists v.
  - intros [v Hin]. exists ("page", v). split; [exact Hin|reflexivity].
Qed.

Lemma drop_pages_spec o nv : In nv (drop_pages o) <-> In nv (oplist o) /\ fst nv <> "pages".
Proof.
  destruct o as [l|]; cbn; [|tauto]. rewrite filter_In, negb_true_iff.
  split; intros [H1 H2]; (split; [exact H1|]).
  - intros E. rewrite E in H2. discriminate.
  - destruct (String.eqb_spec (fst nv) "pages"); [contradiction|reflexivity].
Qed.

Theorem source_standardize_spec O (c : cstyle) (is_page : bool) (kw : string) extra :
  run O standardize_page_based_counters_body
    [("style", sty (vops (c_set c)) (vops (c_reset c)) (vops (c_incr c)) extra); ("pseudo_type", vpseudo is_page kw)]
    (fun rho r => r = None /\ exists s' r' i' : ops,
       lookup "style" rho = sty (VList (map vpair s')) (VList (map vpair r')) (VList (map vpair i')) extra /\
       s' = filter keep (oplist (c_set c)) /\ r' = filter keep (oplist (c_reset c)) /\
       (forall nv, In nv s' <-> In nv (oplist (c_set c)) /\ fst nv <> "pages") /\
       (forall nv, In nv r' <-> In nv (oplist (c_reset c)) /\ fst nv <> "pages") /\
       ((is_page = true /\ ~ names_page c) -> i' = ("page", 1%Z) :: filter keep (oplist (c_incr c))) /\
       ((is_page = false \/ names_page c) -> i' = filter keep (oplist (c_incr c))))
    (fun _ => False).
Proof.
  eapply run_consequence; [| |exact (gen_standardize O c is_page kw extra)]; [|intros m []].
  intros rho r [Hr Hs]. split; [exact Hr|].
  exists (fst (fst (standardize c is_page))), (snd (fst (standardize c is_page))), (snd (standardize c is_page)).
  split; [exact Hs|]. unfold standardize. cbn [fst snd].
  assert (D : forall o, drop_pages o = filter keep (oplist o)) by (intros [l|]; reflexivity).
  assert (T : touches_page (c_set c) || touches_page (c_reset c) || touches_page (c_incr c) = true <-> names_page c).
  { rewrite !orb_true_iff, !touches_iff. unfold names_page. split.
    - intros [[[v H]|[v H]]|[v H]]; exists v; tauto.
    - intros [v [H|[H|H]]]; [left; left|left; right|right]; now exists v. }
  split; [apply D|]. split; [apply D|]. split; [intros nv; apply drop_pages_spec|].
  split; [intros nv; apply drop_pages_spec|]. split.
  - intros [-> Hn]. destruct (touches_page (c_set c) || touches_page (c_reset c) || touches_page (c_incr c)) eqn:E.
    + exfalso. apply Hn, T. reflexivity.
    + cbn. now rewrite D.
  - intros [->|Hn]; [cbn; apply D|]. apply T in Hn. rewrite Hn, andb_false_r. apply D.
Qed.
Print Assumptions source_standardize_spec.

(* concrete runs with the real operations: `counter-increment: pages 2 x 1` on a page, `counter-reset: page 5` on a
   page, 'auto' everywhere in a margin box *)
Example run_standardize :
  run real_ops standardize_page_based_counters_body
    [("style", sty (VStr "auto") (VStr "auto") (vops (Some [("pages", 2%Z); ("x", 1%Z)])) [("color", VStr "red")]);
     ("pseudo_type", VNone)]
    (fun rho r => r = None /\ lookup "style" rho =
       sty (VList []) (VList []) (VList [vpair ("page", 1%Z); vpair ("x", 1%Z)]) [("color", VStr "red")])
    (fun _ => False)
  /\ run real_ops standardize_page_based_counters_body
    [("style", sty (VStr "auto") (vops (Some [("page", 5%Z)])) (VStr "auto") []); ("pseudo_type", VNone)]
    (fun rho r => r = None /\ lookup "style" rho = sty (VList []) (VList [vpair ("page", 5%Z)]) (VList []) [])
    (fun _ => False)
  /\ run real_ops standardize_page_based_counters_body
    [("style", sty (VStr "auto") (VStr "auto") (VStr "auto") []); ("pseudo_type", VStr "@top-left")]
    (fun rho r => r = None /\ lookup "style" rho = sty (VList []) (VList []) (VList []) [])
    (fun _ => False).
Proof. vm_compute. repeat split. Qed.
