(* C17 - statements the faithful model falsifies (each witness is replayed on the implementation by the
   harness: these are findings about WeasyPrint, not about the model). *)
From Coq Require Import ZArith List Bool.
Require Import WV.model.C17Stacking WV.model.C17Spec WV.model.C17Judge.
Import ListNotations.
Open Scope Z_scope.

Definition painted (l : list event) (id : Z) (ly : layer) : bool := negb (Nat.eqb (count_ev l id ly) 0).

Definition plain (id : Z) (k : kind) : info := I id k PStatic None TNone 0.

(* 1. a table row that forms a stacking context (here: opacity < 1): Appendix E paints the row's background and
      its cells' backgrounds; draw_stacking_context paints neither (TableRowBox is not in the point 2 tuple and
      draw_table never sees the row). *)
Definition w_row : box :=
  Box (plain 0 KBlock)
    [Box (plain 1 KTable)
       [Box (plain 2 KRowGroup)
          [Box (I 3 KRow PStatic None TNone 2 (* opacity *))
             [Box (plain 4 KCell) [Box (plain 5 KLine) [Box (plain 6 KText) []]]]]]].

Theorem row_context_background_lost :
  exists t, painted (appendix_E_paint t) 3 LBg = true /\ painted (paint_ctx (from_box t)) 3 LBg = false /\
            painted (appendix_E_paint t) 4 LBg = true /\ painted (paint_ctx (from_box t)) 4 LBg = false /\
            painted (paint_ctx (from_box t)) 6 LContent = true.
Proof. exists w_row. vm_compute. repeat split. Qed.

(* 2. (was a finding, fixed in /repo 22caa46: GridContainerBox joined the point 2 tuple) a grid container that
      forms a stacking context paints its own background and border, as Appendix E steps 1-2 say *)
Definition w_grid : box :=
  Box (plain 0 KBlock)
    [Box (I 1 KGrid PStatic None TNone 2) [Box (plain 2 KBlock) [Box (plain 3 KLine) [Box (plain 4 KText) []]]]].

Example grid_context_background_painted :
  painted (appendix_E_paint w_grid) 1 LBg = true /\ painted (paint_ctx (from_box w_grid)) 1 LBg = true /\
  painted (paint_ctx (from_box w_grid)) 1 LBorder = true /\ wf w_grid = true.
Proof. vm_compute. repeat split. Qed.

(* 3. (was a finding, fixed in /repo 673f68d) z-index on a box that is not positioned (nor a flex / grid item) but
      forms a stacking context through opacity: it does not apply (CSS 2.1 9.9.1), the box is painted with the
      z = 0 contexts, after the in-flow blocks; the tree is now well-formed and the order theorem covers it. *)
Definition w_zstatic : box :=
  Box (plain 0 KBlock)
    [Box (plain 1 KBlock) [];
     Box (I 2 KBlock PStatic (Some (-1)) TNone 2) []].

Fixpoint index_of (l : list event) (id : Z) (ly : layer) (n : nat) : option nat :=
  match l with
  | [] => None
  | EPaint i y :: r => if (i =? id) && layer_eqb y ly then Some n else index_of r id ly (S n)
  | _ :: r => index_of r id ly (S n)
  end.
Definition before (l : list event) (a b : Z) : bool :=
  match index_of l a LBg 0, index_of l b LBg 0 with Some x, Some y => Nat.ltb x y | _, _ => false end.

Example z_index_ignored_on_non_positioned :
  before (appendix_E_paint w_zstatic) 1 2 = true /\ before (paint_ctx (from_box w_zstatic)) 1 2 = true /\
  wf w_zstatic = true /\ ctx_neg (from_box w_zstatic) = [].
Proof. vm_compute. repeat split. Qed.

(* 4. (was a finding, fixed in /repo 5ad683d) a cell of a collapsed-border table painted as a context (here:
      position: relative) paints its background and no border of its own *)
Definition w_ccell : box :=
  Box (plain 0 KBlock)
    [Box (I 1 KTable PStatic None TNone 64 (* border-collapse *))
       [Box (plain 2 KRowGroup)
          [Box (plain 3 KRow)
             [Box (I 4 KCell PRelative None TNone 64) [Box (plain 5 KLine) [Box (plain 6 KText) []]]]]]].

Example collapsed_cell_context_paints_no_border :
  painted (paint_ctx (from_box w_ccell)) 4 LBg = true /\ painted (paint_ctx (from_box w_ccell)) 4 LBorder = false /\
  painted (appendix_E_paint w_ccell) 4 LBorder = false /\ painted (paint_ctx (from_box w_ccell)) 1 LBorder = true /\
  wf w_ccell = true.
Proof. vm_compute. repeat split. Qed.
