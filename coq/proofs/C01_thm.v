(* C01: the conservation theorems for bcl and for the page loop. *)
From Coq Require Import ZArith List Bool Lia Arith.
Require Import WV.model.Frag2 WV.proofs.C01_defs WV.proofs.C01_lines WV.proofs.C01_blocks WV.proofs.C01_step
        WV.proofs.C01_main.
Import ListNotations.
Open Scope nat_scope.

Lemma finish_blk_some c st is_root pie cwc pos_y1 mt pt bt bs lo r A B C :
  finish_blk c st is_root pie cwc pos_y1 mt pt bt bs lo = (Some r, A, B, C) ->
  exists broke resume0 s, lo = LDone broke resume0 s /\
    b_resume r = (if broke then resume0 else None) /\
    exists y m mb p pb b bb h, b_frag r = FBlk st 0 y m mb p pb b bb h (ls_newc s).
Proof.
  unfold finish_blk. destruct lo as [O|broke resume0 s]; [discriminate|].
  cbv zeta.
  match goal with |- context [if ?cnd then (None, _, _, _) else _] => destruct cnd end; [discriminate|].
  repeat match goal with
         | |- context [let '(_, _) := (if ?cnd then _ else _) in _] => destruct cnd
         end;
  intros H; inversion H; subst; do 3 eexists; (split; [reflexivity|]); (split; [reflexivity|]); simpl; eauto 10.
Qed.

Lemma wf_skip_blk st kids r sk : wf_skip (Blk st kids r) sk ->
  sk = None \/ exists i sub, sk = Some (SChild i sub) /\ wf_skip_kids kids i sub.
Proof.
  destruct sk as [[k|i sub]|]; intros H; [simpl in H; contradiction| |now left].
  right. exists i, sub. split; [reflexivity|]. now rewrite wf_skip_child in H.
Qed.

Lemma words_from_blk_decode st kids r sk : wf_skip (Blk st kids r) sk ->
  words_from (Blk st kids r) sk = words_from_kids words_from kids (skip_idx sk) (skip_sub sk).
Proof.
  intros H. destruct (wf_skip_blk _ _ _ _ H) as [->|(i & sub & -> & _)].
  - simpl skip_idx. simpl skip_sub. now rewrite wfk_0_none, words_from_none, bwords_blk.
  - now rewrite words_from_child.
Qed.

Lemma words_from_lines ids sub : wf_skip (Lines ids) sub ->
  words_from (Lines ids) sub = skipn (start_line sub) ids.
Proof. destruct sub as [[k|? ?]|]; simpl; intros H; try contradiction; reflexivity. Qed.

Theorem bcl_conserves : forall b c, wf_box b = true -> RS b (bcl c b).
Proof.
  induction b as [ids|st kids rt IH] using box_ind'; intros c Hwfb p m bs sk pie a r A B C Hwfs Hrun.
  - discriminate Hrun.
  - rewrite wf_box_blk in Hwfb. apply andb_prop in Hwfb. destruct Hwfb as [Hwfb Hwfk].
    apply andb_prop in Hwfb. destruct Hwfb as [Hwfb Hshape]. apply andb_prop in Hwfb. destruct Hwfb as [Ho Hw].
    apply Nat.leb_le in Ho. apply Nat.leb_le in Hw.
    cbn [bcl] in Hrun. cbv zeta in Hrun.
    apply finish_blk_some in Hrun. destruct Hrun as (broke & resume0 & s & Hloop & Hres & (y & m' & mb & p' & pb & b' & bb & h & Hfrag)).
    rewrite Hfrag, Hres, fwords_blk. clear Hfrag Hres.
    change (match sk with Some (SChild i _) => i | _ => 0 end) with (skip_idx sk) in Hloop.
    change (match sk with Some (SChild _ s0) => s0 | _ => None end) with (skip_sub sk) in Hloop.
    rewrite (words_from_blk_decode _ _ _ _ Hwfs).
    (* the paragraph case and the block-children case *)
    assert (Hcase : (exists ids, kids = [Lines ids]) \/ forallb is_blk kids = true).
    { unfold kids_shape in Hshape. destruct kids as [|[ids|st1 k1 r1] [|k2 l]]; eauto. }
    destruct Hcase as [[ids ->]|Hblk].
    + (* one line-box child *)
      assert (Hi0 : skip_idx sk = 0 /\ wf_skip (Lines ids) (skip_sub sk)).
      { destruct (wf_skip_blk _ _ _ _ Hwfs) as [->|(i & sub & -> & Hk)]; [split; [reflexivity|exact I]|].
        simpl. destruct i; simpl in Hk; [auto|contradiction]. }
      destruct Hi0 as [Hi0 Hwl]. rewrite Hi0 in Hloop. cbn [kids_loop] in Hloop.
      match type of Hloop with context [lines_step ?c ?st ?pb ?bb ?pie ?bs ids 0 ?sub ?s0] =>
        pose proof (lines_step_spec c st pb bb pie bs ids 0 sub s0 Ho Hwl) as Hls;
        destruct (lines_step c st pb bb pie bs ids 0 sub s0) as [O|res s'|s'] end; [discriminate| |].
      * injection Hloop as <- <- <-.
        destruct Hls as (placed & n & Hn & Hok & Hne & Hnn & Hlt & ->). simpl in Hn. rewrite Hn.
        cbn [words_res]. rewrite words_from_child. rewrite Hi0. cbn [words_from_kids bwords_l flat_map].
        rewrite !app_nil_r, (words_from_lines _ _ Hwl). cbn [words_from].
        split; [|split].
        -- rewrite (lines_ok_words _ _ _ _ _ Hok).
           rewrite <- (firstn_skipn (length placed) (skipn (start_line (skip_sub sk)) ids)) at 2.
           f_equal. rewrite skipn_add. f_equal. lia.
        -- cbn [wf_res]. rewrite wf_skip_child. simpl. exact Hlt.
        -- discriminate.
      * cbn [kids_loop] in Hloop. injection Hloop as <- <- <-.
        destruct Hls as (placed & Hn & Hok & Hlen). simpl in Hn. rewrite Hn.
        cbn [words_res]. rewrite app_nil_r, Hi0. cbn [words_from_kids bwords_l flat_map]. rewrite app_nil_r.
        rewrite (words_from_lines _ _ Hwl).
        split; [|split].
        -- rewrite (lines_ok_words _ _ _ _ _ Hok).
           replace (length placed) with (length (skipn (start_line (skip_sub sk)) ids)) by (rewrite skipn_length; lia).
           apply firstn_all.
        -- exact I.
        -- intros _. now constructor.
    + (* block children *)
      assert (HFE : Forall FE kids) by (apply Forall_forall; intros; apply find_earlier_conserves).
      assert (Hi0 : skip_idx sk <= length kids /\
                    (forall child, nth_error kids (skip_idx sk) = Some child -> wf_skip child (skip_sub sk))).
      { destruct (wf_skip_blk _ _ _ _ Hwfs) as [->|(i & sub & -> & Hk)].
        - simpl. split; [lia|intros; apply wf_skip_none].
        - simpl. pose proof (wf_skip_kids_lt _ _ _ Hk). split; [lia|].
          intros child Hc. destruct (wf_skip_kids_inv _ _ _ Hk) as (kid & Hk1 & Hk2). congruence. }
      destruct Hi0 as [Hi0 Hwfsub].
      rewrite kids_loop_skip in Hloop by exact Hi0. simpl Nat.add in Hloop.
      match type of Hloop with kids_loop ?stepf _ _ _ _ ?s0 = _ =>
        pose proof (kids_loop_ok kids (skip_idx sk) (skip_sub sk) HFE Hwfk stepf) as HKL;
        specialize (fun H => HKL H (skipn (skip_idx sk) kids) (skip_idx sk) (skip_sub sk) s0 eq_refl Hi0)
      end.
      simpl ls_newc in HKL.
      assert (Hstep : forall index child sub s1, nth_error kids index = Some child ->
                exists rec, RS child rec /\
                  step_shape rec index sub (ls_newc s1)
                    (match child with
                     | Lines ids0 => lines_step c st (s_pb st) (s_bb st) pie
                          (if s_clone st then (bs + s_pb st + s_bb st + Z.max 0 (s_mb st))%Z else bs) ids0 index sub s1
                     | Blk cst _ _ => blk_step c (bcl c child) child cst rt pie
                          (if s_clone st then (bs + s_pb st + s_bb st + Z.max 0 (s_mb st))%Z else bs) index sub s1
                     end)).
      { intros index child sub s1 Hk.
        pose proof (forallb_nth _ _ _ _ Hblk Hk) as Hb. destruct child as [|cst ck cr]; [discriminate|].
        exists (bcl c (Blk cst ck cr)). split.
        - apply (Forall_nth _ _ _ _ IH Hk). exact (forallb_nth _ _ _ _ Hwfk Hk).
        - apply blk_step_shape. }
      assert (Hcov0 : covers kids (skip_idx sk) (skip_sub sk) []) by (intros [|j] f Hf; discriminate Hf).
      specialize (HKL Hstep Hcov0 ltac:(simpl; lia) eq_refl Hwfsub).
      rewrite Hloop in HKL. cbn [fwords_l flat_map app] in HKL.
      destruct broke.
      * destruct HKL as (jj & x & -> & Hwx & Hwd). cbn [words_res]. rewrite words_from_child.
        split; [exact Hwd|]. split; [|discriminate]. cbn [wf_res]. now rewrite wf_skip_child.
      * destruct HKL as (Hcov & Hlen & Hwd). cbn [words_res]. rewrite app_nil_r.
        split; [exact Hwd|]. split; [exact I|]. intros _.
        apply cinv_blk; auto.
Qed.
Print Assumptions bcl_conserves.

(* ---- the page loop ---- *)
Definition page_words (p : side * list (Z * Z)) : list Z := map fst (snd p).
Definition pages_words (l : list (side * list (Z * Z))) : list Z := flat_map page_words l.

Theorem pages_conserve : forall fuel root H lh ltr i resume np right,
  wf_box root = true -> wf_skip root resume ->
  match paginate_loop fuel root H lh ltr i resume np right with
  | PDone pages => pages_words pages = words_from root resume
  | PFuel pages lft => pages_words pages ++ words_from root lft = words_from root resume /\ wf_skip root lft
  | PStuck _ => True
  end.
Proof.
  induction fuel as [|fuel IH]; intros root H lh ltr i resume np right Hwf Hsk; [simpl; auto|].
  cbn [paginate_loop]. cbv zeta.
  destruct (is_blank ltr np right).
  - specialize (IH root H lh ltr (S i) resume np (negb right) Hwf Hsk).
    destruct (paginate_loop fuel root H lh ltr (S i) resume np (negb right)); simpl; auto.
  - destruct root as [ids|rst kids rt]; [exact I|].
    match goal with |- context [bcl ?c ?b ?p ?m ?bs resume true ?a] =>
      destruct (bcl c b p m bs resume true a) as [[[res A] B] C] eqn:Erun end.
    destruct res as [r|]; [|exact I].
    destruct (bcl_conserves _ _ Hwf _ _ _ _ _ _ _ _ _ _ Hsk Erun) as (Hw & Hwr & _).
    assert (Hpage : map fst (frag_lines (b_frag r)) = fwords (b_frag r)) by apply fwords_frag_lines.
    destruct (b_resume r) as [s|] eqn:Eres.
    + cbn [words_res wf_res] in Hw, Hwr.
      specialize (IH (Blk rst kids rt) H lh ltr (S i) (Some s) (b_np r) (negb right) Hwf Hwr).
      destruct (paginate_loop fuel (Blk rst kids rt) H lh ltr (S i) (Some s) (b_np r) (negb right)) as [pages|pages lft|pages];
        cbn [pcons]; auto.
      * unfold pages_words in *. cbn [flat_map]. unfold page_words at 1. cbn [snd]. rewrite Hpage, IH. exact Hw.
      * destruct IH as [IH1 IH2]. split; [|exact IH2].
        unfold pages_words in *. cbn [flat_map]. unfold page_words at 1. cbn [snd]. rewrite Hpage, <- app_assoc, IH1. exact Hw.
    + cbn [words_res] in Hw. rewrite app_nil_r in Hw.
      unfold pages_words. cbn [flat_map]. unfold page_words. cbn [snd]. now rewrite app_nil_r, Hpage.
Qed.
Print Assumptions pages_conserve.

(* the whole document: every word exactly once, in source order *)
Lemma paginate_loop_conserves fuel root H lh pages :
  wf_box root = true -> paginate_loop fuel root H lh true 0 None None true = PDone pages ->
  pages_words pages = bwords root.
Proof.
  intros Hwf Hp.
  pose proof (pages_conserve fuel root H lh true 0 None None true Hwf (wf_skip_none _)) as Hc.
  rewrite Hp in Hc. now rewrite words_from_none in Hc.
Qed.
(* no word twice: follows from conservation when the source words are distinct *)
Corollary paginate_no_duplicates fuel root H lh pages :
  wf_box root = true -> NoDup (bwords root) ->
  paginate_loop fuel root H lh true 0 None None true = PDone pages -> NoDup (pages_words pages).
Proof. intros Hwf Hnd Hp. now rewrite (paginate_loop_conserves _ _ _ _ _ Hwf Hp). Qed.
